#!/bin/bash
# usage: run_all.sh [seed] [tier] -- runs every check listed in harness/ready.txt, 4 at a time; prints one line each
cd "$(dirname "$0")"
seed=${1:-0}; tier=${2:-quick}
mkdir -p /var/tmp/verif_runall
cat harness/ready.txt | sort -u | xargs -P 4 -I{} bash -c "VERIF_SEED=$seed ./check {} --tier $tier > /var/tmp/verif_runall/{}_$seed.log 2>&1; echo {} seed=$seed exit=\$? \$(grep -c VIOLATION /var/tmp/verif_runall/{}_$seed.log) violations, \$(tail -1 /var/tmp/verif_runall/{}_$seed.log)"
