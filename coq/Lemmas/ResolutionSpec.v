(* choose_overload (the loops of runner.py after the repair) computes the documented
   rules stated with set-like combinators (resolve_spec); evaluation log; first layer wins. *)
From Coq Require Import List ZArith Bool Arith Lia.
From YV Require Import Common.Corr Model.Resolution.
Import ListNotations.

Lemma list_eqb_bool_spec (l1 l2 : list bool) : list_eqb Bool.eqb l1 l2 = true <-> l1 = l2.
Proof.
  revert l2; induction l1 as [|x l1 IH]; intros [|y l2]; cbn; split; intro H; try congruence; try reflexivity.
  - apply andb_true_iff in H as [H1 H2]. apply eqb_prop in H1. apply IH in H2. congruence.
  - injection H as -> ->. rewrite eqb_reflx. cbn. apply IH. reflexivity.
Qed.

Lemma sig_eqb_spec (a b : list bool * list bool) : sig_eqb a b = true <-> a = b.
Proof.
  destruct a as [a1 a2], b as [b1 b2]. unfold sig_eqb; cbn. rewrite andb_true_iff, !list_eqb_bool_spec.
  split; [intros [-> ->]; reflexivity | intro H; injection H as -> ->; split; reflexivity].
Qed.

Lemma sig_eqb_refl a : sig_eqb a a = true.
Proof. apply sig_eqb_spec. reflexivity. Qed.

Definition nonempty {A} (l : list A) : bool := negb (match l with [] => true | _ => false end).

Lemma concat_nil_filter {A} (l : list (list A)) : concat l = [] -> filter nonempty l = [].
Proof.
  induction l as [|x l IH]; cbn; intro H; [reflexivity|].
  apply app_eq_nil in H as [-> H]. cbn. apply IH, H.
Qed.

Lemma concat_cons_filter {A} (l : list (list A)) x r : concat l = x :: r -> filter nonempty l <> [].
Proof.
  induction l as [|y l IH]; cbn; intro H; [discriminate|].
  destruct y as [|y0 y]; cbn in *; [apply IH, H | discriminate].
Qed.

Lemma bool_eq_iff (a b : bool) : (a = true <-> b = true) -> a = b.
Proof. destruct a, b; intros [H1 H2]; try reflexivity; [symmetry; apply H1 | apply H2]; reflexivity. Qed.

Section Sub.
Variable sub : tag -> tag -> bool.

Notation callable := (callable sub).
Notation loop1_level := (loop1_level sub).
Notation loop1 := (loop1 sub).
Notation loop2 := (loop2 sub).
Notation delegates := (delegates sub).
Notation pick_winner := (pick_winner sub).

Definition sigof (kw : kwargs) (c : cand) := lazy_sig kw (snd c).
Definition agree_with (kw : kwargs) (s : list bool * list bool) (cs : list cand) : bool :=
  forallb (fun c => sig_eqb s (sigof kw c)) cs.

Lemma callable_cons pos kw c r :
  callable pos kw (c :: r) =
  match map_args sub (fparams c) pos kw with Some m => [(c, m)] | None => [] end ++ callable pos kw r.
Proof. reflexivity. Qed.

Lemma loop1_level_some pos kw s level :
  loop1_level pos kw (Some s) level =
  if agree_with kw s (callable pos kw level) then Some (Some s, callable pos kw level) else None.
Proof.
  induction level as [|c r IH]; [reflexivity|].
  rewrite callable_cons. cbn [Resolution.loop1_level].
  destruct (map_args sub (fparams c) pos kw) as [m|] eqn:Em; cbn [app].
  - cbn [agree_with forallb]. unfold sigof at 1. cbn [snd].
    destruct (sig_eqb s (lazy_sig kw m)) eqn:Es; cbn [andb]; [|reflexivity].
    rewrite IH. fold (agree_with kw s (callable pos kw r)).
    destruct (agree_with kw s (callable pos kw r)); reflexivity.
  - exact IH.
Qed.

Lemma loop1_level_none pos kw level :
  loop1_level pos kw None level =
  match callable pos kw level with
  | [] => Some (None, [])
  | c :: r => if agree_with kw (sigof kw c) r then Some (Some (sigof kw c), c :: r) else None
  end.
Proof.
  induction level as [|c r IH]; [reflexivity|].
  rewrite callable_cons. cbn [Resolution.loop1_level].
  destruct (map_args sub (fparams c) pos kw) as [m|] eqn:Em; cbn [app].
  - rewrite loop1_level_some. unfold sigof at 1 2. cbn [snd].
    destruct (agree_with kw (lazy_sig kw m) (callable pos kw r)); reflexivity.
  - exact IH.
Qed.

Lemma agree_app kw s a b : agree_with kw s (a ++ b) = agree_with kw s a && agree_with kw s b.
Proof. apply forallb_app. Qed.

Lemma loop1_some pos kw s layers :
  loop1 pos kw (Some s) layers =
  if agree_with kw s (concat (map (callable pos kw) layers))
  then Some (Some s, filter nonempty (map (callable pos kw) layers)) else None.
Proof.
  induction layers as [|level rest IH]; [reflexivity|].
  cbn [Resolution.loop1 map concat filter]. rewrite loop1_level_some, agree_app.
  destruct (agree_with kw s (callable pos kw level)); cbn [andb]; [|reflexivity].
  rewrite IH. destruct (agree_with kw s (concat (map (callable pos kw) rest))); [|reflexivity].
  destruct (callable pos kw level); reflexivity.
Qed.

Lemma loop1_none pos kw layers :
  loop1 pos kw None layers =
  match concat (map (callable pos kw) layers) with
  | [] => Some (None, [])
  | c0 :: r => if agree_with kw (sigof kw c0) r
               then Some (Some (sigof kw c0), filter nonempty (map (callable pos kw) layers)) else None
  end.
Proof.
  induction layers as [|level rest IH]; [reflexivity|].
  cbn [Resolution.loop1 map concat filter]. rewrite loop1_level_none.
  destruct (callable pos kw level) as [|c r] eqn:Ec; cbn [app nonempty negb].
  - rewrite IH. destruct (concat (map (callable pos kw) rest)) as [|c0 r0]; [reflexivity|].
    destruct (agree_with kw (sigof kw c0) r0); reflexivity.
  - rewrite agree_app. destruct (agree_with kw (sigof kw c) r); cbn [andb]; [|reflexivity].
    rewrite loop1_some. destruct (agree_with kw (sigof kw c) (concat (map (callable pos kw) rest))); reflexivity.
Qed.

Lemma lazy_agree_hd kw cs :
  lazy_agree kw cs = match cs with [] => true | c0 :: r => agree_with kw (sigof kw c0) r end.
Proof.
  destruct cs as [|c0 r]; [reflexivity|].
  apply bool_eq_iff. unfold lazy_agree, agree_with. rewrite !forallb_forall. split.
  - intros H c Hc. specialize (H c0 (or_introl eq_refl)). rewrite forallb_forall in H.
    apply H. right. exact Hc.
  - intros H c1 H1. apply forallb_forall. intros c2 H2. apply sig_eqb_spec.
    assert (E : forall c, In c (c0 :: r) -> sigof kw c0 = sigof kw c).
    { intros c [<-|Hc]; [reflexivity|]. apply sig_eqb_spec, H, Hc. }
    transitivity (sigof kw c0); [symmetry|]; apply E; assumption.
Qed.

Lemma loop2_filter pos kw cl : loop2 pos kw (filter nonempty cl) = loop2 pos kw cl.
Proof.
  induction cl as [|level rest IH]; [reflexivity|].
  destruct level as [|c r]; cbn [filter nonempty negb]; [exact IH|].
  cbn [Resolution.loop2]. rewrite IH. reflexivity.
Qed.

Lemma loop2_find pos kw cl :
  loop2 pos kw cl =
  match find (fun ms => negb (match ms with [] => true | _ => false end)) (map (delegates pos kw) cl) with
  | None => Failed ENoMatch
  | Some ms => pick_winner ms
  end.
Proof.
  induction cl as [|level rest IH]; [reflexivity|].
  cbn [Resolution.loop2 map find]. destruct (delegates pos kw level); cbn [negb]; [exact IH | reflexivity].
Qed.

Lemma nokw_conflict_pairs layers :
  nokw_conflict layers =
  existsb (fun c1 => existsb (fun c2 => negb (Bool.eqb (fnokw c1) (fnokw c2))) (concat layers)) (concat layers).
Proof.
  unfold nokw_conflict. apply bool_eq_iff. rewrite andb_true_iff, !existsb_exists. split.
  - intros [[c1 [H1 E1]] [c2 [H2 E2]]]. exists c1. split; [exact H1|]. apply existsb_exists.
    exists c2. split; [exact H2|]. rewrite E1. apply negb_true_iff in E2. rewrite E2. reflexivity.
  - intros [c1 [H1 E]]. apply existsb_exists in E as [c2 [H2 E]].
    destruct (fnokw c1) eqn:E1, (fnokw c2) eqn:E2; cbn in E; try discriminate.
    + split; [exists c1 | exists c2]; split; try assumption. rewrite E2. reflexivity.
    + split; [exists c2 | exists c1]; split; try assumption. rewrite E1. reflexivity.
Qed.

Theorem choose_is_spec layers args pykw :
  choose_overload sub layers args pykw = resolve_spec sub layers args pykw.
Proof.
  unfold choose_overload, resolve_spec. rewrite <- nokw_conflict_pairs.
  destruct (nokw_conflict layers); [reflexivity|].
  unfold the_nokw. destruct (translate_args (existsb fnokw (concat layers)) args pykw) as [e|[pos kw]]; [reflexivity|].
  rewrite loop1_none, lazy_agree_hd.
  destruct (concat (map (callable pos kw) layers)) as [|c0 r] eqn:Ec.
  - reflexivity.
  - destruct (agree_with kw (sigof kw c0) r); cbn [negb]; [|reflexivity].
    destruct (filter nonempty (map (callable pos kw) layers)) as [|l0 lr] eqn:Ef.
    { exfalso. exact (concat_cons_filter _ _ _ Ec Ef). }
    rewrite <- Ef. unfold sigof.
    destruct (eval_pos (fst (lazy_sig kw (snd c0))) pos) as [pos' l1].
    destruct (eval_kw (snd (lazy_sig kw (snd c0))) kw) as [kw' l2].
    rewrite loop2_filter, loop2_find. reflexivity.
Qed.

(* ---- evaluation log ------------------------------------------------------------ *)
Definition arg_ids (a : arg) : list Z :=
  match a with AExpr i _ => [i] | AMapE _ i _ => [i] | _ => [] end.

Fixpoint eager_ids (lz : list bool) (args : list arg) : list Z :=
  match args with
  | [] => []
  | a :: r => (if hd false lz then [] else arg_ids a) ++ eager_ids (tl lz) r
  end.

Fixpoint eager_ids_kw (lz : list bool) (kw : kwargs) : list Z :=
  match kw with
  | [] => []
  | (_, a) :: r => (if hd false lz then [] else arg_ids a) ++ eager_ids_kw (tl lz) r
  end.

Lemma eval_arg_log lazy a : snd (eval_arg lazy a) = if lazy then [] else arg_ids a.
Proof. destruct lazy; [reflexivity|]. destruct a; reflexivity. Qed.

Lemma eval_pos_log lz args : snd (eval_pos lz args) = eager_ids lz args.
Proof.
  revert lz; induction args as [|a r IH]; intro lz; [reflexivity|].
  cbn [eval_pos eager_ids]. specialize (IH (tl lz)).
  pose proof (eval_arg_log (hd false lz) a) as E.
  destruct (eval_arg (hd false lz) a) as [a' l1]. destruct (eval_pos (tl lz) r) as [r' l2].
  cbn [snd] in *. congruence.
Qed.

Lemma eval_kw_log lz kw : snd (eval_kw lz kw) = eager_ids_kw lz kw.
Proof.
  revert lz; induction kw as [|[k a] r IH]; intro lz; [reflexivity|].
  cbn [eval_kw eager_ids_kw]. specialize (IH (tl lz)).
  pose proof (eval_arg_log (hd false lz) a) as E.
  destruct (eval_arg (hd false lz) a) as [a' l1]. destruct (eval_kw (tl lz) r) as [r' l2].
  cbn [snd] in *. congruence.
Qed.

(* every evaluated id is an id of the call, at most as often, in call order *)
Inductive sublist {A} : list A -> list A -> Prop :=
| sub_nil : sublist [] []
| sub_skip x l1 l2 : sublist l1 l2 -> sublist l1 (x :: l2)
| sub_keep x l1 l2 : sublist l1 l2 -> sublist (x :: l1) (x :: l2).

Lemma sublist_refl {A} (l : list A) : sublist l l.
Proof. induction l; constructor; assumption. Qed.

Lemma sublist_nil {A} (l : list A) : sublist [] l.
Proof. induction l; constructor; assumption. Qed.

Lemma sublist_app {A} (a b c d : list A) : sublist a b -> sublist c d -> sublist (a ++ c) (b ++ d).
Proof. intros H1 H2. induction H1; cbn; try constructor; assumption. Qed.

Lemma eager_ids_sublist lz args : sublist (eager_ids lz args) (flat_map arg_ids args).
Proof.
  revert lz; induction args as [|a r IH]; intro lz; [constructor|].
  cbn [eager_ids flat_map]. apply sublist_app; [|apply IH].
  destruct (hd false lz); [apply sublist_nil | apply sublist_refl].
Qed.

Lemma eager_ids_kw_sublist lz kw : sublist (eager_ids_kw lz kw) (flat_map (fun kv => arg_ids (snd kv)) kw).
Proof.
  revert lz; induction kw as [|[k a] r IH]; intro lz; [constructor|].
  cbn [eager_ids_kw flat_map snd]. apply sublist_app; [|apply IH].
  destruct (hd false lz); [apply sublist_nil | apply sublist_refl].
Qed.

Lemma sublist_In {A} (l1 l2 : list A) x : sublist l1 l2 -> In x l1 -> In x l2.
Proof. intro H; induction H; cbn; intuition. Qed.

Lemma sublist_NoDup {A} (l1 l2 : list A) : sublist l1 l2 -> NoDup l2 -> NoDup l1.
Proof.
  intro H; induction H; intro N; [constructor | inversion N; auto |].
  inversion N as [|? ? Hn N']; subst. constructor; [|auto].
  intro Hi. apply Hn. eapply sublist_In; eassumption.
Qed.

(* phase 1 of the resolution: the translated call and the common laziness signature, or failure *)
Definition phase1 (layers : list (list fdef)) (args : list arg) (pykw : kwargs)
  : option (list arg * kwargs * (list bool * list bool)) :=
  if nokw_conflict layers then None
  else match translate_args (the_nokw layers) args pykw with
       | inl _ => None
       | inr (pos, kw) =>
           let cl := concat (map (callable pos kw) layers) in
           if lazy_agree kw cl
           then match cl with [] => None | c0 :: _ => Some (pos, kw, sigof kw c0) end
           else None
       end.

Theorem eval_once layers args pykw :
  snd (choose_overload sub layers args pykw) =
  match phase1 layers args pykw with
  | None => []
  | Some (pos, kw, sg) => eager_ids (fst sg) pos ++ eager_ids_kw (snd sg) kw
  end.
Proof.
  rewrite choose_is_spec. unfold resolve_spec, phase1. rewrite <- nokw_conflict_pairs.
  destruct (nokw_conflict layers); [reflexivity|].
  unfold the_nokw. destruct (translate_args (existsb fnokw (concat layers)) args pykw) as [e|[pos kw]]; [reflexivity|].
  destruct (lazy_agree kw (concat (map (callable pos kw) layers))); cbn [negb]; [|reflexivity].
  destruct (concat (map (callable pos kw) layers)) as [|c0 r]; [reflexivity|].
  unfold sigof.
  pose proof (eval_pos_log (fst (lazy_sig kw (snd c0))) pos) as E1.
  pose proof (eval_kw_log (snd (lazy_sig kw (snd c0))) kw) as E2.
  destruct (eval_pos (fst (lazy_sig kw (snd c0))) pos) as [pos' l1].
  destruct (eval_kw (snd (lazy_sig kw (snd c0))) kw) as [kw' l2].
  cbn [snd] in *. congruence.
Qed.

(* translation keeps the argument expressions: ids of the translated call are ids of the call *)
Lemma eval_once_nodup pos kw sg :
  NoDup (flat_map arg_ids pos ++ flat_map (fun kv => arg_ids (snd kv)) kw) ->
  NoDup (eager_ids (fst sg) pos ++ eager_ids_kw (snd sg) kw).
Proof.
  apply sublist_NoDup, sublist_app; [apply eager_ids_sublist | apply eager_ids_kw_sublist].
Qed.

(* ---- first layer with a match wins; inside it the single most specific match --------- *)
Lemma loop2_first pos kw l1 level l2 :
  Forall (fun l => delegates pos kw l = []) l1 -> delegates pos kw level <> [] ->
  loop2 pos kw (l1 ++ level :: l2) = pick_winner (delegates pos kw level).
Proof.
  intros H1 H2. induction H1 as [|l l1' Hl _ IH]; cbn [app Resolution.loop2].
  - destruct (delegates pos kw level); [contradiction|reflexivity].
  - rewrite Hl. exact IH.
Qed.

Lemma loop2_none pos kw cl :
  Forall (fun l => delegates pos kw l = []) cl -> loop2 pos kw cl = Failed ENoMatch.
Proof. intro H; induction H as [|l r Hl _ IH]; cbn [Resolution.loop2]; [reflexivity|]. rewrite Hl. exact IH. Qed.

Lemma pick_winner_chosen ms f p k :
  pick_winner ms = Chosen f p k ->
  exists w, In w ms /\ chosen w = Chosen f p k /\
            forall c, In c ms -> m_fid c = m_fid w \/ mapping_spec sub (m_map w) (m_map c) = true.
Proof.
  unfold Resolution.pick_winner. destruct (filter (is_winner sub ms) ms) as [|w [|w' r]] eqn:Ef; try discriminate.
  intro H. exists w. assert (Hw : In w (filter (is_winner sub ms) ms)) by (rewrite Ef; left; reflexivity).
  apply filter_In in Hw as [Hin Hw]. split; [exact Hin|]. split; [exact H|].
  intros c Hc. unfold is_winner in Hw. rewrite forallb_forall in Hw. specialize (Hw c Hc).
  apply orb_true_iff in Hw as [Hw|Hw]; [left; apply Z.eqb_eq, Hw | right; exact Hw].
Qed.

Lemma pick_winner_cases ms : (exists w, In w ms /\ pick_winner ms = chosen w) \/ pick_winner ms = Failed EAmbiguous.
Proof.
  unfold Resolution.pick_winner. destruct (filter (is_winner sub ms) ms) as [|w [|w' r]] eqn:Ef; auto.
  left. exists w. split; [|reflexivity].
  assert (Hw : In w (filter (is_winner sub ms) ms)) by (rewrite Ef; left; reflexivity).
  apply filter_In in Hw. tauto.
Qed.

End Sub.
