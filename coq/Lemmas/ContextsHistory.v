(* Reachable-state invariant: after ANY history of operations every context in
   the environment is well formed and refers only to allocated plain contexts,
   so the read/write lemmas of ContextsSpec apply in every reachable state. *)
From Coq Require Import List ZArith Bool Arith Lia.
From YV Require Import Common.Corr Common.CorrFacts Model.Contexts Lemmas.ContextsSpec.
Import ListNotations.

Fixpoint good (k : nat) (c : ctx) : Prop :=
  match c with
  | CPlain p par => p < k /\ match par with Some q => good k q | None => True end
  | CMulti ms par =>
      ms <> [] /\ (fix go (l : list ctx) : Prop := match l with [] => True | m :: r => good k m /\ go r end) ms
      /\ match par with Some q => good k q | None => True end
  | CLinked l par => good k l /\ match par with Some q => good k q | None => True end
  end.

Definition good_opt k (o : option ctx) : Prop := match o with Some q => good k q | None => True end.

Lemma good_multi k ms par : good k (CMulti ms par) <-> ms <> [] /\ Forall (good k) ms /\ good_opt k par.
Proof.
  cbn [good]. fold (good_opt k par).
  assert (E : (fix go (l : list ctx) : Prop := match l with [] => True | m :: r => good k m /\ go r end) ms <-> Forall (good k) ms).
  { induction ms as [|m r IH]; [split; constructor|]. split.
    - intros [A B]. constructor; [exact A|apply IH; exact B].
    - intro H. inversion H; subst. split; [assumption|apply IH; assumption]. }
  rewrite E. tauto.
Qed.

Lemma good_parent k c p : good k c -> parent_of c = Some p -> good k p.
Proof.
  destruct c as [x par|ms par|l par]; intros G E; cbn in E; subst par.
  - destruct G as [_ G]. exact G.
  - apply good_multi in G. destruct G as [_ [_ G]]. exact G.
  - destruct G as [_ G]. exact G.
Qed.

Lemma good_mono k k' c : k <= k' -> good k c -> good k' c.
Proof.
  intro Hk. induction c as [p par IHp|ms par IH IHp|l par IH IHp] using ctx_ind'; intro G.
  - destruct G as [A B]. split; [lia|]. destruct par; [apply IHp; exact B|exact I].
  - apply good_multi in G. destruct G as [A [B C]]. apply good_multi. split; [exact A|]. split.
    + clear A. induction IH as [|m r Hm _ IHr]; [constructor|]. inversion B; subst. constructor; auto.
    + destruct par; [apply IHp; exact C|exact I].
  - destruct G as [A B]. split; [apply IH; exact A|]. destruct par; [apply IHp; exact B|exact I].
Qed.

Lemma good_wfo k c : good k c -> wfo c.
Proof.
  induction c as [p par _|ms par IH _|l par IH _] using ctx_ind'; intro G.
  - exact I.
  - apply good_multi in G. destruct G as [A [B _]]. apply wfo_multi. split; [exact A|].
    clear A. induction IH as [|m r Hm _ IHr]; [constructor|]. inversion B; subst. constructor; auto.
  - destruct G as [A _]. cbn. apply IH. exact A.
Qed.

Lemma good_sources k c : good k c -> Forall (fun p => p < k) (sources c).
Proof.
  induction c as [p par _|ms par IH _|l par IH _] using ctx_ind'; intro G.
  - destruct G as [A _]. constructor; [exact A|constructor].
  - apply good_multi in G. destruct G as [_ [B _]]. rewrite sources_multi.
    induction IH as [|m r Hm _ IHr]; [constructor|]. inversion B; subst. cbn. apply Forall_app. split; auto.
  - destruct G as [A _]. cbn. apply IH. exact A.
Qed.

Lemma good_new_linked_aux k n : forall par l, depth l <= n -> good_opt k par -> good k l -> good k (new_linked par l).
Proof.
  induction n as [|n IH]; intros par l Hd Gp Gl; [pose proof (depth_pos l); lia|].
  destruct l as [x [q|]|ms [q|]|x [q|]]; cbn [new_linked]; cbn [good]; (split; [exact Gl|]);
    try exact Gp; (apply IH; [cbn in Hd; lia|exact Gp|]).
  - destruct Gl as [_ G]. exact G.
  - apply good_multi in Gl. destruct Gl as [_ [_ G]]. exact G.
  - destruct Gl as [_ G]. exact G.
Qed.

Lemma good_new_linked k par l : good_opt k par -> good k l -> good k (new_linked par l).
Proof. apply (good_new_linked_aux k (depth l)). lia. Qed.

Lemma good_filter_parents k ms : Forall (good k) ms -> Forall (good k) (filter_parents ms).
Proof.
  induction 1 as [|m r Hm _ IH]; cbn; [constructor|].
  destruct (parent_of m) as [p|] eqn:E; [constructor; [eapply good_parent; eauto|exact IH]|exact IH].
Qed.

Lemma good_mk_multi k n : forall ms, ms <> [] -> Forall (good k) ms -> good k (mk_multi n ms).
Proof.
  induction n as [|n IH]; intros ms Hne G; cbn [mk_multi].
  - apply good_multi. repeat split; auto.
  - pose proof (good_filter_parents k ms G) as Gp.
    destruct (filter_parents ms) as [|p [|p2 ps]] eqn:E; apply good_multi; (split; [exact Hne|]); (split; [exact G|]); cbn.
    + exact I.
    + inversion Gp; subst. assumption.
    + apply IH; [discriminate|exact Gp].
Qed.

(* ---- store length is preserved by writes --------------------------------------- *)
Lemma set_data_length s c n v : length (fst (set_data s c n v)) = length s.
Proof. unfold set_data. destruct (target c); cbn; [apply supd_length|reflexivity]. Qed.

Lemma register_length s c f ex : length (fst (register s c f ex)) = length s.
Proof. unfold register. destruct (target c); cbn; [apply supd_length|reflexivity]. Qed.

Lemma del_data_length s c n : length (fst (del_data s c n)) = length s.
Proof. pose proof (del_ok_all n c s) as H. cbn zeta in H. tauto. Qed.

Lemma delete_function_length c f : forall s, length (delete_function s c f) = length s.
Proof.
  induction c as [p par _|ms par IH _|l par IH _] using ctx_ind'; intro s.
  - cbn. apply supd_length.
  - cbn. revert s. induction IH as [|m r Hm _ IHr]; intro s; [reflexivity|].
    rewrite IHr. apply Hm.
  - cbn. apply IH.
Qed.

(* ---- the invariant --------------------------------------------------------------- *)
Definition Inv (x : state) : Prop := Forall (good (length (st x))) (env x).

Lemma Inv_init : Inv init_state.
Proof. constructor. Qed.

Lemma Forall_good_mono k k' l : k <= k' -> Forall (good k) l -> Forall (good k') l.
Proof. intros H F. eapply Forall_impl; [|exact F]. intros c. apply good_mono. exact H. Qed.

Lemma nth_error_good k e i c : Forall (good k) e -> nth_error e i = Some c -> good k c.
Proof. intros F H. apply nth_error_In in H. rewrite Forall_forall in F. auto. Qed.

Lemma eall_good k e : Forall (good k) e -> forall l cs, eall e l = Some cs -> Forall (good k) cs.
Proof.
  intros F l. induction l as [|i r IH]; intros cs H; cbn in H.
  - injection H as <-. constructor.
  - destruct (nth_error e i) as [c|] eqn:E; [|discriminate].
    destruct (eall e r) as [cs'|]; [|discriminate]. injection H as <-.
    constructor; [eapply nth_error_good; eauto|apply IH; reflexivity].
Qed.

Lemma step_Inv x o : Inv x -> Inv (fst (step x o)).
Proof.
  unfold Inv. intro H. destruct x as [e s]. cbn [env st] in *.
  destruct o as [p|ms|p l|c|c n v|c n|c f ex|c f]; cbn [step env st].
  - destruct p as [i|]; cbn [eopt].
    + destruct (nth_error e i) as [c|] eqn:E; cbn; [|exact H].
      rewrite app_length. cbn. apply Forall_app. split.
      * eapply Forall_good_mono; [|exact H]. lia.
      * constructor; [|constructor]. split; [lia|]. apply (good_mono (length s)); [lia|]. eapply nth_error_good; eauto.
    + cbn. rewrite app_length. cbn. apply Forall_app. split.
      * eapply Forall_good_mono; [|exact H]. lia.
      * constructor; [|constructor]. split; [lia|exact I].
  - destruct (eall e ms) as [[|m r]|] eqn:E; cbn; try exact H.
    apply Forall_app. split; [exact H|]. constructor; [|constructor].
    apply good_mk_multi; [discriminate|]. eapply eall_good; eauto.
  - destruct (eopt e p) as [par|] eqn:Ep; [|exact H].
    destruct (nth_error e l) as [lc|] eqn:El; cbn; [|exact H].
    apply Forall_app. split; [exact H|]. constructor; [|constructor].
    apply good_new_linked; [|eapply nth_error_good; eauto].
    destruct p as [i|]; cbn in Ep.
    + destruct (nth_error e i) eqn:Ei; [|discriminate]. injection Ep as <-. cbn. eapply nth_error_good; eauto.
    + injection Ep as <-. exact I.
  - destruct (nth_error e c) as [cc|] eqn:E; cbn; [|exact H].
    rewrite app_length. cbn. apply Forall_app. split.
    + eapply Forall_good_mono; [|exact H]. lia.
    + constructor; [|constructor]. split; [lia|]. apply (good_mono (length s)); [lia|]. eapply nth_error_good; eauto.
  - destruct (nth_error e c) as [cc|] eqn:E; [|exact H].
    destruct (set_data s cc n v) as [s' r] eqn:Es. cbn.
    replace (length s') with (length s); [exact H|]. pose proof (set_data_length s cc n v) as L. rewrite Es in L. auto.
  - destruct (nth_error e c) as [cc|] eqn:E; [|exact H].
    destruct (del_data s cc n) as [s' r] eqn:Es. cbn.
    replace (length s') with (length s); [exact H|]. pose proof (del_data_length s cc n) as L. rewrite Es in L. auto.
  - destruct (nth_error e c) as [cc|] eqn:E; [|exact H].
    destruct (register s cc f ex) as [s' r] eqn:Es. cbn.
    replace (length s') with (length s); [exact H|]. pose proof (register_length s cc f ex) as L. rewrite Es in L. auto.
  - destruct (nth_error e c) as [cc|] eqn:E; cbn; [|exact H].
    rewrite delete_function_length. exact H.
Qed.

Definition run_state (x : state) (ops : list op) : state := fold_left (fun x o => fst (step x o)) ops x.

Lemma run_Inv ops : forall x, Inv x -> Inv (run_state x ops).
Proof. induction ops as [|o r IH]; intros x H; cbn; [exact H|]. apply IH. apply step_Inv. exact H. Qed.
