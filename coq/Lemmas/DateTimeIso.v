(* ISO-8601 text of Model/DateTime.v (C20): parse (format d) = d. *)
From Coq Require Import ZArith Bool List Lia ZifyBool.
From YV Require Import Model.DateTime Lemmas.DateTimeCivil Lemmas.DateTimeFields.
Import ListNotations.
Open Scope Z_scope.

Lemma dig_digit : forall x, 0 <= x <= 9 -> dig (48 + x) = Some x.
Proof. intros x X. unfold dig. replace ((48 <=? 48 + x) && (48 + x <=? 57)) with true by lia. f_equal. lia. Qed.

Lemma take2_fmt2 : forall n acc r, 0 <= n < 100 -> take_digits 2 acc (fmt2 n ++ r) = Some (100 * acc + n, r).
Proof.
  intros n acc r N. unfold fmt2. cbn [app take_digits].
  rewrite !dig_digit by (Z.div_mod_to_equations; lia).
  f_equal. f_equal. Z.div_mod_to_equations. lia.
Qed.

Lemma take4_fmt4 : forall n r, 0 <= n < 10000 -> take_digits 4 0 (fmt4 n ++ r) = Some (n, r).
Proof.
  intros n r N. unfold fmt4. cbn [app take_digits].
  rewrite !dig_digit by (Z.div_mod_to_equations; lia).
  f_equal. f_equal. Z.div_mod_to_equations. lia.
Qed.

Lemma take6_fmt6 : forall n r, 0 <= n < 1000000 -> take_digits 6 0 (fmt6 n ++ r) = Some (n, r).
Proof.
  intros n r N. unfold fmt6. cbn [app take_digits].
  rewrite !dig_digit by (Z.div_mod_to_equations; lia).
  f_equal. f_equal. Z.div_mod_to_equations. lia.
Qed.

Definition whole_minutes (o : Z) : Prop := o mod 60000000 = 0.

Lemma parse_zone_format : forall o, valid_off o = true -> whole_minutes o -> parse_zone (iso_zone o) = Some o.
Proof.
  intros o V W. unfold valid_off, US_DAY in V. unfold whole_minutes in W. unfold iso_zone.
  set (m := Z.abs o / 60000000).
  assert (M : 0 <= m < 1440) by (unfold m; Z.div_mod_to_equations; lia).
  assert (EO : Z.abs o = m * 60000000) by (unfold m; Z.div_mod_to_equations; lia).
  assert (H1 : 0 <= m / 60 < 24) by (Z.div_mod_to_equations; lia).
  assert (H2 : 0 <= m mod 60 < 60) by (Z.div_mod_to_equations; lia).
  assert (E : m / 60 * 60 + m mod 60 = m) by (Z.div_mod_to_equations; lia).
  destruct (o <? 0) eqn:S; unfold parse_zone.
  - change ((45 =? 43) || (45 =? 45)) with true. cbv iota.
    rewrite (take2_fmt2 (m / 60) 0) by lia. cbn [expect]. change (58 =? 58) with true. cbv iota.
    rewrite <- (app_nil_r (fmt2 (m mod 60))). rewrite (take2_fmt2 (m mod 60) 0 []) by lia.
    replace ((100 * 0 + m / 60 <? 24) && (100 * 0 + m mod 60 <? 60)) with true by lia.
    change (45 =? 45) with true. cbv iota. f_equal. lia.
  - change ((43 =? 43) || (43 =? 45)) with true. cbv iota.
    rewrite (take2_fmt2 (m / 60) 0) by lia. cbn [expect]. change (58 =? 58) with true. cbv iota.
    rewrite <- (app_nil_r (fmt2 (m mod 60))). rewrite (take2_fmt2 (m mod 60) 0 []) by lia.
    replace ((100 * 0 + m / 60 <? 24) && (100 * 0 + m mod 60 <? 60)) with true by lia.
    change (43 =? 45) with false. cbv iota. f_equal. lia.
Qed.

Lemma parse_format : forall d, valid_adt d = true -> whole_minutes (off d) ->
  iso_parse (iso_format d) = Some (VDt d).
Proof.
  intros [w o] V WM. unfold valid_adt in V. cbn [wall off] in *.
  assert (R : in_range w = true) by lia. assert (VO : valid_off o = true) by lia.
  destruct (wall_of_its_fields w) as [W K].
  destruct (civil_from_days (w / US_DAY)) as [[y m] dd] eqn:C.
  assert (VC : valid_civil y m dd = true).
  { apply (civil_valid (w / US_DAY)); [|exact C].
    unfold in_range, MAXWALL in R. unfold US_DAY in *.
    split; [apply Z.div_pos; lia | apply Z.div_lt_upper_bound; lia]. }
  assert (FY : dt_field FYear w = y) by (unfold dt_field; rewrite C; reflexivity).
  assert (FM : dt_field FMonth w = m) by (unfold dt_field; rewrite C; reflexivity).
  assert (FD : dt_field FDay w = dd) by (unfold dt_field; rewrite C; reflexivity).
  rewrite FY, FM, FD in W.
  unfold iso_format. cbn [wall off]. rewrite FY, FM, FD.
  set (hh := dt_field FHour w) in *. set (mi := dt_field FMinute w) in *.
  set (ss := dt_field FSecond w) in *. set (us := dt_field FMicrosecond w) in *.
  pose proof (days_in_month_le y m) as DL.
  unfold valid_civil in VC. unfold valid_clock in K.
  unfold iso_parse.
  rewrite take4_fmt4 by lia. cbn [bind expect]. rewrite Z.eqb_refl. cbn [bind].
  rewrite take2_fmt2 by lia. cbn [bind expect]. rewrite Z.eqb_refl. cbn [bind].
  rewrite take2_fmt2 by lia. cbn [bind expect]. rewrite Z.eqb_refl. cbn [bind].
  rewrite take2_fmt2 by lia. cbn [bind expect]. rewrite Z.eqb_refl. cbn [bind].
  rewrite take2_fmt2 by lia. cbn [bind expect]. rewrite Z.eqb_refl. cbn [bind].
  rewrite take2_fmt2 by lia. cbn [bind].
  change (parse_frac (46 :: fmt6 us ++ iso_zone o)) with (take_digits 6 0 (fmt6 us ++ iso_zone o)).
  rewrite take6_fmt6 by lia. cbn [bind].
  rewrite (parse_zone_format o VO WM). cbn [bind].
  f_equal. unfold y_build.
  replace (100 * 0 + m) with m by lia. replace (100 * 0 + dd) with dd by lia.
  replace (100 * 0 + hh) with hh by lia. replace (100 * 0 + mi) with mi by lia. replace (100 * 0 + ss) with ss by lia.
  replace (valid_civil y m dd && valid_clock hh mi ss us) with true
    by (unfold valid_civil, valid_clock; lia).
  rewrite W. reflexivity.
Qed.

(* the formatted text has the fixed length of the shape *)
Lemma format_length : forall d, length (iso_format d) = 32%nat.
Proof. reflexivity. Qed.

(* at the level of calls, for any host datetime (naive = UTC) with a whole-minute offset *)
Lemma parse_of_format_call : forall h s, valid_hdt h = true -> whole_minutes (off (conv h)) ->
  eval (OpFormatIso h) = VStr s -> eval (OpParseIso s) = VDt (conv h).
Proof.
  intros h s V WM H. unfold eval, eval_with in H. injection H as <-. unfold eval, eval_with.
  rewrite parse_format; [reflexivity| |exact WM].
  destruct h as [w|d]; cbn in *; [|exact V]. unfold valid_adt, valid_off, US_DAY. cbn [wall off]. lia.
Qed.
