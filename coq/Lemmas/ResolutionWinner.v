(* "specialization of a mapping" is asymmetric (for any subtype relation), so at most one
   match of a layer can be a specialization of all the others; layering lemmas. *)
From Coq Require Import List ZArith Bool Arith Lia.
From YV Require Import Common.Corr Model.Resolution Lemmas.ResolutionSpec.
Import ListNotations.

Lemma kw_get_In {A} k (l : list (Z * A)) v : kw_get k l = Some v -> In (k, v) l.
Proof.
  induction l as [|[k' v'] r IH]; cbn; [discriminate|].
  destruct (Z.eqb k k') eqn:E; intro H.
  - apply Z.eqb_eq in E. injection H as ->. subst. left. reflexivity.
  - right. apply IH, H.
Qed.

Lemma kw_get_nodup {A} k (l : list (Z * A)) v : NoDup (map fst l) -> In (k, v) l -> kw_get k l = Some v.
Proof.
  induction l as [|[k' v'] r IH]; cbn; [contradiction|].
  intros N [H|H].
  - injection H as -> ->. rewrite Z.eqb_refl. reflexivity.
  - inversion N as [|? ? Hn N']; subst. destruct (Z.eqb k k') eqn:E.
    + apply Z.eqb_eq in E. subst. exfalso. apply Hn. apply (in_map fst) in H. exact H.
    + apply IH; assumption.
Qed.

Lemma kw_set_keys {A} k (v : A) l k' : In k' (map fst (kw_set k v l)) -> k' = k \/ In k' (map fst l).
Proof.
  induction l as [|[k0 v0] r IH]; cbn.
  - intros [H|[]]. left. congruence.
  - destruct (Z.eqb k k0) eqn:E; cbn.
    + apply Z.eqb_eq in E. subst. intros [H|H]; [right; left; exact H | right; right; exact H].
    + intros [H|H]; [right; left; exact H|]. destruct (IH H); [left | right; right]; assumption.
Qed.

Lemma kw_set_nodup {A} k (v : A) l : NoDup (map fst l) -> NoDup (map fst (kw_set k v l)).
Proof.
  induction l as [|[k0 v0] r IH]; cbn; intro N.
  - constructor; [intros []|constructor].
  - inversion N as [|? ? Hn N']; subst. destruct (Z.eqb k k0) eqn:E; cbn.
    + apply Z.eqb_eq in E. subst. constructor; assumption.
    + constructor; [|apply IH, N'].
      intro H. apply kw_set_keys in H as [H|H]; [|contradiction].
      subst. rewrite Z.eqb_refl in E. discriminate.
Qed.

Section Order.
Variable sub : tag -> tag -> bool.

(* the pairs compared for (m2, m1) are the swapped pairs compared for (m1, m2) *)
Lemma spec_pairs_swap m1 m2 k1 k2 :
  NoDup (map fst (snd m1)) ->
  In (k1, k2) (spec_pairs m1 m2) -> In (k2, k1) (spec_pairs m2 m1).
Proof.
  intros N H. unfold spec_pairs in *. apply in_app_or in H as [H|H]; apply in_or_app.
  - left. apply in_map_iff in H as [[p q] [E H]]. cbn in E. injection E as <- <-.
    apply in_map_iff. exists (q, p). split; [reflexivity|].
    clear N. revert H. generalize (fst m1) (fst m2). intro l1; induction l1 as [|x l1 IH]; intros [|y l2]; cbn; try contradiction.
    intros [H|H]; [left; congruence | right; apply IH, H].
  - right. apply in_flat_map in H as [[k p] [Hin H]]. cbn [fst snd] in H.
    destruct (kw_get k (snd m2)) as [q|] eqn:Eq; [|contradiction].
    destruct H as [H|[]]. injection H as <- <-.
    apply in_flat_map. exists (k, q). split; [apply kw_get_In, Eq|]. cbn [fst snd].
    rewrite (kw_get_nodup k (snd m1) p N Hin). left. reflexivity.
Qed.

Lemma mapping_spec_asym m1 m2 :
  NoDup (map fst (snd m1)) ->
  mapping_spec sub m1 m2 = true -> mapping_spec sub m2 m1 = false.
Proof.
  intros N H. unfold mapping_spec in *. apply andb_true_iff in H as [_ H].
  apply existsb_exists in H as [[k1 k2] [Hin H]]. cbn [fst snd] in H.
  apply andb_false_iff. left. apply negb_false_iff, existsb_exists.
  exists (k2, k1). split; [apply spec_pairs_swap; assumption | exact H].
Qed.

Theorem winner_unique ms w1 w2 :
  (forall x, In x ms -> NoDup (map fst (snd (m_map x)))) ->
  In w1 ms -> In w2 ms -> is_winner sub ms w1 = true -> is_winner sub ms w2 = true ->
  m_fid w1 = m_fid w2.
Proof.
  intros N I1 I2 H1 H2. unfold is_winner in *. rewrite forallb_forall in H1, H2.
  specialize (H1 w2 I2). specialize (H2 w1 I1).
  apply orb_true_iff in H1 as [H1|H1]; [symmetry; apply Z.eqb_eq, H1|].
  apply orb_true_iff in H2 as [H2|H2]; [apply Z.eqb_eq, H2|].
  rewrite (mapping_spec_asym _ _ (N w1 I1) H1) in H2. discriminate.
Qed.

(* map_args produces keyword mappings with unique keys, so the premise above always holds *)
Lemma map_step_nodup ps args st p st' :
  map_step ps args st p = Some st' -> NoDup (map fst (ms_kwd st)) -> NoDup (map fst (ms_kwd st')).
Proof.
  unfold map_step. intros H N.
  repeat match type of H with
         | (if ?c then _ else _) = Some _ => destruct c
         | match ?c with _ => _ end = Some _ => destruct c
         end; try discriminate; injection H as <-; cbn [ms_kwd]; try assumption; apply kw_set_nodup, N.
Qed.

Lemma fold_opt_inv {S A} (f : S -> A -> option S) (P : S -> Prop) :
  (forall s x s', f s x = Some s' -> P s -> P s') ->
  forall l s s', fold_opt f l s = Some s' -> P s -> P s'.
Proof.
  intros Hf l; induction l as [|x r IH]; cbn; intros s s' H Hp.
  - injection H as <-. exact Hp.
  - destruct (f s x) as [s1|] eqn:E; [|discriminate]. eapply IH; [exact H|]. eapply Hf; eassumption.
Qed.

Lemma map_args_nodup ps args kw m : map_args sub ps args kw = Some m -> NoDup (map fst (snd m)).
Proof.
  unfold map_args. destruct (fold_opt _ ps _) as [st|] eqn:Ef; [|discriminate].
  assert (N : NoDup (map fst (ms_kwd st))).
  { eapply (fold_opt_inv _ (fun s => NoDup (map fst (ms_kwd s)))); [|exact Ef|constructor].
    intros s x s' H. eapply map_step_nodup, H. }
  assert (N' : forall q l acc, NoDup (map fst acc) ->
               NoDup (map fst (fold_left (fun (acc : list (Z * param)) (kv : Z * arg) => kw_set (fst kv) q acc) l acc))).
  { intros q l; induction l as [|x r IH]; cbn; intros acc Ha; [exact Ha|]. apply IH, kw_set_nodup, Ha. }
  intro H.
  destruct (ms_left st) as [|x r] eqn:El.
  - destruct (check_slots sub (ms_slots st) args); [|discriminate]. cbn in H. injection H as <-. exact N.
  - destruct (kwargs_param ps) as [q|]; [|discriminate].
    destruct (check_slots sub (ms_slots st) args); [|discriminate].
    match type of H with (if ?c then _ else _) = _ => destruct c end; [|discriminate].
    injection H as <-. cbn [snd]. exact (N' q (x :: r) _ N).
Qed.

End Order.

(* ---- layering: collect_functions ------------------------------------------------------ *)
Fixpoint cut_excl (chain : list layer) : list layer :=
  match chain with
  | [] => []
  | l :: r => if lexcl l then [l] else l :: cut_excl r
  end.

Lemma collect_spec has_receiver chain :
  collect has_receiver chain =
  filter nonempty (map (fun l => filter (kind_ok has_receiver) (lfuns l)) (cut_excl chain)).
Proof.
  induction chain as [|l r IH]; [reflexivity|].
  cbn [collect cut_excl]. destruct (lexcl l); cbn [map filter].
  - destruct (filter (kind_ok has_receiver) (lfuns l)); reflexivity.
  - rewrite IH. destruct (filter (kind_ok has_receiver) (lfuns l)); reflexivity.
Qed.

Lemma collect_In has_receiver chain f :
  In f (concat (collect has_receiver chain)) <->
  exists l, In l (cut_excl chain) /\ In f (lfuns l) /\ kind_ok has_receiver f = true.
Proof.
  rewrite collect_spec. rewrite in_concat. split.
  - intros [fs [H1 H2]]. apply filter_In in H1 as [H1 _]. apply in_map_iff in H1 as [l [<- Hl]].
    apply filter_In in H2 as [H2 H3]. exists l. auto.
  - intros [l [Hl [Hf Hk]]]. exists (filter (kind_ok has_receiver) (lfuns l)).
    assert (Hin : In f (filter (kind_ok has_receiver) (lfuns l))) by (apply filter_In; auto).
    split; [|exact Hin]. apply filter_In. split; [apply in_map_iff; exists l; auto|].
    destruct (filter (kind_ok has_receiver) (lfuns l)); [contradiction|reflexivity].
Qed.

(* kinds: a method-only definition is never collected for a receiver-less call and a function-only
   definition never for a call with receiver; extension methods are collected for both *)
Lemma kind_exclusive chain f :
  (fismeth f = true -> fisfun f = false -> ~ In f (concat (collect false chain))) /\
  (fisfun f = true -> fismeth f = false -> ~ In f (concat (collect true chain))) /\
  (fisfun f = true -> fismeth f = true ->
   forall r, In f (concat (collect r chain)) <-> exists l, In l (cut_excl chain) /\ In f (lfuns l)).
Proof.
  split; [|split].
  - intros _ Hf H. apply collect_In in H as [l [_ [_ Hk]]]. cbn in Hk. congruence.
  - intros _ Hm H. apply collect_In in H as [l [_ [_ Hk]]]. cbn in Hk. congruence.
  - intros Hf Hm r. rewrite collect_In. split.
    + intros [l [H1 [H2 _]]]. exists l. auto.
    + intros [l [H1 H2]]. exists l. split; [exact H1|]. split; [exact H2|]. destruct r; cbn; assumption.
Qed.
