(* Evaluations started one after the other (in any order) from one shared, prepared context chain,
   each in its own fresh child: every one returns what it returns alone, and the shared chain is
   bit-for-bit unchanged - a consequence of the frame theorem. *)
From Coq Require Import List ZArith Bool Arith Lia.
From YV Require Import Common.Corr Model.Eval Lemmas.EvalFrame.
Import ListNotations.

Record job := { j_parent : nat; j_data : val; j_expr : expr }.

(* one evaluation in a fresh child of context [j_parent] of the shared chain: returns the chain as it
   is afterwards (what is still reachable by the host: the first [length host] contexts) and the result *)
Definition run_job (fuel : nat) (host : list ctxrec) (j : job) : list ctxrec * (list Z * res val) :=
  let child := {| cparent := Some (j_parent j); cdata := [([49%Z], j_data j)]; cfuncs := [] |} in
  let s0 := {| heap := host ++ [child]; log := [] |} in
  let '(s2, r) := match eval fuel s0 (length host) (j_expr j) with
                  | (s1, Ok v) => finalize fuel s1 v
                  | (s1, r) => (s1, r)
                  end in
  (firstn (length host) (heap s2), (log s2, r)).

Definition solo_job (fuel : nat) (host : list ctxrec) (j : job) := snd (run_job fuel host j).

Fixpoint run_jobs (fuel : nat) (host : list ctxrec) (js : list job) : list ctxrec * list (list Z * res val) :=
  match js with
  | [] => (host, [])
  | j :: r => let '(host1, out) := run_job fuel host j in
              let '(host2, outs) := run_jobs fuel host1 r in
              (host2, out :: outs)
  end.

Lemma run_job_host fuel host j : fst (run_job fuel host j) = host.
Proof.
  unfold run_job.
  set (child := {| cparent := Some (j_parent j); cdata := [([49%Z], j_data j)]; cfuncs := [] |}).
  set (s0 := {| heap := host ++ [child]; log := [] |}).
  assert (E : exists s2 r, (match eval fuel s0 (length host) (j_expr j) with
                            | (s1, Ok v) => finalize fuel s1 v
                            | (s1, r) => (s1, r) end) = (s2, r) /\ ext s0 s2).
  { destruct (eval fuel s0 (length host) (j_expr j)) as [s1 r1] eqn:E1. apply eval_ext in E1.
    destruct r1 as [v| | |].
    - destruct (finalize fuel s1 v) as [s2 r2] eqn:E2. exists s2, r2. split; [reflexivity|].
      apply finalize_ext in E2. eapply ext_trans; eassumption.
    - eexists _, _. split; [reflexivity|exact E1].
    - eexists _, _. split; [reflexivity|exact E1].
    - eexists _, _. split; [reflexivity|exact E1]. }
  destruct E as (s2 & r & -> & (h & l & Hh & _)). cbn [fst].
  rewrite Hh. subst s0. cbn [heap]. rewrite <- app_assoc.
  rewrite firstn_app, Nat.sub_diag, firstn_all. cbn. now rewrite app_nil_r.
Qed.

Lemma run_jobs_spec fuel host js :
  run_jobs fuel host js = (host, map (solo_job fuel host) js).
Proof.
  induction js as [|j js IH]; [reflexivity|].
  cbn [run_jobs map]. destruct (run_job fuel host j) as [host1 out] eqn:E.
  assert (H1 : host1 = host) by (pose proof (run_job_host fuel host j) as H; rewrite E in H; exact H).
  subst host1. rewrite IH. unfold solo_job at 2. rewrite E. reflexivity.
Qed.
