(* C15 - finite obligations over the REGENERATED overload table (Gen/ScalarOps.v):
   the kind-level dispatch grid, uniqueness of the accepting overload, booleans rejected,
   null overloads present for every kind.  Each is a boolean check over a finite grid,
   evaluated by vm_compute and turned into the quantified statement with forallb_forall. *)
From Coq Require Import List ZArith Bool Lia.
From YV Require Import Common.Corr Model.Scalars Gen.ScalarOps Lemmas.Scalars.
Import ListNotations.

Definition is_num (k : kind) : bool := match k with KInt | KFloat => true | _ => false end.
Definition is_seq (k : kind) : bool := match k with KList | KTuple => true | _ => false end.

Definition cmp_of (o : op) : option cmpop :=
  match o with OLt => Some CLt | OLe => Some CLe | OGt => Some CGt | OGe => Some CGe | _ => None end.

(* what the language reference says each operator does on two values of the given kinds
   (scalars, plus lists/tuples for repetition) *)
(* does the configuration let dictionaries pass Iterable()? *)
Definition iter_dicts (cf : cfg) : bool := match cf with CIterDicts | CLegacy => true | _ => false end.

(* what can be concatenated / searched as an iterable *)
Definition is_iter (cf : cfg) (k : kind) : bool :=
  match k with KList | KTuple | KSet => true | KDict => iter_dicts cf | _ => false end.

Definition expected2 (cf : cfg) (o : op) (a b : kind) : dres :=
  let num t := if is_num a && is_num b then DPayload t else DNoMatch in
  match o with
  | OAdd => match a, b with
            | KStr, KStr => DPayload PStrConcat
            | KDict, KDict => DPayload PDictAdd
            | _, _ => if is_iter cf a && is_iter cf b then DPayload PSeqConcat else num PNumAdd
            end
  | OSub => match a, b with KSet, KSet => DPayload PSetDiff | _, _ => num PNumSub end
  | OMul => match a, b with
            | KStr, KInt => DPayload PStrRep
            | KInt, KStr => DPayload PRepStr
            | (KList | KTuple), KInt => DPayload PSeqRep
            | KInt, (KList | KTuple) => DPayload PRepSeq
            | _, _ => num PNumMul
            end
  | ODiv => num PNumDiv
  | OMod => num PNumMod
  | OLt | OLe | OGt | OGe =>
    match cmp_of o with
    | Some c =>
      match a, b with
      | KNull, KNull => DPayload (PNullNull c)
      | KNull, _ => DPayload (PNullRight c)
      | _, KNull => DPayload (PLeftNull c)
      | KStr, KStr => DPayload (PStrCmp c)
      | KSet, KSet => DPayload (PSetCmp c)
      | _, _ => num (PNumCmp c)
      end
    | None => DNoMatch
    end
  | OIn => match a, b with
           | KStr, KStr => DPayload PStrIn
           | _, _ => if is_iter cf b then DPayload PCollIn else DNoMatch
           end
  | OEq => DPayload PEq
  | ONeq => DPayload PNeq
  | _ => DNoMatch
  end.

Definition expected1 (o : op) (a : kind) : dres :=
  match o with
  | UPos => if is_num a then DPayload PNumPos else DNoMatch
  | UNeg => if is_num a then DPayload PNumNeg else DNoMatch
  | UNot => DPayload PNot
  | _ => DNoMatch
  end.

(* kinds the grid ranges over: the five scalar kinds, the two sequence kinds, sets and dicts *)
Definition grid_kinds : list kind := scalar_kinds ++ [KList; KTuple; KSet; KDict].

Definition pairs {A B} (l : list A) (m : list B) : list (A * B) :=
  flat_map (fun a => map (fun b => (a, b)) m) l.

Lemma in_pairs : forall {A B} (l : list A) (m : list B) a b, In a l -> In b m -> In (a, b) (pairs l m).
Proof.
  intros A B l m a b Ha Hb. unfold pairs. apply in_flat_map. exists a. split; [exact Ha|].
  apply in_map. exact Hb.
Qed.

(* ---- the grid ---- *)
Definition grid2_ok (cf : cfg) : bool :=
  forallb (fun o => forallb (fun p => dres_eqb (dispatch (registry_of cf o) [fst p; snd p]) (expected2 cf o (fst p) (snd p)))
                            (pairs grid_kinds grid_kinds)) binary_ops.
Definition grid1_ok (cf : cfg) : bool :=
  forallb (fun o => forallb (fun k => dres_eqb (dispatch (registry_of cf o) [k]) (expected1 o k)) grid_kinds) unary_ops.

Lemma grid2_checked : forall cf, grid2_ok cf = true.
Proof. intros cf. destruct cf; vm_compute; reflexivity. Qed.
Lemma grid1_checked : forall cf, grid1_ok cf = true.
Proof. intros cf. destruct cf; vm_compute; reflexivity. Qed.

Lemma dispatch_table2 : forall cf o a b, In o binary_ops -> In a grid_kinds -> In b grid_kinds ->
  dispatch (registry_of cf o) [a; b] = expected2 cf o a b.
Proof.
  intros cf o a b Ho Ha Hb. pose proof (grid2_checked cf) as G. unfold grid2_ok in G.
  rewrite forallb_forall in G. specialize (G o Ho). rewrite forallb_forall in G.
  specialize (G (a, b) (in_pairs _ _ a b Ha Hb)). apply dres_eqb_eq in G. exact G.
Qed.

Lemma dispatch_table1 : forall cf o a, In o unary_ops -> In a grid_kinds ->
  dispatch (registry_of cf o) [a] = expected1 o a.
Proof.
  intros cf o a Ho Ha. pose proof (grid1_checked cf) as G. unfold grid1_ok in G.
  rewrite forallb_forall in G. specialize (G o Ho). rewrite forallb_forall in G.
  specialize (G a Ha). apply dres_eqb_eq in G. exact G.
Qed.

(* ---- at most one overload accepts any pair of kinds of the grid: the result cannot depend
   on the order in which the runner enumerates a layer, and the specialization rule is
   never needed ---- *)
(* the one place where two overloads accept the same operands: dict + dict when dictionaries
   count as iterables (combine_dicts and combine_lists; the former is the specialization and wins) *)
Definition dict_add_case (cf : cfg) (o : op) (a b : kind) : bool :=
  iter_dicts cf && match o, a, b with OAdd, KDict, KDict => true | _, _, _ => false end.

Definition unique_ok (cf : cfg) : bool :=
  forallb (fun o => forallb (fun p => Nat.leb (length (acceptors (registry_of cf o) [fst p; snd p])) 1
                                      || dict_add_case cf o (fst p) (snd p))
                            (pairs grid_kinds grid_kinds)) binary_ops
  && forallb (fun o => forallb (fun k => Nat.leb (length (acceptors (registry_of cf o) [k])) 1) grid_kinds) unary_ops.

Lemma unique_checked : forall cf, unique_ok cf = true.
Proof. intros cf. destruct cf; vm_compute; reflexivity. Qed.

Lemma dispatch_unique2 : forall cf o a b, In o binary_ops -> In a grid_kinds -> In b grid_kinds ->
  length (acceptors (registry_of cf o) [a; b]) <= 1 \/ dict_add_case cf o a b = true.
Proof.
  intros cf o a b Ho Ha Hb. pose proof (unique_checked cf) as G. unfold unique_ok in G.
  apply andb_prop in G. destruct G as [G _].
  rewrite forallb_forall in G. specialize (G o Ho). rewrite forallb_forall in G.
  specialize (G (a, b) (in_pairs _ _ a b Ha Hb)). cbn [fst snd] in G.
  apply orb_prop in G. destruct G as [G|G]; [left; apply Nat.leb_le; exact G | right; exact G].
Qed.

Lemma dispatch_unique1 : forall cf o a, In o unary_ops -> In a grid_kinds ->
  length (acceptors (registry_of cf o) [a]) <= 1.
Proof.
  intros cf o a Ho Ha. pose proof (unique_checked cf) as G. unfold unique_ok in G.
  apply andb_prop in G. destruct G as [_ G].
  rewrite forallb_forall in G. specialize (G o Ho). rewrite forallb_forall in G.
  specialize (G a Ha). apply Nat.leb_le in G. exact G.
Qed.

(* ---- a boolean is never a number: arithmetic, ordering and repetition operators, against
   EVERY kind of the model (scalars and non-scalars), on either side.  The only overloads
   that take a boolean are the null-ordering ones, with null on the other side. ---- *)
Definition arith_order_ops : list op := [OAdd; OSub; OMul; ODiv; OMod; OLt; OLe; OGt; OGe].

Definition bool_expected (o : op) (bool_left : bool) (k : kind) : dres :=
  match cmp_of o, k with
  | Some c, KNull => if bool_left then DPayload (PLeftNull c) else DPayload (PNullRight c)
  | _, _ => DNoMatch
  end.

Definition bool_ok (cf : cfg) : bool :=
  forallb (fun o => forallb (fun k =>
      dres_eqb (dispatch (registry_of cf o) [KBool; k]) (bool_expected o true k)
      && dres_eqb (dispatch (registry_of cf o) [k; KBool]) (bool_expected o false k)) all_kinds) arith_order_ops
  && dres_eqb (dispatch (registry_of cf UPos) [KBool]) DNoMatch
  && dres_eqb (dispatch (registry_of cf UNeg) [KBool]) DNoMatch.

Lemma bool_checked : forall cf, bool_ok cf = true.
Proof. intros cf. destruct cf; vm_compute; reflexivity. Qed.

Lemma all_kinds_complete : forall k, In k all_kinds.
Proof. destruct k; cbn; tauto. Qed.

Lemma bool_not_number : forall cf o k, In o arith_order_ops ->
  dispatch (registry_of cf o) [KBool; k] = bool_expected o true k /\
  dispatch (registry_of cf o) [k; KBool] = bool_expected o false k.
Proof.
  intros cf o k Ho. pose proof (bool_checked cf) as G. unfold bool_ok in G.
  apply andb_prop in G. destruct G as [G _]. apply andb_prop in G. destruct G as [G _].
  rewrite forallb_forall in G. specialize (G o Ho). rewrite forallb_forall in G.
  specialize (G k (all_kinds_complete k)). apply andb_prop in G. destruct G as [G1 G2].
  split; apply dres_eqb_eq; assumption.
Qed.

Lemma bool_not_number_unary : forall cf,
  dispatch (registry_of cf UPos) [KBool] = DNoMatch /\ dispatch (registry_of cf UNeg) [KBool] = DNoMatch.
Proof.
  intros cf. pose proof (bool_checked cf) as G. unfold bool_ok in G.
  apply andb_prop in G. destruct G as [G G2]. apply andb_prop in G. destruct G as [_ G1].
  split; apply dres_eqb_eq; assumption.
Qed.

(* ---- null overloads exist for EVERY kind of the model (not only scalars) ---- *)
Definition order_ops : list op := [OLt; OLe; OGt; OGe].

Definition null_expected (o : op) (a b : kind) : dres :=
  match cmp_of o with
  | Some c => match a, b with
              | KNull, KNull => DPayload (PNullNull c)
              | KNull, _ => DPayload (PNullRight c)
              | _, _ => DPayload (PLeftNull c)
              end
  | None => DNoMatch
  end.

Definition null_ok (cf : cfg) : bool :=
  forallb (fun o => forallb (fun k =>
      dres_eqb (dispatch (registry_of cf o) [KNull; k]) (null_expected o KNull k)
      && dres_eqb (dispatch (registry_of cf o) [k; KNull]) (null_expected o k KNull)) all_kinds) order_ops.

Lemma null_checked : forall cf, null_ok cf = true.
Proof. intros cf. destruct cf; vm_compute; reflexivity. Qed.

Lemma null_dispatch : forall cf o k, In o order_ops ->
  dispatch (registry_of cf o) [KNull; k] = null_expected o KNull k /\
  dispatch (registry_of cf o) [k; KNull] = null_expected o k KNull.
Proof.
  intros cf o k Ho. pose proof (null_checked cf) as G. unfold null_ok in G.
  rewrite forallb_forall in G. specialize (G o Ho). rewrite forallb_forall in G.
  specialize (G k (all_kinds_complete k)). apply andb_prop in G. destruct G as [G1 G2].
  split; apply dres_eqb_eq; assumption.
Qed.

(* ---- self-checks of the generated file ---- *)
(* every parameter of every overload answers alike for all representatives of a kind - in
   particular strings that look like dates, numerals, keywords or durations are strings *)
Lemma rows_uniform_checked : gen_rows_uniform = true.
Proof. reflexivity. Qed.

Lemma gen_kinds_ok : gen_kinds = all_kinds.
Proof. reflexivity. Qed.

Definition rows_wellformed (cf : cfg) : bool :=
  forallb (fun o => forallb (fun c => negb (ov_maps c) ||
                      (Nat.eqb (length (ov_rows c)) (arity o)
                       && forallb (fun r => Nat.eqb (length r) (length all_kinds)) (ov_rows c)))
                    (concat (ot_layers (registry_of cf o)))) all_ops.
Lemma rows_wellformed_checked : forall cf, rows_wellformed cf = true.
Proof. intros cf. destruct cf; vm_compute; reflexivity. Qed.
