(* Proofs about _publish_match (Model/Regex.v): which variables a selector can read. *)
From Coq Require Import List ZArith Bool Lia ZifyBool Arith.
From YV Require Import Common.Corr Common.CorrFacts Model.Strings Model.Regex.
Import ListNotations.

Lemma ctx_get_app k a b :
  ctx_get k (a ++ b) = match ctx_get k b with Some x => Some x | None => ctx_get k a end.
Proof.
  induction a as [|[k' v] a IH]; cbn [app ctx_get].
  - destruct (ctx_get k b); reflexivity.
  - rewrite IH. destruct (ctx_get k b); reflexivity.
Qed.

Lemma ctx_get_number n : forall gs i,
  ctx_get (KNum n) (number_from i gs) =
  if (i <=? n)%nat && (n <? i + length gs)%nat then Some (nth (n - i) gs none_rec) else None.
Proof.
  induction gs as [|g r IH]; intro i; cbn [number_from ctx_get length].
  - replace ((i <=? n)%nat && (n <? i + 0)%nat) with false by lia. reflexivity.
  - rewrite IH. destruct ((S i <=? n)%nat && (n <? S i + length r)%nat) eqn:E.
    + replace ((i <=? n)%nat && (n <? i + S (length r))%nat) with true by lia.
      replace (n - i)%nat with (S (n - S i)) by lia. reflexivity.
    + cbn [vkey_eqb]. destruct (Nat.eqb n i) eqn:En.
      * apply Nat.eqb_eq in En. subst i.
        replace ((n <=? n)%nat && (n <? n + S (length r))%nat) with true by lia.
        rewrite Nat.sub_diag. reflexivity.
      * replace ((i <=? n)%nat && (n <? i + S (length r))%nat) with false by lia. reflexivity.
Qed.

Lemma ctx_get_name_in_numbers nm : forall gs i, ctx_get (KName nm) (number_from i gs) = None.
Proof. induction gs as [|g r IH]; intro i; cbn [number_from ctx_get vkey_eqb]; [reflexivity|]. rewrite IH. reflexivity. Qed.

Definition named_part (m : mrec) (l : list (str * nat)) : list (vkey * grec) :=
  map (fun ni => (KName (fst ni), group m (snd ni))) l.

Lemma ctx_get_num_in_names m n : forall l, ctx_get (KNum n) (named_part m l) = None.
Proof. induction l as [|[nm i] r IH]; cbn [named_part map ctx_get vkey_eqb fst]; [reflexivity|]. fold (named_part m r). rewrite IH. reflexivity. Qed.

Lemma ctx_get_name_absent m nm : forall l, ~ In nm (map fst l) -> ctx_get (KName nm) (named_part m l) = None.
Proof.
  induction l as [|[n0 i0] r IH]; intro H; cbn [named_part map ctx_get vkey_eqb fst]; [reflexivity|].
  fold (named_part m r). rewrite IH by (intro; apply H; right; assumption).
  replace (str_eqb nm n0) with false; [reflexivity|].
  symmetry. apply str_eqb_neq. intro; subst. apply H. left. reflexivity.
Qed.

Lemma ctx_get_name_present m nm idx : forall l, NoDup (map fst l) -> In (nm, idx) l ->
  ctx_get (KName nm) (named_part m l) = Some (group m idx).
Proof.
  induction l as [|[n0 i0] r IH]; intros Hnd Hin; [destruct Hin|].
  cbn [named_part map ctx_get vkey_eqb fst snd]. fold (named_part m r).
  cbn [map fst] in Hnd. apply NoDup_cons_iff in Hnd as [Hnot Hnd].
  destruct Hin as [Heq|Hin].
  - injection Heq as -> ->. rewrite ctx_get_name_absent by exact Hnot. rewrite str_eqb_refl. reflexivity.
  - rewrite (IH Hnd Hin). reflexivity.
Qed.

Lemma publish_unfold m :
  publish m = ((KNum 1, m_whole m) :: number_from 2 (m_groups m)) ++ named_part m (m_named m).
Proof. reflexivity. Qed.

Lemma publish_whole m : ctx_get (KNum 1) (publish m) = Some (m_whole m).
Proof.
  rewrite publish_unfold, ctx_get_app, ctx_get_num_in_names. cbn [ctx_get].
  rewrite ctx_get_number. cbn [Nat.leb andb vkey_eqb Nat.eqb]. reflexivity.
Qed.

Lemma publish_group m i : (i < length (m_groups m))%nat ->
  ctx_get (KNum (i + 2)) (publish m) = Some (nth i (m_groups m) none_rec).
Proof.
  intro Hi. rewrite publish_unfold, ctx_get_app, ctx_get_num_in_names. cbn [ctx_get].
  rewrite ctx_get_number.
  replace ((2 <=? i + 2)%nat && (i + 2 <? 2 + length (m_groups m))%nat) with true by lia.
  replace (i + 2 - 2)%nat with i by lia. reflexivity.
Qed.

Lemma publish_named m nm idx : NoDup (map fst (m_named m)) -> In (nm, idx) (m_named m) ->
  ctx_get (KName nm) (publish m) = Some (group m idx).
Proof.
  intros Hnd Hin. rewrite publish_unfold, ctx_get_app, (ctx_get_name_present m nm idx _ Hnd Hin). reflexivity.
Qed.

Lemma publish_no_other_number m n : (n = 0 \/ length (m_groups m) + 2 <= n)%nat ->
  ctx_get (KNum n) (publish m) = None.
Proof.
  intro Hn. rewrite publish_unfold, ctx_get_app, ctx_get_num_in_names. cbn [ctx_get].
  rewrite ctx_get_number.
  replace ((2 <=? n)%nat && (n <? 2 + length (m_groups m))%nat) with false by lia.
  cbn [vkey_eqb]. replace (Nat.eqb n 1) with false by lia. reflexivity.
Qed.

Lemma publish_no_other_name m nm : ~ In nm (map fst (m_named m)) -> ctx_get (KName nm) (publish m) = None.
Proof.
  intro Hn. rewrite publish_unfold, ctx_get_app, ctx_get_name_absent by exact Hn.
  cbn [ctx_get vkey_eqb]. rewrite ctx_get_name_in_numbers. reflexivity.
Qed.

(* replaceBy / replace / split leave the text outside the matches alone *)
Lemma no_match_identity s items repl cnt :
  replace_by s [] items cnt = s /\ replace_lit s [] repl cnt = s /\ regex_split s [] cnt = [Some s].
Proof.
  unfold replace_by, replace_lit, regex_split, limit.
  destruct (Z.eqb cnt 0); rewrite ?firstn_nil; cbn; repeat split; reflexivity.
Qed.

Lemma splice_one s m f v st en : m_whole m = (v, st, en) ->
  splice s 0 [m] f = firstn (Z.to_nat st) s ++ f m ++ skipn (Z.to_nat en) s.
Proof.
  intro H. cbn [splice]. rewrite H. cbn [skipn Z.to_nat]. rewrite Z.sub_0_r. reflexivity.
Qed.

(* searchAll with a lazy selector: element i shows the records of match i, whatever is done
   with the outer sequence first *)
Lemma search_all_per_match ms sel :
  search_all_lazy ms sel CToList = map (lsel_eval sel) ms /\
  search_all_lazy ms sel CPlain = search_all_lazy ms sel CToList /\
  search_all_lazy ms sel CReverse = rev (search_all_lazy ms sel CToList) /\
  search_all_lazy ms sel CTake1 = firstn 1 (search_all_lazy ms sel CToList) /\
  search_all_lazy ms sel CSkip1 = skipn 1 (search_all_lazy ms sel CToList) /\
  (forall i m, nth_error ms i = Some m ->
     nth_error (search_all_lazy ms sel CToList) i = Some (lsel_eval sel m)).
Proof.
  unfold search_all_lazy, consume. repeat split; try reflexivity.
  intros i m H. apply map_nth_error. exact H.
Qed.

(* what a lazy selector reads is the published record of its own match *)
Lemma lsel_reads_published m k g : ctx_get k (publish m) = Some g ->
  (forall n, lsel_eval (LValue k n) m = repeat (VStr (fst (fst g))) n) /\
  lsel_eval (LSpan k) m = [VInt (snd (fst g)); VInt (snd g)] /\
  (forall thr, lsel_eval (LWhere k thr) m = if Z.gtb (snd g) thr then [VStr (Some [120%Z])] else []).
Proof.
  intro H. unfold lsel_eval, var_rec. rewrite H. repeat split; reflexivity.
Qed.
