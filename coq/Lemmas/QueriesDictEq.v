(* Dict equality is equality of finite maps: insertion order does not matter. *)
From Coq Require Import List ZArith Bool Arith Lia Permutation.
From YV Require Import Common.Corr Model.Queries Lemmas.QueriesOrder Lemmas.QueriesGroup.
Import ListNotations.

Section SortPerm.
  Context {A : Type}.
  Variable lt : A -> A -> bool.
  Hypothesis lt_asym : forall a b, lt a b = true -> lt b a = false.
  Hypothesis lt_ntrans : forall a b c, lt b a = false -> lt c b = false -> lt c a = false.

  Lemma lt_trans a b c : lt a b = true -> lt b c = true -> lt a c = true.
  Proof.
    intros H1 H2. destruct (lt a c) eqn:E; [reflexivity|]. exfalso.
    pose proof (lt_ntrans b c a (lt_asym _ _ H2) E) as N. rewrite H1 in N. discriminate N.
  Qed.

  (* inserting two strictly ordered elements commutes, into any list *)
  Lemma ins_comm x y : lt x y = true -> forall l, ins_sorted lt x (ins_sorted lt y l) = ins_sorted lt y (ins_sorted lt x l).
  Proof.
    intros H l. pose proof (lt_asym _ _ H) as Hyx. induction l as [|z r IH]; cbn [ins_sorted].
    - rewrite Hyx, H. reflexivity.
    - destruct (lt z x) eqn:Zx.
      + rewrite (lt_trans _ _ _ Zx H). cbn [ins_sorted]. rewrite Zx, (lt_trans _ _ _ Zx H), IH. reflexivity.
      + destruct (lt z y) eqn:Zy; cbn [ins_sorted]; rewrite ?Zx, ?Zy, ?H, ?Hyx; reflexivity.
  Qed.

  Definition cmpb (x y : A) : bool := lt x y || lt y x.

  Lemma ins_comm_cmp x y l : cmpb x y = true -> ins_sorted lt x (ins_sorted lt y l) = ins_sorted lt y (ins_sorted lt x l).
  Proof. unfold cmpb. intro H. apply orb_true_iff in H as [H|H]; [apply ins_comm; exact H | symmetry; apply ins_comm; exact H]. Qed.

  Lemma sort_perm_eq l l' : Permutation l l' -> NoDup l ->
    (forall x y, In x l -> In y l -> x <> y -> cmpb x y = true) -> sort_l lt l = sort_l lt l'.
  Proof.
    intro P. induction P as [| x l l' P IH | x y l | l l' l'' P1 IH1 P2 IH2]; intros ND C.
    - reflexivity.
    - cbn [sort_l]. rewrite IH; [reflexivity | inversion ND; assumption |]. intros a b Ha Hb. apply C; right; assumption.
    - cbn [sort_l]. apply ins_comm_cmp. apply C; [left; reflexivity | right; left; reflexivity |].
      inversion ND as [|? ? N1 _]; subst. intro E. apply N1. left. symmetry. exact E.
    - rewrite IH1 by assumption. apply IH2.
      + apply (Permutation_NoDup P1 ND).
      + intros a b Ha Hb. apply C; apply (Permutation_in _ (Permutation_sym P1)); assumption.
  Qed.
End SortPerm.

Definition is_scalar (v : val) : bool := match v with VNull | VBool _ | VInt _ | VStr _ => true | _ => false end.

Lemma canon_scalar v : is_scalar v = true -> canon v = v.
Proof. destruct v; cbn; intro H; try discriminate; reflexivity. Qed.

Lemma val_ltb_asym a b : val_ltb a b = true -> val_ltb b a = false.
Proof.
  intro H. pose proof (keys_lt_asym [(LId, true)] a b) as K. unfold keys_lt in K. cbn [compare_keys apply] in K.
  rewrite H in K. specialize (K eq_refl). destruct (val_ltb b a) eqn:E; [discriminate K | reflexivity].
Qed.

Lemma keys_lt_id a b : keys_lt [(LId, true)] a b = val_ltb a b.
Proof.
  unfold keys_lt. cbn [compare_keys apply]. destruct (val_ltb a b) eqn:E; [reflexivity|]. destruct (val_gtb a b); reflexivity.
Qed.

Lemma val_ltb_ntrans a b c : val_ltb b a = false -> val_ltb c b = false -> val_ltb c a = false.
Proof. rewrite <- !keys_lt_id. apply keys_lt_ntrans. Qed.

(* distinct scalars are strictly ordered one way or the other *)
Lemma scalar_cmp a b : is_scalar a = true -> is_scalar b = true -> val_seqb a b = false -> val_ltb a b || val_ltb b a = true.
Proof.
  intros Sa Sb N. unfold val_ltb, kcmp.
  destruct a as [| x | x | | s |], b as [| y | y | | t |]; try discriminate; cbn in *; try reflexivity.
  - destruct x, y; try discriminate N; reflexivity.
  - destruct (Z.compare_spec (if x then 1 else 0) y) as [E|E|E], (Z.compare_spec y (if x then 1 else 0)) as [F|F|F];
      try reflexivity; try lia; try (rewrite E, Z.eqb_refl in N; discriminate N).
  - destruct (Z.compare_spec x (if y then 1 else 0)) as [E|E|E], (Z.compare_spec (if y then 1 else 0) x) as [F|F|F];
      try reflexivity; try lia; try (rewrite E, Z.eqb_refl in N; discriminate N).
  - destruct (Z.compare_spec x y) as [E|E|E], (Z.compare_spec y x) as [F|F|F]; try reflexivity; try lia;
      try (rewrite E, Z.eqb_refl in N; discriminate N).
  - destruct (lcmp s t) eqn:E; try reflexivity. apply lcmp_eq in E. subst. rewrite (proj2 (zlist_eqb_eq t t) eq_refl) in N. discriminate N.
    rewrite (lcmp_antisym s t), E. reflexivity.
Qed.

Definition centry (kv : val * val) : val * val := match kv with (k, x) => (canon k, canon x) end.
Definition entry_lt (p q : val * val) : bool := val_ltb (fst p) (fst q).

Theorem dict_eqb_perm m m' d d' : Permutation d d' ->
  Forall (fun kv => is_scalar (fst kv) = true) d ->
  ForallOrdPairs (fun p q => val_seqb (fst p) (fst q) = false) d ->
  val_eqb (VDict m d) (VDict m' d') = true.
Proof.
  intros P Sc D. unfold val_eqb. cbn [canon]. fold centry. fold entry_lt.
  assert (E : sort_l entry_lt (map centry d) = sort_l entry_lt (map centry d')).
  { apply (sort_perm_eq entry_lt).
    - intros a b. apply val_ltb_asym.
    - intros a b c. apply val_ltb_ntrans.
    - apply Permutation_map. exact P.
    - (* canonical entries are pairwise different: their keys are *)
      clear P. induction d as [|[k x] r IH]; [constructor|]. cbn [map]. inversion Sc as [|? ? Sk Sr]; subst.
      inversion D as [|? ? F Dr]; subst. constructor; [|apply IH; assumption].
      intro I. apply in_map_iff in I as ([k2 x2] & E2 & I2). rewrite Forall_forall in F. pose proof (F _ I2) as N. cbn [fst] in *.
      rewrite Forall_forall in Sr. pose proof (Sr _ I2) as S2. cbn [fst] in S2. unfold centry in E2. injection E2 as Ek _.
      rewrite (canon_scalar _ Sk), (canon_scalar _ S2) in Ek. subst k2. rewrite val_seqb_refl in N. discriminate N.
    - intros p q Hp Hq Npq. apply in_map_iff in Hp as ([k1 x1] & <- & I1). apply in_map_iff in Hq as ([k2 x2] & <- & I2).
      rewrite Forall_forall in Sc. pose proof (Sc _ I1) as S1. pose proof (Sc _ I2) as S2. cbn [fst] in *.
      unfold cmpb, entry_lt, centry. cbn [fst]. rewrite (canon_scalar _ S1), (canon_scalar _ S2).
      apply scalar_cmp; try assumption.
      (* different positions of a list with pairwise different keys *)
      clear - D I1 I2 Npq. induction d as [|e r IH]; [destruct I1|]. inversion D as [|? ? F Dr]; subst. rewrite Forall_forall in F.
      destruct I1 as [->|I1], I2 as [E2|I2].
      + exfalso. apply Npq. rewrite <- E2. reflexivity.
      + apply (F _ I2).
      + subst e. rewrite val_seqb_sym. apply (F _ I1).
      + apply IH; assumption. }
  rewrite E. apply val_seqb_refl.
Qed.
