(* Proofs about the backtracking matcher of Model/RegexEngine.v:
   fuel suffices (monotonicity), matches lie inside the subject, group spans inside the
   match, finditer matches are ordered and do not overlap. *)
From Coq Require Import List ZArith Bool Lia ZifyBool Arith.
From YV Require Import Common.Corr Model.Strings Model.Regex Model.RegexEngine.
Import ListNotations.
Local Open Scope nat_scope.

(* ---- orelse ------------------------------------------------------------------- *)
Lemma orelse_inv a b x : orelse a b = Some x ->
  (a = Some x /\ x <> None) \/ (a = Some None /\ b tt = Some x).
Proof.
  unfold orelse. destruct a as [[y|]|]; intro H.
  - left. split; [exact H|]. injection H as <-. discriminate.
  - right. split; [reflexivity|exact H].
  - discriminate.
Qed.

Lemma orelse_mono a b a' b' x :
  (forall y, a = Some y -> a' = Some y) -> (forall y, b tt = Some y -> b' tt = Some y) ->
  orelse a b = Some x -> orelse a' b' = Some x.
Proof.
  intros Ha Hb H. destruct (orelse_inv _ _ _ H) as [[H1 H2]|[H1 H2]].
  - rewrite (Ha _ H1). destruct x; [reflexivity|congruence].
  - rewrite (Ha _ H1). cbn. apply Hb. exact H2.
Qed.

(* ---- fuel suffices: more fuel never changes a result ------------------------------ *)
Lemma run_mono fl ma st0 : forall f k st c x,
  run f fl ma st0 k st c = Some x -> run (S f) fl ma st0 k st c = Some x.
Proof.
  induction f as [|f IH]; intros k st c x H; [discriminate|].
  remember (S f) as f1 eqn:Ef1.
  rewrite Ef1 in H. cbn [run] in H. cbn [run].
  destruct k as [|[r|idx s0|r mn mx g count last] k'].
  - exact H.
  - destruct r as [|ch| |neg cs| | |a b|a b|r' mn mx g|idx r']; subst f1;
      try (apply IH; exact H);
      try (destruct (advance st) as [[x0 st']|]; [|exact H];
           match goal with |- context [if ?b then _ else _] => destruct b end; [apply IH; exact H|exact H]);
      try (match goal with |- context [if ?b then _ else _] => destruct b end; [apply IH; exact H|exact H]).
    eapply orelse_mono; [| |exact H]; intros y Hy; apply IH; exact Hy.
  - subst f1. apply IH. exact H.
  - subst f1. destruct (Nat.ltb count mn); [apply IH; exact H|].
    destruct g.
    + destruct (below count mx && moved last (pos st)); [|apply IH; exact H].
      eapply orelse_mono; [| |exact H]; intros y Hy; apply IH; exact Hy.
    + eapply orelse_mono; [| |exact H]; intros y Hy; [apply IH; exact Hy|].
      destruct (below count mx && moved last (pos st)); [apply IH; exact Hy|exact Hy].
Qed.

Lemma run_mono_le fl ma st0 f f' k st c x : f <= f' ->
  run f fl ma st0 k st c = Some x -> run f' fl ma st0 k st c = Some x.
Proof. intros Hle H. induction Hle as [|m Hle IH]; [exact H|]. apply run_mono. exact IH. Qed.

(* ---- where a match and its captures lie ---------------------------------------------- *)
Definition cap_in (lo hi : nat) (o : option (nat * nat)) : Prop :=
  match o with Some (a, b) => lo <= a /\ a <= b /\ b <= hi | None => True end.
Definition caps_in (lo hi : nat) (c : caps) : Prop := Forall (cap_in lo hi) c.
Definition frame_in (lo hi : nat) (fr : frame) : Prop :=
  match fr with FClose _ s0 => lo <= s0 /\ s0 <= hi | _ => True end.
Definition frames_in (lo hi : nat) (k : list frame) : Prop := Forall (frame_in lo hi) k.

Lemma caps_in_weaken lo hi hi' c : hi <= hi' -> caps_in lo hi c -> caps_in lo hi' c.
Proof.
  intros Hle H. eapply Forall_impl; [|exact H]. intros [[a b]|] Ha; cbn in *; [lia|exact I].
Qed.
Lemma frames_in_weaken lo hi hi' k : hi <= hi' -> frames_in lo hi k -> frames_in lo hi' k.
Proof.
  intros Hle H. eapply Forall_impl; [|exact H]. intros [r|idx s0|r mn mx g cnt l] Ha; cbn in *; try exact I. lia.
Qed.

Lemma set_nth_Forall {A} (P : A -> Prop) v : forall l n, P v -> Forall P l -> Forall P (set_nth n v l).
Proof.
  induction l as [|x l IH]; intros n Hv Hl; [destruct n; constructor|].
  inversion Hl; subst. destruct n; cbn; constructor; auto.
Qed.
Lemma set_nth_length {A} (v : A) : forall l n, length (set_nth n v l) = length l.
Proof. induction l as [|x l IH]; intros [|n]; cbn; auto. Qed.

Lemma set_cap_in lo hi c idx a b : lo <= a -> a <= b -> b <= hi -> caps_in lo hi c -> caps_in lo hi (set_cap c idx (a, b)).
Proof.
  intros H1 H2 H3 Hc. destruct idx as [|i]; [exact Hc|]. cbn. apply set_nth_Forall; [cbn; lia|exact Hc].
Qed.
Lemma set_cap_length c idx sp : length (set_cap c idx sp) = length c.
Proof. destruct idx; [reflexivity|apply set_nth_length]. Qed.

Lemma advance_spec st x st' : advance st = Some (x, st') ->
  pos st' = S (pos st) /\ rest st = x :: rest st'.
Proof.
  unfold advance. destruct (rest st) as [|y r] eqn:E; [discriminate|]. intro H. injection H as <- <-. cbn. auto.
Qed.

(* the post-condition of a successful run started at position p with s0 the scan start *)
Definition run_post (ma : bool) (st0 lo : nat) (st : mpos) (c : caps) (e : nat) (c' : caps) : Prop :=
  pos st <= e /\ e <= pos st + length (rest st) /\ caps_in lo e c' /\ length c' = length c /\
  (ma = true -> e <> st0).

Lemma run_bounds fl ma st0 lo : forall f k st c e c',
  run f fl ma st0 k st c = Some (Some (e, c')) ->
  lo <= pos st -> caps_in lo (pos st) c -> frames_in lo (pos st) k ->
  run_post ma st0 lo st c e c'.
Proof.
  induction f as [|f IH]; intros k st c e c' H Hlo Hc Hk; [discriminate|].
  cbn [run] in H.
  assert (Step : forall k2 st2 c2, run f fl ma st0 k2 st2 c2 = Some (Some (e, c')) ->
            pos st <= pos st2 -> pos st2 + length (rest st2) = pos st + length (rest st) ->
            caps_in lo (pos st2) c2 -> length c2 = length c -> frames_in lo (pos st2) k2 ->
            run_post ma st0 lo st c e c').
  { intros k2 st2 c2 H2 Hp Hl Hc2 Hlen Hk2.
    destruct (IH k2 st2 c2 e c' H2 ltac:(lia) Hc2 Hk2) as (A & B & C & D & E).
    unfold run_post. repeat split; try lia; try assumption. }
  assert (Same : forall k2 c2, run f fl ma st0 k2 st c2 = Some (Some (e, c')) ->
            caps_in lo (pos st) c2 -> length c2 = length c -> frames_in lo (pos st) k2 ->
            run_post ma st0 lo st c e c').
  { intros k2 c2 H2 Hc2 Hlen Hk2. apply (Step k2 st c2 H2); auto. }
  assert (Adv : forall x st' k2, advance st = Some (x, st') -> run f fl ma st0 k2 st' c = Some (Some (e, c')) ->
            frames_in lo (pos st) k2 -> run_post ma st0 lo st c e c').
  { intros x st' k2 Ha H2 Hk2. destruct (advance_spec _ _ _ Ha) as [Hp Hr].
    apply (Step k2 st' c H2); try lia.
    - rewrite Hr. cbn [length]. lia.
    - apply (caps_in_weaken lo (pos st)); [lia|exact Hc].
    - apply (frames_in_weaken lo (pos st)); [lia|exact Hk2]. }
  destruct k as [|[r|idx s0|r mn mx g count last] k'].
  - destruct (ma && Nat.eqb (pos st) st0) eqn:E; [discriminate|]. injection H as <- <-.
    unfold run_post. split; [lia|]. split; [lia|]. split; [exact Hc|]. split; [reflexivity|].
    intros Hma He. rewrite Hma, He, Nat.eqb_refl in E. discriminate.
  - inversion Hk as [|? ? _ Hk']; subst.
    assert (Hk1 : forall fr, frame_in lo (pos st) fr -> frames_in lo (pos st) (fr :: k')) by (intros; constructor; assumption).
    assert (Hk2 : forall fr fr2, frame_in lo (pos st) fr -> frame_in lo (pos st) fr2 -> frames_in lo (pos st) (fr :: fr2 :: k'))
      by (intros; constructor; [assumption|constructor; assumption]).
    destruct r as [|ch| |neg cs| | |a b|a b|r' mn mx g|idx r'].
    + apply (Same k' c H); auto.
    + destruct (advance st) as [[x st']|] eqn:Ea; [|discriminate].
      destruct (chr_eq fl ch x); [|discriminate]. apply (Adv x st' k' eq_refl H Hk').
    + destruct (advance st) as [[x st']|] eqn:Ea; [|discriminate].
      destruct (dot_all fl || negb (Z.eqb x nl)); [|discriminate]. apply (Adv x st' k' eq_refl H Hk').
    + destruct (advance st) as [[x st']|] eqn:Ea; [|discriminate].
      destruct (xorb neg (cls_mem fl cs x)); [|discriminate]. apply (Adv x st' k' eq_refl H Hk').
    + destruct (at_bol fl st); [|discriminate]. apply (Same k' c H); auto.
    + destruct (at_eol fl st); [|discriminate]. apply (Same k' c H); auto.
    + apply (Same _ c H); auto. apply Hk2; exact I.
    + destruct (orelse_inv _ _ _ H) as [[H1 _]|[_ H1]]; apply (Same _ c H1); auto; apply Hk1; exact I.
    + apply (Same _ c H); auto. apply Hk1; exact I.
    + apply (Same _ c H); auto. apply Hk2; [exact I|]. cbn. lia.
  - inversion Hk as [|? ? Hfr Hk']; subst. cbn in Hfr.
    apply (Same k' _ H); auto.
    + apply set_cap_in; try lia. exact Hc.
    + apply set_cap_length.
  - inversion Hk as [|? ? _ Hk']; subst.
    assert (Hk2 : forall cnt l, frames_in lo (pos st) (FRe r :: FUntil r mn mx g cnt l :: k'))
      by (intros; constructor; [exact I|constructor; [exact I|exact Hk']]).
    destruct (Nat.ltb count mn); [apply (Same _ c H); auto|].
    destruct g.
    + destruct (below count mx && moved last (pos st)); [|apply (Same k' c H); auto].
      destruct (orelse_inv _ _ _ H) as [[H1 _]|[_ H1]]; apply (Same _ c H1); auto.
    + destruct (orelse_inv _ _ _ H) as [[H1 _]|[_ H1]]; [apply (Same _ c H1); auto|].
      destruct (below count mx && moved last (pos st)); [|discriminate]. apply (Same _ c H1); auto.
Qed.

(* ---- one attempt, the leftmost scan ---------------------------------------------------------- *)
Lemma caps_in_repeat lo hi n : caps_in lo hi (repeat None n).
Proof. induction n; cbn; constructor; [exact I|assumption]. Qed.

Lemma attempt_spec fuel fl p ma st e c : attempt fuel fl p ma st = Some (Some (e, c)) ->
  pos st <= e /\ e <= pos st + length (rest st) /\ caps_in (pos st) e c /\ length c = p_groups p /\
  (ma = true -> e <> pos st).
Proof.
  unfold attempt. intro H.
  destruct (run_bounds fl ma (pos st) (pos st) fuel _ st _ e c H (le_n _) (caps_in_repeat _ _ _)
              ltac:(constructor; [exact I|constructor])) as (A & B & C & D & E).
  rewrite repeat_length in D. auto.
Qed.

Lemma attempt_mono f f' fl p ma st x : f <= f' ->
  attempt f fl p ma st = Some x -> attempt f' fl p ma st = Some x.
Proof. unfold attempt. apply run_mono_le. Qed.

Lemma scan_eq fuel fl p ma ps pv rs :
  scan fuel fl p ma ps pv rs =
  match attempt fuel fl p ma {| pos := ps; prev := pv; rest := rs |} with
  | None => None
  | Some (Some (e, c)) => Some (Some (ps, e, c))
  | Some None => match rs with [] => Some None | x :: r => scan fuel fl p false (S ps) (Some x) r end
  end.
Proof. destruct rs; reflexivity. Qed.

Lemma scan_spec fuel fl p : forall rs ma ps pv b e c,
  scan fuel fl p ma ps pv rs = Some (Some (b, e, c)) ->
  ps <= b /\ b <= e /\ e <= ps + length rs /\ caps_in b e c /\ length c = p_groups p /\
  (ma = true -> b = ps -> e <> ps).
Proof.
  induction rs as [|x r IH]; intros ma ps pv b e c H; rewrite scan_eq in H;
    destruct (attempt fuel fl p ma _) as [[[e0 c0]|]|] eqn:Ea; try discriminate.
  - injection H as <- <- <-. destruct (attempt_spec _ _ _ _ _ _ _ Ea) as (A & B & C & D & E). cbn in *.
    repeat split; auto; lia.
  - injection H as <- <- <-. destruct (attempt_spec _ _ _ _ _ _ _ Ea) as (A & B & C & D & E). cbn in *.
    repeat split; auto; lia.
  - destruct (IH _ _ _ _ _ _ H) as (A & B & C & D & E & F). cbn [length].
    repeat split; auto; try lia.
Qed.

Lemma scan_mono f f' fl p : f <= f' -> forall rs ma ps pv x,
  scan f fl p ma ps pv rs = Some x -> scan f' fl p ma ps pv rs = Some x.
Proof.
  intro Hle. induction rs as [|x0 r IH]; intros ma ps pv x H; rewrite scan_eq in H; rewrite scan_eq;
    destruct (attempt f fl p ma _) as [[[e0 c0]|]|] eqn:Ea; try discriminate;
    rewrite (attempt_mono f f' _ _ _ _ _ Hle Ea); try exact H.
  apply IH. exact H.
Qed.

(* ---- finditer ------------------------------------------------------------------------------------ *)
Lemma seek_length : forall n pv s, length (snd (seek n pv s)) = length s - n.
Proof.
  induction n as [|n IH]; intros pv s; cbn [seek]; [cbn; lia|].
  destruct s as [|x r]; [reflexivity|]. rewrite IH. reflexivity.
Qed.

Lemma seek_skipn : forall n pv s, snd (seek n pv s) = skipn n s.
Proof.
  induction n as [|n IH]; intros pv s; cbn [seek]; [reflexivity|].
  destruct s as [|x r]; [reflexivity|]. rewrite IH. reflexivity.
Qed.

(* the matches found from position [from] on: each inside the subject, its captures inside
   the match, starts at or after the previous end, and after an empty match the next match at
   the same position is not empty *)
Fixpoint ordered (len from : nat) (ma : bool) (ngroups : nat) (l : list (nat * nat * caps)) : Prop :=
  match l with
  | [] => True
  | (b, e, c) :: l' =>
      from <= b /\ b <= e /\ e <= len /\ caps_in b e c /\ length c = ngroups /\
      (ma = true -> b = from -> e <> from) /\ ordered len e (Nat.eqb b e) ngroups l'
  end.

Lemma find_all_go_eq g fuel fl p s from ma :
  find_all_go (S g) fuel fl p s from ma =
  match scan fuel fl p ma from (fst (seek from None s)) (snd (seek from None s)) with
  | None => None
  | Some None => Some []
  | Some (Some (b, e, c)) =>
      match find_all_go g fuel fl p s e (Nat.eqb b e) with
      | None => None
      | Some l => Some ((b, e, c) :: l)
      end
  end.
Proof. cbn [find_all_go]. destruct (seek from None s). reflexivity. Qed.

Lemma find_all_go_spec fuel fl p s : forall gas from ma l, from <= length s ->
  find_all_go gas fuel fl p s from ma = Some l -> ordered (length s) from ma (p_groups p) l.
Proof.
  induction gas as [|g IH]; intros from ma l Hf H; [discriminate|].
  rewrite find_all_go_eq in H.
  destruct (scan fuel fl p ma from _ _) as [[[[b e] c]|]|] eqn:Es; try discriminate.
  - destruct (find_all_go g fuel fl p s e (Nat.eqb b e)) as [l'|] eqn:Er; [|discriminate].
    injection H as <-. destruct (scan_spec _ _ _ _ _ _ _ _ _ _ Es) as (A & B & C & D & E & F).
    rewrite seek_length in C. cbn [ordered]. repeat split; auto; try lia.
    apply (IH e _ l'); [lia|exact Er].
  - injection H as <-. exact I.
Qed.

Lemma find_all_go_mono f f' fl p s : f <= f' -> forall gas from ma l,
  find_all_go gas f fl p s from ma = Some l -> find_all_go gas f' fl p s from ma = Some l.
Proof.
  intro Hle. induction gas as [|g IH]; intros from ma l H; [discriminate|].
  rewrite find_all_go_eq in H. rewrite find_all_go_eq.
  destruct (scan f fl p ma from _ _) as [[[[b e] c]|]|] eqn:Es; try discriminate;
    rewrite (scan_mono f f' fl p Hle _ _ _ _ _ Es); [|exact H].
  destruct (find_all_go g f fl p s e (Nat.eqb b e)) as [l'|] eqn:Er; [|discriminate].
  rewrite (IH _ _ _ Er). exact H.
Qed.

(* the bound on the number of matches: gas never is the reason for running out *)
Definition gas_need (len from : nat) (ma : bool) : nat := 2 * (len - from) + (if ma then 1 else 2).

Lemma find_all_go_gas fuel fl p s : forall gas gas' from ma, from <= length s ->
  gas_need (length s) from ma <= gas -> gas_need (length s) from ma <= gas' ->
  find_all_go gas fuel fl p s from ma = find_all_go gas' fuel fl p s from ma.
Proof.
  induction gas as [|g IH]; intros gas' from ma Hf Hg Hg'.
  - unfold gas_need in Hg. destruct ma; lia.
  - destruct gas' as [|g']; [unfold gas_need in Hg'; destruct ma; lia|].
    rewrite !find_all_go_eq.
    destruct (scan fuel fl p ma from _ _) as [[[[b e] c]|]|] eqn:Es; try reflexivity.
    destruct (scan_spec _ _ _ _ _ _ _ _ _ _ Es) as (A & B & C & D & E & F).
    rewrite seek_length in C.
    assert (Hn : gas_need (length s) e (Nat.eqb b e) <= g /\ gas_need (length s) e (Nat.eqb b e) <= g').
    { unfold gas_need in *. destruct (Nat.eqb b e) eqn:Ebe.
      - apply Nat.eqb_eq in Ebe. subst e. destruct (Nat.eq_dec b from) as [->|Hne].
        + destruct ma; [exfalso; apply (F eq_refl eq_refl); reflexivity|]. lia.
        + destruct ma; lia.
      - apply Nat.eqb_neq in Ebe. destruct ma; lia. }
    rewrite (IH g' e (Nat.eqb b e)); [reflexivity|lia|tauto|tauto].
Qed.

Lemma find_all_gas_suffices fuel fl p s gas : 2 * length s + 2 <= gas ->
  find_all_go gas fuel fl p s 0 false = find_all fuel fl p s.
Proof.
  intro H. unfold find_all. apply find_all_go_gas; unfold gas_need; lia.
Qed.

Lemma find_all_spec fuel fl p s l : find_all fuel fl p s = Some l -> ordered (length s) 0 false (p_groups p) l.
Proof. unfold find_all. apply find_all_go_spec. lia. Qed.

Lemma find_all_mono f f' fl p s l : f <= f' -> find_all f fl p s = Some l -> find_all f' fl p s = Some l.
Proof. intro H. unfold find_all. apply find_all_go_mono. exact H. Qed.

(* search is the first finditer match *)
Lemma find_first_is_head fuel fl p s l : find_all fuel fl p s = Some l ->
  find_first fuel fl p s = Some (hd_error l).
Proof.
  unfold find_all, find_first. replace (2 * length s + 3) with (S (2 * length s + 2)) by lia.
  rewrite find_all_go_eq. cbn [seek fst snd].
  destruct (scan fuel fl p false 0 None s) as [[[[b e] c]|]|]; try discriminate.
  - destruct (find_all_go _ _ _ _ _ _ _); [|discriminate]. intro H. injection H as <-. reflexivity.
  - intro H. injection H as <-. reflexivity.
Qed.

(* ---- match records -------------------------------------------------------------------------------- *)
(* a group record: unset, or the slice [b, e) of the subject with lo <= b <= e <= hi *)
Definition rec_inside (s : str) (lo hi : nat) (g : grec) : Prop :=
  g = none_rec \/
  exists b e, g = (Some (slice_nat s b e), Z.of_nat b, Z.of_nat e) /\ lo <= b /\ b <= e /\ e <= hi.

Definition mrec_ok (p : pattern) (s : str) (m : mrec) : Prop :=
  exists b e, m_whole m = (Some (slice_nat s b e), Z.of_nat b, Z.of_nat e) /\ b <= e /\ e <= length s /\
              Forall (rec_inside s b e) (m_groups m) /\ length (m_groups m) = p_groups p /\ m_named m = p_names p.

Lemma slice_nat_length s b e : b <= e -> e <= length s -> length (slice_nat s b e) = e - b.
Proof. intros H1 H2. unfold slice_nat. rewrite firstn_length, skipn_length. lia. Qed.

Lemma to_mrec_ok p s b e c : b <= e -> e <= length s -> caps_in b e c -> length c = p_groups p ->
  mrec_ok p s (to_mrec p s (b, e, c)).
Proof.
  intros H1 H2 Hc Hl. exists b, e. cbn. repeat split; auto.
  - clear Hl. induction Hc as [|o c' Ho Hc' IH]; cbn; constructor; auto.
    destruct o as [[a d]|]; cbn in *; [|left; reflexivity]. right. exists a, d. repeat split; lia.
  - rewrite map_length. exact Hl.
Qed.

Fixpoint chain_ok (ps pe : Z) (l : list mrec) : Prop :=
  match l with
  | [] => True
  | m :: r => (pe <= snd (fst (m_whole m)))%Z /\
              (ps = pe -> snd (fst (m_whole m)) = pe -> (snd (fst (m_whole m)) < snd (m_whole m))%Z) /\
              chain_ok (snd (fst (m_whole m))) (snd (m_whole m)) r
  end.
(* finditer order: every match starts at or after the end of the previous one, and a match
   that follows an empty match at the same position is not empty *)
Definition matches_ordered (l : list mrec) : Prop :=
  match l with [] => True | m :: r => chain_ok (snd (fst (m_whole m))) (snd (m_whole m)) r end.

Lemma ordered_chain p s n : forall l pb pe, ordered (length s) pe (Nat.eqb pb pe) n l ->
  chain_ok (Z.of_nat pb) (Z.of_nat pe) (map (to_mrec p s) l).
Proof.
  induction l as [|[[b e] c] l IH]; intros pb pe H; [exact I|].
  cbn [ordered] in H. destruct H as (A & B & C & D & E & F & G).
  cbn [map chain_ok to_mrec m_whole cap_rec fst snd]. split; [lia|]. split.
  - intros H1 H2. assert (pb = pe) by lia. assert (b = pe) by lia.
    assert (e <> pe) by (apply F; [apply Nat.eqb_eq; assumption|assumption]). lia.
  - apply IH. exact G.
Qed.

Lemma ordered_ok p s n : n = p_groups p -> forall l from ma, ordered (length s) from ma n l ->
  Forall (mrec_ok p s) (map (to_mrec p s) l).
Proof.
  intros -> l. induction l as [|[[b e] c] l IH]; intros from ma H; [constructor|].
  cbn [ordered] in H. destruct H as (A & B & C & D & E & F & G). cbn [map]. constructor.
  - apply to_mrec_ok; assumption.
  - apply (IH _ _ G).
Qed.

Lemma engine_finditer_spec fuel fl p s ms : engine_finditer fuel fl p s = Some ms ->
  Forall (mrec_ok p s) ms /\ matches_ordered ms.
Proof.
  unfold engine_finditer. destruct (find_all fuel fl p s) as [l|] eqn:E; [|discriminate].
  intro H. injection H as <-. pose proof (find_all_spec _ _ _ _ _ E) as Ho. split.
  - apply (ordered_ok p s _ eq_refl l _ _ Ho).
  - destruct l as [|[[b e] c] l]; [exact I|]. cbn [ordered] in Ho. destruct Ho as (_ & _ & _ & _ & _ & _ & G).
    cbn [map matches_ordered to_mrec m_whole cap_rec fst snd]. apply (ordered_chain p s _ l b e G).
Qed.

Lemma engine_search_spec fuel fl p s m : engine_search fuel fl p s = Some (Some m) -> mrec_ok p s m.
Proof.
  unfold engine_search, find_first. destruct (scan fuel fl p false 0 None s) as [[[[b e] c]|]|] eqn:E; try discriminate.
  intro H. injection H as <-. destruct (scan_spec _ _ _ _ _ _ _ _ _ _ E) as (A & B & C & D & F & G).
  apply to_mrec_ok; auto.
Qed.

Lemma engine_search_head fuel fl p s ms : engine_finditer fuel fl p s = Some ms ->
  engine_search fuel fl p s = Some (hd_error ms).
Proof.
  unfold engine_finditer, engine_search. destruct (find_all fuel fl p s) as [l|] eqn:E; [|discriminate].
  intro H. injection H as <-. rewrite (find_first_is_head _ _ _ _ _ E). destruct l as [|[[b e] c] l]; reflexivity.
Qed.

Lemma engine_finditer_mono f f' fl p s ms : f <= f' ->
  engine_finditer f fl p s = Some ms -> engine_finditer f' fl p s = Some ms.
Proof.
  intro Hle. unfold engine_finditer. destruct (find_all f fl p s) as [l|] eqn:E; [|discriminate].
  rewrite (find_all_mono _ _ _ _ _ _ Hle E). auto.
Qed.

Lemma engine_search_mono f f' fl p s x : f <= f' ->
  engine_search f fl p s = Some x -> engine_search f' fl p s = Some x.
Proof.
  intro Hle. unfold engine_search, find_first. destruct (scan f fl p false 0 None s) as [y|] eqn:E; [|discriminate].
  rewrite (scan_mono _ _ _ _ Hle _ _ _ _ _ E). auto.
Qed.

(* ---- the yaql functions on the modelled engine ---------------------------------------------------- *)
Lemma eeval_mono f f' fl p s op r : f <= f' -> eeval f fl p s op = Some r -> eeval f' fl p s op = Some r.
Proof.
  intro Hle. unfold eeval. destruct (needs_all op).
  - destruct (engine_finditer f fl p s) as [ms|] eqn:E; [|discriminate].
    rewrite (engine_finditer_mono _ _ _ _ _ _ Hle E). auto.
  - destruct (engine_search f fl p s) as [x|] eqn:E; [|discriminate].
    rewrite (engine_search_mono _ _ _ _ _ _ Hle E). auto.
Qed.

Lemma eeval_all fuel fl p s ms : engine_finditer fuel fl p s = Some ms ->
  (forall sel, eeval fuel fl p s (ESearchAll sel) = Some (reval (RSearchAll ms sel))) /\
  (forall items cnt, eeval fuel fl p s (EReplaceBy items cnt) = Some (XStr (replace_by s ms items cnt))) /\
  (forall repl cnt, eeval fuel fl p s (EReplaceLit repl cnt) = Some (XStr (replace_lit s ms repl cnt))) /\
  (forall cnt, eeval fuel fl p s (ESplit cnt) = Some (XOStrs (regex_split s ms cnt))) /\
  (forall sel c, eeval fuel fl p s (ESearchAllLazy sel c) = Some (XVals (search_all_lazy ms sel c))) /\
  eeval fuel fl p s EMatches = Some (XBool (match ms with [] => false | _ => true end)) /\
  (forall sel, eeval fuel fl p s (ESearch sel) = Some (reval (RSearch (hd_error ms) sel))).
Proof.
  intro H. unfold eeval. cbn [needs_all]. rewrite H, (engine_search_head _ _ _ _ _ H).
  repeat split; try reflexivity. destruct ms; reflexivity.
Qed.

Lemma eeval_no_match fuel fl p s : engine_finditer fuel fl p s = Some [] ->
  (forall items cnt, eeval fuel fl p s (EReplaceBy items cnt) = Some (XStr s)) /\
  (forall repl cnt, eeval fuel fl p s (EReplaceLit repl cnt) = Some (XStr s)) /\
  (forall cnt, eeval fuel fl p s (ESplit cnt) = Some (XOStrs [Some s])) /\
  eeval fuel fl p s EMatches = Some (XBool false) /\
  (forall sel, eeval fuel fl p s (ESearch sel) = Some XNull).
Proof.
  intro H. destruct (eeval_all _ _ _ _ _ H) as (_ & A & B & C & _ & D & E).
  repeat split; intros; rewrite ?A, ?B, ?C, ?D, ?E; try reflexivity.
  - f_equal. f_equal. unfold replace_by, limit. destruct (Z.eqb cnt 0); rewrite ?firstn_nil; reflexivity.
  - f_equal. f_equal. unfold replace_lit, limit. destruct (Z.eqb cnt 0); rewrite ?firstn_nil; reflexivity.
  - f_equal. f_equal. unfold regex_split, limit. destruct (Z.eqb cnt 0); rewrite ?firstn_nil; reflexivity.
Qed.
