(* Proofs about the backtracking matcher of Model/RegexEngine.v:
   fuel suffices (monotonicity), matches lie inside the subject, group spans inside the
   match, finditer matches are ordered and do not overlap. *)
From Coq Require Import List ZArith Bool Lia ZifyBool Arith.
From YV Require Import Common.Corr Model.Strings Model.Regex Model.RegexEngine.
Import ListNotations.
Local Open Scope nat_scope.

(* ---- orelse ------------------------------------------------------------------- *)
Lemma orelse_inv a b x : orelse a b = Some x ->
  (a = Some x /\ x <> None) \/ (a = Some None /\ b tt = Some x).
Proof.
  unfold orelse. destruct a as [[y|]|]; intro H.
  - left. split; [exact H|]. injection H as <-. discriminate.
  - right. split; [reflexivity|exact H].
  - discriminate.
Qed.

Lemma orelse_mono a b a' b' x :
  (forall y, a = Some y -> a' = Some y) -> (forall y, b tt = Some y -> b' tt = Some y) ->
  orelse a b = Some x -> orelse a' b' = Some x.
Proof.
  intros Ha Hb H. destruct (orelse_inv _ _ _ H) as [[H1 H2]|[H1 H2]].
  - rewrite (Ha _ H1). destruct x; [reflexivity|congruence].
  - rewrite (Ha _ H1). cbn. apply Hb. exact H2.
Qed.

(* ---- fuel suffices: more fuel never changes a result ------------------------------ *)
Lemma run_mono fl ma st0 : forall f k st c x,
  run f fl ma st0 k st c = Some x -> run (S f) fl ma st0 k st c = Some x.
Proof.
  induction f as [|f IH]; intros k st c x H; [discriminate|].
  remember (S f) as f1 eqn:Ef1.
  rewrite Ef1 in H. cbn [run] in H. cbn [run].
  destruct k as [|[r|idx s0|r mn mx g count last] k'].
  - exact H.
  - destruct r as [|ch| |neg cs| | |a b|a b|r' mn mx g|idx r']; subst f1;
      try (apply IH; exact H);
      try (destruct (advance st) as [[x0 st']|]; [|exact H];
           match goal with |- context [if ?b then _ else _] => destruct b end; [apply IH; exact H|exact H]);
      try (match goal with |- context [if ?b then _ else _] => destruct b end; [apply IH; exact H|exact H]).
    eapply orelse_mono; [| |exact H]; intros y Hy; apply IH; exact Hy.
  - subst f1. apply IH. exact H.
  - subst f1. destruct (Nat.ltb count mn); [apply IH; exact H|].
    destruct g.
    + destruct (below count mx && moved last (pos st)); [|apply IH; exact H].
      eapply orelse_mono; [| |exact H]; intros y Hy; apply IH; exact Hy.
    + eapply orelse_mono; [| |exact H]; intros y Hy; [apply IH; exact Hy|].
      destruct (below count mx && moved last (pos st)); [apply IH; exact Hy|exact Hy].
Qed.

Lemma run_mono_le fl ma st0 f f' k st c x : f <= f' ->
  run f fl ma st0 k st c = Some x -> run f' fl ma st0 k st c = Some x.
Proof. intros Hle H. induction Hle as [|m Hle IH]; [exact H|]. apply run_mono. exact IH. Qed.

(* ---- where a match and its captures lie ---------------------------------------------- *)
Definition cap_in (lo hi : nat) (o : option (nat * nat)) : Prop :=
  match o with Some (a, b) => lo <= a /\ a <= b /\ b <= hi | None => True end.
Definition caps_in (lo hi : nat) (c : caps) : Prop := Forall (cap_in lo hi) c.
Definition frame_in (lo hi : nat) (fr : frame) : Prop :=
  match fr with FClose _ s0 => lo <= s0 /\ s0 <= hi | _ => True end.
Definition frames_in (lo hi : nat) (k : list frame) : Prop := Forall (frame_in lo hi) k.

Lemma caps_in_weaken lo hi hi' c : hi <= hi' -> caps_in lo hi c -> caps_in lo hi' c.
Proof.
  intros Hle H. eapply Forall_impl; [|exact H]. intros [[a b]|] Ha; cbn in *; [lia|exact I].
Qed.
Lemma frames_in_weaken lo hi hi' k : hi <= hi' -> frames_in lo hi k -> frames_in lo hi' k.
Proof.
  intros Hle H. eapply Forall_impl; [|exact H]. intros [r|idx s0|r mn mx g cnt l] Ha; cbn in *; try exact I. lia.
Qed.

Lemma set_nth_Forall {A} (P : A -> Prop) v : forall l n, P v -> Forall P l -> Forall P (set_nth n v l).
Proof.
  induction l as [|x l IH]; intros n Hv Hl; [destruct n; constructor|].
  inversion Hl; subst. destruct n; cbn; constructor; auto.
Qed.
Lemma set_nth_length {A} (v : A) : forall l n, length (set_nth n v l) = length l.
Proof. induction l as [|x l IH]; intros [|n]; cbn; auto. Qed.

Lemma set_cap_in lo hi c idx a b : lo <= a -> a <= b -> b <= hi -> caps_in lo hi c -> caps_in lo hi (set_cap c idx (a, b)).
Proof.
  intros H1 H2 H3 Hc. destruct idx as [|i]; [exact Hc|]. cbn. apply set_nth_Forall; [cbn; lia|exact Hc].
Qed.
Lemma set_cap_length c idx sp : length (set_cap c idx sp) = length c.
Proof. destruct idx; [reflexivity|apply set_nth_length]. Qed.

Lemma advance_spec st x st' : advance st = Some (x, st') ->
  pos st' = S (pos st) /\ rest st = x :: rest st'.
Proof.
  unfold advance. destruct (rest st) as [|y r] eqn:E; [discriminate|]. intro H. injection H as <- <-. cbn. auto.
Qed.

(* the post-condition of a successful run started at position p with s0 the scan start *)
Definition run_post (ma : bool) (st0 lo : nat) (st : mpos) (c : caps) (e : nat) (c' : caps) : Prop :=
  pos st <= e /\ e <= pos st + length (rest st) /\ caps_in lo e c' /\ length c' = length c /\
  (ma = true -> e <> st0).

Lemma run_bounds fl ma st0 lo : forall f k st c e c',
  run f fl ma st0 k st c = Some (Some (e, c')) ->
  lo <= pos st -> caps_in lo (pos st) c -> frames_in lo (pos st) k ->
  run_post ma st0 lo st c e c'.
Proof.
  induction f as [|f IH]; intros k st c e c' H Hlo Hc Hk; [discriminate|].
  cbn [run] in H.
  assert (Step : forall k2 st2 c2, run f fl ma st0 k2 st2 c2 = Some (Some (e, c')) ->
            pos st <= pos st2 -> pos st2 + length (rest st2) = pos st + length (rest st) ->
            caps_in lo (pos st2) c2 -> length c2 = length c -> frames_in lo (pos st2) k2 ->
            run_post ma st0 lo st c e c').
  { intros k2 st2 c2 H2 Hp Hl Hc2 Hlen Hk2.
    destruct (IH k2 st2 c2 e c' H2 ltac:(lia) Hc2 Hk2) as (A & B & C & D & E).
    unfold run_post. repeat split; try lia; try assumption. }
  assert (Same : forall k2 c2, run f fl ma st0 k2 st c2 = Some (Some (e, c')) ->
            caps_in lo (pos st) c2 -> length c2 = length c -> frames_in lo (pos st) k2 ->
            run_post ma st0 lo st c e c').
  { intros k2 c2 H2 Hc2 Hlen Hk2. apply (Step k2 st c2 H2); auto. }
  assert (Adv : forall x st' k2, advance st = Some (x, st') -> run f fl ma st0 k2 st' c = Some (Some (e, c')) ->
            frames_in lo (pos st) k2 -> run_post ma st0 lo st c e c').
  { intros x st' k2 Ha H2 Hk2. destruct (advance_spec _ _ _ Ha) as [Hp Hr].
    apply (Step k2 st' c H2); try lia.
    - rewrite Hr. cbn [length]. lia.
    - apply (caps_in_weaken lo (pos st)); [lia|exact Hc].
    - apply (frames_in_weaken lo (pos st)); [lia|exact Hk2]. }
  destruct k as [|[r|idx s0|r mn mx g count last] k'].
  - destruct (ma && Nat.eqb (pos st) st0) eqn:E; [discriminate|]. injection H as <- <-.
    unfold run_post. split; [lia|]. split; [lia|]. split; [exact Hc|]. split; [reflexivity|].
    intros Hma He. rewrite Hma, He, Nat.eqb_refl in E. discriminate.
  - inversion Hk as [|? ? _ Hk']; subst.
    assert (Hk1 : forall fr, frame_in lo (pos st) fr -> frames_in lo (pos st) (fr :: k')) by (intros; constructor; assumption).
    assert (Hk2 : forall fr fr2, frame_in lo (pos st) fr -> frame_in lo (pos st) fr2 -> frames_in lo (pos st) (fr :: fr2 :: k'))
      by (intros; constructor; [assumption|constructor; assumption]).
    destruct r as [|ch| |neg cs| | |a b|a b|r' mn mx g|idx r'].
    + apply (Same k' c H); auto.
    + destruct (advance st) as [[x st']|] eqn:Ea; [|discriminate].
      destruct (chr_eq fl ch x); [|discriminate]. apply (Adv x st' k' eq_refl H Hk').
    + destruct (advance st) as [[x st']|] eqn:Ea; [|discriminate].
      destruct (dot_all fl || negb (Z.eqb x nl)); [|discriminate]. apply (Adv x st' k' eq_refl H Hk').
    + destruct (advance st) as [[x st']|] eqn:Ea; [|discriminate].
      destruct (xorb neg (cls_mem fl cs x)); [|discriminate]. apply (Adv x st' k' eq_refl H Hk').
    + destruct (at_bol fl st); [|discriminate]. apply (Same k' c H); auto.
    + destruct (at_eol fl st); [|discriminate]. apply (Same k' c H); auto.
    + apply (Same _ c H); auto. apply Hk2; exact I.
    + destruct (orelse_inv _ _ _ H) as [[H1 _]|[_ H1]]; apply (Same _ c H1); auto; apply Hk1; exact I.
    + apply (Same _ c H); auto. apply Hk1; exact I.
    + apply (Same _ c H); auto. apply Hk2; [exact I|]. cbn. lia.
  - inversion Hk as [|? ? Hfr Hk']; subst. cbn in Hfr.
    apply (Same k' _ H); auto.
    + apply set_cap_in; try lia. exact Hc.
    + apply set_cap_length.
  - inversion Hk as [|? ? _ Hk']; subst.
    assert (Hk2 : forall cnt l, frames_in lo (pos st) (FRe r :: FUntil r mn mx g cnt l :: k'))
      by (intros; constructor; [exact I|constructor; [exact I|exact Hk']]).
    destruct (Nat.ltb count mn); [apply (Same _ c H); auto|].
    destruct g.
    + destruct (below count mx && moved last (pos st)); [|apply (Same k' c H); auto].
      destruct (orelse_inv _ _ _ H) as [[H1 _]|[_ H1]]; apply (Same _ c H1); auto.
    + destruct (orelse_inv _ _ _ H) as [[H1 _]|[_ H1]]; [apply (Same _ c H1); auto|].
      destruct (below count mx && moved last (pos st)); [|discriminate]. apply (Same _ c H1); auto.
Qed.
