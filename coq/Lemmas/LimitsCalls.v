(* The memory quota along a tree of calls (Model/Limits.v, section "the call protocol"). *)
From Coq Require Import List ZArith Bool Arith Lia ZifyBool.
From YV Require Import Common.Corr Model.Limits Lemmas.Limits.
Import ListNotations.
Open Scope Z_scope.

Section CInd.
  Variable P : cexpr -> Prop.
  Hypothesis HV : forall s, P (CVal s).
  Hypothesis HA : forall f args, Forall P args -> P (CApp f args).
  Fixpoint cexpr_ind' (e : cexpr) : P e :=
    match e with
    | CVal s => HV s
    | CApp f args =>
      HA f args ((fix go (l : list cexpr) : Forall P l :=
                    match l with
                    | [] => Forall_nil P
                    | x :: r => Forall_cons x (cexpr_ind' x) (go r)
                    end) args)
    end.
End CInd.

(* the argument loop of ceval, named *)
Definition cargs (Q : Z) : list cexpr -> option (list Z) * list Z :=
  fix go (l : list cexpr) : option (list Z) * list Z :=
    match l with
    | [] => (Some [], [])
    | a :: r =>
      let '(ra, la) := ceval Q a in
      match ra with
      | None => (None, la)
      | Some sa => let '(rr, lr) := go r in (option_map (cons sa) rr, la ++ lr)
      end
    end.

Lemma cargs_nil Q : cargs Q [] = (Some [], []).
Proof. reflexivity. Qed.

Lemma cargs_cons Q a r : cargs Q (a :: r) =
  let '(ra, la) := ceval Q a in
  match ra with
  | None => (None, la)
  | Some sa => let '(rr, lr) := cargs Q r in (option_map (cons sa) rr, la ++ lr)
  end.
Proof. reflexivity. Qed.

Lemma ceval_app Q f args :
  ceval Q (CApp f args) =
  let '(rs, log) := cargs Q args in
  match rs with
  | None => (None, log)
  | Some sizes =>
    if existsb (over_quota Q) sizes then (None, log)
    else let r := f sizes in
         if over_quota Q r then (None, log ++ sizes) else (Some r, log ++ sizes ++ [r])
  end.
Proof. reflexivity. Qed.

Definition fits (Q s : Z) : bool := s <=? Q.

Lemma over_quota_fits Q s : 0 < Q -> over_quota Q s = negb (fits Q s).
Proof. intro HQ. unfold over_quota, fits. rewrite lmu_single. lia. Qed.

Lemma existsb_over Q l : 0 < Q -> existsb (over_quota Q) l = negb (forallb (fits Q) l).
Proof.
  intro HQ. induction l as [|x l IH]; [reflexivity|].
  cbn [existsb forallb]. rewrite IH, (over_quota_fits Q x HQ). destruct (fits Q x), (forallb (fits Q) l); reflexivity.
Qed.

Section Quota.
  Variable Q : Z.
  Hypothesis HQ : 0 < Q.

  (* everything that is bound to a parameter or returned by a call fits the quota *)
  Lemma cargs_log_fits l : Forall (fun e => Forall (fun s => s <= Q) (snd (ceval Q e))) l ->
    Forall (fun s => s <= Q) (snd (cargs Q l)).
  Proof.
    induction 1 as [|a l Ha Hl IH]; [constructor|].
    rewrite cargs_cons. destruct (ceval Q a) as [ra la]. cbn [snd] in Ha.
    destruct ra as [sa|]; [|exact Ha].
    destruct (cargs Q l) as [rr lr]. cbn [snd] in *. apply Forall_app. split; assumption.
  Qed.

  Lemma ceval_log_fits : forall e, Forall (fun s => s <= Q) (snd (ceval Q e)).
  Proof.
    apply cexpr_ind'.
    - intro s. constructor.
    - intros f args Hargs. rewrite ceval_app. pose proof (cargs_log_fits args Hargs) as Hl.
      destruct (cargs Q args) as [rs log]. cbn [snd] in Hl.
      destruct rs as [sizes|]; [|exact Hl].
      destruct (existsb (over_quota Q) sizes) eqn:Ee; [exact Hl|].
      assert (Hs : Forall (fun s => s <= Q) sizes).
      { rewrite (existsb_over Q sizes HQ) in Ee. apply negb_false_iff in Ee.
        apply Forall_forall. intros s Hin. pose proof (proj1 (forallb_forall _ _) Ee s Hin) as H. unfold fits in H. lia. }
      cbn zeta. destruct (over_quota Q (f sizes)) eqn:Eo; cbn [snd].
      + apply Forall_app. split; assumption.
      + apply Forall_app. split; [exact Hl|]. apply Forall_app. split; [exact Hs|].
        constructor; [|constructor]. rewrite (over_quota_fits Q _ HQ) in Eo. unfold fits in Eo. lia.
  Qed.

  (* exactness: the evaluation goes through iff every argument and every result inside the
     expression fits the quota; then its value is the value computed without any quota *)
  Lemma cargs_exact l :
    Forall (fun e => fst (ceval Q e) = if forallb (fits Q) (cpoints e) then Some (csize e) else None) l ->
    fst (cargs Q l) = if forallb (fits Q) (flat_map cpoints l) then Some (map csize l) else None.
  Proof.
    induction 1 as [|a l Ha Hl IH]; [reflexivity|].
    rewrite cargs_cons. cbn [flat_map map]. rewrite forallb_app.
    destruct (ceval Q a) as [ra la]. cbn [fst] in Ha. rewrite Ha.
    destruct (forallb (fits Q) (cpoints a)); cbn [andb]; [|reflexivity].
    destruct (cargs Q l) as [rr lr]. cbn [fst] in *. rewrite IH.
    destruct (forallb (fits Q) (flat_map cpoints l)); reflexivity.
  Qed.

  Lemma ceval_exact : forall e,
    fst (ceval Q e) = if forallb (fits Q) (cpoints e) then Some (csize e) else None.
  Proof.
    apply cexpr_ind'.
    - intro s. reflexivity.
    - intros f args Hargs. rewrite ceval_app. pose proof (cargs_exact args Hargs) as Hx.
      destruct (cargs Q args) as [rs log]. cbn [fst] in Hx. subst rs.
      cbn [cpoints csize]. rewrite !forallb_app.
      destruct (forallb (fits Q) (flat_map cpoints args)); cbn [andb]; [|reflexivity].
      rewrite (existsb_over Q _ HQ).
      destruct (forallb (fits Q) (map csize args)); cbn [negb andb]; [|reflexivity].
      cbn zeta. rewrite (over_quota_fits Q _ HQ). cbn [forallb].
      destruct (fits Q (f (map csize args))); reflexivity.
  Qed.
End Quota.

Lemma no_over_quota_value_passed_on Q e : 0 < Q ->
  Forall (fun s => s <= Q) (snd (ceval Q e)) /\
  (forall r, fst (ceval Q e) = Some r ->
     r = csize e /\ Forall (fun s => s <= Q) (cpoints e)) /\
  (fst (ceval Q e) = None -> Exists (fun s => s > Q) (cpoints e)).
Proof.
  intro HQ. split; [apply ceval_log_fits; exact HQ|].
  rewrite (ceval_exact Q HQ e). destruct (forallb (fits Q) (cpoints e)) eqn:E.
  - split; [|discriminate]. intros r H. injection H as <-. split; [reflexivity|].
    apply Forall_forall. intros s Hin. pose proof (proj1 (forallb_forall _ _) E s Hin) as H. unfold fits in H. lia.
  - split; [discriminate|]. intros _. apply Exists_exists.
    assert (H : exists s, In s (cpoints e) /\ fits Q s = false).
    { clear -E. induction (cpoints e) as [|x l IH]; [discriminate|].
      cbn [forallb] in E. destruct (fits Q x) eqn:Ex.
      - destruct (IH E) as (s & Hin & Hs). exists s. split; [right; exact Hin|exact Hs].
      - exists x. split; [left; reflexivity|exact Ex]. }
    destruct H as (s & Hin & Hs). exists s. split; [exact Hin|]. unfold fits in Hs. lia.
Qed.

(* a whole statement: what the host receives fits, and so did the expression's value when it
   was handed to '#finalize' *)
Lemma statement_result_fits Q fin e r : 0 < Q ->
  fst (crun Q fin e) = Some r -> r <= Q /\ csize e <= Q /\ r = fin [csize e].
Proof.
  intros HQ H. unfold crun in H.
  destruct (no_over_quota_value_passed_on Q (CApp fin [e]) HQ) as (_ & Hs & _).
  destruct (Hs r H) as [Hr Hp]. cbn [csize map] in Hr. cbn [cpoints flat_map map csize] in Hp.
  rewrite app_nil_r in Hp. apply Forall_app in Hp as [_ Hp]. inversion Hp as [|x l Hx Hl]; subst.
  inversion Hl as [|y l' Hy _]; subst. split; [lia|]. split; [exact Hx|reflexivity].
Qed.

Lemma quota_off_identity Q : Q <= 0 -> forall e, fst (ceval Q e) = Some (csize e).
Proof.
  intro HQ.
  assert (Hov : forall s, over_quota Q s = false).
  { intro s. unfold over_quota. apply (proj2 (quota_threshold Q [(1, s)]) HQ). }
  assert (Hex : forall l, existsb (over_quota Q) l = false).
  { induction l as [|x l IH]; [reflexivity|]. cbn [existsb]. rewrite Hov, IH. reflexivity. }
  apply cexpr_ind'.
  - reflexivity.
  - intros f args Hargs. rewrite ceval_app.
    assert (Ha : fst (cargs Q args) = Some (map csize args)).
    { induction Hargs as [|a l Ha Hl IH]; [reflexivity|]. rewrite cargs_cons. cbn [map].
      destruct (ceval Q a) as [ra la]. cbn [fst] in Ha. subst ra.
      destruct (cargs Q l) as [rr lr]. cbn [fst] in *. rewrite IH. reflexivity. }
    destruct (cargs Q args) as [rs log]. cbn [fst] in Ha. subst rs.
    rewrite Hex. cbn zeta. rewrite Hov. reflexivity.
Qed.

(* ------------------------------------------------------------------------- *)
(* accumulator loops                                                         *)
(* ------------------------------------------------------------------------- *)
Lemma zsum_firstn_S g r j : zsum (firstn (S j) (g :: r)) = g + zsum (firstn j r).
Proof. reflexivity. Qed.

Lemma acc_loop_spec Q : 0 < Q -> forall gs acc a b n,
  acc <= Q -> acc_loop Q acc gs = (a, b, n) ->
  (n <= length gs)%nat /\
  a = acc + zsum (firstn n gs) /\
  (forall j, (j < n)%nat -> acc + zsum (firstn j gs) <= Q) /\
  (b = true -> (1 <= n)%nat /\ Q < a /\ a <= Q + nth (n - 1) gs 0) /\
  (b = false -> n = length gs /\ a <= Q).
Proof.
  intro HQ. induction gs as [|g r IH]; intros acc a b n Hacc H.
  - cbn in H. injection H as <- <- <-. cbn. repeat split; intros; try lia; try congruence.
  - cbn [acc_loop] in H. rewrite (over_quota_fits Q _ HQ) in H. unfold fits in H.
    destruct (acc + g <=? Q) eqn:E; cbn [negb] in H.
    + destruct (acc_loop Q (acc + g) r) as [[a' b'] n'] eqn:El. injection H as <- <- <-.
      destruct (IH (acc + g) a' b' n' ltac:(lia) El) as (H1 & H2 & H3 & H4 & H5).
      cbn [length]. split; [lia|]. split; [rewrite zsum_firstn_S; lia|]. split; [|split].
      * intros j Hj. destruct j as [|j]; [cbn; lia|]. rewrite zsum_firstn_S.
        specialize (H3 j ltac:(lia)). lia.
      * intro Hb. destruct (H4 Hb) as (Ha & Hb' & Hc). split; [lia|]. split; [exact Hb'|].
        replace (S n' - 1)%nat with (S (n' - 1)) by lia. cbn [nth]. exact Hc.
      * intro Hb. destruct (H5 Hb) as [Ha Hb']. split; [lia|exact Hb'].
    + injection H as <- <- <-. cbn [length]. split; [lia|]. split; [cbn; lia|]. split; [|split].
      * intros j Hj. assert (j = O) by lia. subst j. cbn. lia.
      * intros _. cbn [nth Nat.sub]. split; [lia|]. split; lia.
      * discriminate.
Qed.

Lemma accumulator_bounded Q a0 gs : 0 < Q -> a0 <= Q ->
  let '(a, raised, n) := acc_loop Q a0 gs in
  (n <= length gs)%nat /\
  a = a0 + zsum (firstn n gs) /\
  (forall j, (j < n)%nat -> a0 + zsum (firstn j gs) <= Q) /\
  (raised = true -> (1 <= n)%nat /\ Q < a /\ a <= Q + nth (n - 1) gs 0) /\
  (raised = false -> n = length gs /\ a <= Q).
Proof.
  intros HQ Ha. destruct (acc_loop Q a0 gs) as [[a b] n] eqn:E. exact (acc_loop_spec Q HQ gs a0 a b n Ha E).
Qed.

(* the loop followed by the result check on the value actually returned *)
Lemma accumulator_call_fits Q a0 gs ret n : 0 < Q -> a0 <= Q ->
  acc_call Q a0 gs ret = (false, n) ->
  n = length gs /\ a0 + zsum gs <= Q /\ ret <= Q /\
  (forall j, (j <= length gs)%nat -> a0 + zsum (firstn j gs) <= Q).
Proof.
  intros HQ Ha H. unfold acc_call in H.
  destruct (acc_loop Q a0 gs) as [[a b] m] eqn:E.
  destruct (acc_loop_spec Q HQ gs a0 a b m Ha E) as (H1 & H2 & H3 & H4 & H5).
  destruct b; [discriminate|]. injection H as Ho <-.
  destruct (H5 eq_refl) as [Hm Hfit]. subst m. rewrite firstn_all in H2.
  rewrite (over_quota_fits Q _ HQ) in Ho. unfold fits in Ho.
  split; [reflexivity|]. split; [lia|]. split; [lia|].
  intros j Hj. destruct (Nat.eq_dec j (length gs)) as [->|Hne].
  - rewrite firstn_all. lia.
  - apply H3. lia.
Qed.
