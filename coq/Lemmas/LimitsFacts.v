(* Obligations over the regenerated facts Gen/LimitFacts.v (registry rows and
   sys.getsizeof constants of the running interpreter). *)
From Coq Require Import List ZArith Bool Arith Lia ZifyBool.
From YV Require Import Common.Corr Model.Limits Lemmas.Limits Gen.LimitFacts.
Import ListNotations.
Open Scope Z_scope.

(* the running interpreter satisfies the hypotheses of Section Sizeof *)
Lemma gen_linear : forall k n, 0 <= n -> gen_sizeof k n = gen_base k + gen_item k * n.
Proof. reflexivity. Qed.

Lemma gen_item_nonneg : forall k, 0 <= gen_item k.
Proof. destruct k; vm_compute; discriminate. Qed.

Lemma gen_base_nonneg : forall k, 0 <= gen_base k.
Proof. destruct k; vm_compute; discriminate. Qed.

Lemma gen_base_empty_le : forall k, gen_base (empty_kind k) <= gen_base k.
Proof. destruct k; vm_compute; discriminate. Qed.

Lemma gen_historic_coincidence : gen_base KList = gen_base KTuple + gen_item KTuple * 2.
Proof. reflexivity. Qed.

(* every parameter declared with a collection type limits what it is given *)
Definition typed_ok (p : prow) : bool := implb (collection_typed p) (p_limiting p).

Lemma typed_params_limited_b : forallb typed_ok params = true.
Proof. vm_compute. reflexivity. Qed.

Lemma typed_params_limited : forall p, In p params -> collection_typed p = true -> p_limiting p = true.
Proof.
  intros p Hin Hc. pose proof (proj1 (forallb_forall typed_ok params) typed_params_limited_b p Hin) as H.
  unfold typed_ok in H. rewrite Hc in H. exact H.
Qed.

(* the parameters NOT covered by the statement above, explicitly *)
Definition uncovered_params : list prow := filter object_typed params.

Lemma iterator_params_partition : forall p, In p params ->
  is_eager p = true -> p_acc_iter p = true ->
  (collection_typed p = true /\ p_limiting p = true) \/ In p uncovered_params.
Proof.
  intros p Hin He Hi. destruct (object_typed p) eqn:Eo.
  - right. unfold uncovered_params. apply filter_In. split; assumption.
  - left. assert (Hc : collection_typed p = true).
    { unfold collection_typed, object_typed in *. rewrite He, Hi in *. cbn in *.
      destruct (p_acc_int p); cbn in *; congruence. }
    split; [exact Hc|]. apply typed_params_limited; assumption.
Qed.

(* every combinator instance over the collection types limits and quota-checks what it accepts *)
Lemma combinators_limited_b : forallb crow_ok combinators = true.
Proof. vm_compute. reflexivity. Qed.

Lemma combinators_limited : forall c, In c combinators ->
  (c_acc_iter c = true -> c_limiting c = true) /\
  (c_acc_sized c = true -> c_sized_refused c = true /\ c_sized_ok c = true /\ c_quota_ok c = true).
Proof.
  intros c Hin. pose proof (proj1 (forallb_forall crow_ok combinators) combinators_limited_b c Hin) as H.
  unfold crow_ok in H. apply andb_true_iff in H as [H1 H2]. split.
  - intro Ha. rewrite Ha in H1. exact H1.
  - intro Ha. rewrite Ha in H2. cbn in H2. apply andb_true_iff in H2 as [H2 H3]. apply andb_true_iff in H2 as [H2 H4].
    repeat split; assumption.
Qed.
