(* Obligations over the regenerated facts Gen/LimitFacts.v (registry rows and
   sys.getsizeof constants of the running interpreter). *)
From Coq Require Import List ZArith Bool Arith Lia ZifyBool.
From YV Require Import Common.Corr Model.Limits Lemmas.Limits Gen.LimitFacts.
Import ListNotations.
Open Scope Z_scope.

(* the running interpreter satisfies the hypotheses of Section Sizeof *)
Lemma gen_linear : forall k n, 0 <= n -> gen_sizeof k n = gen_base k + gen_item k * n.
Proof. reflexivity. Qed.

Lemma gen_item_nonneg : forall k, 0 <= gen_item k.
Proof. destruct k; vm_compute; discriminate. Qed.

Lemma gen_base_nonneg : forall k, 0 <= gen_base k.
Proof. destruct k; vm_compute; discriminate. Qed.

Lemma gen_base_empty_le : forall k, gen_base (empty_kind k) <= gen_base k.
Proof. destruct k; vm_compute; discriminate. Qed.

Lemma gen_historic_coincidence : gen_base KList = gen_base KTuple + gen_item KTuple * 2.
Proof. reflexivity. Qed.

(* every parameter declared with a collection type limits what it is given *)
Definition typed_ok (p : prow) : bool := implb (collection_typed p) (p_limiting p).

Lemma typed_params_limited_b : forallb typed_ok params = true.
Proof. vm_compute. reflexivity. Qed.

Lemma typed_params_limited : forall p, In p params -> collection_typed p = true -> p_limiting p = true.
Proof.
  intros p Hin Hc. pose proof (proj1 (forallb_forall typed_ok params) typed_params_limited_b p Hin) as H.
  unfold typed_ok in H. rewrite Hc in H. exact H.
Qed.

(* the parameters NOT covered by the statement above, explicitly *)
Definition uncovered_params : list prow := filter object_typed params.

Lemma iterator_params_partition : forall p, In p params ->
  is_eager p = true -> p_acc_iter p = true ->
  (collection_typed p = true /\ p_limiting p = true) \/ In p uncovered_params.
Proof.
  intros p Hin He Hi. destruct (object_typed p) eqn:Eo.
  - right. unfold uncovered_params. apply filter_In. split; assumption.
  - left. assert (Hc : collection_typed p = true).
    { unfold collection_typed, object_typed in *. rewrite He, Hi in *. cbn in *.
      destruct (p_acc_int p); cbn in *; congruence. }
    split; [exact Hc|]. apply typed_params_limited; assumption.
Qed.
