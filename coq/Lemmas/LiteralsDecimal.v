(* Decimal literals: the text t_NUMBER hands to float() is <digits>.<digits> and
   denotes the exact rational (all digits as one integer) / 10^(digits after the dot). *)
From Coq Require Import List ZArith Bool Arith Lia QArith.
From YV Require Import Common.Corr Model.Lexer Model.Literals Lemmas.LexerTotal Lemmas.LiteralsRoundtrip Lemmas.LiteralsTokens.
Import ListNotations.
Open Scope Z_scope.

Section Dec.
Variable cfg : lexcfg.

Lemma span_firstn_all : forall f (s : text), forallb f (firstn (span f s) s) = true.
Proof. induction s as [|c r IH]; [reflexivity|]. cbn [span]. destruct (f c) eqn:E; [cbn; rewrite E, IH; reflexivity|reflexivity]. Qed.

Lemma firstn_plus_skipn : forall (n m : nat) (s : text), firstn (n + m) s = firstn n s ++ firstn m (skipn n s).
Proof.
  induction n as [|n IH]; intros m s; [reflexivity|]. destruct s as [|c r]; [cbn; rewrite firstn_nil; reflexivity|].
  cbn. rewrite IH. reflexivity.
Qed.

Lemma memz_digits : forall (s : text), is_d cfg 46 = false -> forallb (is_d cfg) s = true -> memz 46 s = false.
Proof.
  intros s H46 All. apply (memz_forallb_false 46 (is_d cfg)); [exact All|].
  intros x Hx. destruct (x =? 46) eqn:E; [|reflexivity]. apply Z.eqb_eq in E. subst x. rewrite H46 in Hx. discriminate.
Qed.

Lemma span_pos_nonempty : forall f (s : text) n, span f s = S n -> firstn (S n) s <> [].
Proof. intros f [|c r] n; cbn; [discriminate|]. intros _ H. discriminate. Qed.

(* the shape of the text of a float NUMBER token *)
Lemma m_number_float_shape : forall prev s k n txt, is_d cfg 46 = false ->
  m_number cfg prev s = MTok k n (VFloat txt) ->
  exists ip fp, txt = ip ++ 46 :: fp /\ ip <> [] /\ fp <> [] /\
                forallb (is_d cfg) ip = true /\ forallb (is_d cfg) fp = true /\ txt = firstn n s.
Proof.
  intros prev s k n txt H46. unfold m_number.
  destruct (negb _); [discriminate|]. destruct (span (is_d cfg) s) as [|n'] eqn:En; [discriminate|].
  assert (D1 : forallb (is_d cfg) (firstn (S n') s) = true) by (rewrite <- En; apply span_firstn_all).
  assert (NoFloat : forall len, number_action cfg (firstn (S n') s) len = MTok k n (VFloat txt) -> False).
  { intros len H. apply number_action_shape in H. destruct H as (_ & _ & [[M _]|[_ V]]); [|discriminate].
    rewrite (memz_digits _ H46 D1) in M. discriminate. }
  destruct (skipn (S n') s) as [|c r2] eqn:Er.
  - destruct (bnd cfg _ _); [|discriminate]. intro H. destruct (NoFloat _ H).
  - destruct (c =? 46) eqn:Ec; [|destruct (bnd cfg _ _); [intro H; destruct (NoFloat _ H)|discriminate]].
    apply Z.eqb_eq in Ec. subst c.
    destruct (span (is_d cfg) r2) as [|m'] eqn:Em; [destruct (bnd cfg _ _); [intro H; destruct (NoFloat _ H)|discriminate]|].
    destruct (bnd cfg (nth_error r2 m') _); [|destruct (bnd cfg _ _); [intro H; destruct (NoFloat _ H)|discriminate]].
    intro H. apply number_action_shape in H. destruct H as (_ & Hn & [[_ V]|[_ V]]); [|discriminate].
    assert (EQ : forall l, l = (S n' + 1 + S m')%nat -> firstn l s = firstn (S n') s ++ 46 :: firstn (S m') r2).
    { intros l ->. replace (S n' + 1 + S m')%nat with (S n' + (1 + S m'))%nat by lia.
      rewrite firstn_plus_skipn, Er. reflexivity. }
    assert (T : txt = firstn (S n') s ++ 46 :: firstn (S m') r2) by (rewrite <- (EQ _ eq_refl); congruence).
    clear V. subst txt.
    exists (firstn (S n') s), (firstn (S m') r2).
    split; [reflexivity|]. split; [exact (span_pos_nonempty _ _ _ En)|]. split; [exact (span_pos_nonempty _ _ _ Em)|].
    split; [exact D1|]. split; [rewrite <- Em; apply span_firstn_all|].
    symmetry. apply EQ. exact Hn.
Qed.

(* positional reading *)
Lemma dec_value_shift : forall l acc, dec_value cfg acc l = acc * 10 ^ Z.of_nat (length l) + dec_value cfg 0 l.
Proof.
  induction l as [|c l IH]; intro acc; [cbn; lia|].
  cbn [dec_value length]. rewrite (IH (acc * 10 + digit_val cfg c)), (IH (0 * 10 + digit_val cfg c)).
  rewrite Nat2Z.inj_succ, Z.pow_succ_r by lia. ring.
Qed.

Lemma dec_value_app2 : forall a b, dec_value cfg 0 (a ++ b) = dec_value cfg 0 a * 10 ^ Z.of_nat (length b) + dec_value cfg 0 b.
Proof.
  intros a b. assert (G : forall acc, dec_value cfg acc (a ++ b) = dec_value cfg (dec_value cfg acc a) b).
  { induction a as [|x a IH]; intro acc; [reflexivity|]. cbn. apply IH. }
  rewrite G. apply dec_value_shift.
Qed.

Lemma split_dot_app : forall ip fp, memz 46 ip = false -> split_dot (ip ++ 46 :: fp) = (ip, fp).
Proof.
  intros ip fp H. unfold split_dot.
  assert (S1 : span (fun c => negb (c =? 46)) (ip ++ 46 :: fp) = length ip).
  { induction ip as [|x l IH]; [reflexivity|]. cbn [memz] in H. apply orb_false_iff in H. destruct H as [H1 H2].
    cbn [app span]. rewrite H1. cbn [negb]. rewrite (IH H2). reflexivity. }
  rewrite S1, firstn_app_exact. f_equal.
  clear. induction ip as [|x l IH]; [reflexivity|exact IH].
Qed.

(* the value: all digits as one integer over 10^k, i.e. integer part plus fraction *)
Theorem decimal_value : forall prev s k n txt, is_d cfg 46 = false ->
  m_number cfg prev s = MTok k n (VFloat txt) ->
  exists ip fp, txt = ip ++ 46 :: fp /\ ip <> [] /\ fp <> [] /\
    forallb (is_d cfg) ip = true /\ forallb (is_d cfg) fp = true /\
    decimal_q cfg txt = Qmake (dec_value cfg 0 (ip ++ fp)) (Z.to_pos (10 ^ Z.of_nat (length fp))) /\
    (decimal_q cfg txt == inject_Z (dec_value cfg 0 ip) + Qmake (dec_value cfg 0 fp) (Z.to_pos (10 ^ Z.of_nat (length fp))))%Q.
Proof.
  intros prev s k n txt H46 H. destruct (m_number_float_shape _ _ _ _ _ H46 H) as (ip & fp & -> & N1 & N2 & A1 & A2 & _).
  exists ip, fp. repeat (split; [assumption || reflexivity|]).
  assert (E : decimal_q cfg (ip ++ 46 :: fp) = Qmake (dec_value cfg 0 (ip ++ fp)) (Z.to_pos (10 ^ Z.of_nat (length fp)))).
  { unfold decimal_q. rewrite (split_dot_app ip fp (memz_digits _ H46 A1)). reflexivity. }
  split; [exact E|]. rewrite E. rewrite dec_value_app2.
  assert (P : 0 < 10 ^ Z.of_nat (length fp)) by (apply Z.pow_pos_nonneg; lia).
  unfold Qeq, Qplus, inject_Z. cbn [Qnum Qden]. rewrite Pos2Z.inj_mul, Z2Pos.id by exact P. ring.
Qed.

End Dec.
