(* distinct and groupBy: first-occurrence semantics; Python equality on the value
   universe is an equivalence relation. *)
From Coq Require Import List ZArith Bool Arith Lia ZifyBool Permutation.
From YV Require Import Common.Corr Model.Queries.
Import ListNotations.

(* ---- induction over nested values ------------------------------------------- *)
Section ValInd.
  Variable P : val -> Prop.
  Hypothesis HN : P VNull.
  Hypothesis HB : forall b, P (VBool b).
  Hypothesis HI : forall z, P (VInt z).
  Hypothesis HL : forall m l, Forall P l -> P (VList m l).
  Hypothesis HS : forall s, P (VStr s).
  Hypothesis HD : forall m d, Forall (fun kv => P (fst kv) /\ P (snd kv)) d -> P (VDict m d).
  Fixpoint val_ind' (v : val) : P v :=
    match v with
    | VNull => HN
    | VBool b => HB b
    | VInt z => HI z
    | VList m l =>
        HL m l ((fix go (l : list val) : Forall P l :=
                   match l with
                   | [] => Forall_nil P
                   | x :: r => Forall_cons x (val_ind' x) (go r)
                   end) l)
    | VStr s => HS s
    | VDict m d =>
        HD m d ((fix go (d : list (val * val)) : Forall (fun kv => P (fst kv) /\ P (snd kv)) d :=
                   match d with
                   | [] => Forall_nil _
                   | kv :: r => Forall_cons kv (conj (val_ind' (fst kv)) (val_ind' (snd kv))) (go r)
                   end) d)
    end.
End ValInd.

Lemma val_seqb_list m m' l l' :
  val_seqb (VList m l) (VList m' l') = Bool.eqb m m' && list_eqb val_seqb l l'.
Proof.
  cbn [val_seqb]. f_equal. revert l'. induction l as [|x r IH]; intros [|y r']; cbn; try reflexivity.
  rewrite IH. reflexivity.
Qed.

Definition kv_seqb (p q : val * val) : bool := val_seqb (fst p) (fst q) && val_seqb (snd p) (snd q).

Lemma val_seqb_dict m m' d d' : val_seqb (VDict m d) (VDict m' d') = list_eqb kv_seqb d d'.
Proof.
  cbn [val_seqb]. revert d'. induction d as [|[k v] r IH]; intros [|[k' v'] r']; cbn; try reflexivity.
  rewrite IH. reflexivity.
Qed.

Lemma zlist_eqb_eq a : forall b, list_eqb Z.eqb a b = true <-> a = b.
Proof.
  induction a as [|x r IH]; intros [|y r']; cbn; split; intro H; try discriminate; try reflexivity.
  - apply andb_true_iff in H as [H1 H2]. apply Z.eqb_eq in H1. apply IH in H2. subst. reflexivity.
  - injection H as -> ->. rewrite Z.eqb_refl. cbn. apply IH. reflexivity.
Qed.

Lemma val_seqb_refl a : val_seqb a a = true.
Proof.
  induction a as [| b | z | m l IH | s | m d IH] using val_ind'.
  - reflexivity.
  - cbn. apply eqb_reflx.
  - cbn. apply Z.eqb_refl.
  - rewrite val_seqb_list, eqb_reflx. cbn.
    induction IH as [|x r Hx _ IHr]; cbn; [reflexivity|]. rewrite Hx, IHr. reflexivity.
  - cbn. apply zlist_eqb_eq. reflexivity.
  - rewrite val_seqb_dict. induction IH as [|kv r [Hk Hv] _ IHr]; cbn; [reflexivity|]. unfold kv_seqb at 1. rewrite Hk, Hv, IHr. reflexivity.
Qed.

Lemma val_seqb_sym a : forall b, val_seqb a b = val_seqb b a.
Proof.
  induction a as [| b | z | m l IH | s | m d IH] using val_ind'; intros [| b' | z' | m' l' | s' | m' d']; try reflexivity.
  - cbn. destruct b, b'; reflexivity.
  - cbn. apply Z.eqb_sym.
  - cbn. apply Z.eqb_sym.
  - cbn. apply Z.eqb_sym.
  - rewrite !val_seqb_list. f_equal; [destruct m, m'; reflexivity|].
    revert l'. induction IH as [|x r Hx _ IHr]; intros [|y r']; cbn; try reflexivity.
    rewrite Hx, IHr. reflexivity.
  - cbn. destruct (list_eqb Z.eqb s s') eqn:E1, (list_eqb Z.eqb s' s) eqn:E2; try reflexivity.
    + apply zlist_eqb_eq in E1. subst. rewrite (proj2 (zlist_eqb_eq s' s') eq_refl) in E2. discriminate E2.
    + apply zlist_eqb_eq in E2. subst. rewrite (proj2 (zlist_eqb_eq s s) eq_refl) in E1. discriminate E1.
  - rewrite !val_seqb_dict. revert d'. induction IH as [|kv r [Hk Hv] _ IHr]; intros [|kv' r']; cbn; try reflexivity.
    unfold kv_seqb at 1 3. rewrite Hk, Hv, IHr. reflexivity.
Qed.

Lemma val_seqb_trans a : forall b c, val_seqb a b = true -> val_seqb b c = true -> val_seqb a c = true.
Proof.
  induction a as [| x | x | m l IH | s | m d IH] using val_ind'; intros b c H1 H2;
    destruct b as [| y | y | m' l' | s' | m' d']; try discriminate H1;
    destruct c as [| z | z | m'' l'' | s'' | m'' d'']; try discriminate H2; try reflexivity.
  1-8: cbn [val_seqb] in *; repeat match goal with b : bool |- _ => destruct b end; cbn [Bool.eqb] in *; lia.
  - rewrite val_seqb_list in *. apply andb_true_iff in H1 as [M1 L1]. apply andb_true_iff in H2 as [M2 L2].
    apply andb_true_iff. split; [destruct m, m', m''; try reflexivity; discriminate|].
    revert l' l'' L1 L2. induction IH as [|x r Hx _ IHr]; intros [|y r'] [|z r''] L1 L2; cbn in *; try reflexivity; try discriminate.
    apply andb_true_iff in L1 as [A1 B1]. apply andb_true_iff in L2 as [A2 B2].
    rewrite (Hx y z A1 A2), (IHr r' r'' B1 B2). reflexivity.
  - cbn in *. apply zlist_eqb_eq in H1. apply zlist_eqb_eq in H2. subst. apply zlist_eqb_eq. reflexivity.
  - rewrite val_seqb_dict in *. revert d' d'' H1 H2.
    induction IH as [|kv r [Hk Hv] _ IHr]; intros [|kv' r'] [|kv'' r''] L1 L2; cbn in *; try reflexivity; try discriminate.
    apply andb_true_iff in L1 as [A1 B1]. apply andb_true_iff in L2 as [A2 B2].
    unfold kv_seqb in A1, A2. apply andb_true_iff in A1 as [K1 V1]. apply andb_true_iff in A2 as [K2 V2].
    unfold kv_seqb at 1. rewrite (Hk _ _ K1 K2), (Hv _ _ V1 V2), (IHr r' r'' B1 B2). reflexivity.
Qed.

(* Python equality: structural equality of canonical forms, hence an equivalence on ALL values *)
Lemma val_eqb_refl a : val_eqb a a = true.
Proof. apply val_seqb_refl. Qed.
Lemma val_eqb_sym a b : val_eqb a b = val_eqb b a.
Proof. apply val_seqb_sym. Qed.
Lemma val_eqb_trans a b c : val_eqb a b = true -> val_eqb b c = true -> val_eqb a c = true.
Proof. apply val_seqb_trans. Qed.

(* ---- subsequences -------------------------------------------------------------- *)
Inductive subseq {A} : list A -> list A -> Prop :=
| subseq_nil : subseq [] []
| subseq_skip x l l' : subseq l l' -> subseq l (x :: l')
| subseq_keep x l l' : subseq l l' -> subseq (x :: l) (x :: l').

Section Keyed.
  Context {A K : Type}.
  Variable keqb : K -> K -> bool.
  Variable key : A -> K.

  Lemma distinct_from_idem seen l :
    distinct_from keqb key seen (distinct_from keqb key seen l) = distinct_from keqb key seen l.
  Proof.
    revert seen. induction l as [|x r IH]; intro seen; [reflexivity|]. cbn [distinct_from].
    destruct (kmem keqb (key x) seen) eqn:E; [apply IH|].
    cbn [distinct_from]. rewrite E. f_equal. apply IH.
  Qed.

  Lemma distinct_idempotent l : distinct_l keqb key (distinct_l keqb key l) = distinct_l keqb key l.
  Proof. apply distinct_from_idem. Qed.

  Lemma distinct_from_subseq seen l : subseq (distinct_from keqb key seen l) l.
  Proof.
    revert seen. induction l as [|x r IH]; intro seen; [constructor|]. cbn [distinct_from].
    destruct (kmem keqb (key x) seen); [apply subseq_skip | apply subseq_keep]; apply IH.
  Qed.

  Lemma distinct_subseq l : subseq (distinct_l keqb key l) l.
  Proof. apply distinct_from_subseq. Qed.

  (* every kept key is new with respect to everything kept before it *)
  Lemma distinct_from_fresh seen l :
    ForallOrdPairs (fun a b => keqb (key b) (key a) = false) (distinct_from keqb key seen l) /\
    Forall (fun b => kmem keqb (key b) seen = false) (distinct_from keqb key seen l).
  Proof.
    revert seen. induction l as [|x r IH]; intro seen; cbn [distinct_from]; [split; constructor|].
    destruct (kmem keqb (key x) seen) eqn:E; [apply IH|].
    destruct (IH (key x :: seen)) as [I1 I2]. split.
    - constructor; [|exact I1]. eapply Forall_impl; [|exact I2]. intros b Hb. cbn [kmem] in Hb.
      apply orb_false_iff in Hb as [Hb _]. exact Hb.
    - constructor; [exact E|]. eapply Forall_impl; [|exact I2]. intros b Hb. cbn [kmem] in Hb.
      apply orb_false_iff in Hb as [_ Hb]. exact Hb.
  Qed.

  Lemma kmem_app k a b : kmem keqb k (a ++ b) = kmem keqb k a || kmem keqb k b.
  Proof. induction a as [|y r IH]; cbn; [reflexivity|]. rewrite IH. apply orb_assoc. Qed.

  Lemma kmem_rev k a : kmem keqb k (rev a) = kmem keqb k a.
  Proof.
    induction a as [|y r IH]; cbn; [reflexivity|]. rewrite kmem_app, IH. cbn. rewrite orb_false_r. apply orb_comm.
  Qed.
End Keyed.

Section Group.
  Context {A K V : Type}.
  Variable keqb : K -> K -> bool.
  Variable key : A -> K.
  Variable value : A -> V.
  Hypothesis keqb_refl : forall a, keqb a a = true.
  Hypothesis keqb_sym : forall a b, keqb a b = keqb b a.
  Hypothesis keqb_trans : forall a b c, keqb a b = true -> keqb b c = true -> keqb a c = true.

  Definition idk (k : K) : K := k.
  Definition dkeys_from (seen : list K) (l : list A) : list K := distinct_from keqb idk seen (map key l).
  Definition dkeys (l : list A) : list K := dkeys_from [] l.
  Definition members (k : K) (l : list A) : list A := filter (fun x => keqb (key x) k) l.
  Definition gspec (l : list A) : list (K * list V) := map (fun k => (k, map value (members k l))) (dkeys l).

  Lemma distinct_from_snoc (seen ks : list K) k :
    distinct_from keqb idk seen (ks ++ [k]) =
    distinct_from keqb idk seen ks ++
      (if kmem keqb k (rev (distinct_from keqb idk seen ks) ++ seen) then [] else [k]).
  Proof.
    revert seen. induction ks as [|y r IH]; intro seen; cbn [app distinct_from rev].
    - change (idk k) with k. destruct (kmem keqb k seen); reflexivity.
    - change (idk y) with y. destruct (kmem keqb y seen) eqn:E; [apply IH|].
      cbn [app]. rewrite IH. f_equal. f_equal. cbn [rev]. rewrite <- app_assoc. reflexivity.
  Qed.

  Lemma dkeys_snoc l x :
    dkeys (l ++ [x]) = dkeys l ++ (if kmem keqb (key x) (dkeys l) then [] else [key x]).
  Proof.
    unfold dkeys, dkeys_from. rewrite map_app. cbn [map]. rewrite distinct_from_snoc.
    rewrite app_nil_r, kmem_rev. reflexivity.
  Qed.

  (* every key of the input is represented among the first-occurrence keys *)
  Lemma dkeys_complete_from seen l x : In x l ->
    kmem keqb (key x) (dkeys_from seen l ++ seen) = true.
  Proof.
    unfold dkeys_from. revert seen. induction l as [|y r IH]; intros seen H; [destruct H|].
    cbn [map distinct_from]. change (idk (key y)) with (key y). destruct H as [->|H].
    - destruct (kmem keqb (key x) seen) eqn:E.
      + rewrite kmem_app, E. apply orb_true_r.
      + cbn [app kmem]. rewrite keqb_refl. reflexivity.
    - destruct (kmem keqb (key y) seen) eqn:E; [apply IH; exact H|].
      specialize (IH (key y :: seen) H). rewrite kmem_app in IH. cbn [kmem] in IH.
      cbn [app kmem]. rewrite kmem_app. destruct (keqb (key x) (key y)); [reflexivity|]. cbn in *. exact IH.
  Qed.

  Lemma dkeys_complete l x : In x l -> kmem keqb (key x) (dkeys l) = true.
  Proof. intro H. pose proof (dkeys_complete_from [] l x H) as C. rewrite app_nil_r in C. exact C. Qed.

  Lemma kmem_true k ks : kmem keqb k ks = true -> exists k', In k' ks /\ keqb k k' = true.
  Proof.
    induction ks as [|y r IH]; cbn; [discriminate|]. intro H. apply orb_true_iff in H as [H|H].
    - exists y. split; [left; reflexivity | exact H].
    - destruct (IH H) as (k' & I & E). exists k'. split; [right; exact I | exact E].
  Qed.

  Lemma kmem_false k ks k' : kmem keqb k ks = false -> In k' ks -> keqb k k' = false.
  Proof.
    induction ks as [|y r IH]; cbn; [intros _ []|]. intros H [->|I]; apply orb_false_iff in H as [H1 H2];
      [exact H1 | apply IH; assumption].
  Qed.

  Lemma members_new l k : kmem keqb k (dkeys l) = false -> members k l = [].
  Proof.
    intro H. unfold members. induction l as [|x r IH] using rev_ind; [reflexivity|].
    rewrite filter_app. rewrite dkeys_snoc, kmem_app in H. apply orb_false_iff in H as [H1 H2].
    rewrite (IH H1). cbn [filter app].
    destruct (keqb (key x) k) eqn:E; [|reflexivity]. exfalso.
    destruct (kmem keqb (key x) (dkeys r)) eqn:M.
    - destruct (kmem_true _ _ M) as (k' & I & E').
      pose proof (kmem_false _ _ _ H1 I) as F. rewrite keqb_sym in E.
      rewrite (keqb_trans k (key x) k' E E') in F. discriminate F.
    - cbn [kmem] in H2. rewrite keqb_sym, E in H2. discriminate H2.
  Qed.

  Definition entry (l : list A) (k : K) : K * list V := (k, map value (members k l)).

  Lemma entry_snoc l x k :
    entry (l ++ [x]) k = (k, map value (members k l) ++ (if keqb (key x) k then [value x] else [])).
  Proof.
    unfold entry, members. rewrite filter_app, map_app. cbn [filter].
    destruct (keqb (key x) k); reflexivity.
  Qed.

  Lemma group_add_spec (l : list A) x ks :
    ForallOrdPairs (fun a b => keqb b a = false) ks ->
    group_add keqb (key x) (value x) (map (entry l) ks) =
    map (entry (l ++ [x])) ks ++ (if kmem keqb (key x) ks then [] else [(key x, [value x])]).
  Proof.
    induction ks as [|k r IH]; intro D; [reflexivity|].
    inversion D as [|? ? Fk Dr]; subst. cbn [map group_add kmem]. rewrite entry_snoc.
    unfold entry at 1. destruct (keqb (key x) k) eqn:E; cbn [orb app].
    - rewrite app_nil_r. f_equal. apply map_ext_in. intros k2 I2. rewrite entry_snoc.
      destruct (keqb (key x) k2) eqn:E2; [|rewrite app_nil_r; reflexivity].
      exfalso. rewrite Forall_forall in Fk. pose proof (Fk k2 I2) as F2.
      rewrite keqb_sym in E. rewrite keqb_sym in F2. rewrite (keqb_trans k (key x) k2 E E2) in F2. discriminate F2.
    - rewrite app_nil_r. fold (entry l k). rewrite (IH Dr). reflexivity.
  Qed.

  Lemma dkeys_distinct l : ForallOrdPairs (fun a b => keqb b a = false) (dkeys l).
  Proof. destruct (distinct_from_fresh keqb idk [] (map key l)) as [H _]. exact H. Qed.

  Lemma group_by_snoc l x :
    group_by_l keqb key value (l ++ [x]) = group_add keqb (key x) (value x) (group_by_l keqb key value l).
  Proof. unfold group_by_l. rewrite fold_left_app. reflexivity. Qed.

  Theorem group_by_is_spec l : group_by_l keqb key value l = gspec l.
  Proof.
    induction l as [|x r IH] using rev_ind; [reflexivity|].
    rewrite group_by_snoc, IH. unfold gspec. fold (entry r). rewrite (group_add_spec r x _ (dkeys_distinct r)).
    rewrite dkeys_snoc, map_app. f_equal.
    destruct (kmem keqb (key x) (dkeys r)) eqn:M; [reflexivity|].
    cbn [map]. unfold entry, members. rewrite filter_app, map_app. fold (members (key x) r).
    rewrite (members_new r (key x) M). cbn [filter]. rewrite keqb_refl. reflexivity.
  Qed.

  (* the groups' members, concatenated, are a rearrangement of the input *)
  Lemma filter_disjoint_perm (p q : A -> bool) l : (forall x, In x l -> p x && q x = false) ->
    Permutation (filter (fun x => p x || q x) l) (filter p l ++ filter q l).
  Proof.
    induction l as [|x r IH]; intro D; [reflexivity|]. cbn [filter].
    assert (Dx := D x (or_introl eq_refl)). assert (Dr : forall y, In y r -> p y && q y = false) by (intros y Hy; apply D; right; exact Hy).
    specialize (IH Dr). destruct (p x) eqn:P, (q x) eqn:Q; cbn in *; try discriminate.
    - constructor. exact IH.
    - rewrite IH. apply Permutation_middle.
    - exact IH.
  Qed.

  Lemma members_concat_perm l ks : ForallOrdPairs (fun a b => keqb b a = false) ks ->
    Permutation (concat (map (fun k => members k l) ks)) (filter (fun x => kmem keqb (key x) ks) l).
  Proof.
    induction ks as [|k r IH]; intro D; cbn [map concat kmem].
    - induction l; [reflexivity | assumption].
    - inversion D as [|? ? Fk Dr]; subst. rewrite (IH Dr).
      symmetry. apply (filter_disjoint_perm (fun x => keqb (key x) k) (fun x => kmem keqb (key x) r)).
      intros x _. destruct (keqb (key x) k) eqn:E; [|reflexivity]. cbn.
      destruct (kmem keqb (key x) r) eqn:M; [|reflexivity]. exfalso.
      destruct (kmem_true _ _ M) as (k' & I & E'). rewrite Forall_forall in Fk. pose proof (Fk k' I) as F.
      rewrite keqb_sym in E. rewrite keqb_sym in F. rewrite (keqb_trans k (key x) k' E E') in F. discriminate F.
  Qed.

  Theorem group_members_perm l : Permutation (concat (map (fun k => members k l) (dkeys l))) l.
  Proof.
    rewrite (members_concat_perm l _ (dkeys_distinct l)).
    replace (filter (fun x => kmem keqb (key x) (dkeys l)) l) with l; [reflexivity|].
    assert (G : forall l', (forall x, In x l' -> kmem keqb (key x) (dkeys l) = true) ->
                           filter (fun x => kmem keqb (key x) (dkeys l)) l' = l').
    { induction l' as [|y r IH]; intro H; [reflexivity|]. cbn [filter]. rewrite (H y (or_introl eq_refl)).
      f_equal. apply IH. intros x Hx. apply H. right. exact Hx. }
    symmetry. apply G. intros x Hx. apply dkeys_complete. exact Hx.
  Qed.

  (* the statement of the property, in one piece *)
  Theorem group_by_props l :
    let g := group_by_l keqb key value l in
    map fst g = distinct_l keqb (fun k => k) (map key l) /\
    ForallOrdPairs (fun a b => keqb b a = false) (map fst g) /\
    (forall k vs, In (k, vs) g -> vs = map value (filter (fun x => keqb (key x) k) l)) /\
    Permutation (concat (map (fun k => filter (fun x => keqb (key x) k) l) (map fst g))) l.
  Proof.
    cbn zeta. rewrite group_by_is_spec. unfold gspec.
    assert (F : map fst (map (fun k => (k, map value (members k l))) (dkeys l)) = dkeys l).
    { rewrite map_map. cbn. apply map_id. }
    rewrite F. repeat split.
    - apply dkeys_distinct.
    - intros k vs H. apply in_map_iff in H as (k' & E & _). injection E as <- <-. reflexivity.
    - apply group_members_perm.
  Qed.
End Group.
