(* Proofs about Model/DateTime.v (property C20). *)
From Coq Require Import ZArith Bool List Lia ZifyBool QArith Qabs.
From YV Require Import Model.DateTime.
Import ListNotations.
Open Scope Z_scope.

Lemma adt_eq : forall a b, wall a = wall b -> off a = off b -> a = b.
Proof. intros [w o] [w' o']; cbn; intros -> ->; reflexivity. Qed.

(* ---- layer 1: the laws, for ALL integers ---------------------------------- *)
Lemma timestamp_roundtrip : forall s o, timestamp (dt_of_timestamp s o) = s.
Proof. intros s o. unfold timestamp, instant, dt_of_timestamp; cbn [wall off]. lia. Qed.

Lemma datetime_of_timestamp_roundtrip : forall d, dt_of_timestamp (timestamp d) (offset d) = d.
Proof.
  intros [w o]. unfold dt_of_timestamp, timestamp, instant, offset; cbn [wall off].
  apply adt_eq; cbn [wall off]; lia.
Qed.

Lemma instant_of_timestamp : forall s o, instant (dt_of_timestamp s o) = EPOCH + s /\ offset (dt_of_timestamp s o) = o.
Proof. intros s o. unfold instant, dt_of_timestamp, offset; cbn [wall off]. lia. Qed.

Lemma utc_same_instant : forall d,
  instant (utc d) = instant d /\ offset (utc d) = 0 /\ timestamp (utc d) = timestamp d /\ utc (utc d) = utc d.
Proof.
  intros [w o]. unfold utc, timestamp, instant, offset; cbn [wall off].
  repeat split; try lia. apply adt_eq; cbn [wall off]; lia.
Qed.

Lemma add_sub : forall d t,
  dt_sub_ts (dt_add d t) t = d /\ dt_diff (dt_add d t) d = t /\
  dt_add (dt_sub_ts d t) t = d /\ ts_add_dt t d = dt_add d t /\
  instant (dt_add d t) = instant d + t /\ offset (dt_add d t) = offset d.
Proof.
  intros [w o] t. unfold dt_sub_ts, dt_add, ts_add_dt, dt_diff, instant, offset; cbn [wall off].
  repeat split; try lia; apply adt_eq; cbn [wall off]; lia.
Qed.

Lemma diff_add : forall a b, instant (dt_add b (dt_diff a b)) = instant a.
Proof. intros [w o] [w' o']. unfold dt_add, dt_diff, instant; cbn [wall off]. lia. Qed.

Lemma cmp_spec : forall a b,
  (dt_cmp Lt a b = true <-> instant a < instant b) /\
  (dt_cmp Le a b = true <-> instant a <= instant b) /\
  (dt_cmp Gt a b = true <-> instant a > instant b) /\
  (dt_cmp Ge a b = true <-> instant a >= instant b) /\
  (dt_cmp Eq a b = true <-> instant a = instant b) /\
  (dt_cmp Ne a b = true <-> instant a <> instant b).
Proof. intros a b. unfold dt_cmp, z_cmp. repeat split; intros; lia. Qed.

Lemma cmp_consistent : forall a b,
  (* exactly one of <, =, > *)
  (dt_cmp Lt a b = true /\ dt_cmp Eq a b = false /\ dt_cmp Gt a b = false \/
   dt_cmp Lt a b = false /\ dt_cmp Eq a b = true /\ dt_cmp Gt a b = false \/
   dt_cmp Lt a b = false /\ dt_cmp Eq a b = false /\ dt_cmp Gt a b = true) /\
  dt_cmp Le a b = (dt_cmp Lt a b || dt_cmp Eq a b) /\
  dt_cmp Ge a b = (dt_cmp Gt a b || dt_cmp Eq a b) /\
  dt_cmp Ne a b = negb (dt_cmp Eq a b) /\
  dt_cmp Gt a b = dt_cmp Lt b a /\ dt_cmp Ge a b = dt_cmp Le b a /\
  dt_cmp Eq a b = (dt_cmp Le a b && dt_cmp Ge a b) /\
  (* agreement with subtraction *)
  dt_cmp Lt a b = (dt_diff a b <? 0) /\ dt_cmp Eq a b = (dt_diff a b =? 0).
Proof. intros a b. unfold dt_cmp, z_cmp, dt_diff. repeat split; lia. Qed.

Lemma cmp_shift : forall c a b t, dt_cmp c (dt_add a t) (dt_add b t) = dt_cmp c a b.
Proof.
  intros c [w o] [w' o'] t. unfold dt_cmp, dt_add, instant; cbn [wall off].
  destruct c; unfold z_cmp; lia.
Qed.

Lemma cmp_utc : forall c a b, dt_cmp c (utc a) (utc b) = dt_cmp c a b.
Proof. intros c [w o] [w' o']. unfold dt_cmp, utc, instant; cbn [wall off]. destruct c; unfold z_cmp; lia. Qed.

(* ---- units ------------------------------------------------------------------- *)
Lemma unit_times_size : forall u t, (ts_unit u t * inject_Z (Zpos (unit_div u)) == inject_Z t)%Q.
Proof.
  intros u t. unfold ts_unit, Qeq, Qmult, inject_Z; cbn [Qnum Qden].
  rewrite Pos.mul_1_r. lia.
Qed.

Lemma unit_ladder : forall t,
  (ts_unit UDays t * 24 == ts_unit UHours t)%Q /\
  (ts_unit UHours t * 60 == ts_unit UMinutes t)%Q /\
  (ts_unit UMinutes t * 60 == ts_unit USeconds t)%Q /\
  (ts_unit USeconds t * 1000 == ts_unit UMilliseconds t)%Q /\
  (ts_unit UMilliseconds t * 1000 == ts_unit UMicroseconds t)%Q /\
  (ts_unit UMicroseconds t == inject_Z t)%Q.
Proof.
  intros t. unfold ts_unit, Qeq, Qmult, inject_Z, unit_div; cbn [Qnum Qden].
  repeat split; lia.
Qed.

Lemma timespan_microseconds : forall x, timespan_of 0 0 0 0 0 x = x.
Proof. intros x. unfold timespan_of. lia. Qed.

Lemma timespan_components : forall d h m s ms us,
  (ts_unit UDays (timespan_of d 0 0 0 0 0) == inject_Z d)%Q /\
  (ts_unit UHours (timespan_of 0 h 0 0 0 0) == inject_Z h)%Q /\
  (ts_unit UMinutes (timespan_of 0 0 m 0 0 0) == inject_Z m)%Q /\
  (ts_unit USeconds (timespan_of 0 0 0 s 0 0) == inject_Z s)%Q /\
  (ts_unit UMilliseconds (timespan_of 0 0 0 0 ms 0) == inject_Z ms)%Q /\
  timespan_of d h m s ms us =
    timespan_of d 0 0 0 0 0 + timespan_of 0 h 0 0 0 0 + timespan_of 0 0 m 0 0 0 +
    timespan_of 0 0 0 s 0 0 + timespan_of 0 0 0 0 ms 0 + timespan_of 0 0 0 0 0 us.
Proof.
  intros. unfold ts_unit, Qeq, inject_Z, unit_div, timespan_of; cbn [Qnum Qden].
  repeat split; lia.
Qed.

(* the tolerance used by the correspondence really is a relative error bound *)
Lemma float_close_sound : forall fn fd n d, float_close fn fd n d = true ->
  (Qabs ((fn # fd) - (n # d)) * inject_Z 2251799813685248 <= Qabs (n # d))%Q.
Proof.
  intros fn fd n d H. unfold float_close in H.
  unfold Qle, Qabs, Qminus, Qplus, Qopp, Qmult, inject_Z; cbn [Qnum Qden].
  rewrite Pos.mul_1_r, Pos2Z.inj_mul.
  assert (E : fn * Z.pos d + - n * Z.pos fd = fn * Z.pos d - n * Z.pos fd) by lia. rewrite E.
  assert (A : 0 <= Z.abs (fn * Z.pos d - n * Z.pos fd)) by lia.
  assert (B : Z.abs (n * Z.pos fd) = Z.abs n * Z.pos fd) by (rewrite Z.abs_mul; lia).
  assert (H' : Z.abs (fn * Z.pos d - n * Z.pos fd) * 2251799813685248 <= Z.abs n * Z.pos fd) by lia.
  nia.
Qed.

(* ---- layer 3: the same laws at the level of yaql calls (range checks included) ---- *)
Lemma in_range_spec : forall w, in_range w = true <-> 0 <= w < MAXWALL.
Proof. intros w. unfold in_range. lia. Qed.

(* datetime(s, o).timestamp is exactly s whenever datetime(s, o) exists *)
Lemma eval_timestamp_roundtrip : forall s o d,
  eval (OpFromTimestamp s o) = VDt d ->
  d = dt_of_timestamp s o /\ eval (OpTimestamp (Aware d)) = VRat s 1000000.
Proof.
  intros s o d H. cbn in H. unfold y_datetime_of_timestamp in H.
  destruct (in_range (EPOCH + s) && in_range (EPOCH + s + o)) eqn:E; [|discriminate].
  injection H as <-. split; [reflexivity|].
  cbn. unfold y_timestamp; cbn. rewrite timestamp_roundtrip. reflexivity.
Qed.

(* datetime(d.timestamp, d.offset) is d for every valid d whose instant is in range *)
Lemma eval_datetime_of_timestamp_roundtrip : forall d,
  valid_adt d = true -> in_range (instant d) = true ->
  eval (OpFromTimestamp (timestamp d) (offset d)) = VDt d /\ eval (OpTimestamp (Aware d)) = VRat (timestamp d) 1000000.
Proof.
  intros [w o] V R. unfold valid_adt in V; cbn [wall off] in V.
  split; [|reflexivity].
  cbn. unfold y_datetime_of_timestamp, timestamp, offset, instant in *; cbn [wall off] in *.
  replace (EPOCH + (w - o - EPOCH)) with (w - o) by lia.
  replace (w - o + o) with w by lia.
  destruct (in_range (w - o) && in_range w) eqn:E; [|lia].
  f_equal. apply adt_eq; cbn [wall off]; unfold dt_of_timestamp; cbn [wall off]; lia.
Qed.

Lemma eval_utc : forall h u, eval (OpUtc h) = VDt u ->
  instant u = instant (conv h) /\ offset u = 0 /\ eval (OpTimestamp (Aware u)) = eval (OpTimestamp h).
Proof.
  intros h u H. cbn in H. unfold y_utc in H.
  destruct (in_range (instant (conv h))) eqn:E; [|discriminate]. injection H as <-.
  destruct (utc_same_instant (conv h)) as (A & B & C & _).
  split; [exact A|]. split; [exact B|].
  cbn. unfold y_timestamp; cbn. rewrite C. destruct h; reflexivity.
Qed.

(* (d + t) - t = d and (d + t) - d = t through the range-checked operators *)
Lemma eval_add_sub : forall h t d', valid_hdt h = true ->
  eval (OpAdd h t) = VDt d' ->
  eval (OpAddR t h) = VDt d' /\
  eval (OpSubTs (Aware d') t) = VDt (conv h) /\
  eval (OpDiff (Aware d') h) = VTs t.
Proof.
  intros h t d' V H. cbn in *. unfold y_add, y_sub_ts, y_diff, py_add, mk_dt in *. cbn [hwall conv] in *.
  destruct (in_range (wall (conv h) + t)) eqn:E; [|discriminate]. injection H as <-.
  split; [reflexivity|]. cbn [wall off conv py_diff].
  assert (R : in_range (wall (conv h)) = true).
  { destruct h as [w|d]; cbn in *; [exact V|]. unfold valid_adt in V. lia. }
  replace (wall (conv h) + t + - t) with (wall (conv h)) by lia. rewrite R.
  split.
  - f_equal. apply adt_eq; reflexivity.
  - f_equal. unfold dt_diff, instant; cbn [wall off]. lia.
Qed.

(* after the repair, ordering and equality of ANY two host datetimes never raise and
   are the comparison of instants with naive taken as UTC *)
Lemma eval_cmp : forall c a b,
  eval (OpCmp c a b) = VBool (z_cmp c (instant (conv a)) (instant (conv b))).
Proof. intros c a b. destruct c; reflexivity. Qed.

Lemma eval_diff : forall a b, eval (OpDiff a b) = VTs (instant (conv a) - instant (conv b)).
Proof. reflexivity. Qed.

Lemma naive_is_utc : forall o, eval (op_map as_utc o) = eval o.
Proof.
  intros o. destruct o; try reflexivity; cbn;
    repeat match goal with h : hdt |- _ => destruct h end; reflexivity.
Qed.

Lemma naive_is_utc_reading : forall w,
  conv (Naive w) = {| wall := w; off := 0 |} /\ instant (conv (Naive w)) = w.
Proof. intros w. unfold instant; cbn. split; [reflexivity|lia]. Qed.

Lemma eval_timespan_microseconds : forall x, ts_in_range x = true ->
  eval (OpUnit UMicroseconds x) = VInt x /\ eval (OpTimespan 0 0 0 0 0 x) = VTs x.
Proof.
  intros x R. split; [reflexivity|]. cbn. unfold y_timespan, mk_ts. rewrite timespan_microseconds, R. reflexivity.
Qed.

Lemma eval_unit : forall u t, u <> UMicroseconds -> exists n d, eval (OpUnit u t) = VRat n d /\ (n # d == ts_unit u t)%Q.
Proof. intros u t N. exists t, (unit_div u). split; [destruct u; try reflexivity; congruence|reflexivity]. Qed.

(* ---- the pre-repair code (documentation of findings F13, F14, F17) ------------ *)
Lemma historic_wrong_everywhere : forall d, off d <> 0 ->
  instant (utc_historic d) <> instant d /\ timestamp_historic d <> timestamp d /\
  timestamp_historic d = timestamp d - off d.
Proof.
  intros [w o] N. unfold timestamp_historic, utc_historic, timestamp, instant in *; cbn [wall off] in *. lia.
Qed.

Lemma historic_right_at_zero : forall d, off d = 0 -> utc_historic d = utc d /\ timestamp_historic d = timestamp d.
Proof.
  intros [w o] N. cbn in N. subst o. unfold timestamp_historic, utc_historic, utc, timestamp, instant; cbn [wall off].
  split; [apply adt_eq; cbn; lia|lia].
Qed.
