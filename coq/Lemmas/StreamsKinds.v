(* Container kinds: every function of the two modules that BUILDS a container hands on a yaql list (tuple), a
   FrozenDict, a frozenset or a lazy sequence - never a Python list or dict. *)
From Coq Require Import List ZArith Bool Arith Lia.
From YV Require Import Common.Corr Model.Queries Model.Streams.
Import ListNotations.

Ltac crush H :=
  repeat (match type of H with
          | context [match ?x with _ => _ end] => destruct x eqn:?
          | context [if ?b then _ else _] => destruct b eqn:?
          end; try discriminate H);
  try discriminate H; try (injection H as <- <-; reflexivity).

Lemma builders_frozen fuel s sg r s' r' :
  builds sg = true -> apply_stage fuel s sg r = (s', Ok r') -> top_frozen r' = true.
Proof.
  intros B H. destruct sg; try discriminate B; clear B;
    unfold apply_stage, with_it, with_list, ok_val, ok_it, no_match in H; crush H.
Qed.

(* and what they build from frozen material is frozen at every depth: the literal list semantics *)
Lemma list_insert_frozen l pos v : forallb frozen l = true -> frozen v = true -> frozen (VList false (list_insert_l l pos v)) = true.
Proof.
  intros Hl Hv. cbn [frozen negb andb]. unfold list_insert_l. rewrite forallb_app. cbn [forallb]. rewrite Hv.
  rewrite <- (firstn_skipn (norm_pos (Z.of_nat (length l)) pos) l) in Hl. rewrite forallb_app in Hl.
  apply andb_true_iff in Hl as [H1 H2]. rewrite H1, H2. reflexivity.
Qed.

Lemma split_at_frozen l n : forallb frozen l = true ->
  frozen (VList false [VList false (fst (split_at_l l n)); VList false (snd (split_at_l l n))]) = true.
Proof.
  intro Hl. unfold split_at_l. cbn [fst snd frozen negb andb forallb].
  rewrite <- (firstn_skipn (slice_index (Z.of_nat (length l)) n) l) in Hl. rewrite forallb_app in Hl.
  apply andb_true_iff in Hl as [H1 H2]. rewrite H1, H2. reflexivity.
Qed.
