(* Proofs about Model/Limits.v: the limiter, the finaliser, the quota, the estimates. *)
From Coq Require Import List ZArith Bool Arith Lia ZifyBool.
From YV Require Import Common.Corr Model.Limits.
Import ListNotations.
Open Scope Z_scope.

(* ------------------------------------------------------------------------- *)
(* the limiter                                                               *)
(* ------------------------------------------------------------------------- *)
Lemma over_nat n i : over (Z.of_nat n) i = (n <=? i)%nat.
Proof. unfold over. destruct (Nat.leb_spec n i); lia. Qed.

Lemma over_neg N i : N < 0 -> over N i = false.
Proof. unfold over. lia. Qed.

Lemma too_large_spec N len : too_large N len = true <-> 0 <= N < Z.of_nat len.
Proof. unfold too_large. lia. Qed.

(* the source has more than N items *)
Definition more_than {A} (s : stream A) (N : Z) : Prop :=
  forall j : nat, Z.of_nat j <= N -> s j <> None.

(* l is exactly the content of s from index i on *)
Definition content_from {A} (s : stream A) (i : nat) (l : list A) : Prop :=
  (forall j, (j < length l)%nat -> s (i + j)%nat = nth_error l j) /\ s (i + length l)%nat = None.

Lemma drain_bound {A} (s : stream A) (n : nat) : forall fuel i,
  (i <= n)%nat -> (n - i < fuel)%nat ->
  exists r p, drain (Z.of_nat n) s fuel i = (r, p) /\
    ((r = TooLarge /\ (forall j, (i <= j <= n)%nat -> s j <> None) /\ (i + p = S n)%nat) \/
     (exists l, r = Ok l /\ length l = p /\ (i + p <= n)%nat /\ content_from s i l)).
Proof.
  induction fuel as [|f IH]; intros i Hi Hf; [lia|].
  cbn [drain]. unfold lim_next. rewrite over_nat.
  destruct (s i) as [x|] eqn:Es.
  - destruct (Nat.leb_spec n i) as [Hle|Hlt].
    + assert (i = n) by lia. subst i.
      exists TooLarge, 1%nat. split; [reflexivity|]. left. split; [reflexivity|]. split; [|lia].
      intros j Hj. assert (j = n) by lia. subst j. congruence.
    + destruct (IH (S i)) as (r & p & E & H); [lia|lia|]. rewrite E.
      exists (res_map (cons x) r), (S p). split; [reflexivity|].
      destruct H as [(-> & Hall & Hp)|(l & -> & Hlen & Hb & Hc & Hend)].
      * left. split; [reflexivity|]. split; [|lia].
        intros j Hj. destruct (Nat.eq_dec j i) as [->|]; [congruence|]. apply Hall. lia.
      * right. exists (x :: l). split; [reflexivity|]. unfold content_from. cbn [length]. split; [lia|]. split; [lia|].
        split.
        -- intros j Hj. destruct j as [|j]; cbn [nth_error].
           ++ rewrite Nat.add_0_r. exact Es.
           ++ replace (i + S j)%nat with (S i + j)%nat by lia. apply Hc. lia.
        -- replace (i + S (length l))%nat with (S i + length l)%nat by lia. exact Hend.
  - exists (Ok []), O. split; [reflexivity|]. right. exists []. unfold content_from. cbn [length].
    split; [reflexivity|]. split; [reflexivity|]. split; [lia|]. split.
    + intros j Hj. lia.
    + rewrite Nat.add_0_r. exact Es.
Qed.

Lemma limit_pulls {A} (s : stream A) (N : Z) (fuel : nat) :
  0 <= N -> (Z.to_nat N < fuel)%nat ->
  let r := fst (drain N s fuel O) in
  let p := snd (drain N s fuel O) in
  Z.of_nat p <= N + 1 /\
  r <> Diverges /\
  (r = TooLarge <-> more_than s N) /\
  (r = TooLarge -> Z.of_nat p = N + 1) /\
  (forall l, r = Ok l -> Z.of_nat (length l) <= N /\ length l = p /\ content_from s O l).
Proof.
  intros HN Hf r0 p0. subst r0 p0. remember (Z.to_nat N) as n eqn:Hn. assert (EN : N = Z.of_nat n) by lia.
  clear Hn. subst N.
  destruct (drain_bound s n fuel O) as (r & p & E & H); [lia|lia|].
  rewrite E. cbn [fst snd].
  destruct H as [(-> & Hall & Hp)|(l & -> & Hlen & Hb & Hc)].
  - split; [lia|]. split; [discriminate|]. split; [|split; [intros _; lia|discriminate]].
    split; [|reflexivity]. intros _ j Hj. apply Hall. lia.
  - split; [lia|]. split; [discriminate|]. split; [|split; [discriminate|]].
    + split; [discriminate|]. intro Hm. exfalso. destruct Hc as [_ Hend].
      apply (Hm (length l)); [lia|exact Hend].
    + intros l' El. injection El as <-. split; [lia|]. split; [exact Hlen|exact Hc].
Qed.

(* partial consumption *)
Lemma take_lim_bound {A} (s : stream A) (n : nat) : forall k i l e p,
  (i <= n)%nat -> take_lim (Z.of_nat n) s k i = (l, e, p) ->
  (p <= k)%nat /\ (i + p <= S n)%nat /\
  (e = Raised <-> (n < i + k)%nat /\ (forall j, (i <= j <= n)%nat -> s j <> None)) /\
  ((forall j, (i <= j)%nat -> (j < Nat.min (i + k) (S n))%nat -> s j <> None) -> (i + p)%nat = Nat.min (i + k) (S n)) /\
  (length l <= p)%nat /\ (i + length l <= n)%nat /\
  (forall j, (j < length l)%nat -> s (i + j)%nat = nth_error l j).
Proof.
  induction k as [|k IH]; intros i l e p Hi H.
  - cbn in H. injection H as <- <- <-. cbn [length].
    repeat split; intros; try lia; try congruence.
  - cbn [take_lim] in H. unfold lim_next in H. rewrite over_nat in H.
    destruct (s i) as [x|] eqn:Es.
    + destruct (Nat.leb_spec n i) as [Hle|Hlt].
      * assert (i = n) by lia. subst i. injection H as <- <- <-. cbn [length].
        repeat split; intros; try lia; try congruence.
        assert (j = n) by lia. subst j. congruence.
      * destruct (take_lim (Z.of_nat n) s k (S i)) as [[l' e'] p'] eqn:Et.
        injection H as <- <- <-.
        destruct (IH (S i) l' e' p' ltac:(lia) Et) as (H1 & H2 & H3 & H4 & H5 & H6 & H7).
        cbn [length]. split; [lia|]. split; [lia|]. split; [|split; [|split; [lia|split; [lia|]]]].
        -- rewrite H3. split.
           ++ intros [Ha Hb]. split; [lia|]. intros j Hj. destruct (Nat.eq_dec j i) as [->|]; [congruence|]. apply Hb. lia.
           ++ intros [Ha Hb]. split; [lia|]. intros j Hj. apply Hb. lia.
        -- intros Hall. assert (Hs : (S i + p')%nat = Nat.min (S i + k) (S n)).
           { apply H4. intros j Hj1 Hj2. apply Hall; lia. }
           lia.
        -- intros j Hj. destruct j as [|j]; cbn [nth_error].
           ++ rewrite Nat.add_0_r. exact Es.
           ++ replace (i + S j)%nat with (S i + j)%nat by lia. apply H7. lia.
    + injection H as <- <- <-. cbn [length]. repeat split; intros; try lia; try congruence.
      * destruct H as [Ha Hb]. exfalso. apply (Hb i); [lia|exact Es].
      * exfalso. apply (H i); [lia|lia|exact Es].
Qed.

Lemma limit_prefix {A} (s : stream A) (N : Z) (k : nat) : 0 <= N ->
  let '(l, e, p) := take_lim N s k O in
  let n := Z.to_nat N in
  (p <= Nat.min k (S n))%nat /\
  (e = Raised <-> (n < k)%nat /\ more_than s N) /\
  ((forall j, (j < Nat.min k (S n))%nat -> s j <> None) -> p = Nat.min k (S n)) /\
  (length l <= Nat.min k n)%nat /\
  (forall j, (j < length l)%nat -> s j = nth_error l j).
Proof.
  intro HN. remember (Z.to_nat N) as n eqn:Hn. assert (EN : N = Z.of_nat n) by lia. clear Hn. subst N.
  destruct (take_lim (Z.of_nat n) s k O) as [[l e] p] eqn:Et.
  destruct (take_lim_bound s n k O l e p ltac:(lia) Et) as (H1 & H2 & H3 & H4 & H5 & H6 & H7).
  cbv beta iota zeta. split; [lia|]. split; [|split; [|split; [lia|]]].
  - rewrite H3. cbn [Nat.add]. split.
    + intros [Ha Hb]. split; [exact Ha|]. intros j Hj. apply Hb. lia.
    + intros [Ha Hb]. split; [exact Ha|]. intros j Hj. apply Hb. lia.
  - intros Hall. cbn [Nat.add] in H4. apply H4. intros j _ Hj. apply Hall. exact Hj.
  - intros j Hj. apply (H7 j Hj).
Qed.

Lemma limit_prefix_negative {A} (s : stream A) (N : Z) : N < 0 ->
  forall k i, snd (fst (take_lim N s k i)) <> Raised.
Proof.
  intro HN. induction k as [|k IH]; intro i; [cbn; discriminate|].
  cbn [take_lim]. unfold lim_next. rewrite (over_neg N i HN).
  destruct (s i); [|cbn; discriminate].
  specialize (IH (S i)). destruct (take_lim N s k (S i)) as [[l e] p]. exact IH.
Qed.

Lemma limit_negative_identity {A} (s : stream A) (N : Z) : N < 0 ->
  forall fuel i, drain N s fuel i = drain_raw s fuel i.
Proof.
  intros HN. induction fuel as [|f IH]; intro i; [reflexivity|].
  cbn [drain drain_raw]. unfold lim_next. rewrite (over_neg N i HN).
  destruct (s i); [rewrite IH|]; reflexivity.
Qed.

Lemma limit_sized_spec {A} (N : Z) (l : list A) :
  (limit_sized N l = TooLarge <-> 0 <= N < Z.of_nat (length l)) /\
  (limit_sized N l <> TooLarge -> limit_sized N l = Ok l).
Proof.
  unfold limit_sized. destruct (too_large N (length l)) eqn:E.
  - apply too_large_spec in E. split; [tauto|congruence].
  - split; [|reflexivity]. split; [discriminate|]. intro H. apply too_large_spec in H. congruence.
Qed.

(* ------------------------------------------------------------------------- *)
(* induction principle for nested values                                     *)
(* ------------------------------------------------------------------------- *)
Section ValInd.
  Variable P : val -> Prop.
  Hypothesis HNull : P VNull.
  Hypothesis HInt : forall z, P (VInt z).
  Hypothesis HStr : forall s, P (VStr s).
  Hypothesis HTuple : forall l, Forall P l -> P (VTuple l).
  Hypothesis HList : forall l, Forall P l -> P (VList l).
  Hypothesis HDict : forall kvs, Forall (fun kv => P (fst kv) /\ P (snd kv)) kvs -> P (VDict kvs).
  Hypothesis HSet : forall l, Forall P l -> P (VSet l).
  Hypothesis HIter : forall l e, Forall P l -> P (VIter l e).

  Fixpoint val_ind' (v : val) : P v :=
    let go := fix go (l : list val) : Forall P l :=
      match l with
      | [] => Forall_nil P
      | x :: r => Forall_cons x (val_ind' x) (go r)
      end in
    match v with
    | VNull => HNull
    | VInt z => HInt z
    | VStr s => HStr s
    | VTuple l => HTuple l (go l)
    | VList l => HList l (go l)
    | VDict kvs =>
      HDict kvs ((fix gd (kvs : list (val * val)) : Forall (fun kv => P (fst kv) /\ P (snd kv)) kvs :=
                    match kvs with
                    | [] => Forall_nil _
                    | (k, x) :: r => Forall_cons (k, x) (conj (val_ind' k) (val_ind' x)) (gd r)
                    end) kvs)
    | VSet l => HSet l (go l)
    | VIter l e => HIter l e (go l)
    end.
End ValInd.

(* ------------------------------------------------------------------------- *)
(* the finaliser                                                             *)
(* ------------------------------------------------------------------------- *)
Fixpoint width_okb (N : Z) (v : val) : bool :=
  match v with
  | VTuple l | VList l | VSet l => (Z.of_nat (length l) <=? N) && forallb (width_okb N) l
  | VDict kvs => (Z.of_nat (length kvs) <=? N)
                 && forallb (fun kv => let '(k, x) := kv in width_okb N k && width_okb N x) kvs
  | VIter _ _ => false
  | _ => true
  end.

Lemma res_map_ok {A B} (f : A -> B) r b : res_map f r = Ok b -> exists a, r = Ok a /\ b = f a.
Proof. destruct r; cbn; intro H; try discriminate. injection H as <-. eauto. Qed.

Lemma seq_collect_cons_ok r p rest l :
  fst (seq_collect ((r, p) :: rest)) = Ok l ->
  exists v lr, r = Ok v /\ l = v :: lr /\ fst (seq_collect rest) = Ok lr.
Proof.
  cbn [seq_collect]. destruct r as [v| | |]; try (cbn; discriminate).
  destruct (seq_collect rest) as [rr pp] eqn:E. cbn [fst]. intro H.
  apply res_map_ok in H as (lr & -> & ->). eauto.
Qed.

Lemma seq_collect_nil_ok l : fst (seq_collect []) = Ok l -> l = [].
Proof. cbn. congruence. Qed.

Section Fin.
  Variables (N : Z) (o : opts).
  Hypothesis HN : 0 <= N.

  Let P (x : val) : Prop := forall r, fst (fin N o x) = Ok r -> width_okb N r = true.

  Lemma seq_items_ok l : Forall P l -> forall l',
    fst (seq_collect (map (fin N o) l)) = Ok l' ->
    length l' = length l /\ forallb (width_okb N) l' = true.
  Proof.
    induction 1 as [|x l Hx Hl IH]; intros l' H.
    - apply seq_collect_nil_ok in H. subst. split; reflexivity.
    - cbn [map] in H. destruct (fin N o x) as [rx px] eqn:Ex.
      apply seq_collect_cons_ok in H as (v & lr & -> & -> & Hr).
      destruct (IH lr Hr) as [Hlen Hall]. cbn [length forallb]. split; [lia|].
      rewrite Hall, andb_true_r. apply Hx. rewrite Ex. reflexivity.
  Qed.

  Lemma dict_items_ok kvs : Forall (fun kv => P (fst kv) /\ P (snd kv)) kvs -> forall l',
    fst (dict_collect (map (fun kv : val * val => let '(k, x) := kv in (fin N o x, fin N o k)) kvs)) = Ok l' ->
    length l' = length kvs /\
    forallb (fun kv : val * val => let '(k, x) := kv in width_okb N k && width_okb N x) l' = true.
  Proof.
    induction 1 as [|[k x] kvs [Hk Hx] Hl IH]; intros l' H.
    - cbn in H. injection H as <-. split; reflexivity.
    - cbn [map] in H. cbn [fst snd] in Hk, Hx.
      destruct (fin N o x) as [rx px] eqn:Ex. destruct (fin N o k) as [rk pk] eqn:Ek.
      cbn [dict_collect] in H.
      destruct rx as [vx| | |]; try (cbn in H; discriminate).
      destruct rk as [vk| | |]; try (cbn in H; discriminate).
      destruct (hashable vk); [|cbn in H; discriminate].
      destruct (dict_collect (map (fun kv : val * val => let '(k0, x0) := kv in (fin N o x0, fin N o k0)) kvs))
        as [rr pp] eqn:Er. cbn [fst] in H.
      apply res_map_ok in H as (lr & -> & ->).
      destruct (IH lr eq_refl) as [Hlen Hall]. cbn [length forallb]. split; [lia|].
      rewrite Hall, andb_true_r. apply andb_true_iff. split.
      + apply Hk. rewrite Ek. reflexivity.
      + apply Hx. rewrite Ex. reflexivity.
  Qed.

  Lemma iter_items_ok l : Forall P l -> forall i e l',
    Z.of_nat i <= N ->
    fst (iter_collect N i (map (fin N o) l) e) = Ok l' ->
    Z.of_nat (i + length l') <= N /\ forallb (width_okb N) l' = true.
  Proof.
    induction 1 as [|x l Hx Hl IH]; intros i e l' Hi H.
    - cbn [map iter_collect] in H. destruct e.
      + destruct (N <? 0); cbn in H; discriminate.
      + cbn in H. injection H as <-. cbn [length forallb]. split; [lia|reflexivity].
    - cbn [map] in H. destruct (fin N o x) as [rx px] eqn:Ex. cbn [iter_collect] in H.
      destruct (over N i) eqn:Eo; [cbn in H; discriminate|].
      destruct rx as [v| | |]; try (cbn in H; discriminate).
      destruct (iter_collect N (S i) (map (fin N o) l) e) as [rr pp] eqn:Er. cbn [fst] in H.
      apply res_map_ok in H as (lr & -> & ->).
      assert (Hi' : Z.of_nat (S i) <= N) by (unfold over in Eo; lia).
      destruct (IH (S i) e lr Hi') as [Hb Hall]; [rewrite Er; reflexivity|].
      cbn [length forallb]. split; [lia|].
      rewrite Hall, andb_true_r. apply Hx. rewrite Ex. reflexivity.
  Qed.

  Lemma wrap_ok c x r : fst (wrap c x) = Ok r -> exists l, fst x = Ok l /\ r = c l.
  Proof. unfold wrap. cbn [fst]. apply res_map_ok. Qed.

  Lemma fin_width : forall v, P v.
  Proof.
    apply val_ind'; unfold P.
    - intros r H. cbn in H. injection H as <-. reflexivity.
    - intros z r H. cbn in H. injection H as <-. reflexivity.
    - intros s r H. cbn in H. injection H as <-. reflexivity.
    - intros l Hl r H. cbn [fin] in H. destruct (too_large N (length l)) eqn:Et; [cbn in H; discriminate|].
      apply wrap_ok in H as (l' & H & ->). destruct (seq_items_ok l Hl l' H) as [Hlen Hall].
      assert (Hw : Z.of_nat (length l') <= N) by (unfold too_large in Et; lia).
      destruct (tuples_to_lists o); cbn [width_okb]; rewrite Hall; lia.
    - intros l Hl r H. cbn [fin] in H. destruct (too_large N (length l)) eqn:Et; [cbn in H; discriminate|].
      apply wrap_ok in H as (l' & H & ->). destruct (seq_items_ok l Hl l' H) as [Hlen Hall].
      assert (Hw : Z.of_nat (length l') <= N) by (unfold too_large in Et; lia).
      cbn [width_okb]; rewrite Hall; lia.
    - intros kvs Hl r H. cbn [fin] in H. destruct (too_large N (length kvs)) eqn:Et; [cbn in H; discriminate|].
      cbn [fst] in H. apply res_map_ok in H as (l' & H & ->). destruct (dict_items_ok kvs Hl l' H) as [Hlen Hall].
      assert (Hw : Z.of_nat (length l') <= N) by (unfold too_large in Et; lia).
      cbn [width_okb]. rewrite Hall. lia.
    - intros l Hl r H. cbn [fin] in H. destruct (too_large N (length l)) eqn:Et; [cbn in H; discriminate|].
      apply wrap_ok in H as (l' & H & ->). destruct (seq_items_ok l Hl l' H) as [Hlen Hall].
      assert (Hw : Z.of_nat (length l') <= N) by (unfold too_large in Et; lia).
      destruct (sets_to_lists o); cbn [width_okb]; rewrite Hall; lia.
    - intros l e Hl r H. cbn [fin] in H.
      apply wrap_ok in H as (l' & H & ->). destruct (iter_items_ok l Hl O e l' HN H) as [Hb Hall].
      cbn [width_okb]. rewrite Hall. lia.
  Qed.

  (* termination: with a non-negative limit the finaliser never runs for ever *)
  Let T (x : val) : Prop := fst (fin N o x) <> Diverges.

  Lemma seq_collect_terminates rs : Forall (fun rp : res val * nat => fst rp <> Diverges) rs ->
    fst (seq_collect rs) <> Diverges.
  Proof.
    induction 1 as [|[r p] rs Hr Hrs IH]; [cbn; discriminate|].
    cbn [seq_collect]. cbn [fst] in Hr. destruct r as [v| | |]; [|cbn; discriminate|congruence|cbn; discriminate].
    destruct (seq_collect rs) as [rr pp]. cbn [fst] in *. destruct rr; cbn; congruence.
  Qed.

  Lemma iter_collect_terminates rs : Forall (fun rp : res val * nat => fst rp <> Diverges) rs ->
    forall i e, fst (iter_collect N i rs e) <> Diverges.
  Proof.
    induction 1 as [|[r p] rs Hr Hrs IH]; intros i e.
    - cbn [iter_collect]. destruct e; [|cbn; discriminate].
      destruct (N <? 0) eqn:E; [lia|cbn; discriminate].
    - cbn [iter_collect]. destruct (over N i); [cbn; discriminate|].
      cbn [fst] in Hr. destruct r as [v| | |]; [|cbn; discriminate|congruence|cbn; discriminate].
      specialize (IH (S i) e). destruct (iter_collect N (S i) rs e) as [rr pp]. cbn [fst] in *.
      destruct rr; cbn; congruence.
  Qed.

  Lemma Forall_map_fin l : Forall T l -> Forall (fun rp : res val * nat => fst rp <> Diverges) (map (fin N o) l).
  Proof. induction 1; cbn [map]; constructor; assumption. Qed.

  Lemma res_map_terminates {A B} (f : A -> B) (r : res A) : r <> Diverges -> res_map f r <> Diverges.
  Proof. destruct r; cbn; congruence. Qed.

  Lemma wrap_terminates c x : fst x <> Diverges -> fst (wrap c x) <> Diverges.
  Proof. unfold wrap. cbn [fst]. destruct (fst x); cbn; congruence. Qed.

  Lemma fin_terminates : forall v, T v.
  Proof.
    apply val_ind'; unfold T.
    - cbn; discriminate.
    - intros; cbn; discriminate.
    - intros; cbn; discriminate.
    - intros l Hl. cbn [fin]. destruct (too_large N (length l)); [cbn; discriminate|].
      apply wrap_terminates, seq_collect_terminates, Forall_map_fin, Hl.
    - intros l Hl. cbn [fin]. destruct (too_large N (length l)); [cbn; discriminate|].
      apply wrap_terminates, seq_collect_terminates, Forall_map_fin, Hl.
    - intros kvs Hl. cbn [fin]. destruct (too_large N (length kvs)); [cbn; discriminate|].
      cbn [fst]. apply res_map_terminates.
      induction Hl as [|[k x] kvs [Hk Hx] Hl IH]; cbn [map]; [cbn; discriminate|].
      cbn [fst snd] in Hk, Hx.
      destruct (fin N o x) as [rx px]. destruct (fin N o k) as [rk pk]. cbn [fst] in Hk, Hx.
      cbn [dict_collect].
      destruct rx as [vx| | |]; [|cbn; discriminate|congruence|cbn; discriminate].
      destruct rk as [vk| | |]; [|cbn; discriminate|congruence|cbn; discriminate].
      destruct (hashable vk); [|cbn; discriminate].
      destruct (dict_collect (map (fun kv : val * val => let '(k0, x0) := kv in (fin N o x0, fin N o k0)) kvs))
        as [rr pp]. cbn [fst] in *. apply res_map_terminates. exact IH.
    - intros l Hl. cbn [fin]. destruct (too_large N (length l)); [cbn; discriminate|].
      apply wrap_terminates, seq_collect_terminates, Forall_map_fin, Hl.
    - intros l e Hl. cbn [fin]. apply wrap_terminates, iter_collect_terminates, Forall_map_fin, Hl.
  Qed.
End Fin.

Lemma width_okb_subvals N : 0 <= N -> forall v, width_okb N v = true ->
  forall u, In u (subvals v) -> Z.of_nat (children u) <= N /\ is_iter u = false.
Proof.
  intro HN.
  assert (Hlist : forall l, Forall (fun v => width_okb N v = true ->
                     forall u, In u (subvals v) -> Z.of_nat (children u) <= N /\ is_iter u = false) l ->
                   forallb (width_okb N) l = true ->
                   forall u, In u (flat_map subvals l) -> Z.of_nat (children u) <= N /\ is_iter u = false).
  { induction 1 as [|x l Hx Hl IH]; intros Hall u Hu; [destruct Hu|].
    cbn [forallb] in Hall. apply andb_true_iff in Hall as [H1 H2].
    cbn [flat_map] in Hu. apply in_app_or in Hu as [Hu|Hu]; [apply Hx; assumption|apply IH; assumption]. }
  apply (val_ind' (fun v => width_okb N v = true ->
           forall u, In u (subvals v) -> Z.of_nat (children u) <= N /\ is_iter u = false)).
  - intros _ u [<-|[]]. cbn. split; [lia|reflexivity].
  - intros z _ u [<-|[]]. cbn. split; [lia|reflexivity].
  - intros s _ u [<-|[]]. cbn. split; [lia|reflexivity].
  - intros l Hl H u Hu. cbn [width_okb] in H. apply andb_true_iff in H as [H1 H2].
    cbn [subvals] in Hu. destruct Hu as [<-|Hu]; [cbn; split; [lia|reflexivity]|]. apply (Hlist l Hl H2 u Hu).
  - intros l Hl H u Hu. cbn [width_okb] in H. apply andb_true_iff in H as [H1 H2].
    cbn [subvals] in Hu. destruct Hu as [<-|Hu]; [cbn; split; [lia|reflexivity]|]. apply (Hlist l Hl H2 u Hu).
  - intros kvs Hl H u Hu. cbn [width_okb] in H. apply andb_true_iff in H as [H1 H2].
    cbn [subvals] in Hu. destruct Hu as [<-|Hu]; [cbn; split; [lia|reflexivity]|].
    clear H1. induction Hl as [|[k x] kvs [Hk Hx] Hl IH]; [destruct Hu|].
    cbn [forallb] in H2. apply andb_true_iff in H2 as [Ha Hb]. apply andb_true_iff in Ha as [Ha1 Ha2].
    cbn [flat_map] in Hu. cbn [fst snd] in Hk, Hx.
    apply in_app_or in Hu as [Hu|Hu]; [|apply IH; assumption].
    apply in_app_or in Hu as [Hu|Hu]; [apply Hk|apply Hx]; assumption.
  - intros l Hl H u Hu. cbn [width_okb] in H. apply andb_true_iff in H as [H1 H2].
    cbn [subvals] in Hu. destruct Hu as [<-|Hu]; [cbn; split; [lia|reflexivity]|]. apply (Hlist l Hl H2 u Hu).
  - intros l e Hl H. cbn in H. discriminate.
Qed.

Lemma result_width N o v r : 0 <= N -> finalize N o v = Ok r ->
  forall u, In u (subvals r) -> Z.of_nat (children u) <= N /\ is_iter u = false.
Proof.
  intros HN H. apply (width_okb_subvals N HN r). exact (fin_width N o HN v r H).
Qed.

Lemma finalize_terminates N o v : 0 <= N -> finalize N o v <> Diverges.
Proof. intro HN. exact (fin_terminates N o HN v). Qed.

(* ------------------------------------------------------------------------- *)
(* the quota                                                                 *)
(* ------------------------------------------------------------------------- *)
Lemma total_weight_cons c sz r : total_weight ((c, sz) :: r) = c * sz + total_weight r.
Proof. reflexivity. Qed.

Lemma lmu_go_spec Q : forall xs total,
  lmu_go Q total xs = true <->
  exists k, (1 <= k <= length xs)%nat /\ Q < total + total_weight (firstn k xs).
Proof.
  induction xs as [|[c sz] r IH]; intro total.
  - cbn. split; [discriminate|]. intros (k & Hk & _). lia.
  - cbn [lmu_go]. destruct (Q <? total + c * sz) eqn:E.
    + split; [|reflexivity]. intros _. exists 1%nat. cbn [length firstn]. rewrite total_weight_cons.
      cbn [total_weight fold_right]. split; lia.
    + rewrite IH. split.
      * intros (k & Hk & Hq). exists (S k). cbn [length firstn]. rewrite total_weight_cons. split; lia.
      * intros (k & Hk & Hq). destruct k as [|k]; [lia|].
        cbn [length firstn] in Hk, Hq. rewrite total_weight_cons in Hq.
        destruct k as [|k].
        -- cbn in Hq. lia.
        -- exists (S k). split; [lia|]. lia.
Qed.

Lemma quota_threshold Q xs :
  (0 < Q -> (limit_memory_usage Q xs = true <->
             exists k, (1 <= k <= length xs)%nat /\ total_weight (firstn k xs) > Q)) /\
  (Q <= 0 -> limit_memory_usage Q xs = false).
Proof.
  unfold limit_memory_usage. split; intro HQ.
  - destruct (Q <=? 0) eqn:E; [lia|]. rewrite lmu_go_spec. split; intros (k & Hk & H); exists k; split; lia.
  - destruct (Q <=? 0) eqn:E; [reflexivity|lia].
Qed.

Lemma lmu_single Q s : limit_memory_usage Q [(1, s)] = (0 <? Q) && (Q <? s).
Proof. unfold limit_memory_usage. cbn [lmu_go]. destruct (Q <=? 0) eqn:E; destruct (Q <? 0 + 1 * s) eqn:F; lia. Qed.

(* ------------------------------------------------------------------------- *)
(* the estimates of `*`                                                      *)
(* ------------------------------------------------------------------------- *)
Section Sizeof.
  Variable sizeof : sizefn.
  Variables base item : kind -> Z.
  Hypothesis sizeof_linear : forall k n, 0 <= n -> sizeof k n = base k + item k * n.
  Hypothesis item_nonneg : forall k, 0 <= item k.
  Hypothesis base_empty_le : forall k, base (empty_kind k) <= base k.

  Lemma repetition_refuses_first Q k n sz c :
    0 < Q -> 0 <= n -> sizeof k n <= sz ->
    true_size sizeof k n c > Q -> estimate sizeof Q k sz c = true.
  Proof.
    intros HQ Hn Hsz Ht. unfold estimate, estimate_args, limit_memory_usage.
    destruct (Q <=? 0) eqn:EQ; [lia|]. cbn [lmu_go].
    rewrite (sizeof_linear (empty_kind k) 0) by lia.
    rewrite (sizeof_linear k n Hn) in Hsz.
    pose proof (item_nonneg k) as Hi. pose proof (base_empty_le k) as He.
    set (E := base (empty_kind k)) in *. set (B := base k) in *. set (I := item k) in *.
    replace (E + item (empty_kind k) * 0) with E by lia.
    unfold true_size in Ht.
    destruct (Q <? 0 + (- c + 1) * E) eqn:E1; [reflexivity|].
    destruct (Q <? 0 + (- c + 1) * E + c * sz) eqn:E2; [reflexivity|]. exfalso.
    destruct ((c <=? 0) || (n =? 0)) eqn:Ec.
    - rewrite (sizeof_linear (empty_kind k) 0) in Ht by lia. fold E in Ht.
      replace (E + item (empty_kind k) * 0) with E in Ht by lia.
      destruct (Z_le_gt_dec c 0) as [Hc|Hc].
      + assert ((- c + 1) * E >= E) by nia. lia.
      + assert (n = 0) by lia. subst n.
        assert (c * sz >= c * E) by nia. lia.
    - assert (Hc : 1 <= c) by lia. assert (Hn1 : 1 <= n) by lia.
      rewrite (sizeof_linear k (n * c)) in Ht by nia. fold B I in Ht.
      assert (H1 : c * sz >= c * (B + I * n)) by nia.
      assert (H2 : (c - 1) * (B - E) >= 0) by nia.
      nia.
  Qed.

  (* consequence for the whole evaluation of `x * c`: if the product is computed
     at all, it fits the quota; the result check of runner.call never has to fire *)
  Lemma repetition_never_over_quota Q k n sz c cs :
    0 < Q -> 0 <= n -> sizeof k n <= sz ->
    allocated (mul_eval (estimate sizeof) sizeof Q k n sz c cs) = true ->
    mul_eval (estimate sizeof) sizeof Q k n sz c cs = MulOk (product_size sizeof k n sz c) /\
    product_size sizeof k n sz c <= Q.
  Proof.
    intros HQ Hn Hsz. unfold mul_eval.
    destruct (limit_memory_usage Q [(1, sz)] || limit_memory_usage Q [(1, cs)]) eqn:Ea; [cbn; discriminate|].
    destruct (estimate sizeof Q k sz c) eqn:Ee; [cbn; discriminate|].
    assert (Hle : product_size sizeof k n sz c <= Q).
    { unfold product_size. destruct ((c =? 1) && negb (kind_eqb k KList)) eqn:E1.
      - apply orb_false_iff in Ea as [Ea _]. rewrite lmu_single in Ea. lia.
      - destruct (Z_le_gt_dec (true_size sizeof k n c) Q) as [H|H]; [exact H|].
        rewrite (repetition_refuses_first Q k n sz c HQ Hn Hsz H) in Ee. discriminate. }
    rewrite lmu_single. destruct ((0 <? Q) && (Q <? product_size sizeof k n sz c)) eqn:E; [lia|].
    intros _. split; [reflexivity|exact Hle].
  Qed.

  (* the estimate as it was before the repair: for a tuple operand of two items the
     two samples cancel; the estimate is the constant base KList whatever the count *)
  Hypothesis historic_coincidence : base KList = base KTuple + item KTuple * 2.
  Hypothesis base_nonneg : forall k, 0 <= base k.

  Lemma repetition_historic_blind Q c :
    base KList <= Q -> 1 <= c ->
    estimate_historic sizeof Q KTuple (sizeof KTuple 2) c = false /\
    true_size sizeof KTuple 2 c = base KTuple + item KTuple * (2 * c).
  Proof.
    intros HQ Hc. pose proof (base_nonneg KList) as HbL. split.
    - unfold estimate_historic, estimate_args_historic, limit_memory_usage. cbn [is_seq lmu_go].
      rewrite (sizeof_linear KList 0), (sizeof_linear KTuple 2) by lia.
      destruct (Q <=? 0); [reflexivity|].
      destruct (Q <? 0 + (- c + 1) * (base KList + item KList * 0)) eqn:E1; [nia|].
      destruct (Q <? 0 + (- c + 1) * (base KList + item KList * 0) + c * (base KTuple + item KTuple * 2)) eqn:E2; [|reflexivity].
      nia.
    - unfold true_size. destruct ((c <=? 0) || (2 =? 0)) eqn:E; [lia|].
      rewrite sizeof_linear by lia. reflexivity.
  Qed.
End Sizeof.
