(* Totality of the lexer model: every token consumes at least one code point and
   stays inside the text, so fuel [length s + 1] suffices; under a well-formed
   configuration no foreign exception class can escape; error positions and
   token extents lie inside the text. *)
From Coq Require Import List ZArith Bool Arith Lia.
From YV Require Import Common.Corr Model.Lexer.
Import ListNotations.

(* tokens lie one after the other inside [lo, hi), each at least one code point long *)
Fixpoint tiles (lo hi : nat) (toks : list token) : Prop :=
  match toks with
  | [] => True
  | t :: r => (lo <= tk_pos t /\ 1 <= tk_len t /\ tk_pos t + tk_len t <= hi)%nat /\
              tiles (tk_pos t + tk_len t) hi r
  end.

Lemma tiles_lo : forall toks lo lo' hi, (lo' <= lo)%nat -> tiles lo hi toks -> tiles lo' hi toks.
Proof.
  intros [|t r] lo lo' hi L; cbn; [auto|]. intros [(A & B & C) D]. repeat split; auto; lia.
Qed.

Lemma tiles_In : forall toks lo hi t, tiles lo hi toks -> In t toks ->
  (lo <= tk_pos t /\ 1 <= tk_len t /\ tk_pos t + tk_len t <= hi)%nat.
Proof.
  induction toks as [|x r IH]; intros lo hi t T I; [contradiction|].
  cbn in T. destruct T as [(A & B & C) D]. destruct I as [<-|I]; [repeat split; assumption|].
  destruct (IH _ _ _ D I) as (A' & B' & C'). repeat split; lia.
Qed.

Definition ops_nonempty (cfg : lexcfg) : Prop :=
  forallb (fun r => negb (Nat.eqb (length (snd r)) O)) (op_strs cfg) = true.

Lemma wf_ops_nonempty : forall cfg, cfg_wfb cfg = true -> ops_nonempty cfg.
Proof.
  intros cfg H. unfold cfg_wfb in H. repeat (apply andb_prop in H; destruct H as [H ?]). exact H.
Qed.

Section Total.
Variable cfg : lexcfg.

Lemma span_le : forall f s, (span f s <= length s)%nat.
Proof. induction s as [|c r IH]; cbn; [lia|]. destruct (f c); cbn; lia. Qed.

Lemma skipn_cons_length : forall (n : nat) (s : text) d r, skipn n s = d :: r -> (n + 1 + length r = length s)%nat.
Proof.
  intros n s d r H. pose proof (skipn_length n s) as L. rewrite H in L. cbn [length] in L. lia.
Qed.

Lemma scan_body_lt : forall q s esc n, scan_body q esc s = Some n -> (n < length s)%nat.
Proof.
  induction s as [|c r IH]; intros esc n; cbn [scan_body length]; [discriminate|].
  destruct esc.
  - destruct (c =? 10)%Z; [discriminate|].
    destruct (scan_body q false r) eqn:E; cbn; [|discriminate]. intros [= <-]. specialize (IH _ _ E). lia.
  - destruct (c =? q)%Z; [intros [= <-]; lia|].
    destruct (c =? 92)%Z.
    + destruct (scan_body q true r) eqn:E; cbn; [|discriminate]. intros [= <-]. specialize (IH _ _ E). lia.
    + destruct (scan_body q false r) eqn:E; cbn; [|discriminate]. intros [= <-]. specialize (IH _ _ E). lia.
Qed.

Lemma prefixb_length : forall p s, prefixb p s = true -> (length p <= length s)%nat.
Proof.
  induction p as [|a p IH]; intros s; cbn; [lia|].
  destruct s as [|b s]; [discriminate|]. intro H. apply andb_prop in H. destruct H as [_ H].
  specialize (IH _ H). cbn. lia.
Qed.

(* a produced token is at least one code point long and not longer than the rest of the text *)
Definition tok_ok (s : text) (m : mres) : Prop :=
  match m with MTok _ n _ => (1 <= n <= length s)%nat | _ => True end.

Lemma number_action_ok : forall s txt len, (1 <= len <= length s)%nat -> tok_ok s (number_action cfg txt len).
Proof.
  intros s txt len H. unfold number_action.
  destruct (memz 46 txt); [exact H|].
  destruct ((0 <? max_digits cfg)%Z && (max_digits cfg <? Z.of_nat len)%Z); [destruct (guard_number cfg); exact I|exact H].
Qed.

Lemma m_dollar_ok : forall s, tok_ok s (m_dollar cfg s).
Proof.
  intros [|c r]; cbn; [exact I|]. destruct (c =? 36)%Z; [|exact I]. cbn.
  pose proof (span_le (is_w cfg) r). lia.
Qed.

Lemma m_number_ok : forall prev s, tok_ok s (m_number cfg prev s).
Proof.
  intros prev s. unfold m_number.
  destruct (negb (bnd cfg prev (hd_opt s))); [exact I|].
  destruct (span (is_d cfg) s) as [|n'] eqn:En; [exact I|].
  pose proof (span_le (is_d cfg) s) as Ls. rewrite En in Ls.
  destruct (skipn (S n') s) as [|c r2] eqn:Er.
  - destruct (bnd cfg (nth_error s n') (hd_opt [])); [|exact I]. apply number_action_ok. lia.
  - pose proof (skipn_cons_length _ _ _ _ Er) as L1.
    assert (Fallback : tok_ok s (if bnd cfg (nth_error s n') (hd_opt (c :: r2))
                                 then number_action cfg (firstn (S n') s) (S n') else MNone)).
    { destruct (bnd cfg (nth_error s n') (hd_opt (c :: r2))); [|exact I]. apply number_action_ok. lia. }
    destruct (c =? 46)%Z; [|exact Fallback].
    destruct (span (is_d cfg) r2) as [|m'] eqn:Em; [exact Fallback|].
    pose proof (span_le (is_d cfg) r2) as L2. rewrite Em in L2.
    destruct (bnd cfg (nth_error r2 m') (hd_opt (skipn (S m') r2))); [|exact Fallback].
    apply number_action_ok. lia.
Qed.

Lemma m_func_ok : forall prev s, tok_ok s (m_func cfg prev s).
Proof.
  intros prev [|c r]; cbn [m_func]; [exact I|].
  destruct (bnd cfg prev (Some c) && ident_start cfg c); [|exact I].
  destruct (skipn (span (is_w cfg) r) r) as [|d r'] eqn:E; [exact I|].
  destruct (d =? 40)%Z; [|exact I]. pose proof (skipn_cons_length _ _ _ _ E). cbn. lia.
Qed.

Lemma kw_action_ok : forall s w n, (1 <= n <= length s)%nat -> tok_ok s (kw_action cfg w n).
Proof.
  intros s w n H. unfold kw_action.
  destruct (assoc w (op_table cfg)) as [name|].
  - destruct (mem_text name (tok_names cfg)); [exact H|exact I].
  - match goal with |- context [if ?b then _ else _] => destruct b end; [exact H|exact I].
Qed.

Lemma m_keyword_ok : forall prev s, tok_ok s (m_keyword cfg prev s).
Proof.
  intros prev s. unfold m_keyword. destruct (starts_dunder s); [exact I|].
  destruct s as [|c r]; [exact I|].
  destruct (bnd cfg prev (Some c) && ident_start cfg c); [|exact I].
  apply kw_action_ok. pose proof (span_le (is_w cfg) r). cbn. lia.
Qed.

Lemma m_string_ok : forall q vb s, tok_ok s (m_string cfg q vb s).
Proof.
  intros q vb [|c r]; cbn [m_string]; [exact I|].
  destruct (c =? q)%Z; [|exact I].
  destruct (scan_body q false r) as [n|] eqn:E; [|exact I].
  pose proof (scan_body_lt _ _ _ _ E) as L.
  destruct vb.
  - cbn. lia.
  - destruct (decode_escapes cfg (firstn n r)); [cbn; lia|]. destruct (guard_escape cfg); exact I.
Qed.

Lemma m_ops_ok : forall l s, forallb (fun r => negb (Nat.eqb (length (snd r)) O)) l = true -> tok_ok s (m_ops l s).
Proof.
  induction l as [|[name lit] l IH]; intros s H; cbn [m_ops]; [exact I|].
  cbn [forallb snd] in H. apply andb_prop in H. destruct H as [H1 H2].
  destruct (prefixb lit s) eqn:E; [|apply IH; exact H2].
  cbn. pose proof (prefixb_length _ _ E). destruct (length lit); [discriminate|]. lia.
Qed.

Lemma m_literal_ok : forall s, tok_ok s (m_literal cfg s).
Proof.
  intros [|c r]; cbn; [exact I|]. destruct (memz c (literals cfg)); [cbn; lia|exact I].
Qed.

(* a property of every alternative is a property of the master regex *)
Lemma match_token_elim : forall (P : mres -> Prop) prev s,
  P (m_dollar cfg s) -> P (m_number cfg prev s) -> P (m_func cfg prev s) -> P (m_keyword cfg prev s) ->
  P (m_string cfg 39 false s) -> P (m_string cfg 34 false s) -> P (m_string cfg 96 true s) ->
  P (m_ops (op_strs cfg) s) -> P (m_literal cfg s) -> P (match_token cfg prev s).
Proof.
  intros P prev s H1 H2 H3 H4 H5 H6 H7 H8 H9. unfold match_token.
  destruct (m_dollar cfg s); try exact H1.
  destruct (m_number cfg prev s); try exact H2.
  destruct (m_func cfg prev s); try exact H3.
  destruct (m_keyword cfg prev s); try exact H4.
  destruct (m_string cfg 39 false s); try exact H5.
  destruct (m_string cfg 34 false s); try exact H6.
  destruct (m_string cfg 96 true s); try exact H7.
  destruct (m_ops (op_strs cfg) s); try exact H8.
  exact H9.
Qed.

Lemma match_token_ok : forall prev s, ops_nonempty cfg -> tok_ok s (match_token cfg prev s).
Proof.
  intros prev s H. apply match_token_elim.
  - apply m_dollar_ok. - apply m_number_ok. - apply m_func_ok. - apply m_keyword_ok.
  - apply m_string_ok. - apply m_string_ok. - apply m_string_ok.
  - apply m_ops_ok; exact H. - apply m_literal_ok.
Qed.

(* ---- no foreign exception under a well-formed configuration ---- *)
Lemma assoc_In : forall (A : Type) k (l : list (text * A)) v, assoc k l = Some v -> exists k', In (k', v) l.
Proof.
  induction l as [|[k' v'] l IH]; intros v; cbn; [discriminate|].
  destruct (str_eqb k' k).
  - intros [= <-]. exists k'. left; reflexivity.
  - intro H. destruct (IH _ H) as [k2 I]. exists k2. right; exact I.
Qed.

Definition no_foreign (m : mres) : Prop := m <> MForeign.

Section WF.
Hypothesis WF : cfg_wfb cfg = true.

Lemma wf_parts :
  forallb (fun r => mem_text (snd r) (tok_names cfg)) (op_table cfg) = true /\
  forallb (fun r => mem_text (snd r) (tok_names cfg)) (keywords cfg) = true /\
  mem_text K_KEYWORD (tok_names cfg) = true /\
  guard_escape cfg = true /\ guard_number cfg = true /\ error_yaql cfg = true.
Proof.
  pose proof WF as W. unfold cfg_wfb in W. repeat (apply andb_prop in W; destruct W as [W ?]). repeat split; assumption.
Qed.

Lemma number_action_nf : forall txt len, no_foreign (number_action cfg txt len).
Proof.
  intros txt len. unfold number_action, no_foreign. destruct wf_parts as (_ & _ & _ & _ & G & _). rewrite G.
  destruct (memz 46 txt); [discriminate|]. destruct (_ && _); discriminate.
Qed.

Lemma m_number_nf : forall prev s, no_foreign (m_number cfg prev s).
Proof.
  intros prev s. unfold m_number.
  destruct (negb _); [discriminate|]. destruct (span (is_d cfg) s); [discriminate|].
  match goal with |- no_foreign (match ?w with Some _ => _ | None => _ end) => destruct w end.
  - apply number_action_nf.
  - destruct (bnd cfg _ _); [apply number_action_nf|discriminate].
Qed.

Lemma kw_action_nf : forall w n, no_foreign (kw_action cfg w n).
Proof.
  intros w n. unfold kw_action, no_foreign. destruct wf_parts as (T & K & KK & _).
  destruct (assoc w (op_table cfg)) as [name|] eqn:E.
  - destruct (assoc_In _ _ _ _ E) as [k' I].
    rewrite forallb_forall in T. specialize (T _ I). cbn in T. rewrite T. discriminate.
  - destruct (assoc w (keywords cfg)) as [ty|] eqn:E2.
    + destruct (assoc_In _ _ _ _ E2) as [k' I].
      rewrite forallb_forall in K. specialize (K _ I). cbn in K. rewrite K. discriminate.
    + rewrite KK. discriminate.
Qed.

Lemma m_keyword_nf : forall prev s, no_foreign (m_keyword cfg prev s).
Proof.
  intros prev s. unfold m_keyword. destruct (starts_dunder s); [discriminate|].
  destruct s as [|c r]; [discriminate|]. destruct (_ && _); [apply kw_action_nf|discriminate].
Qed.

Lemma m_string_nf : forall q vb s, no_foreign (m_string cfg q vb s).
Proof.
  intros q vb [|c r]; cbn [m_string]; [discriminate|].
  destruct (c =? q)%Z; [|discriminate]. destruct (scan_body q false r); [|discriminate].
  destruct vb; [discriminate|]. destruct (decode_escapes cfg _); [discriminate|].
  destruct wf_parts as (_ & _ & _ & G & _). rewrite G. discriminate.
Qed.

Lemma m_ops_nf : forall l s, no_foreign (m_ops l s).
Proof.
  induction l as [|[name lit] l IH]; intro s; cbn [m_ops]; [discriminate|].
  destruct (prefixb lit s); [discriminate|apply IH].
Qed.

Lemma match_token_nf : forall prev s, no_foreign (match_token cfg prev s).
Proof.
  intros prev s. apply match_token_elim.
  - destruct s as [|c r]; cbn; [discriminate|]. destruct (c =? 36)%Z; discriminate.
  - apply m_number_nf.
  - destruct s as [|c r]; cbn [m_func]; [discriminate|]. destruct (_ && _); [|discriminate].
    destruct (skipn _ r) as [|d ?]; [discriminate|]. destruct (d =? 40)%Z; discriminate.
  - apply m_keyword_nf.
  - apply m_string_nf. - apply m_string_nf. - apply m_string_nf.
  - apply m_ops_nf.
  - destruct s as [|c r]; cbn; [discriminate|]. destruct (memz c (literals cfg)); discriminate.
Qed.
End WF.

(* ---- the loop ---- *)
Lemma lex_loop_inv : forall fuel pos prev s toks e,
  ops_nonempty cfg -> (length s < fuel)%nat -> lex_loop cfg fuel pos prev s = (toks, e) ->
  e <> EndFuel /\
  (cfg_wfb cfg = true -> e <> EndForeign) /\
  (forall p, e = EndLexErr p -> (pos <= p < pos + length s)%nat) /\
  tiles pos (pos + length s) toks.
Proof.
  induction fuel as [|f IH]; intros pos prev s toks e NE L H; [lia|].
  cbn [lex_loop] in H. destruct s as [|c r].
  - inversion H; subst. split; [discriminate|]. split; [discriminate|]. split; [discriminate|exact I].
  - cbn [length] in L |- *. destruct (memz c (ignore cfg)).
    + apply IH in H; [|exact NE|lia]. destruct H as (A & B & C & D).
      split; [exact A|]. split; [exact B|]. split.
      * intros p Hp. specialize (C p Hp). lia.
      * replace (pos + S (length r))%nat with (S pos + length r)%nat by lia.
        apply tiles_lo with (lo := S pos); [lia|exact D].
    + pose proof (match_token_ok prev (c :: r) NE) as T.
      destruct (match_token cfg prev (c :: r)) as [|k n v| |] eqn:EM.
      * inversion H; subst. split; [destruct (error_yaql cfg); discriminate|]. split.
        -- intro WF. destruct (wf_parts WF) as (_ & _ & _ & _ & _ & G). rewrite G. discriminate.
        -- split; [|exact I]. intros p Hp. destruct (error_yaql cfg); inversion Hp; subst; lia.
      * cbn [tok_ok length] in T.
        destruct (lex_loop cfg f (pos + n) (prev_after n prev (c :: r)) (skipn n (c :: r))) as [l e'] eqn:EL.
        inversion H; subst. pose proof (skipn_length n (c :: r)) as SL. cbn [length] in SL.
        apply IH in EL; [|exact NE|lia]. destruct EL as (A & B & C & D).
        split; [exact A|]. split; [exact B|]. split.
        -- intros p Hp. specialize (C p Hp). lia.
        -- cbn [tiles tk_pos tk_len]. split; [lia|].
           replace (pos + S (length r))%nat with (pos + n + length (skipn n (c :: r)))%nat by lia. exact D.
      * inversion H; subst. split; [discriminate|]. split; [discriminate|]. split; [|exact I].
        intros p Hp. inversion Hp; subst. lia.
      * inversion H; subst. split; [discriminate|]. split.
        -- intros WF _. exact (match_token_nf WF prev (c :: r) EM).
        -- split; [discriminate|exact I].
Qed.

Lemma lex_inv : forall s,
  ops_nonempty cfg ->
  snd (lex cfg s) <> EndFuel /\
  (cfg_wfb cfg = true -> snd (lex cfg s) <> EndForeign) /\
  (forall p, snd (lex cfg s) = EndLexErr p -> (p < length s)%nat) /\
  tiles 0 (length s) (fst (lex cfg s)).
Proof.
  intros s NE. unfold lex. destruct (lex_loop cfg (S (length s)) 0 None s) as [toks e] eqn:E.
  apply lex_loop_inv in E; [|exact NE|lia]. destruct E as (A & B & C & D). cbn [fst snd].
  repeat split; [exact A|exact B| |exact D]. intros p Hp. specialize (C p Hp). lia.
Qed.

(* any larger fuel gives the same result: the bound is not an artefact *)
Lemma lex_loop_fuel_mono : forall fuel pos prev s,
  ops_nonempty cfg -> (length s < fuel)%nat ->
  forall fuel', (fuel <= fuel')%nat -> lex_loop cfg fuel' pos prev s = lex_loop cfg fuel pos prev s.
Proof.
  induction fuel as [|f IH]; intros pos prev s NE L fuel' LE; [lia|].
  destruct fuel' as [|f']; [lia|]. cbn [lex_loop]. destruct s as [|c r]; [reflexivity|].
  cbn [length] in L. destruct (memz c (ignore cfg)).
  - apply IH; [exact NE|lia|lia].
  - pose proof (match_token_ok prev (c :: r) NE) as T.
    destruct (match_token cfg prev (c :: r)) as [|k n v| |]; try reflexivity.
    cbn [tok_ok length] in T. pose proof (skipn_length n (c :: r)) as SL. cbn [length] in SL.
    rewrite (IH (pos + n)%nat (prev_after n prev (c :: r)) (skipn n (c :: r)) NE); [reflexivity|lia|lia].
Qed.

End Total.

(* ---- parsing outcome over an abstract grammar check ---- *)
Section Parse.
Variable cfg : lexcfg.
Variable gram : list token -> option (option nat).
Hypothesis gram_reports_a_token : forall toks i, gram toks = Some (Some i) -> (i < length toks)%nat.

Lemma parse_outcome_total : forall s, cfg_wfb cfg = true ->
  match parse_outcome cfg gram s with
  | PForeign | PFuel => False
  | PLex p => (p < length s)%nat
  | PGram (Some p) => (p < length s)%nat /\ exists t, In t (fst (lex cfg s)) /\ tk_pos t = p
  | PGram None | POk => True
  end.
Proof.
  intros s WF. destruct (lex_inv cfg s (wf_ops_nonempty _ WF)) as (A & B & C & D). specialize (B WF).
  unfold parse_outcome. destruct (lex cfg s) as [toks e]. cbn [fst snd] in *.
  assert (G : forall i, gram toks = Some (Some i) ->
              (tok_pos_at toks i < length s)%nat /\ exists t, In t toks /\ tk_pos t = tok_pos_at toks i).
  { intros i Hi. apply gram_reports_a_token in Hi. unfold tok_pos_at.
    destruct (nth_error toks i) as [t|] eqn:E; [|apply nth_error_None in E; lia].
    apply nth_error_In in E. destruct (tiles_In _ _ _ _ D E) as (_ & L1 & L2).
    split; [lia|]. exists t. split; [exact E|reflexivity]. }
  destruct e as [|p| |]; try contradiction.
  - destruct (gram toks) as [[i|]|]; [apply G; reflexivity|exact I|exact I].
  - destruct (gram toks) as [[i|]|]; [apply G; reflexivity| |]; apply C; reflexivity.
Qed.
End Parse.
