(* Argument binding depends only on WHICH argument each parameter is given - not on how the call
   spells it (positionally, by keyword, in an empty slot, omitted). *)
From Coq Require Import List ZArith Bool Arith Lia.
From YV Require Import Common.Corr Model.Resolution.
Import ListNotations.

(* ---- dictionaries ----------------------------------------------------------------- *)
Lemma kw_has_get {A} k (l : list (Z * A)) : kw_has k l = match kw_get k l with Some _ => true | None => false end.
Proof. reflexivity. Qed.

Lemma kw_get_del_other {A} n m (l : list (Z * A)) : n <> m -> kw_get n (kw_del m l) = kw_get n l.
Proof.
  intro H. induction l as [|[k v] r IH]; [reflexivity|]. cbn.
  destruct (Z.eqb m k) eqn:E1.
  - apply Z.eqb_eq in E1. subst. rewrite IH. destruct (Z.eqb n k) eqn:E2; [|reflexivity].
    apply Z.eqb_eq in E2. contradiction.
  - cbn. rewrite IH. reflexivity.
Qed.

Lemma kw_del_absent {A} n (l : list (Z * A)) : kw_get n l = None -> kw_del n l = l.
Proof.
  induction l as [|[k v] r IH]; [reflexivity|]. cbn.
  destruct (Z.eqb n k); [discriminate|]. intro H. rewrite IH by exact H. reflexivity.
Qed.

Fixpoint dels {A} (ns : list Z) (l : list (Z * A)) : list (Z * A) :=
  match ns with [] => l | n :: r => dels r (kw_del n l) end.

Lemma dels_snoc {A} ns n (l : list (Z * A)) : dels (ns ++ [n]) l = kw_del n (dels ns l).
Proof. revert l; induction ns as [|m r IH]; intro l; cbn; [reflexivity | apply IH]. Qed.

Lemma dels_app {A} ns ms (l : list (Z * A)) : dels (ns ++ ms) l = dels ms (dels ns l).
Proof. revert l; induction ns as [|m r IH]; intro l; cbn; [reflexivity | apply IH]. Qed.

Lemma kw_get_dels {A} n ns (l : list (Z * A)) : ~ In n ns -> kw_get n (dels ns l) = kw_get n l.
Proof.
  revert l; induction ns as [|m r IH]; intros l H; cbn; [reflexivity|].
  rewrite IH by (intro; apply H; right; assumption).
  apply kw_get_del_other. intro; apply H; left; congruence.
Qed.

Lemma skipn_nil_len {A} n (l : list A) : skipn n l = [] <-> length l <= n.
Proof.
  revert l; induction n as [|n IH]; intros [|x l]; cbn; split; intro H; try reflexivity; try lia; try discriminate.
  - apply IH in H. lia.
  - apply IH. lia.
Qed.

Section Sub.
Variable sub : tag -> tag -> bool.
Notation checked := (checked sub).
Notation del_step := (del_step sub).
Notation get_delegate := (get_delegate sub).

(* parameters that are bound from the call (not hidden, not * / ** ) *)
Definition binds (p : param) : bool :=
  negb (is_hidden (pkind p)) &&
  match ppos p with Some _ => negb (is_sargs p) | None => negb (is_skwargs p) end.
Definition bound_names (ps : list param) : list Z := map arg_name (filter binds ps).

(* which argument a call gives to parameter p:  None = given twice (error),
   Some None = not given, Some (Some a) = given a *)
Definition given (ps : list param) (args : list arg) (kw : kwargs) (p : param) : option (option arg) :=
  match ppos p with
  | Some pos =>
      let r := pos - fix_at ps pos in
      if arg_given args r
      then (if kw_has (arg_name p) kw then None else Some (Some (nth r args ANoValue)))
      else Some (kw_get (arg_name p) kw)
  | None => Some (kw_get (arg_name p) kw)
  end.

(* the value delivered for p, as a function of what it is given *)
Definition deliver (p : param) (g : option (option arg)) : option bval :=
  match g with
  | None => None
  | Some (Some a) => checked p a
  | Some None => match pdefault p with Some d => checked p (ARaw d) | None => None end
  end.

Definition put (st : dstate) (p : param) (b : bval) : dstate :=
  match ppos p with
  | Some pos => {| ds_slots := set_nth pos (Some b) (ds_slots st); ds_kwd := ds_kwd st;
                   ds_left := kw_del (arg_name p) (ds_left st); ds_vis := ds_vis st |}
  | None => {| ds_slots := ds_slots st; ds_kwd := kw_set (pname p) b (ds_kwd st);
               ds_left := kw_del (arg_name p) (ds_left st); ds_vis := ds_vis st |}
  end.

Lemma del_step_norm ps args kw st p :
  binds p = true ->
  kw_get (arg_name p) (ds_left st) = kw_get (arg_name p) kw ->
  del_step ps args st p =
  match deliver p (given ps args kw p) with Some b => Some (put st p b) | None => None end.
Proof.
  intros Hb Hk. unfold binds in Hb. apply andb_true_iff in Hb as [Hh Hs]. apply negb_true_iff in Hh.
  unfold Resolution.del_step, given, put, deliver. rewrite !kw_has_get, Hk.
  destruct (ppos p) as [pos|] eqn:Ep.
  - apply negb_true_iff in Hs. rewrite Hs, Hh.
    destruct (arg_given args (pos - fix_at ps pos)) eqn:Eg.
    + destruct (kw_get (arg_name p) kw) as [a|] eqn:Ea; [reflexivity|].
      destruct (checked p (nth (pos - fix_at ps pos) args ANoValue)); [|reflexivity].
      rewrite kw_del_absent by (first [exact Hk | rewrite Hk; exact Ea]). destruct st; reflexivity.
    + destruct (kw_get (arg_name p) kw) as [a|] eqn:Ea.
      * destruct (checked p a); reflexivity.
      * destruct (pdefault p) as [d|]; [|reflexivity].
        destruct (checked p (ARaw d)); [|reflexivity].
        rewrite kw_del_absent by (first [exact Hk | rewrite Hk; exact Ea]). destruct st; reflexivity.
  - apply negb_true_iff in Hs. rewrite Hs, Hh.
    destruct (kw_get (arg_name p) kw) as [a|] eqn:Ea.
    + destruct (checked p a); reflexivity.
    + destruct (pdefault p) as [d|]; [|reflexivity].
      destruct (checked p (ARaw d)); [|reflexivity].
      rewrite kw_del_absent by (first [exact Hk | rewrite Hk; exact Ea]). destruct st; reflexivity.
Qed.

(* hidden, * and ** parameters: the step looks neither at the arguments nor at the keywords *)
Definition hid_step (st : dstate) (p : param) : option dstate :=
  match ppos p with
  | Some pos =>
      if is_sargs p then Some st
      else match checked p (ARaw VNull) with
           | Some b => Some {| ds_slots := set_nth pos (Some b) (ds_slots st); ds_kwd := ds_kwd st;
                               ds_left := ds_left st; ds_vis := ds_vis st - 1 |}
           | None => None
           end
  | None =>
      if is_skwargs p then Some st
      else match checked p (ARaw VNull) with
           | Some b => Some {| ds_slots := ds_slots st; ds_kwd := kw_set (pname p) b (ds_kwd st);
                               ds_left := ds_left st; ds_vis := ds_vis st |}
           | None => None
           end
  end.

Lemma del_step_hid ps args st p : binds p = false -> del_step ps args st p = hid_step st p.
Proof.
  unfold binds, Resolution.del_step, hid_step. intro Hb.
  destruct (ppos p) as [pos|]; destruct (is_hidden (pkind p)) eqn:Eh; cbn in Hb.
  - destruct (is_sargs p); reflexivity.
  - apply negb_false_iff in Hb. rewrite Hb. reflexivity.
  - destruct (is_skwargs p); reflexivity.
  - apply negb_false_iff in Hb. rewrite Hb. reflexivity.
Qed.

(* two states that differ only in the remaining keywords *)
Definition same_but_left (s1 s2 : dstate) : Prop :=
  ds_slots s1 = ds_slots s2 /\ ds_kwd s1 = ds_kwd s2 /\ ds_vis s1 = ds_vis s2.

Lemma fold_sim ps args1 kw1 args2 kw2 rest :
  forall done st1 st2,
  NoDup (done ++ bound_names rest) ->
  (forall p, In p rest -> binds p = true -> deliver p (given ps args1 kw1 p) = deliver p (given ps args2 kw2 p)) ->
  same_but_left st1 st2 -> ds_left st1 = dels done kw1 -> ds_left st2 = dels done kw2 ->
  match fold_opt (del_step ps args1) rest st1, fold_opt (del_step ps args2) rest st2 with
  | Some s1, Some s2 => same_but_left s1 s2 /\ ds_left s1 = dels (done ++ bound_names rest) kw1 /\
                        ds_left s2 = dels (done ++ bound_names rest) kw2
  | None, None => True
  | _, _ => False
  end.
Proof.
  induction rest as [|p rest IH]; intros done st1 st2 N G S L1 L2.
  - cbn. unfold bound_names. cbn. rewrite app_nil_r. auto.
  - cbn [fold_opt]. destruct (binds p) eqn:Eb.
    + unfold bound_names in N. cbn [filter] in N. rewrite Eb in N. cbn [map] in N.
      assert (Hn : ~ In (arg_name p) done).
      { intro Hi. apply NoDup_remove_2 in N. apply N. apply in_or_app. left. exact Hi. }
      rewrite (del_step_norm ps args1 kw1 st1 p Eb) by (rewrite L1; apply kw_get_dels, Hn).
      rewrite (del_step_norm ps args2 kw2 st2 p Eb) by (rewrite L2; apply kw_get_dels, Hn).
      rewrite <- (G p (or_introl eq_refl) Eb).
      destruct (deliver p (given ps args1 kw1 p)) as [b|]; [|exact I].
      specialize (IH (done ++ [arg_name p]) (put st1 p b) (put st2 p b)).
      assert (E : bound_names (p :: rest) = arg_name p :: bound_names rest).
      { unfold bound_names. cbn [filter]. rewrite Eb. reflexivity. }
      rewrite E. replace (done ++ arg_name p :: bound_names rest) with ((done ++ [arg_name p]) ++ bound_names rest)
        by (rewrite <- app_assoc; reflexivity).
      apply IH.
      * rewrite <- app_assoc. exact N.
      * intros q Hq Hbq. apply G; [right; exact Hq | exact Hbq].
      * destruct S as [S1 [S2 S3]]. unfold same_but_left, put. destruct (ppos p); cbn; rewrite ?S1, ?S2, ?S3; auto.
      * unfold put. destruct (ppos p); cbn [ds_left]; rewrite dels_snoc, L1; reflexivity.
      * unfold put. destruct (ppos p); cbn [ds_left]; rewrite dels_snoc, L2; reflexivity.
    + rewrite !del_step_hid by exact Eb.
      assert (E : bound_names (p :: rest) = bound_names rest).
      { unfold bound_names. cbn [filter]. rewrite Eb. reflexivity. }
      rewrite E. rewrite E in N.
      destruct S as [S1 [S2 S3]].
      assert (G' : forall q, In q rest -> binds q = true -> deliver q (given ps args1 kw1 q) = deliver q (given ps args2 kw2 q))
        by (intros q Hq Hbq; apply G; [right; exact Hq | exact Hbq]).
      unfold hid_step. destruct (ppos p) as [pos|].
      * destruct (is_sargs p).
        -- apply IH; auto. split; auto.
        -- destruct (checked p (ARaw VNull)) as [b|]; [|exact I].
           apply IH; auto. unfold same_but_left; cbn. rewrite S1, S2, S3. auto.
      * destruct (is_skwargs p).
        -- apply IH; auto. split; auto.
        -- destruct (checked p (ARaw VNull)) as [b|]; [|exact I].
           apply IH; auto. unfold same_but_left; cbn. rewrite S1, S2, S3. auto.
Qed.

(* the number of visible positional parameters, as get_delegate computes it *)
Definition hidpos (p : param) : bool := is_positional p && is_hidden (pkind p).
Definition nvis (ps : list param) : nat := length (filter is_positional ps) - length (filter hidpos ps).

Lemma del_step_vis ps args st p st' :
  del_step ps args st p = Some st' -> ds_vis st' = ds_vis st - (if hidpos p then 1 else 0).
Proof.
  unfold Resolution.del_step, hidpos, is_positional. intro H.
  destruct (ppos p) as [pos|]; cbn [andb].
  - destruct (is_sargs p); cbn [negb andb]; [injection H as <-; lia|].
    destruct (is_hidden (pkind p)).
    + destruct (checked p (ARaw VNull)); [|discriminate]. injection H as <-. reflexivity.
    + repeat match type of H with
             | (if ?c then _ else _) = Some _ => destruct c
             | match ?c with _ => _ end = Some _ => destruct c
             end; try discriminate; injection H as <-; cbn [ds_vis]; lia.
  - repeat match type of H with
           | (if ?c then _ else _) = Some _ => destruct c
           | match ?c with _ => _ end = Some _ => destruct c
           end; try discriminate; injection H as <-; cbn [ds_vis]; lia.
Qed.

Lemma fold_vis ps args rest : forall st st',
  fold_opt (del_step ps args) rest st = Some st' -> ds_vis st' = ds_vis st - length (filter hidpos rest).
Proof.
  induction rest as [|p rest IH]; intros st st' H; cbn in *.
  - injection H as <-. lia.
  - destruct (del_step ps args st p) as [s1|] eqn:E; [|discriminate].
    rewrite (IH _ _ H), (del_step_vis _ _ _ _ _ E). destruct (hidpos p); cbn [length]; lia.
Qed.

(* what get_delegate does with the surplus positional arguments and the surplus keywords *)
Definition extras_bind (ps : list param) (args : list arg) : option (list bval) :=
  if Nat.ltb (nvis ps) (length args) then
    match star_param ps with Some q => bind_all sub q (skipn (nvis ps) args) | None => None end
  else Some [].
Definition left_bind (ps : list param) (left : kwargs) (acc : list (Z * bval)) : option (list (Z * bval)) :=
  match left with
  | [] => Some acc
  | _ => match kwargs_param ps with Some q => bind_kw sub q left acc | None => None end
  end.

(* general form: the binding is determined by what is DELIVERED to every parameter, by the delivered
   surplus positional arguments and the delivered surplus keywords *)
Theorem get_delegate_deliver ps args1 kw1 args2 kw2 :
  NoDup (bound_names ps) ->
  (forall p, In p ps -> binds p = true -> deliver p (given ps args1 kw1 p) = deliver p (given ps args2 kw2 p)) ->
  extras_bind ps args1 = extras_bind ps args2 ->
  (forall acc, left_bind ps (dels (bound_names ps) kw1) acc = left_bind ps (dels (bound_names ps) kw2) acc) ->
  get_delegate ps args1 kw1 = get_delegate ps args2 kw2.
Proof.
  intros N G X L. unfold Resolution.get_delegate.
  set (npos := length (filter is_positional ps)).
  pose proof (fold_sim ps args1 kw1 args2 kw2 ps []
                {| ds_slots := repeat None npos; ds_kwd := []; ds_left := kw1; ds_vis := npos |}
                {| ds_slots := repeat None npos; ds_kwd := []; ds_left := kw2; ds_vis := npos |}
                N G (conj eq_refl (conj eq_refl eq_refl)) eq_refl eq_refl) as H.
  destruct (fold_opt (del_step ps args1) ps _) as [s1|] eqn:E1;
    destruct (fold_opt (del_step ps args2) ps _) as [s2|] eqn:E2; try contradiction; [|reflexivity].
  destruct H as [[S1 [S2 S3]] [L1 L2]]. cbn [app] in L1, L2.
  pose proof (fold_vis _ _ _ _ _ E1) as V1. cbn [ds_vis] in V1. fold npos in V1.
  pose proof (fold_vis _ _ _ _ _ E2) as V2. cbn [ds_vis] in V2. fold npos in V2.
  change (ds_vis s1 = nvis ps) in V1. change (ds_vis s2 = nvis ps) in V2.
  unfold extras_bind in X. rewrite V1, V2, X.
  specialize (L (ds_kwd s1)). unfold left_bind in L. rewrite <- L1, <- L2 in L.
  rewrite <- S1, <- S2. rewrite L. reflexivity.
Qed.

(* THE binding theorem: calls that give every parameter the same argument (however spelled),
   the same surplus positional arguments and the same surplus keywords bind identically *)
Theorem get_delegate_given ps args1 kw1 args2 kw2 :
  NoDup (bound_names ps) ->
  (forall p, In p ps -> binds p = true -> given ps args1 kw1 p = given ps args2 kw2 p) ->
  skipn (nvis ps) args1 = skipn (nvis ps) args2 ->
  dels (bound_names ps) kw1 = dels (bound_names ps) kw2 ->
  get_delegate ps args1 kw1 = get_delegate ps args2 kw2.
Proof.
  intros N G X L. apply get_delegate_deliver; [exact N| | |].
  - intros p Hin Hb. rewrite (G p Hin Hb). reflexivity.
  - unfold extras_bind. rewrite <- X.
    assert (B : Nat.ltb (nvis ps) (length args1) = Nat.ltb (nvis ps) (length args2)).
    { destruct (Nat.ltb_spec (nvis ps) (length args1)) as [A1|A1]; destruct (Nat.ltb_spec (nvis ps) (length args2)) as [A2|A2]; try reflexivity.
      - apply skipn_nil_len in A2. rewrite <- X in A2. apply skipn_nil_len in A2. lia.
      - apply skipn_nil_len in A1. rewrite X in A1. apply skipn_nil_len in A1. lia. }
    rewrite B. reflexivity.
  - intro acc. rewrite L. reflexivity.
Qed.

(* ---- constructed spellings ---------------------------------------------------------- *)
(* the argument slot a visible positional parameter reads *)
Definition rank (ps : list param) (p : param) : nat :=
  match ppos p with Some pos => pos - fix_at ps pos | None => 0 end.
Definition is_vispos (p : param) : bool := binds p && is_positional p.
Definition slot_param (ps : list param) (i : nat) : option param :=
  find (fun p => is_vispos p && Nat.eqb (rank ps p) i) ps.
Definition covered (ps : list param) (k : nat) (p : param) : bool := is_vispos p && Nat.ltb (rank ps p) k.

(* an assignment gives every parameter name an argument or nothing (= omitted, default used) *)
Definition assignment := Z -> option arg.

(* the spelling with the first k slots positional (omitted ones as empty slots) and every other
   given parameter by keyword *)
Definition spell_args (ps : list param) (s : assignment) (k : nat) : list arg :=
  map (fun i => match slot_param ps i with
                | Some p => match s (arg_name p) with Some a => a | None => ANoValue end
                | None => ANoValue end) (seq 0 k).
Definition emit (ps : list param) (s : assignment) (k : nat) (p : param) : option arg :=
  if covered ps k p then None else s (arg_name p).
Definition spell_kw (ps : list param) (s : assignment) (k : nat) : kwargs :=
  flat_map (fun p => match emit ps s k p with Some a => [(arg_name p, a)] | None => [] end) (filter binds ps).

(* no two visible positional parameters read the same slot *)
Definition rank_inj (ps : list param) : Prop :=
  forall p q, In p ps -> In q ps -> is_vispos p = true -> is_vispos q = true ->
              rank ps p = rank ps q -> arg_name p = arg_name q.

Lemma kw_get_emit (f : param -> option arg) l p :
  NoDup (map arg_name l) -> In p l ->
  kw_get (arg_name p) (flat_map (fun q => match f q with Some a => [(arg_name q, a)] | None => [] end) l) = f p.
Proof.
  induction l as [|q r IH]; cbn; [contradiction|]. intros N [H|H].
  - subst q. inversion N as [|? ? Hn N']; subst.
    assert (Hr : kw_get (arg_name p) (flat_map (fun q => match f q with Some a => [(arg_name q, a)] | None => [] end) r) = None).
    { clear IH N N'. induction r as [|x r IH]; [reflexivity|]. cbn.
      assert (Hx : arg_name p <> arg_name x) by (intro E; apply Hn; left; congruence).
      assert (Hn' : ~ In (arg_name p) (map arg_name r)) by (intro E; apply Hn; right; exact E).
      destruct (f x); cbn.
      - destruct (Z.eqb (arg_name p) (arg_name x)) eqn:E; [apply Z.eqb_eq in E; contradiction | apply IH, Hn'].
      - apply IH, Hn'. }
    destruct (f p); cbn; [rewrite Z.eqb_refl; reflexivity | exact Hr].
  - inversion N as [|? ? Hn N']; subst.
    assert (Hq : arg_name p <> arg_name q).
    { intro E. apply Hn. rewrite <- E. apply in_map, H. }
    destruct (f q); cbn.
    + destruct (Z.eqb (arg_name p) (arg_name q)) eqn:E; [apply Z.eqb_eq in E; contradiction | apply IH; assumption].
    + apply IH; assumption.
Qed.

Lemma kw_del_In {A} n (l : list (Z * A)) k v : In (k, v) (kw_del n l) -> In (k, v) l /\ k <> n.
Proof.
  induction l as [|[k0 v0] r IH]; cbn; [contradiction|].
  destruct (Z.eqb n k0) eqn:E.
  - intro H. destruct (IH H). split; [right|]; assumption.
  - intros [H|H].
    + injection H as -> ->. split; [left; reflexivity|]. intro; subst. rewrite Z.eqb_refl in E. discriminate.
    + destruct (IH H). split; [right|]; assumption.
Qed.

Lemma dels_In {A} ns (l : list (Z * A)) k v : In (k, v) (dels ns l) -> In (k, v) l /\ ~ In k ns.
Proof.
  revert l; induction ns as [|n r IH]; intros l H; cbn in *; [tauto|].
  apply IH in H as [H1 H2]. apply kw_del_In in H1 as [H1 H3]. split; [exact H1|].
  intros [E|E]; [congruence | contradiction].
Qed.

Lemma dels_all {A} ns (l : list (Z * A)) : (forall kv, In kv l -> In (fst kv) ns) -> dels ns l = [].
Proof.
  intro H. destruct (dels ns l) as [|[k v] r] eqn:E; [reflexivity|].
  assert (Hin : In (k, v) (dels ns l)) by (rewrite E; left; reflexivity).
  apply dels_In in Hin as [H1 H2]. exfalso. apply H2. exact (H _ H1).
Qed.

Lemma find_exists {A} (f : A -> bool) l x : In x l -> f x = true -> exists y, find f l = Some y.
Proof.
  induction l as [|a r IH]; cbn; [contradiction|]. intros [H|H] Hf.
  - subst. rewrite Hf. eauto.
  - destruct (f a); eauto.
Qed.

Lemma spell_args_nth ps s k r : r < k ->
  nth r (spell_args ps s k) ANoValue =
  match slot_param ps r with
  | Some p => match s (arg_name p) with Some a => a | None => ANoValue end
  | None => ANoValue end.
Proof.
  intro H. unfold spell_args.
  set (g := fun i => match slot_param ps i with
                     | Some p => match s (arg_name p) with Some a => a | None => ANoValue end
                     | None => ANoValue end).
  rewrite (nth_indep (map g (seq 0 k)) ANoValue (g 0)) by (rewrite map_length, seq_length; exact H).
  rewrite map_nth. rewrite seq_nth by exact H. reflexivity.
Qed.

Lemma spell_args_length ps s k : length (spell_args ps s k) = k.
Proof. unfold spell_args. rewrite map_length, seq_length. reflexivity. Qed.

Lemma arg_given_nth args r :
  arg_given args r = match nth_error args r with Some ANoValue => false | Some _ => true | None => false end.
Proof. reflexivity. Qed.

(* what a constructed spelling gives to each parameter is the assignment itself *)
Lemma given_spell ps s k p :
  NoDup (bound_names ps) -> rank_inj ps -> (forall n, s n <> Some ANoValue) ->
  In p ps -> binds p = true ->
  given ps (spell_args ps s k) (spell_kw ps s k) p = Some (s (arg_name p)).
Proof.
  intros N R Hs Hin Hb.
  assert (Hf : In p (filter binds ps)) by (apply filter_In; auto).
  assert (Kw : kw_get (arg_name p) (spell_kw ps s k) = emit ps s k p).
  { unfold spell_kw. apply kw_get_emit; assumption. }
  unfold given. destruct (ppos p) as [pos|] eqn:Ep.
  - assert (Hv : is_vispos p = true).
    { unfold is_vispos, is_positional. rewrite Hb, Ep. unfold binds in Hb. rewrite Ep in Hb.
      apply andb_true_iff in Hb as [_ Hb]. rewrite Hb. reflexivity. }
    assert (Hr : rank ps p = pos - fix_at ps pos) by (unfold rank; rewrite Ep; reflexivity).
    rewrite <- Hr. rewrite arg_given_nth.
    destruct (Nat.ltb (rank ps p) k) eqn:Ek.
    + apply Nat.ltb_lt in Ek.
      rewrite (nth_error_nth' _ ANoValue) by (rewrite spell_args_length; exact Ek).
      rewrite spell_args_nth by exact Ek.
      destruct (find_exists (fun q => is_vispos q && Nat.eqb (rank ps q) (rank ps p)) ps p Hin) as [q Hq].
      { rewrite Hv, Nat.eqb_refl. reflexivity. }
      unfold slot_param. rewrite Hq. apply find_some in Hq as [Hq1 Hq2].
      apply andb_true_iff in Hq2 as [Hq2 Hq3]. apply Nat.eqb_eq in Hq3.
      rewrite (R q p Hq1 Hin Hq2 Hv Hq3).
      assert (Em : emit ps s k p = None).
      { unfold emit, covered. rewrite Hv. apply Nat.ltb_lt in Ek. rewrite Ek. reflexivity. }
      destruct (s (arg_name p)) as [a|] eqn:Es.
      * rewrite kw_has_get, Kw, Em. destruct a; try reflexivity. exfalso. exact (Hs _ Es).
      * rewrite Kw, Em. reflexivity.
    + apply Nat.ltb_ge in Ek.
      assert (En : nth_error (spell_args ps s k) (rank ps p) = None)
        by (apply nth_error_None; rewrite spell_args_length; exact Ek).
      rewrite En. rewrite Kw. unfold emit, covered. rewrite Hv.
      apply Nat.ltb_ge in Ek. rewrite Ek. reflexivity.
  - rewrite Kw. unfold emit, covered, is_vispos, is_positional. rewrite Ep, andb_false_r. reflexivity.
Qed.

(* THE spelling theorem: for a signature whose bound names are distinct and whose visible positional
   parameters read distinct slots, every split point k of the same assignment binds identically *)
Theorem spellings_bind_equal ps s k1 k2 :
  NoDup (bound_names ps) -> rank_inj ps -> (forall n, s n <> Some ANoValue) ->
  k1 <= nvis ps -> k2 <= nvis ps ->
  get_delegate ps (spell_args ps s k1) (spell_kw ps s k1) = get_delegate ps (spell_args ps s k2) (spell_kw ps s k2).
Proof.
  intros N R Hs K1 K2. apply get_delegate_given; [exact N| | |].
  - intros p Hin Hb. rewrite !given_spell by assumption. reflexivity.
  - assert (E : forall k, k <= nvis ps -> skipn (nvis ps) (spell_args ps s k) = []).
    { intros k Hk. apply skipn_nil_len. rewrite spell_args_length. exact Hk. }
    rewrite !E by assumption. reflexivity.
  - assert (E : forall k, dels (bound_names ps) (spell_kw ps s k) = []).
    { intro k. apply dels_all. intros [n a] H. unfold spell_kw in H. apply in_flat_map in H as [q [Hq H]].
      destruct (emit ps s k q); [|contradiction]. destruct H as [H|[]]. injection H as <- <-.
      cbn [fst]. unfold bound_names. apply in_map, Hq. }
    rewrite !E. reflexivity.
Qed.

(* ---- call(name, args, kwargs): plain values instead of constant expressions ------------ *)
Definition to_raw (a : arg) : arg := match a with AConst v => ARaw v | _ => a end.
Definition raw_kw (kw : kwargs) : kwargs := map (fun kv => (fst kv, to_raw (snd kv))) kw.
Definition eager_kind (p : param) : bool := match pkind p with KTyped _ _ | KAnyOf _ _ | KHidden _ => true | _ => false end.

Lemma checked_to_raw p a : eager_kind p = true -> checked p (to_raw a) = checked p a.
Proof. unfold eager_kind, Resolution.checked. destruct (pkind p); try discriminate; intros _; destruct a; reflexivity. Qed.

Lemma arg_given_raw args r : arg_given (map to_raw args) r = arg_given args r.
Proof.
  unfold arg_given. rewrite nth_error_map. destruct (nth_error args r) as [a|]; [|reflexivity]. destruct a; reflexivity.
Qed.

Lemma kw_get_raw k kw : kw_get k (raw_kw kw) = option_map to_raw (kw_get k kw).
Proof.
  unfold raw_kw. induction kw as [|[k0 a] r IH]; [reflexivity|]. cbn [map fst snd kw_get].
  destruct (Z.eqb k k0); [reflexivity | exact IH].
Qed.

Lemma kw_del_raw k kw : kw_del k (raw_kw kw) = raw_kw (kw_del k kw).
Proof.
  unfold raw_kw. induction kw as [|[k0 a] r IH]; [reflexivity|]. cbn [map fst snd kw_del].
  destruct (Z.eqb k k0); [exact IH|]. cbn [map fst snd]. rewrite IH. reflexivity.
Qed.

Lemma dels_raw ns kw : dels ns (raw_kw kw) = raw_kw (dels ns kw).
Proof. revert kw; induction ns as [|n r IH]; intro kw; cbn; [reflexivity|]. rewrite kw_del_raw. apply IH. Qed.

Lemma given_raw ps args kw p :
  given ps (map to_raw args) (raw_kw kw) p = option_map (option_map to_raw) (given ps args kw p).
Proof.
  unfold given. destruct (ppos p) as [pos|].
  - rewrite arg_given_raw, kw_has_get, kw_get_raw. destruct (arg_given args (pos - fix_at ps pos)).
    + rewrite kw_has_get. destruct (kw_get (arg_name p) kw); cbn; [reflexivity|].
      change ANoValue with (to_raw ANoValue) at 1. rewrite map_nth. reflexivity.
    + reflexivity.
  - rewrite kw_get_raw. reflexivity.
Qed.

Lemma deliver_raw p g : eager_kind p = true -> deliver p (option_map (option_map to_raw) g) = deliver p g.
Proof. intro H. destruct g as [[a|]|]; cbn; [apply checked_to_raw, H | reflexivity | reflexivity]. Qed.

Lemma bind_all_raw q l : eager_kind q = true -> bind_all sub q (map to_raw l) = bind_all sub q l.
Proof. intro H. induction l as [|a r IH]; [reflexivity|]. cbn. rewrite checked_to_raw, IH by exact H. reflexivity. Qed.

Lemma bind_kw_raw q l : eager_kind q = true -> forall acc, bind_kw sub q (raw_kw l) acc = bind_kw sub q l acc.
Proof.
  intro H. induction l as [|[k a] r IH]; intro acc; [reflexivity|]. cbn. rewrite checked_to_raw by exact H.
  destruct (checked q a); [apply IH | reflexivity].
Qed.

(* handing plain values and python keywords (what call(name, args, kwargs) does) binds exactly like
   handing the constant expressions of a direct call, for every definition whose parameters are
   eagerly evaluated typed (or hidden) ones *)
Theorem call_function_typed ps args kw :
  NoDup (bound_names ps) -> forallb eager_kind ps = true ->
  get_delegate ps (map to_raw args) (raw_kw kw) = get_delegate ps args kw.
Proof.
  intros N T. rewrite forallb_forall in T. apply get_delegate_deliver; [exact N| | |].
  - intros p Hin _. rewrite given_raw. apply deliver_raw, T, Hin.
  - unfold extras_bind. rewrite map_length. destruct (Nat.ltb (nvis ps) (length args)); [|reflexivity].
    destruct (star_param ps) as [q|] eqn:Eq; [|reflexivity].
    rewrite skipn_map. apply bind_all_raw, T. unfold star_param in Eq. apply find_some in Eq. tauto.
  - intro acc. rewrite dels_raw. unfold left_bind.
    destruct (dels (bound_names ps) kw) as [|x r] eqn:E; [reflexivity|].
    change (raw_kw (x :: r)) with ((fst x, to_raw (snd x)) :: raw_kw r).
    destruct (kwargs_param ps) as [q|] eqn:Eq; [|reflexivity].
    change ((fst x, to_raw (snd x)) :: raw_kw r) with (raw_kw (x :: r)).
    apply bind_kw_raw, T. unfold kwargs_param in Eq. apply find_some in Eq. tauto.
Qed.

(* giving the default explicitly (as a plain value or as a constant) to an eagerly evaluated
   typed parameter delivers what omitting it delivers *)
Lemma explicit_default p d t n :
  pdefault p = Some d -> pkind p = KTyped t n ->
  deliver p (Some (Some (ARaw d))) = deliver p (Some None) /\
  deliver p (Some (Some (AConst d))) = deliver p (Some None).
Proof.
  intros Hd Hk. unfold deliver, Resolution.checked. rewrite Hd, Hk. split; reflexivity.
Qed.

(* call(name, args, kwargs) passes plain values and python keywords; a direct call passes constant
   expressions and `name => value` arguments: the translated calls differ only in AConst vs ARaw,
   which typed parameters do not distinguish *)
Lemma checked_const_raw p t n v : pkind p = KTyped t n -> checked p (AConst v) = checked p (ARaw v).
Proof. intro Hk. unfold Resolution.checked. rewrite Hk. reflexivity. Qed.

Lemma split_args_plain (vs : list value) pos kw :
  split_args (map ARaw vs) pos kw = (pos ++ map ARaw vs, kw).
Proof.
  revert pos; induction vs as [|v r IH]; intro pos; cbn; [rewrite app_nil_r; reflexivity|].
  rewrite IH, <- app_assoc. reflexivity.
Qed.

Lemma split_args_consts (vs : list value) pos kw :
  split_args (map AConst vs) pos kw = (pos ++ map AConst vs, kw).
Proof.
  revert pos; induction vs as [|v r IH]; intro pos; cbn; [rewrite app_nil_r; reflexivity|].
  rewrite IH, <- app_assoc. reflexivity.
Qed.

Lemma split_args_maps (kvs : list (Z * value)) pos kw :
  split_args (map (fun kv => AMapC (fst kv) (snd kv)) kvs) pos kw =
  (pos, fold_left (fun acc kv => kw_set (fst kv) (AConst (snd kv)) acc) kvs kw).
Proof. revert kw; induction kvs as [|[k v] r IH]; intro kw; cbn; [reflexivity | apply IH]. Qed.

Lemma split_args_app a b pos kw :
  split_args (a ++ b) pos kw = split_args b (fst (split_args a pos kw)) (snd (split_args a pos kw)).
Proof.
  revert pos kw; induction a as [|x r IH]; intros pos kw; [reflexivity|].
  destruct x; cbn; apply IH.
Qed.

End Sub.
