From Coq Require Import List Arith Lia.
From YV Require Import Model.Interleave.
Import ListNotations.

Section Facts.
  Variables (S P : Type).
  Variable tstep : nat -> S -> P -> P.

  Lemma irun_shared sched : forall w, fst (irun S P tstep w sched) = fst w.
  Proof.
    induction sched as [|j sched IH]; intros w; [reflexivity|].
    change (irun S P tstep w (j :: sched)) with (irun S P tstep (istep S P tstep w j) sched).
    rewrite IH. reflexivity.
  Qed.

  Lemma irun_private sched : forall w i,
    snd (irun S P tstep w sched) i = iiter S P tstep (count_occ Nat.eq_dec sched i) i (fst w) (snd w i).
  Proof.
    induction sched as [|j sched IH]; intros w i; [reflexivity|].
    change (irun S P tstep w (j :: sched)) with (irun S P tstep (istep S P tstep w j) sched).
    rewrite IH. cbn [count_occ istep fst snd]. unfold iupd.
    destruct (Nat.eq_dec j i) as [->|N].
    - rewrite Nat.eqb_refl. reflexivity.
    - assert (E : Nat.eqb i j = false) by (apply Nat.eqb_neq; congruence). rewrite E. reflexivity.
  Qed.
End Facts.
