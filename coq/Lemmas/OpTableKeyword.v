(* The keyword operator row (NAME_VALUE_PAIR, `=>` in the default factory) takes no part in
   precedence: removing it from the operator list leaves every row of the built table -
   levels, token names, aliases - unchanged; only name_value_op differs. *)
From Coq Require Import List ZArith Bool Arith Lia.
From YV Require Import Common.Corr Model.OpTable Model.Pratt.
Import ListNotations.
Local Open Scope Z_scope.

Definition is_nv (e : entry) : bool := match e with Op _ KNameValue _ => true | _ => false end.
Definition drop_nv (ops : oplist) : oplist := filter (fun e => negb (is_nv e)) ops.

Lemma build_loop_drop_nv : forall ops prec gen rs nv B nv0,
  build_loop ops prec gen rs nv = Some B ->
  build_loop (drop_nv ops) prec gen rs nv0 = Some {| rows := rows B; nvop := nv0 |}.
Proof.
  induction ops as [|e r IH]; intros prec gen rs nv B nv0 H.
  - cbn in H. inversion H; subst. reflexivity.
  - destruct e as [|s k al].
    + cbn [drop_nv filter is_nv negb]. cbn [build_loop] in *. apply (IH _ _ _ nv). exact H.
    + destruct k.
      1-4: (cbn [drop_nv filter is_nv negb]; cbn [build_loop] in *;
            destruct (new_levels _ prec (old_row s rs)) as [[up' bp']|]; [|discriminate];
            destruct (name_for s (old_row s rs) gen) as [name gen'];
            apply (IH _ _ _ nv); exact H).
      cbn [drop_nv filter is_nv negb]. cbn [build_loop] in H. destruct nv; [discriminate|].
      apply (IH _ _ _ (Some s)). exact H.
Qed.

Theorem keyword_row_transparent : forall ops B,
  build_table ops = Some B ->
  build_table (drop_nv ops) = Some {| rows := rows B; nvop := None |} /\
  table_of {| rows := rows B; nvop := None |} = table_of B /\
  table_of_delegates {| rows := rows B; nvop := None |} = table_of_delegates B.
Proof.
  intros ops B H. split; [exact (build_loop_drop_nv ops 1 1 [] None B None H)|].
  split; reflexivity.
Qed.
