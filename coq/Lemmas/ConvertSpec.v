(* C10 proofs: results of convert_output are plain data; convert_input yields
   frozen, hashable data; exact success guard; round trip of JSON-like documents. *)
From Coq Require Import List ZArith Bool Lia.
From YV Require Import Common.Corr Model.Convert Lemmas.ConvertBase.
Import ListNotations.

Lemma Forall_forallb {A} (p : A -> bool) l : Forall (fun x => p x = true) l <-> forallb p l = true.
Proof. rewrite forallb_forall, Forall_forall. reflexivity. Qed.

Lemma forallb_andb {A} (p q : A -> bool) l : forallb (fun x => p x && q x) l = forallb p l && forallb q l.
Proof.
  induction l as [|x r IH]; simpl; [reflexivity|]. rewrite IH.
  destruct (p x), (q x), (forallb p r), (forallb q r); reflexivity.
Qed.

Lemma forallb_orb_const {A} (c : bool) (p : A -> bool) l : forallb (fun x => c || p x) l = c || forallb p l.
Proof.
  induction l as [|x r IH]; simpl; [destruct c; reflexivity|]. rewrite IH.
  destruct c, (p x), (forallb p r); reflexivity.
Qed.

Lemma forallb_ext' {A} (p q : A -> bool) l : (forall x, p x = q x) -> forallb p l = forallb q l.
Proof. intro H. induction l as [|x r IH]; simpl; [reflexivity|]. rewrite H, IH. reflexivity. Qed.

(* ================================================================== plain === *)
Section Plain.
  Variable o : opts.
  Let P := fun v => forall r, convert_output o v = Ok r -> plainb o r = true.

  Lemma seq_out_plain b xs : forallb (plainb o) xs = true -> plainb o (seq_out o b xs) = true.
  Proof.
    intro H. unfold seq_out. destruct b; simpl; [|exact H].
    destruct (t2l o) eqn:E; simpl; [exact H | rewrite E; simpl; exact H].
  Qed.

  Lemma mapM_plain {A} (f : A -> res val) l ys :
    Forall (fun x => forall y, f x = Ok y -> plainb o y = true) l -> mapM f l = Ok ys ->
    forallb (plainb o) ys = true.
  Proof.
    intros F E. apply Forall_forallb. apply mapM_Forall2 in E.
    apply (Forall2_Forall_r _ _ _ _ E). exact F.
  Qed.

  Lemma listlike_plain b l r : Forall P l -> co_listlike o b l = Ok r -> plainb o r = true.
  Proof.
    intros F H. unfold co_listlike in H. destruct (mapM (convert_output o) l) as [xs|e] eqn:E; [|discriminate H].
    injection H as <-. apply seq_out_plain. apply (mapM_plain _ _ _ F E).
  Qed.

  Lemma setlike_plain l r : Forall P l -> co_setlike o l = Ok r -> plainb o r = true.
  Proof.
    intros F H. unfold co_setlike in H. destruct (mapM (convert_output o) l) as [xs|e] eqn:E; [|discriminate H].
    pose proof (mapM_plain _ _ _ F E) as Hp.
    destruct (s2l o) eqn:Es.
    - injection H as <-. exact Hp.
    - unfold build_set in H. destruct (forallb hashable xs); [|discriminate H]. injection H as <-.
      simpl. rewrite Es. simpl. apply Forall_forallb. apply set_of_Forall. apply Forall_forallb. exact Hp.
  Qed.

  Lemma pair_plain kv p : P (fst kv) /\ P (snd kv) -> conv_pair o kv = Ok p ->
    plainb o (fst p) = true /\ plainb o (snd p) = true.
  Proof.
    intros [Hk Hv] H. unfold conv_pair in H.
    destruct (convert_output o (fst kv)) as [ck|e] eqn:Ek; [|discriminate H].
    destruct (convert_output o (snd kv)) as [cv|e] eqn:Ev; [|discriminate H].
    injection H as <-. simpl. split; [apply Hk; exact Ek | apply Hv; exact Ev].
  Qed.

  Lemma mapping_plain kvs r : Forall (fun kv => P (fst kv) /\ P (snd kv)) kvs ->
    co_mapping o kvs = Ok r -> plainb o r = true.
  Proof.
    intros F H. unfold co_mapping in H. destruct (mapM (conv_pair o) kvs) as [ps|e] eqn:E; [|discriminate H].
    unfold build_dict in H. destruct (forallb _ ps); [|discriminate H]. injection H as <-.
    simpl. apply Forall_forallb.
    assert (G : Forall (fun p => plainb o (fst p) = true /\ plainb o (snd p) = true) (dict_of ps)).
    { apply (dict_of_Forall (fun v => plainb o v = true) (fun v => plainb o v = true)). apply mapM_Forall2 in E.
      apply (Forall2_Forall_r _ _ _ _ E). apply (Forall_impl _ (fun kv Hkv p Hp => pair_plain kv p Hkv Hp) F). }
    apply (Forall_impl _ (fun p Hp => proj2 (andb_true_iff _ _) Hp) G).
  Qed.

  Lemma plain_all : forall v, P v.
  Proof.
    induction v using val_induction; unfold P; intros r Hr.
    - injection Hr as <-; reflexivity.
    - injection Hr as <-; reflexivity.
    - injection Hr as <-; reflexivity.
    - injection Hr as <-; reflexivity.
    - injection Hr as <-; reflexivity.
    - rewrite co_tuple in Hr. eapply listlike_plain; eassumption.
    - rewrite co_list in Hr. eapply listlike_plain; eassumption.
    - rewrite co_fdict in Hr. eapply mapping_plain; eassumption.
    - rewrite co_dict in Hr. eapply mapping_plain; eassumption.
    - rewrite co_fset in Hr. eapply setlike_plain; eassumption.
    - rewrite co_set in Hr. eapply setlike_plain; eassumption.
    - rewrite co_iter in Hr. eapply listlike_plain; eassumption.
    - destruct k.
      + rewrite co_keys in Hr. destruct (mapM _ kvs) as [xs|e] eqn:E; [|discriminate Hr]. injection Hr as <-.
        simpl. refine (mapM_plain _ _ _ _ E). apply (Forall_impl _ (fun kv Hkv => proj1 Hkv) H).
      + rewrite co_values in Hr. destruct (mapM _ kvs) as [xs|e] eqn:E; [|discriminate Hr]. injection Hr as <-.
        simpl. refine (mapM_plain _ _ _ _ E). apply (Forall_impl _ (fun kv Hkv => proj2 Hkv) H).
      + rewrite co_items in Hr. destruct (mapM _ kvs) as [xs|e] eqn:E; [|discriminate Hr]. injection Hr as <-.
        simpl. refine (mapM_plain _ _ _ _ E). refine (Forall_impl _ _ H).
        intros kv Hkv y Hy. unfold conv_item in Hy.
        destruct (conv_pair o kv) as [p|e] eqn:Ep; [|discriminate Hy]. injection Hy as <-.
        destruct (pair_plain kv p Hkv Ep) as [H1 H2]. apply seq_out_plain. simpl. rewrite H1, H2. reflexivity.
    - rewrite co_ord in Hr. eapply listlike_plain; eassumption.
  Qed.
End Plain.

Theorem convert_output_plain : forall o v r, convert_output o v = Ok r -> plainb o r = true.
Proof. intros o v r. apply plain_all. Qed.

(* what plainb says, spelled out constructor by constructor *)
Lemma plainb_spec o r : plainb o r = true ->
  match r with
  | VNull | VBool _ | VInt _ | VFloat _ | VStr _ => True
  | VDict kvs => forall k v, In (k, v) kvs -> plainb o k = true /\ plainb o v = true
  | VList l => forall x, In x l -> plainb o x = true
  | VTuple l => t2l o = false /\ forall x, In x l -> plainb o x = true
  | VSet l => s2l o = false /\ forall x, In x l -> plainb o x = true
  | VFDict _ | VFSet _ | VIter _ | VView _ _ | VOrd _ => False
  end.
Proof.
  destruct r; simpl; intro H; try exact I; try discriminate H.
  - apply andb_true_iff in H. destruct H as [H1 H2]. split; [apply negb_true_iff; exact H1|].
    apply forallb_forall. exact H2.
  - apply forallb_forall. exact H.
  - intros k v Hin. rewrite forallb_forall in H. specialize (H _ Hin). simpl in H. apply andb_true_iff. exact H.
  - apply andb_true_iff in H. destruct H as [H1 H2]. split; [apply negb_true_iff; exact H1|].
    apply forallb_forall. exact H2.
Qed.

(* ============================================================== input side === *)
Lemma frozen_pairs (f : val -> bool) kvs :
  Forall (fun kv => f (convert_input (fst kv)) = true /\ f (convert_input (snd kv)) = true) kvs ->
  forallb (fun kv => f (fst kv) && f (snd kv))
    (dict_of (map (fun kv => (convert_input (fst kv), convert_input (snd kv))) kvs)) = true.
Proof.
  intro F. apply Forall_forallb.
  assert (G : Forall (fun p => f (fst p) = true /\ f (snd p) = true)
                (dict_of (map (fun kv => (convert_input (fst kv), convert_input (snd kv))) kvs))).
  { apply (dict_of_Forall (fun v => f v = true) (fun v => f v = true)). apply Forall_map. exact F. }
  apply (Forall_impl _ (fun p Hp => proj2 (andb_true_iff _ _) Hp) G).
Qed.

Lemma map_forallb (f : val -> bool) (g : val -> val) l :
  Forall (fun x => f (g x) = true) l -> forallb f (map g l) = true.
Proof. intro F. apply Forall_forallb. apply Forall_map. exact F. Qed.

Lemma mapkv_forallb (f : val -> bool) (g : val * val -> val) kvs :
  Forall (fun kv => f (g kv) = true) kvs -> forallb f (map g kvs) = true.
Proof. intro F. apply Forall_forallb. apply Forall_map. exact F. Qed.

Theorem convert_input_frozen : forall v, frozenb (convert_input v) = true.
Proof.
  induction v using val_induction; try reflexivity; simpl.
  - apply map_forallb; assumption.
  - apply map_forallb; assumption.
  - apply frozen_pairs; assumption.
  - apply frozen_pairs; assumption.
  - apply map_forallb; assumption.
  - apply Forall_forallb. apply set_of_Forall. apply Forall_map. assumption.
  - apply map_forallb; assumption.
  - destruct k; simpl; apply mapkv_forallb; refine (Forall_impl _ _ H); intros kv [H1 H2]; simpl.
    + exact H1.
    + exact H2.
    + rewrite H1, H2. reflexivity.
  - apply map_forallb; assumption.
Qed.

(* FrozenDict(...) / frozenset(...) inside convert_input never meet an unhashable
   key or element: input conversion cannot raise *)
Theorem convert_input_hashable : forall v, hashable (convert_input v) = true.
Proof.
  induction v using val_induction; try reflexivity; simpl.
  - apply map_forallb; assumption.
  - apply map_forallb; assumption.
  - apply frozen_pairs; assumption.
  - apply frozen_pairs; assumption.
  - apply Forall_forallb. apply set_of_Forall. apply Forall_map. assumption.
  - destruct k; reflexivity.
Qed.

(* ========================================================== exact guard === *)
Section Total.
  Variable o : opts.
  Let T := fun v => (guard o v = true <-> exists r, convert_output o v = Ok r) /\
                    (forall r, convert_output o v = Ok r -> hashable r = key_ok o v).

  Lemma mapM_guard {A B} (f : A -> res B) (g : A -> bool) l :
    Forall (fun x => g x = true <-> exists y, f x = Ok y) l ->
    (forallb g l = true <-> exists ys, mapM f l = Ok ys).
  Proof.
    intro F. rewrite mapM_ok_iff. rewrite <- Forall_forallb.
    split; intro H; rewrite Forall_forall in *; intros x Hin; apply (F x Hin); apply H; exact Hin.
  Qed.

  Lemma mapM_keys {A B} (f : A -> res B) (q : B -> bool) (p : A -> bool) l ys :
    Forall (fun x => forall y, f x = Ok y -> q y = p x) l -> mapM f l = Ok ys ->
    forallb q ys = forallb p l.
  Proof.
    intros F E. apply mapM_Forall2 in E. apply forallb_Forall2_eq.
    revert F. induction E as [|x y l ys Hxy _ IH]; intro F; [constructor|].
    inversion F as [|? ? Hx Hr]; subst. constructor; [apply Hx; exact Hxy | apply IH; exact Hr].
  Qed.

  Lemma listlike_total b l : Forall T l ->
    (forallb (guard o) l = true <-> exists r, co_listlike o b l = Ok r) /\
    (forall r, co_listlike o b l = Ok r -> hashable r = b && negb (t2l o) && forallb (key_ok o) l).
  Proof.
    intro F. split.
    - rewrite (mapM_guard (convert_output o) (guard o) l (Forall_impl _ (fun x Hx => proj1 Hx) F)).
      unfold co_listlike. split.
      + intros [ys E]. rewrite E. eexists; reflexivity.
      + intros [r H]. destruct (mapM (convert_output o) l) as [xs|e]; [eexists; reflexivity | discriminate H].
    - intros r H. unfold co_listlike in H.
      destruct (mapM (convert_output o) l) as [xs|e] eqn:E; [|discriminate H]. injection H as <-.
      pose proof (mapM_keys _ hashable (key_ok o) l xs (Forall_impl _ (fun x Hx => proj2 Hx) F) E) as K.
      unfold seq_out. destruct (b && negb (t2l o)); simpl; [exact K | reflexivity].
  Qed.

  Lemma setlike_total l : Forall T l ->
    (forallb (fun x => guard o x && (s2l o || key_ok o x)) l = true <-> exists r, co_setlike o l = Ok r) /\
    (forall r, co_setlike o l = Ok r -> hashable r = false).
  Proof.
    intro F. split.
    - rewrite forallb_andb, forallb_orb_const, andb_true_iff.
      rewrite (mapM_guard (convert_output o) (guard o) l (Forall_impl _ (fun x Hx => proj1 Hx) F)).
      unfold co_setlike. split.
      + intros [[ys E] K]. rewrite E.
        pose proof (mapM_keys _ hashable (key_ok o) l ys (Forall_impl _ (fun x Hx => proj2 Hx) F) E) as Hk.
        destruct (s2l o); [eexists; reflexivity|]. simpl in K. unfold build_set. rewrite Hk, K. eexists; reflexivity.
      + intros [r H]. destruct (mapM (convert_output o) l) as [xs|e] eqn:E; [|discriminate H].
        split; [eexists; reflexivity|].
        pose proof (mapM_keys _ hashable (key_ok o) l xs (Forall_impl _ (fun x Hx => proj2 Hx) F) E) as Hk.
        destruct (s2l o); [reflexivity|]. simpl. unfold build_set in H. rewrite <- Hk.
        destruct (forallb hashable xs); [reflexivity | discriminate H].
    - intros r H. unfold co_setlike in H. destruct (mapM (convert_output o) l) as [xs|e]; [|discriminate H].
      destruct (s2l o); [injection H as <-; reflexivity|].
      unfold build_set in H. destruct (forallb hashable xs); [injection H as <-; reflexivity | discriminate H].
  Qed.

  Lemma pair_total kv : T (fst kv) /\ T (snd kv) ->
    (guard o (fst kv) && guard o (snd kv) = true <-> exists p, conv_pair o kv = Ok p) /\
    (forall p, conv_pair o kv = Ok p -> hashable (fst p) = key_ok o (fst kv)).
  Proof.
    intros [[Gk Hk] [Gv _]]. unfold conv_pair. split.
    - rewrite andb_true_iff, Gk, Gv. split.
      + intros [[ck Ek] [cv Ev]]. rewrite Ek, Ev. eexists; reflexivity.
      + intros [p H]. destruct (convert_output o (fst kv)) as [ck|e]; [|discriminate H].
        destruct (convert_output o (snd kv)) as [cv|e]; [|discriminate H].
        split; eexists; reflexivity.
    - intros p H. destruct (convert_output o (fst kv)) as [ck|e] eqn:Ek; [|discriminate H].
      destruct (convert_output o (snd kv)) as [cv|e]; [|discriminate H].
      injection H as <-. simpl. apply Hk. reflexivity.
  Qed.

  Lemma mapping_total kvs : Forall (fun kv => T (fst kv) /\ T (snd kv)) kvs ->
    (forallb (fun kv => guard o (fst kv) && guard o (snd kv) && key_ok o (fst kv)) kvs = true
       <-> exists r, co_mapping o kvs = Ok r) /\
    (forall r, co_mapping o kvs = Ok r -> hashable r = false).
  Proof.
    intro F. split.
    - rewrite forallb_andb, andb_true_iff.
      rewrite (mapM_guard (conv_pair o) (fun kv => guard o (fst kv) && guard o (snd kv)) kvs
                 (Forall_impl _ (fun kv Hkv => proj1 (pair_total kv Hkv)) F)).
      unfold co_mapping, build_dict. split.
      + intros [[ps E] K]. rewrite E.
        rewrite (mapM_keys _ (fun p => hashable (fst p)) (fun kv => key_ok o (fst kv)) kvs ps
                   (Forall_impl _ (fun kv Hkv => proj2 (pair_total kv Hkv)) F) E), K.
        eexists; reflexivity.
      + intros [r H]. destruct (mapM (conv_pair o) kvs) as [ps|e] eqn:E; [|discriminate H].
        split; [eexists; reflexivity|].
        rewrite <- (mapM_keys _ (fun p => hashable (fst p)) (fun kv => key_ok o (fst kv)) kvs ps
                   (Forall_impl _ (fun kv Hkv => proj2 (pair_total kv Hkv)) F) E).
        destruct (forallb _ ps); [reflexivity | discriminate H].
    - intros r H. unfold co_mapping, build_dict in H. destruct (mapM (conv_pair o) kvs) as [ps|e]; [|discriminate H].
      destruct (forallb _ ps); [injection H as <-; reflexivity | discriminate H].
  Qed.

  Lemma view_total {A} (f : A -> res val) (g : A -> bool) l :
    Forall (fun x => g x = true <-> exists y, f x = Ok y) l ->
    (forallb g l = true <-> exists r, match mapM f l with Err e => Err e | Ok xs => Ok (VList xs) end = Ok r) /\
    (forall r, match mapM f l with Err e => Err e | Ok xs => Ok (VList xs) end = Ok r -> hashable r = false).
  Proof.
    intro F. split.
    - rewrite (mapM_guard f g l F). split.
      + intros [ys E]. rewrite E. eexists; reflexivity.
      + intros [r H]. destruct (mapM f l) as [xs|e]; [eexists; reflexivity | discriminate H].
    - intros r H. destruct (mapM f l) as [xs|e]; [injection H as <-; reflexivity | discriminate H].
  Qed.

  Lemma total_all : forall v, T v.
  Proof.
    induction v using val_induction; unfold T.
    - split; [split; [intros _; eexists; reflexivity | reflexivity] | intros r Hr; injection Hr as <-; reflexivity].
    - split; [split; [intros _; eexists; reflexivity | reflexivity] | intros r Hr; injection Hr as <-; reflexivity].
    - split; [split; [intros _; eexists; reflexivity | reflexivity] | intros r Hr; injection Hr as <-; reflexivity].
    - split; [split; [intros _; eexists; reflexivity | reflexivity] | intros r Hr; injection Hr as <-; reflexivity].
    - split; [split; [intros _; eexists; reflexivity | reflexivity] | intros r Hr; injection Hr as <-; reflexivity].
    - rewrite co_tuple. destruct (listlike_total true l H) as [A B]. split; [exact A|].
      intros r Hr. rewrite (B r Hr). reflexivity.
    - rewrite co_list. destruct (listlike_total false l H) as [A B]. split; [exact A|].
      intros r Hr. rewrite (B r Hr). reflexivity.
    - rewrite co_fdict. exact (mapping_total kvs H).
    - rewrite co_dict. exact (mapping_total kvs H).
    - rewrite co_fset. exact (setlike_total l H).
    - rewrite co_set. exact (setlike_total l H).
    - rewrite co_iter. destruct (listlike_total false l H) as [A B]. split; [exact A|].
      intros r Hr. rewrite (B r Hr). reflexivity.
    - destruct k.
      + rewrite co_keys. apply (view_total (fun kv => convert_output o (fst kv)) (fun kv => guard o (fst kv))).
        apply (Forall_impl _ (fun kv Hkv => proj1 (proj1 Hkv)) H).
      + rewrite co_values. apply (view_total (fun kv => convert_output o (snd kv)) (fun kv => guard o (snd kv))).
        apply (Forall_impl _ (fun kv Hkv => proj1 (proj2 Hkv)) H).
      + rewrite co_items. apply (view_total (conv_item o) (fun kv => guard o (fst kv) && guard o (snd kv))).
        refine (Forall_impl _ _ H). intros kv Hkv. rewrite (proj1 (pair_total kv Hkv)). unfold conv_item. split.
        * intros [p Hp]. rewrite Hp. eexists; reflexivity.
        * intros [y Hy]. destruct (conv_pair o kv) as [p|e]; [eexists; reflexivity | discriminate Hy].
    - rewrite co_ord. destruct (listlike_total false l H) as [A B]. split; [exact A|].
      intros r Hr. rewrite (B r Hr). reflexivity.
  Qed.
End Total.

Theorem convert_output_total_iff : forall o v, guard o v = true <-> exists r, convert_output o v = Ok r.
Proof. intros o v. exact (proj1 (total_all o v)). Qed.

Theorem convert_output_key_ok : forall o v r, convert_output o v = Ok r -> hashable r = key_ok o v.
Proof. intros o v. exact (proj2 (total_all o v)). Qed.

(* ============================================================ round trip === *)
Section RoundTrip.
  Variable o : opts.

  Lemma scalars_fix l : forallb is_scalar l = true ->
    map convert_input l = l /\ mapM (convert_output o) l = Ok l /\ forallb hashable l = true.
  Proof.
    induction l as [|x r IH]; simpl; intro H; [repeat split; reflexivity|].
    apply andb_true_iff in H. destruct H as [Hx Hr]. destruct (IH Hr) as [A [B C]].
    rewrite (ci_scalar x Hx), A, (co_scalar o x Hx), B, (scalar_hashable x Hx), C. repeat split; reflexivity.
  Qed.

  Lemma roundtrip_all : forall d, jsonlike d = true ->
    convert_output o (convert_input d) = Ok (canon o d).
  Proof.
    induction d using val_induction; intro J; try reflexivity; try discriminate J.
    - (* tuple *)
      cbn [convert_input canon]. rewrite co_tuple. unfold co_listlike. rewrite mapM_map.
      rewrite (mapM_map_ok _ (canon o)); [reflexivity|].
      simpl in J. rewrite <- Forall_forallb in J. rewrite Forall_forall in *. intros x Hin. apply H; [exact Hin | apply J; exact Hin].
    - (* list *)
      cbn [convert_input canon]. rewrite co_tuple. unfold co_listlike. rewrite mapM_map.
      rewrite (mapM_map_ok _ (canon o)); [reflexivity|].
      simpl in J. rewrite <- Forall_forallb in J. rewrite Forall_forall in *. intros x Hin. apply H; [exact Hin | apply J; exact Hin].
    - (* dict *)
      simpl in J. apply andb_true_iff in J. destruct J as [J N].
      cbn [convert_input canon].
      assert (E1 : map (fun kv => (convert_input (fst kv), convert_input (snd kv))) kvs
                   = map (fun kv => (fst kv, convert_input (snd kv))) kvs).
      { apply map_ext_in. intros kv Hin. rewrite forallb_forall in J. specialize (J kv Hin).
        apply andb_true_iff in J. rewrite (ci_scalar _ (proj1 J)). reflexivity. }
      rewrite E1. rewrite dict_of_nodup by (rewrite map_map; simpl; exact N).
      rewrite co_fdict. unfold co_mapping. rewrite mapM_map.
      rewrite (mapM_map_ok _ (fun kv => (fst kv, canon o (snd kv)))).
      + unfold build_dict.
        assert (Hh : forallb (fun p => hashable (fst p)) (map (fun kv => (fst kv, canon o (snd kv))) kvs) = true).
        { apply Forall_forallb. apply Forall_map. simpl. apply Forall_forall. intros kv Hin.
          rewrite forallb_forall in J. specialize (J kv Hin). apply andb_true_iff in J.
          apply scalar_hashable. exact (proj1 J). }
        rewrite Hh. rewrite dict_of_nodup by (rewrite map_map; simpl; exact N). reflexivity.
      + rewrite Forall_forall in *. intros kv Hin. unfold conv_pair. simpl.
        rewrite forallb_forall in J. specialize (J kv Hin). apply andb_true_iff in J. destruct J as [Jk Jv].
        rewrite (co_scalar o _ Jk). rewrite (proj2 (H kv Hin) Jv). reflexivity.
    - (* set *)
      simpl in J. apply andb_true_iff in J. destruct J as [J N].
      destruct (scalars_fix l J) as [A [B C]].
      cbn [convert_input canon]. rewrite A, (set_of_nodup l N). rewrite co_fset. unfold co_setlike. rewrite B.
      destruct (s2l o); [reflexivity|]. unfold build_set. rewrite C, (set_of_nodup l N). reflexivity.
    - (* iterator / generator *)
      cbn [convert_input canon]. rewrite co_iter. unfold co_listlike. rewrite mapM_map.
      rewrite (mapM_map_ok _ (canon o)); [reflexivity|].
      simpl in J. rewrite <- Forall_forallb in J. rewrite Forall_forall in *. intros x Hin. apply H; [exact Hin | apply J; exact Hin].
  Qed.
End RoundTrip.

Theorem convert_roundtrip : forall o d, jsonlike d = true ->
  convert_output o (convert_input d) = Ok (canon o d).
Proof. intros o d. apply roundtrip_all. Qed.
