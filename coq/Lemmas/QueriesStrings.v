(* strings and dictionaries as elements: the order on string keys, and the key structure of a deep merge *)
From Coq Require Import List ZArith Bool Arith Lia.
From YV Require Import Common.Corr Model.Queries Model.Streams Lemmas.QueriesOrder Lemmas.QueriesGroup.
Import ListNotations.

Lemma string_order a b :
  val_ltb (VStr a) (VStr b) = (match lcmp a b with Lt => true | _ => false end) /\
  val_gtb (VStr a) (VStr b) = (match lcmp a b with Gt => true | _ => false end).
Proof. unfold val_ltb, val_gtb, kcmp. cbn. split; reflexivity. Qed.

Lemma null_int_string_order z s : val_ltb VNull (VInt z) = true /\ val_ltb (VInt z) (VStr s) = true /\ val_ltb VNull (VStr s) = true.
Proof. unfold val_ltb, kcmp. cbn. repeat split. Qed.

(* a deep merge keeps the keys of the left dictionary in their order and appends the keys only the right one has *)
Lemma merge_dicts_keys fuel d1 d2 lm im ml r : merge_dicts fuel d1 d2 lm im ml = Ok r ->
  map fst r = map fst d1 ++ map fst (filter (fun kv => match dict_get_l (fst kv) (firstn (length d1) r) with Some _ => false | None => true end) d2).
Proof.
  destruct fuel as [|fu]; [discriminate|]. cbn [merge_dicts].
  set (go := fix go (l : kvs) : res kvs := _). intro H.
  assert (G : forall l x, go l = Ok x -> map fst x = map fst l /\ length x = length l).
  { induction l as [|[k v1] t IH]; intros x E; cbn in E.
    - injection E as <-. split; reflexivity.
    - destruct (go t) as [rest| | |] eqn:Et; try discriminate E. destruct (IH rest eq_refl) as [K L].
      assert (Shape : exists w, x = (k, w) :: rest).
      { destruct (dict_get_l k d2) as [v2|]; [|injection E as <-; eexists; reflexivity].
        destruct (ml =? 1)%Z; [injection E as <-; eexists; reflexivity|].
        destruct v2 as [| | | m2 l2 | |m2 e2]; try (injection E as <-; eexists; reflexivity).
        - destruct v1 as [| | | m1 l1 | |]; try discriminate E. destruct lm; [injection E as <-; eexists; reflexivity|].
          destruct (m1 || m2); [discriminate E|]. destruct (forallb hashable (l1 ++ l2)); [injection E as <-; eexists; reflexivity | discriminate E].
        - destruct v1 as [| | | | |m1 e1]; try discriminate E.
          destruct (merge_dicts fu e1 e2 lm im (if (ml =? 0)%Z then 0%Z else (ml - 1)%Z)); try discriminate E. injection E as <-. eexists; reflexivity. }
      destruct Shape as [w ->]. cbn. split; [f_equal; exact K | f_equal; exact L]. }
  destruct (go d1) as [x| | |] eqn:E; try discriminate H. injection H as <-. destruct (G d1 x E) as [K L].
  rewrite map_app, K. f_equal. rewrite <- L, firstn_app, Nat.sub_diag, firstn_O, app_nil_r, firstn_all. reflexivity.
Qed.
