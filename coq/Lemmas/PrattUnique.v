(* C02_unique (core fragment): a tree of atoms, prefix and binary operators and
   parentheses that satisfies the table's local reading is what the parser returns
   for its own text.  Together with C02_yield: the parser's tree is THE wf tree of
   the text.
   Proof: induction on the tree with the loop invariant of precedence climbing
   generalised over the pending rank and the rest of the input; fuel is handled by
   "stable" facts (true for every fuel above a bound) and an explicit cost. *)
From Coq Require Import List ZArith Bool Arith Lia.
From YV Require Import Common.Corr Model.OpTable Model.Pratt.
Import ListNotations.
Local Open Scope nat_scope.

Section Unique.
Variable T : table.

Fixpoint cost (t : tree) : nat :=
  match t with
  | Atom _ => 1
  | Un _ y | Wrap y => cost y + 2
  | Bin _ l r => cost l + cost r + 2
  | _ => 0
  end.

Lemma cost_yield : forall t, cost t <= 2 * length (yield t).
Proof.
  induction t; cbn [cost yield length]; rewrite ?app_length; cbn [length]; rewrite ?app_length; cbn [length]; lia.
Qed.

(* the loop returns its accumulator when the next token does not continue the pending rank *)
Lemma loop_stop : forall f p l rest,
  (forall q, tokrank T rest = Some q -> continues q p = false) ->
  loop T (S f) p l rest = Some (l, rest).
Proof.
  intros f p l rest H. simpl loop.
  destruct rest as [|t ts]; [reflexivity|].
  destruct t; try reflexivity.
  - cbn [tokrank] in H. destruct (bin T o) as [q|].
    + rewrite (H q eq_refl). reflexivity.
    + destruct (suf T o) as [q|]; [|reflexivity]. rewrite (H q eq_refl). reflexivity.
  - cbn [tokrank] in H. destruct (callr T) as [q|]; [|reflexivity].
    rewrite (H q eq_refl). reflexivity.
  - cbn [tokrank] in H. destruct (bin T sym_index) as [q|]; [|reflexivity].
    rewrite (H q eq_refl). reflexivity.
Qed.

Lemma ls_ok_None : forall t, wf T t -> ls_ok T None t.
Proof.
  induction t; intro W; cbn [ls_ok]; try exact I.
  - destruct W as [q [Q [_ [W1 _]]]]. split; [exists q; split; [exact Q|reflexivity]|auto].
  - destruct W as [q [Q [W1 _]]]. split; [exists q; split; [exact Q|reflexivity]|auto].
  - destruct W as [q [Q [W1 _]]]. split; [exists q; split; [exact Q|reflexivity]|auto].
  - destruct W as [q [Q [W1 _]]]. split; [exists q; split; [exact Q|reflexivity]|auto].
Qed.

Lemma expr_of_yield : forall t, core t ->
  forall p rest res f0,
    wf T t -> ls_ok T p t ->
    (forall q, tokrank T rest = Some q -> rs_ok T q t) ->
    (forall f, f0 <= f -> loop T f p t rest = Some res) ->
    forall F, f0 + cost t <= F -> expr T F p (yield t ++ rest) = Some res.
Proof.
  induction t; intros C p rest res f0 W L R St F HF; cbn [core] in C; try contradiction.
  - (* Atom *)
    cbn [cost] in HF. destruct F as [|F']; [lia|].
    cbn [yield app]. simpl expr. apply St. lia.
  - (* Un *)
    cbn [cost] in HF. destruct F as [|F']; [lia|].
    destruct W as [q [Q [Wy Ly]]].
    cbn [yield app]. simpl expr. rewrite Q.
    assert (E : expr T F' (Some q) (yield t ++ rest) = Some (t, rest)).
    { apply (IHt C (Some q) rest (t, rest) 1 Wy Ly).
      - intros q0 H0. apply R in H0. exact (proj2 H0).
      - intros f Hf. destruct f as [|f]; [lia|]. apply loop_stop.
        intros q0 H0. apply R in H0. destruct H0 as [[q' [Q' Rd]] _].
        rewrite Q in Q'. inversion Q'; subst. exact Rd.
      - lia. }
    rewrite E. apply St. lia.
  - (* Bin *)
    cbn [cost] in HF. destruct C as [C1 C2].
    destruct W as [q [Q [Wl [Wr [Rl Lr]]]]].
    destruct L as [[q' [Q' Cq]] Ll]. rewrite Q in Q'. inversion Q'; subst q'.
    cbn [yield]. rewrite <- app_assoc. cbn [app].
    apply (IHt1 C1 p (TOp o :: yield t2 ++ rest) res (f0 + cost t2 + 2) Wl Ll).
    + intros q0 H0. cbn [tokrank] in H0. rewrite Q in H0. inversion H0; subst. exact Rl.
    + intros f Hf. destruct f as [|f]; [lia|]. simpl loop. rewrite Q, Cq.
      assert (E : expr T f (Some q) (yield t2 ++ rest) = Some (t2, rest)).
      { apply (IHt2 C2 (Some q) rest (t2, rest) 1 Wr Lr).
        - intros q0 H0. apply R in H0. exact (proj2 H0).
        - intros f1 Hf1. destruct f1 as [|f1]; [lia|]. apply loop_stop.
          intros q0 H0. apply R in H0. destruct H0 as [[q2 [Q2 Rd]] _].
          rewrite Q in Q2. inversion Q2; subst. exact Rd.
        - lia. }
      rewrite E. apply St. lia.
    + lia.
  - (* Wrap *)
    cbn [cost] in HF. destruct F as [|F']; [lia|].
    cbn [yield app]. rewrite <- app_assoc. cbn [app]. simpl expr.
    assert (E : expr T F' None (yield t ++ TRP :: rest) = Some (t, TRP :: rest)).
    { apply (IHt C None (TRP :: rest) (t, TRP :: rest) 1 W (ls_ok_None t W)).
      - intros q0 H0. discriminate.
      - intros f Hf. destruct f as [|f]; [lia|]. apply loop_stop. intros q0 H0. discriminate.
      - lia. }
    rewrite E. apply St. lia.
Qed.

Theorem parse_unique_core : forall t, core t -> wf T t -> parse T (yield t) = Some t.
Proof.
  intros t C W. unfold parse.
  assert (E : expr T (2 * length (yield t) + 2) None (yield t ++ []) = Some (t, [])).
  { apply (expr_of_yield t C None [] (t, []) 1 W (ls_ok_None t W)).
    - intros q H. discriminate.
    - intros f Hf. destruct f as [|f]; [lia|]. apply loop_stop. intros q H. discriminate.
    - pose proof (cost_yield t). lia. }
  rewrite app_nil_r in E. rewrite E. reflexivity.
Qed.

End Unique.
