(* The demand theorem over the property's whole operator list: the operators of
   StreamsPipeline2.v plus distinct, zip, insert, insertMany, delete, replace(Many), slice,
   selectMany and join's outer side, each as an instance of the generic transducer theorem
   (StreamsGeneric.v) or by a direct argument (slice). *)
From Coq Require Import List ZArith Bool Arith Lia.
From YV Require Import Common.Corr Model.Queries Model.Streams Lemmas.StreamsMono Lemmas.StreamsSteps
  Lemmas.StreamsPipeline Lemmas.StreamsPipeline2 Lemmas.StreamsMore Lemmas.StreamsGeneric.
Import ListNotations.

Lemma follows_chain_app a D r2 t B : Follows D r2 t B -> Follows (Chain (OfList a) D) (zt a ++ r2) t B.
Proof.
  intros [F1 [F2 F3]]. pose proof (oflist_steps a []) as O. rewrite app_nil_r in O. pose proof (chain_steps D _ _ _ _ _ O) as C1.
  split; [|split].
  - intros r L. rewrite app_length, zt_length in L. destruct (le_lt_dec r (length a)) as [Q|Q].
    + rewrite firstn_app, zt_length. replace (r - length a) with 0 by lia. rewrite firstn_O, app_nil_r.
      rewrite zt_firstn, zt_fst, zt_sumt. exists (Chain (OfList (skipn r a)) D).
      pose proof (oflist_steps (firstn r a) (skipn r a)) as O2. rewrite firstn_skipn in O2. apply (chain_steps D _ _ _ _ _ O2).
    + rewrite firstn_app, zt_length. rewrite firstn_all2 by (rewrite zt_length; lia).
      destruct (F1 (r - length a) ltac:(lia)) as [j HS]. exists j. rewrite map_app, zt_fst, sumt_app, zt_sumt.
      assert (N : map fst (firstn (r - length a) r2) <> []).
      { intro E. apply (f_equal (@length val)) in E. rewrite map_length, firstn_length in E. cbn [length] in E. lia. }
      eapply StepsD_eq; [apply (StepsD_app _ _ _ _ _ _ _ _ _ C1 (chain_nil_steps D _ _ _ _ N HS)) | lia | lia].
  - intros l x b j N HS. pose proof (F2 l x b j N HS) as HS'.
    rewrite map_app, zt_fst, sumt_app, zt_sumt, <- app_assoc.
    assert (N2 : map fst r2 ++ l <> []) by (destruct (map fst r2); [exact N | discriminate]).
    eapply StepsD_eq; [apply (StepsD_app _ _ _ _ _ _ _ _ _ C1 (chain_nil_steps D _ _ _ _ N2 HS')) | lia | lia].
  - intros x b E. destruct (F3 x b E) as (j & HS & Ej). rewrite map_app, zt_fst, sumt_app, zt_sumt.
    destruct (map fst r2) as [|w ws] eqn:M.
    + destruct HS as (-> & _ & S0). exists (Chain (OfList []) D). rewrite app_nil_r. split; [eapply StepsD_eq; [exact C1 | lia | lia]|].
      eapply EndsD_eq; [apply (chain_ends _ _ _ _ _ _ oflist_ends Ej) | lia | lia].
    + exists j. split; [|exact Ej]. assert (NW : w :: ws <> []) by discriminate.
      eapply StepsD_eq; [apply (StepsD_app _ _ _ _ _ _ _ _ _ C1 (chain_nil_steps D _ _ _ _ NW HS)) | lia | lia].
Qed.

(* ---- delete ------------------------------------------------------------------------------ *)
Section Delete.
  Variables pos cnt : Z.
  Definition del_T (n : Z) (i : it) : it := DeleteAt pos cnt n i.
  Definition del_out (n : Z) (x : val) : list (val * nat) := if del_keep pos cnt n then [(x, 0)] else [].
  Definition del_nq (n : Z) (x : val) : Z := (n + 1)%Z.
  Lemma del_HF : forall q i x i1 dp dt, true = true -> YieldsD i x i1 dp dt ->
    FollowsP (del_T q i) dp dt (del_out q x) 0 (del_T (del_nq q x) i1).
  Proof.
    intros n i x i1 dp dt _ Y. unfold del_out, del_T, del_nq. destruct (del_keep pos cnt n) eqn:K.
    - apply (followsP_yield _ _ (DeleteAt pos cnt (n + 1) i1)); [|apply follows_self].
      eapply YieldsD_eq; [apply (delete_keep_yields pos cnt n _ _ _ _ _ Y K) | lia | lia].
    - apply followsP_skip. intros v j a b Y2.
      eapply YieldsD_eq; [apply (delete_drop_step pos cnt n _ _ _ _ _ _ _ _ _ Y K Y2) | lia | lia].
  Qed.
End Delete.

(* ---- distinct ----------------------------------------------------------------------------- *)
Section DistinctT.
  Variable f : option lam.
  Definition dis_T (seen : list val) (i : it) : it := Distinct f seen i.
  Definition dis_live (seen : list val) (x : val) : bool := hashable (dkey f x).
  Definition dis_out (seen : list val) (x : val) : list (val * nat) := if vmem (dkey f x) seen then [] else [(x, dcost f)].
  Definition dis_tr (seen : list val) (x : val) : nat := if vmem (dkey f x) seen then dcost f else 0.
  Definition dis_nq (seen : list val) (x : val) : list val := if vmem (dkey f x) seen then seen else dkey f x :: seen.
  Lemma dis_HF : forall q i x i1 dp dt, dis_live q x = true -> YieldsD i x i1 dp dt ->
    FollowsP (dis_T q i) dp dt (dis_out q x) (dis_tr q x) (dis_T (dis_nq q x) i1).
  Proof.
    intros seen i x i1 dp dt Hh Y. unfold dis_out, dis_tr, dis_nq, dis_T, dis_live in *. destruct (vmem (dkey f x) seen) eqn:M.
    - apply followsP_skip. intros v j a b Y2.
      eapply YieldsD_eq; [apply (distinct_seen_yield f seen _ _ _ _ _ _ _ _ _ Y Hh M Y2) | lia | lia].
    - apply (followsP_yield _ _ (Distinct f (dkey f x :: seen) i1)); [|apply follows_self].
      apply (distinct_new f seen _ _ _ _ _ Y Hh M).
  Qed.
End DistinctT.

(* ---- insert (iterator overload) ---------------------------------------------------------------- *)
Section InsertT.
  Variable pos : Z.
  Variable v : val.
  Definition ins_T (n : Z) (i : it) : it := InsertAt pos v n i.
  Definition ins_out (n : Z) (x : val) : list (val * nat) := if (n =? pos)%Z then [(v, 0); (x, 0)] else [(x, 0)].
  Lemma ins_HF : forall q i x i1 dp dt, true = true -> YieldsD i x i1 dp dt ->
    FollowsP (ins_T q i) dp dt (ins_out q x) 0 (ins_T (q + 1)%Z i1).
  Proof.
    intros n i x i1 dp dt _ Y. unfold ins_out, ins_T. destruct (n =? pos)%Z eqn:K.
    - apply Z.eqb_eq in K. subst n.
      apply (followsP_yield _ _ (Chain (OfList [x]) (InsertAt pos v (pos + 1) i1))).
      + eapply YieldsD_eq; [apply (insert_here pos v _ _ _ _ _ Y) | lia | lia].
      + apply (follows_chain [x]).
    - apply (followsP_yield _ _ (InsertAt pos v (n + 1) i1)); [|apply follows_self].
      eapply YieldsD_eq; [apply (insert_before pos v n _ _ _ _ _ Y K) | lia | lia].
  Qed.
End InsertT.

(* ---- insertMany ---------------------------------------------------------------------------------- *)
Section InsertManyT.
  Variable pos : Z.
  Variable vs : list val.
  Definition im_vals (u : bool) : list val := if u then [] else vs.
  Definition im_T (q : Z * bool) (i : it) : it := InsertMany pos (OfList (im_vals (snd q))) (fst q) i.
  Definition im_out (q : Z * bool) (x : val) : list (val * nat) :=
    if (fst q =? pos)%Z then zt (im_vals (snd q) ++ [x]) else [(x, 0)].
  Definition im_nq (q : Z * bool) (x : val) : Z * bool := ((fst q + 1)%Z, snd q || (fst q =? pos)%Z).

  Lemma im_pull n V i x i1 dp dt : YieldsD i x i1 dp dt ->
    forall w j a b, YieldsD (Chain (OfList V) (Chain (OfList [x]) (InsertMany pos (OfList []) (n + 1) i1))) w j a b ->
                    YieldsD (InsertMany pos (OfList V) n i) w j (dp + a) (dt + 0 + b) \/ (n =? pos)%Z = false.
  Proof.
    intros Y w j a b Y2. destruct (n =? pos)%Z eqn:K; [left | right; reflexivity].
    intro s. destruct (yields_at _ _ _ _ _ Y s) as [f1 F1]. destruct (yields_at _ _ _ _ _ Y2 (plus_st s dp dt)) as [f2 F2].
    exists (S (Nat.max f1 f2)). cbn [next]. rewrite F1 by lia. rewrite K. rewrite F2 by lia. rewrite plus_st_plus.
    f_equal. apply plus_st_eq; lia.
  Qed.

  Lemma im_pass n V i x i1 dp dt : YieldsD i x i1 dp dt -> (n =? pos)%Z = false ->
    YieldsD (InsertMany pos (OfList V) n i) x (InsertMany pos (OfList V) (n + 1) i1) dp dt.
  Proof. intros H K s. destruct (H s) as [fu E]. exists (S fu). cbn [next]. rewrite E, K. reflexivity. Qed.

  Lemma im_HF : forall q i x i1 dp dt, true = true -> YieldsD i x i1 dp dt ->
    FollowsP (im_T q i) dp dt (im_out q x) 0 (im_T (im_nq q x) i1).
  Proof.
    intros [n u] i x i1 dp dt _ Y. unfold im_out, im_T, im_nq. cbn [fst snd]. destruct (n =? pos)%Z eqn:K.
    - rewrite orb_true_r. cbn [im_vals].
      set (B := InsertMany pos (OfList []) (n + 1) i1).
      set (X := Chain (OfList (im_vals u)) (Chain (OfList [x]) B)).
      assert (HP : forall w j a b, YieldsD X w j a b -> YieldsD (InsertMany pos (OfList (im_vals u)) n i) w j (dp + a) (dt + 0 + b)).
      { intros w j a b Y2. destruct (im_pull n (im_vals u) i x i1 dp dt Y w j a b Y2) as [H|H]; [exact H | rewrite K in H; discriminate H]. }
      assert (FX : Follows X (zt (im_vals u) ++ zt [x]) 0 B) by (apply follows_chain_app; apply (follows_chain [x])).
      unfold zt in *. rewrite map_app. fold (zt (im_vals u)) in *. fold (zt [x]) in *.
      pose proof (followsP_of_follows _ _ dp dt 0 _ 0 B HP FX) as R.
      destruct (zt (im_vals u) ++ zt [x]) as [|[w t] rest] eqn:E.
      + destruct (im_vals u); discriminate E.
      + assert (T0 : t = 0).
        { destruct (im_vals u) as [|y ys]; cbn in E; injection E as _ <- _; reflexivity. }
        subst t. exact R.
    - rewrite orb_false_r. apply (followsP_yield _ _ (InsertMany pos (OfList (im_vals u)) (n + 1) i1)); [|apply follows_self].
      eapply YieldsD_eq; [apply (im_pass n _ _ _ _ _ _ Y K) | lia | lia].
  Qed.
End InsertManyT.

(* ---- replace / replaceMany ----------------------------------------------------------------------- *)
Section ReplaceT.
  Variables pos cnt : Z.
  Variable vals : list val.
  Definition rep_T (q : bool * Z) (i : it) : it := ReplaceAt pos cnt vals (fst q) (snd q) i.
  Definition rep_out (q : bool * Z) (x : val) : list (val * nat) :=
    if in_window pos cnt (snd q) then (if fst q then [] else zt vals) else [(x, 0)].
  Definition rep_nq (q : bool * Z) (x : val) : bool * Z := (fst q || in_window pos cnt (snd q), (snd q + 1)%Z).
  Lemma rep_HF : forall q i x i1 dp dt, true = true -> YieldsD i x i1 dp dt ->
    FollowsP (rep_T q i) dp dt (rep_out q x) 0 (rep_T (rep_nq q x) i1).
  Proof.
    intros [y n] i x i1 dp dt _ Y. unfold rep_out, rep_T, rep_nq. cbn [fst snd]. destruct (in_window pos cnt n) eqn:K.
    - rewrite orb_true_r. set (B := ReplaceAt pos cnt vals true (n + 1) i1).
      assert (HP : forall w j a b, YieldsD (replace_next pos cnt vals y n i1) w j a b ->
                                   YieldsD (ReplaceAt pos cnt vals y n i) w j (dp + a) (dt + 0 + b)).
      { intros w j a b Y2. eapply YieldsD_eq; [apply (replace_in_yield pos cnt vals y n _ _ _ _ _ _ _ _ _ Y K Y2) | lia | lia]. }
      destruct y; unfold replace_next in HP.
      + apply followsP_skip. exact HP.
      + pose proof (followsP_of_follows _ _ dp dt 0 _ 0 B HP (follows_chain vals B)) as R.
        destruct vals as [|w ws]; exact R.
    - rewrite orb_false_r. apply (followsP_yield _ _ (ReplaceAt pos cnt vals y (n + 1) i1)); [|apply follows_self].
      eapply YieldsD_eq; [apply (replace_pass pos cnt vals y n _ _ _ _ _ Y K) | lia | lia].
  Qed.
End ReplaceT.

(* ---- selectMany ------------------------------------------------------------------------------------- *)
Section SelectManyT.
  Variable f : lam.
  Definition sm_T (q : unit) (i : it) : it := SelectMany f i.
  Definition sm_out (q : unit) (x : val) : list (val * nat) :=
    match apply f x with
    | VList _ [] => []
    | VList _ (w :: rest) => (w, 1) :: zt rest
    | s => [(s, 1)]
    end.
  Definition sm_tr (q : unit) (x : val) : nat := match apply f x with VList _ [] => 1 | _ => 0 end.
  Lemma sm_HF : forall q i x i1 dp dt, true = true -> YieldsD i x i1 dp dt ->
    FollowsP (sm_T q i) dp dt (sm_out q x) (sm_tr q x) (sm_T tt i1).
  Proof.
    intros q i x i1 dp dt _ Y. unfold sm_out, sm_tr, sm_T.
    destruct (apply f x) as [| bb | z | m e | str | dm dd] eqn:A.
    1-3, 5-6: apply (followsP_yield _ _ (SelectMany f i1)); [|apply follows_self];
         rewrite <- A; apply (selectmany_scalar f _ _ _ _ _ Y); intros m e; rewrite A; discriminate.
    assert (HP : forall w j a b, YieldsD (Chain (OfList e) (SelectMany f i1)) w j a b ->
                                 YieldsD (SelectMany f i) w j (dp + a) (dt + 1 + b)).
    { intros w j a b Y2. apply (selectmany_list_yield f _ _ _ _ _ m e _ _ _ _ Y A Y2). }
    pose proof (followsP_of_follows _ _ dp dt 1 _ 0 _ HP (follows_chain e (SelectMany f i1))) as R.
    destruct e as [|w ws]; exact R.
  Qed.
End SelectManyT.

(* ---- zip with finite literal collections ---------------------------------------------------------------- *)
Section ZipT.
  Definition hdv (l : list val) : val := hd VNull l.
  Definition zip_T (q : list (list val)) (i : it) : it := Zip (i :: map OfList q).
  Definition zip_live (q : list (list val)) (x : val) : bool := forallb (fun l => match l with [] => false | _ => true end) q.
  Definition zip_out (q : list (list val)) (x : val) : list (val * nat) := [(VList false (x :: map hdv q), 0)].
  Definition zip_nq (q : list (list val)) (x : val) : list (list val) := map (@tl val) q.

  Lemma zip_go_oflists fu : forall q s vs js, zip_live q VNull = true ->
    zip_go (next (S fu)) s (map OfList q) vs js =
    (s, Yield (VList false (rev vs ++ map hdv q)) (Zip (rev js ++ map OfList (map (@tl val) q)))).
  Proof.
    induction q as [|l r IH]; intros s vs js L; cbn [map zip_go].
    - rewrite !app_nil_r. reflexivity.
    - cbn [zip_live forallb] in L. apply andb_true_iff in L as [L1 L2]. destruct l as [|y t]; [discriminate L1|].
      change (next (S fu) s (OfList (y :: t))) with (s, Yield y (OfList t)). cbn iota.
      rewrite (IH s (y :: vs) (OfList t :: js) L2). cbn [rev hdv hd tl]. rewrite <- !app_assoc. reflexivity.
  Qed.

  Lemma next_zip_cons fu s i l : next (S fu) s (Zip (i :: l)) = zip_go (next fu) s (i :: l) [] [].
  Proof. reflexivity. Qed.
  Lemma zip_go_cons step s j r vs js :
    zip_go step s (j :: r) vs js = match step s j with (s1, Yield v j') => zip_go step s1 r (v :: vs) (j' :: js) | r' => r' end.
  Proof. reflexivity. Qed.

  Lemma zip_HF : forall q i x i1 dp dt, zip_live q x = true -> YieldsD i x i1 dp dt ->
    FollowsP (zip_T q i) dp dt (zip_out q x) 0 (zip_T (zip_nq q x) i1).
  Proof.
    intros q i x i1 dp dt L Y. unfold zip_out, zip_T, zip_nq.
    apply (followsP_yield _ _ (Zip (i1 :: map OfList (map (@tl val) q)))); [|apply follows_self].
    intro s. destruct (yields_at _ _ _ _ _ Y s) as [f1 F1]. exists (S (S f1)). rewrite next_zip_cons, zip_go_cons.
    rewrite F1 by lia. rewrite (zip_go_oflists f1 q _ [x] [i1] L). cbn [rev app]. f_equal. apply plus_st_eq; lia.
  Qed.
End ZipT.

(* ---- join: the outer side ------------------------------------------------------------------------------ *)
Section JoinT.
  Variables p f : lam2.
  Variable l2 : list val.
  Definition jhit (x y : val) : bool := truthy (apply2 p x y).
  (* outputs for one outer element: each costs the predicate applications since the previous output plus
     its own predicate and selector application *)
  Fixpoint jout (x : val) (ys : list val) : list (val * nat) :=
    match ys with
    | [] => []
    | y :: r => if jhit x y then (apply2 f x y, 2) :: jout x r
                else match jout x r with [] => [] | (w, t) :: rest => (w, S t) :: rest end
    end.
  Fixpoint jtrail (x : val) (ys : list val) : nat :=
    match ys with
    | [] => 0
    | y :: r => if jhit x y then jtrail x r
                else match jout x r with [] => S (jtrail x r) | _ => jtrail x r end
    end.
  Definition join_T (q : unit) (i : it) : it := Join p f l2 None i.

  Lemma join_empty_state x i1 fuel s : next fuel s (Join p f l2 (Some (x, [])) i1) = next fuel s (Join p f l2 None i1).
  Proof. destruct fuel; reflexivity. Qed.

  Lemma join_state x i1 : forall ys, Follows (Join p f l2 (Some (x, ys)) i1) (jout x ys) (jtrail x ys) (Join p f l2 None i1).
  Proof.
    assert (EQ : forall w j a b, YieldsD (Join p f l2 None i1) w j a b -> YieldsD (Join p f l2 (Some (x, [])) i1) w j a b).
    { intros w j a b Y1 s. destruct (Y1 s) as [fu E]. exists fu. rewrite join_empty_state. exact E. }
    induction ys as [|y r IH].
    - split; [intros r L; cbn in L; assert (r = 0) by lia; subst; eexists; cbn; repeat split|]. split.
      + intros l a b j N HS. cbn [jout jtrail map app sumt fold_right]. destruct l as [|w l']; [contradiction|].
        destruct HS as (j1 & a1 & b1 & a2 & b2 & Y1 & HS1 & -> & ->).
        apply (StepsD_cons _ _ _ _ _ _ _ _ _ (EQ _ _ _ _ Y1) HS1).
      + intros a b E. eexists. cbn. split; [repeat split|]. intro s. destruct (E s) as [fu F]. exists fu. rewrite join_empty_state. exact F.
    - destruct IH as [F1 [F2 F3]]. cbn [jout jtrail]. destruct (jhit x y) eqn:H.
      + assert (Y : YieldsD (Join p f l2 (Some (x, y :: r)) i1) (apply2 f x y) (Join p f l2 (Some (x, r)) i1) 0 2).
        { intro s. exists 1. cbn [next]. unfold jhit in H. rewrite H. f_equal. unfold tick, plus_st. cbn. f_equal; lia. }
        split; [|split].
        * intros k L. destruct k as [|k]; [eexists; cbn; repeat split|]. cbn [length] in L.
          destruct (F1 k ltac:(lia)) as [j HS]. exists j. cbn [firstn map fst sumt fold_right snd].
          eapply StepsD_eq; [apply (StepsD_cons _ _ _ _ _ _ _ _ _ Y HS) | lia |].
          change (fold_right (fun (p0 : val * nat) (acc : nat) => snd p0 + acc) 0 (firstn k (jout x r))) with (sumt (firstn k (jout x r))). lia.
        * intros l a b j N HS. pose proof (F2 l a b j N HS) as HS'. cbn [map fst app sumt fold_right snd].
          eapply StepsD_eq; [apply (StepsD_cons _ _ _ _ _ _ _ _ _ Y HS') | lia |].
          change (fold_right (fun (p0 : val * nat) (acc : nat) => snd p0 + acc) 0 (jout x r)) with (sumt (jout x r)). lia.
        * intros a b E. destruct (F3 a b E) as (j & HS & Ej). exists j. split; [|exact Ej]. cbn [map fst sumt fold_right snd].
          eapply StepsD_eq; [apply (StepsD_cons _ _ _ _ _ _ _ _ _ Y HS) | lia |].
          change (fold_right (fun (p0 : val * nat) (acc : nat) => snd p0 + acc) 0 (jout x r)) with (sumt (jout x r)). lia.
      + (* a miss: one predicate application, then the state for r *)
        assert (HM : forall w j a b, YieldsD (Join p f l2 (Some (x, r)) i1) w j a b ->
                                     YieldsD (Join p f l2 (Some (x, y :: r)) i1) w j a (1 + b)).
        { intros w j a b Y2 s. destruct (yields_at _ _ _ _ _ Y2 (tick s)) as [f2 F]. exists (S f2). cbn [next].
          unfold jhit in H. rewrite H. rewrite F by lia. f_equal. unfold tick, plus_st. cbn. f_equal; lia. }
        assert (HE : forall a b, EndsD (Join p f l2 (Some (x, r)) i1) a b -> EndsD (Join p f l2 (Some (x, y :: r)) i1) a (1 + b)).
        { intros a b E2 s. destruct (ends_at _ _ _ E2 (tick s)) as [f2 F]. exists (S f2). cbn [next].
          unfold jhit in H. rewrite H. rewrite F by lia. f_equal. unfold tick, plus_st. cbn. f_equal; lia. }
        destruct (jout x r) as [|[w t] rest] eqn:O.
        * split; [intros k L; cbn in L; assert (k = 0) by lia; subst; eexists; cbn; repeat split|]. split.
          -- intros l a b j N HS. pose proof (F2 l a b j N HS) as HS'. cbn [map app sumt fold_right] in *.
             destruct l as [|u l']; [contradiction|]. destruct HS' as (j1 & a1 & b1 & a2 & b2 & Y1 & HS1 & Ea & Eb).
             eapply StepsD_eq; [apply (StepsD_cons _ _ _ _ _ _ _ _ _ (HM _ _ _ _ Y1) HS1) | lia | lia].
          -- intros a b E. destruct (F3 a b E) as (j & HS & Ej). cbn [map sumt fold_right] in *. destruct HS as (-> & _ & _).
             eexists. split; [cbn; repeat split|]. eapply EndsD_eq; [apply (HE _ _ Ej) | lia | lia].
        * split; [|split].
          -- intros k L. destruct k as [|k]; [eexists; cbn; repeat split|]. cbn [length] in L.
             destruct (F1 (S k) ltac:(cbn; lia)) as [j HS]. cbn [firstn map fst sumt fold_right snd] in *.
             destruct HS as (j1 & a1 & b1 & a2 & b2 & Y1 & HS1 & Ea & Eb). exists j.
             eapply StepsD_eq; [apply (StepsD_cons _ _ _ _ _ _ _ _ _ (HM _ _ _ _ Y1) HS1) | lia | lia].
          -- intros l a b j N HS. pose proof (F2 l a b j N HS) as HS'. cbn [map fst app sumt fold_right snd] in *.
             destruct HS' as (j1 & a1 & b1 & a2 & b2 & Y1 & HS1 & Ea & Eb).
             eapply StepsD_eq; [apply (StepsD_cons _ _ _ _ _ _ _ _ _ (HM _ _ _ _ Y1) HS1) | lia | lia].
          -- intros a b E. destruct (F3 a b E) as (j & HS & Ej). exists j. split; [|exact Ej]. cbn [map fst sumt fold_right snd] in *.
             destruct HS as (j1 & a1 & b1 & a2 & b2 & Y1 & HS1 & Ea & Eb).
             eapply StepsD_eq; [apply (StepsD_cons _ _ _ _ _ _ _ _ _ (HM _ _ _ _ Y1) HS1) | lia | lia].
  Qed.

  Lemma join_HF : forall q i x i1 dp dt, true = true -> YieldsD i x i1 dp dt ->
    FollowsP (join_T q i) dp dt (jout x l2) (jtrail x l2) (join_T tt i1).
  Proof.
    intros q i x i1 dp dt _ Y. unfold join_T.
    assert (HP : forall w j a b, YieldsD (Join p f l2 (Some (x, l2)) i1) w j a b ->
                                 YieldsD (Join p f l2 None i) w j (dp + a) (dt + 0 + b)).
    { intros w j a b Y2 s. destruct (yields_at _ _ _ _ _ Y s) as [f1 F1].
      destruct (yields_at _ _ _ _ _ Y2 (plus_st s dp dt)) as [f2 F2].
      exists (S (Nat.max f1 f2)). cbn [next]. rewrite F1 by lia. rewrite F2 by lia. rewrite plus_st_plus.
      f_equal. apply plus_st_eq; lia. }
    pose proof (followsP_of_follows _ _ dp dt 0 _ _ _ HP (join_state x i1 l2)) as R.
    destruct (jout x l2) as [|[w t] rest]; exact R.
  Qed.
End JoinT.

(* ---- slice(n), n >= 1: one output per n inputs ------------------------------------------------------------ *)
Lemma slice_collect_steps nz : forall l i dp dt i' acc, StepsD i l dp dt i' -> rev acc ++ l <> [] ->
  forall s, exists f0, forall fuel, f0 <= fuel ->
    slice_collect (next fuel) nz (length l) s i acc = (plus_st s dp dt, Yield (VList false (rev acc ++ l)) (SliceN nz i')).
Proof.
  induction l as [|x r IH]; intros i dp dt i' acc HS N s.
  - destruct HS as (-> & -> & ->). exists 0. intros fuel _. cbn [length slice_collect]. rewrite plus_st_0.
    destruct acc as [|a acc']; [cbn in N; contradiction|]. rewrite app_nil_r. reflexivity.
  - destruct HS as (i1 & p1 & t1 & p2 & t2 & Y & HS & -> & ->).
    destruct (yields_at _ _ _ _ _ Y s) as [f1 F1].
    assert (N2 : rev (x :: acc) ++ r <> []) by (cbn [rev]; rewrite <- app_assoc; destruct (rev acc); discriminate).
    destruct (IH i1 p2 t2 i' (x :: acc) HS N2 (plus_st s p1 t1)) as [f2 F2].
    exists (Nat.max f1 f2). intros fuel L. cbn [length slice_collect]. rewrite F1 by lia. rewrite F2 by lia.
    rewrite plus_st_plus. cbn [rev]. rewrite <- app_assoc. reflexivity.
Qed.

Lemma slice_yields n l i dp dt i' : StepsD i l dp dt i' -> length l = S n ->
  YieldsD (SliceN (Z.of_nat (S n)) i) (VList false l) (SliceN (Z.of_nat (S n)) i') dp dt.
Proof.
  intros HS L s. assert (N : rev [] ++ l <> []) by (destruct l; [discriminate L | discriminate]).
  destruct (slice_collect_steps (Z.of_nat (S n)) l i dp dt i' [] HS N s) as [f0 F]. exists (S f0). cbn [next].
  assert (Q : (Z.of_nat (S n) <? 0)%Z = false) by (apply Z.ltb_ge; lia). rewrite Q. rewrite Nat2Z.id. pose proof (F f0 (le_n _)) as E. rewrite L in E. exact E.
Qed.

Fixpoint fchunks (fuel n : nat) (xs : list val) : list (list val) :=
  match fuel with
  | O => []
  | S f => if S n <=? length xs then firstn (S n) xs :: fchunks f n (skipn (S n) xs) else []
  end.
Definition slice_outs (n : nat) (xs : list val) : list val := map (VList false) (fchunks (length xs) n xs).

Lemma slice_steps n : forall k fuel xs i dp dt i', k <= length (fchunks fuel n xs) ->
  StepsD i (firstn (S n * k) xs) dp dt i' ->
  StepsD (SliceN (Z.of_nat (S n)) i) (map (VList false) (firstn k (fchunks fuel n xs))) dp dt (SliceN (Z.of_nat (S n)) i').
Proof.
  induction k as [|k IH]; intros fuel xs i dp dt i' L HS.
  - rewrite Nat.mul_0_r in HS. cbn in *. destruct HS as (-> & -> & ->). repeat split.
  - destruct fuel as [|fuel]; [cbn in L; lia|]. cbn [fchunks] in *. destruct (S n <=? length xs) eqn:Q; [|cbn in L; lia].
    apply Nat.leb_le in Q. cbn [length firstn map] in *.
    replace (S n * S k) with (S n + S n * k) in HS by lia.
    rewrite <- (firstn_skipn (S n) xs) in HS at 1. rewrite firstn_app in HS.
    rewrite firstn_firstn in HS. replace (Nat.min (S n + S n * k) (S n)) with (S n) in HS by lia.
    rewrite firstn_length in HS. replace (S n + S n * k - Nat.min (S n) (length xs)) with (S n * k) in HS by lia.
    destruct (StepsD_split _ _ _ _ _ _ HS) as (p1 & t1 & i1 & p2 & t2 & S1 & S2 & -> & ->).
    assert (L1 : length (firstn (S n) xs) = S n) by (rewrite firstn_length; lia).
    apply (StepsD_cons _ _ _ _ _ _ _ _ _ (slice_yields n _ _ _ _ _ S1 L1)). apply IH; [lia | exact S2].
Qed.

Lemma fchunks_length_le fuel n xs : S n * length (fchunks fuel n xs) <= length xs.
Proof.
  revert xs. induction fuel as [|f IH]; intro xs; cbn [fchunks length]; [lia|].
  destruct (S n <=? length xs) eqn:Q; [|cbn; lia]. apply Nat.leb_le in Q. cbn [length].
  specialize (IH (skipn (S n) xs)). rewrite skipn_length in IH. lia.
Qed.

Lemma slice_like n i xs cp ct : Like i xs cp ct ->
  Like (SliceN (Z.of_nat (S n)) i) (slice_outs n xs) (fun k => cp (S n * k)) (fun k => ct (S n * k)).
Proof.
  intros H k L. unfold slice_outs in *. rewrite map_length in L.
  pose proof (fchunks_length_le (length xs) n xs) as B.
  assert (Lx : S n * k <= length xs) by nia.
  destruct (H _ Lx) as [i' HS]. exists (SliceN (Z.of_nat (S n)) i'). rewrite firstn_map.
  apply (slice_steps n k _ _ _ _ _ _ L HS).
Qed.

(* ========================================================================================================= *)
(* the whole operator list                                                                                     *)
(* ========================================================================================================= *)
Inductive aop :=
| AX (o : xop)                                   (* select where skip take takeWhile skipWhile enumerate memorize(= member projection)
                                                    append/concat/+ accumulate limiter *)
| ADistinct (key : option lam)
| AZip (ls : list (list val))
| AInsert (pos : Z) (v : val)
| AInsertMany (pos : Z) (vs : list val)
| ADelete (pos cnt : Z)
| AReplace (pos : Z) (vals : list val) (cnt : Z)  (* replace = one value, replaceMany = several *)
| ASlice (n : nat)                                (* slice(n + 1) *)
| ASelectMany (f : lam)
| AJoin (l2 : list val) (p f : lam2).

Definition abuild (o : aop) (i : it) : it :=
  match o with
  | AX x => xbuild x i
  | ADistinct key => Distinct key [] i
  | AZip ls => Zip (i :: map OfList ls)
  | AInsert pos v => InsertAt pos v 0 i
  | AInsertMany pos vs => if (pos <? 0)%Z then Chain (OfList vs) (InsertMany pos (OfList []) 0 i) else InsertMany pos (OfList vs) 0 i
  | ADelete pos cnt => DeleteAt pos cnt 0 i
  | AReplace pos vals cnt => ReplaceAt pos cnt vals false 0 i
  | ASlice n => SliceN (Z.of_nat (S n)) i
  | ASelectMany f => SelectMany f i
  | AJoin l2 p f => Join p f l2 None i
  end.

Definition lt1 (q : Z) (x : val) : bool := true.

(* outputs determined by the input prefix, inputs needed for k outputs, lambda applications for them *)
Definition aspec (o : aop) (xs : list val) : list val * (nat -> nat) * (nat -> nat) :=
  match o with
  | AX x => (xouts x xs, xneed x xs, xtks x xs)
  | ADistinct key =>
      (touts _ (dis_out key) (dis_nq key) (dis_live key) [] xs,
       tneed _ (dis_out key) (dis_nq key) (dis_live key) [] xs,
       ttks _ (dis_out key) (dis_tr key) (dis_nq key) (dis_live key) [] xs)
  | AZip ls =>
      (touts _ zip_out zip_nq zip_live ls xs, tneed _ zip_out zip_nq zip_live ls xs,
       ttks _ zip_out (fun _ _ => 0) zip_nq zip_live ls xs)
  | AInsert pos v =>
      (touts _ (ins_out pos v) (fun q _ => (q + 1)%Z) lt1 0%Z xs, tneed _ (ins_out pos v) (fun q _ => (q + 1)%Z) lt1 0%Z xs,
       fun _ => 0)
  | AInsertMany pos vs =>
      if (pos <? 0)%Z
      then (vs ++ touts _ (im_out pos vs) (im_nq pos) (fun _ _ => true) (0%Z, true) xs,
            (fun k => tneed _ (im_out pos vs) (im_nq pos) (fun _ _ => true) (0%Z, true) xs (k - length vs)), fun _ => 0)
      else (touts _ (im_out pos vs) (im_nq pos) (fun _ _ => true) (0%Z, false) xs,
            tneed _ (im_out pos vs) (im_nq pos) (fun _ _ => true) (0%Z, false) xs, fun _ => 0)
  | ADelete pos cnt =>
      (touts _ (del_out pos cnt) del_nq lt1 0%Z xs, tneed _ (del_out pos cnt) del_nq lt1 0%Z xs, fun _ => 0)
  | AReplace pos vals cnt =>
      (touts _ (rep_out pos cnt vals) (rep_nq pos cnt) (fun _ _ => true) (false, 0%Z) xs,
       tneed _ (rep_out pos cnt vals) (rep_nq pos cnt) (fun _ _ => true) (false, 0%Z) xs, fun _ => 0)
  | ASlice n => (slice_outs n xs, (fun k => S n * k), fun _ => 0)
  | ASelectMany f =>
      (touts _ (sm_out f) (fun _ _ => tt) (fun _ _ => true) tt xs, tneed _ (sm_out f) (fun _ _ => tt) (fun _ _ => true) tt xs,
       ttks _ (sm_out f) (sm_tr f) (fun _ _ => tt) (fun _ _ => true) tt xs)
  | AJoin l2 p f =>
      (touts _ (fun _ x => jout p f x l2) (fun _ _ => tt) (fun _ _ => true) tt xs,
       tneed _ (fun _ x => jout p f x l2) (fun _ _ => tt) (fun _ _ => true) tt xs,
       ttks _ (fun _ x => jout p f x l2) (fun _ x => jtrail p f x l2) (fun _ _ => tt) (fun _ _ => true) tt xs)
  end.
Definition aouts o xs := fst (fst (aspec o xs)).
Definition aneed o xs := snd (fst (aspec o xs)).
Definition atks o xs := snd (aspec o xs).

(* transducers that apply no lambda: their tick function is constantly zero *)
Lemma ttks_zero Q (out : Q -> val -> list (val * nat)) nq live :
  (forall q x, sumt (out q x) = 0) -> forall xs q k, ttks Q out (fun _ _ => 0) nq live q xs k = 0.
Proof.
  intros Z0 xs. induction xs as [|x r IH]; intros q k; cbn [ttks]; [reflexivity|]. destruct k; [reflexivity|].
  destruct (live q x); [|reflexivity]. destruct (S k <=? length (out q x)) eqn:E.
  - pose proof (Z0 q x) as Z1. rewrite <- (firstn_skipn (S k) (out q x)), sumt_app in Z1. lia.
  - rewrite Z0, IH. reflexivity.
Qed.

Lemma aop_like o i xs cp ct : Like i xs cp ct ->
  Like (abuild o i) (aouts o xs) (fun k => cp (aneed o xs k)) (fun k => ct (aneed o xs k) + atks o xs k).
Proof.
  intro H. unfold aouts, aneed, atks. destruct o; cbn [abuild aspec fst snd].
  - apply xop_like. exact H.
  - apply (trans_like _ (dis_T key) (dis_out key) (dis_tr key) (dis_nq key) (dis_live key) (dis_HF key) [] i xs cp ct H).
  - apply (trans_like _ zip_T zip_out (fun _ _ => 0) zip_nq zip_live zip_HF ls i xs cp ct H).
  - pose proof (trans_like _ (ins_T pos v) (ins_out pos v) (fun _ _ => 0) (fun q _ => (q + 1)%Z) lt1
                           (fun q i0 x i1 dp dt L Y => ins_HF pos v q i0 x i1 dp dt eq_refl Y) 0%Z i xs cp ct H) as R.
    intros k L. destruct (R k L) as [j HS]. exists j. eapply StepsD_eq; [exact HS | reflexivity |].
    rewrite ttks_zero; [lia|]. intros q x. unfold ins_out. destruct (q =? pos)%Z; reflexivity.
  - destruct (pos <? 0)%Z eqn:Ng; cbn [fst snd].
    + pose proof (trans_like _ (im_T pos vs) (im_out pos vs) (fun _ _ => 0) (im_nq pos) (fun _ _ => true)
                             (fun q i0 x i1 dp dt L Y => im_HF pos vs q i0 x i1 dp dt eq_refl Y) (0%Z, true) i xs cp ct H) as R.
      pose proof (like_prepend_list vs _ _ _ _ R) as R2. intros k L. destruct (R2 k L) as [j HS]. exists j.
      eapply StepsD_eq; [exact HS | reflexivity |]. cbn beta. rewrite ttks_zero; [lia|].
      intros q x. unfold im_out. destruct (fst q =? pos)%Z; [apply zt_sumt | reflexivity].
    + pose proof (trans_like _ (im_T pos vs) (im_out pos vs) (fun _ _ => 0) (im_nq pos) (fun _ _ => true)
                             (fun q i0 x i1 dp dt L Y => im_HF pos vs q i0 x i1 dp dt eq_refl Y) (0%Z, false) i xs cp ct H) as R.
      intros k L. destruct (R k L) as [j HS]. exists j. eapply StepsD_eq; [exact HS | reflexivity |].
      rewrite ttks_zero; [lia|]. intros q x. unfold im_out. destruct (fst q =? pos)%Z; [apply zt_sumt | reflexivity].
  - pose proof (trans_like _ (del_T pos cnt) (del_out pos cnt) (fun _ _ => 0) del_nq lt1
                           (fun q i0 x i1 dp dt L Y => del_HF pos cnt q i0 x i1 dp dt eq_refl Y) 0%Z i xs cp ct H) as R.
    intros k L. destruct (R k L) as [j HS]. exists j. eapply StepsD_eq; [exact HS | reflexivity |].
    rewrite ttks_zero; [lia|]. intros q x. unfold del_out. destruct (del_keep pos cnt q); reflexivity.
  - pose proof (trans_like _ (rep_T pos cnt vals) (rep_out pos cnt vals) (fun _ _ => 0) (rep_nq pos cnt) (fun _ _ => true)
                           (fun q i0 x i1 dp dt L Y => rep_HF pos cnt vals q i0 x i1 dp dt eq_refl Y) (false, 0%Z) i xs cp ct H) as R.
    intros k L. destruct (R k L) as [j HS]. exists j. eapply StepsD_eq; [exact HS | reflexivity |].
    rewrite ttks_zero; [lia|]. intros q x. unfold rep_out. destruct (in_window pos cnt (snd q)); [destruct (fst q); [reflexivity | apply zt_sumt] | reflexivity].
  - pose proof (slice_like n i xs cp ct H) as R. intros k L. destruct (R k L) as [j HS]. exists j.
    eapply StepsD_eq; [exact HS | reflexivity | lia].
  - apply (trans_like _ (sm_T f) (sm_out f) (sm_tr f) (fun _ _ => tt) (fun _ _ => true)
                      (fun q i0 x i1 dp dt L Y => sm_HF f q i0 x i1 dp dt eq_refl Y) tt i xs cp ct H).
  - apply (trans_like _ (join_T p f l2) (fun _ x => jout p f x l2) (fun _ x => jtrail p f x l2) (fun _ _ => tt) (fun _ _ => true)
                      (fun q i0 x i1 dp dt L Y => join_HF p f l2 q i0 x i1 dp dt eq_refl Y) tt i xs cp ct H).
Qed.

Fixpoint abuild_all (ops : list aop) (i : it) : it :=
  match ops with [] => i | o :: r => abuild_all r (abuild o i) end.
Fixpoint aouts_all (ops : list aop) (xs : list val) : list val :=
  match ops with [] => xs | o :: r => aouts_all r (aouts o xs) end.
Fixpoint aneed_all (ops : list aop) (xs : list val) (k : nat) : nat :=
  match ops with [] => k | o :: r => aneed o xs (aneed_all r (aouts o xs) k) end.
Fixpoint atks_all (ops : list aop) (xs : list val) (k : nat) : nat :=
  match ops with
  | [] => 0
  | o :: r => atks o xs (aneed_all r (aouts o xs) k) + atks_all r (aouts o xs) k
  end.

Lemma apipeline_like ops : forall i xs cp ct, Like i xs cp ct ->
  Like (abuild_all ops i) (aouts_all ops xs) (fun k => cp (aneed_all ops xs k)) (fun k => ct (aneed_all ops xs k) + atks_all ops xs k).
Proof.
  induction ops as [|o r IH]; intros i xs cp ct H.
  - cbn. intros m L. destruct (H m L) as [i' HS]. exists i'. eapply StepsD_eq; [exact HS | reflexivity | lia].
  - cbn [abuild_all aouts_all aneed_all atks_all]. pose proof (IH _ _ _ _ (aop_like o i xs cp ct H)) as R.
    intros m L. destruct (R m L) as [i' HS]. exists i'. eapply StepsD_eq; [exact HS | reflexivity | cbn; lia].
Qed.

Theorem apipeline_demand_run ops k0 n k s :
  let xs := src_prefix k0 n in
  k <= length (aouts_all ops xs) ->
  exists fuel s' i',
    run fuel s (abuild_all ops (Src k0)) k = (s', firstn k (aouts_all ops xs), Running i') /\
    pulls s' = pulls s + aneed_all ops xs k /\
    pulls s' <= pulls s + aneed_all ops xs k + 1 /\
    ticks s' = ticks s + atks_all ops xs k.
Proof.
  intros xs L. destruct (apipeline_like ops _ _ _ _ (src_like k0 n) k L) as [i' HS].
  destruct (steps_run _ _ _ _ _ HS s) as [fuel R]. fold xs in R.
  rewrite firstn_length in R. replace (Nat.min k (length (aouts_all ops xs))) with k in R by lia.
  exists fuel, (plus_st s (aneed_all ops xs k) (atks_all ops xs k)), i'. split; [exact R|]. cbn. lia.
Qed.

Theorem atake_k_drain ops k0 n k s :
  let xs := src_prefix k0 n in
  k <= length (aouts_all ops xs) ->
  exists fuel s',
    drain fuel s (ISlice 0 (Some k) (abuild_all ops (Src k0))) = (s', Ok (firstn k (aouts_all ops xs))) /\
    pulls s' = pulls s + aneed_all ops xs k /\ ticks s' = ticks s + atks_all ops xs k.
Proof.
  intros xs L. destruct (apipeline_like ops _ _ _ _ (src_like k0 n) k L) as [i' HS]. fold xs in HS.
  assert (Lk : length (firstn k (aouts_all ops xs)) <= k) by (rewrite firstn_length; lia).
  pose proof (take_steps _ k _ _ _ _ HS Lk) as T. rewrite firstn_length in T.
  replace (k - Nat.min k (length (aouts_all ops xs))) with 0 in T by lia.
  destruct (drain_cost _ _ _ _ _ _ _ T (take_stops i') s) as [fuel D].
  exists fuel, (plus_st s (aneed_all ops xs k + 0) (0 + atks_all ops xs k + 0)). split; [exact D|]. cbn. lia.
Qed.
