(* Scoping and evaluation-order facts about the reference interpreter. *)
From Coq Require Import List ZArith Bool Arith Lia.
From YV Require Import Common.Corr Common.CorrFacts Model.Eval Lemmas.EvalFrame.
Import ListNotations.

(* ---- variable lookup = nearest defining layer ---- *)
Fixpoint layers (fuel : nat) (h : list ctxrec) (c : nat) : list ctxrec :=
  match fuel with
  | O => []
  | S f => match nth_error h c with
           | None => []
           | Some r => r :: match cparent r with Some p => layers f h p | None => [] end
           end
  end.

Fixpoint first_def (ls : list ctxrec) (n : str) : option val :=
  match ls with
  | [] => None
  | r :: rest => match assoc_last (cdata r) n with Some v => Some v | None => first_def rest n end
  end.

Lemma get_data_layers fuel : forall h c n,
  get_data fuel h c n = match first_def (layers fuel h c) n with Some v => v | None => VNull end.
Proof.
  induction fuel as [|f IH]; intros h c n; [reflexivity|].
  cbn [get_data layers]. destruct (nth_error h c) as [r|]; [|reflexivity].
  cbn [first_def]. destruct (assoc_last (cdata r) n); [reflexivity|].
  destruct (cparent r); [apply IH|reflexivity].
Qed.

Lemma lookup_nearest h c n :
  lookup h c n = match first_def (layers (S (length h)) h c) (norm n) with Some v => v | None => VNull end.
Proof. apply get_data_layers. Qed.

Lemma lookup_unknown_null h c n :
  first_def (layers (S (length h)) h c) (norm n) = None -> lookup h c n = VNull.
Proof. intro H. rewrite lookup_nearest, H. reflexivity. Qed.

Lemma lookup_shadow h c n r v :
  nth_error h c = Some r -> assoc_last (cdata r) (norm n) = Some v -> lookup h c n = v.
Proof. intros Hr Hv. unfold lookup. cbn [get_data]. now rewrite Hr, Hv. Qed.

Lemma lookup_dollar_alias h c : lookup h c [] = lookup h c [49%Z].
Proof. reflexivity. Qed.

(* ---- $1..$n of the innermost lambda ---- *)
Definition dstep (a : nat) (d : Z) : nat := 10 * a + Z.to_nat (d - 48).
Definition parse_nat (s : str) : nat := fold_left dstep s 0.

Lemma nat_str_aux_parse f : forall n acc, n < f ->
  fold_left dstep (nat_str_aux f n acc) 0 = fold_left dstep acc n.
Proof.
  induction f as [|f IH]; intros n acc Hn; [lia|].
  cbn [nat_str_aux]. destruct (Nat.ltb n 10) eqn:Lt.
  - apply Nat.ltb_lt in Lt. cbn [fold_left]. f_equal. unfold dstep.
    rewrite Nat.mod_small by lia. lia.
  - apply Nat.ltb_ge in Lt. rewrite IH.
    + cbn [fold_left]. f_equal. unfold dstep.
      pose proof (Nat.div_mod n 10 ltac:(lia)).
      pose proof (Nat.mod_upper_bound n 10 ltac:(lia)). lia.
    + pose proof (Nat.div_lt n 10 ltac:(lia) ltac:(lia)). lia.
Qed.

Lemma parse_nat_str n : parse_nat (nat_str n) = n.
Proof. unfold parse_nat, nat_str. rewrite nat_str_aux_parse by lia. reflexivity. Qed.

Lemma nat_str_one j : nat_str j = [49%Z] -> j = 1.
Proof. intro H. apply (f_equal parse_nat) in H. rewrite parse_nat_str in H. exact H. Qed.

Lemma assoc_app_hit {A} (l1 l2 : list (str * A)) k v : assoc l1 k = Some v -> assoc (l1 ++ l2) k = Some v.
Proof.
  induction l1 as [|[k' v'] l1 IH]; cbn; [discriminate|]. destruct (str_eqb k k'); [auto|apply IH].
Qed.
Lemma assoc_app_miss {A} (l1 l2 : list (str * A)) k : assoc l1 k = None -> assoc (l1 ++ l2) k = assoc l2 k.
Proof.
  induction l1 as [|[k' v'] l1 IH]; cbn; [reflexivity|]. destruct (str_eqb k k'); [discriminate|apply IH].
Qed.

Lemma later_positions_miss l : forall i, 2 <= i -> assoc (rev (number_from i l)) [49%Z] = None.
Proof.
  induction l as [|v l IH]; intros i Hi; cbn [number_from rev]; [reflexivity|].
  rewrite assoc_app_miss by (apply IH; lia). cbn [assoc].
  destruct (str_eqb [49%Z] (nat_str i)) eqn:E; [|reflexivity].
  apply str_eqb_spec in E. symmetry in E. apply nat_str_one in E. lia.
Qed.

(* The context allocated for a lambda invocation binds $ (= $1) to the first argument, whatever
   the enclosing contexts bind (no keyword argument can be named "1": keywords are identifiers). *)
Lemma invoke_binds_dollar h cap a pos kw :
  assoc (rev kw) [49%Z] = None ->
  let r := {| cparent := Some cap; cdata := number_from 1 (a :: pos) ++ kw; cfuncs := [] |} in
  lookup (h ++ [r]) (length h) [] = a /\ lookup (h ++ [r]) (length h) [49%Z] = a.
Proof.
  intros Hkw r.
  assert (Hn : nth_error (h ++ [r]) (length h) = Some r)
    by (rewrite nth_error_app2, Nat.sub_diag by lia; reflexivity).
  assert (Hl : lookup (h ++ [r]) (length h) [49%Z] = a).
  { apply (lookup_shadow _ _ _ r a Hn). unfold assoc_last. cbn [cdata r norm].
    rewrite rev_app_distr, assoc_app_miss by exact Hkw.
    cbn [number_from rev]. rewrite assoc_app_miss by (apply later_positions_miss; lia).
    reflexivity. }
  split; [|exact Hl]. rewrite lookup_dollar_alias. exact Hl.
Qed.

(* a named argument is visible under its name, whatever the enclosing contexts bind *)
Lemma invoke_binds_named h cap pos kw n v :
  n <> [] -> assoc (rev kw) n = Some v ->
  let r := {| cparent := Some cap; cdata := number_from 1 pos ++ kw; cfuncs := [] |} in
  lookup (h ++ [r]) (length h) n = v.
Proof.
  intros Hn Hkw r.
  assert (Hr : nth_error (h ++ [r]) (length h) = Some r)
    by (rewrite nth_error_app2, Nat.sub_diag by lia; reflexivity).
  apply (lookup_shadow _ _ _ r v Hr). unfold assoc_last. cbn [cdata r].
  destruct n; [congruence|]. cbn [norm].
  rewrite rev_app_distr. now apply assoc_app_hit.
Qed.


(* one-step unfoldings *)
Lemma eval_user_unfold f s c name args kw :
  eval (S f) s c (EUser name args kw) =
  match lookup_func (heap s) c name with
  | None => (s, Unsup)
  | Some (body, cap) =>
      match eval_seq (eval f) s c args with
      | (s1, Ok pv) =>
          match eval_kw (eval f) s1 c kw with
          | (s2, Ok kv) => invoke (eval f) s2 body cap pv kv
          | (s2, Err x) => (s2, Err x) | (s2, Unsup) => (s2, Unsup) | (s2, Fuel) => (s2, Fuel)
          end
      | (s1, Err x) => (s1, Err x) | (s1, Unsup) => (s1, Unsup) | (s1, Fuel) => (s1, Fuel)
      end
  end.
Proof. reflexivity. Qed.

Lemma eval_list_unfold f s c es :
  eval (S f) s c (EList es) =
  match eval_seq (eval f) s c es with
  | (s1, Ok vs) => (s1, Ok (VList vs))
  | (s1, Err k) => (s1, Err k) | (s1, Unsup) => (s1, Unsup) | (s1, Fuel) => (s1, Fuel)
  end.
Proof. reflexivity. Qed.

Lemma eval_tick_unfold f s c id a :
  eval (S f) s c (ETick id a) =
  match eval f s c a with
  | (s1, Ok v) => (tick s1 id, Ok v)
  | (s1, Err x) => (s1, Err x) | (s1, Unsup) => (s1, Unsup) | (s1, Fuel) => (s1, Fuel)
  end.
Proof. reflexivity. Qed.

(* ---- lexical scoping: a call of a def'd function is a function of the closure and the argument
   values; the context it is called from does not enter ---- *)
Lemma eval_seq_consts f s c cs :
  eval_seq (eval (S f)) s c (map EConst cs)
  = (s, Ok (map (fun k => match k with CNull => VNull | CBool b => VBool b | CInt z => VInt z | CStr x => VStr x end) cs)).
Proof.
  induction cs as [|k cs IH]; [reflexivity|].
  cbn [map eval_seq]. replace (eval (S f) s c (EConst k)) with
    (s, Ok (match k with CNull => VNull | CBool b => VBool b | CInt z => VInt z | CStr x => VStr x end))
    by (destruct k; reflexivity).
  rewrite IH. reflexivity.
Qed.

Lemma call_is_lexical f s c1 c2 name body cap cs :
  lookup_func (heap s) c1 name = Some (body, cap) ->
  lookup_func (heap s) c2 name = Some (body, cap) ->
  eval (S (S f)) s c1 (EUser name (map EConst cs) []) = eval (S (S f)) s c2 (EUser name (map EConst cs) []).
Proof.
  intros H1 H2. rewrite !eval_user_unfold, H1, H2, !eval_seq_consts. reflexivity.
Qed.

(* ---- short circuits (C11) ---- *)
Lemma and_short f s c a b s1 v :
  eval f s c a = (s1, Ok v) -> truthy v = Ok false ->
  eval (S f) s c (EBin OAnd a b) = (s1, Ok v).
Proof. intros Ha Ht. cbn [eval]. now rewrite Ha, Ht. Qed.

Lemma and_long f s c a b s1 v :
  eval f s c a = (s1, Ok v) -> truthy v = Ok true ->
  eval (S f) s c (EBin OAnd a b) = eval f s1 c b.
Proof. intros Ha Ht. cbn [eval]. now rewrite Ha, Ht. Qed.

Lemma or_short f s c a b s1 v :
  eval f s c a = (s1, Ok v) -> truthy v = Ok true ->
  eval (S f) s c (EBin OOr a b) = (s1, Ok v).
Proof. intros Ha Ht. cbn [eval]. now rewrite Ha, Ht. Qed.

Lemma or_long f s c a b s1 v :
  eval f s c a = (s1, Ok v) -> truthy v = Ok false ->
  eval (S f) s c (EBin OOr a b) = eval f s1 c b.
Proof. intros Ha Ht. cbn [eval]. now rewrite Ha, Ht. Qed.

Lemma elvis_null f s c a name args s1 :
  eval f s c a = (s1, Ok VNull) -> eval (S f) s c (EElvis a name args) = (s1, Ok VNull).
Proof. intros Ha. cbn [eval]. now rewrite Ha. Qed.

Lemma switch_first_true f s c ce ve rest s1 v :
  eval f s c ce = (s1, Ok v) -> truthy v = Ok true ->
  eval (S f) s c (ESwitch ((ce, ve) :: rest)) = eval f s1 c ve.
Proof. intros Ha Ht. cbn [eval eval_switch]. now rewrite Ha, Ht. Qed.

Lemma switch_skip_false f s c ce ve rest s1 v :
  eval f s c ce = (s1, Ok v) -> truthy v = Ok false ->
  eval (S f) s c (ESwitch ((ce, ve) :: rest)) = eval (S f) s1 c (ESwitch rest).
Proof. intros Ha Ht. cbn [eval eval_switch]. now rewrite Ha, Ht. Qed.

Lemma coalesce_first_nonnull f s c a rest s1 v :
  eval f s c a = (s1, Ok v) -> v <> VNull ->
  eval (S f) s c (ECoalesce (a :: rest)) = (s1, Ok v).
Proof. intros Ha Hv. cbn [eval eval_coalesce]. rewrite Ha. destruct v; congruence. Qed.

Lemma coalesce_skip_null f s c a rest s1 :
  eval f s c a = (s1, Ok VNull) ->
  eval (S f) s c (ECoalesce (a :: rest)) = eval (S f) s1 c (ECoalesce rest).
Proof. intros Ha. cbn [eval eval_coalesce]. now rewrite Ha. Qed.

(* ---- eager arguments: each once, in source order ---- *)
Definition tick_const (id : Z) : expr := ETick id (EConst CNull).

Lemma ticks_in_order f ids : forall s c,
  eval_seq (eval (S (S f))) s c (map tick_const ids)
  = ({| heap := heap s; log := log s ++ ids |}, Ok (map (fun _ => VNull) ids)).
Proof.
  induction ids as [|i ids IH]; intros s c.
  - cbn. rewrite app_nil_r. destruct s; reflexivity.
  - cbn [map eval_seq]. unfold tick_const at 1. rewrite eval_tick_unfold.
    replace (eval (S f) s c (EConst CNull)) with (s, @Ok val VNull) by reflexivity.
    rewrite IH. cbn [tick heap log]. rewrite <- app_assoc. reflexivity.
Qed.

(* a call of a def'd function evaluates its arguments once, left to right, before the body runs *)
Lemma call_args_once_in_order f s c name body cap ids :
  lookup_func (heap s) c name = Some (body, cap) ->
  eval (S (S (S f))) s c (EUser name (map tick_const ids) [])
  = invoke (eval (S (S f))) {| heap := heap s; log := log s ++ ids |} body cap (map (fun _ => VNull) ids) [].
Proof. intro H. rewrite eval_user_unfold, H, ticks_in_order. reflexivity. Qed.

Lemma list_args_once_in_order f s c ids :
  eval (S (S (S f))) s c (EList (map tick_const ids))
  = ({| heap := heap s; log := log s ++ ids |}, Ok (VList (map (fun _ => VNull) ids))).
Proof. rewrite eval_list_unfold, ticks_in_order. reflexivity. Qed.

(* ---- per-element lambdas: once per element CONSUMED (C11) ---- *)
Definition tick_body (id : Z) : expr := ETick id (EVar []).       (* the lambda  tick(id, $)  *)

Lemma invoke_tick_body f s cap id x :
  invoke (eval (S (S f))) s (tick_body id) cap [x] []
  = ({| heap := heap s ++ [{| cparent := Some cap; cdata := [([49%Z], x)]; cfuncs := [] |}]; log := log s ++ [id] |}, Ok x).
Proof.
  unfold invoke, alloc, tick_body. rewrite eval_tick_unfold.
  replace (eval (S f) _ (length (heap s)) (EVar [])) with
    ({| heap := heap s ++ [{| cparent := Some cap; cdata := number_from 1 [x] ++ []; cfuncs := [] |}]; log := log s |},
     @Ok val (lookup (heap s ++ [{| cparent := Some cap; cdata := number_from 1 [x] ++ []; cfuncs := [] |}]) (length (heap s)) []))
    by reflexivity.
  pose proof (invoke_binds_dollar (heap s) cap x [] [] eq_refl) as [Hd _]. cbn zeta in Hd. rewrite Hd.
  reflexivity.
Qed.

(* draining  src.select(tick(id, $)) : the log grows by exactly one id per element, the values are the elements *)
Lemma force_select_ticks f cap id : forall src s,
  exists h', force (eval (S (S f))) s src [LMap (tick_body id) cap]
             = ({| heap := heap s ++ h'; log := log s ++ repeat id (length src) |}, Ok src).
Proof.
  induction src as [|x src IH]; intros s.
  - exists []. cbn. rewrite !app_nil_r. destruct s; reflexivity.
  - cbn [force through]. rewrite invoke_tick_body. cbn [through].
    match goal with |- context [force _ ?s1 src _] => destruct (IH s1) as [h' E] end.
    rewrite E. cbn [heap log length repeat]. eexists. rewrite <- !app_assoc. reflexivity.
Qed.

(* first() on  src.select(tick(id, $)) : exactly ONE application, whatever the length of the source *)
Lemma force_first_select_ticks f cap id x src s :
  exists h', force_first (eval (S (S f))) s (x :: src) [LMap (tick_body id) cap]
             = ({| heap := heap s ++ h'; log := log s ++ [id] |}, Ok (Some x)).
Proof. cbn [force_first through]. rewrite invoke_tick_body. cbn [through]. eexists. reflexivity. Qed.
