(* Statement.evaluate on a host context chain: what changes in the pre-existing contexts. *)
From Coq Require Import List ZArith Bool Arith Lia.
From YV Require Import Common.Corr Model.Eval Lemmas.EvalFrame.
Import ListNotations.

Lemma set_data_length h : forall c n v, length (set_data h c n v) = length h.
Proof. induction h as [|r t IH]; intros [|c] n v; cbn; auto. Qed.

Lemma set_data_other h : forall c n v i, i <> c -> nth_error (set_data h c n v) i = nth_error h i.
Proof.
  induction h as [|r t IH]; intros [|c] n v [|i] H; cbn; try reflexivity; try congruence.
  apply IH. congruence.
Qed.

Lemma set_data_self h : forall c n v r, nth_error h c = Some r ->
  nth_error (set_data h c n v) c
  = Some {| cparent := cparent r; cdata := cdata r ++ [(norm n, v)]; cfuncs := cfuncs r |}.
Proof.
  induction h as [|r0 t IH]; intros [|c] n v r H; cbn in *; try discriminate.
  - injection H as ->. reflexivity.
  - now apply IH.
Qed.

Lemma evaluate_ext fuel host c data e s' r :
  evaluate fuel host c data e = (s', r) ->
  ext {| heap := match data with Some d => set_data host c [] d | None => host end; log := [] |} s'.
Proof.
  unfold evaluate. intro H.
  destruct (eval fuel _ c e) as [s1 r1] eqn:E. apply eval_ext in E.
  destruct r1; try (inversion H; subst; exact E).
  apply finalize_ext in H. eapply ext_trans; eassumption.
Qed.

Lemma evaluate_host_frame fuel host c data e s' r :
  evaluate fuel host c data e = (s', r) ->
  (forall i, i < length host -> i <> c -> nth_error (heap s') i = nth_error host i)
  /\ (forall rc, nth_error host c = Some rc ->
        nth_error (heap s') c = Some match data with
                                     | Some d => {| cparent := cparent rc; cdata := cdata rc ++ [([49%Z], d)]; cfuncs := cfuncs rc |}
                                     | None => rc end).
Proof.
  intro H. apply evaluate_ext in H. split.
  - intros i Hi Hc. rewrite (ext_old_context _ _ i H).
    + cbn [heap]. destruct data; [now apply set_data_other|reflexivity].
    + cbn [heap]. destruct data; [rewrite set_data_length|]; exact Hi.
  - intros rc Hrc.
    assert (Hlt : c < length host) by (apply nth_error_Some; congruence).
    rewrite (ext_old_context _ _ c H).
    + cbn [heap]. destruct data; [|exact Hrc]. now apply set_data_self.
    + cbn [heap]. destruct data; [rewrite set_data_length|]; exact Hlt.
Qed.

(* a call through a host-built YaqlInterface leaves EVERY context of the host's chain as it was *)
Lemma iface_call_host_frame fuel host c pos kw e s' r :
  iface_call fuel host c pos kw e = (s', r) ->
  (exists h l, heap s' = host ++ h /\ log s' = l)
  /\ forall i, i < length host -> nth_error (heap s') i = nth_error host i.
Proof.
  unfold iface_call. destruct (alloc _ _) as [s1 c1] eqn:A. intro H.
  pose proof (alloc_ext _ _ _ _ A) as E0.
  assert (E : ext {| heap := host; log := [] |} s').
  { destruct (eval fuel s1 c1 e) as [s2 r2] eqn:E2. apply eval_ext in E2.
    destruct r2; try (inversion H; subst; eapply ext_trans; eassumption).
    apply finalize_ext in H. eapply ext_trans; [exact E0|]. eapply ext_trans; eassumption. }
  split.
  - destruct E as (h & l & Hh & Hl). exists h, l. cbn in Hh, Hl. split; assumption.
  - intros i Hi. apply (ext_old_context _ _ i E). exact Hi.
Qed.
