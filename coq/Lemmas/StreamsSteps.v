(* Behaviour of the iterator algebra, one lemma per operator.

   [YieldsD i v i' dp dt]: from EVERY state, one [next] on i yields v, continues
   as i', and costs dp pulls of the instrumented source and dt lambda applications.
   [StepsD i l dp dt i']: successive [next]s yield exactly l at total cost (dp, dt).
   [EndsD i dp dt]: one more [next] answers Done at that cost.
   The per-operator lemmas say how many steps of the inner iterator one step of the
   operator takes - the demand of the operator - and what it does to the values. *)
From Coq Require Import List ZArith Bool Arith Lia.
From YV Require Import Common.Corr Model.Queries Model.Streams Lemmas.StreamsMono.
Import ListNotations.

Definition plus_st (s : st) (dp dt : nat) : st := mkst (pulls s + dp) (ticks s + dt).

Definition YieldsD (i : it) (v : val) (i' : it) (dp dt : nat) : Prop :=
  forall s, exists fuel, next fuel s i = (plus_st s dp dt, Yield v i').
Definition EndsD (i : it) (dp dt : nat) : Prop :=
  forall s, exists fuel, next fuel s i = (plus_st s dp dt, Done).
Definition FailsD (i : it) (e : err) (dp dt : nat) : Prop :=
  forall s, exists fuel, next fuel s i = (plus_st s dp dt, Fail e).

Fixpoint StepsD (i : it) (l : list val) (dp dt : nat) (i' : it) : Prop :=
  match l with
  | [] => i' = i /\ dp = 0 /\ dt = 0
  | v :: r => exists i1 dp1 dt1 dp2 dt2,
                YieldsD i v i1 dp1 dt1 /\ StepsD i1 r dp2 dt2 i' /\ dp = dp1 + dp2 /\ dt = dt1 + dt2
  end.

(* the iterator denotes the finite list l *)
Definition Denotes (i : it) (l : list val) : Prop :=
  exists dp dt i' dp' dt', StepsD i l dp dt i' /\ EndsD i' dp' dt'.

Lemma plus_st_plus s a b c d : plus_st (plus_st s a b) c d = plus_st s (a + c) (b + d).
Proof. unfold plus_st. cbn. f_equal; lia. Qed.
Lemma tick_plus s a b : tick (plus_st s a b) = plus_st s a (b + 1).
Proof. unfold tick, plus_st. cbn. f_equal; lia. Qed.
Lemma pull_plus s a b : pull (plus_st s a b) = plus_st s (a + 1) b.
Proof. unfold pull, plus_st. cbn. f_equal; lia. Qed.
Lemma plus_st_0 s : plus_st s 0 0 = s.
Proof. destruct s. unfold plus_st. cbn. f_equal; lia. Qed.
Lemma plus_st_eq s a b a' b' : a = a' -> b = b' -> plus_st s a b = plus_st s a' b'.
Proof. intros -> ->. reflexivity. Qed.

Lemma yields_at i v i' dp dt : YieldsD i v i' dp dt ->
  forall s, exists fuel, forall fuel', fuel <= fuel' -> next fuel' s i = (plus_st s dp dt, Yield v i').
Proof. intros H s. destruct (H s) as [f E]. exists f. intros f' L. exact (next_yield_mono _ _ _ _ _ _ _ E L). Qed.

Lemma ends_at i dp dt : EndsD i dp dt ->
  forall s, exists fuel, forall fuel', fuel <= fuel' -> next fuel' s i = (plus_st s dp dt, Done).
Proof. intros H s. destruct (H s) as [f E]. exists f. intros f' L. exact (next_done_mono _ _ _ _ _ E L). Qed.

Lemma fails_at i e dp dt : FailsD i e dp dt ->
  forall s, exists fuel, forall fuel', fuel <= fuel' -> next fuel' s i = (plus_st s dp dt, Fail e).
Proof. intros H s. destruct (H s) as [f E]. exists f. intros f' L. exact (next_fail_mono _ _ _ _ _ _ E L). Qed.

Lemma YieldsD_eq i v i' dp dt dp' dt' : YieldsD i v i' dp dt -> dp = dp' -> dt = dt' -> YieldsD i v i' dp' dt'.
Proof. intros H -> ->. exact H. Qed.
Lemma EndsD_eq i dp dt dp' dt' : EndsD i dp dt -> dp = dp' -> dt = dt' -> EndsD i dp' dt'.
Proof. intros H -> ->. exact H. Qed.
Lemma StepsD_eq i l dp dt i' dp' dt' : StepsD i l dp dt i' -> dp = dp' -> dt = dt' -> StepsD i l dp' dt' i'.
Proof. intros H -> ->. exact H. Qed.

Lemma StepsD_cons i v i1 dp1 dt1 r dp2 dt2 i' :
  YieldsD i v i1 dp1 dt1 -> StepsD i1 r dp2 dt2 i' -> StepsD i (v :: r) (dp1 + dp2) (dt1 + dt2) i'.
Proof. intros H1 H2. cbn. exists i1, dp1, dt1, dp2, dt2. repeat split; assumption. Qed.

Lemma StepsD_app i l1 dp1 dt1 i1 l2 dp2 dt2 i2 :
  StepsD i l1 dp1 dt1 i1 -> StepsD i1 l2 dp2 dt2 i2 -> StepsD i (l1 ++ l2) (dp1 + dp2) (dt1 + dt2) i2.
Proof.
  revert i dp1 dt1. induction l1 as [|v r IH]; intros i dp1 dt1 H1 H2.
  - destruct H1 as (-> & -> & ->). exact H2.
  - destruct H1 as (j & a & b & c & d & Y & HS & -> & ->). cbn [app].
    eapply StepsD_eq; [apply (StepsD_cons _ _ _ _ _ _ _ _ _ Y (IH _ _ _ HS H2)) | lia | lia].
Qed.

Lemma StepsD_split i l1 l2 dp dt i2 : StepsD i (l1 ++ l2) dp dt i2 ->
  exists dp1 dt1 i1 dp2 dt2, StepsD i l1 dp1 dt1 i1 /\ StepsD i1 l2 dp2 dt2 i2 /\ dp = dp1 + dp2 /\ dt = dt1 + dt2.
Proof.
  revert i dp dt. induction l1 as [|v r IH]; intros i dp dt H.
  - exists 0, 0, i, dp, dt. repeat split; try reflexivity. exact H.
  - destruct H as (j & a & b & c & d & Y & HS & -> & ->). destruct (IH _ _ _ HS) as (p1 & t1 & i1 & p2 & t2 & S1 & S2 & -> & ->).
    exists (a + p1), (b + t1), i1, p2, t2. repeat split; try lia; try assumption.
    apply (StepsD_cons _ _ _ _ _ _ _ _ _ Y S1).
Qed.

(* ---- sources ------------------------------------------------------------------ *)
Lemma src_yields k : YieldsD (Src k) (VInt k) (Src (k + 1)) 1 0.
Proof. intro s. exists 1. cbn. f_equal. unfold pull, plus_st. f_equal; lia. Qed.

Fixpoint src_prefix (k : Z) (n : nat) : list val :=
  match n with O => [] | S n' => VInt k :: src_prefix (k + 1) n' end.

Lemma src_prefix_length k n : length (src_prefix k n) = n.
Proof. revert k. induction n as [|n IH]; intro k; cbn; [reflexivity | rewrite IH; reflexivity]. Qed.

Lemma src_steps k n : StepsD (Src k) (src_prefix k n) n 0 (Src (k + Z.of_nat n)).
Proof.
  revert k. induction n as [|n IH]; intro k.
  - cbn. repeat split. f_equal. lia.
  - cbn [src_prefix]. replace (k + Z.of_nat (S n))%Z with (k + 1 + Z.of_nat n)%Z by lia.
    eapply StepsD_eq; [apply (StepsD_cons _ _ _ _ _ _ _ _ _ (src_yields k) (IH (k + 1)%Z)) | lia | lia].
Qed.

Lemma oflist_steps l r : StepsD (OfList (l ++ r)) l 0 0 (OfList r).
Proof.
  induction l as [|x l IH]; [cbn; repeat split|]. cbn [app].
  apply (StepsD_cons _ x (OfList (l ++ r)) 0 0 l 0 0); [|exact IH].
  intro s. exists 1. cbn. rewrite plus_st_0. reflexivity.
Qed.

Lemma oflist_ends : EndsD (OfList []) 0 0.
Proof. intro s. exists 1. cbn. rewrite plus_st_0. reflexivity. Qed.

Lemma oflist_denotes l : Denotes (OfList l) l.
Proof.
  exists 0, 0, (OfList []), 0, 0. split; [|apply oflist_ends].
  pose proof (oflist_steps l []) as H. rewrite app_nil_r in H. exact H.
Qed.

(* ---- select ------------------------------------------------------------------- *)
Lemma map_yields f i v i' dp dt : YieldsD i v i' dp dt -> YieldsD (Map f i) (apply f v) (Map f i') dp (dt + 1).
Proof.
  intros H s. destruct (H s) as [fu E]. exists (S fu). cbn [next]. rewrite E. rewrite tick_plus. reflexivity.
Qed.

Lemma map_ends f i dp dt : EndsD i dp dt -> EndsD (Map f i) dp dt.
Proof. intros H s. destruct (H s) as [fu E]. exists (S fu). cbn [next]. rewrite E. reflexivity. Qed.

Lemma map_steps f l : forall i dp dt i', StepsD i l dp dt i' ->
  StepsD (Map f i) (map (apply f) l) dp (dt + length l) (Map f i').
Proof.
  induction l as [|v r IH]; intros i dp dt i' H.
  - destruct H as (-> & -> & ->). cbn. repeat split.
  - destruct H as (j & a & b & c & d & Y & HS & -> & ->). cbn [map length].
    eapply StepsD_eq; [apply (StepsD_cons _ _ _ _ _ _ _ _ _ (map_yields f _ _ _ _ _ Y) (IH _ _ _ _ HS)) | lia | lia].
Qed.

(* ---- where -------------------------------------------------------------------- *)
Definition holds (p : lam) (v : val) : bool := truthy (apply p v).

Lemma filter_hit p i v i' dp dt : YieldsD i v i' dp dt -> holds p v = true ->
  YieldsD (Filter p i) v (Filter p i') dp (dt + 1).
Proof.
  intros H P s. destruct (H s) as [fu E]. exists (S fu). cbn [next]. rewrite E. unfold holds in P. rewrite P.
  rewrite tick_plus. reflexivity.
Qed.

Lemma filter_skip p i x i1 dp1 dt1 v j dp2 dt2 :
  YieldsD i x i1 dp1 dt1 -> holds p x = false -> YieldsD (Filter p i1) v j dp2 dt2 ->
  YieldsD (Filter p i) v j (dp1 + dp2) (dt1 + 1 + dt2).
Proof.
  intros H P H2 s. destruct (yields_at _ _ _ _ _ H s) as [f1 F1].
  destruct (yields_at _ _ _ _ _ H2 (tick (plus_st s dp1 dt1))) as [f2 F2].
  exists (S (Nat.max f1 f2)). cbn [next]. rewrite F1 by lia. unfold holds in P. rewrite P.
  rewrite F2 by lia. rewrite tick_plus, plus_st_plus. reflexivity.
Qed.

Lemma filter_skip_end p i x i1 dp1 dt1 dp2 dt2 :
  YieldsD i x i1 dp1 dt1 -> holds p x = false -> EndsD (Filter p i1) dp2 dt2 ->
  EndsD (Filter p i) (dp1 + dp2) (dt1 + 1 + dt2).
Proof.
  intros H P H2 s. destruct (yields_at _ _ _ _ _ H s) as [f1 F1].
  destruct (ends_at _ _ _ H2 (tick (plus_st s dp1 dt1))) as [f2 F2].
  exists (S (Nat.max f1 f2)). cbn [next]. rewrite F1 by lia. unfold holds in P. rewrite P.
  rewrite F2 by lia. rewrite tick_plus, plus_st_plus. reflexivity.
Qed.

Lemma filter_ends p i dp dt : EndsD i dp dt -> EndsD (Filter p i) dp dt.
Proof. intros H s. destruct (H s) as [fu E]. exists (S fu). cbn [next]. rewrite E. reflexivity. Qed.

(* the consumed prefix is empty or ends with an element that passes: nothing is
   pulled beyond the last element that was needed *)
Definition ends_with_hit (p : lam) (l : list val) : Prop :=
  l = [] \/ exists pre v, l = pre ++ [v] /\ holds p v = true.

Lemma ends_with_hit_tail p x r : ends_with_hit p (x :: r) -> r <> [] -> ends_with_hit p r.
Proof.
  intros [H|(pre & v & E & P)] N; [discriminate H|]. right.
  destruct pre as [|y pre]; cbn in E; injection E as -> E; [contradiction N; symmetry; exact E|].
  exists pre, v. split; assumption.
Qed.

Lemma filter_steps p l : forall i dp dt i', StepsD i l dp dt i' -> ends_with_hit p l ->
  StepsD (Filter p i) (filter (holds p) l) dp (dt + length l) (Filter p i').
Proof.
  induction l as [|x r IH]; intros i dp dt i' H W.
  - destruct H as (-> & -> & ->). cbn. repeat split.
  - destruct H as (j & a & b & c & d & Y & HS & -> & ->). cbn [filter length].
    destruct (holds p x) eqn:P.
    + assert (W' : ends_with_hit p r).
      { destruct r as [|y r']; [left; reflexivity | apply (ends_with_hit_tail p x); [exact W | discriminate]]. }
      eapply StepsD_eq; [apply (StepsD_cons _ _ _ _ _ _ _ _ _ (filter_hit p _ _ _ _ _ Y P) (IH _ _ _ _ HS W')) | lia | lia].
    + assert (N : r <> []).
      { intro E. subst r. destruct W as [W|(pre & v & E & Pv)]; [discriminate W|].
        destruct pre as [|y pre]; cbn in E; [injection E as ->; rewrite P in Pv; discriminate Pv|].
        injection E as _ E. destruct pre; discriminate E. }
      pose proof (IH _ _ _ _ HS (ends_with_hit_tail p x r W N)) as R.
      (* the rest ends with a hit, so its filter is not empty: merge x into its first step *)
      destruct (filter (holds p) r) as [|v rest] eqn:F.
      * exfalso. destruct (ends_with_hit_tail p x r W N) as [E|(pre & v & E & Pv)]; [contradiction|].
        subst r. rewrite filter_app in F. cbn in F. rewrite Pv in F. destruct (filter (holds p) pre); discriminate F.
      * destruct R as (j2 & a2 & b2 & c2 & d2 & Y2 & S2 & Ea & Eb).
        eapply StepsD_eq; [apply (StepsD_cons _ _ _ _ _ _ _ _ _ (filter_skip p _ _ _ _ _ _ _ _ _ Y P Y2) S2) | lia | lia].
Qed.

(* draining: after the last hit only misses follow, then the source ends *)
Lemma filter_misses_end p l : forall i dp dt i' dp' dt', StepsD i l dp dt i' -> EndsD i' dp' dt' ->
  forallb (fun x => negb (holds p x)) l = true ->
  EndsD (Filter p i) (dp + dp') (dt + length l + dt').
Proof.
  induction l as [|x r IH]; intros i dp dt i' dp' dt' H E M.
  - destruct H as (-> & -> & ->). cbn. eapply EndsD_eq; [apply filter_ends; exact E | lia | lia].
  - destruct H as (j & a & b & c & d & Y & HS & -> & ->). cbn [forallb] in M. apply andb_true_iff in M as [Mx Mr].
    apply negb_true_iff in Mx. cbn [length].
    eapply EndsD_eq; [apply (filter_skip_end p _ _ _ _ _ _ _ Y Mx (IH _ _ _ _ _ _ HS E Mr)) | lia | lia].
Qed.

(* ---- take / skip (islice) ------------------------------------------------------ *)
Lemma take_yields b i v i' dp dt : YieldsD i v i' dp dt ->
  YieldsD (ISlice 0 (Some (S b)) i) v (ISlice 0 (Some b) i') dp dt.
Proof. intros H s. destruct (H s) as [fu E]. exists (S fu). cbn [next]. rewrite E. reflexivity. Qed.

Lemma take_stops i : EndsD (ISlice 0 (Some 0) i) 0 0.
Proof. intro s. exists 1. cbn. rewrite plus_st_0. reflexivity. Qed.

Lemma take_steps l : forall b i dp dt i', StepsD i l dp dt i' -> length l <= b ->
  StepsD (ISlice 0 (Some b) i) l dp dt (ISlice 0 (Some (b - length l)) i').
Proof.
  induction l as [|v r IH]; intros b i dp dt i' H L.
  - destruct H as (-> & -> & ->). cbn. rewrite Nat.sub_0_r. repeat split.
  - destruct H as (j & a & c & d & e & Y & HS & -> & ->). cbn [length] in *. destruct b as [|b]; [lia|].
    apply (StepsD_cons _ _ _ _ _ _ _ _ _ (take_yields b _ _ _ _ _ Y)). cbn [Nat.sub]. apply IH; [exact HS | lia].
Qed.

Lemma skip_step a b i x i1 dp1 dt1 v j dp2 dt2 :
  YieldsD i x i1 dp1 dt1 -> YieldsD (ISlice a b i1) v j dp2 dt2 ->
  YieldsD (ISlice (S a) b i) v j (dp1 + dp2) (dt1 + dt2).
Proof.
  intros H H2 s. destruct (yields_at _ _ _ _ _ H s) as [f1 F1].
  destruct (yields_at _ _ _ _ _ H2 (plus_st s dp1 dt1)) as [f2 F2].
  exists (S (Nat.max f1 f2)). cbn [next]. rewrite F1 by lia. rewrite F2 by lia. rewrite plus_st_plus. reflexivity.
Qed.

Lemma skip_pass i v i' dp dt : YieldsD i v i' dp dt -> YieldsD (ISlice 0 None i) v (ISlice 0 None i') dp dt.
Proof. intros H s. destruct (H s) as [fu E]. exists (S fu). cbn [next]. rewrite E. reflexivity. Qed.

Lemma skip_pass_steps l : forall i dp dt i', StepsD i l dp dt i' ->
  StepsD (ISlice 0 None i) l dp dt (ISlice 0 None i').
Proof.
  induction l as [|v r IH]; intros i dp dt i' H.
  - destruct H as (-> & -> & ->). cbn. repeat split.
  - destruct H as (j & a & c & d & e & Y & HS & -> & ->).
    apply (StepsD_cons _ _ _ _ _ _ _ _ _ (skip_pass _ _ _ _ _ Y) (IH _ _ _ _ HS)).
Qed.

(* skip n: the first output costs the n skipped elements and itself *)
Lemma skip_steps a : forall l i dp dt i', StepsD i l dp dt i' -> a < length l ->
  StepsD (ISlice a None i) (skipn a l) dp dt (ISlice 0 None i').
Proof.
  induction a as [|a IH]; intros l i dp dt i' H L.
  - cbn [skipn]. apply skip_pass_steps. exact H.
  - destruct l as [|x r]; [cbn in L; lia|]. destruct H as (j & p1 & t1 & p2 & t2 & Y & HS & -> & ->).
    cbn [skipn length] in *. pose proof (IH r j p2 t2 i' HS ltac:(lia)) as R.
    destruct (skipn a r) as [|v rest] eqn:K.
    + exfalso. assert (Z0 : length (skipn a r) = length r - a) by apply skipn_length. rewrite K in Z0. cbn in Z0. lia.
    + destruct R as (j2 & a2 & b2 & c2 & d2 & Y2 & S2 & -> & ->).
      eapply StepsD_eq; [apply (StepsD_cons _ _ _ _ _ _ _ _ _ (skip_step _ _ _ _ _ _ _ _ _ _ _ Y Y2) S2) | lia | lia].
Qed.

(* ---- takeWhile / skipWhile ------------------------------------------------------- *)
Lemma takewhile_yields p i v i' dp dt : YieldsD i v i' dp dt -> holds p v = true ->
  YieldsD (TakeWhile p i) v (TakeWhile p i') dp (dt + 1).
Proof.
  intros H P s. destruct (H s) as [fu E]. exists (S fu). cbn [next]. rewrite E. unfold holds in P. rewrite P.
  rewrite tick_plus. reflexivity.
Qed.

(* the failing element is pulled and tested: the "+1" of the bound *)
Lemma takewhile_stops p i v i' dp dt : YieldsD i v i' dp dt -> holds p v = false ->
  EndsD (TakeWhile p i) dp (dt + 1).
Proof.
  intros H P s. destruct (H s) as [fu E]. exists (S fu). cbn [next]. rewrite E. unfold holds in P. rewrite P.
  rewrite tick_plus. reflexivity.
Qed.

Lemma takewhile_ends p i dp dt : EndsD i dp dt -> EndsD (TakeWhile p i) dp dt.
Proof. intros H s. destruct (H s) as [fu E]. exists (S fu). cbn [next]. rewrite E. reflexivity. Qed.

Lemma takewhile_steps p l : forall i dp dt i', StepsD i l dp dt i' -> forallb (holds p) l = true ->
  StepsD (TakeWhile p i) l dp (dt + length l) (TakeWhile p i').
Proof.
  induction l as [|v r IH]; intros i dp dt i' H A.
  - destruct H as (-> & -> & ->). cbn. repeat split.
  - destruct H as (j & a & b & c & d & Y & HS & -> & ->). cbn [forallb length] in *. apply andb_true_iff in A as [Av Ar].
    eapply StepsD_eq; [apply (StepsD_cons _ _ _ _ _ _ _ _ _ (takewhile_yields p _ _ _ _ _ Y Av) (IH _ _ _ _ HS Ar)) | lia | lia].
Qed.

Lemma dropwhile_skip p i x i1 dp1 dt1 v j dp2 dt2 :
  YieldsD i x i1 dp1 dt1 -> holds p x = true -> YieldsD (DropWhile p i1) v j dp2 dt2 ->
  YieldsD (DropWhile p i) v j (dp1 + dp2) (dt1 + 1 + dt2).
Proof.
  intros H P H2 s. destruct (yields_at _ _ _ _ _ H s) as [f1 F1].
  destruct (yields_at _ _ _ _ _ H2 (tick (plus_st s dp1 dt1))) as [f2 F2].
  exists (S (Nat.max f1 f2)). cbn [next]. rewrite F1 by lia. unfold holds in P. rewrite P.
  rewrite F2 by lia. rewrite tick_plus, plus_st_plus. reflexivity.
Qed.

(* after the first failing element the predicate is never applied again: the
   continuation is the inner iterator itself *)
Lemma dropwhile_pass p i v i' dp dt : YieldsD i v i' dp dt -> holds p v = false ->
  YieldsD (DropWhile p i) v i' dp (dt + 1).
Proof.
  intros H P s. destruct (H s) as [fu E]. exists (S fu). cbn [next]. rewrite E. unfold holds in P. rewrite P.
  rewrite tick_plus. reflexivity.
Qed.

Lemma dropwhile_steps p : forall pre v rest i dp dt i', StepsD i (pre ++ v :: rest) dp dt i' ->
  forallb (holds p) pre = true -> holds p v = false ->
  StepsD (DropWhile p i) (v :: rest) dp (dt + length pre + 1) i'.
Proof.
  induction pre as [|x pre IH]; intros v rest i dp dt i' H A P.
  - cbn [app] in H. destruct H as (j & a & b & c & d & Y & HS & -> & ->). cbn [length].
    eapply StepsD_eq; [apply (StepsD_cons _ _ _ _ _ _ _ _ _ (dropwhile_pass p _ _ _ _ _ Y P) HS) | lia | lia].
  - cbn [app] in H. destruct H as (j & a & b & c & d & Y & HS & -> & ->). cbn [forallb length] in *.
    apply andb_true_iff in A as [Ax Ar]. pose proof (IH v rest j c d i' HS Ar P) as R.
    destruct R as (j2 & a2 & b2 & c2 & d2 & Y2 & S2 & Ea & Eb).
    eapply StepsD_eq; [apply (StepsD_cons _ _ _ _ _ _ _ _ _ (dropwhile_skip p _ _ _ _ _ _ _ _ _ Y Ax Y2) S2) | lia | lia].
Qed.

(* ---- enumerate, memorize, append ------------------------------------------------- *)
Lemma enumerate_yields n i v i' dp dt : YieldsD i v i' dp dt ->
  YieldsD (Enumerate n i) (VList false [VInt n; v]) (Enumerate (n + 1) i') dp dt.
Proof. intros H s. destruct (H s) as [fu E]. exists (S fu). cbn [next]. rewrite E. reflexivity. Qed.

Lemma enumerate_ends n i dp dt : EndsD i dp dt -> EndsD (Enumerate n i) dp dt.
Proof. intros H s. destruct (H s) as [fu E]. exists (S fu). cbn [next]. rewrite E. reflexivity. Qed.

Definition enum_vals (n : Z) (l : list val) : list val :=
  map (fun p => VList false [VInt (fst p); snd p]) (enumerate_l n l).

Lemma enumerate_steps l : forall n i dp dt i', StepsD i l dp dt i' ->
  StepsD (Enumerate n i) (enum_vals n l) dp dt (Enumerate (n + Z.of_nat (length l)) i').
Proof.
  induction l as [|v r IH]; intros n i dp dt i' H.
  - destruct H as (-> & -> & ->). cbn. repeat split. f_equal. lia.
  - destruct H as (j & a & b & c & d & Y & HS & -> & ->). unfold enum_vals. cbn [enumerate_l map fst snd length].
    replace (n + Z.of_nat (S (length r)))%Z with ((n + 1) + Z.of_nat (length r))%Z by lia.
    apply (StepsD_cons _ _ _ _ _ _ _ _ _ (enumerate_yields n _ _ _ _ _ Y) (IH _ _ _ _ _ HS)).
Qed.

Lemma memo_yields i v i' dp dt : YieldsD i v i' dp dt -> YieldsD (Memo i) v (Memo i') dp dt.
Proof. intros H s. destruct (H s) as [fu E]. exists (S fu). cbn [next]. rewrite E. reflexivity. Qed.

Lemma memo_ends i dp dt : EndsD i dp dt -> EndsD (Memo i) dp dt.
Proof. intros H s. destruct (H s) as [fu E]. exists (S fu). cbn [next]. rewrite E. reflexivity. Qed.

Lemma memo_steps l : forall i dp dt i', StepsD i l dp dt i' -> StepsD (Memo i) l dp dt (Memo i').
Proof.
  induction l as [|v r IH]; intros i dp dt i' H.
  - destruct H as (-> & -> & ->). cbn. repeat split.
  - destruct H as (j & a & b & c & d & Y & HS & -> & ->).
    apply (StepsD_cons _ _ _ _ _ _ _ _ _ (memo_yields _ _ _ _ _ Y) (IH _ _ _ _ HS)).
Qed.

Lemma chain_yields i j v i' dp dt : YieldsD i v i' dp dt -> YieldsD (Chain i j) v (Chain i' j) dp dt.
Proof. intros H s. destruct (H s) as [fu E]. exists (S fu). cbn [next]. rewrite E. reflexivity. Qed.

Lemma chain_steps j l : forall i dp dt i', StepsD i l dp dt i' -> StepsD (Chain i j) l dp dt (Chain i' j).
Proof.
  induction l as [|v r IH]; intros i dp dt i' H.
  - destruct H as (-> & -> & ->). cbn. repeat split.
  - destruct H as (k & a & b & c & d & Y & HS & -> & ->).
    apply (StepsD_cons _ _ _ _ _ _ _ _ _ (chain_yields _ j _ _ _ _ Y) (IH _ _ _ _ HS)).
Qed.

(* once the first part has ended the chain behaves as its second part, except that
   every later step asks the exhausted first part again (at its own, here zero, cost) *)
Lemma chain_second i j dp1 dt1 v j' dp2 dt2 : EndsD i dp1 dt1 -> YieldsD j v j' dp2 dt2 ->
  forall s, exists fuel, next fuel s (Chain i j) = (plus_st s (dp1 + dp2) (dt1 + dt2), Yield v j').
Proof.
  intros H1 H2 s. destruct (ends_at _ _ _ H1 s) as [f1 F1]. destruct (yields_at _ _ _ _ _ H2 (plus_st s dp1 dt1)) as [f2 F2].
  exists (S (Nat.max f1 f2)). cbn [next]. rewrite F1 by lia. rewrite F2 by lia. rewrite plus_st_plus. reflexivity.
Qed.

Lemma chain_ends i j dp1 dt1 dp2 dt2 : EndsD i dp1 dt1 -> EndsD j dp2 dt2 -> EndsD (Chain i j) (dp1 + dp2) (dt1 + dt2).
Proof.
  intros H1 H2 s. destruct (ends_at _ _ _ H1 s) as [f1 F1]. destruct (ends_at _ _ _ H2 (plus_st s dp1 dt1)) as [f2 F2].
  exists (S (Nat.max f1 f2)). cbn [next]. rewrite F1 by lia. rewrite F2 by lia. rewrite plus_st_plus. reflexivity.
Qed.

(* ---- accumulate -------------------------------------------------------------------- *)
Lemma accrun_yields f tot i v i' dp dt : YieldsD i v i' dp dt ->
  YieldsD (AccRun f tot i) (apply2 f tot v) (AccRun f (apply2 f tot v) i') dp (dt + 1).
Proof. intros H s. destruct (H s) as [fu E]. exists (S fu). cbn [next]. rewrite E. rewrite tick_plus. reflexivity. Qed.

Lemma accrun_ends f tot i dp dt : EndsD i dp dt -> EndsD (AccRun f tot i) dp dt.
Proof. intros H s. destruct (H s) as [fu E]. exists (S fu). cbn [next]. rewrite E. reflexivity. Qed.

Lemma accrun_steps f l : forall tot i dp dt i', StepsD i l dp dt i' ->
  StepsD (AccRun f tot i) (accumulate_from (apply2 f) tot l) dp (dt + length l)
         (AccRun f (fold_left (apply2 f) l tot) i').
Proof.
  induction l as [|v r IH]; intros tot i dp dt i' H.
  - destruct H as (-> & -> & ->). cbn. repeat split.
  - destruct H as (j & a & b & c & d & Y & HS & -> & ->). cbn [accumulate_from fold_left length].
    eapply StepsD_eq; [apply (StepsD_cons _ _ _ _ _ _ _ _ _ (accrun_yields f tot _ _ _ _ _ Y) (IH _ _ _ _ _ HS)) | lia | lia].
Qed.

(* with a seed the first output needs no input at all *)
Lemma accstart_seed f sd i : YieldsD (AccStart f (Some sd) i) sd (AccRun f sd i) 0 0.
Proof. intro s. exists 1. cbn. rewrite plus_st_0. reflexivity. Qed.

Lemma accstart_noseed f i v i' dp dt : YieldsD i v i' dp dt -> YieldsD (AccStart f None i) v (AccRun f v i') dp dt.
Proof. intros H s. destruct (H s) as [fu E]. exists (S fu). cbn [next]. rewrite E. reflexivity. Qed.

Lemma accstart_empty f i dp dt : EndsD i dp dt -> FailsD (AccStart f None i) EType dp dt.
Proof. intros H s. destruct (H s) as [fu E]. exists (S fu). cbn [next]. rewrite E. reflexivity. Qed.

(* ---- limit_iterable ------------------------------------------------------------------ *)
Lemma limit_yields n i v i' dp dt : YieldsD i v i' dp dt -> YieldsD (Limit (S n) i) v (Limit n i') dp dt.
Proof. intros H s. destruct (H s) as [fu E]. exists (S fu). cbn [next]. rewrite E. reflexivity. Qed.

Lemma limit_trips i v i' dp dt : YieldsD i v i' dp dt -> FailsD (Limit 0 i) ETooLarge dp dt.
Proof. intros H s. destruct (H s) as [fu E]. exists (S fu). cbn [next]. rewrite E. reflexivity. Qed.

Lemma limit_steps l : forall n i dp dt i', StepsD i l dp dt i' -> length l <= n ->
  StepsD (Limit n i) l dp dt (Limit (n - length l) i').
Proof.
  induction l as [|v r IH]; intros n i dp dt i' H L.
  - destruct H as (-> & -> & ->). cbn. rewrite Nat.sub_0_r. repeat split.
  - destruct H as (j & a & c & d & e & Y & HS & -> & ->). cbn [length] in *. destruct n as [|n]; [lia|].
    apply (StepsD_cons _ _ _ _ _ _ _ _ _ (limit_yields n _ _ _ _ _ Y)). cbn [Nat.sub]. apply IH; [exact HS | lia].
Qed.

(* ---- delete (count >= 0 window) and insert ------------------------------------------- *)
Lemma delete_keep_yields pos cnt n i v i' dp dt : YieldsD i v i' dp dt -> del_keep pos cnt n = true ->
  YieldsD (DeleteAt pos cnt n i) v (DeleteAt pos cnt (n + 1) i') dp dt.
Proof. intros H K s. destruct (H s) as [fu E]. exists (S fu). cbn [next]. rewrite E, K. reflexivity. Qed.

Lemma delete_drop_step pos cnt n i x i1 dp1 dt1 v j dp2 dt2 :
  YieldsD i x i1 dp1 dt1 -> del_keep pos cnt n = false -> YieldsD (DeleteAt pos cnt (n + 1) i1) v j dp2 dt2 ->
  YieldsD (DeleteAt pos cnt n i) v j (dp1 + dp2) (dt1 + dt2).
Proof.
  intros H K H2 s. destruct (yields_at _ _ _ _ _ H s) as [f1 F1].
  destruct (yields_at _ _ _ _ _ H2 (plus_st s dp1 dt1)) as [f2 F2].
  exists (S (Nat.max f1 f2)). cbn [next]. rewrite F1 by lia. rewrite K. rewrite F2 by lia. rewrite plus_st_plus. reflexivity.
Qed.

Lemma insert_before pos v n i t i' dp dt : YieldsD i t i' dp dt -> (n =? pos)%Z = false ->
  YieldsD (InsertAt pos v n i) t (InsertAt pos v (n + 1) i') dp dt.
Proof. intros H K s. destruct (H s) as [fu E]. exists (S fu). cbn [next]. rewrite E, K. reflexivity. Qed.

(* the inserted value comes out when the element at that position has been pulled *)
Lemma insert_here pos v i t i' dp dt : YieldsD i t i' dp dt ->
  YieldsD (InsertAt pos v pos i) v (Chain (OfList [t]) (InsertAt pos v (pos + 1) i')) dp dt.
Proof. intros H s. destruct (H s) as [fu E]. exists (S fu). cbn [next]. rewrite E, Z.eqb_refl. reflexivity. Qed.

(* F18: at the end of the input a negative position never satisfies `position > i` *)
Lemma insert_end_negative pos v n i dp dt : EndsD i dp dt -> (pos < 0 <= n)%Z -> EndsD (InsertAt pos v n i) dp dt.
Proof.
  intros H L s. destruct (H s) as [fu E]. exists (S fu). cbn [next]. rewrite E.
  assert (G : (pos >? n - 1)%Z = false) by lia. rewrite G. reflexivity.
Qed.

(* ---- short-circuit searches -------------------------------------------------------- *)
Definition pred_cost (pr : pred) : nat := match pr with PLam _ | PNotLam _ => 1 | _ => 0 end.
Definition pred_holds (pr : pred) (v : val) : bool := snd (pred_test st0 pr v).

Lemma pred_test_eq s pr v : pred_test s pr v = (plus_st s 0 (pred_cost pr), pred_holds pr v).
Proof.
  destruct pr; cbn; unfold pred_holds; cbn; try (rewrite plus_st_0; reflexivity);
    unfold tick, plus_st; cbn; f_equal; f_equal; lia.
Qed.

Lemma find_first_mono : forall f2 s0 pr m j sres x, find_first f2 s0 pr m j = (sres, Ok x) ->
  forall f, f2 <= f -> find_first f s0 pr m j = (sres, Ok x).
Proof.
  induction f2 as [|g IHg]; intros s0 pr m j sres x F2 f L; [discriminate F2|].
  destruct f as [|f]; [lia|]. cbn [find_first] in *.
  destruct (next g s0 j) as [s1 o] eqn:E. destruct o; try discriminate F2.
  - rewrite (next_yield_mono _ f _ _ _ _ _ E ltac:(lia)). destruct (pred_test s1 pr v) as [s2 bb].
    destruct bb; [exact F2|]. apply (IHg _ _ _ _ _ _ F2). lia.
  - rewrite (next_done_mono _ f _ _ _ E ltac:(lia)). exact F2.
Qed.

(* first/any/all/indexOf/indexWhere/contains pull exactly up to the deciding element *)
Lemma find_first_decides pr : forall pre v n i dp dt i', StepsD i (pre ++ [v]) dp dt i' ->
  forallb (fun x => negb (pred_holds pr x)) pre = true -> pred_holds pr v = true ->
  forall s, exists fuel, find_first fuel s pr n i =
    (plus_st s dp (dt + pred_cost pr * (length pre + 1)), Ok (Some ((n + Z.of_nat (length pre))%Z, v))).
Proof.
  induction pre as [|x pre IH]; intros v n i dp dt i' H M P s.
  - cbn [app] in H. destruct H as (j & a & b & c & d & Y & (-> & -> & ->) & -> & ->).
    destruct (Y s) as [fu E]. exists (S fu). cbn [find_first]. rewrite E, pred_test_eq, P. rewrite plus_st_plus.
    f_equal; [apply plus_st_eq; cbn; lia | repeat f_equal; cbn; lia].
  - cbn [app] in H. destruct H as (j & a & b & c & d & Y & HS & -> & ->). cbn [forallb length] in *.
    apply andb_true_iff in M as [Mx Mr]. apply negb_true_iff in Mx.
    destruct (yields_at _ _ _ _ _ Y s) as [f1 F1].
    destruct (IH v (n + 1)%Z j c d i' HS Mr P (plus_st (plus_st s a b) 0 (pred_cost pr))) as [f2 F2].
    exists (S (Nat.max f1 f2)). cbn [find_first]. rewrite F1 by lia. rewrite pred_test_eq, Mx.
    rewrite (find_first_mono _ _ _ _ _ _ _ F2) by lia. rewrite !plus_st_plus.
    f_equal; [apply plus_st_eq; nia | do 3 f_equal; lia].
Qed.
