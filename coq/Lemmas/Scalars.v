(* C15 - order theory of the model: three-way comparisons of integers and of strings
   (lexicographic on code points) are total orders; the four ordering operators derived
   from a three-way comparison are mutually consistent.  Independent of the regenerated table. *)
From Coq Require Import List ZArith Bool Lia ZifyBool.
From YV Require Import Common.Corr Model.Scalars.
Import ListNotations.

(* ------------------------------------------------------------------ strings *)
Lemma str_compare_refl : forall a, str_compare a a = Eq.
Proof.
  induction a as [|x a IH]; [reflexivity|].
  cbn [str_compare]. rewrite Z.compare_refl. exact IH.
Qed.

Lemma str_compare_eq : forall a b, str_compare a b = Eq <-> a = b.
Proof.
  induction a as [|x a IH]; intros [|y b]; cbn [str_compare].
  - tauto.
  - split; discriminate.
  - split; discriminate.
  - destruct (Z.compare x y) eqn:E.
    + apply Z.compare_eq_iff in E. subst y. rewrite IH. split.
      * intros ->. reflexivity.
      * intros H. injection H as H. exact H.
    + split; [discriminate|]. intros H. injection H as H1 H2. subst y.
      rewrite Z.compare_refl in E. discriminate.
    + split; [discriminate|]. intros H. injection H as H1 H2. subst y.
      rewrite Z.compare_refl in E. discriminate.
Qed.

Lemma str_compare_antisym : forall a b, str_compare b a = CompOpp (str_compare a b).
Proof.
  induction a as [|x a IH]; intros [|y b]; cbn [str_compare]; try reflexivity.
  rewrite (Z.compare_antisym x y). destruct (Z.compare x y); cbn [CompOpp]; auto.
Qed.

Lemma str_compare_lt_trans : forall a b c,
  str_compare a b = Lt -> str_compare b c = Lt -> str_compare a c = Lt.
Proof.
  induction a as [|x a IH]; intros [|y b] [|z c]; cbn [str_compare]; try discriminate; auto.
  destruct (Z.compare x y) eqn:Exy; try discriminate.
  - apply Z.compare_eq_iff in Exy. subst y. intros Hab.
    destruct (Z.compare x z) eqn:Exz; try discriminate; auto.
    apply IH. exact Hab.
  - intros _. destruct (Z.compare y z) eqn:Eyz; try discriminate.
    + apply Z.compare_eq_iff in Eyz. subst z. rewrite Exy. reflexivity.
    + intros _. assert (H : (x ?= z)%Z = Lt).
      { rewrite Z.compare_lt_iff in *. lia. }
      rewrite H. reflexivity.
Qed.

(* the lexicographic order, spelled out: a < b iff a is a proper prefix of b or they first
   differ at a position where a has the smaller code point *)
Lemma str_compare_lt_spec : forall a b,
  str_compare a b = Lt <->
  exists p x y r s, a = p ++ x /\ b = p ++ y /\
    ((x = [] /\ y <> []) \/ (exists c d, x = c :: r /\ y = d :: s /\ (c < d)%Z)).
Proof.
  induction a as [|c a IH]; intros [|d b]; cbn [str_compare].
  - split; [discriminate|]. intros (p & x & y & r & s & Ha & Hb & [[_ Hy]|(c & d & Hx & _)]).
    + destruct p; destruct y; try discriminate. congruence.
    + subst x. destruct p; discriminate.
  - split; [|reflexivity]. intros _. exists [], [], (d :: b), [], []. cbn. split; [reflexivity|].
    split; [reflexivity|]. left. split; [reflexivity|discriminate].
  - split; [discriminate|]. intros (p & x & y & r & s & Ha & Hb & H).
    destruct p; [|discriminate]. cbn in Hb. subst y.
    destruct H as [[_ Hy]|(c' & d' & _ & Hy & _)]; [congruence|discriminate].
  - destruct (Z.compare c d) eqn:E.
    + apply Z.compare_eq_iff in E. subst d. rewrite IH. split.
      * intros (p & x & y & r & s & Ha & Hb & H). exists (c :: p), x, y, r, s.
        cbn. subst a b. auto.
      * intros (p & x & y & r & s & Ha & Hb & H). destruct p as [|e p].
        -- cbn in Ha, Hb. subst x y. destruct H as [[H _]|(c' & d' & Hx & Hy & Hlt)]; [discriminate|].
           injection Hx as -> _. injection Hy as -> _. lia.
        -- cbn in Ha, Hb. injection Ha as -> Ha. injection Hb as Hb.
           exists p, x, y, r, s. auto.
    + split; [|reflexivity]. intros _. exists [], (c :: a), (d :: b), a, b. cbn.
      split; [reflexivity|]. split; [reflexivity|]. right. exists c, d.
      rewrite Z.compare_lt_iff in E. auto.
    + split; [discriminate|]. intros (p & x & y & r & s & Ha & Hb & H). destruct p as [|e p].
      * cbn in Ha, Hb. subst x y. destruct H as [[H _]|(c' & d' & Hx & Hy & Hlt)]; [discriminate|].
        injection Hx as -> _. injection Hy as -> _. rewrite Z.compare_gt_iff in E. lia.
      * cbn in Ha, Hb. injection Ha as -> _. injection Hb as -> _.
        rewrite Z.compare_refl in E. discriminate.
Qed.

(* ------------------------------------------------------------------ operators from a comparison *)
(* For a three-way result r of (a ? b) and r' = CompOpp r of (b ? a): *)
Lemma cmp_gt_lt : forall r, cmp_holds CGt r = cmp_holds CLt (CompOpp r).
Proof. destruct r; reflexivity. Qed.
Lemma cmp_ge_le : forall r, cmp_holds CGe r = cmp_holds CLe (CompOpp r).
Proof. destruct r; reflexivity. Qed.
Lemma cmp_le_lt_eq : forall r, cmp_holds CLe r = cmp_holds CLt r || match r with Eq => true | _ => false end.
Proof. destruct r; reflexivity. Qed.
Lemma cmp_exactly_one : forall r,
  let l := cmp_holds CLt r in let e := match r with Eq => true | _ => false end in let g := cmp_holds CGt r in
  (l = true /\ e = false /\ g = false) \/ (l = false /\ e = true /\ g = false) \/ (l = false /\ e = false /\ g = true).
Proof. destruct r; cbn; tauto. Qed.

Lemma cmp_holds_Z : forall a b,
  (cmp_holds CLt (Z.compare a b) = true <-> (a < b)%Z) /\
  (cmp_holds CLe (Z.compare a b) = true <-> (a <= b)%Z) /\
  (cmp_holds CGt (Z.compare a b) = true <-> (a > b)%Z) /\
  (cmp_holds CGe (Z.compare a b) = true <-> (a >= b)%Z).
Proof.
  intros a b. destruct (Z.compare a b) eqn:E; cbn [cmp_holds];
    [apply Z.compare_eq_iff in E | rewrite Z.compare_lt_iff in E | rewrite Z.compare_gt_iff in E];
    repeat split; intros; try lia; try discriminate.
Qed.

(* ------------------------------------------------------------------ equality of tags *)
Lemma cmpop_index_inj : forall a b, cmpop_index a = cmpop_index b -> a = b.
Proof. destruct a, b; cbn; intros; congruence. Qed.

Lemma tag_eqb_eq : forall a b, tag_eqb a b = true -> a = b.
Proof.
  intros a b H. unfold tag_eqb in H. apply andb_prop in H. destruct H as [H1 H2].
  apply Nat.eqb_eq in H1. apply Nat.eqb_eq in H2.
  destruct a, b; cbn in H1, H2; try discriminate; try reflexivity;
    try (apply cmpop_index_inj in H2; subst; reflexivity).
  subst. reflexivity.
Qed.

Lemma dres_eqb_eq : forall a b, dres_eqb a b = true -> a = b.
Proof.
  destruct a, b; cbn; try discriminate; try reflexivity.
  intros H. apply tag_eqb_eq in H. subst. reflexivity.
Qed.

(* ------------------------------------------------------------------ floor division *)
Lemma floor_div_mod : forall a b : Z, b <> 0%Z ->
  (a = (a / b) * b + a mod b)%Z /\
  ((0 <= a mod b < b)%Z \/ (b < a mod b <= 0)%Z) /\
  (forall q r, a = (q * b + r)%Z -> ((0 <= r < b)%Z \/ (b < r <= 0)%Z) -> q = (a / b)%Z /\ r = (a mod b)%Z).
Proof.
  intros a b Hb. split; [|split].
  - pose proof (Z.div_mod a b Hb). lia.
  - destruct (Z_lt_le_dec 0 b) as [Hp|Hn].
    + left. apply Z.mod_pos_bound. exact Hp.
    + right. apply Z.mod_neg_bound. lia.
  - intros q r Ha Hr.
    assert (Hq : q = (a / b)%Z).
    { subst a. destruct Hr as [Hr|Hr].
      - rewrite Z.div_add_l by exact Hb. rewrite (Z.div_small r b) by lia. lia.
      - rewrite Z.div_add_l by exact Hb.
        assert (r / b = 0)%Z; [|lia].
        rewrite <- (Z.opp_involutive r), <- (Z.opp_involutive b) at 1.
        rewrite Z.div_opp_opp by lia. apply Z.div_small. lia. }
    split; [exact Hq|]. subst q. pose proof (Z.div_mod a b Hb). lia.
Qed.
