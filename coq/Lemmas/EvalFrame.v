(* Frame theorem for the reference interpreter: evaluation only APPENDS contexts and log entries. *)
From Coq Require Import List ZArith Bool Arith Lia.
From YV Require Import Common.Corr Model.Eval.
Import ListNotations.

Definition ext (s s' : st) : Prop :=
  exists h l, heap s' = heap s ++ h /\ log s' = log s ++ l.

Lemma ext_refl s : ext s s.
Proof. exists [], []. now rewrite !app_nil_r. Qed.

Lemma ext_trans a b c : ext a b -> ext b c -> ext a c.
Proof.
  intros (h1 & l1 & H1 & L1) (h2 & l2 & H2 & L2).
  exists (h1 ++ h2), (l1 ++ l2). rewrite H2, L2, H1, L1, !app_assoc. split; reflexivity.
Qed.

Lemma alloc_ext s r s1 c : alloc s r = (s1, c) -> ext s s1.
Proof. unfold alloc. intro H. inversion H; subst. exists [r], []. cbn. now rewrite app_nil_r. Qed.

Lemma tick_ext s id : ext s (tick s id).
Proof. exists [], [id]. cbn. now rewrite app_nil_r. Qed.

Definition ev_ext (ev : st -> nat -> expr -> st * res val) : Prop :=
  forall s c e s' r, ev s c e = (s', r) -> ext s s'.
Definition fin_ext (fin : st -> val -> st * res val) : Prop :=
  forall s v s' r, fin s v = (s', r) -> ext s s'.

(* close a goal [ext a z] from a linear chain of [ext] facts *)
Ltac chain :=
  match goal with
  | |- ext ?a ?a => apply ext_refl
  | H : ext ?a ?b |- ext ?a ?c => apply (ext_trans a b c H); clear H; chain
  end.

Ltac crunch :=
  repeat match goal with
  | H : (_, _) = (_, _) |- _ => inversion H; subst; clear H
  | H : context [match ?x with _ => _ end] |- _ =>
      match type of H with _ = (_, _) => destruct x eqn:? end
  end.

Section Helpers.
  Variable ev : st -> nat -> expr -> st * res val.
  Hypothesis Hev : ev_ext ev.

  Ltac facts :=
    repeat match goal with
    | H : ev ?s _ _ = (_, _) |- _ => apply Hev in H
    | H : alloc ?s _ = (_, _) |- _ => apply alloc_ext in H
    end.

  Lemma invoke_ext s body cap pos kw s' r : invoke ev s body cap pos kw = (s', r) -> ext s s'.
  Proof. unfold invoke. intro H. crunch. facts. chain. Qed.

  Lemma eval_seq_ext es : forall s c s' r, eval_seq ev s c es = (s', r) -> ext s s'.
  Proof.
    induction es as [|e es IH]; intros s c s' r H; cbn [eval_seq] in H.
    - crunch. chain.
    - destruct (ev s c e) as [s1 r1] eqn:E1. apply Hev in E1.
      destruct r1; try (crunch; chain).
      destruct (eval_seq ev s1 c es) as [s2 r2] eqn:E2. apply IH in E2.
      destruct r2; crunch; chain.
  Qed.

  Lemma eval_kw_ext kw : forall s c s' r, eval_kw ev s c kw = (s', r) -> ext s s'.
  Proof.
    induction kw as [|[k e] kw IH]; intros s c s' r H; cbn [eval_kw] in H.
    - crunch. chain.
    - destruct (ev s c e) as [s1 r1] eqn:E1. apply Hev in E1.
      destruct r1; try (crunch; chain).
      destruct (eval_kw ev s1 c kw) as [s2 r2] eqn:E2. apply IH in E2.
      destruct r2; crunch; chain.
  Qed.

  Lemma eval_map_ext kvs : forall s c acc s' r, eval_map ev s c kvs acc = (s', r) -> ext s s'.
  Proof.
    induction kvs as [|[ke ve] kvs IH]; intros s c acc s' r H; cbn [eval_map] in H.
    - crunch. chain.
    - destruct (ev s c ke) as [s1 r1] eqn:E1. apply Hev in E1.
      destruct r1; try (crunch; chain).
      destruct (ev s1 c ve) as [s2 r2] eqn:E2. apply Hev in E2.
      destruct r2; try (crunch; chain).
      destruct (is_key a); [|crunch; chain].
      apply IH in H. chain.
  Qed.

  Lemma eval_switch_ext cs : forall s c s' r, eval_switch ev s c cs = (s', r) -> ext s s'.
  Proof.
    induction cs as [|[ce ve] cs IH]; intros s c s' r H; cbn [eval_switch] in H.
    - crunch. chain.
    - destruct (ev s c ce) as [s1 r1] eqn:E1. apply Hev in E1.
      destruct r1; try (crunch; chain).
      destruct (truthy a) as [[|]| | |]; try (crunch; chain).
      + apply Hev in H. chain.
      + apply IH in H. chain.
  Qed.

  Lemma eval_coalesce_ext es : forall s c s' r, eval_coalesce ev s c es = (s', r) -> ext s s'.
  Proof.
    induction es as [|e es IH]; intros s c s' r H; cbn [eval_coalesce] in H.
    - crunch. chain.
    - destruct (ev s c e) as [s1 r1] eqn:E1. apply Hev in E1.
      destruct r1 as [v| | |]; try (crunch; chain).
      destruct v; try (crunch; chain). apply IH in H. chain.
  Qed.

  Lemma eval_select_case_ext es : forall s c i s' r, eval_select_case ev s c es i = (s', r) -> ext s s'.
  Proof.
    induction es as [|e es IH]; intros s c i s' r H; cbn [eval_select_case] in H.
    - crunch. chain.
    - destruct (ev s c e) as [s1 r1] eqn:E1. apply Hev in E1.
      destruct r1; try (crunch; chain).
      destruct (truthy a) as [[|]| | |]; try (crunch; chain). apply IH in H. chain.
  Qed.

  Lemma through_ext ops : forall s x s' r, through ev s x ops = (s', r) -> ext s s'.
  Proof.
    induction ops as [|o ops IH]; intros s x s' r H; cbn [through] in H.
    - crunch. chain.
    - destruct o as [body cap|body cap|k].
      + destruct (invoke ev s body cap [x] []) as [s1 r1] eqn:E1. apply invoke_ext in E1.
        destruct r1; try (crunch; chain). apply IH in H. chain.
      + destruct (invoke ev s body cap [x] []) as [s1 r1] eqn:E1. apply invoke_ext in E1.
        destruct r1; try (crunch; chain).
        destruct (truthy a) as [[|]| | |]; try (crunch; chain). apply IH in H. chain.
      + destruct (dot_kw x k); try (crunch; chain). apply IH in H. chain.
  Qed.

  Lemma force_ext src : forall s ops s' r, force ev s src ops = (s', r) -> ext s s'.
  Proof.
    induction src as [|x src IH]; intros s ops s' r H; cbn [force] in H.
    - crunch. chain.
    - destruct (through ev s x ops) as [s1 r1] eqn:E1. apply through_ext in E1.
      destruct r1; try (crunch; chain).
      destruct (force ev s1 src ops) as [s2 r2] eqn:E2. apply IH in E2.
      destruct r2; crunch; chain.
  Qed.

  Lemma force_first_ext src : forall s ops s' r, force_first ev s src ops = (s', r) -> ext s s'.
  Proof.
    induction src as [|x src IH]; intros s ops s' r H; cbn [force_first] in H.
    - crunch. chain.
    - destruct (through ev s x ops) as [s1 r1] eqn:E1. apply through_ext in E1.
      destruct r1 as [[y|]| | |]; try (crunch; chain). apply IH in H. chain.
  Qed.

  Lemma force_search_ext src : forall want s ops pred s' r,
    force_search ev want s src ops pred = (s', r) -> ext s s'.
  Proof.
    induction src as [|x src IH]; intros want s ops pred s' r H; cbn [force_search] in H.
    - crunch. chain.
    - destruct (through ev s x ops) as [s1 r1] eqn:E1. apply through_ext in E1.
      destruct r1 as [[y|]| | |]; try (crunch; chain).
      + destruct pred as [[body cap]|].
        * destruct (invoke ev s1 body cap [y] []) as [s2 r2] eqn:E2. apply invoke_ext in E2.
          destruct r2 as [p| | |]; try (crunch; chain).
          destruct (truthy p) as [b| | |]; try (crunch; chain).
          destruct (Bool.eqb b want); [crunch; chain|]. apply IH in H. chain.
        * destruct (if want then Ok true else truthy y) as [b| | |]; try (crunch; chain).
          destruct (Bool.eqb b want); [crunch; chain|]. apply IH in H. chain.
      + apply IH in H. chain.
  Qed.

  Ltac facts2 :=
    repeat match goal with
    | H : ev ?s _ _ = (_, _) |- _ => apply Hev in H
    | H : alloc ?s _ = (_, _) |- _ => apply alloc_ext in H
    | H : eval_seq ev _ _ _ = (_, _) |- _ => apply eval_seq_ext in H
    | H : force ev _ _ _ = (_, _) |- _ => apply force_ext in H
    | H : force_first ev _ _ _ = (_, _) |- _ => apply force_first_ext in H
    | H : force_search ev _ _ _ _ _ = (_, _) |- _ => apply force_search_ext in H
    end.

  Lemma meth_ext s c rv name args s' r : meth ev s c rv name args = (s', r) -> ext s s'.
  Proof.
    unfold meth. intro H.
    repeat match type of H with
    | (if ?b then _ else _) = _ => destruct b
    end; crunch; facts2; chain.
  Qed.
End Helpers.

Lemma eval_ext f : ev_ext (eval f).
Proof.
  induction f as [|f IH]; intros s c e s' r H.
  - cbn in H. inversion H; subst. apply ext_refl.
  - cbn [eval] in H. destruct e.
    + destruct c0; inversion H; subst; apply ext_refl.
    + inversion H; subst; apply ext_refl.
    + inversion H; subst; apply ext_refl.
    + destruct (eval_seq (eval f) s c es) as [s1 r1] eqn:E. apply (eval_seq_ext _ IH) in E.
      destruct r1; inversion H; subst; exact E.
    + apply (eval_map_ext _ IH) in H. exact H.
    + destruct (eval f s c e1) as [s1 r1] eqn:E1. apply IH in E1.
      destruct r1; try (inversion H; subst; exact E1).
      destruct (eval f s1 c e2) as [s2 r2] eqn:E2. apply IH in E2.
      destruct r2; inversion H; subst; chain.
    + destruct o;
        (destruct (eval f s c e1) as [s1 r1] eqn:E1; apply IH in E1;
         destruct r1 as [av| | |]; try (inversion H; subst; exact E1));
        try (destruct (eval f s1 c e2) as [s2 r2] eqn:E2; apply IH in E2;
             destruct r2; inversion H; subst; chain).
      * destruct (truthy av) as [[|]| | |]; try (inversion H; subst; exact E1). apply IH in H. chain.
      * destruct (truthy av) as [[|]| | |]; try (inversion H; subst; exact E1). apply IH in H. chain.
    + destruct (eval f s c e) as [s1 r1] eqn:E1. apply IH in E1.
      destruct r1; inversion H; subst; exact E1.
    + destruct (eval f s c e) as [s1 r1] eqn:E1. apply IH in E1.
      destruct r1; inversion H; subst; exact E1.
    + destruct (eval f s c e) as [s1 r1] eqn:E1. apply IH in E1.
      destruct r1; try (inversion H; subst; exact E1).
      apply (meth_ext _ IH) in H. chain.
    + destruct (eval f s c e) as [s1 r1] eqn:E1. apply IH in E1.
      destruct r1 as [av| | |]; try (inversion H; subst; exact E1).
      destruct av; try (apply (meth_ext _ IH) in H; chain). inversion H; subst; exact E1.
    + destruct (eval_seq (eval f) s c pos) as [s1 r1] eqn:E1. apply (eval_seq_ext _ IH) in E1.
      destruct r1; try (inversion H; subst; exact E1).
      destruct (eval_kw (eval f) s1 c kw) as [s2 r2] eqn:E2. apply (eval_kw_ext _ IH) in E2.
      destruct r2; try (inversion H; subst; chain).
      destruct (alloc s2 _) as [s3 c1] eqn:E3. apply alloc_ext in E3. inversion H; subst. chain.
    + destruct (eval_seq (eval f) s c es) as [s1 r1] eqn:E1. apply (eval_seq_ext _ IH) in E1.
      destruct r1; try (inversion H; subst; exact E1).
      destruct (alloc s1 _) as [s3 c1] eqn:E3. apply alloc_ext in E3. inversion H; subst. chain.
    + destruct (alloc s _) as [s3 c1] eqn:E3. apply alloc_ext in E3. inversion H; subst. chain.
    + destruct (lookup_func (heap s) c name) as [[body cap]|]; [|inversion H; subst; apply ext_refl].
      destruct (eval_seq (eval f) s c args) as [s1 r1] eqn:E1. apply (eval_seq_ext _ IH) in E1.
      destruct r1; try (inversion H; subst; exact E1).
      destruct (eval_kw (eval f) s1 c kw) as [s2 r2] eqn:E2. apply (eval_kw_ext _ IH) in E2.
      destruct r2; try (inversion H; subst; chain).
      apply (invoke_ext _ IH) in H. chain.
    + destruct (eval f s c e) as [s1 r1] eqn:E1. apply IH in E1.
      destruct r1; inversion H; subst; try exact E1.
      pose proof (tick_ext s1 id). chain.
    + apply (eval_switch_ext _ IH) in H. exact H.
    + apply (eval_coalesce_ext _ IH) in H. exact H.
    + destruct (eval f s c e1) as [s1 r1] eqn:E1. apply IH in E1.
      destruct r1 as [av| | |]; try (inversion H; subst; exact E1).
      destruct av; try (inversion H; subst; exact E1). apply IH in H. chain.
    + apply (eval_select_case_ext _ IH) in H. exact H.
Qed.

Section FinHelpers.
  Variable ev : st -> nat -> expr -> st * res val.
  Variable fin : st -> val -> st * res val.
  Hypothesis Hev : ev_ext ev.
  Hypothesis Hfin : fin_ext fin.

  Lemma fin_list_ext l : forall s s' r, fin_list fin s l = (s', r) -> ext s s'.
  Proof.
    induction l as [|x l IH]; intros s s' r H; cbn [fin_list] in H.
    - crunch. chain.
    - destruct (fin s x) as [s1 r1] eqn:E1. apply Hfin in E1.
      destruct r1; try (crunch; chain).
      destruct (fin_list fin s1 l) as [s2 r2] eqn:E2. apply IH in E2.
      destruct r2; crunch; chain.
  Qed.

  Lemma fin_dict_ext l : forall s s' r, fin_dict fin s l = (s', r) -> ext s s'.
  Proof.
    induction l as [|[k x] l IH]; intros s s' r H; cbn [fin_dict] in H.
    - crunch. chain.
    - destruct (fin s x) as [s1 r1] eqn:E1. apply Hfin in E1.
      destruct r1; try (crunch; chain).
      destruct (fin_dict fin s1 l) as [s2 r2] eqn:E2. apply IH in E2.
      destruct r2; crunch; chain.
  Qed.

  Lemma fin_iter_ext l : forall s ops s' r, fin_iter ev fin s l ops = (s', r) -> ext s s'.
  Proof.
    induction l as [|x l IH]; intros s ops s' r H; cbn [fin_iter] in H.
    - crunch. chain.
    - destruct (through ev s x ops) as [s1 r1] eqn:E1. apply (through_ext _ Hev) in E1.
      destruct r1 as [[y|]| | |]; try (crunch; chain).
      + destruct (fin s1 y) as [s2 r2] eqn:E2. apply Hfin in E2.
        destruct r2; try (crunch; chain).
        destruct (fin_iter ev fin s2 l ops) as [s3 r3] eqn:E3. apply IH in E3.
        destruct r3; crunch; chain.
      + apply IH in H. chain.
  Qed.
End FinHelpers.

Lemma finalize_ext f : fin_ext (finalize f).
Proof.
  induction f as [|f IH]; intros s v s' r H.
  - cbn in H. inversion H; subst. apply ext_refl.
  - cbn [finalize] in H. destruct v; try (inversion H; subst; apply ext_refl).
    + destruct (fin_list (finalize f) s l) as [s1 r1] eqn:E. apply (fin_list_ext _ IH) in E.
      destruct r1; inversion H; subst; exact E.
    + destruct (fin_dict (finalize f) s kvs) as [s1 r1] eqn:E. apply (fin_dict_ext _ IH) in E.
      destruct r1; inversion H; subst; exact E.
    + destruct (fin_iter (eval f) (finalize f) s src ops) as [s1 r1] eqn:E.
      apply (fin_iter_ext _ _ (eval_ext f) IH) in E.
      destruct r1; inversion H; subst; exact E.
Qed.

(* what [ext] means for a context that existed before *)
Lemma ext_old_context s s' i : ext s s' -> i < length (heap s) -> nth_error (heap s') i = nth_error (heap s) i.
Proof. intros (h & l & Hh & _) Hi. rewrite Hh. now apply nth_error_app1. Qed.

Lemma ext_log_prefix s s' : ext s s' -> firstn (length (log s)) (log s') = log s.
Proof.
  intros (h & l & _ & Hl). rewrite Hl.
  rewrite firstn_app, Nat.sub_diag, firstn_all. cbn. now rewrite app_nil_r.
Qed.
