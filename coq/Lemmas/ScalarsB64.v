(* C15 - the comparison laws that C15_order_consistent_num takes as premises, PROVED for
   IEEE binary64 (Flocq's BinarySingleNaN type and its Bcompare; the exact integer/float
   comparison of Model/ScalarsB64.v).  Only structural facts are used - nothing about the
   real numbers - so the results are closed under the global context. *)
From Coq Require Import List ZArith Bool Lia QArith.
From Flocq Require Import IEEE754.BinarySingleNaN.
From YV Require Import Common.Corr Model.Scalars Model.ScalarsB64 Gen.ScalarOps
                       Lemmas.Scalars Lemmas.ScalarsTable Lemmas.ScalarsEval.
Import ListNotations.

Lemma b64_compare_antisym : forall f g : B64.t,
  B64.compare g f = option_map CompOpp (B64.compare f g).
Proof.
  intros f g. unfold B64.compare. rewrite (Bcompare_swap B64.prec B64.emax f g).
  destruct (Bcompare f g); reflexivity.
Qed.

Lemma b64_compare_nan : forall f g : B64.t,
  B64.compare f g = None <-> (B64.nan f = true \/ B64.nan g = true).
Proof.
  intros f g. unfold B64.compare, B64.nan, Bcompare.
  destruct f as [s|s| |s m e H]; destruct g as [s'|s'| |s' m' e' H']; cbn;
    split; intros K; try discriminate; try (destruct K; discriminate); auto.
Qed.

Lemma b64_cmpZ_nan : forall (z : Z) (f : B64.t), B64.cmpZ z f = None <-> B64.nan f = true.
Proof.
  intros z f. unfold B64.cmpZ, B64.nan. destruct f as [s|s| |s m e H]; cbn;
    try (split; intros K; discriminate); try tauto.
  destruct (e >=? 0)%Z; split; intros K; discriminate.
Qed.

(* the order laws for all numbers of the model, floats being IEEE binary64: no premise about
   floats is left; the arithmetic fields of the record are irrelevant to the statement *)
Lemma order_num_binary64 : forall (cf : cfg) (fo : fops B64.t),
  fo_compare B64.t fo = B64.compare -> fo_cmpZ B64.t fo = B64.cmpZ ->
  forall x y, number B64.t B64.nan x -> number B64.t B64.nan y -> order_laws cf B64.t fo x y.
Proof.
  intros cf fo Hc Hz. apply (order_num cf B64.t fo B64.nan).
  - intros f g. rewrite Hc. apply b64_compare_antisym.
  - intros f g. rewrite Hc. apply b64_compare_nan.
  - intros z f. rewrite Hz. apply b64_cmpZ_nan.
Qed.

Lemma b64_ops_fields : fo_compare B64.t B64.ops = B64.compare /\ fo_cmpZ B64.t B64.ops = B64.cmpZ.
Proof. split; reflexivity. Qed.

(* ---- the integer/float comparison is EXACT: it is the comparison of the integer with the
   rational number the float denotes, (+-m) * 2^e - no rounding of the integer *)
Definition b64_value (f : B64.t) : option Q :=
  match f with
  | B754_zero _ => Some (0 # 1)
  | B754_finite s m e _ =>
    let sm := if s then Z.neg m else Z.pos m in
    Some (if (e >=? 0)%Z then inject_Z (sm * 2 ^ e) else Qmake sm (Z.to_pos (2 ^ (- e))))
  | _ => None
  end.

Lemma b64_cmpZ_exact : forall (z : Z) (f : B64.t),
  match b64_value f with
  | Some q => B64.cmpZ z f = Some (Qcompare (inject_Z z) q)
  | None => match f with
            | B754_infinity s => B64.cmpZ z f = Some (if s then Gt else Lt)
            | _ => B64.cmpZ z f = None
            end
  end.
Proof.
  intros z f. destruct f as [s|s| |s m e H]; cbn [b64_value B64.cmpZ]; try reflexivity.
  - unfold Qcompare, inject_Z. cbn. rewrite Z.mul_1_r. reflexivity.
  - destruct (e >=? 0)%Z eqn:E.
    + unfold Qcompare, inject_Z. cbn [Qnum Qden]. rewrite !Z.mul_1_r. reflexivity.
    + unfold Qcompare, inject_Z. cbn [Qnum Qden]. rewrite Z.mul_1_r.
      rewrite Z2Pos.id; [reflexivity|]. apply Z.pow_pos_nonneg; lia.
Qed.

(* comparison of two finite floats is the comparison of the rationals they denote is NOT
   proved here (Flocq proves it over the reals: Bcompare_correct); the structural laws above
   are what the order theorems need *)
