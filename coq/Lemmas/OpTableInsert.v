(* C02_insert_operator: what insert_operator does to the groups of the operator list.
   The index arithmetic of the Python code (Model/OpTable.v) is first turned into
   equations over list structure, then the groups of the result are characterised. *)
From Coq Require Import List ZArith Bool Arith Lia.
From YV Require Import Common.Corr Model.OpTable.
Import ListNotations.
Local Open Scope nat_scope.

(* ------------------------------------------------------------ index arithmetic -> structure *)
Lemma advance_S : forall f e l n, advance f (e :: l) (S n) = S (advance f l n).
Proof. reflexivity. Qed.

Lemma insert_with_S : forall e l n new c, insert_with (e :: l) (S n) new c = e :: insert_with l n new c.
Proof.
  intros e l n new c. unfold insert_with. destruct c; [|reflexivity].
  cbn [length Nat.eqb]. destruct (Nat.eqb n (length l)); [reflexivity|].
  rewrite advance_S. reflexivity.
Qed.

Lemma find_anchor_S : forall a b l i, find_anchor a b l (S i) = option_map S (find_anchor a b l i).
Proof.
  intros a b l. induction l as [|e l IH]; intro i; [reflexivity|].
  destruct e as [|s k al]; cbn [find_anchor]; [apply IH|].
  destruct (str_eqb s a && (if b then is_binary k else is_unary k)); [reflexivity|apply IH].
Qed.

Lemma anchor_pos_other : forall a b e r, is_anchor a b e = false ->
  anchor_position (e :: r) (Some a) b = option_map S (anchor_position r (Some a) b).
Proof.
  intros a b e r H. unfold anchor_position.
  assert (F : find_anchor a b (e :: r) 0 = option_map S (find_anchor a b r 0)).
  { destruct e as [|s k al]; cbn [find_anchor]; [apply find_anchor_S|].
    cbn [is_anchor] in H. rewrite H. apply find_anchor_S. }
  rewrite F. destruct (find_anchor a b r 0) as [i|]; [|reflexivity].
  cbn [option_map]. rewrite advance_S. reflexivity.
Qed.

Lemma anchor_pos_hit : forall a b e r, is_anchor a b e = true ->
  anchor_position (e :: r) (Some a) b = Some (S (count_while is_op r)).
Proof.
  intros a b e r H. unfold anchor_position. destruct e as [|s k al]; [discriminate|].
  cbn [find_anchor]. cbn [is_anchor] in H. rewrite H. reflexivity.
Qed.

Lemma ins_other : forall a b e r new c, is_anchor a b e = false ->
  insert_operator (e :: r) (Some a) b new c = option_map (cons e) (insert_operator r (Some a) b new c).
Proof.
  intros a b e r new c H. unfold insert_operator. rewrite (anchor_pos_other a b e r H).
  destruct (anchor_position r (Some a) b) as [pos|]; [|reflexivity].
  cbn [option_map]. rewrite insert_with_S. reflexivity.
Qed.

Lemma ins_hit : forall a b e r new c, is_anchor a b e = true ->
  insert_operator (e :: r) (Some a) b new c = Some (e :: insert_with r (count_while is_op r) new c).
Proof.
  intros a b e r new c H. unfold insert_operator. rewrite (anchor_pos_hit a b e r H).
  rewrite insert_with_S. reflexivity.
Qed.

(* ------------------------------------------------------------ groups *)
Lemma groups_nonempty : forall l, groups l <> [].
Proof.
  induction l as [|e l IH]; [discriminate|].
  destruct e; cbn [groups]; [discriminate|].
  destruct (groups l); discriminate.
Qed.

Lemma groups_op : forall e l, is_op e = true -> groups (e :: l) = consg e (groups l).
Proof. intros e l H. destruct e; [discriminate|reflexivity]. Qed.

Lemma count_op : forall e l, is_op e = true -> count_while is_op (e :: l) = S (count_while is_op l).
Proof. intros e l H. cbn [count_while]. rewrite H. reflexivity. Qed.

(* joining the first group at its end *)
Lemma join_here : forall r new g gs, is_op new = true -> groups r = g :: gs ->
  groups (insert_with r (count_while is_op r) new false) = (g ++ [new]) :: gs.
Proof.
  induction r as [|e r IH]; intros new g gs N G.
  - inversion G; subst. unfold insert_with, insert_at. cbn [count_while firstn skipn app].
    rewrite (groups_op new [] N). reflexivity.
  - destruct e as [|s k al].
    + cbn [groups] in G. inversion G; subst.
      unfold insert_with, insert_at. cbn [count_while is_op is_sep negb firstn skipn app].
      rewrite (groups_op new _ N). reflexivity.
    + rewrite (count_op (Op s k al) r eq_refl). rewrite insert_with_S.
      rewrite (groups_op (Op s k al) _ eq_refl). rewrite (groups_op (Op s k al) r eq_refl) in G.
      destruct (groups r) as [|g0 gs0] eqn:GR; [exfalso; exact (groups_nonempty r GR)|].
      cbn [consg] in G. injection G as <- <-.
      rewrite (IH new g0 gs0 N eq_refl). reflexivity.
Qed.

(* a new group in front of the first non-empty group *)
Lemma new_after_seps : forall r new, is_op new = true ->
  exists empties post', groups r = empties ++ post' /\ Forall (fun g => g = []) empties /\
    groups (insert_at (count_while is_sep r) new (insert_at (count_while is_sep r) Sep r)) = empties ++ [new] :: post'.
Proof.
  induction r as [|e r IH]; intros new N.
  - exists [], [[]]. split; [reflexivity|]. split; [constructor|].
    unfold insert_at. cbn [count_while firstn skipn app]. rewrite (groups_op new _ N). reflexivity.
  - destruct e as [|s k al].
    + destruct (IH new N) as [em [po [G [F R]]]].
      exists ([] :: em), po. split; [cbn [groups]; rewrite G; reflexivity|].
      split; [constructor; [reflexivity|exact F]|].
      cbn [count_while is_sep]. unfold insert_at in *. cbn [firstn skipn app groups]. rewrite R. reflexivity.
    + exists [], (groups (Op s k al :: r)). split; [reflexivity|]. split; [constructor|].
      unfold insert_at. cbn [count_while is_sep firstn skipn app]. rewrite (groups_op new _ N). reflexivity.
Qed.

Lemma new_here : forall r new g gs, is_op new = true -> groups r = g :: gs ->
  exists empties post', gs = empties ++ post' /\ Forall (fun g => g = []) empties /\
    groups (insert_with r (count_while is_op r) new true) = g :: empties ++ [new] :: post'.
Proof.
  induction r as [|e r IH]; intros new g gs N G.
  - inversion G; subst. exists [], []. split; [reflexivity|]. split; [constructor|].
    unfold insert_with, insert_at. cbn [count_while length Nat.eqb firstn skipn app].
    destruct new; [discriminate|reflexivity].
  - destruct e as [|s k al].
    + cbn [groups] in G. inversion G; subst.
      destruct (new_after_seps r new N) as [em [po [G' [F R]]]].
      exists em, po. split; [exact G'|]. split; [exact F|].
      unfold insert_with. cbn [count_while is_op is_sep negb length Nat.eqb].
      unfold advance. cbn [skipn Nat.add count_while is_sep].
      unfold insert_at in *. cbn [firstn skipn app groups]. rewrite R. reflexivity.
    + rewrite (count_op (Op s k al) r eq_refl). rewrite insert_with_S.
      rewrite (groups_op (Op s k al) _ eq_refl). rewrite (groups_op (Op s k al) r eq_refl) in G.
      destruct (groups r) as [|g0 gs0] eqn:GR; [exfalso; exact (groups_nonempty r GR)|].
      cbn [consg] in G. injection G as <- <-.
      destruct (IH new g0 gs0 N eq_refl) as [em [po [G' [F R]]]].
      exists em, po. split; [exact G'|]. split; [exact F|]. rewrite R. reflexivity.
Qed.

(* ------------------------------------------------------------ the characterisation *)
(* what the call does to the groups, for an anchor that is given *)
Definition inserted (a : str) (b : bool) (new : entry) (c : bool) (before after : list (list entry)) : Prop :=
  exists pre g post,
    before = pre ++ g :: post /\
    Forall (fun g' => has_anchor a b g' = false) pre /\ has_anchor a b g = true /\
    if c then exists empties post', post = empties ++ post' /\ Forall (fun g => g = []) empties /\
                                    after = pre ++ g :: empties ++ [new] :: post'
    else after = pre ++ (g ++ [new]) :: post.

Lemma inserted_skip_sep : forall a b new c before after,
  inserted a b new c before after -> inserted a b new c ([] :: before) ([] :: after).
Proof.
  intros a b new c before after [pre [g [post [B [F [H R]]]]]].
  exists ([] :: pre), g, post. split; [rewrite B; reflexivity|].
  split; [constructor; [reflexivity|exact F]|]. split; [exact H|].
  destruct c.
  - destruct R as [em [po [P [FE R]]]]. exists em, po. split; [exact P|]. split; [exact FE|]. rewrite R. reflexivity.
  - rewrite R. reflexivity.
Qed.

Lemma inserted_skip_op : forall a b new c e before after,
  is_anchor a b e = false ->
  inserted a b new c before after -> inserted a b new c (consg e before) (consg e after).
Proof.
  intros a b new c e before after NA [pre [g [post [B [F [H R]]]]]].
  destruct pre as [|p0 pre0].
  - exists [], (e :: g), post. cbn [app] in *. split; [rewrite B; reflexivity|].
    split; [constructor|]. split; [cbn [has_anchor existsb]; rewrite NA; exact H|].
    destruct c.
    + destruct R as [em [po [P [FE R]]]]. exists em, po. split; [exact P|]. split; [exact FE|]. rewrite R. reflexivity.
    + rewrite R. reflexivity.
  - exists ((e :: p0) :: pre0), g, post. split; [rewrite B; reflexivity|].
    split.
    { inversion F; subst. constructor; [|assumption]. cbn [has_anchor existsb]. rewrite NA. assumption. }
    split; [exact H|].
    destruct c.
    + destruct R as [em [po [P [FE R]]]]. exists em, po. split; [exact P|]. split; [exact FE|]. rewrite R. reflexivity.
    + rewrite R. reflexivity.
Qed.

Theorem insert_anchor_groups : forall ops a b new c ops',
  is_op new = true ->
  insert_operator ops (Some a) b new c = Some ops' ->
  inserted a b new c (groups ops) (groups ops').
Proof.
  induction ops as [|e r IH]; intros a b new c ops' N H.
  - discriminate.
  - destruct (is_anchor a b e) eqn:A.
    + rewrite (ins_hit a b e r new c A) in H. inversion H; subst ops'. clear H.
      assert (OE : is_op e = true) by (destruct e; [discriminate|reflexivity]).
      repeat rewrite (groups_op e _ OE).
      destruct (groups r) as [|g0 gs0] eqn:GR; [exfalso; exact (groups_nonempty r GR)|].
      exists [], (e :: g0), gs0. split; [reflexivity|]. split; [constructor|].
      split; [cbn [has_anchor existsb]; rewrite A; reflexivity|].
      destruct c.
      * destruct (new_here r new g0 gs0 N GR) as [em [po [P [F R]]]].
        exists em, po. split; [exact P|]. split; [exact F|]. rewrite R. reflexivity.
      * rewrite (join_here r new g0 gs0 N GR). reflexivity.
    + rewrite (ins_other a b e r new c A) in H.
      destruct (insert_operator r (Some a) b new c) as [r'|] eqn:I; [|discriminate].
      inversion H; subst ops'. clear H.
      pose proof (IH a b new c r' N I) as J.
      destruct e as [|s k al].
      * cbn [groups]. apply inserted_skip_sep. exact J.
      * repeat rewrite (groups_op (Op s k al) _ eq_refl).
        apply inserted_skip_op; assumption.
Qed.

(* without an anchor the new operator goes to the very front *)
Theorem insert_front_groups : forall ops b new c ops',
  is_op new = true ->
  insert_operator ops None b new c = Some ops' ->
  if c then exists empties post', groups ops = empties ++ post' /\ Forall (fun g => g = []) empties /\
                                  groups ops' = empties ++ [new] :: post'
  else groups ops' = consg new (groups ops).
Proof.
  intros ops b new c ops' N H. unfold insert_operator, anchor_position in H.
  inversion H; subst ops'. clear H. unfold insert_with. destruct c.
  - destruct ops as [|e r].
    + exists [[]], []. split; [reflexivity|]. split; [repeat constructor|].
      unfold insert_at. cbn [length Nat.eqb firstn skipn app]. destruct new; [discriminate|reflexivity].
    + cbn [length Nat.eqb]. unfold advance. cbn [skipn Nat.add]. apply new_after_seps. exact N.
  - unfold insert_at. cbn [firstn skipn app]. apply groups_op. exact N.
Qed.

(* ------------------------------------------------------------ no empty group is created *)
Lemma existsb_role_app : forall g x, existsb has_role g = true -> existsb has_role (g ++ x) = true.
Proof. intros g x H. rewrite existsb_app, H. reflexivity. Qed.

Lemma all_empty_ok_nil : forall em : list (list entry),
  Forall (fun g => g = []) em -> Forall (fun g => existsb has_role g = true) em -> em = [].
Proof.
  intros em F G. destruct em as [|g em]; [reflexivity|].
  inversion F; subst. inversion G; subst. discriminate.
Qed.

Theorem insert_keeps_groups_ok : forall ops anchor b new c ops',
  has_role new = true ->
  insert_operator ops anchor b new c = Some ops' ->
  groups_ok ops -> groups_ok ops'.
Proof.
  intros ops anchor b new c ops' R H OK. unfold groups_ok in *.
  assert (N : is_op new = true) by (destruct new; [discriminate|reflexivity]).
  assert (RN : existsb has_role [new] = true) by (cbn [existsb]; rewrite R; reflexivity).
  destruct anchor as [a|].
  - destruct (insert_anchor_groups ops a b new c ops' N H) as [pre [g [post [B [_ [_ J]]]]]].
    rewrite B in OK. apply Forall_app in OK. destruct OK as [O1 O2]. inversion O2; subst.
    destruct c.
    + destruct J as [em [po [P [FE J]]]]. rewrite J. subst post.
      match goal with X : Forall _ (em ++ po) |- _ => apply Forall_app in X; destruct X as [X1 X2] end.
      rewrite (all_empty_ok_nil em FE X1). cbn [app].
      apply Forall_app. split; [exact O1|]. constructor; [assumption|]. constructor; assumption.
    + rewrite J. apply Forall_app. split; [exact O1|]. constructor; [|assumption].
      apply existsb_role_app. assumption.
  - pose proof (insert_front_groups ops b new c ops' N H) as J. destruct c.
    + destruct J as [em [po [P [FE J]]]]. rewrite J. rewrite P in OK.
      apply Forall_app in OK. destruct OK as [X1 X2].
      rewrite (all_empty_ok_nil em FE X1). cbn [app]. constructor; assumption.
    + rewrite J. destruct (groups ops) as [|g gs]; cbn [consg].
      * constructor; [exact RN|constructor].
      * inversion OK; subst. constructor; [|assumption]. cbn [existsb]. rewrite R. reflexivity.
Qed.

(* every table reachable from a base table by insert_operator calls *)
Inductive reachable (base : oplist) : oplist -> Prop :=
| reach_base : reachable base base
| reach_insert : forall ops anchor b new c ops',
    reachable base ops -> has_role new = true ->
    insert_operator ops anchor b new c = Some ops' -> reachable base ops'.

Theorem reachable_groups_ok : forall base ops, groups_ok base -> reachable base ops -> groups_ok ops.
Proof.
  intros base ops B R. induction R as [|ops anchor b new c ops' R IH N H]; [exact B|].
  exact (insert_keeps_groups_ok ops anchor b new c ops' N H IH).
Qed.
