(* streaming == list semantics for zip, join, slice, distinct WITHOUT a hashability premise
   (the failing case included), the eager consumers splitAt / groupBy, and the pipeline theorem
   over the property's whole operator list. *)
From Coq Require Import List ZArith Bool Arith Lia.
From YV Require Import Common.Corr Model.Queries Model.Streams Lemmas.StreamsMono Lemmas.StreamsSteps
  Lemmas.StreamsPipeline Lemmas.StreamsPipeline2 Lemmas.StreamsMore Lemmas.StreamsGeneric Lemmas.StreamsAll.
Import ListNotations.

(* the iterator yields exactly l and then raises e *)
Definition DenotesF (i : it) (l : list val) (e : err) : Prop :=
  exists dp dt i' dp' dt', StepsD i l dp dt i' /\ FailsD i' e dp' dt'.

Lemma denotesF_nil i e dp dt : FailsD i e dp dt -> DenotesF i [] e.
Proof. intro F. exists 0, 0, i, dp, dt. split; [cbn; repeat split | exact F]. Qed.

Lemma denotesF_cons i v i1 dp dt r e : YieldsD i v i1 dp dt -> DenotesF i1 r e -> DenotesF i (v :: r) e.
Proof.
  intros Y (a & b & i' & c & d & HS & F). exists (dp + a), (dt + b), i', c, d. split; [|exact F].
  apply (StepsD_cons _ _ _ _ _ _ _ _ _ Y HS).
Qed.

(* ---- distinct, total: either the list semantics, or the prefix before the first unhashable key and TypeError -- *)
Lemma distinct_unhashable f seen i x i1 dp dt : YieldsD i x i1 dp dt -> hashable (dkey f x) = false ->
  FailsD (Distinct f seen i) EType dp (dt + dcost f).
Proof.
  intros H Hh s. destruct (H s) as [fu E]. exists (S fu). cbn [next]. rewrite E.
  destruct f as [g|]; cbn [dkey dcost] in *; rewrite Hh; cbn [negb]; [rewrite tick_plus; reflexivity|].
  f_equal. apply plus_st_eq; lia.
Qed.

Lemma distinct_seen_fail f seen i x i1 dp1 dt1 e dp2 dt2 :
  YieldsD i x i1 dp1 dt1 -> hashable (dkey f x) = true -> vmem (dkey f x) seen = true ->
  FailsD (Distinct f seen i1) e dp2 dt2 -> FailsD (Distinct f seen i) e (dp1 + dp2) (dt1 + dcost f + dt2).
Proof.
  intros H Hh M H2 s. destruct (yields_at _ _ _ _ _ H s) as [f1 F1].
  destruct f as [g|]; cbn [dkey dcost] in *.
  - destruct (fails_at _ _ _ _ H2 (tick (plus_st s dp1 dt1))) as [f2 F2].
    exists (S (Nat.max f1 f2)). cbn [next]. rewrite F1 by lia. rewrite Hh, M. cbn [negb]. rewrite F2 by lia.
    rewrite tick_plus, plus_st_plus. reflexivity.
  - destruct (fails_at _ _ _ _ H2 (plus_st s dp1 dt1)) as [f2 F2].
    exists (S (Nat.max f1 f2)). cbn [next]. rewrite F1 by lia. rewrite Hh, M. cbn [negb]. rewrite F2 by lia.
    rewrite plus_st_plus. f_equal. apply plus_st_eq; lia.
Qed.

(* the elements before the first one whose key is unhashable *)
Fixpoint hashable_prefix (f : option lam) (l : list val) : list val :=
  match l with [] => [] | x :: r => if hashable (dkey f x) then x :: hashable_prefix f r else [] end.

Lemma denotes_distinct_total f l : forall seen i, Denotes i l ->
  if forallb (fun x => hashable (dkey f x)) l
  then Denotes (Distinct f seen i) (distinct_from val_eqb (dkey f) seen l)
  else DenotesF (Distinct f seen i) (distinct_from val_eqb (dkey f) seen (hashable_prefix f l)) EType.
Proof.
  induction l as [|x r IH]; intros seen i D.
  - cbn. apply (denotes_distinct f [] seen i D eq_refl).
  - destruct (denotes_inv_cons _ _ _ D) as (j & a & b & Y & D1). cbn [forallb hashable_prefix].
    destruct (hashable (dkey f x)) eqn:Hx; cbn [andb].
    + destruct (vmem (dkey f x) seen) eqn:M.
      * specialize (IH seen j D1). cbn [distinct_from]. rewrite <- vmem_kmem, M.
        destruct (forallb (fun x0 => hashable (dkey f x0)) r).
        -- apply (denotes_via_skip _ _ a (b + dcost f) _
                    (fun v k p q Y2 => distinct_seen_yield f seen _ _ _ _ _ _ _ _ _ Y Hx M Y2)
                    (fun p q E2 => distinct_seen_end f seen _ _ _ _ _ _ _ Y Hx M E2) IH).
        -- destruct IH as (p1 & t1 & i' & p2 & t2 & HS & F).
           destruct (distinct_from val_eqb (dkey f) seen (hashable_prefix f r)) as [|w ws].
           ++ destruct HS as (-> & -> & ->). apply (denotesF_nil _ _ _ _ (distinct_seen_fail f seen _ _ _ _ _ _ _ _ Y Hx M F)).
           ++ destruct HS as (j1 & a1 & b1 & a2 & b2 & Y1 & HS1 & -> & ->).
              apply (denotesF_cons _ _ _ _ _ _ _ (distinct_seen_yield f seen _ _ _ _ _ _ _ _ _ Y Hx M Y1)).
              exists a2, b2, i', p2, t2. split; assumption.
      * specialize (IH (dkey f x :: seen) j D1). cbn [distinct_from]. rewrite <- vmem_kmem, M.
        destruct (forallb (fun x0 => hashable (dkey f x0)) r).
        -- apply (denotes_cons _ _ _ _ _ _ (distinct_new f seen _ _ _ _ _ Y Hx M) IH).
        -- apply (denotesF_cons _ _ _ _ _ _ _ (distinct_new f seen _ _ _ _ _ Y Hx M) IH).
    + cbn [distinct_from]. apply (denotesF_nil _ _ _ _ (distinct_unhashable f seen _ _ _ _ _ Y Hx)).
Qed.

(* ---- zip --------------------------------------------------------------------------------------------------- *)
Definition zip_list (ls : list (list val)) (l : list val) : list val := touts _ zip_out zip_nq zip_live ls l.

Lemma zip_yield q i x i1 dp dt : zip_live q x = true -> YieldsD i x i1 dp dt ->
  YieldsD (zip_T q i) (VList false (x :: map hdv q)) (zip_T (zip_nq q x) i1) dp dt.
Proof.
  intros L Y s. unfold zip_T, zip_nq. destruct (yields_at _ _ _ _ _ Y s) as [f1 F1]. exists (S (S f1)).
  rewrite next_zip_cons, zip_go_cons. rewrite F1 by lia. rewrite (zip_go_oflists f1 q _ [x] [i1] L). reflexivity.
Qed.

Lemma zip_go_dead fu : forall q s vs js, zip_live q VNull = false ->
  zip_go (next (S fu)) s (map OfList q) vs js = (s, Done).
Proof.
  induction q as [|l r IH]; intros s vs js L; [discriminate L|]. cbn [zip_live forallb] in L. cbn [map]. rewrite zip_go_cons.
  destruct l as [|y t].
  - reflexivity.
  - change (next (S fu) s (OfList (y :: t))) with (s, Yield y (OfList t)). cbn iota. apply IH. exact L.
Qed.

Lemma zip_dead q i x i1 dp dt : zip_live q x = false -> YieldsD i x i1 dp dt -> EndsD (zip_T q i) dp dt.
Proof.
  intros L Y s. unfold zip_T. destruct (yields_at _ _ _ _ _ Y s) as [f1 F1]. exists (S (S f1)).
  rewrite next_zip_cons, zip_go_cons. rewrite F1 by lia. apply (zip_go_dead f1 q _ [x] [i1] L).
Qed.

Lemma zip_ends q i dp dt : EndsD i dp dt -> EndsD (zip_T q i) dp dt.
Proof.
  intros E s. unfold zip_T. destruct (E s) as [fu F]. exists (S fu). rewrite next_zip_cons, zip_go_cons, F. reflexivity.
Qed.

Lemma denotes_zip l : forall q i, Denotes i l -> Denotes (zip_T q i) (zip_list q l).
Proof.
  induction l as [|x r IH]; intros q i D; unfold zip_list; cbn [touts].
  - destruct (denotes_inv_nil _ D) as (a & b & E). apply (denotes_nil _ _ _ (zip_ends q _ _ _ E)).
  - destruct (denotes_inv_cons _ _ _ D) as (j & a & b & Y & D1). destruct (zip_live q x) eqn:L.
    + cbn [zip_out map fst app]. apply (denotes_cons _ _ _ _ _ _ (zip_yield q _ _ _ _ _ L Y) (IH _ _ D1)).
    + apply (denotes_nil _ _ _ (zip_dead q _ _ _ _ _ L Y)).
Qed.

(* with one collection: pairs, as many as the shorter one *)
Lemma zip_list_one l2 : forall l, zip_list [l2] l = map (fun p => VList false [fst p; snd p]) (zip_l l l2).
Proof.
  induction l2 as [|y t IH]; intros [|x r]; try reflexivity.
  unfold zip_list in *. cbn [touts zip_live forallb zip_out zip_nq map fst app hdv hd tl zip_l snd andb]. f_equal. apply IH.
Qed.

(* ---- join ---------------------------------------------------------------------------------------------------- *)
Definition join_list (p f : lam2) (l2 l : list val) : list val :=
  flat_map (fun x => map (apply2 f x) (filter (fun y => truthy (apply2 p x y)) l2)) l.

Lemma jout_fst p f x ys : map fst (jout p f x ys) = map (apply2 f x) (filter (fun y => truthy (apply2 p x y)) ys).
Proof.
  induction ys as [|y r IH]; [reflexivity|]. cbn [jout filter]. unfold jhit. destruct (truthy (apply2 p x y)).
  - cbn [map fst]. f_equal. exact IH.
  - rewrite <- IH. destruct (jout p f x r) as [|[w t] rest]; reflexivity.
Qed.

Lemma join_ends p f l2 i dp dt : EndsD i dp dt -> EndsD (Join p f l2 None i) dp dt.
Proof. intros E s. destruct (E s) as [fu F]. exists (S fu). cbn [next]. rewrite F. reflexivity. Qed.

Lemma join_pull p f l2 i x i1 dp dt : YieldsD i x i1 dp dt ->
  (forall w j a b, YieldsD (Join p f l2 (Some (x, l2)) i1) w j a b -> YieldsD (Join p f l2 None i) w j (dp + a) (dt + b)) /\
  (forall a b, EndsD (Join p f l2 (Some (x, l2)) i1) a b -> EndsD (Join p f l2 None i) (dp + a) (dt + b)).
Proof.
  intro Y. split.
  - intros w j a b Y2 s. destruct (yields_at _ _ _ _ _ Y s) as [f1 F1]. destruct (yields_at _ _ _ _ _ Y2 (plus_st s dp dt)) as [f2 F2].
    exists (S (Nat.max f1 f2)). cbn [next]. rewrite F1 by lia. rewrite F2 by lia. rewrite plus_st_plus. reflexivity.
  - intros a b E2 s. destruct (yields_at _ _ _ _ _ Y s) as [f1 F1]. destruct (ends_at _ _ _ E2 (plus_st s dp dt)) as [f2 F2].
    exists (S (Nat.max f1 f2)). cbn [next]. rewrite F1 by lia. rewrite F2 by lia. rewrite plus_st_plus. reflexivity.
Qed.

Lemma denotes_join p f l2 l : forall i, Denotes i l -> Denotes (Join p f l2 None i) (join_list p f l2 l).
Proof.
  induction l as [|x r IH]; intros i D; unfold join_list; cbn [flat_map].
  - destruct (denotes_inv_nil _ D) as (a & b & E). apply (denotes_nil _ _ _ (join_ends p f l2 _ _ _ E)).
  - destruct (denotes_inv_cons _ _ _ D) as (j & a & b & Y & D1). specialize (IH j D1).
    destruct (join_pull p f l2 _ _ _ _ _ Y) as [HY HE]. rewrite <- jout_fst.
    destruct (join_state p f l2 x j l2) as (_ & F2 & F3).
    apply (denotes_via_skip _ (Join p f l2 (Some (x, l2)) j) a b _ HY HE).
    fold (join_list p f l2 r). destruct IH as (p1 & t1 & i' & p2 & t2 & HS & E).
    destruct (join_list p f l2 r) as [|w ws] eqn:JL.
    + destruct HS as (-> & -> & ->). destruct (F3 _ _ E) as (j' & HS' & E'). rewrite app_nil_r.
      exists 0, (sumt (jout p f x l2)), j', p2, (jtrail p f x l2 + t2). split; assumption.
    + assert (N : w :: ws <> []) by discriminate. pose proof (F2 _ _ _ _ N HS) as HS'.
      exists p1, (sumt (jout p f x l2) + jtrail p f x l2 + t1), i', p2, t2. split; assumption.
Qed.

(* ---- slice --------------------------------------------------------------------------------------------------- *)
Lemma slice_collect_partial nz : forall l k i dp dt i' de dte acc, StepsD i l dp dt i' -> EndsD i' de dte ->
  length l < k -> rev acc ++ l <> [] ->
  forall s, exists f0, forall fuel, f0 <= fuel ->
    slice_collect (next fuel) nz k s i acc =
    (plus_st s (dp + de) (dt + dte), Yield (VList false (rev acc ++ l)) (SliceN nz (OfList []))).
Proof.
  induction l as [|x r IH]; intros k i dp dt i' de dte acc HS E L N s.
  - destruct HS as (-> & -> & ->). destruct k as [|k]; [cbn in L; lia|]. destruct (ends_at _ _ _ E s) as [f1 F1].
    exists f1. intros fuel Lf. cbn [slice_collect]. rewrite F1 by lia. rewrite app_nil_r in *.
    destruct acc as [|a acc']; [cbn in N; contradiction|]. reflexivity.
  - destruct HS as (i1 & p1 & t1 & p2 & t2 & Y & HS & -> & ->). destruct k as [|k]; [cbn in L; lia|]. cbn [length] in L.
    destruct (yields_at _ _ _ _ _ Y s) as [f1 F1].
    assert (N2 : rev (x :: acc) ++ r <> []) by (cbn [rev]; rewrite <- app_assoc; destruct (rev acc); discriminate).
    destruct (IH k i1 p2 t2 i' de dte (x :: acc) HS E ltac:(lia) N2 (plus_st s p1 t1)) as [f2 F2].
    exists (Nat.max f1 f2). intros fuel Lf. cbn [slice_collect]. rewrite F1 by lia. rewrite F2 by lia.
    rewrite plus_st_plus. cbn [rev]. rewrite <- app_assoc. f_equal. apply plus_st_eq; lia.
Qed.

Lemma slice_ends_empty n i dp dt : EndsD i dp dt -> EndsD (SliceN (Z.of_nat (S n)) i) dp dt.
Proof.
  intros E s. destruct (E s) as [fu F]. exists (S fu). cbn [next].
  assert (Q : (Z.of_nat (S n) <? 0)%Z = false) by (apply Z.ltb_ge; lia). rewrite Q, Nat2Z.id. cbn [slice_collect]. rewrite F. reflexivity.
Qed.

Lemma slice_last n l i dp dt i' de dte : StepsD i l dp dt i' -> EndsD i' de dte -> l <> [] -> length l < S n ->
  YieldsD (SliceN (Z.of_nat (S n)) i) (VList false l) (SliceN (Z.of_nat (S n)) (OfList [])) (dp + de) (dt + dte).
Proof.
  intros HS E N L s. assert (N0 : rev [] ++ l <> []) by exact N.
  destruct (slice_collect_partial (Z.of_nat (S n)) l (S n) i dp dt i' de dte [] HS E L N0 s) as [f0 F]. exists (S f0). cbn [next].
  assert (Q : (Z.of_nat (S n) <? 0)%Z = false) by (apply Z.ltb_ge; lia). rewrite Q, Nat2Z.id. apply F. lia.
Qed.

Lemma denotes_slice n : forall m l i, length l <= m -> Denotes i l ->
  Denotes (SliceN (Z.of_nat (S n)) i) (map (VList false) (chunks_fuel m (S n) l)).
Proof.
  induction m as [|m IH]; intros l i L D.
  - destruct l; [|cbn in L; lia]. cbn. destruct (denotes_inv_nil _ D) as (a & b & E). apply (denotes_nil _ _ _ (slice_ends_empty n _ _ _ E)).
  - destruct l as [|x r] eqn:El.
    + cbn. destruct (denotes_inv_nil _ D) as (a & b & E). apply (denotes_nil _ _ _ (slice_ends_empty n _ _ _ E)).
    + rewrite <- El in *. cbn [chunks_fuel]. rewrite El at 1. cbn iota. cbn [map].
      destruct D as (dp & dt & i' & de & dte & HS & E).
      destruct (le_lt_dec (S n) (length l)) as [Q|Q].
      * rewrite <- (firstn_skipn (S n) l) in HS. destruct (StepsD_split _ _ _ _ _ _ HS) as (p1 & t1 & i1 & p2 & t2 & S1 & S2 & -> & ->).
        assert (L1 : length (firstn (S n) l) = S n) by (rewrite firstn_length; lia).
        apply (denotes_cons _ _ _ _ _ _ (slice_yields n _ _ _ _ _ S1 L1)). apply IH.
        -- rewrite skipn_length. subst l. cbn [length] in *. lia.
        -- exists p2, t2, i', de, dte. split; assumption.
      * rewrite firstn_all2 by lia. rewrite skipn_all2 by lia.
        assert (N : l <> []) by (subst l; discriminate).
        apply (denotes_cons _ _ _ _ _ _ (slice_last n _ _ _ _ _ _ _ HS E N Q)).
        destruct m; cbn; apply (denotes_nil _ 0 0); apply slice_ends_empty; apply oflist_ends.
Qed.

Lemma denotes_slice_l n l i : Denotes i l -> Denotes (SliceN (Z.of_nat (S n)) i) (map (VList false) (chunks_l (S n) l)).
Proof. intro D. apply (denotes_slice n (length l) l i (le_n _) D). Qed.

(* ---- the pipeline theorem over the whole operator list -------------------------------------------------------- *)
Inductive zop :=
| ZY (o : yop)                      (* select .. memorize, append, accumulate(seed), delete, replace(Many), insert, selectMany *)
| ZZip (ls : list (list val))
| ZJoin (l2 : list val) (p f : lam2)
| ZSlice (n : nat)                  (* slice(n + 1) *)
| ZDistinct (key : option lam).     (* where every key is hashable; see denotes_distinct_total for the other case *)

Definition zbuild (o : zop) (i : it) : it :=
  match o with
  | ZY y => ybuild y i
  | ZZip ls => Zip (i :: map OfList ls)
  | ZJoin l2 p f => Join p f l2 None i
  | ZSlice n => SliceN (Z.of_nat (S n)) i
  | ZDistinct key => Distinct key [] i
  end.

Definition zlist (o : zop) (l : list val) : list val :=
  match o with
  | ZY y => ylist y l
  | ZZip ls => zip_list ls l
  | ZJoin l2 p f => join_list p f l2 l
  | ZSlice n => map (VList false) (chunks_l (S n) l)
  | ZDistinct key => distinct_l val_eqb (dkey key) l
  end.

Definition zok (o : zop) (l : list val) : bool :=
  match o with ZDistinct key => forallb (fun x => hashable (dkey key x)) l | _ => true end.

Fixpoint zbuild_all (ops : list zop) (i : it) : it :=
  match ops with [] => i | o :: r => zbuild_all r (zbuild o i) end.
Fixpoint zlist_all (ops : list zop) (l : list val) : list val :=
  match ops with [] => l | o :: r => zlist_all r (zlist o l) end.
Fixpoint zok_all (ops : list zop) (l : list val) : bool :=
  match ops with [] => true | o :: r => zok o l && zok_all r (zlist o l) end.

Lemma zop_denotes o i l : zok o l = true -> Denotes i l -> Denotes (zbuild o i) (zlist o l).
Proof.
  intros K D. destruct o; cbn [zbuild zlist zok] in *.
  - apply yop_denotes. exact D.
  - apply (denotes_zip l ls i D).
  - apply denotes_join. exact D.
  - apply denotes_slice_l. exact D.
  - apply (denotes_distinct key l [] i D K).
Qed.

Theorem zpipeline_denotes ops : forall i l, zok_all ops l = true -> Denotes i l -> Denotes (zbuild_all ops i) (zlist_all ops l).
Proof.
  induction ops as [|o r IH]; intros i l K D; [exact D|]. cbn [zbuild_all zlist_all zok_all] in *.
  apply andb_true_iff in K as [K1 K2]. apply IH; [exact K2|]. apply zop_denotes; assumption.
Qed.

(* ---- the eager consumers: splitAt and groupBy --------------------------------------------------------------- *)
Lemma consumer_split_at i l n : Denotes i l -> forall s, exists fuel s',
  apply_stage fuel s (SSplitAt n) (RIter i) =
  (s', Ok (RVal (VList false [VList false (fst (split_at_l l n)); VList false (snd (split_at_l l n))]))).
Proof.
  intros D s. destruct (denotes_drain l i D s) as (fuel & s' & E). exists fuel, s'.
  cbn [apply_stage]. unfold with_list. cbn [as_it]. rewrite E. destruct (split_at_l l n). reflexivity.
Qed.

Lemma consumer_group_by i l k v : Denotes i l -> forall s, exists fuel s',
  apply_stage fuel s (SGroupBy k v) (RIter i) =
  (s', if forallb (fun x => hashable (apply k x)) l
       then Ok (RIter (OfList (map (fun g => pair_val (fst g) (VList false (snd g)))
                                   (group_by_l val_eqb (apply k) (fun x => match v with Some g => apply g x | None => x end) l))))
       else Err EType).
Proof.
  intros D s. destruct (denotes_drain l i D s) as (fuel & s' & E).
  exists fuel, (tick_n (length l * match v with Some _ => 2 | None => 1 end) s').
  cbn [apply_stage]. unfold with_list. cbn [as_it]. rewrite E.
  destruct (forallb (fun x => hashable (apply k x)) l); reflexivity.
Qed.
