(* C02_yield: the tree returned by the reference parser spells exactly the token list. *)
From Coq Require Import List ZArith Bool Arith Lia.
From YV Require Import Common.Corr Model.OpTable Model.Pratt.
Import ListNotations.

Ltac break_match_hyp :=
  match goal with
  | H : context [match ?x with _ => _ end] |- _ =>
      lazymatch x with
      | context [match _ with _ => _ end] => fail
      | _ => destruct x eqn:?; try discriminate
      end
  end.

Ltac lnorm := repeat (progress (cbn [app yield yield_args]; rewrite <- ?app_assoc)); cbn [app].

Section Yield.
Variable T : table.

Definition yield_expr_stmt (f : nat) : Prop :=
  forall p ts x r, expr T f p ts = Some (x, r) -> ts = yield x ++ r.
Definition yield_loop_stmt (f : nat) : Prop :=
  forall p l ts x r, loop T f p l ts = Some (x, r) -> yield l ++ ts = yield x ++ r.
Definition yield_slots_stmt (f : nat) : Prop :=
  forall st ts a r, slots T f st ts = Some (a, r) -> ts = yield_args a ++ r /\ (a = ANil -> st = S0).
Definition yield_named_stmt (f : nat) : Prop :=
  forall ts a r, named T f ts = Some (a, r) -> ts = yield_args a ++ r /\ a <> ANil.

Lemma yield_args_cons_val : forall x a, a <> ANil ->
  yield_args (AVal x a) = yield x ++ TComma :: yield_args a.
Proof. intros x a H. destruct a; try congruence; reflexivity. Qed.

Lemma yield_args_cons_named : forall k v a, a <> ANil ->
  yield_args (ANamed k v a) = yield k ++ TMap :: yield v ++ TComma :: yield_args a.
Proof. intros k v a H. destruct a; try congruence; reflexivity. Qed.

Lemma named_step : forall f,
  yield_expr_stmt f -> yield_named_stmt f ->
  forall x r a rest,
    match expr T f None r with
    | Some (y, TComma :: r2) => match named T f r2 with
                                | Some (a, r3) => Some (ANamed x y a, r3)
                                | None => None
                                end
    | Some (y, r2) => Some (ANamed x y ANil, r2)
    | None => None
    end = Some (a, rest) ->
    exists y a', a = ANamed x y a' /\ r = yield y ++ (match a' with ANil => [] | _ => TComma :: yield_args a' end) ++ rest.
Proof.
  intros f He Hn x r a rest H.
  destruct (expr T f None r) as [[y r2]|] eqn:E; [|discriminate].
  apply He in E. subst r.
  destruct r2 as [|t r2].
  { inversion H; subst. exists y, ANil. split; [reflexivity|]. reflexivity. }
  destruct t; try (inversion H; subst; exists y, ANil; split; reflexivity).
  destruct (named T f r2) as [[a' r3]|] eqn:N; [|discriminate].
  apply Hn in N. destruct N as [N1 N2]. inversion H; subst.
  exists y, a'. split; [reflexivity|].
  destruct a'; try congruence; lnorm; reflexivity.
Qed.

Lemma yield_all : forall f, yield_expr_stmt f /\ yield_loop_stmt f /\ yield_slots_stmt f /\ yield_named_stmt f.
Proof.
  induction f as [|f [IHe [IHl [IHs IHn]]]].
  { split; [|split; [|split]]; unfold yield_expr_stmt, yield_loop_stmt, yield_slots_stmt, yield_named_stmt; intros; discriminate. }
  assert (He : yield_expr_stmt (S f)).
  { intros p ts x r H. simpl expr in H.
    destruct ts as [|t ts]; [discriminate|].
    destruct t; try discriminate.
    - apply IHl in H. exact H.
    - destruct (pre T o) as [q|]; [|discriminate].
      destruct (expr T f (Some q) ts) as [[y r']|] eqn:E; [|discriminate].
      apply IHe in E. apply IHl in H. subst ts. cbn [yield] in H. cbn [app] in *. rewrite <- H. reflexivity.
    - destruct (slots T f S0 ts) as [[a r0]|] eqn:E; [|discriminate].
      destruct r0 as [|t0 r0]; [discriminate|]. destruct t0; try discriminate.
      apply IHs in E. destruct E as [E _]. apply IHl in H. subst ts. cbn [yield] in H.
      cbn [app] in *. rewrite <- H. rewrite <- app_assoc. reflexivity.
    - destruct (expr T f None ts) as [[y r0]|] eqn:E; [|discriminate].
      destruct r0 as [|t0 r0]; [discriminate|]. destruct t0; try discriminate.
      apply IHe in E. apply IHl in H. subst ts. cbn [yield] in H.
      cbn [app] in *. rewrite <- H. rewrite <- app_assoc. reflexivity.
    - destruct (slots T f S0 ts) as [[a r0]|] eqn:E; [|discriminate].
      destruct r0 as [|t0 r0]; [discriminate|]. destruct t0; try discriminate.
      apply IHs in E. destruct E as [E _]. apply IHl in H. subst ts. cbn [yield] in H.
      cbn [app] in *. rewrite <- H. rewrite <- app_assoc. reflexivity.
    - destruct (slots T f S0 ts) as [[a r0]|] eqn:E; [|discriminate].
      destruct r0 as [|t0 r0]; [discriminate|]. destruct t0; try discriminate.
      apply IHs in E. destruct E as [E _]. apply IHl in H. subst ts. cbn [yield] in H.
      cbn [app] in *. rewrite <- H. rewrite <- app_assoc. reflexivity. }
  assert (Hl : yield_loop_stmt (S f)).
  { intros p l ts x r H. simpl loop in H.
    destruct ts as [|t ts]; [inversion H; reflexivity|].
    destruct t; try (inversion H; reflexivity).
    - destruct (bin T o) as [q|].
      + destruct (continues q p); [|inversion H; reflexivity].
        destruct (expr T f (Some q) ts) as [[y r']|] eqn:E; [|discriminate].
        apply IHe in E. apply IHl in H. subst ts. cbn [yield] in H.
        rewrite <- H. rewrite <- app_assoc. reflexivity.
      + destruct (suf T o) as [q|]; [|inversion H; reflexivity].
        destruct (continues q p); [|inversion H; reflexivity].
        apply IHl in H. cbn [yield] in H. rewrite <- H. rewrite <- app_assoc. reflexivity.
    - destruct (callr T) as [q|]; [|inversion H; reflexivity].
      destruct (continues q p); [|inversion H; reflexivity].
      destruct (slots T f S0 ts) as [[a r0]|] eqn:E; [|discriminate].
      destruct r0 as [|t0 r0]; [discriminate|]. destruct t0; try discriminate.
      apply IHs in E. destruct E as [E _]. apply IHl in H. subst ts. cbn [yield] in H.
      rewrite <- H. rewrite <- !app_assoc. cbn [app]. rewrite <- app_assoc. reflexivity.
    - destruct (bin T sym_index) as [q|]; [|inversion H; reflexivity].
      destruct (continues q p); [|inversion H; reflexivity].
      destruct (slots T f S0 ts) as [[a r0]|] eqn:E; [|discriminate].
      destruct r0 as [|t0 r0]; [discriminate|]. destruct t0; try discriminate.
      apply IHs in E. destruct E as [E _]. apply IHl in H. subst ts. cbn [yield] in H.
      rewrite <- H. rewrite <- !app_assoc. cbn [app]. rewrite <- app_assoc. reflexivity. }
  assert (Hn : yield_named_stmt (S f)).
  { intros ts a r H. simpl named in H.
    destruct (expr T f None ts) as [[x r0]|] eqn:E; [|discriminate].
    destruct r0 as [|t0 r0]; [discriminate|]. destruct t0; try discriminate.
    apply IHe in E. apply (named_step f IHe IHn) in H. destruct H as [y [a' [Ha Hr]]].
    subst. split; [|discriminate].
    destruct a'; lnorm; reflexivity. }
  assert (Hs : yield_slots_stmt (S f)).
  { intros st ts a r H. simpl slots in H.
    assert (G : forall (NC : match ts with TComma :: _ => False | _ => True end),
      (if match ts with t :: _ => is_closer t | [] => false end
       then match st with S0 => Some (ANil, ts) | _ => None end
       else match expr T f None ts with
        | Some (x, TComma :: r) => match slots T f SV r with Some (a, r') => Some (AVal x a, r') | None => None end
        | Some (x, TMap :: r) =>
            if named_ok st then
              match expr T f None r with
              | Some (y, TComma :: r2) => match named T f r2 with Some (a, r3) => Some (ANamed x y a, r3) | None => None end
              | Some (y, r2) => Some (ANamed x y ANil, r2)
              | None => None
              end
            else None
        | Some (x, r) => Some (AVal x ANil, r)
        | None => None
        end) = Some (a, r) -> ts = yield_args a ++ r /\ (a = ANil -> st = S0)).
    { intros _ G.
      destruct (match ts with t :: _ => is_closer t | [] => false end).
      { destruct st; try discriminate. inversion G; subst. split; reflexivity. }
      destruct (expr T f None ts) as [[x r0]|] eqn:E; [|discriminate].
      apply IHe in E.
      destruct r0 as [|t0 r0].
      { inversion G; subst. split; [cbn [yield_args]; rewrite ?app_nil_r; reflexivity|discriminate]. }
      destruct t0; try (inversion G; subst; split; [cbn [yield_args]; rewrite ?app_nil_r; reflexivity|discriminate]).
      - destruct (slots T f SV r0) as [[a' r']|] eqn:E2; [|discriminate].
        apply IHs in E2. destruct E2 as [E2 E3]. inversion G; subst.
        split; [|discriminate].
        rewrite yield_args_cons_val; [rewrite <- app_assoc; reflexivity|].
        intro Z. apply E3 in Z. discriminate.
      - destruct (named_ok st); [|discriminate].
        apply (named_step f IHe IHn) in G. destruct G as [y [a' [Ha Hr]]].
        subst. split; [|discriminate].
        destruct a'; lnorm; reflexivity. }
    destruct ts as [|t ts]; [apply G; [exact I|exact H]|].
    destruct t; try (apply G; [exact I|exact H]).
    destruct (slots T f (after_empty st) ts) as [[a' r']|] eqn:E; [|discriminate].
    apply IHs in E. destruct E as [E _]. inversion H; subst. split; [reflexivity|discriminate]. }
  exact (conj He (conj Hl (conj Hs Hn))).
Qed.

Theorem parse_yield : forall ts t, parse T ts = Some t -> yield t = ts.
Proof.
  intros ts t H. unfold parse in H.
  destruct (expr T (2 * length ts + 2) None ts) as [[x r]|] eqn:E; [|discriminate].
  destruct r; [|discriminate]. inversion H; subst.
  apply (proj1 (yield_all _)) in E. rewrite app_nil_r in E. symmetry. exact E.
Qed.

End Yield.
