(* Child contexts: a fresh child is transparent (it reads exactly what its parent reads),
   and an assignment made through the child shadows the name for the child only: the
   parent - and every other context built over the old store - reads every name as before. *)
From Coq Require Import List ZArith Bool Arith Lia.
From YV Require Import Common.Corr Common.CorrFacts Model.Contexts Lemmas.ContextsSpec Lemmas.ContextsHistory.
Import ListNotations.

Lemma sget_snoc_empty s p : sget (s ++ [empty_pstate]) p = sget s p.
Proof.
  unfold sget. destruct (Nat.lt_ge_cases p (length s)) as [H|H].
  - apply app_nth1. exact H.
  - rewrite app_nth2 by exact H. rewrite (nth_overflow s) by exact H.
    destruct (p - length s) as [|[|k]]; reflexivity.
Qed.

Lemma plain_get_snoc_empty s n p : plain_get (s ++ [empty_pstate]) n p = plain_get s n p.
Proof. unfold plain_get. rewrite sget_snoc_empty. reflexivity. Qed.

Lemma first_some_ext {A B} (f g : A -> option B) l :
  Forall (fun x => f x = g x) l -> first_some f l = first_some g l.
Proof.
  induction 1 as [|x r Hx _ IH]; [reflexivity|]. cbn [first_some]. rewrite Hx, IH. reflexivity.
Qed.

Lemma layers_get_ext s1 s2 n ls :
  Forall (Forall (fun p => plain_get s1 n p = plain_get s2 n p)) ls ->
  layers_get s1 n ls = layers_get s2 n ls.
Proof.
  intro H. unfold layers_get. apply first_some_ext.
  induction H as [|l r Hl _ IH]; constructor; [|exact IH].
  unfold layer_get. apply first_some_ext. exact Hl.
Qed.

Lemma Forall_Forall_True {A} (P : A -> Prop) (ls : list (list A)) :
  (forall x, P x) -> Forall (Forall P) ls.
Proof.
  intro H. induction ls as [|l r IH]; constructor; [|exact IH].
  induction l; constructor; auto.
Qed.

(* a fresh child reads exactly what the receiver reads, for every name and every class of receiver *)
Lemma child_transparent s c n :
  get_data (fst (create_child s c)) (snd (create_child s c)) n = get_data s c n.
Proof.
  rewrite !get_data_spec, create_child_flatten. cbn [create_child new_plain fst].
  unfold layers_get at 1. cbn [first_some]. unfold layer_get at 1. cbn [first_some].
  rewrite plain_get_snoc_empty. unfold plain_get at 1.
  rewrite (sget_overflow s (length s)) by lia. cbn [pdata empty_pstate alookup].
  fold (layers_get (s ++ [empty_pstate]) n (flatten c)).
  apply layers_get_ext. apply Forall_Forall_True. intro p. apply plain_get_snoc_empty.
Qed.

(* ... and every context built over the old store reads as before *)
Lemma child_keeps_others s c d n : get_data (fst (create_child s c)) d n = get_data s d n.
Proof.
  rewrite !get_data_spec. cbn [create_child new_plain fst].
  apply layers_get_ext. apply Forall_Forall_True. intro p. apply plain_get_snoc_empty.
Qed.

Lemma good_flatten_aux k d : forall c, depth c <= d -> good k c -> Forall (Forall (fun p => p < k)) (flatten c).
Proof.
  induction d as [|d IH]; intros c Hd G.
  - pose proof (depth_pos c). lia.
  - rewrite flatten_cons. constructor; [apply good_sources; exact G|].
    destruct (parent_of c) as [q|] eqn:E; [|constructor].
    apply IH; [pose proof (depth_parent c q E); lia|eapply good_parent; [exact G|exact E]].
Qed.

Lemma good_flatten k c : good k c -> Forall (Forall (fun p => p < k)) (flatten c).
Proof. apply (good_flatten_aux k (depth c)). lia. Qed.

(* let-style shadowing: assign through a fresh child of c *)
Lemma child_shadow s c n v : good (length s) c ->
  let s1 := fst (create_child s c) in
  let ch := snd (create_child s c) in
  let s2 := fst (set_data s1 ch n v) in
  get_data s2 ch n = Some v
  /\ (forall d n', good (length s) d -> get_data s2 d n' = get_data s d n')
  /\ (forall n', normalize n' <> normalize n -> get_data s2 ch n' = get_data s c n').
Proof.
  intros G s1 ch s2.
  assert (Wch : wfo ch) by exact I.
  assert (Hsrc : sources ch = [length s]) by reflexivity.
  assert (Hlen : length s1 = S (length s)).
  { subst s1. cbn [create_child new_plain fst]. rewrite app_length. cbn. lia. }
  split; [|split].
  - assert (O : get_own s2 ch n = Some v).
    { eapply set_then_get; [exact Wch| |reflexivity]. rewrite Hsrc. constructor; [lia|constructor]. }
    subst ch. cbn [create_child new_plain snd] in *. cbn [get_data]. rewrite O. reflexivity.
  - intros d n' Gd. rewrite <- (child_keeps_others s c d n'). fold s1.
    rewrite !get_data_spec. apply layers_get_ext.
    eapply Forall_impl; [|apply good_flatten; exact Gd].
    intros l Hl. eapply Forall_impl; [|exact Hl]. intros p Hp. cbn beta in Hp.
    subst s2. apply set_frame; [exact Wch|]. left. rewrite Hsrc. cbn [hd_error]. intro E. inversion E. lia.
  - intros n' Hn. rewrite <- (child_transparent s c n'). fold s1. fold ch.
    rewrite !get_data_spec. apply layers_get_ext. apply Forall_Forall_True. intro p.
    subst s2. apply set_frame; [exact Wch|]. right. exact Hn.
Qed.

(* ---- the same for functions -------------------------------------------------------------------------------- *)
Lemma get_functions_store_ext s1 s2 n c :
  (forall p, sget s1 p = sget s2 p) -> get_functions s1 c n = get_functions s2 c n.
Proof.
  intro H. induction c as [p par _|ms par IH _|l par IH _] using ctx_ind'; cbn [get_functions].
  - rewrite H. reflexivity.
  - generalize (@nil fdef) false.
    induction IH as [|m r Hm _ IHr]; intros acc ex; [reflexivity|].
    rewrite Hm. destruct (get_functions s2 m n) as [fs e]. apply IHr.
  - exact IH.
Qed.

Lemma collect_functions_store_ext s1 s2 n c :
  (forall p, sget s1 p = sget s2 p) -> collect_functions s1 c n = collect_functions s2 c n.
Proof.
  intro H. rewrite !collect_functions_spec. f_equal. apply map_ext. intro c'. apply get_functions_store_ext. exact H.
Qed.

(* a fresh child offers exactly the overload layers its receiver offers (its own, empty, layer is dropped),
   and creating it changes what no context offers *)
Lemma child_transparent_functions s c n :
  collect_functions (fst (create_child s c)) (snd (create_child s c)) n = collect_functions s c n.
Proof.
  cbn [create_child new_plain fst snd collect_functions get_functions].
  rewrite sget_snoc_empty, (sget_overflow s (length s)) by lia.
  cbn [plain_functions empty_pstate pfuncs pexcl filter smem].
  apply collect_functions_store_ext. intro p. apply sget_snoc_empty.
Qed.

Lemma child_keeps_others_functions s c d n :
  collect_functions (fst (create_child s c)) d n = collect_functions s d n.
Proof. apply collect_functions_store_ext. intro p. apply sget_snoc_empty. Qed.

(* ---- `def` through a child: registration shadows the name for the child only ------------------------------- *)
Lemma get_functions_ext_on s1 s2 n c :
  Forall (fun p => sget s1 p = sget s2 p) (sources c) -> get_functions s1 c n = get_functions s2 c n.
Proof.
  induction c as [p par _|ms par IH _|l par IH _] using ctx_ind'; intro H.
  - cbn [sources] in H. inversion H as [|? ? Hp _]; subst. cbn [get_functions]. rewrite Hp. reflexivity.
  - rewrite sources_multi in H. cbn [get_functions]. generalize (@nil fdef) false. revert H.
    induction IH as [|m r Hm _ IHr]; intros H acc ex; [reflexivity|].
    cbn [flat_map] in H. apply Forall_app in H. destruct H as [Ha Hb].
    rewrite (Hm Ha). destruct (get_functions s2 m n) as [fs e]. apply IHr. exact Hb.
  - cbn [sources] in H. cbn [get_functions]. apply IH. exact H.
Qed.

Lemma collect_functions_ext_on s1 s2 n c :
  Forall (Forall (fun p => sget s1 p = sget s2 p)) (flatten c) ->
  collect_functions s1 c n = collect_functions s2 c n.
Proof.
  intro H. rewrite !collect_functions_spec. f_equal. apply map_ext_in. intros c' Hin.
  apply get_functions_ext_on. unfold flatten in H. rewrite Forall_map in H.
  rewrite Forall_forall in H. apply H. exact Hin.
Qed.

Lemma child_register s c f ex : good (length s) c ->
  let s1 := fst (create_child s c) in
  let ch := snd (create_child s c) in
  let s2 := fst (register s1 ch f ex) in
  (forall n, rstrip_us n = fst f ->
     collect_functions s2 ch n = [f] :: (if ex then [] else collect_functions s c n))
  /\ (forall n, rstrip_us n <> fst f -> collect_functions s2 ch n = collect_functions s c n)
  /\ (forall d n, good (length s) d -> collect_functions s2 d n = collect_functions s d n)
  /\ (forall p, pdata (sget s2 p) = pdata (sget s p)).
Proof.
  intros G s1 ch s2.
  assert (Hlen : length s < length s1).
  { subst s1. cbn [create_child new_plain fst]. rewrite app_length. cbn. lia. }
  assert (Hs2 : s2 = supd s1 (length s) (fun st => {| pdata := pdata st;
                  pfuncs := if fmem f (pfuncs st) then pfuncs st else pfuncs st ++ [f];
                  pexcl := if ex && negb (smem (fst f) (pexcl st)) then pexcl st ++ [fst f] else pexcl st |})) by reflexivity.
  assert (Hnew : sget s1 (length s) = empty_pstate).
  { subst s1. cbn [create_child new_plain fst]. rewrite sget_snoc_empty. apply sget_overflow. lia. }
  assert (Hother : forall p, p <> length s -> sget s2 p = sget s p).
  { intros p Hp. rewrite Hs2, sget_supd_other by auto. subst s1. cbn [create_child new_plain fst]. apply sget_snoc_empty. }
  assert (Hframe : forall d n, good (length s) d -> collect_functions s2 d n = collect_functions s d n).
  { intros d n Gd. apply collect_functions_ext_on.
    eapply Forall_impl; [|apply good_flatten; exact Gd]. intros l Hl.
    eapply Forall_impl; [|exact Hl]. intros p Hp. cbn beta in Hp. apply Hother. lia. }
  assert (Hhead : sget s2 (length s) = {| pdata := []; pfuncs := [f]; pexcl := if ex then [fst f] else [] |}).
  { rewrite Hs2, sget_supd_same by exact Hlen. rewrite Hnew. cbn [empty_pstate pdata pfuncs pexcl fmem smem negb app].
    rewrite andb_true_r. reflexivity. }
  split; [|split; [|split]].
  - intros n Hn. subst ch. cbn [create_child new_plain snd collect_functions get_functions].
    rewrite Hhead. unfold plain_functions. cbn [pfuncs pexcl filter]. rewrite Hn, str_eqb_refl.
    rewrite (Hframe c n G). destruct ex; cbn [smem]; [rewrite str_eqb_refl|]; reflexivity.
  - intros n Hn. subst ch. cbn [create_child new_plain snd collect_functions get_functions].
    rewrite Hhead. unfold plain_functions. cbn [pfuncs pexcl filter].
    assert (E : str_eqb (fst f) (rstrip_us n) = false) by (apply str_eqb_neq; congruence).
    rewrite E. rewrite (Hframe c n G).
    destruct ex; cbn [smem]; [rewrite str_eqb_sym, E|]; reflexivity.
  - exact Hframe.
  - intro p. destruct (Nat.eq_dec p (length s)) as [->|Hp].
    + rewrite Hhead. rewrite (sget_overflow s (length s)) by lia. reflexivity.
    + rewrite Hother by exact Hp. reflexivity.
Qed.

(* ---- delete_function: exact effect on the store -------------------------------------------------------------- *)
Lemma filter_idem {A} (p : A -> bool) l : filter p (filter p l) = filter p l.
Proof.
  induction l as [|x r IH]; [reflexivity|]. cbn [filter]. destruct (p x) eqn:E; [|exact IH].
  cbn [filter]. rewrite E, IH. reflexivity.
Qed.

Lemma plain_delete_function_idem st f :
  plain_delete_function (plain_delete_function st f) f = plain_delete_function st f.
Proof. unfold plain_delete_function. cbn [pdata pfuncs pexcl]. rewrite !filter_idem. reflexivity. Qed.

Lemma sget_supd_gen s p g q : g empty_pstate = empty_pstate ->
  sget (supd s p g) q = if Nat.eqb q p then g (sget s q) else sget s q.
Proof.
  intro Hg. destruct (Nat.eqb_spec q p) as [->|Hn].
  - destruct (Nat.lt_ge_cases p (length s)) as [Hl|Hl].
    + apply sget_supd_same. exact Hl.
    + rewrite (sget_overflow s p) by exact Hl. rewrite Hg. apply sget_overflow. rewrite supd_length. exact Hl.
  - apply sget_supd_other. auto.
Qed.

Lemma pick_twice {A} (b1 b2 : bool) (x : A) (g : A -> A) : (forall y, g (g y) = g y) ->
  (if b2 then g (if b1 then g x else x) else (if b1 then g x else x)) = if b1 || b2 then g x else x.
Proof. intro H. destruct b1, b2; cbn [orb]; try reflexivity. apply H. Qed.

Lemma delete_function_sget f c : forall s q,
  sget (delete_function s c f) q
  = if existsb (Nat.eqb q) (sources c) then plain_delete_function (sget s q) f else sget s q.
Proof.
  induction c as [p par _|ms par IH _|l par IH _] using ctx_ind'.
  - intros s q. cbn [delete_function sources existsb]. rewrite orb_false_r. apply sget_supd_gen. reflexivity.
  - rewrite sources_multi. cbn [delete_function].
    induction IH as [|m r Hm _ IHr]; intros s q; cbn [flat_map existsb]; [reflexivity|].
    rewrite IHr, !Hm, existsb_app.
    refine (pick_twice (existsb (Nat.eqb q) (sources m)) (existsb (Nat.eqb q) (flat_map sources r))
                       (sget s q) (fun x => plain_delete_function x f) _).
    intro x. apply plain_delete_function_idem.
  - intros s q. cbn [delete_function sources]. apply IH.
Qed.

(* ---- register through any context: exact effect on the store -------------------------------------------------- *)
Lemma register_spec s c f ex : wfo c -> Forall (fun p => p < length s) (sources c) ->
  exists p r, sources c = p :: r
    /\ (forall q, q <> p -> sget (fst (register s c f ex)) q = sget s q)
    /\ pdata (sget (fst (register s c f ex)) p) = pdata (sget s p)
    /\ (forall g, In g (pfuncs (sget (fst (register s c f ex)) p)) <-> g = f \/ In g (pfuncs (sget s p)))
    /\ (forall k, In k (pexcl (sget (fst (register s c f ex)) p)) <-> (ex = true /\ k = fst f) \/ In k (pexcl (sget s p))).
Proof.
  intros W B. destruct (target_sources c W) as [p [Ht [r Hs]]]. exists p, r. split; [exact Hs|].
  rewrite Hs in B. inversion B as [|? ? Hp _]; subst.
  unfold register. rewrite Ht. cbn [fst]. split; [|split; [|split]].
  - intros q Hq. apply sget_supd_other. auto.
  - rewrite sget_supd_same by exact Hp. reflexivity.
  - intro g. rewrite sget_supd_same by exact Hp. cbn [pfuncs].
    destruct (fmem f (pfuncs (sget s p))) eqn:E.
    + apply fmem_In in E. split; [auto|]. intros [->|H]; assumption.
    + rewrite in_app_iff. cbn [In]. split; [intros [H|[H|[]]]; auto|intros [->|H]; auto].
  - intro k. rewrite sget_supd_same by exact Hp. cbn [pexcl].
    destruct ex; cbn [andb].
    + destruct (smem (fst f) (pexcl (sget s p))) eqn:E; cbn [negb].
      * apply smem_In in E. split; [auto|]. intros [[_ ->]|H]; assumption.
      * rewrite in_app_iff. cbn [In]. split; [intros [H|[H|[]]]; auto|intros [[_ ->]|H]; auto].
    + split; [auto|]. intros [[H _]|H]; [discriminate|exact H].
Qed.

(* ---- multi-contexts: a single member is transparent; the own layers of the members are asked first, in order ---- *)
Lemma multi_single s c n : get_data s (new_multi [c]) n = get_data s c n.
Proof.
  rewrite !get_data_spec, new_multi_flatten by discriminate. cbn [map].
  rewrite zipmerge_single; [reflexivity|]. unfold max_depth. cbn [fold_right]. lia.
Qed.

Lemma first_some_app_some {A B} (f : A -> option B) l1 l2 v :
  first_some f l1 = Some v -> first_some f (l1 ++ l2) = Some v.
Proof.
  induction l1 as [|x r IH]; cbn [first_some app]; [discriminate|].
  destruct (f x); [auto|exact IH].
Qed.

Lemma first_some_app_none {A B} (f : A -> option B) l1 l2 :
  first_some f l1 = None -> first_some f (l1 ++ l2) = first_some f l2.
Proof.
  induction l1 as [|x r IH]; cbn [first_some app]; [reflexivity|].
  destruct (f x); [discriminate|exact IH].
Qed.

(* the first layer of a multi-context is the members' own layers side by side: the first member whose OWN layer
   defines the name wins, whatever the members' ancestors define *)
Lemma multi_own_layers_first s m r n v :
  get_own s m n = Some v -> get_data s (new_multi (m :: r)) n = Some v.
Proof.
  intro H. rewrite get_data_spec, new_multi_flatten by discriminate.
  pose proof (max_depth_nonempty (m :: r)) as D.
  destruct (max_depth (m :: r)) as [|k] eqn:E; [assert (m :: r <> []) by discriminate; specialize (D H0); lia|].
  cbn [zipmerge map]. rewrite <- (map_cons flatten m r), heads_flatten.
  unfold layers_get. cbn [first_some flat_map]. unfold layer_get at 1.
  rewrite get_own_spec in H. unfold layer_get in H.
  rewrite (first_some_app_some _ _ _ _ H). reflexivity.
Qed.

Lemma multi_skips_silent_member s m r n :
  get_own s m n = None -> r <> [] ->
  layer_get s n (hd [] (flatten (new_multi (m :: r)))) = layer_get s n (hd [] (flatten (new_multi r))).
Proof.
  intros H Hr. rewrite !new_multi_flatten by (assumption || discriminate).
  pose proof (max_depth_nonempty (m :: r)) as D. pose proof (max_depth_nonempty r Hr) as D'.
  destruct (max_depth (m :: r)) as [|k] eqn:E; [assert (X : m :: r <> []) by discriminate; specialize (D X); lia|].
  destruct (max_depth r) as [|k'] eqn:E'; [lia|].
  destruct r as [|m' r']; [contradiction|].
  cbn [zipmerge map hd]. rewrite <- !map_cons, !heads_flatten. cbn [flat_map].
  unfold layer_get. rewrite get_own_spec in H. unfold layer_get in H.
  apply first_some_app_none. exact H.
Qed.

(* ---- linked contexts: the linked chain is asked first, completely, then the own parent chain ------------------- *)
Lemma linked_read s par l n :
  get_data s (new_linked par l) n
  = match get_data s l n with
    | Some v => Some v
    | None => match par with Some p => get_data s p n | None => None end
    end.
Proof.
  rewrite !get_data_spec, new_linked_flatten. unfold layers_get. rewrite first_some_app.
  destruct (first_some (layer_get s n) (flatten l)); [reflexivity|].
  destruct par as [p|]; [rewrite get_data_spec; reflexivity|reflexivity].
Qed.
