(* The finite obligation over the regenerated effect table (Gen/Effects.v):
   every payload operation that touches a possibly-host value belongs to one of
   the Yaqlized(...)-typed overloads, derives only from the gated parameter, and
   is either the sanctioned read/write of the yaqlization attribute or is
   dominated by _validate_name on the original name. *)
From Coq Require Import List ZArith Bool.
From YV Require Import Common.Corr Gen.Effects.
Import ListNotations.

Definition op_is_settings (o : opkind) : bool :=
  match o with Op_settings_read | Op_settings_write => true | _ => false end.

(* operations a gated overload may perform on the host object once the name is validated *)
Definition op_gateable (o : opkind) : bool :=
  match o with
  | Op_getattr | Op_subscript | Op_call | Op_attr => true
  | _ => false
  end.

Definition row_ok (r : erow) : bool :=
  e_origin_gated r && e_in_gated_overload r &&
  (op_is_settings (e_op r) || (op_gateable (e_op r) && e_validated r)).

Lemma all_rows_ok : forallb row_ok effects = true.
Proof. vm_compute. reflexivity. Qed.

Lemma only_gated_payloads_touch_hosts : forall r, In r effects ->
  e_origin_gated r = true /\ e_in_gated_overload r = true /\
  (op_is_settings (e_op r) = true \/ (op_gateable (e_op r) = true /\ e_validated r = true)).
Proof.
  intros r Hin. pose proof (proj1 (forallb_forall row_ok effects) all_rows_ok r Hin) as H.
  unfold row_ok in H. apply andb_true_iff in H. destruct H as [H12 H3].
  apply andb_true_iff in H12. destruct H12 as [H1 H2].
  split; [exact H1|]. split; [exact H2|].
  apply orb_true_iff in H3. destruct H3 as [H3|H3]; [left; exact H3|].
  right. apply andb_true_iff in H3. exact H3.
Qed.

(* the payloads that carry a row are exactly those with a gated parameter *)
Definition payload_ok (p : prow) : bool :=
  if p_gated p then true else Nat.eqb (p_nrows p) 0.

Lemma all_payloads_ok : forallb payload_ok payloads = true.
Proof. vm_compute. reflexivity. Qed.

Lemma ungated_payloads_have_no_rows : forall p, In p payloads -> p_gated p = false -> p_nrows p = 0%nat.
Proof.
  intros p Hin Hg. pose proof (proj1 (forallb_forall payload_ok payloads) all_payloads_ok p Hin) as H.
  unfold payload_ok in H. rewrite Hg in H. apply Nat.eqb_eq. exact H.
Qed.

(* non-vacuity: the three access operations are present in the table *)
Definition has_op (o : opkind) : bool :=
  existsb (fun r => match e_op r, o with
                    | Op_getattr, Op_getattr | Op_subscript, Op_subscript | Op_call, Op_call
                    | Op_settings_read, Op_settings_read => true
                    | _, _ => false end) effects.

Lemma table_has_the_access_operations :
  has_op Op_getattr = true /\ has_op Op_subscript = true /\ has_op Op_call = true /\ has_op Op_settings_read = true.
Proof. vm_compute. repeat split. Qed.

Lemma gated_payload_count : Nat.leb 3 (length (filter p_gated payloads)) = true.
Proof. vm_compute. reflexivity. Qed.

(* pinned rows (self-check of the generator): the yaql-level functions '#indexer' and '#operator_.' have
   overloads with a gated (Yaqlized-typed) parameter in the payload table *)
Definition has_gated_fn (fn : list Z) : bool :=
  existsb (fun p => str_eqb (p_fn p) fn && p_gated p) payloads.

Lemma yaqlized_overloads_listed :
  has_gated_fn [35; 105; 110; 100; 101; 120; 101; 114]%Z = true /\                      (* #indexer *)
  has_gated_fn [35; 111; 112; 101; 114; 97; 116; 111; 114; 95; 46]%Z = true.            (* #operator_. *)
Proof. vm_compute. split; reflexivity. Qed.
