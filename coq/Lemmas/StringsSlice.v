(* Proofs about Python slicing and yaql substring (Model/Strings.v). *)
From Coq Require Import List ZArith Bool Lia ZifyBool Arith.
From YV Require Import Common.Corr Model.Strings.
Import ListNotations.
Open Scope Z_scope.

Lemma zlen_nonneg s : 0 <= zlen s.
Proof. unfold zlen. lia. Qed.

Lemma firstn_ge_length {A} (k : nat) (l : list A) : (length l <= k)%nat -> firstn k l = l.
Proof. intro H. apply firstn_all2. exact H. Qed.

Lemma skipn_ge_length {A} (k : nat) (l : list A) : (length l <= k)%nat -> skipn k l = [].
Proof. intro H. apply skipn_all2. exact H. Qed.

Lemma firstn_cap {A} (k k' : nat) (l : list A) :
  Nat.min k (length l) = Nat.min k' (length l) -> firstn k l = firstn k' l.
Proof.
  intro H.
  destruct (Nat.le_gt_cases (length l) k) as [Hk|Hk]; destruct (Nat.le_gt_cases (length l) k') as [Hk'|Hk'].
  - rewrite !firstn_ge_length by assumption. reflexivity.
  - lia.
  - lia.
  - assert (k = k') by lia. subst. reflexivity.
Qed.

(* the slice of a list between two non-negative bounds *)
Lemma py_slice_nonneg s a b : 0 <= a -> 0 <= b ->
  py_slice s a b = firstn (Z.to_nat (b - a)) (skipn (Z.to_nat a) s).
Proof.
  intros Ha Hb. unfold py_slice, slice_idx.
  destruct (a <? 0) eqn:Ea; [lia|]. destruct (b <? 0) eqn:Eb; [lia|].
  pose proof (zlen_nonneg s) as Hn. unfold zlen in *.
  destruct (Z.le_gt_cases (Z.of_nat (length s)) a) as [Hbig|Hsmall].
  - rewrite (skipn_ge_length (Z.to_nat (Z.min a (Z.of_nat (length s))))) by lia.
    rewrite (skipn_ge_length (Z.to_nat a)) by lia. rewrite !firstn_nil. reflexivity.
  - replace (Z.min a (Z.of_nat (length s))) with a by lia.
    apply firstn_cap. rewrite skipn_length. lia.
Qed.

Definition sub_start (s : str) (start : Z) : nat := Z.to_nat (if start <? 0 then start + zlen s else start).
Definition sub_len (s : str) (length : Z) : nat := if length <? 0 then List.length s else Z.to_nat length.

Lemma substring_spec s start length : - zlen s <= start ->
  substring s start length = firstn (sub_len s length) (skipn (sub_start s start) s).
Proof.
  intro Hs. unfold substring, sub_start, sub_len.
  pose proof (zlen_nonneg s) as Hn.
  set (st := if start <? 0 then start + zlen s else start).
  assert (Hst : 0 <= st) by (unfold st; destruct (start <? 0) eqn:E; lia).
  destruct (length <? 0) eqn:El.
  - rewrite py_slice_nonneg by lia. apply firstn_cap. unfold zlen. lia.
  - rewrite py_slice_nonneg by lia. f_equal. lia.
Qed.

(* negative length or a length reaching past the end: all of the rest *)
Lemma substring_rest s start length : - zlen s <= start -> length < 0 ->
  substring s start length = skipn (sub_start s start) s.
Proof.
  intros Hs Hl. rewrite substring_spec by exact Hs. unfold sub_len.
  destruct (length <? 0) eqn:E; [|lia]. apply firstn_ge_length. rewrite skipn_length. lia.
Qed.
