(* orderBy / thenBy: the model's sort is a permutation, sorted and stable; the
   comparator built from yaql's < and > with ascending/descending flags is a
   strict weak order on the whole value universe. *)
From Coq Require Import List ZArith Bool Arith Lia ZifyBool Permutation Sorted.
From YV Require Import Model.Queries.
Import ListNotations.

Section Sort.
  Context {A : Type}.
  Variable lt : A -> A -> bool.
  Definition eqv (x y : A) : bool := negb (lt x y) && negb (lt y x).

  Lemma ins_sorted_perm x l : Permutation (ins_sorted lt x l) (x :: l).
  Proof.
    induction l as [|y r IH]; cbn [ins_sorted]; [reflexivity|].
    destruct (lt y x); [|reflexivity].
    rewrite IH. apply perm_swap.
  Qed.

  Lemma sort_perm l : Permutation (sort_l lt l) l.
  Proof.
    induction l as [|x r IH]; cbn [sort_l]; [reflexivity|].
    rewrite ins_sorted_perm. constructor. exact IH.
  Qed.

  Hypothesis lt_asym : forall a b, lt a b = true -> lt b a = false.
  Hypothesis lt_ntrans : forall a b c, lt b a = false -> lt c b = false -> lt c a = false.

  Definition le (a b : A) : Prop := lt b a = false.

  Lemma ins_sorted_sorted x l : StronglySorted le l -> StronglySorted le (ins_sorted lt x l).
  Proof.
    induction l as [|y r IH]; intro S; cbn [ins_sorted].
    - repeat constructor.
    - inversion S as [|y' r' Sr Fy]; subst. destruct (lt y x) eqn:E.
      + constructor; [apply IH; exact Sr|].
        apply (Permutation_Forall (Permutation_sym (ins_sorted_perm x r))).
        constructor; [apply lt_asym; exact E | exact Fy].
      + constructor; [exact S|]. constructor; [exact E|].
        apply Forall_forall. intros z Hz. unfold le. rewrite Forall_forall in Fy.
        apply (lt_ntrans _ y); [exact E | apply Fy; exact Hz].
  Qed.

  Lemma sort_sorted l : StronglySorted le (sort_l lt l).
  Proof.
    induction l as [|x r IH]; cbn [sort_l]; [constructor | apply ins_sorted_sorted; exact IH].
  Qed.

  Lemma ins_sorted_stable z x l : filter (eqv z) (ins_sorted lt x l) = filter (eqv z) (x :: l).
  Proof.
    induction l as [|y r IH]; cbn [ins_sorted]; [reflexivity|].
    destruct (lt y x) eqn:E; [|reflexivity].
    cbn [filter]. rewrite IH. cbn [filter].
    destruct (eqv z y) eqn:Zy, (eqv z x) eqn:Zx; try reflexivity.
    exfalso. unfold eqv in Zy, Zx.
    apply andb_true_iff in Zy as [Y1 Y2]. apply andb_true_iff in Zx as [X1 X2].
    apply negb_true_iff in Y1, Y2, X1, X2.
    rewrite (lt_ntrans x z y X1 Y2) in E. discriminate E.
  Qed.

  Lemma sort_stable z l : filter (eqv z) (sort_l lt l) = filter (eqv z) l.
  Proof.
    induction l as [|x r IH]; cbn [sort_l]; [reflexivity|].
    rewrite ins_sorted_stable. cbn [filter]. rewrite IH. reflexivity.
  Qed.

  (* hence equal to ANY stable sort: a permutation of the input that is sorted and
     keeps every equivalence class in input order is this list *)
  Lemma sorted_stable_unique l1 l2 :
    StronglySorted le l1 -> StronglySorted le l2 ->
    (forall z, filter (eqv z) l1 = filter (eqv z) l2) ->
    (forall x, In x l1 -> lt x x = false) -> length l1 = length l2 ->
    l1 = l2.
  Proof.
    revert l2. induction l1 as [|x r IH]; intros l2 S1 S2 F Irr L.
    - destruct l2; [reflexivity | discriminate L].
    - destruct l2 as [|y r2]; [discriminate L|].
      inversion S1 as [|? ? Sr Fx]; subst. inversion S2 as [|? ? Sr2 Fy]; subst.
      assert (Xx : eqv x x = true). { unfold eqv. rewrite (Irr x (or_introl eq_refl)). reflexivity. }
      (* x heads its own class in l1, so it heads that class in l2 *)
      pose proof (F x) as Fx0. cbn [filter] in Fx0. rewrite Xx in Fx0.
      assert (Hy : eqv x y = true).
      { destruct (eqv x y) eqn:Q; [reflexivity|]. exfalso.
        (* x occurs in r2 and y <= x, x <= y would follow *)
        assert (Inx : In x (filter (eqv x) r2)). { rewrite <- Fx0. left. reflexivity. }
        apply filter_In in Inx as [Inx _]. rewrite Forall_forall in Fy. pose proof (Fy x Inx) as Lyx.
        (* y is in l1 = x :: r : it is x (then eqv) or in r, so x <= y *)
        assert (Iny : In y (x :: r)).
        { pose proof (F y) as Fy0. cbn [filter] in Fy0.
          assert (Yy : eqv y y = true).
          { unfold eqv. destruct (lt y y) eqn:W; [|reflexivity]. rewrite (lt_asym y y W) in W. discriminate W. }
          rewrite Yy in Fy0.
          assert (I : In y (filter (eqv y) (x :: r))). { cbn [filter]. rewrite Fy0. left. reflexivity. }
          apply filter_In in I as [I _]. exact I. }
        destruct Iny as [->|Iny]; [rewrite Xx in Q; discriminate Q|].
        rewrite Forall_forall in Fx. pose proof (Fx y Iny) as Lxy. unfold le in Lyx, Lxy.
        unfold eqv in Q. rewrite Lyx, Lxy in Q. discriminate Q. }
      rewrite Hy in Fx0. injection Fx0 as Exy _. subst y. f_equal.
      apply IH; try assumption.
      + intro z. pose proof (F z) as Fz. cbn [filter] in Fz. destruct (eqv z x); [injection Fz as Fz|]; exact Fz.
      + intros w Hw. apply Irr. right. exact Hw.
      + cbn in L. lia.
  Qed.
End Sort.

(* ---- the yaql comparator --------------------------------------------------- *)
(* keys are compared as (rank, payload) pairs, payloads (integers, code points) lexicographically *)
Lemma lcmp_refl a : lcmp a a = Eq.
Proof. induction a as [|x r IH]; cbn; [reflexivity|]. rewrite Z.compare_refl. exact IH. Qed.

Lemma lcmp_eq a : forall b, lcmp a b = Eq -> a = b.
Proof.
  induction a as [|x r IH]; intros [|y r'] H; cbn in H; try discriminate; [reflexivity|].
  destruct (Z.compare_spec x y) as [E|E|E]; try discriminate. subst. f_equal. apply IH. exact H.
Qed.

Lemma lcmp_antisym a : forall b, lcmp b a = CompOpp (lcmp a b).
Proof.
  induction a as [|x r IH]; intros [|y r']; cbn; try reflexivity.
  rewrite (Z.compare_antisym x y). destruct (Z.compare x y); cbn; [apply IH | reflexivity | reflexivity].
Qed.

Lemma lcmp_trans a : forall b c, lcmp a b = Lt -> lcmp b c = Lt -> lcmp a c = Lt.
Proof.
  induction a as [|x r IH]; intros [|y r'] [|z r''] H1 H2; cbn in *; try discriminate; try reflexivity.
  destruct (Z.compare_spec x y) as [E1|E1|E1]; try discriminate;
    destruct (Z.compare_spec y z) as [E2|E2|E2]; try discriminate; subst.
  - rewrite Z.compare_refl. apply (IH _ _ H1 H2).
  - apply Z.compare_lt_iff in E2. rewrite E2. reflexivity.
  - apply Z.compare_lt_iff in E1. rewrite E1. reflexivity.
  - assert (E3 : (x < z)%Z) by lia. apply Z.compare_lt_iff in E3. rewrite E3. reflexivity.
Qed.

Definition pcmp (p q : Z * list Z) : comparison :=
  match Z.compare (fst p) (fst q) with Eq => lcmp (snd p) (snd q) | c => c end.

Lemma pcmp_refl p : pcmp p p = Eq.
Proof. unfold pcmp. rewrite Z.compare_refl. apply lcmp_refl. Qed.

Lemma pcmp_eq p q : pcmp p q = Eq -> p = q.
Proof.
  unfold pcmp. destruct p as [a x], q as [b y]. cbn. destruct (Z.compare_spec a b) as [E|E|E]; try discriminate.
  intro H. subst. f_equal. apply lcmp_eq. exact H.
Qed.

Lemma pcmp_antisym p q : pcmp q p = CompOpp (pcmp p q).
Proof.
  unfold pcmp. rewrite (Z.compare_antisym (fst p) (fst q)). destruct (Z.compare (fst p) (fst q)); cbn; [apply lcmp_antisym | reflexivity | reflexivity].
Qed.

Lemma pcmp_trans p q r : pcmp p q = Lt -> pcmp q r = Lt -> pcmp p r = Lt.
Proof.
  unfold pcmp. destruct p as [a x], q as [b y], r as [c z]. cbn.
  destruct (Z.compare_spec a b) as [E1|E1|E1]; try discriminate;
    destruct (Z.compare_spec b c) as [E2|E2|E2]; try discriminate; subst; intros H1 H2.
  - rewrite Z.compare_refl. apply (lcmp_trans _ _ _ H1 H2).
  - apply Z.compare_lt_iff in E2. rewrite E2. reflexivity.
  - apply Z.compare_lt_iff in E1. rewrite E1. reflexivity.
  - assert (E3 : (a < c)%Z) by lia. apply Z.compare_lt_iff in E3. rewrite E3. reflexivity.
Qed.

Definition pc (p q : Z * list Z) : Z := match pcmp p q with Lt => (-1)%Z | Eq => 0%Z | Gt => 1%Z end.

Lemma kcmp_pc a b :
  val_ltb a b = (pc (key_rank a) (key_rank b) =? -1)%Z /\ val_gtb a b = (pc (key_rank a) (key_rank b) =? 1)%Z.
Proof.
  unfold val_ltb, val_gtb, kcmp, pc, pcmp. destruct (key_rank a) as [ra za], (key_rank b) as [rb zb]. cbn [fst snd].
  destruct (Z.compare ra rb); [destruct (lcmp za zb)| |]; split; reflexivity.
Qed.

Lemma pc_facts p q r :
  pc q p = (- pc p q)%Z /\ (-1 <= pc p q <= 1)%Z /\
  ((pc p q <= 0 -> pc q r <= 0 -> pc p r <= 0 /\ (pc p q < 0 \/ pc q r < 0 -> pc p r < 0))%Z).
Proof.
  unfold pc. rewrite (pcmp_antisym p q). split; [destruct (pcmp p q); reflexivity|]. split; [destruct (pcmp p q); lia|].
  destruct (pcmp p q) eqn:A, (pcmp q r) eqn:B; intros H1 H2; try lia.
  - apply pcmp_eq in A. apply pcmp_eq in B. subst. rewrite pcmp_refl. lia.
  - apply pcmp_eq in A. subst. rewrite B. lia.
  - apply pcmp_eq in B. subst. rewrite A. lia.
  - rewrite (pcmp_trans _ _ _ A B). lia.
Qed.

Definition key1 (k : okey) (a b : val) : Z :=
  let d := pc (key_rank (apply (fst k) a)) (key_rank (apply (fst k) b)) in if snd k then d else (- d)%Z.

Lemma compare_keys_step k r a b :
  compare_keys (k :: r) a b = if (key1 k a b =? 0)%Z then compare_keys r a b else key1 k a b.
Proof.
  destruct k as [f asc]. cbn [compare_keys]. unfold key1. cbn [fst snd].
  destruct (kcmp_pc (apply f a) (apply f b)) as [L G]. rewrite L, G.
  pose proof (pc_facts (key_rank (apply f a)) (key_rank (apply f b)) (0%Z, [])) as (_ & R & _).
  destruct asc;
    destruct (pc (key_rank (apply f a)) (key_rank (apply f b)) =? -1)%Z eqn:E1;
    destruct (pc (key_rank (apply f a)) (key_rank (apply f b)) =? 1)%Z eqn:E2;
    repeat match goal with |- context [if ?b then _ else _] => destruct b eqn:? end; lia.
Qed.

Lemma key1_facts k a b c :
  key1 k b a = (- key1 k a b)%Z /\
  ((key1 k a b <= 0 -> key1 k b c <= 0 -> key1 k a c <= 0 /\ (key1 k a b < 0 \/ key1 k b c < 0 -> key1 k a c < 0))%Z).
Proof.
  unfold key1. destruct k as [f [|]]; cbn [fst snd].
  - pose proof (pc_facts (key_rank (apply f a)) (key_rank (apply f b)) (key_rank (apply f c))) as (A1 & _ & T).
    split; [exact A1 | exact T].
  - pose proof (pc_facts (key_rank (apply f c)) (key_rank (apply f b)) (key_rank (apply f a))) as (A1 & _ & T).
    pose proof (pc_facts (key_rank (apply f a)) (key_rank (apply f b)) (key_rank (apply f c))) as (A2 & _ & _).
    pose proof (pc_facts (key_rank (apply f a)) (key_rank (apply f c)) (key_rank (apply f c))) as (A3 & _ & _).
    pose proof (pc_facts (key_rank (apply f b)) (key_rank (apply f c)) (key_rank (apply f c))) as (A4 & _ & _).
    split; [lia|]. intros H1 H2. lia.
Qed.

Lemma compare_keys_facts keys : forall a b c,
  compare_keys keys b a = (- compare_keys keys a b)%Z /\
  ((compare_keys keys a b <= 0 -> compare_keys keys b c <= 0 ->
    compare_keys keys a c <= 0 /\ (compare_keys keys a b < 0 \/ compare_keys keys b c < 0 -> compare_keys keys a c < 0))%Z).
Proof.
  induction keys as [|k r IH]; intros a b c.
  - cbn. lia.
  - rewrite !compare_keys_step.
    destruct (IH a b c) as (I1 & I2).
    destruct (key1_facts k a b c) as (K1 & K2).
    destruct (key1_facts k c b a) as (K3 & K4).
    destruct (key1_facts k a c c) as (K5 & _).
    destruct (key1_facts k b c c) as (K6 & _).
    repeat match goal with |- context [if ?b then _ else _] => destruct b eqn:? end; lia.
Qed.

Lemma keys_lt_asym keys a b : keys_lt keys a b = true -> keys_lt keys b a = false.
Proof. unfold keys_lt. destruct (compare_keys_facts keys a b b) as (A & _). lia. Qed.

Lemma keys_lt_ntrans keys a b c :
  keys_lt keys b a = false -> keys_lt keys c b = false -> keys_lt keys c a = false.
Proof.
  unfold keys_lt. intros H1 H2.
  destruct (compare_keys_facts keys a b c) as (A1 & T).
  destruct (compare_keys_facts keys b c c) as (A2 & _).
  destruct (compare_keys_facts keys a c c) as (A3 & _). lia.
Qed.

Lemma keys_lt_irrefl keys a : keys_lt keys a a = false.
Proof. unfold keys_lt. destruct (compare_keys_facts keys a a a) as (A & _). lia. Qed.

Definition keys_equiv (keys : list okey) (a b : val) : bool := eqv (keys_lt keys) a b.

Theorem order_by_spec keys l :
  Permutation (order_by_l keys l) l /\
  StronglySorted (fun a b => keys_lt keys b a = false) (order_by_l keys l) /\
  (forall z, filter (keys_equiv keys z) (order_by_l keys l) = filter (keys_equiv keys z) l).
Proof.
  split; [apply sort_perm|]. split.
  - apply sort_sorted; [apply keys_lt_asym | apply keys_lt_ntrans].
  - intro z. apply sort_stable. apply keys_lt_ntrans.
Qed.

(* any list that is a permutation of the input, sorted for the key order and stable is
   the model's output (so the model agrees with CPython's sorted, a stable sort) *)
Theorem order_by_unique keys l l' :
  Permutation l' l ->
  StronglySorted (fun a b => keys_lt keys b a = false) l' ->
  (forall z, filter (keys_equiv keys z) l' = filter (keys_equiv keys z) l) ->
  l' = order_by_l keys l.
Proof.
  intros P S F. destruct (order_by_spec keys l) as (P2 & S2 & F2).
  apply (sorted_stable_unique (keys_lt keys) (keys_lt_asym keys)); try assumption.
  - intro z. exact (eq_trans (F z) (eq_sym (F2 z))).
  - intros x _. apply keys_lt_irrefl.
  - rewrite (Permutation_length P). symmetry. apply Permutation_length. exact P2.
Qed.

(* the comparison really is lexicographic on the selected keys: a key that
   decides (is not a tie) decides alone, in its own direction *)
Lemma compare_keys_first f asc r a b :
  val_ltb (apply f a) (apply f b) = true ->
  compare_keys ((f, asc) :: r) a b = if asc then (-1)%Z else 1%Z.
Proof. intro H. cbn [compare_keys]. rewrite H. reflexivity. Qed.

Lemma compare_keys_tie f asc r a b :
  val_ltb (apply f a) (apply f b) = false -> val_gtb (apply f a) (apply f b) = false ->
  compare_keys ((f, asc) :: r) a b = compare_keys r a b.
Proof. intros H1 H2. cbn [compare_keys]. rewrite H1, H2. reflexivity. Qed.
