(* Numerals, keywords and the escape table of the lexer model. *)
From Coq Require Import List ZArith Bool Arith Lia.
From YV Require Import Common.Corr Gen.CharClass Gen.LexFacts Model.Lexer Model.Literals
  Lemmas.LexerTotal Lemmas.LiteralsRoundtrip.
Import ListNotations.
Open Scope Z_scope.

Section Tok.
Variable cfg : lexcfg.

(* ---------- NUMBER ---------- *)
Lemma number_action_shape : forall txt len k n v, number_action cfg txt len = MTok k n v ->
  k = K_NUMBER /\ n = len /\
  ((memz 46 txt = true /\ v = VFloat txt) \/ (memz 46 txt = false /\ v = VInt (dec_value cfg 0 txt))).
Proof.
  intros txt len k n v. unfold number_action. destruct (memz 46 txt).
  - intros [= <- <- <-]. repeat split. left. split; reflexivity.
  - destruct (_ && _); [destruct (guard_number cfg); discriminate|].
    intros [= <- <- <-]. repeat split. right. split; reflexivity.
Qed.

(* a NUMBER token is a float iff its text contains a dot; float() and int() get the token text *)
Lemma m_number_shape : forall prev s k n v, m_number cfg prev s = MTok k n v ->
  k = K_NUMBER /\
  ((memz 46 (firstn n s) = true /\ v = VFloat (firstn n s)) \/
   (memz 46 (firstn n s) = false /\ v = VInt (dec_value cfg 0 (firstn n s)))).
Proof.
  intros prev s k n v. unfold m_number.
  destruct (negb _); [discriminate|]. destruct (span (is_d cfg) s) as [|n'] eqn:En; [discriminate|].
  match goal with |- (match ?w with Some _ => _ | None => _ end) = _ -> _ => destruct w as [l|] end.
  - intro H. apply number_action_shape in H. destruct H as (-> & -> & H). split; [reflexivity|exact H].
  - destruct (bnd cfg _ _); [|discriminate].
    intro H. apply number_action_shape in H. destruct H as (-> & -> & H). split; [reflexivity|exact H].
Qed.

Lemma span_all : forall f s, forallb f s = true -> span f s = length s.
Proof.
  induction s as [|c r IH]; [reflexivity|]. cbn. intro H. apply andb_prop in H. destruct H as [H1 H2].
  rewrite H1, (IH H2). reflexivity.
Qed.

Lemma memz_forallb_false : forall c f s, forallb f s = true -> (forall x, f x = true -> (x =? c) = false) -> memz c s = false.
Proof.
  induction s as [|x r IH]; [reflexivity|]. cbn. intros H G. apply andb_prop in H. destruct H as [H1 H2].
  rewrite (G _ H1), (IH H2 G). reflexivity.
Qed.

Lemma digit_char_parts : forall c, digit_char cfg c = true ->
  is_d cfg c = true /\ is_w cfg c = true /\ (c =? 36) = false /\ (c =? 46) = false /\ memz c (ignore cfg) = false.
Proof.
  intros c H. unfold digit_char in H. repeat (apply andb_prop in H; destruct H as [H ?]).
  repeat match goal with X : negb _ = true |- _ => apply negb_true_iff in X end. repeat split; assumption.
Qed.

(* positional decimal reading *)
Lemma dec_value_app : forall l acc c, dec_value cfg acc (l ++ [c]) = dec_value cfg acc l * 10 + digit_val cfg c.
Proof. induction l as [|x l IH]; intros acc c; cbn; [reflexivity|]. apply IH. Qed.

(* a digit string is one NUMBER token denoting its decimal value *)
Theorem integer_literal : forall ds, ds <> [] -> forallb (digit_char cfg) ds = true ->
  (max_digits cfg <= 0 \/ Z.of_nat (length ds) <= max_digits cfg) ->
  lex cfg ds = ([mkTok K_NUMBER 0 (length ds) (VInt (dec_value cfg 0 ds))], EndOk).
Proof.
  intros [|c r] NE All Lim; [contradiction|]. cbn [length].
  pose proof All as All'. cbn [forallb] in All'. apply andb_prop in All'. destruct All' as [Hc Hr].
  destruct (digit_char_parts _ Hc) as (D & W & N36 & N46 & Ig).
  apply lex_single; [exact Ig|]. unfold match_token.
  assert (E1 : m_dollar cfg (c :: r) = MNone) by (cbn; rewrite N36; reflexivity). rewrite E1.
  assert (AllD : forallb (is_d cfg) (c :: r) = true).
  { apply forallb_forall. intros x Hx. rewrite forallb_forall in All. apply All in Hx.
    apply digit_char_parts in Hx. tauto. }
  assert (No46 : memz 46 (c :: r) = false).
  { apply (memz_forallb_false 46 (digit_char cfg)); [exact All|]. intros x Hx. apply digit_char_parts in Hx. tauto. }
  assert (E2 : m_number cfg None (c :: r) = MTok K_NUMBER (S (length r)) (VInt (dec_value cfg 0 (c :: r)))).
  { unfold m_number.
    replace (bnd cfg None (hd_opt (c :: r))) with true by (unfold bnd, isw; cbn [hd_opt]; rewrite W; reflexivity).
    cbn [negb]. rewrite (span_all _ _ AllD). rewrite skipn_all. cbn [length].
    assert (L : exists x, nth_error (c :: r) (length r) = Some x /\ is_w cfg x = true).
    { destruct (nth_error (c :: r) (length r)) as [x|] eqn:E.
      - exists x. split; [reflexivity|]. apply nth_error_In in E. rewrite forallb_forall in All.
        apply All in E. apply digit_char_parts in E. tauto.
      - apply nth_error_None in E. cbn [length] in E. lia. }
    destruct L as (x & Lx & Wx). rewrite Lx.
    replace (bnd cfg (Some x) (hd_opt [])) with true by (unfold bnd, isw; cbn [hd_opt]; rewrite Wx; reflexivity).
    change (firstn (S (length r)) (c :: r)) with (firstn (length (c :: r)) (c :: r)). rewrite firstn_all.
    unfold number_action. rewrite No46.
    assert (LimB : (0 <? max_digits cfg) && (max_digits cfg <? Z.of_nat (S (length r))) = false).
    { cbn [length] in Lim. destruct Lim as [L|L].
      - apply andb_false_iff. left. apply Z.ltb_ge. exact L.
      - apply andb_false_iff. right. apply Z.ltb_ge. exact L. }
    rewrite LimB. reflexivity. }
  rewrite E2. reflexivity.
Qed.

(* ---------- keywords ---------- *)
Definition word_shaped (w : text) : bool :=
  match w with
  | [] => false
  | c :: r => ident_start cfg c && forallb (is_w cfg) r && negb (c =? 36) && negb (starts_dunder w)
              && negb (memz c (ignore cfg))
  end.

(* an identifier-shaped word is one token, typed and valued by t_KEYWORD_STRING's tables *)
Theorem keyword_literal : forall w k v, word_shaped w = true ->
  kw_action cfg w (length w) = MTok k (length w) v ->
  lex cfg w = ([mkTok k 0 (length w) v], EndOk).
Proof.
  intros [|c r] k v WS KA; [discriminate|]. cbn [word_shaped] in WS.
  apply andb_prop in WS; destruct WS as [WS Hig].
  apply andb_prop in WS; destruct WS as [WS Hdu].
  apply andb_prop in WS; destruct WS as [WS H36].
  apply andb_prop in WS; destruct WS as [IS Hall].
  apply negb_true_iff in Hig, Hdu, H36.
  cbn [length] in *. apply lex_single; [exact Hig|]. unfold match_token.
  assert (E1 : m_dollar cfg (c :: r) = MNone) by (cbn; rewrite H36; reflexivity). rewrite E1.
  pose proof IS as IS'. unfold ident_start in IS'. apply andb_prop in IS'. destruct IS' as [Wc Dc].
  apply negb_true_iff in Dc.
  assert (B : bnd cfg None (Some c) = true) by (unfold bnd, isw; rewrite Wc; reflexivity).
  assert (E2 : m_number cfg None (c :: r) = MNone).
  { unfold m_number. cbn [hd_opt]. rewrite B. cbn [negb span]. rewrite Dc. reflexivity. }
  rewrite E2.
  assert (E3 : m_func cfg None (c :: r) = MNone).
  { unfold m_func. rewrite B, IS. cbn [andb]. rewrite (span_all _ _ Hall), skipn_all. reflexivity. }
  rewrite E3.
  assert (E4 : m_keyword cfg None (c :: r) = MTok k (S (length r)) v).
  { unfold m_keyword. rewrite Hdu, B, IS. cbn [andb].
    rewrite (span_all _ _ Hall).
    change (firstn (S (length r)) (c :: r)) with (firstn (length (c :: r)) (c :: r)). rewrite firstn_all. exact KA. }
  rewrite E4. reflexivity.
Qed.

(* ---------- variables: `$` followed by word characters is one DOLLAR token whose value is that very text ---------- *)
Theorem dollar_name : forall w, memz 36 (ignore cfg) = false -> forallb (is_w cfg) w = true ->
  lex cfg (36 :: w) = ([mkTok K_DOLLAR 0 (S (length w)) (VText (36 :: w))], EndOk).
Proof.
  intros w Ig All. apply lex_single; [exact Ig|]. unfold match_token. cbn [m_dollar Z.eqb Pos.eqb].
  rewrite (span_all _ _ All). change (firstn (S (length w)) (36 :: w)) with (firstn (length (36 :: w)) (36 :: w)).
  rewrite firstn_all. reflexivity.
Qed.

(* ---------- the escape table ---------- *)
Lemma decode_skip : forall (p rest : text), decode_from cfg (length p) (p ++ rest) = decode_from cfg 0 rest.
Proof. induction p as [|x p IH]; intro rest; [reflexivity|]. cbn [length app decode_from]. apply IH. Qed.

Lemma decode_escape_step : forall r cp n, esc_at cfg r = EOk cp n ->
  forall p rest, r = p ++ rest -> length p = n ->
  decode_escapes cfg (92 :: r) = option_map (cons cp) (decode_escapes cfg rest).
Proof.
  intros r cp n H p rest -> <-. unfold decode_escapes. cbn [decode_from Z.eqb Pos.eqb]. rewrite H.
  rewrite decode_skip. reflexivity.
Qed.

(* the ten single-character escapes *)
Theorem single_escapes : forall d cp rest, single_escape d = Some cp ->
  decode_escapes cfg (92 :: d :: rest) = option_map (cons cp) (decode_escapes cfg rest).
Proof.
  intros d cp rest H. apply (decode_escape_step (d :: rest) cp 1%nat) with (p := [d]); [|reflexivity|reflexivity].
  unfold single_escape in H.
  repeat match type of H with
  | (if ?x =? ?k then _ else _) = _ =>
    let E := fresh "E" in destruct (x =? k) eqn:E;
    [apply Z.eqb_eq in E; subst x; injection H as <-; reflexivity|]
  end.
  discriminate.
Qed.

Lemma hexnum_no_nl : forall l acc v, hexnum acc l = Some v -> no_nl l = true.
Proof.
  unfold no_nl. induction l as [|c r IH]; intros acc v; [reflexivity|]. cbn [hexnum forallb].
  destruct (hexval c) as [x|] eqn:E; [|discriminate]. intro H. rewrite (IH _ _ H), andb_true_r.
  destruct (c =? 10) eqn:C; [|reflexivity]. apply Z.eqb_eq in C. subst c. discriminate.
Qed.

Lemma fixed_hex_ok : forall k payload rest v, length payload = k -> hexnum 0 payload = Some v ->
  v <= max_code_point -> fixed_hex k (payload ++ rest) = EOk v (S k).
Proof.
  intros k payload rest v L H M. unfold fixed_hex. subst k. rewrite firstn_app_exact.
  rewrite Nat.eqb_refl, (hexnum_no_nl _ _ _ H), H. cbn [andb].
  apply Z.leb_le in M. rewrite M. reflexivity.
Qed.

(* \xHH, \uHHHH, \UHHHHHHHH with ASCII hex digits denote that code point *)
Theorem hex_escapes : forall letter k payload rest v,
  (letter = 120 /\ k = 2%nat) \/ (letter = 117 /\ k = 4%nat) \/ (letter = 85 /\ k = 8%nat) ->
  length payload = k -> hexnum 0 payload = Some v -> v <= max_code_point ->
  decode_escapes cfg (92 :: letter :: payload ++ rest) = option_map (cons v) (decode_escapes cfg rest).
Proof.
  intros letter k payload rest v C L H M.
  apply (decode_escape_step (letter :: payload ++ rest) v (S k)) with (p := letter :: payload);
    [|reflexivity|cbn [length]; rewrite L; reflexivity].
  destruct C as [[-> ->]|[[-> ->]|[-> ->]]]; cbn [esc_at Z.eqb Pos.eqb]; apply fixed_hex_ok; assumption.
Qed.

(* ... and with anything else in the payload the codec raises *)
Theorem hex_escapes_illformed : forall letter k payload rest,
  (letter = 120 /\ k = 2%nat) \/ (letter = 117 /\ k = 4%nat) \/ (letter = 85 /\ k = 8%nat) ->
  length payload = k -> no_nl payload = true -> hexnum 0 payload = None ->
  decode_escapes cfg (92 :: letter :: payload ++ rest) = None.
Proof.
  intros letter k payload rest C L NL H. unfold decode_escapes. cbn [decode_from Z.eqb Pos.eqb].
  assert (E : esc_at cfg (letter :: payload ++ rest) = EBad).
  { destruct C as [[-> ->]|[[-> ->]|[-> ->]]]; cbn [esc_at Z.eqb Pos.eqb]; unfold fixed_hex;
      rewrite <- L, firstn_app_exact, Nat.eqb_refl, NL, H; reflexivity. }
  rewrite E. reflexivity.
Qed.

(* \N{name}: the Unicode database decides *)
Theorem name_escape : forall name rest, name <> [] -> forallb (fun c => negb (c =? 125)) name = true ->
  decode_escapes cfg (92 :: 78 :: 123 :: name ++ 125 :: rest) =
  match uname cfg name with
  | Some cp => option_map (cons cp) (decode_escapes cfg rest)
  | None => None
  end.
Proof.
  intros name rest NE All.
  assert (SP : span (fun c => negb (c =? 125)) (name ++ 125 :: rest) = length name).
  { clear NE. induction name as [|x l IH]; [reflexivity|]. cbn [forallb] in All. apply andb_prop in All.
    destruct All as [A1 A2]. cbn [app span]. rewrite A1, (IH A2). reflexivity. }
  assert (E : esc_at cfg (78 :: 123 :: name ++ 125 :: rest) =
              match uname cfg name with Some cp => EOk cp (length name + 3) | None => EBad end).
  { cbn [esc_at Z.eqb Pos.eqb is_oct Z.leb Z.compare Pos.compare Pos.compare_cont andb]. rewrite SP.
    destruct (length name) as [|ln] eqn:EL; [destruct name; [contradiction|discriminate]|]. rewrite <- EL.
    rewrite skipn_app_exact, firstn_app_exact. reflexivity. }
  destruct (uname cfg name) as [cp|] eqn:U.
  - apply (decode_escape_step _ cp (length name + 3)%nat E (78 :: 123 :: name ++ [125]) rest).
    + cbn [app]. rewrite <- app_assoc. reflexivity.
    + cbn [length]. rewrite app_length. cbn [length]. lia.
  - unfold decode_escapes. cbn [decode_from Z.eqb Pos.eqb]. rewrite E. reflexivity.
Qed.

(* any other character after a backslash: the backslash stands for itself *)
Theorem unknown_escape : forall c rest, is_escape_letter c = false ->
  decode_escapes cfg (92 :: c :: rest) = option_map (cons 92) (decode_escapes cfg (c :: rest)).
Proof.
  intros c rest H. unfold is_escape_letter in H.
  repeat (apply orb_false_iff in H; destruct H as [H ?]).
  unfold decode_escapes. cbn [decode_from Z.eqb Pos.eqb].
  assert (E : esc_at cfg (c :: rest) = ENone).
  { cbn [esc_at]. rewrite H, H4, H3, H1, H2. destruct (single_escape c); [discriminate|reflexivity]. }
  rewrite E. reflexivity.
Qed.

(* a backslash at the very end stands for itself *)
Lemma trailing_backslash : decode_escapes cfg [92] = Some [92].
Proof. reflexivity. Qed.

End Tok.

(* ---------- for C07: no KEYWORD_STRING token text begins with two underscores ---------- *)
Lemma keyword_no_dunder : forall cfg prev s, starts_dunder s = true -> m_keyword cfg prev s = MNone.
Proof. intros cfg prev s H. unfold m_keyword. rewrite H. reflexivity. Qed.

Lemma keyword_token_no_dunder : forall cfg prev s k n v, m_keyword cfg prev s = MTok k n v ->
  starts_dunder s = false /\ starts_dunder (firstn n s) = false.
Proof.
  intros cfg prev s k n v H. destruct (starts_dunder s) eqn:E; [rewrite (keyword_no_dunder cfg prev s E) in H; discriminate|].
  split; [reflexivity|]. destruct s as [|a [|b r]]; destruct n as [|[|n]]; try reflexivity. exact E.
Qed.

(* ---------- facts about the configuration of the current tree ---------- *)
Lemma default_quotes_ok : forall names,
  quote_ok (default_cfg names) 39 = true /\ quote_ok (default_cfg names) 34 = true /\
  quote_ok (default_cfg names) 96 = true.
Proof. intro names. repeat split; vm_compute; reflexivity. Qed.

(* every \d code point of the running interpreter is a digit character for the numeral theorem *)
Lemma default_digits_ok : forall names, forallb (digit_char (default_cfg names)) (expand d_ranges) = true.
Proof. intro names. vm_compute. reflexivity. Qed.

(* an operator word is the operator's token, whatever name the factory gave it *)
Lemma kw_action_operator : forall cfg w name n, cfg_wfb cfg = true ->
  assoc w (op_table cfg) = Some name -> kw_action cfg w n = MTok name n (VText w).
Proof.
  intros cfg w name n WF H. unfold kw_action. rewrite H. destruct (wf_parts cfg WF) as (T & _).
  destruct (assoc_In _ _ _ _ H) as [k' I]. rewrite forallb_forall in T. specialize (T _ I). cbn in T.
  rewrite T. reflexivity.
Qed.

(* a word that begins with two underscores is rejected at its first character *)
Lemma dunder_rejected : forall names w, forallb (in_ranges w_ranges) w = true ->
  lex (default_cfg names) (95 :: 95 :: w) = ([], EndLexErr 0).
Proof.
  intros names w Hw. set (cfg := default_cfg names). unfold lex. cbn [length lex_loop].
  change (memz 95 (ignore cfg)) with false. cbn iota.
  assert (M : match_token cfg None (95 :: 95 :: w) = MNone).
  { unfold match_token.
    change (m_dollar cfg (95 :: 95 :: w)) with MNone. cbn iota.
    change (m_number cfg None (95 :: 95 :: w)) with MNone. cbn iota.
    assert (F : m_func cfg None (95 :: 95 :: w) = MNone).
    { unfold m_func. change (bnd cfg None (Some 95) && ident_start cfg 95) with true. cbn iota.
      assert (S1 : span (is_w cfg) (95 :: w) = length (95 :: w)).
      { apply span_all. cbn [forallb]. change (is_w cfg 95) with true. exact Hw. }
      rewrite S1, skipn_all. reflexivity. }
    rewrite F.
    change (m_keyword cfg None (95 :: 95 :: w)) with MNone. cbn iota.
    change (m_string cfg 39 false (95 :: 95 :: w)) with MNone. cbn iota.
    change (m_string cfg 34 false (95 :: 95 :: w)) with MNone. cbn iota.
    change (m_string cfg 96 true (95 :: 95 :: w)) with MNone. cbn iota.
    change (m_ops (op_strs cfg) (95 :: 95 :: w)) with MNone. cbn iota.
    reflexivity. }
  rewrite M. reflexivity.
Qed.

(* in the current tree the only token that can start at "__" is a FUNC token (t_FUNC has no guard) *)
Lemma dunder_token_is_func : forall names prev r k n v,
  match_token (default_cfg names) prev (95 :: 95 :: r) = MTok k n v -> k = K_FUNC.
Proof.
  intros names prev r k n v. set (cfg := default_cfg names). unfold match_token.
  change (m_dollar cfg (95 :: 95 :: r)) with MNone. cbn iota.
  assert (N : m_number cfg prev (95 :: 95 :: r) = MNone).
  { unfold m_number. destruct (negb _); [reflexivity|]. change (span (is_d cfg) (95 :: 95 :: r)) with O. reflexivity. }
  rewrite N.
  destruct (m_func cfg prev (95 :: 95 :: r)) as [|k' n' v'| |] eqn:F.
  - change (m_keyword cfg prev (95 :: 95 :: r)) with MNone. cbn iota.
    change (m_string cfg 39 false (95 :: 95 :: r)) with MNone. cbn iota.
    change (m_string cfg 34 false (95 :: 95 :: r)) with MNone. cbn iota.
    change (m_string cfg 96 true (95 :: 95 :: r)) with MNone. cbn iota.
    change (m_ops (op_strs cfg) (95 :: 95 :: r)) with MNone. cbn iota.
    change (m_literal cfg (95 :: 95 :: r)) with MNone. discriminate.
  - intros [= <- _ _]. unfold m_func in F. destruct (_ && _); [|discriminate].
    destruct (skipn _ _) as [|d ?]; [discriminate|]. destruct (d =? 40); [|discriminate]. injection F as <- _ _. reflexivity.
  - discriminate.
  - discriminate.
Qed.
