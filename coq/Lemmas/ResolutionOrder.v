(* The documented rules (resolve_spec) - hence choose_overload - do not depend on the
   order in which any layer enumerates its overloads. *)
From Coq Require Import List ZArith Bool Arith Lia Permutation.
From YV Require Import Common.Corr Model.Resolution Lemmas.ResolutionSpec.
Import ListNotations.

Lemma existsb_perm {A} (f : A -> bool) l l' : Permutation l l' -> existsb f l = existsb f l'.
Proof.
  intro P; induction P; cbn; try congruence.
  destruct (f x), (f y); reflexivity.
Qed.

Lemma forallb_perm {A} (f : A -> bool) l l' : Permutation l l' -> forallb f l = forallb f l'.
Proof.
  intro P; induction P; cbn; try congruence.
  destruct (f x), (f y); reflexivity.
Qed.

Lemma existsb_ext' {A} (f g : A -> bool) l : (forall x, f x = g x) -> existsb f l = existsb g l.
Proof. intro H; induction l; cbn; congruence. Qed.

Lemma forallb_ext' {A} (f g : A -> bool) l : (forall x, f x = g x) -> forallb f l = forallb g l.
Proof. intro H; induction l; cbn; congruence. Qed.

Lemma filter_ext' {A} (f g : A -> bool) l : (forall x, f x = g x) -> filter f l = filter g l.
Proof. intro H; induction l; cbn; [reflexivity|]. rewrite H, IHl. reflexivity. Qed.

Lemma filter_perm {A} (f : A -> bool) l l' : Permutation l l' -> Permutation (filter f l) (filter f l').
Proof.
  intro P; induction P; cbn.
  - constructor.
  - destruct (f x); [constructor|]; assumption.
  - destruct (f x), (f y); try apply perm_swap; apply Permutation_refl.
  - eapply Permutation_trans; eassumption.
Qed.

Lemma concat_perm {A} (l l' : list (list A)) :
  Forall2 (@Permutation A) l l' -> Permutation (concat l) (concat l').
Proof. intro H; induction H; cbn; [constructor|]. apply Permutation_app; assumption. Qed.

Lemma flat_map_perm {A B} (f : A -> list B) l l' : Permutation l l' -> Permutation (flat_map f l) (flat_map f l').
Proof.
  intro P; induction P; cbn.
  - constructor.
  - apply Permutation_app_head. assumption.
  - rewrite !app_assoc. apply Permutation_app_tail, Permutation_app_comm.
  - eapply Permutation_trans; eassumption.
Qed.

Lemma Forall2_map {A B} (R : B -> B -> Prop) (f : A -> B) (Q : A -> A -> Prop) l l' :
  (forall x y, Q x y -> R (f x) (f y)) -> Forall2 Q l l' -> Forall2 R (map f l) (map f l').
Proof. intros H F; induction F; cbn; constructor; auto. Qed.

Section Sub.
Variable sub : tag -> tag -> bool.

Lemma delegates_flat pos kw level :
  delegates sub pos kw level =
  flat_map (fun cm => match get_delegate sub (fparams (fst cm)) pos kw with
                      | Some b => [(fst cm, snd cm, b)] | None => [] end) level.
Proof.
  induction level as [|[c m] r IH]; [reflexivity|].
  cbn [Resolution.delegates flat_map fst snd]. destruct (get_delegate sub (fparams c) pos kw); cbn [app]; congruence.
Qed.

Lemma delegates_perm pos kw l l' :
  Permutation l l' -> Permutation (delegates sub pos kw l) (delegates sub pos kw l').
Proof. intro P. rewrite !delegates_flat. apply flat_map_perm, P. Qed.

Lemma is_winner_perm ms ms' w : Permutation ms ms' -> is_winner sub ms w = is_winner sub ms' w.
Proof. apply forallb_perm. Qed.

Lemma pick_winner_perm ms ms' : Permutation ms ms' -> pick_winner sub ms = pick_winner sub ms'.
Proof.
  intro P. unfold pick_winner.
  assert (Q : Permutation (filter (is_winner sub ms) ms) (filter (is_winner sub ms') ms')).
  { rewrite (filter_ext' (is_winner sub ms) (is_winner sub ms')) by (intro; apply is_winner_perm, P).
    apply filter_perm, P. }
  destruct (filter (is_winner sub ms) ms) as [|w [|w2 r]] eqn:E1.
  - apply Permutation_nil in Q. rewrite Q. reflexivity.
  - apply Permutation_length_1_inv in Q. rewrite Q. reflexivity.
  - destruct (filter (is_winner sub ms') ms') as [|v [|v2 r']] eqn:E2; try reflexivity.
    apply Permutation_sym, Permutation_length_1_inv in Q. discriminate.
Qed.

Lemma find_nonempty_perm {A} (l l' : list (list A)) :
  Forall2 (@Permutation A) l l' ->
  match find (fun ms => negb (match ms with [] => true | _ => false end)) l,
        find (fun ms => negb (match ms with [] => true | _ => false end)) l' with
  | None, None => True
  | Some a, Some b => Permutation a b
  | _, _ => False
  end.
Proof.
  intro H; induction H as [|x y l l' P _ IH]; cbn [find]; [exact I|].
  destruct x as [|x0 x]; destruct y as [|y0 y]; cbn [negb].
  - exact IH.
  - apply Permutation_nil in P. discriminate.
  - apply Permutation_sym, Permutation_nil in P. discriminate.
  - exact P.
Qed.

Theorem resolve_spec_perm layers layers' args pykw :
  Forall2 (@Permutation fdef) layers layers' ->
  resolve_spec sub layers args pykw = resolve_spec sub layers' args pykw.
Proof.
  intro F. pose proof (concat_perm _ _ F) as Pall. unfold resolve_spec.
  rewrite (existsb_perm _ _ _ Pall).
  rewrite (existsb_ext' _ (fun c1 => existsb (fun c2 => negb (Bool.eqb (fnokw c1) (fnokw c2))) (concat layers')))
    by (intro; apply existsb_perm, Pall).
  destruct (existsb _ (concat layers')); [reflexivity|].
  rewrite (existsb_perm fnokw _ _ Pall).
  destruct (translate_args (existsb fnokw (concat layers')) args pykw) as [e|[pos kw]]; [reflexivity|].
  assert (Fc : Forall2 (@Permutation cand) (map (callable sub pos kw) layers) (map (callable sub pos kw) layers')).
  { eapply Forall2_map; [|exact F]. intros x y P. apply flat_map_perm, P. }
  pose proof (concat_perm _ _ Fc) as Pc.
  set (cl := concat (map (callable sub pos kw) layers)) in *.
  set (cl' := concat (map (callable sub pos kw) layers')) in *.
  assert (Ea : lazy_agree kw cl = lazy_agree kw cl').
  { unfold lazy_agree. rewrite (forallb_perm _ _ _ Pc). apply forallb_ext'. intro. apply forallb_perm, Pc. }
  rewrite <- Ea. destruct (lazy_agree kw cl) eqn:El; cbn [negb]; [|reflexivity].
  destruct cl as [|c0 r] eqn:E1; destruct cl' as [|c0' r'] eqn:E2.
  - reflexivity.
  - apply Permutation_nil in Pc. discriminate.
  - apply Permutation_sym, Permutation_nil in Pc. discriminate.
  - assert (Es : lazy_sig kw (snd c0) = lazy_sig kw (snd c0')).
    { unfold lazy_agree in El. rewrite forallb_forall in El.
      specialize (El c0 (or_introl eq_refl)). rewrite forallb_forall in El.
      apply sig_eqb_spec, El. eapply Permutation_in; [apply Permutation_sym, Pc|]. left. reflexivity. }
    rewrite <- Es.
    destruct (eval_pos (fst (lazy_sig kw (snd c0))) pos) as [pos' l1].
    destruct (eval_kw (snd (lazy_sig kw (snd c0))) kw) as [kw' l2].
    assert (Fd : Forall2 (@Permutation matched) (map (delegates sub pos' kw') (map (callable sub pos kw) layers))
                                             (map (delegates sub pos' kw') (map (callable sub pos kw) layers'))).
    { eapply Forall2_map; [|exact Fc]. intros x y P. apply delegates_perm, P. }
    pose proof (find_nonempty_perm _ _ Fd) as Hf.
    destruct (find _ (map (delegates sub pos' kw') (map (callable sub pos kw) layers))) as [ms|];
      destruct (find _ (map (delegates sub pos' kw') (map (callable sub pos kw) layers'))) as [ms'|];
      try contradiction; [|reflexivity].
    rewrite (pick_winner_perm _ _ Hf). reflexivity.
Qed.

Theorem choose_perm layers layers' args pykw :
  Forall2 (@Permutation fdef) layers layers' ->
  choose_overload sub layers args pykw = choose_overload sub layers' args pykw.
Proof. intro F. rewrite !choose_is_spec. apply resolve_spec_perm, F. Qed.

Lemma collect_perm has_receiver chain chain' :
  Forall2 (fun l l' => Permutation (lfuns l) (lfuns l') /\ lexcl l = lexcl l') chain chain' ->
  Forall2 (@Permutation fdef) (collect has_receiver chain) (collect has_receiver chain').
Proof.
  intro F; induction F as [|l l' c c' [P E] _ IH]; cbn [collect]; [constructor|].
  rewrite <- E. pose proof (filter_perm (kind_ok has_receiver) _ _ P) as Q.
  assert (R : Forall2 (@Permutation fdef) (if lexcl l then [] else collect has_receiver c)
                                          (if lexcl l then [] else collect has_receiver c')).
  { destruct (lexcl l); [constructor | exact IH]. }
  destruct (filter (kind_ok has_receiver) (lfuns l)) as [|x xs] eqn:E1;
    destruct (filter (kind_ok has_receiver) (lfuns l')) as [|y ys] eqn:E2.
  - exact R.
  - apply Permutation_nil in Q. discriminate.
  - apply Permutation_sym, Permutation_nil in Q. discriminate.
  - constructor; assumption.
Qed.

Theorem call_perm has_receiver chain chain' args pykw :
  Forall2 (fun l l' => Permutation (lfuns l) (lfuns l') /\ lexcl l = lexcl l') chain chain' ->
  call sub has_receiver chain args pykw = call sub has_receiver chain' args pykw.
Proof.
  intro F. pose proof (collect_perm has_receiver _ _ F) as P. unfold call.
  destruct (collect has_receiver chain) as [|x xs] eqn:E1; destruct (collect has_receiver chain') as [|y ys] eqn:E2.
  - reflexivity.
  - inversion P.
  - inversion P.
  - apply choose_perm, P.
Qed.

End Sub.
