(* Timespan algebra of Model/DateTime.v (C20): scaling by numbers, ratios, negation,
   ordering. *)
From Coq Require Import ZArith Bool List Lia ZifyBool QArith.
From YV Require Import Model.DateTime.
Open Scope Z_scope.

(* the admissible window around an integer quotient contains exactly that integer
   as long as the count is below 2^50 microseconds (35 years) *)
Lemma ts_near_integer : forall r t p, Z.abs t < 1125899906842624 ->
  (ts_near r (t * Zpos p) p = true <-> r = t).
Proof.
  intros r t p T. unfold ts_near. set (P := Zpos p). assert (PP : 0 < P) by (unfold P; lia).
  split.
  - intros H.
    assert (E : r * P - t * P = (r - t) * P) by ring. rewrite E in H.
    rewrite !Z.abs_mul in H. rewrite (Z.abs_eq P) in H by lia.
    destruct (Z.eq_dec r t) as [|N]; [assumption|exfalso].
    assert (U : 1 <= Z.abs (r - t)) by lia.
    assert (X : 1 * P <= Z.abs (r - t) * P) by (apply Z.mul_le_mono_nonneg_r; lia).
    assert (Y : Z.abs t * P < 1125899906842624 * P) by (apply Z.mul_lt_mono_pos_r; lia).
    lia.
  - intros ->. replace (t * P - t * P) with 0 by ring. cbn [Z.abs]. lia.
Qed.

Lemma scale_then_divide : forall t k, k <> 0 -> Z.abs t < 1125899906842624 ->
  exists n d, eval (OpTsDiv (t * k) (NInt k)) = VTsNear n d /\ (forall r, ts_near r n d = true <-> r = t).
Proof.
  intros t k K T. cbn. unfold y_ts_div.
  assert (R : forall p, near_ts (t * Zpos p) p = VTsNear (t * Zpos p) p).
  { intros p. unfold near_ts. rewrite Z.div_mul by lia.
    replace (ts_in_range (t - 1) && ts_in_range (t + 2)) with true; [reflexivity|].
    unfold ts_in_range, TS_MAX_DAYS, US_DAY. lia. }
  destruct k as [|p|p]; [congruence| |].
  - exists (t * Zpos p), p. split; [apply R | intros r; apply ts_near_integer; exact T].
  - replace (- (t * Z.neg p)) with (t * Zpos p) by lia.
    exists (t * Zpos p), p. split; [apply R | intros r; apply ts_near_integer; exact T].
Qed.

Lemma scale_by_integer : forall t k,
  eval (OpTsMul t (NInt k)) = mk_ts (t * k) /\ eval (OpTsMulR (NInt k) t) = mk_ts (t * k) /\
  eval (OpTsOp TMulInt t k) = mk_ts (t * k).
Proof. intros; repeat split. Qed.

Lemma scale_commutes : forall t x, eval (OpTsMulR x t) = eval (OpTsMul t x).
Proof. reflexivity. Qed.

(* the float cases state the exact rational *)
Lemma scale_by_float : forall t n d v, eval (OpTsMul t (NFloat n d)) = v ->
  v = VErr RangeErr \/ (v = VTsNear (t * n) d).
Proof. intros t n d v <-. cbn. unfold near_ts. destruct (_ && _); auto. Qed.

Lemma divide_by_number : forall t x n d, eval (OpTsDiv t x) = VTsNear n d ->
  match x with
  | NInt k => k <> 0 /\ (n # d == (t # 1) / (k # 1))%Q
  | NFloat fn fd => fn <> 0 /\ (n # d == (t # 1) / (fn # fd))%Q
  end.
Proof.
  intros t x n d H. cbn in H. unfold y_ts_div, near_ts in H.
  destruct x as [k | fn fd]; [destruct k as [|p|p] | destruct fn as [|p|p]]; try discriminate;
    (split; [lia|]);
    match type of H with (if ?c then _ else _) = _ => destruct c; [|discriminate] end;
    injection H as <- <-; unfold Qeq, Qdiv, Qmult, Qinv; cbn [Qnum Qden]; lia.
Qed.

Lemma divide_by_zero : forall t, eval (OpTsDiv t (NInt 0)) = VErr ZeroDiv /\ forall d, eval (OpTsDiv t (NFloat 0 d)) = VErr ZeroDiv.
Proof. intros; split; reflexivity. Qed.

(* timespan / timespan is the ratio of the microsecond counts *)
Lemma ratio : forall a b, b <> 0 ->
  exists n d, eval (OpTsOp TDivTs a b) = VRat n d /\ ((n # d) * (b # 1) == (a # 1))%Q.
Proof.
  intros a b B. destruct b as [|p|p]; [congruence| |].
  - exists a, p. split; [reflexivity|]. unfold Qeq, Qmult; cbn [Qnum Qden]. lia.
  - exists (- a), p. split; [reflexivity|]. unfold Qeq, Qmult; cbn [Qnum Qden]. lia.
Qed.

Lemma ratio_of_multiple : forall t k, t <> 0 ->
  exists n d, eval (OpTsOp TDivTs (t * k) t) = VRat n d /\ (n # d == k # 1)%Q.
Proof.
  intros t k T. destruct t as [|p|p]; [congruence| |].
  - exists (Zpos p * k), p. split; [reflexivity|]. unfold Qeq; cbn [Qnum Qden]. lia.
  - exists (- (Zneg p * k)), p. split; [reflexivity|]. unfold Qeq; cbn [Qnum Qden]. lia.
Qed.

Lemma ratio_by_zero : forall a, eval (OpTsOp TDivTs a 0) = VErr ZeroDiv.
Proof. reflexivity. Qed.

Lemma negation : forall t x,
  eval (OpTsOp TNeg t x) = mk_ts (- t) /\ eval (OpTsOp TPos t x) = VTs t /\ - - t = t /\ t + - t = 0 /\
  (forall d, dt_add (dt_add d t) (- t) = d /\ dt_sub_ts d t = dt_add d (- t)).
Proof.
  intros t x. repeat split; try reflexivity; try lia;
    destruct d as [w o]; unfold dt_add, dt_sub_ts; cbn [wall off]; f_equal; lia.
Qed.

(* ordering of timespans is that of their microsecond counts, is a total order, is kept
   by adding a timespan / by positive integer scaling, and is the order of the instants
   reached from any one datetime *)
Lemma span_order : forall c a b,
  eval (OpTsCmp c a b) = VBool (z_cmp c a b) /\
  (forall x, z_cmp c (a + x) (b + x) = z_cmp c a b) /\
  (forall k, 0 < k -> z_cmp c (a * k) (b * k) = z_cmp c a b) /\
  (forall d, dt_cmp c (dt_add d a) (dt_add d b) = z_cmp c a b).
Proof.
  intros c a b. split; [reflexivity|]. split; [|split].
  - intros x. destruct c; unfold z_cmp; lia.
  - intros k K.
    assert (L : a * k < b * k <-> a < b) by (symmetry; apply Z.mul_lt_mono_pos_r; lia).
    assert (L' : b * k < a * k <-> b < a) by (symmetry; apply Z.mul_lt_mono_pos_r; lia).
    assert (E : a * k = b * k <-> a = b) by (split; [intros H; apply Z.mul_cancel_r in H; lia | intros ->; reflexivity]).
    destruct c; unfold z_cmp; lia.
  - intros [w o]. unfold dt_cmp, dt_add, instant; cbn [wall off]. destruct c; unfold z_cmp; lia.
Qed.

Lemma span_order_total : forall a b,
  (z_cmp Lt a b = true /\ z_cmp Eq a b = false /\ z_cmp Gt a b = false \/
   z_cmp Lt a b = false /\ z_cmp Eq a b = true /\ z_cmp Gt a b = false \/
   z_cmp Lt a b = false /\ z_cmp Eq a b = false /\ z_cmp Gt a b = true) /\
  z_cmp Le a b = (z_cmp Lt a b || z_cmp Eq a b) /\ z_cmp Ge a b = (z_cmp Gt a b || z_cmp Eq a b) /\
  z_cmp Ne a b = negb (z_cmp Eq a b) /\ z_cmp Gt a b = z_cmp Lt b a /\ z_cmp Ge a b = z_cmp Le b a /\
  (z_cmp Eq a b = true <-> a = b) /\ (z_cmp Lt a b = true <-> a < b).
Proof. intros a b. unfold z_cmp. repeat split; lia. Qed.

(* timespan(...) of integer components of ANY magnitude: the sum of the components, guarded by
   nothing but python's timedelta range *)
Lemma timespan_guard : forall d h m s ms us,
  eval (OpTimespan d h m s ms us) =
    (if ts_in_range (timespan_of d h m s ms us) then VTs (timespan_of d h m s ms us) else VErr RangeErr) /\
  (forall t, ts_in_range t = true <-> - 999999999 * 86400000000 <= t < 1000000000 * 86400000000) /\
  (forall t, ts_in_range t = true ->
     eval (OpTimespan 0 0 0 0 0 t) = VTs t /\ eval (OpUnit UMicroseconds t) = VInt t).
Proof.
  intros d h m s ms us. split; [reflexivity|]. split.
  - intros t. unfold ts_in_range, TS_MAX_DAYS, US_DAY. lia.
  - intros t R. split; [|reflexivity]. cbn. unfold y_timespan, mk_ts, timespan_of.
    replace (0 * 86400000000 + 0 * 3600000000 + 0 * 60000000 + 0 * 1000000 + 0 * 1000 + t) with t by lia.
    rewrite R. reflexivity.
Qed.
