(* streaming == list semantics for the hand-written generators: delete, replace(Many),
   insert, selectMany, distinct, accumulate without seed; and the pipeline theorem over
   the larger operator set. *)
From Coq Require Import List ZArith Bool Arith Lia.
From YV Require Import Common.Corr Model.Queries Model.Streams Lemmas.StreamsMono Lemmas.StreamsSteps Lemmas.StreamsPipeline.
Import ListNotations.

Lemma denotes_nil i dp dt : EndsD i dp dt -> Denotes i [].
Proof. intro E. exists 0, 0, i, dp, dt. split; [cbn; repeat split | exact E]. Qed.

Lemma denotes_cons i v i1 dp dt r : YieldsD i v i1 dp dt -> Denotes i1 r -> Denotes i (v :: r).
Proof.
  intros Y (a & b & i' & c & d & HS & E). exists (dp + a), (dt + b), i', c, d. split; [|exact E].
  apply (StepsD_cons _ _ _ _ _ _ _ _ _ Y HS).
Qed.

Lemma denotes_inv_nil i : Denotes i [] -> exists dp dt, EndsD i dp dt.
Proof. intros (a & b & i' & c & d & (-> & -> & ->) & E). exists c, d. exact E. Qed.

Lemma denotes_inv_cons i v r : Denotes i (v :: r) -> exists i1 dp dt, YieldsD i v i1 dp dt /\ Denotes i1 r.
Proof.
  intros (a & b & i' & c & d & (j & p1 & t1 & p2 & t2 & Y & HS & -> & ->) & E).
  exists j, p1, t1. split; [exact Y|]. exists p2, t2, i', c, d. split; assumption.
Qed.

(* A first pulls (and drops) one inner element at cost (dp, dt) and then is B *)
Lemma denotes_via_skip (A B : it) (dp dt : nat) out :
  (forall v j a b, YieldsD B v j a b -> YieldsD A v j (dp + a) (dt + b)) ->
  (forall a b, EndsD B a b -> EndsD A (dp + a) (dt + b)) ->
  Denotes B out -> Denotes A out.
Proof.
  intros HY HE D. destruct out as [|v r].
  - destruct (denotes_inv_nil _ D) as (a & b & E). apply (denotes_nil _ _ _ (HE _ _ E)).
  - destruct (denotes_inv_cons _ _ _ D) as (j & a & b & Y & D1). apply (denotes_cons _ _ _ _ _ _ (HY _ _ _ _ Y) D1).
Qed.

(* the common shape of "pull one element, then continue as B": both for a following yield and a following end *)
Ltac pull_then Y H2 s cond :=
  let f1 := fresh "f" in let F1 := fresh "F" in let f2 := fresh "f" in let F2 := fresh "F" in
  destruct (yields_at _ _ _ _ _ Y s) as [f1 F1];
  first [ destruct (yields_at _ _ _ _ _ H2 _) as [f2 F2] | destruct (ends_at _ _ _ H2 _) as [f2 F2] ];
  exists (S (Nat.max f1 f2)); cbn [next]; rewrite F1 by lia; cond; rewrite F2 by lia;
  rewrite ?tick_plus, ?plus_st_plus; f_equal; apply plus_st_eq; lia.

(* ---- delete -------------------------------------------------------------------------- *)
Lemma delete_ends pos cnt n i dp dt : EndsD i dp dt -> EndsD (DeleteAt pos cnt n i) dp dt.
Proof. intros H s. destruct (H s) as [fu E]. exists (S fu). cbn [next]. rewrite E. reflexivity. Qed.

Lemma delete_drop_end pos cnt n i x i1 dp1 dt1 dp2 dt2 :
  YieldsD i x i1 dp1 dt1 -> del_keep pos cnt n = false -> EndsD (DeleteAt pos cnt (n + 1) i1) dp2 dt2 ->
  EndsD (DeleteAt pos cnt n i) (dp1 + dp2) (dt1 + dt2).
Proof.
  intros H K H2 s. destruct (yields_at _ _ _ _ _ H s) as [f1 F1].
  destruct (ends_at _ _ _ H2 (plus_st s dp1 dt1)) as [f2 F2].
  exists (S (Nat.max f1 f2)). cbn [next]. rewrite F1 by lia. rewrite K. rewrite F2 by lia. rewrite plus_st_plus. reflexivity.
Qed.

Lemma denotes_delete pos cnt l : forall n i, Denotes i l -> Denotes (DeleteAt pos cnt n i) (delete_from n pos cnt l).
Proof.
  induction l as [|x r IH]; intros n i D; cbn [delete_from].
  - destruct (denotes_inv_nil _ D) as (a & b & E). apply (denotes_nil _ _ _ (delete_ends pos cnt n _ _ _ E)).
  - destruct (denotes_inv_cons _ _ _ D) as (j & a & b & Y & D1). specialize (IH (n + 1)%Z j D1).
    destruct (del_keep pos cnt n) eqn:K.
    + apply (denotes_cons _ _ _ _ _ _ (delete_keep_yields pos cnt n _ _ _ _ _ Y K) IH).
    + apply (denotes_via_skip _ _ a b _
               (fun v k p q Y2 => delete_drop_step pos cnt n _ _ _ _ _ _ _ _ _ Y K Y2)
               (fun p q E2 => delete_drop_end pos cnt n _ _ _ _ _ _ _ Y K E2) IH).
Qed.

(* ---- replace / replaceMany ---------------------------------------------------------------- *)
Lemma replace_ends pos cnt vals y n i dp dt : EndsD i dp dt -> EndsD (ReplaceAt pos cnt vals y n i) dp dt.
Proof. intros H s. destruct (H s) as [fu E]. exists (S fu). cbn [next]. rewrite E. reflexivity. Qed.

Lemma replace_pass pos cnt vals y n i t i' dp dt : YieldsD i t i' dp dt -> in_window pos cnt n = false ->
  YieldsD (ReplaceAt pos cnt vals y n i) t (ReplaceAt pos cnt vals y (n + 1) i') dp dt.
Proof. intros H K s. destruct (H s) as [fu E]. exists (S fu). cbn [next]. rewrite E, K. reflexivity. Qed.

Definition replace_next (pos cnt : Z) (vals : list val) (y : bool) (n : Z) (i1 : it) : it :=
  if y then ReplaceAt pos cnt vals true (n + 1) i1 else Chain (OfList vals) (ReplaceAt pos cnt vals true (n + 1) i1).

Lemma replace_in_yield pos cnt vals y n i x i1 dp1 dt1 v j dp2 dt2 :
  YieldsD i x i1 dp1 dt1 -> in_window pos cnt n = true -> YieldsD (replace_next pos cnt vals y n i1) v j dp2 dt2 ->
  YieldsD (ReplaceAt pos cnt vals y n i) v j (dp1 + dp2) (dt1 + dt2).
Proof.
  intros H K H2 s. destruct (yields_at _ _ _ _ _ H s) as [f1 F1].
  destruct (yields_at _ _ _ _ _ H2 (plus_st s dp1 dt1)) as [f2 F2].
  exists (S (Nat.max f1 f2)). cbn [next]. rewrite F1 by lia. rewrite K. unfold replace_next in F2.
  destruct y; rewrite F2 by lia; rewrite plus_st_plus; reflexivity.
Qed.

Lemma replace_in_end pos cnt vals y n i x i1 dp1 dt1 dp2 dt2 :
  YieldsD i x i1 dp1 dt1 -> in_window pos cnt n = true -> EndsD (replace_next pos cnt vals y n i1) dp2 dt2 ->
  EndsD (ReplaceAt pos cnt vals y n i) (dp1 + dp2) (dt1 + dt2).
Proof.
  intros H K H2 s. destruct (yields_at _ _ _ _ _ H s) as [f1 F1].
  destruct (ends_at _ _ _ H2 (plus_st s dp1 dt1)) as [f2 F2].
  exists (S (Nat.max f1 f2)). cbn [next]. rewrite F1 by lia. rewrite K. unfold replace_next in F2.
  destruct y; rewrite F2 by lia; rewrite plus_st_plus; reflexivity.
Qed.

Lemma denotes_replace pos cnt vals l : forall y n i, Denotes i l ->
  Denotes (ReplaceAt pos cnt vals y n i) (replace_from n pos cnt vals y l).
Proof.
  induction l as [|x r IH]; intros y n i D; cbn [replace_from].
  - destruct (denotes_inv_nil _ D) as (a & b & E). apply (denotes_nil _ _ _ (replace_ends pos cnt vals y n _ _ _ E)).
  - destruct (denotes_inv_cons _ _ _ D) as (j & a & b & Y & D1).
    destruct (in_window pos cnt n) eqn:K.
    + assert (B : Denotes (replace_next pos cnt vals y n j) ((if y then [] else vals) ++ replace_from (n + 1) pos cnt vals true r)).
      { unfold replace_next. destruct y; [apply IH; exact D1|].
        apply denotes_chain; [apply oflist_denotes | apply IH; exact D1]. }
      apply (denotes_via_skip _ _ a b _
               (fun v k p q Y2 => replace_in_yield pos cnt vals y n _ _ _ _ _ _ _ _ _ Y K Y2)
               (fun p q E2 => replace_in_end pos cnt vals y n _ _ _ _ _ _ _ Y K E2) B).
    + apply (denotes_cons _ _ _ _ _ _ (replace_pass pos cnt vals y n _ _ _ _ _ Y K) (IH y (n + 1)%Z j D1)).
Qed.

(* ---- insert (the iterator overload) ------------------------------------------------------ *)
Lemma insert_end_yield pos v n i dp dt : EndsD i dp dt -> (pos >? n - 1)%Z = true ->
  YieldsD (InsertAt pos v n i) v (OfList []) dp dt.
Proof. intros H K s. destruct (H s) as [fu E]. exists (S fu). cbn [next]. rewrite E, K. reflexivity. Qed.

Lemma insert_end_done pos v n i dp dt : EndsD i dp dt -> (pos >? n - 1)%Z = false -> EndsD (InsertAt pos v n i) dp dt.
Proof. intros H K s. destruct (H s) as [fu E]. exists (S fu). cbn [next]. rewrite E, K. reflexivity. Qed.

Lemma denotes_insert pos v l : forall n i, Denotes i l -> Denotes (InsertAt pos v n i) (iter_insert_from n pos v l).
Proof.
  induction l as [|t r IH]; intros n i D; cbn [iter_insert_from].
  - destruct (denotes_inv_nil _ D) as (a & b & E). destruct (pos >? n - 1)%Z eqn:K.
    + apply (denotes_cons _ _ _ _ _ _ (insert_end_yield pos v n _ _ _ E K) (oflist_denotes [])).
    + apply (denotes_nil _ _ _ (insert_end_done pos v n _ _ _ E K)).
  - destruct (denotes_inv_cons _ _ _ D) as (j & a & b & Y & D1). specialize (IH (n + 1)%Z j D1).
    destruct (n =? pos)%Z eqn:K.
    + apply Z.eqb_eq in K. subst n.
      apply (denotes_cons _ _ _ _ _ _ (insert_here pos v _ _ _ _ _ Y)).
      apply (denotes_chain _ _ [t] _ (oflist_denotes [t]) IH).
    + apply (denotes_cons _ _ _ _ _ _ (insert_before pos v n _ _ _ _ _ Y K) IH).
Qed.

(* ---- selectMany ------------------------------------------------------------------------------ *)
Definition expand (f : lam) (x : val) : list val := match apply f x with VList _ e => e | v => [v] end.

Lemma selectmany_ends f i dp dt : EndsD i dp dt -> EndsD (SelectMany f i) dp dt.
Proof. intros H s. destruct (H s) as [fu E]. exists (S fu). cbn [next]. rewrite E. reflexivity. Qed.

Lemma selectmany_scalar f i x i1 dp dt : YieldsD i x i1 dp dt -> (forall m e, apply f x <> VList m e) ->
  YieldsD (SelectMany f i) (apply f x) (SelectMany f i1) dp (dt + 1).
Proof.
  intros H N s. destruct (H s) as [fu E]. exists (S fu). cbn [next]. rewrite E.
  destruct (apply f x) eqn:A; try (rewrite tick_plus; reflexivity). exfalso. apply (N mut l). reflexivity.
Qed.

Lemma selectmany_list_yield f i x i1 dp1 dt1 m e v j dp2 dt2 :
  YieldsD i x i1 dp1 dt1 -> apply f x = VList m e -> YieldsD (Chain (OfList e) (SelectMany f i1)) v j dp2 dt2 ->
  YieldsD (SelectMany f i) v j (dp1 + dp2) (dt1 + 1 + dt2).
Proof.
  intros H A H2 s. destruct (yields_at _ _ _ _ _ H s) as [f1 F1].
  destruct (yields_at _ _ _ _ _ H2 (tick (plus_st s dp1 dt1))) as [f2 F2].
  exists (S (Nat.max f1 f2)). cbn [next]. rewrite F1 by lia. rewrite A. rewrite F2 by lia.
  rewrite tick_plus, plus_st_plus. reflexivity.
Qed.

Lemma selectmany_list_end f i x i1 dp1 dt1 m e dp2 dt2 :
  YieldsD i x i1 dp1 dt1 -> apply f x = VList m e -> EndsD (Chain (OfList e) (SelectMany f i1)) dp2 dt2 ->
  EndsD (SelectMany f i) (dp1 + dp2) (dt1 + 1 + dt2).
Proof.
  intros H A H2 s. destruct (yields_at _ _ _ _ _ H s) as [f1 F1].
  destruct (ends_at _ _ _ H2 (tick (plus_st s dp1 dt1))) as [f2 F2].
  exists (S (Nat.max f1 f2)). cbn [next]. rewrite F1 by lia. rewrite A. rewrite F2 by lia.
  rewrite tick_plus, plus_st_plus. reflexivity.
Qed.

Lemma denotes_select_many f l : forall i, Denotes i l -> Denotes (SelectMany f i) (flat_map (expand f) l).
Proof.
  induction l as [|x r IH]; intros i D; cbn [flat_map].
  - destruct (denotes_inv_nil _ D) as (a & b & E). apply (denotes_nil _ _ _ (selectmany_ends f _ _ _ E)).
  - destruct (denotes_inv_cons _ _ _ D) as (j & a & b & Y & D1). specialize (IH j D1). unfold expand at 1.
    destruct (apply f x) as [| bb | z | m e | str | dm dd] eqn:A.
    1-3, 5-6: cbn [app]; rewrite <- A; refine (denotes_cons _ _ _ _ _ _ (selectmany_scalar f _ _ _ _ _ Y _) IH); intros m e; rewrite A; discriminate.
    apply (denotes_via_skip _ _ a (b + 1) _
             (fun v k p q Y2 => selectmany_list_yield f _ _ _ _ _ m e _ _ _ _ Y A Y2)
             (fun p q E2 => selectmany_list_end f _ _ _ _ _ m e _ _ Y A E2)
             (denotes_chain _ _ e _ (oflist_denotes e) IH)).
Qed.

(* ---- distinct ---------------------------------------------------------------------------------- *)
Definition dkey (f : option lam) (x : val) : val := match f with Some g => apply g x | None => x end.
Definition dcost (f : option lam) : nat := match f with Some _ => 1 | None => 0 end.

Lemma vmem_kmem k seen : vmem k seen = kmem val_eqb k seen.
Proof. induction seen as [|y r IH]; [reflexivity|]. cbn. rewrite IH. reflexivity. Qed.

Lemma distinct_ends f seen i dp dt : EndsD i dp dt -> EndsD (Distinct f seen i) dp dt.
Proof. intros H s. destruct (H s) as [fu E]. exists (S fu). cbn [next]. rewrite E. reflexivity. Qed.

Lemma distinct_new f seen i x i1 dp dt : YieldsD i x i1 dp dt -> hashable (dkey f x) = true -> vmem (dkey f x) seen = false ->
  YieldsD (Distinct f seen i) x (Distinct f (dkey f x :: seen) i1) dp (dt + dcost f).
Proof.
  intros H Hh M s. destruct (H s) as [fu E]. exists (S fu). cbn [next]. rewrite E.
  destruct f as [g|]; cbn [dkey dcost] in *; rewrite Hh, M; cbn [negb]; [rewrite tick_plus; reflexivity|].
  f_equal. apply plus_st_eq; lia.
Qed.

Lemma distinct_seen_yield f seen i x i1 dp1 dt1 v j dp2 dt2 :
  YieldsD i x i1 dp1 dt1 -> hashable (dkey f x) = true -> vmem (dkey f x) seen = true ->
  YieldsD (Distinct f seen i1) v j dp2 dt2 -> YieldsD (Distinct f seen i) v j (dp1 + dp2) (dt1 + dcost f + dt2).
Proof.
  intros H Hh M H2 s. destruct (yields_at _ _ _ _ _ H s) as [f1 F1].
  destruct f as [g|]; cbn [dkey dcost] in *.
  - destruct (yields_at _ _ _ _ _ H2 (tick (plus_st s dp1 dt1))) as [f2 F2].
    exists (S (Nat.max f1 f2)). cbn [next]. rewrite F1 by lia. rewrite Hh, M. cbn [negb]. rewrite F2 by lia.
    rewrite tick_plus, plus_st_plus. reflexivity.
  - destruct (yields_at _ _ _ _ _ H2 (plus_st s dp1 dt1)) as [f2 F2].
    exists (S (Nat.max f1 f2)). cbn [next]. rewrite F1 by lia. rewrite Hh, M. cbn [negb]. rewrite F2 by lia.
    rewrite plus_st_plus. f_equal. apply plus_st_eq; lia.
Qed.

Lemma distinct_seen_end f seen i x i1 dp1 dt1 dp2 dt2 :
  YieldsD i x i1 dp1 dt1 -> hashable (dkey f x) = true -> vmem (dkey f x) seen = true ->
  EndsD (Distinct f seen i1) dp2 dt2 -> EndsD (Distinct f seen i) (dp1 + dp2) (dt1 + dcost f + dt2).
Proof.
  intros H Hh M H2 s. destruct (yields_at _ _ _ _ _ H s) as [f1 F1].
  destruct f as [g|]; cbn [dkey dcost] in *.
  - destruct (ends_at _ _ _ H2 (tick (plus_st s dp1 dt1))) as [f2 F2].
    exists (S (Nat.max f1 f2)). cbn [next]. rewrite F1 by lia. rewrite Hh, M. cbn [negb]. rewrite F2 by lia.
    rewrite tick_plus, plus_st_plus. reflexivity.
  - destruct (ends_at _ _ _ H2 (plus_st s dp1 dt1)) as [f2 F2].
    exists (S (Nat.max f1 f2)). cbn [next]. rewrite F1 by lia. rewrite Hh, M. cbn [negb]. rewrite F2 by lia.
    rewrite plus_st_plus. f_equal. apply plus_st_eq; lia.
Qed.

(* provided every key is hashable (otherwise both sides raise TypeError) *)
Lemma denotes_distinct f l : forall seen i, Denotes i l -> forallb (fun x => hashable (dkey f x)) l = true ->
  Denotes (Distinct f seen i) (distinct_from val_eqb (dkey f) seen l).
Proof.
  induction l as [|x r IH]; intros seen i D Hh; cbn [distinct_from].
  - destruct (denotes_inv_nil _ D) as (a & b & E). apply (denotes_nil _ _ _ (distinct_ends f seen _ _ _ E)).
  - destruct (denotes_inv_cons _ _ _ D) as (j & a & b & Y & D1). cbn [forallb] in Hh. apply andb_true_iff in Hh as [Hx Hr].
    rewrite <- vmem_kmem. destruct (vmem (dkey f x) seen) eqn:M.
    + apply (denotes_via_skip _ _ a (b + dcost f) _
               (fun v k p q Y2 => distinct_seen_yield f seen _ _ _ _ _ _ _ _ _ Y Hx M Y2)
               (fun p q E2 => distinct_seen_end f seen _ _ _ _ _ _ _ Y Hx M E2) (IH seen j D1 Hr)).
    + apply (denotes_cons _ _ _ _ _ _ (distinct_new f seen _ _ _ _ _ Y Hx M) (IH (dkey f x :: seen) j D1 Hr)).
Qed.

(* ---- accumulate without a seed, on a non-empty source -------------------------------------------- *)
Lemma denotes_accrun f l : forall tot i, Denotes i l -> Denotes (AccRun f tot i) (accumulate_from (apply2 f) tot l).
Proof.
  intros tot i (dp & dt & i' & dp' & dt' & HS & E).
  exists dp, (dt + length l), (AccRun f (fold_left (apply2 f) l tot) i'), dp', dt'.
  split; [apply accrun_steps; exact HS | apply accrun_ends; exact E].
Qed.

Lemma denotes_accumulate_noseed f x r i : Denotes i (x :: r) ->
  Denotes (AccStart f None i) (accumulate_seed (apply2 f) x r).
Proof.
  intro D. destruct (denotes_inv_cons _ _ _ D) as (j & a & b & Y & D1). unfold accumulate_seed.
  apply (denotes_cons _ _ _ _ _ _ (accstart_noseed f _ _ _ _ _ Y) (denotes_accrun f r x j D1)).
Qed.

(* ---- pipelines over the larger operator set -------------------------------------------------------- *)
Inductive yop :=
| YBase (o : sop)
| YAppend (vs : list val)
| YAccumulate (f : lam2) (seed : val)
| YDelete (pos cnt : Z)
| YReplace (pos : Z) (vals : list val) (cnt : Z)
| YInsert (pos : Z) (v : val)
| YSelectMany (f : lam).

Definition ybuild (o : yop) (i : it) : it :=
  match o with
  | YBase b => build b i
  | YAppend vs => Chain i (OfList vs)
  | YAccumulate f sd => AccStart f (Some sd) i
  | YDelete pos cnt => DeleteAt pos cnt 0 i
  | YReplace pos vals cnt => ReplaceAt pos cnt vals false 0 i
  | YInsert pos v => InsertAt pos v 0 i
  | YSelectMany f => SelectMany f i
  end.

(* the list semantics of Model/Queries.v *)
Definition ylist (o : yop) (l : list val) : list val :=
  match o with
  | YBase b => outs b l
  | YAppend vs => l ++ vs
  | YAccumulate f sd => accumulate_seed (apply2 f) sd l
  | YDelete pos cnt => delete_l l pos cnt
  | YReplace pos vals cnt => replace_many_l l pos vals cnt
  | YInsert pos v => iter_insert_l l pos v
  | YSelectMany f => flat_map (expand f) l
  end.

Fixpoint ybuild_all (ops : list yop) (i : it) : it :=
  match ops with [] => i | o :: r => ybuild_all r (ybuild o i) end.
Fixpoint ylist_all (ops : list yop) (l : list val) : list val :=
  match ops with [] => l | o :: r => ylist_all r (ylist o l) end.

Lemma yop_denotes o i l : Denotes i l -> Denotes (ybuild o i) (ylist o l).
Proof.
  intro D. destruct o; cbn [ybuild ylist].
  - apply (pipeline_denotes [o] i l D).
  - apply denotes_chain; [exact D | apply oflist_denotes].
  - apply denotes_accumulate_seed. exact D.
  - apply denotes_delete. exact D.
  - apply denotes_replace. exact D.
  - apply denotes_insert. exact D.
  - apply denotes_select_many. exact D.
Qed.

Theorem ypipeline_denotes ops : forall i l, Denotes i l -> Denotes (ybuild_all ops i) (ylist_all ops l).
Proof.
  induction ops as [|o r IH]; intros i l D; [exact D|]. cbn [ybuild_all ylist_all]. apply IH. apply yop_denotes. exact D.
Qed.

(* ---- selectMany whose selector returns a LAZY group -------------------------------------
   the group is an iterator of its own; selectMany takes one element from its source,
   applies the selector once and then hands the group's elements on one at a time: its
   demand on the group is exactly what the consumer takes *)
Lemma selectmanyg_ends g i dp dt : EndsD i dp dt -> EndsD (SelectManyG g i) dp dt.
Proof. intros H s. destruct (H s) as [fu E]. exists (S fu). cbn [next]. rewrite E. reflexivity. Qed.

Lemma selectmanyg_yield g i x i1 dp1 dt1 v j dp2 dt2 :
  YieldsD i x i1 dp1 dt1 -> YieldsD (Chain (gsel_it g x) (SelectManyG g i1)) v j dp2 dt2 ->
  YieldsD (SelectManyG g i) v j (dp1 + dp2) (dt1 + 1 + dt2).
Proof.
  intros H H2 s. destruct (yields_at _ _ _ _ _ H s) as [f1 F1].
  destruct (yields_at _ _ _ _ _ H2 (tick (plus_st s dp1 dt1))) as [f2 F2].
  exists (S (Nat.max f1 f2)). cbn [next]. rewrite F1 by lia. rewrite F2 by lia.
  rewrite tick_plus, plus_st_plus. reflexivity.
Qed.

Theorem selectmanyg_lazy g i x i1 dp1 dt1 l gi dp2 dt2 : l <> [] ->
  YieldsD i x i1 dp1 dt1 -> StepsD (gsel_it g x) l dp2 dt2 gi ->
  StepsD (SelectManyG g i) l (dp1 + dp2) (dt1 + 1 + dt2) (Chain gi (SelectManyG g i1)).
Proof.
  intros NE H HS. destruct l as [|v r]; [congruence|].
  destruct HS as (g1 & a & b & c & d & Y & R & -> & ->).
  pose proof (selectmanyg_yield g i x i1 dp1 dt1 v _ a b H (chain_yields _ (SelectManyG g i1) _ _ _ _ Y)) as Y1.
  pose proof (chain_steps (SelectManyG g i1) r _ _ _ _ R) as R1.
  cbn. exists (Chain g1 (SelectManyG g i1)), (dp1 + a), (dt1 + 1 + b), c, d. repeat split; try assumption; lia.
Qed.

(* a group that is a second instrumented source: the first n results cost one element of the outer
   source, one application of the selector and exactly n elements of the group *)
Corollary selectmanyg_host k2 i x i1 dp1 dt1 n : n <> 0 -> YieldsD i x i1 dp1 dt1 ->
  StepsD (SelectManyG (GHost k2) i) (src_prefix k2 n) (dp1 + n) (dt1 + 1 + 0)
         (Chain (Src (k2 + Z.of_nat n)) (SelectManyG (GHost k2) i1)).
Proof.
  intros NZ H. apply (selectmanyg_lazy _ _ x); [|exact H|].
  - intro E. apply (f_equal (@length val)) in E. rewrite src_prefix_length in E. cbn in E. congruence.
  - cbn [gsel_it]. apply src_steps.
Qed.

(* ---- groupBy's aggregator protocol ------------------------------------------------------ *)
Definition g_succeeds (a : gagg) (g : val * list val) : Prop := exists r, gapply a (VList false (snd g)) = Ok r.
Definition g_entry (a : gagg) (g : val * list val) : val :=
  VList false [fst g; match gapply a (VList false (snd g)) with Ok r => r | _ => VNull end].

(* an aggregator that works on every value list: entry [key, aggregator(values)] per group, the fallback never matters *)
Lemma gagg_new_style a : forall gs allow, Forall (g_succeeds a) gs ->
  gagg_run a gs None allow = Some (map (g_entry a) gs, None).
Proof.
  induction gs as [|[k vs] rest IH]; intros allow F; [reflexivity|].
  inversion F as [|? ? [r R] F']; subst. cbn [gagg_run snd] in *. rewrite R.
  rewrite (IH _ F'). cbn [map]. unfold g_entry at 2. cbn [fst snd]. rewrite R. reflexivity.
Qed.

Lemma looks_legacy_two r vs : length vs <> 2 -> looks_legacy r vs = false.
Proof.
  intros N. destruct vs as [|x [|y [|z t]]]; cbn in *; try congruence;
    destruct r as [| | |m [|r0 [|r1 [|r2 t2]]]| |]; reflexivity.
Qed.

(* a successful call on a group that does not have exactly two values ends the old-style fallback for good *)
Lemma gagg_flag_cleared a k vs rest allow r : gapply a (VList false vs) = Ok r -> length vs <> 2 ->
  gagg_run a ((k, vs) :: rest) None allow = gagg_run a ((k, vs) :: rest) None false.
Proof.
  intros R N. cbn [gagg_run]. rewrite R. rewrite (looks_legacy_two r vs N), andb_false_r. reflexivity.
Qed.

(* without the fallback: the entries of the groups before the first failing one, then that failure *)
Lemma gagg_no_fallback a : forall gs1 k vs rest f, Forall (g_succeeds a) gs1 ->
  gapply a (VList false vs) = Err f ->
  gagg_run a (gs1 ++ (k, vs) :: rest) None false = Some (map (g_entry a) gs1, Some f).
Proof.
  induction gs1 as [|[k1 v1] r1 IH]; intros k vs rest f F E.
  - cbn [app gagg_run map]. rewrite E. destruct (g_caught f); reflexivity.
  - inversion F as [|? ? [r R] F']; subst. cbn [app gagg_run snd] in *. rewrite R. cbn [andb].
    rewrite (IH _ _ _ _ F' E). cbn [map]. unfold g_entry at 2. cbn [fst snd]. rewrite R. reflexivity.
Qed.

(* once a failure is recorded, the only error that can end the sequence is that FIRST failure *)
Lemma gagg_first_failure a f : forall gs allow o e, gagg_run a gs (Some f) allow = Some (o, Some e) -> e = f.
Proof.
  induction gs as [|[k vs] rest IH]; intros allow o e H; cbn [gagg_run] in H; [congruence|].
  destruct allow; [|congruence].
  destruct (gapply a (VList false [k; VList false vs])) as [r| | |]; try congruence.
  destruct (sized2 r); [|congruence].
  destruct (gagg_run a rest (Some f) true) as [[o1 e1]|] eqn:G; [|congruence].
  inversion H; subst. exact (IH _ _ _ G).
Qed.

(* ---- collection.name = the map of the context's member access ----------------------------- *)
Definition access_val (acc : access) (name : list Z) (x : val) : val :=
  match access_elem acc name x with Ok v => v | _ => VNull end.

(* every element accepts the access: the result is the map of the element access, whatever the context's `.` is *)
Lemma access_all_map acc name : forall l, Forall (fun x => exists v, access_elem acc name x = Ok v) l ->
  access_all acc name l = Some (map (access_val acc name) l, None).
Proof.
  induction l as [|x r IH]; intros F; [reflexivity|].
  inversion F as [|? ? [v E] F']; subst. cbn [access_all map]. rewrite E, (IH F').
  unfold access_val at 2. rewrite E. reflexivity.
Qed.

(* the first element that refuses it ends the sequence with ITS error, after the results of the earlier elements *)
Lemma access_all_error acc name : forall l1 x r e, Forall (fun y => exists v, access_elem acc name y = Ok v) l1 ->
  access_elem acc name x = Err e -> access_all acc name (l1 ++ x :: r) = Some (map (access_val acc name) l1, Some e).
Proof.
  induction l1 as [|y t IH]; intros x r e F E.
  - cbn [app access_all map]. rewrite E. reflexivity.
  - inversion F as [|? ? [v Ey] F']; subst. cbn [app access_all map]. rewrite Ey, (IH _ _ _ F' E).
    unfold access_val at 2. rewrite Ey. reflexivity.
Qed.

(* a legacy context or a defaulting host access never fails on dict elements; the standard one fails exactly on a missing key *)
Lemma access_elem_cases name m d :
  (forall c, exists v, access_elem (AccHost c) name (VDict m d) = Ok v) /\
  (exists v, access_elem AccLegacy name (VDict m d) = Ok v) /\
  (dict_get_l (VStr name) d = None -> access_elem AccStd name (VDict m d) = Err EKey) /\
  (forall v acc, dict_get_l (VStr name) d = Some v -> access_elem acc name (VDict m d) = Ok v).
Proof.
  cbn [access_elem]. destruct (dict_get_l (VStr name) d) as [v|]; repeat split; intros; try congruence; eauto.
Qed.
