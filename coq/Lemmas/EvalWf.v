(* Well-scopedness invariant of the reference interpreter: every context id that occurs anywhere
   (current context, parents, captured contexts of closures and lazy stages, context values) refers
   to an already allocated context, and parents are strictly older than their children.
   Consequence (lookup_stable): a lookup from a context that exists is unaffected by anything that is
   allocated later - closures keep their defining scope, inner bindings never leak. *)
From Coq Require Import List ZArith Bool Arith Lia.
From YV Require Import Common.Corr Model.Eval Lemmas.EvalFrame.
Import ListNotations.

Definition lop_ok (n : nat) (o : lop) : Prop :=
  match o with LMap _ cap | LFilter _ cap => cap < n | LAttr _ => True end.

Fixpoint vok (n : nat) (v : val) : Prop :=
  match v with
  | VCtx c => c < n
  | VList l => (fix go (l : list val) : Prop := match l with [] => True | x :: r => vok n x /\ go r end) l
  | VDict kvs => (fix go (l : list (val * val)) : Prop :=
                    match l with [] => True | (k, x) :: r => vok n k /\ vok n x /\ go r end) kvs
  | VIter src ops => (fix go (l : list val) : Prop := match l with [] => True | x :: r => vok n x /\ go r end) src
                     /\ Forall (lop_ok n) ops
  | _ => True
  end.

Lemma vok_list n l : vok n (VList l) <-> Forall (vok n) l.
Proof.
  cbn [vok]. induction l as [|x l IH]; split; intro H; auto.
  - destruct H as [H1 H2]. constructor; [exact H1|now apply IH].
  - inversion H; subst. split; [assumption|now apply IH].
Qed.

Lemma vok_iter n src ops : vok n (VIter src ops) <-> Forall (vok n) src /\ Forall (lop_ok n) ops.
Proof.
  cbn [vok]. split; intros [H1 H2]; (split; [|exact H2]).
  - induction src as [|x l IH]; [constructor|]. destruct H1 as [Ha Hb]. constructor; [exact Ha|exact (IH Hb)].
  - induction src as [|x l IH]; [exact I|]. inversion H1 as [|? ? Ha Hb]; subst. split; [exact Ha|exact (IH Hb)].
Qed.

Lemma vok_dict n kvs : vok n (VDict kvs) <-> Forall (fun kv => vok n (fst kv) /\ vok n (snd kv)) kvs.
Proof.
  cbn [vok]. induction kvs as [|[k x] l IH]; split; intro H; auto.
  - destruct H as (H1 & H2 & H3). constructor; [split; assumption|now apply IH].
  - inversion H as [|? ? [Ha Hb] Hc]; subst. cbn in Ha, Hb. split; [|split]; try assumption. now apply IH.
Qed.

Lemma lop_ok_mono n m o : n <= m -> lop_ok n o -> lop_ok m o.
Proof. destruct o; cbn; intros; try lia; auto. Qed.

Lemma vok_mono n m : n <= m -> forall v, vok n v -> vok m v.
Proof.
  intro Hle. fix IH 1. intros v H. destruct v; try exact I.
  - apply vok_list. apply vok_list in H. induction l as [|x l IHl]; [constructor|].
    inversion H; subst. constructor; [now apply IH|now apply IHl].
  - apply vok_dict. apply vok_dict in H. induction kvs as [|[k x] l IHl]; [constructor|].
    inversion H as [|? ? [Ha Hb] Hc]; subst. constructor; [split; now apply IH|now apply IHl].
  - cbn in *. lia.
  - apply vok_iter. apply vok_iter in H. destruct H as [H1 H2]. split.
    + induction src as [|x l IHl]; [constructor|]. inversion H1; subst. constructor; [now apply IH|now apply IHl].
    + eapply Forall_impl; [|exact H2]. intros o. now apply lop_ok_mono.
Qed.

Definition rec_ok (n i : nat) (r : ctxrec) : Prop :=
  (forall p, cparent r = Some p -> p < i)
  /\ Forall (fun kv => vok n (snd kv)) (cdata r)
  /\ Forall (fun f => snd (snd f) <= i) (cfuncs r).

Definition hok (h : list ctxrec) : Prop :=
  forall i r, nth_error h i = Some r -> rec_ok (length h) i r.

Lemma rec_ok_mono n m i r : n <= m -> rec_ok n i r -> rec_ok m i r.
Proof.
  intros Hle (H1 & H2 & H3). split; [exact H1|split; [|exact H3]].
  eapply Forall_impl; [|exact H2]. intros kv. now apply vok_mono.
Qed.

Lemma hok_alloc h r :
  hok h -> rec_ok (S (length h)) (length h) r -> hok (h ++ [r]).
Proof.
  intros Hh Hr i r0 Hn. rewrite app_length. cbn [length]. rewrite Nat.add_1_r.
  destruct (Nat.lt_ge_cases i (length h)) as [Hi|Hi].
  - rewrite nth_error_app1 in Hn by exact Hi. apply (rec_ok_mono (length h)); [lia|now apply Hh].
  - rewrite nth_error_app2 in Hn by exact Hi.
    destruct (i - length h) as [|k] eqn:E; cbn in Hn.
    + injection Hn as <-. assert (i = length h) by lia. subst i. exact Hr.
    + destruct k; discriminate.
Qed.

(* ---- lookups return well-scoped values ---- *)
Lemma assoc_in {A} (l : list (str * A)) k v : assoc l k = Some v -> exists k', In (k', v) l.
Proof.
  induction l as [|[k' v'] l IH]; cbn; [discriminate|].
  destruct (str_eqb k k'); intro H.
  - injection H as <-. exists k'. now left.
  - destruct (IH H) as [k2 Hin]. exists k2. now right.
Qed.

Lemma assoc_last_in {A} (l : list (str * A)) k v : assoc_last l k = Some v -> exists k', In (k', v) l.
Proof. unfold assoc_last. intro H. apply assoc_in in H as [k' Hin]. exists k'. now apply in_rev. Qed.

Lemma get_data_ok fuel : forall h c n, hok h -> vok (length h) (get_data fuel h c n).
Proof.
  induction fuel as [|f IH]; intros h c n Hh; [exact I|].
  cbn [get_data]. destruct (nth_error h c) as [r|] eqn:E; [|exact I].
  destruct (assoc_last (cdata r) n) as [v|] eqn:A.
  - apply assoc_last_in in A as [k' Hin]. destruct (Hh c r E) as (_ & Hd & _).
    rewrite Forall_forall in Hd. exact (Hd (k', v) Hin).
  - destruct (cparent r); [now apply IH|exact I].
Qed.

Lemma lookup_ok h c n : hok h -> vok (length h) (lookup h c n).
Proof. apply get_data_ok. Qed.

Lemma get_func_ok fuel : forall h c n body cap, hok h -> get_func fuel h c n = Some (body, cap) -> cap < length h.
Proof.
  induction fuel as [|f IH]; intros h c n body cap Hh H; [discriminate|].
  cbn [get_func] in H. destruct (nth_error h c) as [r|] eqn:E; [|discriminate].
  destruct (assoc_last (cfuncs r) n) as [v|] eqn:A.
  - injection H as ->. apply assoc_last_in in A as [k' Hin]. destruct (Hh c r E) as (_ & _ & Hf).
    rewrite Forall_forall in Hf. specialize (Hf _ Hin). cbn in Hf.
    assert (c < length h) by (apply nth_error_Some; congruence). lia.
  - destruct (cparent r); [now apply (IH h n0 n body cap)|discriminate].
Qed.

(* ---- lookups from an existing context are blind to later allocations ---- *)
Lemma get_data_stable h e : hok h -> forall fuel c n, c < length h ->
  get_data fuel (h ++ e) c n = get_data fuel h c n.
Proof.
  intros Hh. induction fuel as [|f IH]; intros c n Hc; [reflexivity|].
  cbn [get_data]. rewrite nth_error_app1 by exact Hc.
  destruct (nth_error h c) as [r|] eqn:E; [|reflexivity].
  destruct (assoc_last (cdata r) n); [reflexivity|].
  destruct (cparent r) as [p|] eqn:P; [|reflexivity].
  apply IH. destruct (Hh c r E) as (Hp & _). specialize (Hp p P). lia.
Qed.

Lemma get_data_fuel h : hok h -> forall fuel c n, c < fuel ->
  get_data fuel h c n = get_data (S c) h c n.
Proof.
  intros Hh fuel. induction fuel as [fuel IH] using lt_wf_ind. intros c n Hc.
  destruct fuel as [|f]; [lia|].
  cbn [get_data]. destruct (nth_error h c) as [r|] eqn:E; [|reflexivity].
  destruct (assoc_last (cdata r) n); [reflexivity|].
  destruct (cparent r) as [p|] eqn:P; [|reflexivity].
  destruct (Hh c r E) as (Hp & _). specialize (Hp p P).
  rewrite (IH f ltac:(lia) p n ltac:(lia)).
  destruct (Nat.eq_dec c f) as [->|Hne]; [now rewrite (IH f ltac:(lia) p n ltac:(lia))|].
  symmetry. apply (IH c ltac:(lia) p n Hp).
Qed.

Lemma lookup_stable h e c n : hok h -> c < length h -> lookup (h ++ e) c n = lookup h c n.
Proof.
  intros Hh Hc. unfold lookup.
  rewrite get_data_stable by assumption.
  rewrite (get_data_fuel h Hh (S (length (h ++ e))) c) by (rewrite app_length; lia).
  rewrite (get_data_fuel h Hh (S (length h)) c) by lia. reflexivity.
Qed.

(* ------------------------------------------------------------------------------------------ *)
(* Preservation of the invariant by evaluation.                                                *)

Lemma ext_len s s' : ext s s' -> length (heap s) <= length (heap s').
Proof. intros (h & l & Hh & _). rewrite Hh, app_length. lia. Qed.

Definition ev_wf (ev : st -> nat -> expr -> st * res val) : Prop :=
  forall s c e s' r, ev s c e = (s', r) -> hok (heap s) -> c < length (heap s) ->
    hok (heap s') /\ (forall v, r = Ok v -> vok (length (heap s')) v).

Lemma number_from_ok n l : forall i, Forall (vok n) l -> Forall (fun kv => vok n (snd kv)) (number_from i l).
Proof. induction l as [|v l IH]; intros i H; cbn; [constructor|]. inversion H; subst. constructor; auto. Qed.

Lemma combine_ok n (ns : list str) l : Forall (vok n) l -> Forall (fun kv => vok n (snd kv)) (combine ns l).
Proof.
  revert l. induction ns as [|k ns IH]; intros l H; cbn; [constructor|].
  destruct l as [|v l]; [constructor|]. inversion H; subst. constructor; auto.
Qed.

Lemma Forall_vok_mono n m l : n <= m -> Forall (vok n) l -> Forall (vok m) l.
Proof. intros Hle H. eapply Forall_impl; [|exact H]. intro v. now apply vok_mono. Qed.

Lemma Forall_lop_mono n m l : n <= m -> Forall (lop_ok n) l -> Forall (lop_ok m) l.
Proof. intros Hle H. eapply Forall_impl; [|exact H]. intro v. now apply lop_ok_mono. Qed.

Lemma Forall_snd_mono n m (l : list (str * val)) : n <= m ->
  Forall (fun kv => vok n (snd kv)) l -> Forall (fun kv => vok m (snd kv)) l.
Proof. intros Hle H. eapply Forall_impl; [|exact H]. intro v. now apply vok_mono. Qed.

Lemma dict_get_ok n l k v : vok n (VDict l) -> dict_get l k = Some v -> vok n v.
Proof.
  intro H. apply vok_dict in H. induction l as [|[k' x] l IH]; cbn; [discriminate|].
  inversion H as [|? ? [Ha Hb] Hc]; subst. destruct (key_eqb k k').
  - intro E. injection E as <-. exact Hb.
  - now apply IH.
Qed.

Lemma dict_set_ok n l k v : vok n (VDict l) -> vok n k -> vok n v -> vok n (VDict (dict_set l k v)).
Proof.
  intros H Hk Hv. apply vok_dict. apply vok_dict in H.
  induction l as [|[k' x] l IH]; cbn.
  - constructor; [split; assumption|constructor].
  - inversion H as [|? ? [Ha Hb] Hc]; subst. destruct (key_eqb k k').
    + constructor; [split; assumption|assumption].
    + constructor; [split; assumption|now apply IH].
Qed.

Lemma dot_kw_ok n v k y : vok n v -> dot_kw v k = Ok y -> vok n y.
Proof.
  intros Hv H. destruct v as [|b|z|s0|l|kvs|c|src ops]; cbn in H; try discriminate.
  - injection H as <-. apply vok_iter. apply vok_list in Hv. split; [exact Hv|]. repeat constructor.
  - destruct (dict_get kvs (VStr k)) eqn:E; [|discriminate]. injection H as <-. eapply dict_get_ok; eassumption.
  - injection H as <-. apply vok_iter in Hv as [H1 H2]. apply vok_iter. split; [exact H1|].
    apply Forall_app. split; [exact H2|]. repeat constructor.
Qed.

Lemma as_seq_ok n v src ops : vok n v -> as_seq v = Some (src, ops) -> Forall (vok n) src /\ Forall (lop_ok n) ops.
Proof.
  intros Hv H. destruct v as [|b|z|s0|l|kvs|c|src0 ops0]; cbn in H; try discriminate; injection H as <- <-.
  - apply vok_list in Hv. split; [exact Hv|constructor].
  - now apply vok_iter in Hv.
Qed.

Lemma hok_alloc_child s c data funcs :
  hok (heap s) -> c < length (heap s) ->
  Forall (fun kv => vok (length (heap s)) (snd kv)) data ->
  Forall (fun f => snd (snd f) <= length (heap s)) funcs ->
  hok (heap s ++ [{| cparent := Some c; cdata := data; cfuncs := funcs |}]).
Proof.
  intros Hh Hc Hd Hf. apply hok_alloc; [exact Hh|]. split; [|split]; cbn.
  - intros p E. injection E as <-. exact Hc.
  - eapply Forall_snd_mono; [|exact Hd]. lia.
  - exact Hf.
Qed.

Section Preserve.
  Variable ev : st -> nat -> expr -> st * res val.
  Hypothesis Hext : ev_ext ev.
  Hypothesis Hwf : ev_wf ev.

  Lemma invoke_wf s body cap pos kw s' r :
    invoke ev s body cap pos kw = (s', r) -> hok (heap s) -> cap < length (heap s) ->
    Forall (vok (length (heap s))) pos -> Forall (fun kv => vok (length (heap s)) (snd kv)) kw ->
    hok (heap s') /\ (forall v, r = Ok v -> vok (length (heap s')) v).
  Proof.
    unfold invoke, alloc. intros H Hh Hc Hp Hk.
    refine (Hwf _ _ _ _ _ H _ _).
    - cbn [heap]. apply hok_alloc_child; try assumption; [|constructor].
      apply Forall_app. split; [now apply number_from_ok|exact Hk].
    - cbn [heap]. rewrite app_length. cbn. lia.
  Qed.

  Lemma eval_seq_wf es : forall s c s' r, eval_seq ev s c es = (s', r) -> hok (heap s) -> c < length (heap s) ->
    hok (heap s') /\ (forall vs, r = Ok vs -> Forall (vok (length (heap s'))) vs).
  Proof.
    induction es as [|e es IH]; intros s c s' r H Hh Hc; cbn [eval_seq] in H.
    - inversion H; subst. split; [exact Hh|]. intros vs E. injection E as <-. constructor.
    - destruct (ev s c e) as [s1 r1] eqn:E1. pose proof (ext_len _ _ (Hext _ _ _ _ _ E1)) as L1.
      destruct (Hwf _ _ _ _ _ E1 Hh Hc) as [Hh1 Hv1].
      destruct r1 as [v| | |]; try (inversion H; subst; split; [exact Hh1|discriminate]).
      destruct (eval_seq ev s1 c es) as [s2 r2] eqn:E2.
      pose proof (ext_len _ _ (eval_seq_ext _ Hext _ _ _ _ _ E2)) as L2.
      destruct (IH _ _ _ _ E2 Hh1 ltac:(lia)) as [Hh2 Hv2].
      destruct r2 as [vs| | |]; inversion H; subst; (split; [exact Hh2|]); try discriminate.
      intros ws E. injection E as <-. constructor; [|now apply Hv2].
      eapply vok_mono; [exact L2|now apply Hv1].
  Qed.

  Lemma eval_kw_wf kw : forall s c s' r, eval_kw ev s c kw = (s', r) -> hok (heap s) -> c < length (heap s) ->
    hok (heap s') /\ (forall vs, r = Ok vs -> Forall (fun kv => vok (length (heap s')) (snd kv)) vs).
  Proof.
    induction kw as [|[k e] kw IH]; intros s c s' r H Hh Hc; cbn [eval_kw] in H.
    - inversion H; subst. split; [exact Hh|]. intros vs E. injection E as <-. constructor.
    - destruct (ev s c e) as [s1 r1] eqn:E1. pose proof (ext_len _ _ (Hext _ _ _ _ _ E1)) as L1.
      destruct (Hwf _ _ _ _ _ E1 Hh Hc) as [Hh1 Hv1].
      destruct r1 as [v| | |]; try (inversion H; subst; split; [exact Hh1|discriminate]).
      destruct (eval_kw ev s1 c kw) as [s2 r2] eqn:E2.
      pose proof (ext_len _ _ (eval_kw_ext _ Hext _ _ _ _ _ E2)) as L2.
      destruct (IH _ _ _ _ E2 Hh1 ltac:(lia)) as [Hh2 Hv2].
      destruct r2 as [vs| | |]; inversion H; subst; (split; [exact Hh2|]); try discriminate.
      intros ws E. injection E as <-. constructor; [|now apply Hv2].
      cbn. eapply vok_mono; [exact L2|now apply Hv1].
  Qed.

  Lemma eval_map_wf kvs : forall s c acc s' r, eval_map ev s c kvs acc = (s', r) ->
    hok (heap s) -> c < length (heap s) -> vok (length (heap s)) (VDict acc) ->
    hok (heap s') /\ (forall v, r = Ok v -> vok (length (heap s')) v).
  Proof.
    induction kvs as [|[ke ve] kvs IH]; intros s c acc s' r H Hh Hc Ha; cbn [eval_map] in H.
    - inversion H; subst. split; [exact Hh|]. intros v E. injection E as <-. exact Ha.
    - destruct (ev s c ke) as [s1 r1] eqn:E1. pose proof (ext_len _ _ (Hext _ _ _ _ _ E1)) as L1.
      destruct (Hwf _ _ _ _ _ E1 Hh Hc) as [Hh1 Hv1].
      destruct r1 as [k| | |]; try (inversion H; subst; split; [exact Hh1|discriminate]).
      destruct (ev s1 c ve) as [s2 r2] eqn:E2. pose proof (ext_len _ _ (Hext _ _ _ _ _ E2)) as L2.
      destruct (Hwf _ _ _ _ _ E2 Hh1 ltac:(lia)) as [Hh2 Hv2].
      destruct r2 as [v| | |]; try (inversion H; subst; split; [exact Hh2|discriminate]).
      destruct (is_key k); [|inversion H; subst; split; [exact Hh2|discriminate]].
      apply (IH _ _ _ _ _ H Hh2 ltac:(lia)).
      apply dict_set_ok.
      + eapply vok_mono; [|exact Ha]. lia.
      + eapply vok_mono; [exact L2|now apply Hv1].
      + now apply Hv2.
  Qed.

  Lemma eval_switch_wf cs : forall s c s' r, eval_switch ev s c cs = (s', r) -> hok (heap s) -> c < length (heap s) ->
    hok (heap s') /\ (forall v, r = Ok v -> vok (length (heap s')) v).
  Proof.
    induction cs as [|[ce ve] cs IH]; intros s c s' r H Hh Hc; cbn [eval_switch] in H.
    - inversion H; subst. split; [exact Hh|]. intros v E. injection E as <-. exact I.
    - destruct (ev s c ce) as [s1 r1] eqn:E1. pose proof (ext_len _ _ (Hext _ _ _ _ _ E1)) as L1.
      destruct (Hwf _ _ _ _ _ E1 Hh Hc) as [Hh1 Hv1].
      destruct r1 as [cv| | |]; try (inversion H; subst; split; [exact Hh1|discriminate]).
      destruct (truthy cv) as [[|]| | |]; try (inversion H; subst; split; [exact Hh1|discriminate]).
      + apply (Hwf _ _ _ _ _ H Hh1). lia.
      + apply (IH _ _ _ _ H Hh1). lia.
  Qed.

  Lemma eval_coalesce_wf es : forall s c s' r, eval_coalesce ev s c es = (s', r) -> hok (heap s) -> c < length (heap s) ->
    hok (heap s') /\ (forall v, r = Ok v -> vok (length (heap s')) v).
  Proof.
    induction es as [|e es IH]; intros s c s' r H Hh Hc; cbn [eval_coalesce] in H.
    - inversion H; subst. split; [exact Hh|]. intros v E. injection E as <-. exact I.
    - destruct (ev s c e) as [s1 r1] eqn:E1. pose proof (ext_len _ _ (Hext _ _ _ _ _ E1)) as L1.
      destruct (Hwf _ _ _ _ _ E1 Hh Hc) as [Hh1 Hv1].
      destruct r1 as [v| | |]; try (inversion H; subst; split; [exact Hh1|discriminate]).
      destruct v; try (inversion H; subst; split; [exact Hh1|]; intros w E; injection E as <-; now apply Hv1).
      apply (IH _ _ _ _ H Hh1). lia.
  Qed.

  Lemma eval_select_case_wf es : forall s c i s' r, eval_select_case ev s c es i = (s', r) ->
    hok (heap s) -> c < length (heap s) ->
    hok (heap s') /\ (forall v, r = Ok v -> vok (length (heap s')) v).
  Proof.
    induction es as [|e es IH]; intros s c i s' r H Hh Hc; cbn [eval_select_case] in H.
    - inversion H; subst. split; [exact Hh|]. intros v E. injection E as <-. exact I.
    - destruct (ev s c e) as [s1 r1] eqn:E1. pose proof (ext_len _ _ (Hext _ _ _ _ _ E1)) as L1.
      destruct (Hwf _ _ _ _ _ E1 Hh Hc) as [Hh1 Hv1].
      destruct r1 as [v| | |]; try (inversion H; subst; split; [exact Hh1|discriminate]).
      destruct (truthy v) as [[|]| | |]; try (inversion H; subst; split; [exact Hh1|]; try discriminate).
      + intros w E. injection E as <-. exact I.
      + apply (IH _ _ _ _ _ H Hh1). lia.
  Qed.

  Lemma through_wf ops : forall s x s' r, through ev s x ops = (s', r) ->
    hok (heap s) -> vok (length (heap s)) x -> Forall (lop_ok (length (heap s))) ops ->
    hok (heap s') /\ (forall y, r = Ok (Some y) -> vok (length (heap s')) y).
  Proof.
    induction ops as [|o ops IH]; intros s x s' r H Hh Hx Ho; cbn [through] in H.
    - inversion H; subst. split; [exact Hh|]. intros y E. injection E as <-. exact Hx.
    - inversion Ho as [|? ? Ho1 Ho2]; subst. destruct o as [body cap|body cap|k]; cbn in Ho1.
      + destruct (invoke ev s body cap [x] []) as [s1 r1] eqn:E1.
        pose proof (ext_len _ _ (invoke_ext _ Hext _ _ _ _ _ _ _ E1)) as L1.
        destruct (invoke_wf _ _ _ _ _ _ _ E1 Hh Ho1 ltac:(repeat constructor; assumption) ltac:(constructor)) as [Hh1 Hv1].
        destruct r1 as [y| | |]; try (inversion H; subst; split; [exact Hh1|discriminate]).
        apply (IH _ _ _ _ H Hh1); [now apply Hv1|]. eapply Forall_lop_mono; [exact L1|exact Ho2].
      + destruct (invoke ev s body cap [x] []) as [s1 r1] eqn:E1.
        pose proof (ext_len _ _ (invoke_ext _ Hext _ _ _ _ _ _ _ E1)) as L1.
        destruct (invoke_wf _ _ _ _ _ _ _ E1 Hh Ho1 ltac:(repeat constructor; assumption) ltac:(constructor)) as [Hh1 Hv1].
        destruct r1 as [y| | |]; try (inversion H; subst; split; [exact Hh1|discriminate]).
        destruct (truthy y) as [[|]| | |]; try (inversion H; subst; split; [exact Hh1|discriminate]).
        apply (IH _ _ _ _ H Hh1); [eapply vok_mono; [exact L1|exact Hx]|]. eapply Forall_lop_mono; [exact L1|exact Ho2].
      + destruct (dot_kw x k) as [y| | |] eqn:D; try (inversion H; subst; split; [exact Hh|discriminate]).
        apply (IH _ _ _ _ H Hh); [eapply dot_kw_ok; eassumption|exact Ho2].
  Qed.

  Lemma force_wf src : forall s ops s' r, force ev s src ops = (s', r) ->
    hok (heap s) -> Forall (vok (length (heap s))) src -> Forall (lop_ok (length (heap s))) ops ->
    hok (heap s') /\ (forall ys, r = Ok ys -> Forall (vok (length (heap s'))) ys).
  Proof.
    induction src as [|x src IH]; intros s ops s' r H Hh Hs Ho; cbn [force] in H.
    - inversion H; subst. split; [exact Hh|]. intros ys E. injection E as <-. constructor.
    - inversion Hs as [|? ? Hx Hs']; subst.
      destruct (through ev s x ops) as [s1 r1] eqn:E1.
      pose proof (ext_len _ _ (through_ext _ Hext _ _ _ _ _ E1)) as L1.
      destruct (through_wf _ _ _ _ _ E1 Hh Hx Ho) as [Hh1 Hv1].
      destruct r1 as [o| | |]; try (inversion H; subst; split; [exact Hh1|discriminate]).
      destruct (force ev s1 src ops) as [s2 r2] eqn:E2.
      pose proof (ext_len _ _ (force_ext _ Hext _ _ _ _ _ E2)) as L2.
      destruct (IH _ _ _ _ E2 Hh1 ltac:(eapply Forall_vok_mono; eassumption) ltac:(eapply Forall_lop_mono; eassumption)) as [Hh2 Hv2].
      destruct r2 as [ys| | |]; inversion H; subst; (split; [exact Hh2|]); try discriminate.
      intros zs E. injection E as <-. destruct o as [y|]; [|now apply Hv2].
      constructor; [|now apply Hv2]. eapply vok_mono; [exact L2|now apply Hv1].
  Qed.

  Lemma force_first_wf src : forall s ops s' r, force_first ev s src ops = (s', r) ->
    hok (heap s) -> Forall (vok (length (heap s))) src -> Forall (lop_ok (length (heap s))) ops ->
    hok (heap s') /\ (forall y, r = Ok (Some y) -> vok (length (heap s')) y).
  Proof.
    induction src as [|x src IH]; intros s ops s' r H Hh Hs Ho; cbn [force_first] in H.
    - inversion H; subst. split; [exact Hh|discriminate].
    - inversion Hs as [|? ? Hx Hs']; subst.
      destruct (through ev s x ops) as [s1 r1] eqn:E1.
      pose proof (ext_len _ _ (through_ext _ Hext _ _ _ _ _ E1)) as L1.
      destruct (through_wf _ _ _ _ _ E1 Hh Hx Ho) as [Hh1 Hv1].
      destruct r1 as [[y|]| | |]; try (inversion H; subst; split; [exact Hh1|discriminate]).
      + inversion H; subst. split; [exact Hh1|]. intros z E. injection E as <-. now apply Hv1.
      + apply (IH _ _ _ _ H Hh1); [eapply Forall_vok_mono; eassumption|eapply Forall_lop_mono; eassumption].
  Qed.

  Lemma force_search_wf src : forall want s ops pred s' r, force_search ev want s src ops pred = (s', r) ->
    hok (heap s) -> Forall (vok (length (heap s))) src -> Forall (lop_ok (length (heap s))) ops ->
    (forall body cap, pred = Some (body, cap) -> cap < length (heap s)) ->
    hok (heap s').
  Proof.
    induction src as [|x src IH]; intros want s ops pred s' r H Hh Hs Ho Hp; cbn [force_search] in H.
    - inversion H; subst. exact Hh.
    - inversion Hs as [|? ? Hx Hs']; subst.
      destruct (through ev s x ops) as [s1 r1] eqn:E1.
      pose proof (ext_len _ _ (through_ext _ Hext _ _ _ _ _ E1)) as L1.
      destruct (through_wf _ _ _ _ _ E1 Hh Hx Ho) as [Hh1 Hv1].
      destruct r1 as [[y|]| | |]; try (inversion H; subst; exact Hh1).
      + destruct pred as [[body cap]|].
        * destruct (invoke ev s1 body cap [y] []) as [s2 r2] eqn:E2.
          pose proof (ext_len _ _ (invoke_ext _ Hext _ _ _ _ _ _ _ E2)) as L2.
          assert (Hc : cap < length (heap s1)) by (specialize (Hp body cap eq_refl); lia).
          destruct (invoke_wf _ _ _ _ _ _ _ E2 Hh1 Hc ltac:(repeat constructor; now apply Hv1) ltac:(constructor)) as [Hh2 _].
          destruct r2 as [p| | |]; try (inversion H; subst; exact Hh2).
          destruct (truthy p) as [b| | |]; try (inversion H; subst; exact Hh2).
          destruct (Bool.eqb b want); [inversion H; subst; exact Hh2|].
          apply (IH _ _ _ _ _ _ H Hh2).
          -- eapply Forall_vok_mono; [|exact Hs']. lia.
          -- eapply Forall_lop_mono; [|exact Ho]. lia.
          -- intros b0 c0 E. injection E as <- <-. lia.
        * destruct (if want then Ok true else truthy y) as [b| | |]; try (inversion H; subst; exact Hh1).
          destruct (Bool.eqb b want); [inversion H; subst; exact Hh1|].
          apply (IH _ _ _ _ _ _ H Hh1).
          -- eapply Forall_vok_mono; eassumption.
          -- eapply Forall_lop_mono; eassumption.
          -- discriminate.
      + apply (IH _ _ _ _ _ _ H Hh1).
        * eapply Forall_vok_mono; eassumption.
        * eapply Forall_lop_mono; eassumption.
        * intros b0 c0 E. specialize (Hp b0 c0 E). lia.
  Qed.
End Preserve.

Section Preserve2.
  Variable ev : st -> nat -> expr -> st * res val.
  Hypothesis Hext : ev_ext ev.
  Hypothesis Hwf : ev_wf ev.

  Lemma alloc_plain_ok s c :
    hok (heap s) -> c < length (heap s) ->
    hok (heap s ++ [{| cparent := Some c; cdata := []; cfuncs := [] |}]).
  Proof. intros Hh Hc. apply hok_alloc_child; try assumption; constructor. Qed.

  Lemma meth_wf s c rv name args s' r :
    meth ev s c rv name args = (s', r) -> hok (heap s) -> c < length (heap s) -> vok (length (heap s)) rv ->
    hok (heap s') /\ (forall v, r = Ok v -> vok (length (heap s')) v).
  Proof.
    unfold meth. intros H Hh Hc Hrv.
    repeat match type of H with (if ?b then _ else _) = _ => destruct b end.
    - (* select *)
      destruct (as_seq rv) as [[src ops]|] eqn:A.
      + destruct (as_seq_ok _ _ _ _ Hrv A) as [Hs Ho].
        destruct args as [|f [|? ?]]; try (inversion H; subst; split; [exact Hh|discriminate]).
        unfold alloc in H. inversion H; subst. cbn [heap]. split; [now apply alloc_plain_ok|].
        intros v E. injection E as <-. rewrite app_length. cbn [length]. apply vok_iter. split.
        * eapply Forall_vok_mono; [|exact Hs]. lia.
        * apply Forall_app. split; [eapply Forall_lop_mono; [|exact Ho]; lia|]. constructor; [cbn; lia|constructor].
      + inversion H; subst. split; [exact Hh|]. intros v E. destruct rv; discriminate.
    - (* where *)
      destruct (as_seq rv) as [[src ops]|] eqn:A.
      + destruct (as_seq_ok _ _ _ _ Hrv A) as [Hs Ho].
        destruct args as [|f [|? ?]]; try (inversion H; subst; split; [exact Hh|discriminate]).
        unfold alloc in H. inversion H; subst. cbn [heap]. split; [now apply alloc_plain_ok|].
        intros v E. injection E as <-. rewrite app_length. cbn [length]. apply vok_iter. split.
        * eapply Forall_vok_mono; [|exact Hs]. lia.
        * apply Forall_app. split; [eapply Forall_lop_mono; [|exact Ho]; lia|]. constructor; [cbn; lia|constructor].
      + inversion H; subst. split; [exact Hh|]. intros v E. destruct rv; discriminate.
    - (* any / all *)
      destruct (as_seq rv) as [[src ops]|] eqn:A.
      + destruct (as_seq_ok _ _ _ _ Hrv A) as [Hs Ho].
        destruct args as [|f [|? ?]]; try (inversion H; subst; split; [exact Hh|discriminate]).
        * destruct (force_search ev _ s src ops None) as [s1 r1] eqn:E1.
          pose proof (force_search_wf _ Hext Hwf _ _ _ _ _ _ _ E1 Hh Hs Ho ltac:(discriminate)) as Hh1.
          destruct r1; inversion H; subst; (split; [exact Hh1|]); try discriminate.
          intros v E. injection E as <-. exact I.
        * unfold alloc in H.
          match type of H with context [force_search ev ?w ?s0 src ops ?p] =>
            destruct (force_search ev w s0 src ops p) as [s1 r1] eqn:E1 end.
          assert (Hh0 : hok (heap s ++ [{| cparent := Some c; cdata := []; cfuncs := [] |}])) by now apply alloc_plain_ok.
          assert (Hh1 : hok (heap s1)).
          { apply (force_search_wf _ Hext Hwf _ _ _ _ _ _ _ E1 Hh0).
            - cbn [heap]. rewrite app_length. eapply Forall_vok_mono; [|exact Hs]. lia.
            - cbn [heap]. rewrite app_length. eapply Forall_lop_mono; [|exact Ho]. lia.
            - cbn [heap]. intros b0 c0 E. injection E as <- <-. rewrite app_length. cbn. lia. }
          destruct r1; inversion H; subst; (split; [exact Hh1|]); try discriminate.
          intros v E. injection E as <-. exact I.
      + inversion H; subst. split; [exact Hh|]. intros v E. destruct rv; discriminate.
    - (* first *)
      destruct (as_seq rv) as [[src ops]|] eqn:A.
      + destruct (as_seq_ok _ _ _ _ Hrv A) as [Hs Ho].
        destruct args as [|d [|? ?]]; try (inversion H; subst; split; [exact Hh|discriminate]).
        * destruct (force_first ev s src ops) as [s1 r1] eqn:E1.
          destruct (force_first_wf _ Hext Hwf _ _ _ _ _ E1 Hh Hs Ho) as [Hh1 Hv1].
          destruct r1 as [[y|]| | |]; inversion H; subst; (split; [exact Hh1|]); try discriminate.
          intros v E. injection E as <-. now apply Hv1.
        * destruct (ev s c d) as [s0 r0] eqn:E0. pose proof (ext_len _ _ (Hext _ _ _ _ _ E0)) as L0.
          destruct (Hwf _ _ _ _ _ E0 Hh Hc) as [Hh0 Hv0].
          destruct r0 as [dv| | |]; try (inversion H; subst; split; [exact Hh0|discriminate]).
          destruct (force_first ev s0 src ops) as [s1 r1] eqn:E1.
          pose proof (ext_len _ _ (force_first_ext _ Hext _ _ _ _ _ E1)) as L1.
          destruct (force_first_wf _ Hext Hwf _ _ _ _ _ E1 Hh0
                      ltac:(eapply Forall_vok_mono; eassumption) ltac:(eapply Forall_lop_mono; eassumption)) as [Hh1 Hv1].
          destruct r1 as [[y|]| | |]; inversion H; subst; (split; [exact Hh1|]); try discriminate.
          -- intros v E. injection E as <-. now apply Hv1.
          -- intros v E. injection E as <-. eapply vok_mono; [exact L1|now apply Hv0].
      + inversion H; subst. split; [exact Hh|]. intros v E. destruct rv; discriminate.
    - (* toList *)
      destruct (as_seq rv) as [[src ops]|] eqn:A.
      + destruct (as_seq_ok _ _ _ _ Hrv A) as [Hs Ho].
        destruct args as [|? ?]; try (inversion H; subst; split; [exact Hh|discriminate]).
        destruct (force ev s src ops) as [s1 r1] eqn:E1.
        destruct (force_wf _ Hext Hwf _ _ _ _ _ E1 Hh Hs Ho) as [Hh1 Hv1].
        destruct r1 as [l| | |]; inversion H; subst; (split; [exact Hh1|]); try discriminate.
        intros v E. injection E as <-. apply vok_list. now apply Hv1.
      + inversion H; subst. split; [exact Hh|]. intros v E. destruct rv; discriminate.
    - (* len *)
      destruct rv as [|b|z|s0|l|kvs|c0|src ops]; destruct args as [|? ?];
        try (inversion H; subst; split; [exact Hh|]; intros v E; try discriminate; injection E as <-; exact I).
      apply vok_iter in Hrv as [Hs Ho].
      destruct (force ev s src ops) as [s1 r1] eqn:E1.
      destruct (force_wf _ Hext Hwf _ _ _ _ _ E1 Hh Hs Ho) as [Hh1 Hv1].
      destruct r1 as [l| | |]; inversion H; subst; (split; [exact Hh1|]); try discriminate.
      intros v E. injection E as <-. exact I.
    - (* unpack *)
      destruct rv as [|b|z|s0|l|kvs|c0|src ops]; try (inversion H; subst; split; [exact Hh|discriminate]).
      apply vok_list in Hrv.
      destruct (eval_seq ev s c args) as [s1 r1] eqn:E1.
      pose proof (ext_len _ _ (eval_seq_ext _ Hext _ _ _ _ _ E1)) as L1.
      destruct (eval_seq_wf _ Hext Hwf _ _ _ _ _ E1 Hh Hc) as [Hh1 Hv1].
      destruct r1 as [names| | |]; try (inversion H; subst; split; [exact Hh1|discriminate]).
      match type of H with context [match ?x with _ => _ end] => destruct x as [[|n0 ns]|] end;
        try (inversion H; subst; split; [exact Hh1|discriminate]).
      + unfold alloc in H. inversion H; subst. cbn [heap]. split.
        * apply hok_alloc_child; [exact Hh1|lia| |constructor].
          apply number_from_ok. eapply Forall_vok_mono; eassumption.
        * intros v E. injection E as <-. cbn. rewrite app_length. cbn. lia.
      + destruct (Nat.eqb _ _); [|inversion H; subst; split; [exact Hh1|discriminate]].
        unfold alloc in H. inversion H; subst. cbn [heap]. split.
        * apply hok_alloc_child; [exact Hh1|lia| |constructor].
          apply (combine_ok _ (n0 :: ns) l). eapply Forall_vok_mono; eassumption.
        * intros v E. injection E as <-. cbn. rewrite app_length. cbn. lia.
    - (* get *)
      destruct rv as [|b|z|s0|l|kvs|c0|src ops]; try (inversion H; subst; split; [exact Hh|discriminate]).
      destruct (eval_seq ev s c args) as [s1 r1] eqn:E1.
      pose proof (ext_len _ _ (eval_seq_ext _ Hext _ _ _ _ _ E1)) as L1.
      destruct (eval_seq_wf _ Hext Hwf _ _ _ _ _ E1 Hh Hc) as [Hh1 Hv1].
      assert (Hd : vok (length (heap s1)) (VDict kvs)) by (eapply vok_mono; eassumption).
      destruct r1 as [[|k [|d [|? ?]]]| | |]; try (inversion H; subst; split; [exact Hh1|discriminate]).
      + destruct (is_key k); inversion H; subst; (split; [exact Hh1|]); try discriminate.
        intros v E. injection E as <-. destruct (dict_get kvs k) eqn:G; [eapply dict_get_ok; eassumption|exact I].
      + specialize (Hv1 _ eq_refl). inversion Hv1 as [|? ? Hk Hr]; subst. inversion Hr as [|? ? Hdv _]; subst.
        destruct (is_key k); inversion H; subst; (split; [exact Hh1|]); try discriminate.
        intros v E. injection E as <-. destruct (dict_get kvs k) eqn:G; [eapply dict_get_ok; eassumption|exact Hdv].
    - (* switchCase *)
      destruct rv as [|b|z|s0|l|kvs|c0|src ops]; try (inversion H; subst; split; [exact Hh|discriminate]).
      destruct args as [|a0 rest]; [inversion H; subst; split; [exact Hh|]; intros v E; injection E as <-; exact I|].
      match type of H with context [nth_error ?l ?i] => destruct (nth_error l i) as [a|] end;
        [|inversion H; subst; split; [exact Hh|discriminate]].
      exact (Hwf _ _ _ _ _ H Hh Hc).
    - inversion H; subst. split; [exact Hh|discriminate].
  Qed.
End Preserve2.

Lemma eval_wf f : ev_wf (eval f).
Proof.
  induction f as [|f IH]; intros s c e s' r H Hh Hc.
  - cbn in H. inversion H; subst. split; [exact Hh|discriminate].
  - pose proof (eval_ext f) as IHe.
    cbn [eval] in H. destruct e.
    + destruct c0; inversion H; subst; (split; [exact Hh|]); intros v E; injection E as <-; exact I.
    + inversion H; subst. split; [exact Hh|]. intros v E. injection E as <-. exact I.
    + inversion H; subst. split; [exact Hh|]. intros v E. injection E as <-. now apply lookup_ok.
    + destruct (eval_seq (eval f) s c es) as [s1 r1] eqn:E1.
      destruct (eval_seq_wf _ IHe IH _ _ _ _ _ E1 Hh Hc) as [Hh1 Hv1].
      destruct r1; inversion H; subst; (split; [exact Hh1|]); try discriminate.
      intros v E. injection E as <-. apply vok_list. now apply Hv1.
    + apply (eval_map_wf _ IHe IH _ _ _ _ _ _ H Hh Hc). exact I.
    + destruct (eval f s c e1) as [s1 r1] eqn:E1. pose proof (ext_len _ _ (IHe _ _ _ _ _ E1)) as L1.
      destruct (IH _ _ _ _ _ E1 Hh Hc) as [Hh1 Hv1].
      destruct r1 as [av| | |]; try (inversion H; subst; split; [exact Hh1|discriminate]).
      destruct (eval f s1 c e2) as [s2 r2] eqn:E2. pose proof (ext_len _ _ (IHe _ _ _ _ _ E2)) as L2.
      destruct (IH _ _ _ _ _ E2 Hh1 ltac:(lia)) as [Hh2 Hv2].
      destruct r2 as [iv| | |]; inversion H; subst; (split; [exact Hh2|]); try discriminate.
      intros v E. specialize (Hv1 _ eq_refl). apply (vok_mono _ _ L2) in Hv1.
      destruct av as [|b|z|s0|l|kvs|c0|src ops]; try discriminate.
      * destruct iv; try discriminate. unfold list_index in E.
        destruct (_ || _); [discriminate|]. destruct (nth_error l _) eqn:N; [|discriminate].
        injection E as <-. apply vok_list in Hv1. rewrite Forall_forall in Hv1. apply Hv1. eapply nth_error_In; eassumption.
      * destruct iv; try discriminate; (destruct (dict_get kvs _) eqn:G; [|discriminate]);
          injection E as <-; eapply dict_get_ok; eassumption.
    + assert (Hgen : forall o', (o' = OAnd \/ o' = OOr -> False) ->
               forall s' r, (match eval f s c e1 with
                | (s1, Ok av) => match eval f s1 c e2 with
                                 | (s2, Ok bv) => (s2, binop_val o' av bv)
                                 | (s2, Err k) => (s2, Err k) | (s2, Unsup) => (s2, Unsup) | (s2, Fuel) => (s2, Fuel)
                                 end
                | (s1, Err k) => (s1, Err k) | (s1, Unsup) => (s1, Unsup) | (s1, Fuel) => (s1, Fuel)
                end) = (s', r) -> hok (heap s') /\ (forall v, r = Ok v -> vok (length (heap s')) v)).
      { intros o' _ s'' r' H'.
        destruct (eval f s c e1) as [s1 r1] eqn:E1. pose proof (ext_len _ _ (IHe _ _ _ _ _ E1)) as L1.
        destruct (IH _ _ _ _ _ E1 Hh Hc) as [Hh1 Hv1].
        destruct r1 as [av| | |]; try (inversion H'; subst; split; [exact Hh1|discriminate]).
        destruct (eval f s1 c e2) as [s2 r2] eqn:E2. pose proof (ext_len _ _ (IHe _ _ _ _ _ E2)) as L2.
        destruct (IH _ _ _ _ _ E2 Hh1 ltac:(lia)) as [Hh2 Hv2].
        destruct r2 as [bv| | |]; inversion H'; subst; (split; [exact Hh2|]); try discriminate.
        intros v E. specialize (Hv1 _ eq_refl). apply (vok_mono _ _ L2) in Hv1. specialize (Hv2 _ eq_refl).
        destruct o'; destruct av; destruct bv; cbn in E; try discriminate;
          try (injection E as <-; exact I);
          try (match type of E with (match ?x with _ => _ end) = _ => destruct x end; try discriminate; injection E as <-; exact I).
        injection E as <-. apply vok_list. apply vok_list in Hv1. apply vok_list in Hv2.
        apply Forall_app. split; assumption. }
      destruct o; try (refine (Hgen _ _ _ _ H); intros [?|?]; discriminate).
      * destruct (eval f s c e1) as [s1 r1] eqn:E1. pose proof (ext_len _ _ (IHe _ _ _ _ _ E1)) as L1.
        destruct (IH _ _ _ _ _ E1 Hh Hc) as [Hh1 Hv1].
        destruct r1 as [av| | |]; try (inversion H; subst; split; [exact Hh1|discriminate]).
        destruct (truthy av) as [[|]| | |]; try (inversion H; subst; split; [exact Hh1|discriminate]).
        -- apply (IH _ _ _ _ _ H Hh1). lia.
        -- inversion H; subst. split; [exact Hh1|]. intros v E. injection E as <-. now apply Hv1.
      * destruct (eval f s c e1) as [s1 r1] eqn:E1. pose proof (ext_len _ _ (IHe _ _ _ _ _ E1)) as L1.
        destruct (IH _ _ _ _ _ E1 Hh Hc) as [Hh1 Hv1].
        destruct r1 as [av| | |]; try (inversion H; subst; split; [exact Hh1|discriminate]).
        destruct (truthy av) as [[|]| | |]; try (inversion H; subst; split; [exact Hh1|discriminate]).
        -- inversion H; subst. split; [exact Hh1|]. intros v E. injection E as <-. now apply Hv1.
        -- apply (IH _ _ _ _ _ H Hh1). lia.
    + destruct (eval f s c e) as [s1 r1] eqn:E1.
      destruct (IH _ _ _ _ _ E1 Hh Hc) as [Hh1 Hv1].
      destruct r1 as [av| | |]; inversion H; subst; (split; [exact Hh1|]); try discriminate.
      intros v E. destruct o; destruct av; try discriminate; try (injection E as <-; exact I);
        try (match type of E with (match ?x with _ => _ end) = _ => destruct x end; try discriminate; injection E as <-; exact I).
    + destruct (eval f s c e) as [s1 r1] eqn:E1.
      destruct (IH _ _ _ _ _ E1 Hh Hc) as [Hh1 Hv1].
      destruct r1 as [av| | |]; inversion H; subst; (split; [exact Hh1|]); try discriminate.
      intros v E. eapply dot_kw_ok; [now apply Hv1|exact E].
    + destruct (eval f s c e) as [s1 r1] eqn:E1. pose proof (ext_len _ _ (IHe _ _ _ _ _ E1)) as L1.
      destruct (IH _ _ _ _ _ E1 Hh Hc) as [Hh1 Hv1].
      destruct r1 as [av| | |]; try (inversion H; subst; split; [exact Hh1|discriminate]).
      apply (meth_wf _ IHe IH _ _ _ _ _ _ _ H Hh1 ltac:(lia)). now apply Hv1.
    + destruct (eval f s c e) as [s1 r1] eqn:E1. pose proof (ext_len _ _ (IHe _ _ _ _ _ E1)) as L1.
      destruct (IH _ _ _ _ _ E1 Hh Hc) as [Hh1 Hv1].
      destruct r1 as [av| | |]; try (inversion H; subst; split; [exact Hh1|discriminate]).
      specialize (Hv1 _ eq_refl).
      destruct av; try (apply (meth_wf _ IHe IH _ _ _ _ _ _ _ H Hh1 ltac:(lia)); exact Hv1).
      inversion H; subst. split; [exact Hh1|]. intros v E. injection E as <-. exact I.
    + destruct (eval_seq (eval f) s c pos) as [s1 r1] eqn:E1.
      pose proof (ext_len _ _ (eval_seq_ext _ IHe _ _ _ _ _ E1)) as L1.
      destruct (eval_seq_wf _ IHe IH _ _ _ _ _ E1 Hh Hc) as [Hh1 Hv1].
      destruct r1 as [pv| | |]; try (inversion H; subst; split; [exact Hh1|discriminate]).
      destruct (eval_kw (eval f) s1 c kw) as [s2 r2] eqn:E2.
      pose proof (ext_len _ _ (eval_kw_ext _ IHe _ _ _ _ _ E2)) as L2.
      destruct (eval_kw_wf _ IHe IH _ _ _ _ _ E2 Hh1 ltac:(lia)) as [Hh2 Hv2].
      destruct r2 as [kv| | |]; try (inversion H; subst; split; [exact Hh2|discriminate]).
      unfold alloc in H. inversion H; subst. cbn [heap]. split.
      * apply hok_alloc_child; [exact Hh2|lia| |constructor].
        apply Forall_app. split; [|now apply Hv2].
        apply number_from_ok. eapply Forall_vok_mono; [exact L2|now apply Hv1].
      * intros v E. injection E as <-. cbn. rewrite app_length. cbn. lia.
    + destruct (eval_seq (eval f) s c es) as [s1 r1] eqn:E1.
      pose proof (ext_len _ _ (eval_seq_ext _ IHe _ _ _ _ _ E1)) as L1.
      destruct (eval_seq_wf _ IHe IH _ _ _ _ _ E1 Hh Hc) as [Hh1 Hv1].
      destruct r1 as [pv| | |]; try (inversion H; subst; split; [exact Hh1|discriminate]).
      unfold alloc in H. inversion H; subst. cbn [heap]. split.
      * apply hok_alloc_child; [exact Hh1|lia| |constructor]. apply number_from_ok. now apply Hv1.
      * intros v E. injection E as <-. cbn. rewrite app_length. cbn. lia.
    + unfold alloc in H. inversion H; subst. cbn [heap]. split.
      * apply hok_alloc_child; [exact Hh|exact Hc|constructor|]. constructor; [cbn; lia|constructor].
      * intros v E. injection E as <-. cbn. rewrite app_length. cbn. lia.
    + destruct (lookup_func (heap s) c name) as [[body cap]|] eqn:LF; [|inversion H; subst; split; [exact Hh|discriminate]].
      assert (Hcap : cap < length (heap s)) by (eapply get_func_ok; eassumption).
      destruct (eval_seq (eval f) s c args) as [s1 r1] eqn:E1.
      pose proof (ext_len _ _ (eval_seq_ext _ IHe _ _ _ _ _ E1)) as L1.
      destruct (eval_seq_wf _ IHe IH _ _ _ _ _ E1 Hh Hc) as [Hh1 Hv1].
      destruct r1 as [pv| | |]; try (inversion H; subst; split; [exact Hh1|discriminate]).
      destruct (eval_kw (eval f) s1 c kw) as [s2 r2] eqn:E2.
      pose proof (ext_len _ _ (eval_kw_ext _ IHe _ _ _ _ _ E2)) as L2.
      destruct (eval_kw_wf _ IHe IH _ _ _ _ _ E2 Hh1 ltac:(lia)) as [Hh2 Hv2].
      destruct r2 as [kv| | |]; try (inversion H; subst; split; [exact Hh2|discriminate]).
      apply (invoke_wf _ IH _ _ _ _ _ _ _ H Hh2 ltac:(lia)); [|now apply Hv2].
      eapply Forall_vok_mono; [exact L2|now apply Hv1].
    + destruct (eval f s c e) as [s1 r1] eqn:E1.
      destruct (IH _ _ _ _ _ E1 Hh Hc) as [Hh1 Hv1].
      destruct r1; inversion H; subst; cbn [tick heap]; (split; [exact Hh1|]); try discriminate.
      intros v E. injection E as <-. now apply Hv1.
    + exact (eval_switch_wf _ IHe IH _ _ _ _ _ H Hh Hc).
    + exact (eval_coalesce_wf _ IHe IH _ _ _ _ _ H Hh Hc).
    + destruct (eval f s c e1) as [s1 r1] eqn:E1. pose proof (ext_len _ _ (IHe _ _ _ _ _ E1)) as L1.
      destruct (IH _ _ _ _ _ E1 Hh Hc) as [Hh1 Hv1].
      destruct r1 as [av| | |]; try (inversion H; subst; split; [exact Hh1|discriminate]).
      specialize (Hv1 _ eq_refl).
      destruct av; try (inversion H; subst; split; [exact Hh1|discriminate]).
      apply (IH _ _ _ _ _ H Hh1). exact Hv1.
    + exact (eval_select_case_wf _ IHe IH _ _ _ _ _ _ H Hh Hc).
Qed.

Lemma root_hok d : vok 1 d -> hok (heap (root d)).
Proof.
  intros Hd i r H. cbn in H. destruct i as [|i]; cbn in H; [|destruct i; discriminate].
  injection H as <-. split; [discriminate|]. split; cbn; repeat constructor. exact Hd.
Qed.

(* Everything that exists keeps seeing exactly what it saw, whatever is evaluated afterwards. *)
Lemma scope_stable f s c e s' r :
  eval f s c e = (s', r) -> hok (heap s) -> c < length (heap s) ->
  hok (heap s') /\ forall c0 n, c0 < length (heap s) -> lookup (heap s') c0 n = lookup (heap s) c0 n.
Proof.
  intros H Hh Hc. split; [exact (proj1 (eval_wf f _ _ _ _ _ H Hh Hc))|].
  intros c0 n Hc0. destruct (eval_ext f _ _ _ _ _ H) as (h & l & Hheap & _).
  rewrite Hheap. now apply lookup_stable.
Qed.
