(* C02_unique for ALL trees: suffix operators, indexers, lists, maps, calls and the
   args grammar included.  Same invariant as Lemmas/PrattUnique.v, by mutual
   induction on trees and argument lists. *)
From Coq Require Import List ZArith Bool Arith Lia.
From YV Require Import Common.Corr Model.OpTable Model.Pratt Lemmas.PrattUnique.
Import ListNotations.
Local Open Scope nat_scope.

Scheme tree_mind := Induction for tree Sort Prop
  with args_mind := Induction for args Sort Prop.
Combined Scheme tree_args_ind from tree_mind, args_mind.

Section UniqueFull.
Variable T : table.

Fixpoint fcost (t : tree) : nat :=
  match t with
  | Atom _ => 1
  | Un _ y | Wrap y => fcost y + 2
  | Suf _ y => fcost y + 1
  | Bin _ l r => fcost l + fcost r + 2
  | Index x a | CallV x a => fcost x + acost a + 1
  | ListE a | MapE a | Call _ a => acost a + 1
  end
with acost (a : args) : nat :=
  match a with
  | ANil => 1
  | AEmpty r => acost r + 1
  | AVal x r => fcost x + acost r + 1
  | ANamed k v r => fcost k + fcost v + acost r + 1
  end.

Lemma acost_pos : forall a, 1 <= acost a.
Proof. destruct a; cbn [acost]; lia. Qed.

Lemma yield_args_cons_val' : forall x a,
  yield_args (AVal x a) = yield x ++ match a with ANil => [] | _ => TComma :: yield_args a end.
Proof. reflexivity. Qed.

Lemma fcost_yield : (forall t, fcost t + 1 <= 2 * length (yield t)) /\
                    (forall a, acost a <= 2 * length (yield_args a) + 1).
Proof.
  apply tree_args_ind; intros; cbn [fcost acost yield yield_args length];
    rewrite ?app_length; cbn [length]; rewrite ?app_length; cbn [length]; try lia;
    match goal with |- context [match ?a with ANil => _ | _ => _ end] => destruct a end;
    cbn [length acost yield_args] in *; rewrite ?app_length in *; cbn [length] in *; lia.
Qed.

(* the first token of a tree's text starts an operand *)
Definition starts_operand (ts : list token) : Prop :=
  match ts with
  | TAtom _ :: _ | TOp _ :: _ | TFunc _ :: _ | TLP :: _ | TLB :: _ | TLC :: _ => True
  | _ => False
  end.

Lemma yield_starts : forall t rest, starts_operand (yield t ++ rest).
Proof.
  induction t; intro rest; cbn [yield app]; try exact I.
  - rewrite <- app_assoc. apply IHt.
  - rewrite <- app_assoc. apply IHt1.
  - rewrite <- app_assoc. apply IHt.
  - rewrite <- app_assoc. apply IHt.
Qed.

Definition starts_closer (ts : list token) : Prop :=
  match ts with t :: _ => is_closer t = true | [] => False end.

Lemma closer_tokrank : forall ts, starts_closer ts -> tokrank T ts = None.
Proof. intros [|t ts] H; [contradiction|]. destruct t; try discriminate; reflexivity. Qed.

(* ---- the statements ---- *)
Definition P_tree (t : tree) : Prop :=
  forall p rest res f0,
    wf T t -> shaped t -> ls_ok T p t ->
    (forall q, tokrank T rest = Some q -> rs_ok T q t) ->
    (forall f, f0 <= f -> loop T f p t rest = Some res) ->
    forall F, f0 + fcost t <= F -> expr T F p (yield t ++ rest) = Some res.

Definition P_args (a : args) : Prop :=
  (forall st rest, wf_args T a -> shaped_args a -> shape_from st a -> starts_closer rest ->
     forall F, acost a <= F -> slots T F st (yield_args a ++ rest) = Some (a, rest)) /\
  (forall rest, a <> ANil -> all_named a -> wf_args T a -> shaped_args a -> starts_closer rest ->
     forall F, acost a <= F -> named T F (yield_args a ++ rest) = Some (a, rest)).

(* an operand in a slot, followed by a token that no operator continues *)
Lemma slot_value : forall x rest F,
  P_tree x -> wf T x -> shaped x -> tokrank T rest = None -> fcost x + 1 <= F ->
  expr T F None (yield x ++ rest) = Some (x, rest).
Proof.
  intros x rest F PX W Sh N HF.
  apply (PX None rest (x, rest) 1 W Sh (ls_ok_None T x W)).
  - intros q H. rewrite N in H. discriminate.
  - intros f Hf. destruct f as [|f]; [lia|]. apply loop_stop. intros q H. rewrite N in H. discriminate.
  - lia.
Qed.


Lemma slots_unfold_operand : forall F st ts, starts_operand ts ->
  slots T (S F) st ts =
  match expr T F None ts with
  | Some (x, TComma :: r) => match slots T F SV r with
                             | Some (a, r') => Some (AVal x a, r')
                             | None => None
                             end
  | Some (x, TMap :: r) =>
      if named_ok st then
        match expr T F None r with
        | Some (y, TComma :: r2) => match named T F r2 with
                                    | Some (a, r3) => Some (ANamed x y a, r3)
                                    | None => None
                                    end
        | Some (y, r2) => Some (ANamed x y ANil, r2)
        | None => None
        end
      else None
  | Some (x, r) => Some (AVal x ANil, r)
  | None => None
  end.
Proof.
  intros F st ts H. destruct ts as [|t ts]; [contradiction|].
  destruct t; try contradiction; reflexivity.
Qed.

Lemma named_unfold : forall F ts,
  named T (S F) ts =
  match expr T F None ts with
  | Some (x, TMap :: r) =>
      match expr T F None r with
      | Some (y, TComma :: r2) => match named T F r2 with
                                  | Some (a, r3) => Some (ANamed x y a, r3)
                                  | None => None
                                  end
      | Some (y, r2) => Some (ANamed x y ANil, r2)
      | None => None
      end
  | _ => None
  end.
Proof. reflexivity. Qed.

Definition atail (r : args) : list token := match r with ANil => [] | _ => TComma :: yield_args r end.

(* the part after `key =>` of a named argument *)
Lemma named_tail_ok : forall k v r rest F,
  P_tree v -> P_args r -> wf T v -> shaped v -> wf_args T r -> shaped_args r -> all_named r ->
  starts_closer rest -> fcost v + acost r <= F ->
  match expr T F None (yield v ++ atail r ++ rest) with
  | Some (y, TComma :: r2) => match named T F r2 with
                              | Some (a, r3) => Some (ANamed k y a, r3)
                              | None => None
                              end
  | Some (y, r2) => Some (ANamed k y ANil, r2)
  | None => None
  end = Some (ANamed k v r, rest).
Proof.
  intros k v r rest F PV PR Wv Shv Wr Shr AN Cl HF.
  pose proof (acost_pos r) as AP.
  destruct r as [|r'|x r'|k' v' r']; try contradiction.
  - cbn [atail app].
    rewrite (slot_value v rest F PV Wv Shv (closer_tokrank rest Cl)) by lia.
    destruct rest as [|t rest']; [contradiction|]. destruct t; try discriminate; reflexivity.
  - cbn [atail]. cbn [app].
    rewrite (slot_value v (TComma :: yield_args (ANamed k' v' r') ++ rest) F PV Wv Shv eq_refl) by lia.
    rewrite (proj2 PR rest) by (try discriminate; try assumption; lia). reflexivity.
Qed.

Lemma unique_all : (forall t, P_tree t) /\ (forall a, P_args a).
Proof.
  apply tree_args_ind.
  - (* Atom *)
    intros a p rest res f0 W Sh L R St F HF. cbn [fcost] in HF. destruct F as [|F']; [lia|].
    cbn [yield app]. simpl expr. apply St. lia.
  - (* Un *)
    intros o x IH p rest res f0 W Sh L R St F HF. cbn [fcost] in HF. destruct F as [|F']; [lia|].
    destruct W as [q [Q [Wy Ly]]]. cbn [shaped] in Sh.
    cbn [yield app]. simpl expr. rewrite Q.
    assert (E : expr T F' (Some q) (yield x ++ rest) = Some (x, rest)).
    { apply (IH (Some q) rest (x, rest) 1 Wy Sh Ly).
      - intros q0 H0. apply R in H0. exact (proj2 H0).
      - intros f Hf. destruct f as [|f]; [lia|]. apply loop_stop.
        intros q0 H0. apply R in H0. destruct H0 as [[q' [Q' Rd]] _].
        rewrite Q in Q'. inversion Q'; subst. exact Rd.
      - lia. }
    rewrite E. apply St. lia.
  - (* Suf *)
    intros o x IH p rest res f0 W Sh L R St F HF. cbn [fcost] in HF.
    destruct W as [q [Q [B [Wx Rx]]]]. cbn [shaped] in Sh.
    destruct L as [[q' [Q' C]] Lx]. rewrite Q in Q'. inversion Q'; subst q'.
    cbn [yield]. rewrite <- app_assoc. cbn [app].
    apply (IH p (TOp o :: rest) res (f0 + 1) Wx Sh Lx).
    + intros q0 H0. cbn [tokrank] in H0. rewrite B, Q in H0. inversion H0; subst. exact Rx.
    + intros f Hf. destruct f as [|f]; [lia|]. simpl loop. rewrite B, Q, C. apply St. lia.
    + lia.
  - (* Bin *)
    intros o l IHl r IHr p rest res f0 W Sh L R St F HF. cbn [fcost] in HF.
    destruct Sh as [Sh1 Sh2].
    destruct W as [q [Q [Wl [Wr [Rl Lr]]]]].
    destruct L as [[q' [Q' Cq]] Ll]. rewrite Q in Q'. inversion Q'; subst q'.
    cbn [yield]. rewrite <- app_assoc. cbn [app].
    apply (IHl p (TOp o :: yield r ++ rest) res (f0 + fcost r + 2) Wl Sh1 Ll).
    + intros q0 H0. cbn [tokrank] in H0. rewrite Q in H0. inversion H0; subst. exact Rl.
    + intros f Hf. destruct f as [|f]; [lia|]. simpl loop. rewrite Q, Cq.
      assert (E : expr T f (Some q) (yield r ++ rest) = Some (r, rest)).
      { apply (IHr (Some q) rest (r, rest) 1 Wr Sh2 Lr).
        - intros q0 H0. apply R in H0. exact (proj2 H0).
        - intros f1 Hf1. destruct f1 as [|f1]; [lia|]. apply loop_stop.
          intros q0 H0. apply R in H0. destruct H0 as [[q2 [Q2 Rd]] _].
          rewrite Q in Q2. inversion Q2; subst. exact Rd.
        - lia. }
      rewrite E. apply St. lia.
    + lia.
  - (* Wrap *)
    intros x IH p rest res f0 W Sh L R St F HF. cbn [fcost] in HF. destruct F as [|F']; [lia|].
    cbn [shaped] in Sh. cbn [wf] in W.
    cbn [yield app]. rewrite <- app_assoc. cbn [app]. simpl expr.
    rewrite (slot_value x (TRP :: rest) F' IH W Sh eq_refl) by lia. apply St. lia.
  - (* Index *)
    intros x IHx a IHa p rest res f0 W Sh L R St F HF. cbn [fcost] in HF.
    destruct W as [q [Q [Wx [Rx Wa]]]]. destruct Sh as [Shx [Sha Shaa]].
    destruct L as [[q' [Q' C]] Lx]. rewrite Q in Q'. inversion Q'; subst q'.
    cbn [yield]. rewrite <- app_assoc. cbn [app]. rewrite <- app_assoc. cbn [app].
    apply (IHx p (TLB :: yield_args a ++ TRB :: rest) res (f0 + acost a + 1) Wx Shx Lx).
    + intros q0 H0. cbn [tokrank] in H0. rewrite Q in H0. inversion H0; subst. exact Rx.
    + intros f Hf. destruct f as [|f]; [lia|]. simpl loop. rewrite Q, C.
      rewrite (proj1 IHa S0 (TRB :: rest) Wa Shaa Sha eq_refl f) by lia. apply St. lia.
    + lia.
  - (* ListE *)
    intros a IHa p rest res f0 W Sh L R St F HF. cbn [fcost] in HF. destruct F as [|F']; [lia|].
    destruct Sh as [Sha Shaa]. cbn [wf] in W.
    cbn [yield app]. rewrite <- app_assoc. cbn [app]. simpl expr.
    rewrite (proj1 IHa S0 (TRB :: rest) W Shaa Sha eq_refl F') by lia. apply St. lia.
  - (* MapE *)
    intros a IHa p rest res f0 W Sh L R St F HF. cbn [fcost] in HF. destruct F as [|F']; [lia|].
    destruct Sh as [Sha Shaa]. cbn [wf] in W.
    cbn [yield app]. rewrite <- app_assoc. cbn [app]. simpl expr.
    rewrite (proj1 IHa S0 (TRC :: rest) W Shaa Sha eq_refl F') by lia. apply St. lia.
  - (* Call *)
    intros g a IHa p rest res f0 W Sh L R St F HF. cbn [fcost] in HF. destruct F as [|F']; [lia|].
    destruct Sh as [Sha Shaa]. cbn [wf] in W.
    cbn [yield app]. rewrite <- app_assoc. cbn [app]. simpl expr.
    rewrite (proj1 IHa S0 (TRP :: rest) W Shaa Sha eq_refl F') by lia. apply St. lia.
  - (* CallV *)
    intros x IHx a IHa p rest res f0 W Sh L R St F HF. cbn [fcost] in HF.
    destruct W as [q [Q [Wx [Rx Wa]]]]. destruct Sh as [Shx [Sha Shaa]].
    destruct L as [[q' [Q' C]] Lx]. rewrite Q in Q'. inversion Q'; subst q'.
    cbn [yield]. rewrite <- app_assoc. cbn [app]. rewrite <- app_assoc. cbn [app].
    apply (IHx p (TLP :: yield_args a ++ TRP :: rest) res (f0 + acost a + 1) Wx Shx Lx).
    + intros q0 H0. cbn [tokrank] in H0. rewrite Q in H0. inversion H0; subst. exact Rx.
    + intros f Hf. destruct f as [|f]; [lia|]. simpl loop. rewrite Q, C.
      rewrite (proj1 IHa S0 (TRP :: rest) Wa Shaa Sha eq_refl f) by lia. apply St. lia.
    + lia.
  - (* ANil *)
    split.
    + intros st rest W Sh Shp Cl F HF. cbn [shape_from] in Shp. subst st.
      cbn [acost] in HF. destruct F as [|F']; [lia|]. cbn [yield_args app].
      destruct rest as [|t r]; [contradiction|]. destruct t; try discriminate; reflexivity.
    + intros rest NE. congruence.
  - (* AEmpty *)
    intros r IHr. split.
    + intros st rest W Sh Shp Cl F HF. cbn [acost] in HF. destruct F as [|F']; [lia|].
      cbn [yield_args app]. simpl slots.
      rewrite (proj1 IHr (after_empty st) rest W Sh Shp Cl F') by lia. reflexivity.
    + intros rest NE AN. contradiction.
  - (* AVal *)
    intros x IHx r IHr. split.
    + intros st rest [Wx Wr] [Shx Shr] Shp Cl F HF. cbn [acost] in HF. destruct F as [|F']; [lia|].
      pose proof (acost_pos r) as AP.
      rewrite yield_args_cons_val'. rewrite <- app_assoc.
      rewrite slots_unfold_operand by apply yield_starts.
      destruct r as [|r'|y r'|k' v' r'].
      * cbn [app]. rewrite (slot_value x rest F' IHx Wx Shx (closer_tokrank rest Cl)) by lia.
        destruct rest as [|t rest']; [contradiction|]. destruct t; try discriminate; reflexivity.
      * cbv beta iota in Shp. cbv beta iota. cbn [app].
        rewrite (slot_value x (TComma :: yield_args (AEmpty r') ++ rest) F' IHx Wx Shx eq_refl) by lia.
        rewrite (proj1 IHr SV rest Wr Shr Shp Cl F') by lia. reflexivity.
      * cbv beta iota in Shp. cbv beta iota. cbn [app].
        rewrite (slot_value x (TComma :: yield_args (AVal y r') ++ rest) F' IHx Wx Shx eq_refl) by lia.
        rewrite (proj1 IHr SV rest Wr Shr Shp Cl F') by lia. reflexivity.
      * cbv beta iota in Shp. cbv beta iota. cbn [app].
        rewrite (slot_value x (TComma :: yield_args (ANamed k' v' r') ++ rest) F' IHx Wx Shx eq_refl) by lia.
        rewrite (proj1 IHr SV rest Wr Shr Shp Cl F') by lia. reflexivity.
    + intros rest NE AN. contradiction.
  - (* ANamed *)
    intros k IHk v IHv r IHr. split.
    + intros st rest [Wk [Wv Wr]] [Shk [Shv Shr]] [NO AN] Cl F HF. cbn [acost] in HF.
      destruct F as [|F']; [lia|]. pose proof (acost_pos r) as AP.
      change (yield_args (ANamed k v r)) with (yield k ++ TMap :: yield v ++ atail r).
      rewrite <- app_assoc. cbn [app]. rewrite <- app_assoc.
      rewrite slots_unfold_operand by apply yield_starts.
      rewrite (slot_value k (TMap :: yield v ++ atail r ++ rest) F' IHk Wk Shk eq_refl) by lia.
      rewrite NO.
      apply (named_tail_ok k v r rest F' IHv IHr Wv Shv Wr Shr AN Cl). lia.
    + intros rest NE AN [Wk [Wv Wr]] [Shk [Shv Shr]] Cl F HF. cbn [acost] in HF.
      destruct F as [|F']; [lia|]. pose proof (acost_pos r) as AP.
      change (yield_args (ANamed k v r)) with (yield k ++ TMap :: yield v ++ atail r).
      rewrite <- app_assoc. cbn [app]. rewrite <- app_assoc.
      rewrite named_unfold.
      rewrite (slot_value k (TMap :: yield v ++ atail r ++ rest) F' IHk Wk Shk eq_refl) by lia.
      apply (named_tail_ok k v r rest F' IHv IHr Wv Shv Wr Shr AN Cl). lia.
Qed.

Theorem parse_unique : forall t, wf T t -> shaped t -> parse T (yield t) = Some t.
Proof.
  intros t W Sh. unfold parse.
  assert (E : expr T (2 * length (yield t) + 2) None (yield t ++ []) = Some (t, [])).
  { apply (slot_value t [] _ (proj1 unique_all t) W Sh eq_refl).
    pose proof (proj1 fcost_yield t). lia. }
  rewrite app_nil_r in E. rewrite E. reflexivity.
Qed.

End UniqueFull.
