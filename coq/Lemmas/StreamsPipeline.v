(* Composition: demand functions along a pipeline (C14) and streaming == list
   semantics on finite sources (C13). *)
From Coq Require Import List ZArith Bool Arith Lia.
From YV Require Import Common.Corr Model.Queries Model.Streams Lemmas.StreamsMono Lemmas.StreamsSteps.
Import ListNotations.

(* ---- list facts ------------------------------------------------------------------ *)
Section ListFacts.
  Context {A : Type}.
  Variable p : A -> bool.

  (* number of elements consumed up to and including the k-th element satisfying p *)
  Fixpoint kth_hit (xs : list A) (k : nat) : nat :=
    match xs with
    | [] => 0
    | x :: r => match k with
                | O => 0
                | S k' => S (if p x then kth_hit r k' else kth_hit r k)
                end
    end.

  Lemma kth_hit_0 xs : kth_hit xs 0 = 0.
  Proof. destruct xs; reflexivity. Qed.

  Lemma kth_hit_spec xs : forall k, k <= length (filter p xs) ->
    kth_hit xs k <= length xs /\
    filter p (firstn (kth_hit xs k) xs) = firstn k (filter p xs) /\
    (firstn (kth_hit xs k) xs = [] \/
     exists pre v, firstn (kth_hit xs k) xs = pre ++ [v] /\ p v = true) /\
    k <= kth_hit xs k.
  Proof.
    induction xs as [|x r IH]; intros k L.
    - cbn in *. assert (k = 0) by lia. subst. repeat split; try lia; try reflexivity. left. reflexivity.
    - destruct k as [|k]; [cbn; repeat split; try lia; try reflexivity; left; reflexivity|].
      cbn [kth_hit]. cbn [filter] in L. destruct (p x) eqn:P.
      + cbn [length] in L. destruct (IH k ltac:(lia)) as (I1 & I2 & I3 & I4).
        cbn [firstn filter length]. rewrite P. repeat split; try lia.
        * cbn [firstn]. f_equal. exact I2.
        * right. destruct I3 as [E|(pre & v & E & Pv)].
          -- exists [], x. rewrite E. split; [reflexivity | exact P].
          -- exists (x :: pre), v. rewrite E. split; [reflexivity | exact Pv].
      + destruct (IH (S k) L) as (I1 & I2 & I3 & I4).
        cbn [firstn filter length]. rewrite P. repeat split; try lia.
        * exact I2.
        * right. destruct I3 as [E|(pre & v & E & Pv)].
          -- exfalso. destruct r as [|y r']; [cbn in L; lia|]. cbn [kth_hit] in E. discriminate E.
          -- exists (x :: pre), v. rewrite E. split; [reflexivity | exact Pv].
  Qed.

  Lemma take_while_split xs : xs = take_while_l p xs ++ skip_while_l p xs.
  Proof. induction xs as [|x r IH]; [reflexivity|]. cbn. destruct (p x); [cbn; f_equal; exact IH | reflexivity]. Qed.

  Lemma take_while_all xs : forallb p (take_while_l p xs) = true.
  Proof. induction xs as [|x r IH]; [reflexivity|]. cbn. destruct (p x) eqn:P; [cbn; rewrite P; exact IH | reflexivity]. Qed.

  Lemma skip_while_head xs : match skip_while_l p xs with [] => True | v :: _ => p v = false end.
  Proof. induction xs as [|x r IH]; [exact I|]. cbn. destruct (p x) eqn:P; [exact IH | exact P]. Qed.

  Lemma take_while_firstn xs k : k <= length (take_while_l p xs) -> firstn k (take_while_l p xs) = firstn k xs.
  Proof.
    revert k. induction xs as [|x r IH]; intros k L; [reflexivity|]. cbn in *. destruct (p x).
    - destruct k as [|k]; [reflexivity|]. cbn in *. f_equal. apply IH. lia.
    - cbn in L. assert (k = 0) by lia. subst. reflexivity.
  Qed.

  Lemma forallb_firstn (l : list A) k : forallb p l = true -> forallb p (firstn k l) = true.
  Proof.
    revert k. induction l as [|x r IH]; intros [|k] H; try reflexivity. cbn in *.
    apply andb_true_iff in H as [H1 H2]. rewrite H1. cbn. apply IH. exact H2.
  Qed.
End ListFacts.

Lemma enum_vals_firstn n l m : firstn m (enum_vals n l) = enum_vals n (firstn m l).
Proof.
  unfold enum_vals. rewrite firstn_map. f_equal. revert n m. induction l as [|x r IH]; intros n [|m]; try reflexivity.
  cbn. f_equal. apply IH.
Qed.

Lemma enum_vals_length n l : length (enum_vals n l) = length l.
Proof. unfold enum_vals. rewrite map_length. revert n. induction l as [|x r IH]; intro n; cbn; [reflexivity | rewrite IH; reflexivity]. Qed.

(* ========================================================================== *)
(* C14: demand                                                                  *)
(* ========================================================================== *)
Inductive sop :=
| OSelect (f : lam)
| OWhere (p : lam)
| OSkip (n : nat)
| OTake (n : nat)
| OTakeWhile (p : lam)
| OSkipWhile (p : lam)
| OEnumerate (n : Z)
| OMemorize.

Definition build (o : sop) (i : it) : it :=
  match o with
  | OSelect f => Map f i
  | OWhere p => Filter p i
  | OSkip n => ISlice n None i
  | OTake n => ISlice 0 (Some n) i
  | OTakeWhile p => TakeWhile p i
  | OSkipWhile p => DropWhile p i
  | OEnumerate n => Enumerate n i
  | OMemorize => Memo i
  end.

(* the outputs determined by the input prefix xs: the list semantics of Model/Queries.v *)
Definition outs (o : sop) (xs : list val) : list val :=
  match o with
  | OSelect f => select_l (apply f) xs
  | OWhere p => where_l (holds p) xs
  | OSkip n => skip_l n xs
  | OTake n => take_l n xs
  | OTakeWhile p => take_while_l (holds p) xs
  | OSkipWhile p => skip_while_l (holds p) xs
  | OEnumerate n => enum_vals n xs
  | OMemorize => xs
  end.

(* how many input elements the first k outputs depend on *)
Definition need (o : sop) (xs : list val) (k : nat) : nat :=
  match o with
  | OWhere p => kth_hit (holds p) xs k
  | OSkip n => match k with O => 0 | _ => n + k end
  | OSkipWhile p => match k with O => 0 | _ => length (take_while_l (holds p) xs) + k end
  | _ => k
  end.

(* lambda applications performed for them *)
Definition tks (o : sop) (xs : list val) (k : nat) : nat :=
  match o with
  | OSelect _ | OTakeWhile _ => k
  | OWhere p => kth_hit (holds p) xs k
  | OSkipWhile p => match k with O => 0 | _ => length (take_while_l (holds p) xs) + 1 end
  | _ => 0
  end.

(* i behaves as the list xs, its first m elements costing (cp m, ct m) *)
Definition Like (i : it) (xs : list val) (cp ct : nat -> nat) : Prop :=
  forall m, m <= length xs -> exists i', StepsD i (firstn m xs) (cp m) (ct m) i'.

Lemma Like_0 i xs cp ct : Like i xs cp ct -> cp 0 = 0 /\ ct 0 = 0.
Proof. intro H. destruct (H 0 ltac:(lia)) as [i' (_ & A & B)]. split; assumption. Qed.

Lemma op_like o i xs cp ct : Like i xs cp ct ->
  Like (build o i) (outs o xs) (fun k => cp (need o xs k)) (fun k => ct (need o xs k) + tks o xs k).
Proof.
  intros H k L. destruct (Like_0 _ _ _ _ H) as [C0 T0]. destruct o; cbn [build outs need tks] in *.
  - (* select *)
    unfold select_l in *. rewrite map_length in L. destruct (H k L) as [i' HS]. exists (Map f i').
    rewrite firstn_map. eapply StepsD_eq; [apply (map_steps f _ _ _ _ _ HS) | reflexivity |].
    rewrite firstn_length. lia.
  - (* where *)
    unfold where_l in *. destruct (kth_hit_spec (holds p) xs k L) as (K1 & K2 & K3 & K4).
    destruct (H _ K1) as [i' HS]. exists (Filter p i'). rewrite <- K2.
    eapply StepsD_eq; [apply (filter_steps p _ _ _ _ _ HS) | reflexivity | rewrite firstn_length; lia].
    destruct K3 as [E|(pre & v & E & Pv)]; [left; exact E | right; exists pre, v; split; assumption].
  - (* skip *)
    unfold skip_l in *. rewrite skipn_length in L. destruct k as [|k].
    + exists (ISlice n None i). cbn. rewrite C0, T0. repeat split.
    + destruct (H (n + S k) ltac:(lia)) as [i' HS]. exists (ISlice 0 None i').
      rewrite firstn_skipn_comm. eapply StepsD_eq; [apply (skip_steps n _ _ _ _ _ HS) | reflexivity | lia].
      rewrite firstn_length. lia.
  - (* take *)
    unfold take_l in *. rewrite firstn_length in L. destruct (H k ltac:(lia)) as [i' HS].
    exists (ISlice 0 (Some (n - length (firstn k xs))) i'). rewrite firstn_firstn. replace (Nat.min k n) with k by lia.
    eapply StepsD_eq; [apply (take_steps _ n _ _ _ _ HS) | reflexivity | lia]. rewrite firstn_length. lia.
  - (* takeWhile *)
    pose proof (take_while_split (holds p) xs) as Sp.
    assert (Lx : k <= length xs). { rewrite Sp, app_length. lia. }
    destruct (H k Lx) as [i' HS]. exists (TakeWhile p i'). rewrite (take_while_firstn (holds p) xs k L).
    eapply StepsD_eq; [apply (takewhile_steps p _ _ _ _ _ HS) | reflexivity | rewrite firstn_length; lia].
    rewrite <- (take_while_firstn (holds p) xs k L). apply forallb_firstn. apply take_while_all.
  - (* skipWhile *)
    destruct k as [|k].
    + exists (DropWhile p i). cbn. rewrite C0, T0. repeat split.
    + pose proof (take_while_split (holds p) xs) as Sp. pose proof (skip_while_head (holds p) xs) as Hd.
      pose proof (take_while_all (holds p) xs) as Al.
      set (pre := take_while_l (holds p) xs) in *. set (rest := skip_while_l (holds p) xs) in *.
      destruct rest as [|v rest'] eqn:R; [cbn in L; lia|].
      assert (Lm : length pre + S k <= length xs). { rewrite Sp, app_length. cbn [length] in *. lia. }
      destruct (H _ Lm) as [i' HS]. exists i'.
      assert (F : firstn (length pre + S k) xs = pre ++ v :: firstn k rest').
      { rewrite Sp at 1. rewrite firstn_app_2. reflexivity. }
      rewrite F in HS. cbn [firstn].
      eapply StepsD_eq; [apply (dropwhile_steps p pre v _ _ _ _ _ HS Al Hd) | reflexivity | lia].
  - (* enumerate *)
    rewrite enum_vals_length in L. destruct (H k L) as [i' HS]. exists (Enumerate (n + Z.of_nat (length (firstn k xs))) i').
    rewrite enum_vals_firstn. eapply StepsD_eq; [apply (enumerate_steps _ n _ _ _ _ HS) | reflexivity | lia].
  - (* memorize *)
    destruct (H k L) as [i' HS]. exists (Memo i'). eapply StepsD_eq; [apply (memo_steps _ _ _ _ _ HS) | reflexivity | lia].
Qed.

(* each lambda is applied at most once per element its operator consumed *)
Lemma tks_le_need o xs k : k <= length (outs o xs) -> tks o xs k <= need o xs k.
Proof.
  intro L. destruct o; cbn [tks need]; try lia. destruct k; lia.
Qed.

Fixpoint build_all (ops : list sop) (i : it) : it :=
  match ops with [] => i | o :: r => build_all r (build o i) end.
Fixpoint outs_all (ops : list sop) (xs : list val) : list val :=
  match ops with [] => xs | o :: r => outs_all r (outs o xs) end.
Fixpoint need_all (ops : list sop) (xs : list val) (k : nat) : nat :=
  match ops with [] => k | o :: r => need o xs (need_all r (outs o xs) k) end.
Fixpoint tks_all (ops : list sop) (xs : list val) (k : nat) : nat :=
  match ops with
  | [] => 0
  | o :: r => tks o xs (need_all r (outs o xs) k) + tks_all r (outs o xs) k
  end.

Lemma pipeline_like ops : forall i xs cp ct, Like i xs cp ct ->
  Like (build_all ops i) (outs_all ops xs) (fun k => cp (need_all ops xs k)) (fun k => ct (need_all ops xs k) + tks_all ops xs k).
Proof.
  induction ops as [|o r IH]; intros i xs cp ct H.
  - cbn. intros m L. destruct (H m L) as [i' HS]. exists i'. eapply StepsD_eq; [exact HS | reflexivity | lia].
  - cbn [build_all outs_all need_all tks_all]. pose proof (IH _ _ _ _ (op_like o i xs cp ct H)) as R.
    intros m L. destruct (R m L) as [i' HS]. exists i'. eapply StepsD_eq; [exact HS | reflexivity | cbn; lia].
Qed.

Lemma src_like k0 n : Like (Src k0) (src_prefix k0 n) (fun m => m) (fun _ => 0).
Proof.
  intros m L. rewrite src_prefix_length in L. exists (Src (k0 + Z.of_nat m)).
  replace (firstn m (src_prefix k0 n)) with (src_prefix k0 m); [apply src_steps|].
  revert k0 m L. induction n as [|n IH]; intros k0 m L.
  - assert (m = 0) by lia. subst. reflexivity.
  - destruct m as [|m]; [reflexivity|]. cbn. f_equal. apply IH. lia.
Qed.

(* the composed statement: over the endless source, from ANY state, the first k
   results of the pipeline are produced with exactly [need_all] pulls and
   [tks_all] lambda applications, whatever lies beyond the inspected prefix *)
Theorem pipeline_demand ops k0 n k :
  let xs := src_prefix k0 n in
  k <= length (outs_all ops xs) ->
  exists i', StepsD (build_all ops (Src k0)) (firstn k (outs_all ops xs)) (need_all ops xs k) (tks_all ops xs k) i'.
Proof.
  intros xs L. destruct (pipeline_like ops _ _ _ _ (src_like k0 n) k L) as [i' HS]. exists i'. exact HS.
Qed.

(* pulls observed from a concrete state through [run] *)
Lemma steps_run l : forall i dp dt i', StepsD i l dp dt i' ->
  forall s, exists fuel, run fuel s i (length l) = (plus_st s dp dt, l, Running i').
Proof.
  induction l as [|v r IH]; intros i dp dt i' H s.
  - destruct H as (-> & -> & ->). exists 0. cbn. rewrite plus_st_0. reflexivity.
  - destruct H as (j & a & b & c & d & Y & HS & -> & ->).
    destruct (yields_at _ _ _ _ _ Y s) as [f1 F1]. destruct (IH _ _ _ _ HS (plus_st s a b)) as [f2 F2].
    (* run uses one amount of fuel for every step: replay the tail with the larger amount *)
    assert (G : forall l' i0 s0 f sres ires, run f s0 i0 (length l') = (sres, l', Running ires) ->
                forall f', f <= f' -> run f' s0 i0 (length l') = (sres, l', Running ires)).
    { induction l' as [|w l' IHl]; intros i0 s0 f sres ires R f' Lf; [exact R|]. cbn [length run] in *.
      destruct (next f s0 i0) as [s1 o] eqn:E. destruct o; try discriminate R.
      rewrite (next_yield_mono _ f' _ _ _ _ _ E Lf).
      destruct (run f s1 i1 (length l')) as [[s2 l2] r2] eqn:E2. injection R as -> -> -> ->.
      rewrite (IHl _ _ _ _ _ E2 f' Lf). reflexivity. }
    exists (Nat.max f1 f2). cbn [length run]. rewrite F1 by lia. rewrite (G _ _ _ _ _ _ F2) by lia.
    rewrite plus_st_plus. reflexivity.
Qed.

(* ========================================================================== *)
(* C13: streaming == list semantics                                             *)
(* ========================================================================== *)
Lemma denotes_map f i l : Denotes i l -> Denotes (Map f i) (select_l (apply f) l).
Proof.
  intros (dp & dt & i' & dp' & dt' & HS & E). exists dp, (dt + length l), (Map f i'), dp', dt'.
  split; [apply map_steps; exact HS | apply map_ends; exact E].
Qed.

Lemma split_last_hit (p : val -> bool) l :
  exists l1 l2, l = l1 ++ l2 /\ forallb (fun x => negb (p x)) l2 = true /\
                (l1 = [] \/ exists pre v, l1 = pre ++ [v] /\ p v = true).
Proof.
  induction l as [|x r IH] using rev_ind.
  - exists [], []. repeat split. left. reflexivity.
  - destruct (p x) eqn:P.
    + exists (r ++ [x]), []. rewrite app_nil_r. repeat split. right. exists r, x. split; [reflexivity | exact P].
    + destruct IH as (l1 & l2 & -> & M & W). exists l1, (l2 ++ [x]). rewrite app_assoc. repeat split; [|exact W].
      rewrite forallb_app, M. cbn. rewrite P. reflexivity.
Qed.

Lemma filter_all_miss (p : val -> bool) l : forallb (fun x => negb (p x)) l = true -> filter p l = [].
Proof.
  induction l as [|x r IH]; [reflexivity|]. cbn. intro H. apply andb_true_iff in H as [H1 H2].
  apply negb_true_iff in H1. rewrite H1. apply IH. exact H2.
Qed.

Lemma denotes_filter p i l : Denotes i l -> Denotes (Filter p i) (where_l (holds p) l).
Proof.
  intros (dp & dt & i' & dp' & dt' & HS & E). destruct (split_last_hit (holds p) l) as (l1 & l2 & -> & M & W).
  destruct (StepsD_split _ _ _ _ _ _ HS) as (p1 & t1 & i1 & p2 & t2 & S1 & S2 & -> & ->).
  unfold where_l. rewrite filter_app, (filter_all_miss _ _ M), app_nil_r.
  exists p1, (t1 + length l1), (Filter p i1), (p2 + dp'), (t2 + length l2 + dt'). split.
  - apply filter_steps; [exact S1|]. destruct W as [W|(pre & v & W & Pv)]; [left; exact W | right; exists pre, v; split; assumption].
  - apply (filter_misses_end p _ _ _ _ _ _ _ S2 E M).
Qed.

Lemma take_ends_some b i dp dt : EndsD i dp dt -> EndsD (ISlice 0 (Some (S b)) i) dp dt.
Proof. intros H s. destruct (H s) as [fu E]. exists (S fu). cbn [next]. rewrite E. reflexivity. Qed.

Lemma denotes_take b i l : Denotes i l -> Denotes (ISlice 0 (Some b) i) (take_l b l).
Proof.
  intros (dp & dt & i' & dp' & dt' & HS & E). unfold take_l.
  destruct (le_lt_dec (length l) b) as [L|L].
  - rewrite firstn_all2 by exact L. pose proof (take_steps l b _ _ _ _ HS L) as T.
    destruct (b - length l) as [|c].
    + exists dp, dt, (ISlice 0 (Some 0) i'), 0, 0. split; [exact T | apply take_stops].
    + exists dp, dt, (ISlice 0 (Some (S c)) i'), dp', dt'. split; [exact T | apply take_ends_some; exact E].
  - rewrite <- (firstn_skipn b l) in HS. destruct (StepsD_split _ _ _ _ _ _ HS) as (p1 & t1 & i1 & p2 & t2 & S1 & S2 & -> & ->).
    exists p1, t1, (ISlice 0 (Some (b - length (firstn b l))) i1), 0, 0. split.
    + apply take_steps; [exact S1 | rewrite firstn_length; lia].
    + rewrite firstn_length. replace (b - Nat.min b (length l)) with 0 by lia. apply take_stops.
Qed.

Lemma skip_ends_none i dp dt : EndsD i dp dt -> EndsD (ISlice 0 None i) dp dt.
Proof. intros H s. destruct (H s) as [fu E]. exists (S fu). cbn [next]. rewrite E. reflexivity. Qed.

Lemma skip_exhaust l : forall a i dp dt i' dp' dt', StepsD i l dp dt i' -> EndsD i' dp' dt' -> length l <= a ->
  EndsD (ISlice a None i) (dp + dp') (dt + dt').
Proof.
  induction l as [|x r IH]; intros a i dp dt i' dp' dt' HS E L.
  - destruct HS as (-> & -> & ->). intro s. destruct (E s) as [fu F]. exists (S fu).
    destruct a; cbn [next]; rewrite F; reflexivity.
  - destruct HS as (j & p1 & t1 & p2 & t2 & Y & HS & -> & ->). cbn [length] in L. destruct a as [|a]; [lia|].
    pose proof (IH a _ _ _ _ _ _ HS E ltac:(lia)) as R. intro s.
    destruct (yields_at _ _ _ _ _ Y s) as [f1 F1]. destruct (ends_at _ _ _ R (plus_st s p1 t1)) as [f2 F2].
    exists (S (Nat.max f1 f2)). cbn [next]. rewrite F1 by lia. rewrite F2 by lia. rewrite plus_st_plus.
    f_equal. apply plus_st_eq; lia.
Qed.

Lemma denotes_skip a i l : Denotes i l -> Denotes (ISlice a None i) (skip_l a l).
Proof.
  intros (dp & dt & i' & dp' & dt' & HS & E). unfold skip_l.
  destruct (le_lt_dec (length l) a) as [L|L].
  - rewrite skipn_all2 by exact L. exists 0, 0, (ISlice a None i), (dp + dp'), (dt + dt'). split; [cbn; repeat split|].
    apply (skip_exhaust l a _ _ _ _ _ _ HS E L).
  - exists dp, dt, (ISlice 0 None i'), dp', dt'. split; [apply skip_steps; assumption | apply skip_ends_none; exact E].
Qed.

Lemma denotes_take_while p i l : Denotes i l -> Denotes (TakeWhile p i) (take_while_l (holds p) l).
Proof.
  intros (dp & dt & i' & dp' & dt' & HS & E).
  pose proof (take_while_split (holds p) l) as Sp. pose proof (skip_while_head (holds p) l) as Hd.
  pose proof (take_while_all (holds p) l) as Al.
  rewrite Sp in HS. destruct (StepsD_split _ _ _ _ _ _ HS) as (p1 & t1 & i1 & p2 & t2 & S1 & S2 & -> & ->).
  destruct (skip_while_l (holds p) l) as [|v rest].
  - destruct S2 as (-> & -> & ->). exists p1, (t1 + length (take_while_l (holds p) l)), (TakeWhile p i1), dp', dt'.
    split; [apply takewhile_steps; assumption | apply takewhile_ends; exact E].
  - destruct S2 as (j & a & b & c & d & Y & _ & -> & ->).
    exists p1, (t1 + length (take_while_l (holds p) l)), (TakeWhile p i1), a, (b + 1).
    split; [apply takewhile_steps; assumption | apply (takewhile_stops p _ _ _ _ _ Y Hd)].
Qed.

Lemma denotes_enumerate n i l : Denotes i l -> Denotes (Enumerate n i) (enum_vals n l).
Proof.
  intros (dp & dt & i' & dp' & dt' & HS & E). exists dp, dt, (Enumerate (n + Z.of_nat (length l)) i'), dp', dt'.
  split; [apply enumerate_steps; exact HS | apply enumerate_ends; exact E].
Qed.

Lemma denotes_memo i l : Denotes i l -> Denotes (Memo i) l.
Proof.
  intros (dp & dt & i' & dp' & dt' & HS & E). exists dp, dt, (Memo i'), dp', dt'.
  split; [apply memo_steps; exact HS | apply memo_ends; exact E].
Qed.

Lemma denotes_chain i j l1 l2 : Denotes i l1 -> Denotes j l2 -> Denotes (Chain i j) (l1 ++ l2).
Proof.
  intros (dp & dt & i' & dp' & dt' & HS & E) (ep & et & j' & ep' & et' & S2 & E2).
  pose proof (chain_steps j _ _ _ _ _ HS) as C1.
  destruct l2 as [|v r].
  - destruct S2 as (-> & -> & ->). rewrite app_nil_r. exists dp, dt, (Chain i' j), (dp' + ep'), (dt' + et').
    split; [exact C1 | apply chain_ends; assumption].
  - destruct S2 as (j1 & a & b & c & d & Y & HS2 & -> & ->).
    exists (dp + (dp' + a + c)), (dt + (dt' + b + d)), j', ep', et'. split; [|exact E2].
    apply (StepsD_app _ _ _ _ _ _ _ _ _ C1).
    eapply StepsD_eq; [apply (StepsD_cons _ v j1 (dp' + a) (dt' + b) r c d j')| lia | lia]; [|exact HS2].
    intro s. apply (chain_second i' j dp' dt' v j1 a b E Y s).
Qed.

Lemma denotes_accumulate_seed f sd i l : Denotes i l ->
  Denotes (AccStart f (Some sd) i) (accumulate_seed (apply2 f) sd l).
Proof.
  intros (dp & dt & i' & dp' & dt' & HS & E). unfold accumulate_seed.
  exists (0 + dp), (0 + (dt + length l)), (AccRun f (fold_left (apply2 f) l sd) i'), dp', dt'. split.
  - apply (StepsD_cons _ _ _ _ _ _ _ _ _ (accstart_seed f sd i)). apply accrun_steps. exact HS.
  - apply accrun_ends. exact E.
Qed.

Lemma dropwhile_ends p i dp dt : EndsD i dp dt -> EndsD (DropWhile p i) dp dt.
Proof. intros H s. destruct (H s) as [fu E]. exists (S fu). cbn [next]. rewrite E. reflexivity. Qed.

Lemma dropwhile_skip_end p i x i1 dp1 dt1 dp2 dt2 :
  YieldsD i x i1 dp1 dt1 -> holds p x = true -> EndsD (DropWhile p i1) dp2 dt2 ->
  EndsD (DropWhile p i) (dp1 + dp2) (dt1 + 1 + dt2).
Proof.
  intros H P H2 s. destruct (yields_at _ _ _ _ _ H s) as [f1 F1].
  destruct (ends_at _ _ _ H2 (tick (plus_st s dp1 dt1))) as [f2 F2].
  exists (S (Nat.max f1 f2)). cbn [next]. rewrite F1 by lia. unfold holds in P. rewrite P.
  rewrite F2 by lia. rewrite tick_plus, plus_st_plus. reflexivity.
Qed.

Lemma dropwhile_all_end p l : forall i dp dt i' dp' dt', StepsD i l dp dt i' -> EndsD i' dp' dt' ->
  forallb (holds p) l = true -> EndsD (DropWhile p i) (dp + dp') (dt + length l + dt').
Proof.
  induction l as [|x r IH]; intros i dp dt i' dp' dt' H E M.
  - destruct H as (-> & -> & ->). cbn. eapply EndsD_eq; [apply dropwhile_ends; exact E | lia | lia].
  - destruct H as (j & a & b & c & d & Y & HS & -> & ->). cbn [forallb] in M. apply andb_true_iff in M as [Mx Mr].
    cbn [length].
    eapply EndsD_eq; [apply (dropwhile_skip_end p _ _ _ _ _ _ _ Y Mx (IH _ _ _ _ _ _ HS E Mr)) | lia | lia].
Qed.

Lemma denotes_skip_while p i l : Denotes i l -> Denotes (DropWhile p i) (skip_while_l (holds p) l).
Proof.
  intros (dp & dt & i' & dp' & dt' & HS & E).
  pose proof (take_while_split (holds p) l) as Sp. pose proof (skip_while_head (holds p) l) as Hd.
  pose proof (take_while_all (holds p) l) as Al.
  destruct (skip_while_l (holds p) l) as [|v rest] eqn:R.
  - rewrite app_nil_r in Sp. rewrite <- Sp in Al.
    exists 0, 0, (DropWhile p i), (dp + dp'), (dt + length l + dt'). split; [cbn; repeat split|].
    apply (dropwhile_all_end p l _ _ _ _ _ _ HS E Al).
  - rewrite Sp in HS. exists dp, (dt + length (take_while_l (holds p) l) + 1), i', dp', dt'. split; [|exact E].
    apply (dropwhile_steps p _ v rest _ _ _ _ HS Al Hd).
Qed.

(* a whole pipeline of the operators above over a finite source *)
Theorem pipeline_denotes ops : forall i l, Denotes i l -> Denotes (build_all ops i) (outs_all ops l).
Proof.
  induction ops as [|o r IH]; intros i l H; [exact H|]. cbn [build_all outs_all]. apply IH.
  destruct o; cbn [build outs].
  - apply denotes_map; exact H.
  - apply denotes_filter; exact H.
  - apply denotes_skip; exact H.
  - apply denotes_take; exact H.
  - apply denotes_take_while; exact H.
  - apply denotes_skip_while; exact H.
  - apply denotes_enumerate; exact H.
  - apply denotes_memo; exact H.
Qed.

(* and what [Denotes] means for the executable [drain] *)
Lemma denotes_drain l : forall i, Denotes i l -> forall s, exists fuel s', drain fuel s i = (s', Ok l).
Proof.
  induction l as [|v r IH]; intros i (dp & dt & i' & dp' & dt' & HS & E) s.
  - destruct HS as (-> & -> & ->). destruct (E s) as [fu F]. exists (S fu), (plus_st s dp' dt'). cbn [drain]. rewrite F. reflexivity.
  - destruct HS as (j & a & b & c & d & Y & HS & -> & ->).
    destruct (yields_at _ _ _ _ _ Y s) as [f1 F1].
    assert (D : Denotes j r) by (exists c, d, i', dp', dt'; split; assumption).
    destruct (IH j D (plus_st s a b)) as (f2 & s2 & F2).
    assert (G : forall f l0 i0 s0 sres, drain f s0 i0 = (sres, Ok l0) -> forall f', f <= f' -> drain f' s0 i0 = (sres, Ok l0)).
    { induction f as [|f IHf]; intros l0 i0 s0 sres R f' Lf; [discriminate R|]. destruct f' as [|f']; [lia|].
      cbn [drain] in *. destruct (next f s0 i0) as [s1 o] eqn:En. destruct o; try discriminate R.
      - rewrite (next_yield_mono _ f' _ _ _ _ _ En ltac:(lia)).
        destruct (drain f s1 i1) as [s3 [l3| | |]] eqn:Ed; try discriminate R.
        rewrite (IHf _ _ _ _ Ed f' ltac:(lia)). exact R.
      - rewrite (next_done_mono _ f' _ _ _ En ltac:(lia)). exact R. }
    exists (S (Nat.max f1 f2)), s2. cbn [drain]. rewrite F1 by lia. rewrite (G _ _ _ _ _ F2) by lia. reflexivity.
Qed.

(* the composed demand theorem as seen through [run] from a concrete state *)
Theorem pipeline_demand_run ops k0 n k s :
  let xs := src_prefix k0 n in
  k <= length (outs_all ops xs) ->
  exists fuel s' i',
    run fuel s (build_all ops (Src k0)) k = (s', firstn k (outs_all ops xs), Running i') /\
    pulls s' = pulls s + need_all ops xs k /\
    pulls s' <= pulls s + need_all ops xs k + 1 /\
    ticks s' = ticks s + tks_all ops xs k.
Proof.
  intros xs L. destruct (pipeline_demand ops k0 n k L) as [i' HS].
  destruct (steps_run _ _ _ _ _ HS s) as [fuel R]. fold xs in R.
  rewrite firstn_length in R. replace (Nat.min k (length (outs_all ops xs))) with k in R by lia.
  exists fuel, (plus_st s (need_all ops xs k) (tks_all ops xs k)), i'. split; [exact R|]. cbn. lia.
Qed.
