(* The delegate call `value(args)`: its rank (Model/Pratt.call_rank) lies below every rank
   of the table, so every pending operator rule is reduced before the call. *)
From Coq Require Import List ZArith Bool Arith Lia.
From YV Require Import Common.Corr Model.OpTable Model.Pratt.
Import ListNotations.
Local Open Scope Z_scope.

Lemma lookup_row_in : forall s l r, lookup_row s l = Some r -> In r l.
Proof.
  intros s l. induction l as [|y l IH]; intros r H; [discriminate|]. cbn [lookup_row] in H.
  destruct (str_eqb (b_sym y) s); [inversion H; left; reflexivity|right; apply IH; exact H].
Qed.

Definition row_max (r : brow) : Z := Z.max (Z.abs (b_up r)) (Z.abs (b_bp r)).

Lemma fold_max_ge : forall l m, m <= fold_left (fun m r => Z.max m (row_max r)) l m /\
  forall r, In r l -> row_max r <= fold_left (fun m r => Z.max m (row_max r)) l m.
Proof.
  induction l as [|y l IH]; intro m; cbn [fold_left]; [split; [lia|intros r []]|].
  destruct (IH (Z.max m (row_max y))) as [A B]. split; [lia|].
  intros r [H|H]; [subst; lia|apply B; exact H].
Qed.

Lemma max_level_ge : forall B r, In r (rows B) -> row_max r <= max_level B.
Proof. intros B r H. unfold max_level. exact (proj2 (fold_max_ge (rows B) 0) r H). Qed.

Lemma key_of_le : forall l q, key_of l = Some q -> grp q = Z.abs l.
Proof.
  intros l q H. unfold key_of in H. destruct (l =? 0); [discriminate|]. inversion H. reflexivity.
Qed.

Lemma table_rank_le : forall B o q,
  pre_rank B o = Some q \/ suf_rank B o = Some q \/ bin_rank B o = Some q -> grp q <= max_level B.
Proof.
  intros B o q H. unfold pre_rank, suf_rank, bin_rank in H.
  destruct (lookup_row o (rows B)) as [r|] eqn:L.
  2:{ destruct H as [H|[H|H]]; discriminate. }
  pose proof (max_level_ge B r (lookup_row_in _ _ _ L)) as M. unfold row_max in M.
  destruct H as [H|[H|H]].
  - destruct (0 <? b_up r); [|discriminate]. apply key_of_le in H. lia.
  - destruct (b_up r <? 0); [|discriminate]. apply key_of_le in H. lia.
  - apply key_of_le in H. lia.
Qed.

Theorem call_reduces_all : forall B o q,
  pre_rank B o = Some q \/ suf_rank B o = Some q \/ bin_rank B o = Some q ->
  continues (call_rank B) (Some q) = false.
Proof.
  intros B o q H. pose proof (table_rank_le B o q H) as L.
  unfold continues, above, same, call_rank. cbn [grp ln].
  assert (A : (max_level B + 1 <? grp q) = false) by (apply Z.ltb_ge; lia).
  assert (E : (max_level B + 1 =? grp q) = false) by (apply Z.eqb_neq; lia).
  rewrite A, E. reflexivity.
Qed.
