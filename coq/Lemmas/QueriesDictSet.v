(* Persistent dict updates against association-list semantics (last write wins,
   untouched keys unchanged, insertion order kept) and set algebra against
   list-set semantics. *)
From Coq Require Import List ZArith Bool Arith Lia.
From YV Require Import Common.Corr Model.Queries Lemmas.QueriesGroup.
Import ListNotations.

Lemma val_eqb_false_sym a b : val_eqb a b = false -> val_eqb b a = false.
Proof. intro H. rewrite val_eqb_sym. exact H. Qed.

(* ---- dicts ---------------------------------------------------------------------- *)
Lemma dict_get_set_same k v d : dict_get_l k (dict_set_l k v d) = Some v.
Proof.
  induction d as [|[k' v'] r IH]; cbn [dict_set_l dict_get_l].
  - rewrite val_eqb_refl. reflexivity.
  - destruct (val_eqb k k') eqn:E; cbn [dict_get_l]; rewrite E; [reflexivity | exact IH].
Qed.

Lemma dict_get_set_other k v d k2 : val_eqb k2 k = false -> dict_get_l k2 (dict_set_l k v d) = dict_get_l k2 d.
Proof.
  intro N. induction d as [|[k' v'] r IH]; cbn [dict_set_l dict_get_l].
  - rewrite N. reflexivity.
  - destruct (val_eqb k k') eqn:E; cbn [dict_get_l].
    + assert (N2 : val_eqb k2 k' = false).
      { destruct (val_eqb k2 k') eqn:Q; [|reflexivity]. rewrite (val_eqb_sym k k') in E.
        rewrite (val_eqb_trans k2 k' k Q E) in N. discriminate N. }
      rewrite N2. reflexivity.
    + destruct (val_eqb k2 k'); [reflexivity | exact IH].
Qed.

(* a key that is already present keeps its place (and its original spelling); a new key goes last *)
Lemma dict_set_keys k v d :
  map fst (dict_set_l k v d) = match dict_get_l k d with Some _ => map fst d | None => map fst d ++ [k] end.
Proof.
  induction d as [|[k' v'] r IH]; cbn [dict_set_l dict_get_l map fst app]; [reflexivity|].
  destruct (val_eqb k k') eqn:E; cbn [map fst]; [reflexivity|]. rewrite IH.
  destruct (dict_get_l k r); reflexivity.
Qed.

Lemma dict_get_del_same k d :
  ForallOrdPairs (fun a b => val_eqb (fst b) (fst a) = false) d -> dict_get_l k (dict_del_l k d) = None.
Proof.
  induction d as [|[k' v'] r IH]; intro D; cbn [dict_del_l dict_get_l]; [reflexivity|].
  inversion D as [|? ? F Dr]; subst. destruct (val_eqb k k') eqn:E.
  - (* the remaining keys all differ from k', hence from k *)
    clear IH D Dr. induction r as [|[k2 v2] r2 IH2]; [reflexivity|]. cbn [dict_get_l].
    inversion F as [|? ? F2 Fr]; subst. cbn [fst] in F2.
    assert (N : val_eqb k k2 = false).
    { destruct (val_eqb k k2) eqn:Q; [|reflexivity]. rewrite (val_eqb_sym k k') in E.
      rewrite (val_eqb_sym k2 k') in F2. rewrite (val_eqb_trans k' k k2 E Q) in F2. discriminate F2. }
    rewrite N. apply IH2. exact Fr.
  - cbn [dict_get_l]. rewrite E. apply IH. exact Dr.
Qed.

Lemma dict_get_del_other k d k2 : val_eqb k2 k = false -> dict_get_l k2 (dict_del_l k d) = dict_get_l k2 d.
Proof.
  intro N. induction d as [|[k' v'] r IH]; cbn [dict_del_l dict_get_l]; [reflexivity|].
  destruct (val_eqb k k') eqn:E.
  - assert (N2 : val_eqb k2 k' = false).
    { destruct (val_eqb k2 k') eqn:Q; [|reflexivity]. rewrite (val_eqb_sym k k') in E.
      rewrite (val_eqb_trans k2 k' k Q E) in N. discriminate N. }
    rewrite N2. reflexivity.
  - cbn [dict_get_l]. destruct (val_eqb k2 k'); [reflexivity | exact IH].
Qed.

(* d + e, d.set(e): the right operand wins; keys of d not in e are untouched *)
Lemma dict_update_get d e k :
  dict_get_l k (dict_update_l d e) =
  match dict_get_l k (dict_of_items e) with Some v => Some v | None => dict_get_l k d end.
Proof.
  unfold dict_update_l, dict_of_items.
  revert d. induction e as [|[k1 v1] r IH] using rev_ind; intro d; [reflexivity|].
  rewrite !fold_left_app. cbn [fold_left fst snd].
  destruct (val_eqb k k1) eqn:E.
  - (* k is (equal to) the last written key: both sides give v1 *)
    assert (S1 : forall dd, dict_get_l k (dict_set_l k1 v1 dd) = Some v1).
    { intro dd. induction dd as [|[k' v'] rr IHd]; cbn [dict_set_l dict_get_l]; [rewrite E; reflexivity|].
      destruct (val_eqb k1 k') eqn:Q; cbn [dict_get_l].
      - rewrite (val_eqb_trans k k1 k' E Q). reflexivity.
      - destruct (val_eqb k k') eqn:Q2; [|exact IHd]. rewrite (val_eqb_sym k k1) in E.
        rewrite (val_eqb_trans k1 k k' E Q2) in Q. discriminate Q. }
    rewrite !S1. reflexivity.
  - rewrite !(dict_get_set_other k1 v1 _ k E). apply IH.
Qed.

(* toDict / dict(items): the LAST item written for a key gives its value *)
Lemma dict_of_items_last items k v : dict_get_l k (dict_of_items (items ++ [(k, v)])) = Some v.
Proof. unfold dict_of_items. rewrite fold_left_app. cbn. apply dict_get_set_same. Qed.

(* keys(), values(), items() are three views of one association list *)
Lemma dict_views_consistent (d : kvs) :
  combine (map fst d) (map snd d) = d /\ length (map fst d) = length (map snd d).
Proof.
  split; [|rewrite !map_length; reflexivity].
  induction d as [|[k v] r IH]; [reflexivity|]. cbn. f_equal. exact IH.
Qed.

(* ---- sets --------------------------------------------------------------------------- *)
Lemma vmem_app x a b : vmem x (a ++ b) = vmem x a || vmem x b.
Proof. induction a as [|y r IH]; cbn; [reflexivity|]. rewrite IH. apply orb_assoc. Qed.

Lemma vmem_eqb x y l : val_eqb x y = true -> vmem x l = vmem y l.
Proof.
  intro E. induction l as [|z r IH]; [reflexivity|]. cbn. rewrite IH. f_equal.
  destruct (val_eqb x z) eqn:A, (val_eqb y z) eqn:B; try reflexivity.
  - rewrite (val_eqb_sym x y) in E. rewrite (val_eqb_trans y x z E A) in B. discriminate B.
  - rewrite (val_eqb_trans x y z E B) in A. discriminate A.
Qed.

Lemma set_of_list_from_mem x l : forall acc, vmem x (set_of_list_from acc l) = vmem x acc || vmem x l.
Proof.
  induction l as [|y r IH]; intro acc; cbn [set_of_list_from vmem]; [rewrite orb_false_r; reflexivity|].
  destruct (vmem y acc) eqn:M; rewrite IH.
  - destruct (val_eqb x y) eqn:E; [|reflexivity]. rewrite (vmem_eqb x y acc E), M. reflexivity.
  - rewrite vmem_app. cbn. rewrite orb_false_r. apply eq_sym, orb_assoc.
Qed.

Definition no_dups (l : list val) : Prop := ForallOrdPairs (fun a b => val_eqb b a = false) l.

Lemma set_of_list_from_nodup l : forall acc, no_dups acc -> no_dups (set_of_list_from acc l).
Proof.
  induction l as [|y r IH]; intros acc D; cbn [set_of_list_from]; [exact D|].
  destruct (vmem y acc) eqn:M; [apply IH; exact D|]. apply IH.
  unfold no_dups in *. clear IH. induction acc as [|a acc IHa]; cbn [app].
  - repeat constructor.
  - inversion D as [|? ? F Dr]; subst. cbn [vmem] in M. apply orb_false_iff in M as [M1 M2].
    constructor; [|apply IHa; assumption]. apply Forall_app. split; [exact F|]. constructor; [exact M1 | constructor].
Qed.

Lemma filter_nodup (p : val -> bool) l : no_dups l -> no_dups (filter p l).
Proof.
  unfold no_dups. induction l as [|x r IH]; intro D; [constructor|]. inversion D as [|? ? F Dr]; subst. cbn [filter].
  destruct (p x); [|apply IH; exact Dr]. constructor; [|apply IH; exact Dr].
  rewrite Forall_forall in *. intros y Hy. apply filter_In in Hy as [Hy _]. apply F. exact Hy.
Qed.

Lemma vmem_filter x (p : val -> bool) l : (forall y, val_eqb x y = true -> p y = p x) ->
  vmem x (filter p l) = vmem x l && p x.
Proof.
  intro C. induction l as [|y r IH]; [reflexivity|]. cbn [filter vmem]. destruct (p y) eqn:P; cbn [vmem]; rewrite IH.
  - destruct (val_eqb x y) eqn:E; cbn; [rewrite <- (C y E), P; reflexivity | reflexivity].
  - destruct (val_eqb x y) eqn:E; cbn; [rewrite <- (C y E), P; rewrite andb_false_r; reflexivity | reflexivity].
Qed.

Theorem set_algebra_spec a b x :
  vmem x (set_union a b) = vmem x a || vmem x b /\
  vmem x (set_inter a b) = vmem x a && vmem x b /\
  vmem x (set_diff a b) = vmem x a && negb (vmem x b) /\
  vmem x (set_symdiff a b) = xorb (vmem x a) (vmem x b).
Proof.
  repeat split.
  - apply set_of_list_from_mem.
  - unfold set_inter. apply vmem_filter. intros y E. symmetry. apply (vmem_eqb x y b E).
  - unfold set_diff. apply vmem_filter. intros y E. f_equal. symmetry. apply (vmem_eqb x y b E).
  - unfold set_symdiff, set_diff. rewrite vmem_app.
    rewrite (vmem_filter x (fun z => negb (vmem z b)) a) by (intros y E; f_equal; symmetry; apply (vmem_eqb x y b E)).
    rewrite (vmem_filter x (fun z => negb (vmem z a)) b) by (intros y E; f_equal; symmetry; apply (vmem_eqb x y a E)).
    destruct (vmem x a), (vmem x b); reflexivity.
Qed.

Theorem set_results_nodup a b : no_dups a -> no_dups b ->
  no_dups (set_union a b) /\ no_dups (set_inter a b) /\ no_dups (set_diff a b) /\ no_dups (set_of_list a).
Proof.
  intros Da Db. repeat split.
  - apply set_of_list_from_nodup. exact Da.
  - apply filter_nodup. exact Da.
  - apply filter_nodup. exact Da.
  - apply set_of_list_from_nodup. constructor.
Qed.
