(* Proofs about hex / escapeRegex / isString / isRegex (Model/Strings.v). *)
From Coq Require Import List ZArith Bool Lia ZifyBool.
From YV Require Import Common.Corr Model.Strings Lemmas.StringsTrim.
Import ListNotations.
Open Scope Z_scope.

Lemma backslash_special : memb 92 re_special = true.
Proof. vm_compute. reflexivity. Qed.

Lemma unescape_escape s : unescape (escape_regex s) = s.
Proof.
  induction s as [|c r IH]; [reflexivity|].
  unfold escape_regex in *. cbn [flat_map]. destruct (memb c re_special) eqn:E.
  - cbn [app unescape]. replace (92 =? 92) with true by reflexivity. rewrite IH. reflexivity.
  - cbn [app unescape]. destruct (c =? 92) eqn:E2.
    + apply Z.eqb_eq in E2. subst c. rewrite backslash_special in E. discriminate.
    + rewrite IH. reflexivity.
Qed.

Lemma escape_plain s : forallb (fun c => negb (memb c re_special)) s = true -> escape_regex s = s.
Proof.
  induction s as [|c r IH]; intro H; [reflexivity|]. cbn [forallb] in H. apply andb_true_iff in H as [H1 H2].
  unfold escape_regex in *. cbn [flat_map]. destruct (memb c re_special); [discriminate|]. cbn [app]. rewrite IH by exact H2. reflexivity.
Qed.

Lemma escape_length s : (length s <= length (escape_regex s) <= 2 * length s)%nat.
Proof.
  induction s as [|c r IH]; [cbn; lia|]. unfold escape_regex in *. cbn [flat_map].
  destruct (memb c re_special); rewrite app_length; cbn [length] in *; lia.
Qed.

Lemma hex_negative n : n < 0 -> hex_of n = 45 :: hex_of (- n).
Proof. intro H. unfold hex_of. destruct (n <? 0) eqn:E; [|lia]. destruct (- n <? 0) eqn:E2; [lia|]. reflexivity. Qed.

Lemma hex_small n : 0 <= n < 16 -> hex_of n = [48; 120; hex_digit n].
Proof.
  intro H. unfold hex_of, hex_abs. destruct (n <? 0) eqn:E; [lia|]. cbn [hex_go].
  rewrite Z.mod_small by lia. destruct (n <? 16) eqn:E2; [reflexivity|lia].
Qed.

Lemma is_string_regex_spec v :
  (is_string v = true <-> exists s, v = SStr s) /\ is_regex (Some v) = false /\ is_regex None = true.
Proof.
  split; [|split; reflexivity]. split.
  - destruct v; cbn; try discriminate. intros _. eexists. reflexivity.
  - intros [s ->]. reflexivity.
Qed.

(* ---- kinds of the collection results (Model/StringKinds.v) ---------------------------------- *)
From YV Require Import Model.StringKinds.

Lemma collection_kinds_spec f :
  result_kind f <> RKList /\ result_kind f <> RKOther /\
  finalised true (result_kind f) = FKList /\
  (finalised false (result_kind f) = FKTuple <-> result_kind f = RKTuple) /\
  (result_kind f = RKIter <-> f = FSearchAll \/ f = FSearchAllSel).
Proof.
  destruct f; cbn; repeat split; try discriminate; try reflexivity; try tauto;
    try (intros [H|H]; discriminate).
Qed.

(* ---- join / replace(dict) are parameterised by the context's str conversion ---------------------- *)
Lemma conv_spec f parts sep s k v rest cnt :
  join_with f parts sep = join sep (map f parts) /\
  join_with str_of parts sep = join_scalars parts sep /\
  replace_dict_with str_of s rest cnt = replace_dict s rest cnt /\
  replace_dict_with f s ((k, v) :: rest) cnt = replace_dict_with f (str_replace s (f k) (f v) cnt) rest cnt /\
  (forall g, (forall x, In x parts -> f x = g x) -> join_with f parts sep = join_with g parts sep).
Proof.
  repeat split; try reflexivity.
  intros g H. unfold join_with. f_equal. apply map_ext_in. exact H.
Qed.
