(* Fuel suffices: once [next] answers with something other than NoFuel, more fuel
   gives the same answer.  Everything else about the iterator algebra is proved
   with per-step existential fuel and aligned through this lemma. *)
From Coq Require Import List ZArith Bool Arith Lia.
From YV Require Import Common.Corr Model.Queries Model.Streams.
Import ListNotations.

Lemma zip_go_ext (step1 step2 : st -> it -> st * outcome) :
  (forall s j, snd (step1 s j) <> NoFuel -> step2 s j = step1 s j) ->
  forall l s vs js, snd (zip_go step1 s l vs js) <> NoFuel -> zip_go step2 s l vs js = zip_go step1 s l vs js.
Proof.
  intros H l. induction l as [|j r IH]; intros s vs js N; [reflexivity|].
  cbn [zip_go] in *. destruct (step1 s j) as [s1 o] eqn:E.
  rewrite (H s j) by (rewrite E; destruct o; cbn in *; congruence). rewrite E.
  destruct o; try reflexivity. apply IH. exact N.
Qed.

Lemma slice_collect_ext (step1 step2 : st -> it -> st * outcome) n :
  (forall s j, snd (step1 s j) <> NoFuel -> step2 s j = step1 s j) ->
  forall k s j acc, snd (slice_collect step1 n k s j acc) <> NoFuel ->
                    slice_collect step2 n k s j acc = slice_collect step1 n k s j acc.
Proof.
  intros H k. induction k as [|k IH]; intros s j acc N; [reflexivity|].
  cbn [slice_collect] in *. destruct (step1 s j) as [s1 o] eqn:E.
  rewrite (H s j) by (rewrite E; destruct o; cbn in *; try congruence; destruct acc; cbn in *; congruence). rewrite E.
  destruct o; try reflexivity. apply IH. exact N.
Qed.

Lemma zipl_go_ext (step1 step2 : st -> it -> st * outcome) fill :
  (forall s j, snd (step1 s j) <> NoFuel -> step2 s j = step1 s j) ->
  forall l s vs js a, snd (zipl_go step1 fill s l vs js a) <> NoFuel ->
                      zipl_go step2 fill s l vs js a = zipl_go step1 fill s l vs js a.
Proof.
  intros H l. induction l as [|[j|] r IH]; intros s vs js a N; [reflexivity| |apply IH; exact N].
  cbn [zipl_go] in *. destruct (step1 s j) as [s1 o] eqn:E.
  rewrite (H s j) by (rewrite E; destruct o; cbn in *; congruence). rewrite E.
  destruct o; try reflexivity; apply IH; exact N.
Qed.

Ltac mono_inner IH d :=
  match goal with
  | H : snd _ <> NoFuel |- context [next (d + ?f) ?s ?j] =>
      let E := fresh "E" in
      let o := fresh "o" in
      destruct (next f s j) as [? o] eqn:E;
      destruct o;
      [ rewrite (IH s j d) by (rewrite E; cbn; discriminate); rewrite E
      | rewrite (IH s j d) by (rewrite E; cbn; discriminate); rewrite E
      | rewrite (IH s j d) by (rewrite E; cbn; discriminate); rewrite E
      | exfalso; apply H; reflexivity ];
      cbn [snd fst] in *
  end.

Ltac mono_case :=
  match goal with
  | |- context [if ?b then _ else _] => destruct b eqn:?
  | |- context [match ?x with _ => _ end] =>
      match type of x with
      | val => destruct x eqn:?
      | option _ => destruct x eqn:?
      | list _ => destruct x eqn:?
      | nat => destruct x eqn:?
      | prod _ _ => destruct x eqn:?
      end
  end.

Lemma next_mono : forall fuel s i d, snd (next fuel s i) <> NoFuel -> next (d + fuel) s i = next fuel s i.
Proof.
  induction fuel as [|fuel IH]; intros s i d N; [exfalso; apply N; reflexivity|].
  rewrite Nat.add_succ_r.
  destruct i; cbn [next] in *;
    try reflexivity;
    try (repeat (first [ mono_inner IH d | mono_case ]); try reflexivity; try (apply IH; assumption); fail).
  - (* Zip *)
    destruct l as [|j r]; [reflexivity|].
    apply zip_go_ext; [|exact N]. intros s0 j0 H0. apply IH. exact H0.
  - (* SliceN *)
    destruct (n <? 0)%Z; [reflexivity|].
    apply slice_collect_ext; [|exact N]. intros s0 j0 H0. apply IH. exact H0.
  - (* ZipLongest *)
    apply zipl_go_ext; [|exact N]. intros s0 j0 H0. apply IH. exact H0.
Qed.

Lemma next_mono_le fuel fuel' s i : fuel <= fuel' -> snd (next fuel s i) <> NoFuel -> next fuel' s i = next fuel s i.
Proof. intros L N. replace fuel' with ((fuel' - fuel) + fuel) by lia. apply next_mono. exact N. Qed.

(* two successful steps can be replayed with one common amount of fuel *)
Lemma next_yield_mono fuel fuel' s i s1 v i1 :
  next fuel s i = (s1, Yield v i1) -> fuel <= fuel' -> next fuel' s i = (s1, Yield v i1).
Proof. intros H L. rewrite (next_mono_le fuel fuel' s i L); [exact H | rewrite H; discriminate]. Qed.

Lemma next_done_mono fuel fuel' s i s1 :
  next fuel s i = (s1, Done) -> fuel <= fuel' -> next fuel' s i = (s1, Done).
Proof. intros H L. rewrite (next_mono_le fuel fuel' s i L); [exact H | rewrite H; discriminate]. Qed.

Lemma next_fail_mono fuel fuel' s i s1 e :
  next fuel s i = (s1, Fail e) -> fuel <= fuel' -> next fuel' s i = (s1, Fail e).
Proof. intros H L. rewrite (next_mono_le fuel fuel' s i L); [exact H | rewrite H; discriminate]. Qed.
