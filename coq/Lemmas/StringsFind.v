(* Proofs about str.find / str.rfind and the yaql indexOf / lastIndexOf wrappers. *)
From Coq Require Import List ZArith Bool Lia ZifyBool Arith.
From YV Require Import Common.Corr Model.Strings Lemmas.StringsSlice.
Import ListNotations.
Open Scope Z_scope.

(* ---- prefixes ------------------------------------------------------------------ *)
Lemma prefixb_app p t : prefixb p (p ++ t) = true.
Proof. induction p as [|x p IH]; cbn; [reflexivity|]. rewrite Z.eqb_refl, IH. reflexivity. Qed.

Lemma prefixb_true p s : prefixb p s = true -> exists t, s = p ++ t.
Proof.
  revert s; induction p as [|x p IH]; intros s H.
  - exists s. reflexivity.
  - destruct s as [|y s]; cbn in H; [discriminate|].
    apply andb_true_iff in H as [H1 H2]. apply Z.eqb_eq in H1. subst y.
    destruct (IH _ H2) as [t ->]. exists t. reflexivity.
Qed.

Lemma prefixb_iff p s : prefixb p s = true <-> exists t, s = p ++ t.
Proof. split; [apply prefixb_true|]. intros [t ->]. apply prefixb_app. Qed.

Lemma prefixb_nil_r p : prefixb p [] = true -> p = [].
Proof. destruct p; cbn; [reflexivity|discriminate]. Qed.

(* [sub] occurs in [s] at position [i] *)
Definition occurs_at (s sub : str) (i : Z) : Prop :=
  exists pre post, s = pre ++ sub ++ post /\ zlen pre = i.

Lemma occ_iff s sub (j : nat) : (j <= length s)%nat ->
  (prefixb sub (skipn j s) = true <-> occurs_at s sub (Z.of_nat j)).
Proof.
  intro Hj. split.
  - intro H. apply prefixb_true in H as [t Ht].
    exists (firstn j s), t. split.
    + rewrite <- Ht. symmetry. apply firstn_skipn.
    + unfold zlen. rewrite firstn_length. lia.
  - intros (pre & post & -> & Hl). unfold zlen in Hl. assert (j = length pre) by lia. subst j.
    rewrite skipn_app, skipn_all, Nat.sub_diag. cbn. apply prefixb_app.
Qed.

Lemma occurs_at_bounds s sub i : occurs_at s sub i -> 0 <= i /\ i + zlen sub <= zlen s.
Proof.
  intros (pre & post & -> & <-). unfold zlen. rewrite !app_length. lia.
Qed.

(* ---- the scanning loops ------------------------------------------------------------ *)
Lemma find_aux_S sub s i k : find_aux sub s i (S k) =
  if prefixb sub s then i else match s with [] => -1 | _ :: r => find_aux sub r (i + 1) k end.
Proof. reflexivity. Qed.
Lemma rfind_aux_S sub s i k : rfind_aux sub s i (S k) =
  let later := match s with [] => -1 | _ :: r => rfind_aux sub r (i + 1) k end in
  if later >=? 0 then later else if prefixb sub s then i else -1.
Proof. reflexivity. Qed.

Lemma find_aux_spec sub : forall k s i, 0 <= i ->
  (find_aux sub s i k = -1 /\ forall j, (j < k)%nat -> prefixb sub (skipn j s) = false) \/
  (exists j, (j < k)%nat /\ find_aux sub s i k = i + Z.of_nat j /\ prefixb sub (skipn j s) = true /\
             forall j', (j' < j)%nat -> prefixb sub (skipn j' s) = false).
Proof.
  induction k as [|k IH]; intros s i Hi.
  - left. split; [reflexivity|]. intros j Hj. lia.
  - rewrite find_aux_S. destruct (prefixb sub s) eqn:Ep.
    + right. exists O. split; [lia|]. split; [lia|]. split; [exact Ep|]. intros j' Hj'. lia.
    + destruct s as [|c r].
      * left. split; [reflexivity|]. intros j _. rewrite skipn_nil. exact Ep.
      * destruct (IH r (i + 1) ltac:(lia)) as [[Hr Hn]|(j & Hj & Hr & Hp & Hn)].
        -- left. split; [exact Hr|]. intros [|j] Hj; [exact Ep|]. cbn. apply Hn. lia.
        -- right. exists (S j). split; [lia|]. split; [lia|]. split; [exact Hp|].
           intros [|j'] Hj'; [exact Ep|]. cbn. apply Hn. lia.
Qed.

Lemma rfind_aux_spec sub : forall k s i, 0 <= i -> (k <= S (length s))%nat ->
  (rfind_aux sub s i k = -1 /\ forall j, (j < k)%nat -> prefixb sub (skipn j s) = false) \/
  (exists j, (j < k)%nat /\ rfind_aux sub s i k = i + Z.of_nat j /\ prefixb sub (skipn j s) = true /\
             forall j', (j < j' < k)%nat -> prefixb sub (skipn j' s) = false).
Proof.
  induction k as [|k IH]; intros s i Hi Hk.
  - left. split; [reflexivity|]. intros j Hj. lia.
  - rewrite rfind_aux_S. cbn zeta. destruct s as [|c r].
    + cbn [length] in Hk. assert (k = O) by lia. subst k.
      replace (-1 >=? 0) with false by reflexivity.
      destruct (prefixb sub []) eqn:Ep.
      * right. exists O. split; [lia|]. split; [lia|]. split; [exact Ep|]. intros j' Hj'. lia.
      * left. split; [reflexivity|]. intros j _. rewrite skipn_nil. exact Ep.
    + cbn [length] in Hk.
      destruct (IH r (i + 1) ltac:(lia) ltac:(lia)) as [[Hr Hn]|(j & Hj & Hr & Hp & Hn)].
      * rewrite Hr. replace (-1 >=? 0) with false by reflexivity.
        destruct (prefixb sub (c :: r)) eqn:Ep.
        -- right. exists O. split; [lia|]. split; [lia|]. split; [exact Ep|].
           intros [|j'] Hj'; [lia|]. cbn. apply Hn. lia.
        -- left. split; [reflexivity|]. intros [|j] Hj; [exact Ep|]. cbn. apply Hn. lia.
      * rewrite Hr. destruct (i + 1 + Z.of_nat j >=? 0) eqn:Eg; [|lia].
        right. exists (S j). split; [lia|]. split; [lia|]. split; [exact Hp|].
        intros [|j'] Hj'; [lia|]. cbn. apply Hn. lia.
Qed.

(* ---- the window ------------------------------------------------------------------------ *)
Lemma win_lo_nonneg s st : 0 <= win_lo s st.
Proof. unfold win_lo, adj_start. destruct (st <? 0) eqn:E; lia. Qed.

Lemma adj_end_range n e : 0 <= n -> 0 <= adj_end n e <= n.
Proof. intro Hn. unfold adj_end. destruct (e >? n) eqn:E1; [lia|]. destruct (e <? 0) eqn:E2; lia. Qed.

Lemma win_hi_le s sub e : win_hi s sub e + zlen sub <= zlen s.
Proof.
  unfold win_hi. pose proof (adj_end_range (zlen s) (match e with Some e0 => e0 | None => zlen s end) (zlen_nonneg s)). lia.
Qed.

(* r is the least position in [lo, hi] at which sub occurs, or -1 if there is none *)
Definition first_in_window (s sub : str) (lo hi r : Z) : Prop :=
  (r = -1 /\ forall i, lo <= i <= hi -> ~ occurs_at s sub i) \/
  (lo <= r <= hi /\ occurs_at s sub r /\ forall i, lo <= i < r -> ~ occurs_at s sub i).

(* r is the greatest such position, or -1 *)
Definition last_in_window (s sub : str) (lo hi r : Z) : Prop :=
  (r = -1 /\ forall i, lo <= i <= hi -> ~ occurs_at s sub i) \/
  (lo <= r <= hi /\ occurs_at s sub r /\ forall i, r < i <= hi -> ~ occurs_at s sub i).

Lemma skipn_skipn' {A} (x y : nat) (l : list A) : skipn x (skipn y l) = skipn (x + y) l.
Proof.
  revert l; induction y as [|y IH]; intros l.
  - rewrite Nat.add_0_r. reflexivity.
  - destruct l as [|a l].
    + rewrite !skipn_nil. reflexivity.
    + rewrite Nat.add_succ_r. cbn. apply IH.
Qed.

Lemma occ_at_offset s sub lo (j : nat) : 0 <= lo -> lo + Z.of_nat j <= zlen s ->
  prefixb sub (skipn j (skipn (Z.to_nat lo) s)) = true <-> occurs_at s sub (lo + Z.of_nat j).
Proof.
  intros Hlo Hle. rewrite skipn_skipn'.
  replace (lo + Z.of_nat j) with (Z.of_nat (j + Z.to_nat lo)) by lia.
  apply occ_iff. unfold zlen in Hle. lia.
Qed.

Lemma not_true_false b : b = false -> b <> true.
Proof. intros -> H. discriminate. Qed.

Lemma py_find_spec s sub st e :
  first_in_window s sub (win_lo s st) (win_hi s sub e) (py_find s sub st e).
Proof.
  unfold py_find. set (lo := win_lo s st). set (hi := win_hi s sub e).
  pose proof (win_lo_nonneg s st) as Hlo. fold lo in Hlo.
  pose proof (win_hi_le s sub e) as Hhi. fold hi in Hhi.
  pose proof (zlen_nonneg sub) as Hm.
  destruct (hi <? lo) eqn:Ew.
  - left. split; [reflexivity|]. intros i Hi. lia.
  - destruct (find_aux_spec sub (Z.to_nat (hi - lo + 1)) (skipn (Z.to_nat lo) s) lo Hlo)
      as [[Hr Hn]|(j & Hj & Hr & Hp & Hn)].
    + left. split; [exact Hr|]. intros i Hi Hocc.
      specialize (Hn (Z.to_nat (i - lo)) ltac:(lia)). apply not_true_false in Hn. apply Hn.
      apply occ_at_offset; [lia|lia|]. replace (lo + Z.of_nat (Z.to_nat (i - lo))) with i by lia. exact Hocc.
    + right. rewrite Hr. split; [lia|]. split.
      * apply occ_at_offset; [lia|lia|exact Hp].
      * intros i Hi Hocc. specialize (Hn (Z.to_nat (i - lo)) ltac:(lia)). apply not_true_false in Hn. apply Hn.
        apply occ_at_offset; [lia|lia|]. replace (lo + Z.of_nat (Z.to_nat (i - lo))) with i by lia. exact Hocc.
Qed.

Lemma py_rfind_spec s sub st e :
  last_in_window s sub (win_lo s st) (win_hi s sub e) (py_rfind s sub st e).
Proof.
  unfold py_rfind. set (lo := win_lo s st). set (hi := win_hi s sub e).
  pose proof (win_lo_nonneg s st) as Hlo. fold lo in Hlo.
  pose proof (win_hi_le s sub e) as Hhi. fold hi in Hhi.
  pose proof (zlen_nonneg sub) as Hm.
  destruct (hi <? lo) eqn:Ew.
  - left. split; [reflexivity|]. intros i Hi. lia.
  - assert (Hk : (Z.to_nat (hi - lo + 1) <= S (length (skipn (Z.to_nat lo) s)))%nat).
    { rewrite skipn_length. unfold zlen in *. lia. }
    destruct (rfind_aux_spec sub (Z.to_nat (hi - lo + 1)) (skipn (Z.to_nat lo) s) lo Hlo Hk)
      as [[Hr Hn]|(j & Hj & Hr & Hp & Hn)].
    + left. split; [exact Hr|]. intros i Hi Hocc.
      specialize (Hn (Z.to_nat (i - lo)) ltac:(lia)). apply not_true_false in Hn. apply Hn.
      apply occ_at_offset; [lia|lia|]. replace (lo + Z.of_nat (Z.to_nat (i - lo))) with i by lia. exact Hocc.
    + right. rewrite Hr. split; [lia|]. split.
      * apply occ_at_offset; [lia|lia|exact Hp].
      * intros i Hi Hocc. specialize (Hn (Z.to_nat (i - lo)) ltac:(lia)). apply not_true_false in Hn. apply Hn.
        apply occ_at_offset; [lia|lia|]. replace (lo + Z.of_nat (Z.to_nat (i - lo))) with i by lia. exact Hocc.
Qed.

(* ---- the yaql wrappers -------------------------------------------------------------------- *)
(* indexOf(sub, start): the window starts at start (counted from the end when negative, not
   before 0) and extends to the end of the string *)
Definition io_lo (s : str) (start : Z) : Z := if start <? 0 then Z.max 0 (start + zlen s) else start.

Lemma win_hi_none s sub : win_hi s sub None = zlen s - zlen sub.
Proof.
  unfold win_hi, adj_end. pose proof (zlen_nonneg s).
  destruct (zlen s >? zlen s) eqn:E1; [lia|]. destruct (zlen s <? 0) eqn:E2; lia.
Qed.

Lemma index_of_spec s sub start :
  first_in_window s sub (io_lo s start) (zlen s - zlen sub) (index_of s sub start).
Proof.
  unfold index_of. rewrite <- win_hi_none. apply py_find_spec.
Qed.

Lemma last_index_of_spec s sub start :
  last_in_window s sub (io_lo s start) (zlen s - zlen sub) (last_index_of s sub start).
Proof.
  unfold last_index_of. rewrite <- win_hi_none. apply py_rfind_spec.
Qed.

(* the default start = 0: soundness, leastness, completeness in the plainest form *)
Lemma index_of_default s sub :
  let r := index_of s sub 0 in
  (r = -1 /\ forall i, ~ occurs_at s sub i) \/
  (occurs_at s sub r /\ forall i, occurs_at s sub i -> r <= i).
Proof.
  cbn zeta. destruct (index_of_spec s sub 0) as [[Hr Hn]|(Hb & Ho & Hn)].
  - left. split; [exact Hr|]. intros i Ho. pose proof (occurs_at_bounds _ _ _ Ho).
    apply (Hn i); [|exact Ho]. unfold io_lo. cbn. lia.
  - right. split; [exact Ho|]. intros i Hi. pose proof (occurs_at_bounds _ _ _ Hi).
    destruct (Z.le_gt_cases (index_of s sub 0) i) as [H1|H1]; [exact H1|].
    exfalso. apply (Hn i); [|exact Hi]. unfold io_lo. cbn. lia.
Qed.

Lemma last_index_of_default s sub :
  let r := last_index_of s sub 0 in
  (r = -1 /\ forall i, ~ occurs_at s sub i) \/
  (occurs_at s sub r /\ forall i, occurs_at s sub i -> i <= r).
Proof.
  cbn zeta. destruct (last_index_of_spec s sub 0) as [[Hr Hn]|(Hb & Ho & Hn)].
  - left. split; [exact Hr|]. intros i Ho. pose proof (occurs_at_bounds _ _ _ Ho).
    apply (Hn i); [|exact Ho]. unfold io_lo. cbn. lia.
  - right. split; [exact Ho|]. intros i Hi. pose proof (occurs_at_bounds _ _ _ Hi).
    destruct (Z.le_gt_cases i (last_index_of s sub 0)) as [H1|H1]; [exact H1|].
    exfalso. apply (Hn i); [|exact Hi]. lia.
Qed.

(* indexOf(sub, start, length) for -len <= start: the occurrence must lie inside
   [S, min(len, S + L)), S = start (+ len if negative), L = length (the rest if negative) *)
Lemma window3 s sub start length : - zlen s <= start ->
  win_lo s (io_start s start) = io_start s start /\
  win_hi s sub (Some (io_start s start + io_length s start length)) =
    Z.min (zlen s) (io_start s start + io_length s start length) - zlen sub.
Proof.
  intro Hs. pose proof (zlen_nonneg s) as Hn.
  unfold win_lo, win_hi, adj_start, adj_end, io_length, io_start.
  destruct (start <? 0) eqn:E1; destruct (length <? 0) eqn:E2; split;
    repeat match goal with |- context [if ?b then _ else _] => destruct b eqn:? end; lia.
Qed.

Lemma index_of3_spec s sub start length : - zlen s <= start ->
  first_in_window s sub (io_start s start)
    (Z.min (zlen s) (io_start s start + io_length s start length) - zlen sub)
    (index_of3 s sub start length).
Proof.
  intro Hs. destruct (window3 s sub start length Hs) as [H1 H2].
  unfold index_of3. rewrite <- H1 at 1. rewrite <- H2. apply py_find_spec.
Qed.

Lemma last_index_of3_spec s sub start length : - zlen s <= start ->
  last_in_window s sub (io_start s start)
    (Z.min (zlen s) (io_start s start + io_length s start length) - zlen sub)
    (last_index_of3 s sub start length).
Proof.
  intro Hs. destruct (window3 s sub start length Hs) as [H1 H2].
  unfold last_index_of3. rewrite <- H1 at 1. rewrite <- H2. apply py_rfind_spec.
Qed.

(* `sub in s` *)
Lemma str_in_spec sub s : str_in sub s = true <-> exists i, occurs_at s sub i.
Proof.
  unfold str_in. fold (index_of s sub 0).
  destruct (index_of_default s sub) as [[Hr Hn]|[Ho Hn]].
  - rewrite Hr. split; [discriminate|]. intros [i Hi]. exfalso. exact (Hn i Hi).
  - pose proof (occurs_at_bounds _ _ _ Ho). split; [intros _; eexists; exact Ho|]. intros _. lia.
Qed.
