(* map_args on constructed spellings: exactly when is a spelling accepted?  Accepted iff every bound
   parameter is given or defaulted AND the arguments (or defaults) of the parameters spelled
   positionally pass the pre-evaluation check.  Keyword-spelled arguments and dropped defaults are not
   checked by map_args (get_delegate checks them later) - that is the only way spellings can differ. *)
From Coq Require Import List ZArith Bool Arith Lia.
From YV Require Import Common.Corr Model.Resolution Lemmas.ResolutionBind.
Import ListNotations.

Lemma set_nth_length {A} n (x : A) l : length (set_nth n x l) = length l.
Proof. revert n; induction l as [|y r IH]; intros [|n]; cbn; auto. Qed.

Lemma set_nth_same {A} n (x : A) l : n < length l -> nth_error (set_nth n x l) n = Some x.
Proof. revert n; induction l as [|y r IH]; intros [|n] H; cbn in *; try lia; [reflexivity | apply IH; lia]. Qed.

Lemma set_nth_other {A} n m (x : A) l : n <> m -> nth_error (set_nth n x l) m = nth_error l m.
Proof.
  revert n m; induction l as [|y r IH]; intros [|n] [|m] H; cbn; try reflexivity; try congruence.
  apply IH. congruence.
Qed.

Lemma nodup_map_eq {A B} (f : A -> B) l x y : NoDup (map f l) -> In x l -> In y l -> f x = f y -> x = y.
Proof.
  induction l as [|a r IH]; cbn; [tauto|]. intros N [Hx|Hx] [Hy|Hy] E; inversion N as [|? ? Hn N']; subst.
  - reflexivity.
  - exfalso. apply Hn. rewrite E. apply in_map, Hy.
  - exfalso. apply Hn. rewrite <- E. apply in_map, Hx.
  - apply IH; assumption.
Qed.

Section Sub.
Variable sub : tag -> tag -> bool.
Notation check := (check sub).
Notation check_slots := (check_slots sub).
Notation map_args := (map_args sub).

(* the argument the pre-evaluation check sees for parameter p *)
Definition argval (s : assignment) (p : param) : arg :=
  match s (arg_name p) with Some a => a | None => default_arg p end.
Definition has_value (s : assignment) (p : param) : bool :=
  match s (arg_name p) with Some _ => true | None => match pdefault p with Some _ => true | None => false end end.
(* every bound parameter is given or has a default *)
Definition assignable (ps : list param) (s : assignment) : bool := forallb (has_value s) (filter binds ps).
(* every argument slot below the number of visible positional parameters is read by some parameter *)
Definition slots_covered (ps : list param) : Prop := forall i, i < nvis ps -> slot_param ps i <> None.

(* ---- check_slots ------------------------------------------------------------------------ *)
Definition slot_val (p : param) (a : arg) : arg := match a with ANoValue => default_arg p | _ => a end.

Lemma check_slots_sound slots args l :
  check_slots slots args = Some l ->
  forall i p, nth_error slots i = Some (Some p) -> i < length args ->
              check (pkind p) (slot_val p (nth i args ANoValue)) = true.
Proof.
  revert args l; induction slots as [|[q|] r IH]; intros args l H i p Hn Hi.
  - destruct i; discriminate.
  - destruct args as [|a ar]; [cbn in Hi; lia|]. cbn [Resolution.check_slots] in H.
    fold (slot_val q a) in H. destruct (check (pkind q) (slot_val q a)) eqn:Ec; [|discriminate].
    destruct (check_slots r ar) as [l'|] eqn:Er; [|discriminate].
    destruct i as [|i]; cbn in Hn |- *.
    + injection Hn as <-. exact Ec.
    + apply (IH ar l' Er i p Hn). cbn in Hi. lia.
  - discriminate.
Qed.

Lemma check_slots_complete slots args :
  length slots = length args ->
  (forall i, i < length slots -> exists p, nth_error slots i = Some (Some p) /\
                                           check (pkind p) (slot_val p (nth i args ANoValue)) = true) ->
  check_slots slots args <> None.
Proof.
  revert args; induction slots as [|sl r IH]; intros args L H; [cbn; discriminate|].
  destruct args as [|a ar]; [discriminate|]. cbn in L.
  destruct (H 0) as [p [Hp Hc]]; [cbn; lia|]. cbn in Hp. injection Hp as ->. cbn in Hc.
  cbn [Resolution.check_slots]. fold (slot_val p a). rewrite Hc.
  assert (R : check_slots r ar <> None).
  { apply IH; [lia|]. intros i Hi. destruct (H (S i)) as [q [Hq Hcq]]; [cbn; lia|]. exists q. split; assumption. }
  destruct (check_slots r ar); [discriminate | contradiction].
Qed.

Lemma assignable_forallb ps s : forallb (fun p => negb (binds p) || has_value s p) ps = assignable ps s.
Proof.
  unfold assignable. induction ps as [|p r IH]; [reflexivity|]. cbn [forallb filter].
  destruct (binds p); cbn [negb orb forallb]; rewrite IH; reflexivity.
Qed.

(* ---- the loop over the parameters on a constructed spelling ---------------------------------- *)
Section Spelling.
Variable ps : list param.
Variable s : assignment.
Variable k : nat.
Hypothesis Hnames : NoDup (bound_names ps).
Hypothesis Hrank : rank_inj ps.
Hypothesis Hs : forall n, s n <> Some ANoValue.

Let args := spell_args ps s k.
Let kw := spell_kw ps s k.

Lemma kw_get_spell p : In p ps -> binds p = true -> kw_get (arg_name p) kw = emit ps s k p.
Proof. intros Hin Hb. unfold kw, spell_kw. apply kw_get_emit; [exact Hnames | apply filter_In; auto]. Qed.

Lemma vispos_rank p : is_vispos p = true -> exists pos, ppos p = Some pos /\ rank ps p = pos - fix_at ps pos /\
                                            is_sargs p = false /\ is_hidden (pkind p) = false.
Proof.
  unfold is_vispos, binds, is_positional, rank. intro H. destruct (ppos p) as [pos|]; [|rewrite andb_false_r in H; discriminate].
  apply andb_true_iff in H as [H1 H2]. apply andb_true_iff in H1 as [H1 _].
  apply negb_true_iff in H1. apply negb_true_iff in H2. exists pos. auto.
Qed.

(* what the spelling puts into slot (rank p) *)
Lemma spell_slot p : In p ps -> is_vispos p = true -> rank ps p < k ->
  nth (rank ps p) args ANoValue = match s (arg_name p) with Some a => a | None => ANoValue end.
Proof.
  intros Hin Hv Hk. unfold args. rewrite spell_args_nth by exact Hk.
  destruct (find_exists (fun q => is_vispos q && Nat.eqb (rank ps q) (rank ps p)) ps p Hin) as [q Hq].
  { rewrite Hv, Nat.eqb_refl. reflexivity. }
  unfold slot_param. rewrite Hq. apply find_some in Hq as [Hq1 Hq2].
  apply andb_true_iff in Hq2 as [Hq2 Hq3]. apply Nat.eqb_eq in Hq3.
  rewrite (Hrank q p Hq1 Hin Hq2 Hv Hq3). reflexivity.
Qed.

Lemma arg_given_spell p : In p ps -> is_vispos p = true ->
  arg_given args (rank ps p) = Nat.ltb (rank ps p) k && match s (arg_name p) with Some _ => true | None => false end.
Proof.
  intros Hin Hv. rewrite arg_given_nth. destruct (Nat.ltb_spec (rank ps p) k) as [Hk|Hk].
  - rewrite (nth_error_nth' _ ANoValue) by (unfold args; rewrite spell_args_length; exact Hk).
    rewrite spell_slot by assumption. destruct (s (arg_name p)) as [a|] eqn:Es; [|reflexivity].
    destruct a; try reflexivity. exfalso. exact (Hs _ Es).
  - assert (E : nth_error args (rank ps p) = None) by (apply nth_error_None; unfold args; rewrite spell_args_length; exact Hk).
    rewrite E. reflexivity.
Qed.

(* invariant of the loop *)
Definition minv (done : list param) (st : mstate) : Prop :=
  ms_left st = dels (bound_names done) kw /\ length (ms_slots st) = k /\
  forall p, In p done -> covered ps k p = true -> nth_error (ms_slots st) (rank ps p) = Some (Some p).

Lemma bound_names_app a b : bound_names (a ++ b) = bound_names a ++ bound_names b.
Proof. unfold bound_names. rewrite filter_app, map_app. reflexivity. Qed.

Lemma map_loop rest : forall done st,
  done ++ rest = ps -> minv done st ->
  if forallb (fun p => negb (binds p) || has_value s p) rest
  then exists st', fold_opt (map_step ps args) rest st = Some st' /\ minv (done ++ rest) st'
  else fold_opt (map_step ps args) rest st = None.
Proof.
  induction rest as [|q rest IH]; intros done st E I.
  - cbn. exists st. rewrite app_nil_r. auto.
  - assert (Hq : In q ps) by (rewrite <- E; apply in_or_app; right; left; reflexivity).
    assert (E' : (done ++ [q]) ++ rest = ps) by (rewrite <- app_assoc; exact E).
    destruct I as [IL [IS IJ]].
    cbn [forallb fold_opt].
    destruct (binds q) eqn:Eb; cbn [negb orb].
    + (* a bound parameter *)
      assert (Nq : ~ In (arg_name q) (bound_names done)).
      { pose proof Hnames as N. rewrite <- E, bound_names_app in N. unfold bound_names at 2 in N. cbn [filter] in N.
        rewrite Eb in N. cbn [map] in N. apply NoDup_remove_2 in N. intro Hi. apply N. apply in_or_app. left. exact Hi. }
      assert (Kq : kw_get (arg_name q) (ms_left st) = emit ps s k q).
      { rewrite IL, kw_get_dels by exact Nq. apply kw_get_spell; assumption. }
      assert (Bn : bound_names (done ++ [q]) = bound_names done ++ [arg_name q]).
      { rewrite bound_names_app. unfold bound_names at 2. cbn [filter]. rewrite Eb. reflexivity. }
      (* other parameters already placed keep their slots *)
      assert (Keep : forall p, In p done -> covered ps k p = true -> is_vispos q = true -> rank ps p <> rank ps q).
      { intros p Hp Hc Hvq Er. unfold covered in Hc. apply andb_true_iff in Hc as [Hvp _].
        assert (Hpin : In p ps) by (rewrite <- E; apply in_or_app; left; exact Hp).
        apply Nq. rewrite <- (Hrank p q Hpin Hq Hvp Hvq Er). unfold bound_names. apply in_map. apply filter_In. split; [exact Hp|].
        unfold is_vispos in Hvp. apply andb_true_iff in Hvp. tauto. }
      assert (Step : if has_value s q then exists st1, map_step ps args st q = Some st1 /\ minv (done ++ [q]) st1
                     else map_step ps args st q = None).
      { unfold Resolution.map_step. rewrite !kw_has_get, Kq.
        destruct (ppos q) as [pos|] eqn:Ep.
        - assert (Hv : is_vispos q = true).
          { unfold is_vispos, is_positional. rewrite Eb, Ep. unfold binds in Eb. rewrite Ep in Eb.
            apply andb_true_iff in Eb as [_ Eb]. rewrite Eb. reflexivity. }
          destruct (vispos_rank q Hv) as [pos' [Ep' [Er [Hsa Hhid]]]]. rewrite Ep in Ep'. injection Ep' as <-.
          rewrite Hsa, Hhid, <- Er, (arg_given_spell q Hq Hv).
          unfold emit, covered. rewrite Hv. cbn [andb]. unfold has_value.
          assert (Put : forall st1, ms_slots st1 = set_nth (rank ps q) (Some q) (ms_slots st) -> ms_left st1 = kw_del (arg_name q) (ms_left st) ->
                         rank ps q < k -> minv (done ++ [q]) st1).
          { intros st1 H1 H2 Hk. split; [|split].
            - rewrite H2, Bn, dels_snoc, IL. reflexivity.
            - rewrite H1, set_nth_length. exact IS.
            - intros p Hp Hc. rewrite H1. apply in_app_or in Hp as [Hp|[<-|[]]].
              + rewrite set_nth_other by (intro X; symmetry in X; exact (Keep p Hp Hc Hv X)). apply IJ; assumption.
              + apply set_nth_same. rewrite IS. exact Hk. }
          assert (NoPut : forall st1, ms_slots st1 = ms_slots st -> ms_left st1 = kw_del (arg_name q) (ms_left st) ->
                           k <= rank ps q -> minv (done ++ [q]) st1).
          { intros st1 H1 H2 Hk. split; [|split].
            - rewrite H2, Bn, dels_snoc, IL. reflexivity.
            - rewrite H1. exact IS.
            - intros p Hp Hc. rewrite H1. apply in_app_or in Hp as [Hp|[<-|[]]]; [apply IJ; assumption|].
              unfold covered in Hc. apply andb_true_iff in Hc as [_ Hc]. apply Nat.ltb_lt in Hc. lia. }
          assert (Absent : s (arg_name q) = None \/ rank ps q < k -> kw_del (arg_name q) (ms_left st) = ms_left st).
          { intro H. apply kw_del_absent. rewrite Kq. unfold emit, covered. rewrite Hv. cbn [andb].
            destruct (Nat.ltb_spec (rank ps q) k); [reflexivity|]. destruct H as [H|H]; [exact H | lia]. }
          destruct (Nat.ltb_spec (rank ps q) k) as [Hk|Hk]; cbn [andb].
          + destruct (s (arg_name q)) as [a|] eqn:Es; cbv iota.
            * eexists. split; [reflexivity|]. apply Put; cbn [ms_slots ms_left]; [reflexivity | | exact Hk].
              symmetry. apply Absent. right. exact Hk.
            * destruct (pdefault q) as [d|] eqn:Ed; cbv iota; [|reflexivity].
              unfold args. rewrite spell_args_length. apply Nat.ltb_lt in Hk. rewrite Hk. apply Nat.ltb_lt in Hk.
              eexists. split; [reflexivity|]. apply Put; cbn [ms_slots ms_left]; [reflexivity | | exact Hk].
              symmetry. apply Absent. left. reflexivity.
          + destruct (s (arg_name q)) as [a|] eqn:Es; cbv iota.
            * eexists. split; [reflexivity|]. apply NoPut; cbn [ms_slots ms_left]; [reflexivity | reflexivity | exact Hk].
            * destruct (pdefault q) as [d|] eqn:Ed; cbv iota; [|reflexivity].
              unfold args. rewrite spell_args_length. apply Nat.ltb_ge in Hk. rewrite Hk. apply Nat.ltb_ge in Hk.
              eexists. split; [reflexivity|]. apply NoPut; [reflexivity | | exact Hk].
              symmetry. apply Absent. left. reflexivity.
        - (* keyword-only *)
          pose proof Eb as Eb'. unfold binds in Eb'. rewrite Ep in Eb'. apply andb_true_iff in Eb' as [Hhid Hsk].
          apply negb_true_iff in Hhid. apply negb_true_iff in Hsk. rewrite Hsk, Hhid.
          assert (Hnc : covered ps k q = false) by (unfold covered, is_vispos, is_positional; rewrite Ep, andb_false_r; reflexivity).
          unfold emit. rewrite Hnc. unfold has_value.
          assert (NoPut : forall st1, ms_slots st1 = ms_slots st -> ms_left st1 = kw_del (arg_name q) (ms_left st) -> minv (done ++ [q]) st1).
          { intros st1 H1 H2. split; [|split].
            - rewrite H2, Bn, dels_snoc, IL. reflexivity.
            - rewrite H1. exact IS.
            - intros p Hp Hc. rewrite H1. apply in_app_or in Hp as [Hp|[<-|[]]]; [apply IJ; assumption|]. congruence. }
          destruct (s (arg_name q)) as [a|] eqn:Es; cbv iota.
          + eexists. split; [reflexivity|]. apply NoPut; reflexivity.
          + destruct (pdefault q) as [d|]; cbv iota; [|reflexivity].
            eexists. split; [reflexivity|]. apply NoPut; [reflexivity|].
            symmetry. apply kw_del_absent. rewrite Kq. unfold emit. rewrite Hnc. exact Es. }
      destruct (has_value s q); cbn [andb].
      * destruct Step as [st1 [E1 I1]]. rewrite E1.
        replace (done ++ q :: rest) with ((done ++ [q]) ++ rest) by (rewrite <- app_assoc; reflexivity).
        apply IH; assumption.
      * rewrite Step. reflexivity.
    + (* hidden, * or ** : the state is unchanged *)
      assert (Same : map_step ps args st q = Some st).
      { unfold Resolution.map_step, binds in *. destruct (ppos q); destruct (is_hidden (pkind q)); cbn in Eb.
        - destruct (is_sargs q); reflexivity.
        - apply negb_false_iff in Eb. rewrite Eb. reflexivity.
        - destruct (is_skwargs q); reflexivity.
        - apply negb_false_iff in Eb. rewrite Eb. reflexivity. }
      rewrite Same. replace (done ++ q :: rest) with ((done ++ [q]) ++ rest) by (rewrite <- app_assoc; reflexivity).
      apply (IH (done ++ [q])); [exact E'|].
      assert (Bn : bound_names (done ++ [q]) = bound_names done).
      { rewrite bound_names_app. unfold bound_names at 2. cbn [filter]. rewrite Eb. cbn. apply app_nil_r. }
      split; [|split].
      * rewrite Bn. exact IL.
      * exact IS.
      * intros p Hp Hc. apply in_app_or in Hp as [Hp|[<-|[]]]; [apply IJ; assumption|].
        unfold covered, is_vispos in Hc. rewrite Eb in Hc. discriminate.
Qed.

(* EXACT characterisation of map_args on a constructed spelling *)
Theorem map_args_spell_exact :
  slots_covered ps -> k <= nvis ps ->
  (map_args ps args kw <> None <->
   assignable ps s = true /\
   forall p, In p ps -> covered ps k p = true -> check (pkind p) (argval s p) = true).
Proof.
  intros Hcov Hk. unfold Resolution.map_args.
  pose proof (map_loop ps [] {| ms_slots := repeat (star_param ps) (length args); ms_kwd := []; ms_left := kw |} eq_refl) as L.
  rewrite assignable_forallb in L.
  assert (I0 : minv [] {| ms_slots := repeat (star_param ps) (length args); ms_kwd := []; ms_left := kw |}).
  { split; [reflexivity|]. split; [cbn; rewrite repeat_length; unfold args; apply spell_args_length|]. intros p []. }
  specialize (L I0). destruct (assignable ps s) eqn:Ea.
  - destruct L as [st [Ef [IL [IS IJ]]]]. cbn [app] in *. rewrite Ef.
    assert (El : ms_left st = []).
    { rewrite IL. apply dels_all. intros [n a] H. unfold kw, spell_kw in H. apply in_flat_map in H as [q [Hq H]].
      destruct (emit ps s k q); [|contradiction]. destruct H as [H|[]]. injection H as <- <-.
      cbn [fst]. unfold bound_names. apply in_map, Hq. }
    rewrite El. cbn [forallb].
    assert (Val : forall p, In p ps -> covered ps k p = true ->
                  slot_val p (nth (rank ps p) args ANoValue) = argval s p).
    { intros p Hp Hc. unfold covered in Hc. apply andb_true_iff in Hc as [Hv Hr]. apply Nat.ltb_lt in Hr.
      rewrite spell_slot by assumption. unfold argval, slot_val. destruct (s (arg_name p)) as [a|] eqn:Es; [|reflexivity].
      destruct a; try reflexivity. exfalso. exact (Hs _ Es). }
    split.
    + intro H. split; [reflexivity|]. intros p Hp Hc.
      destruct (check_slots (ms_slots st) args) as [l|] eqn:Ec; [|contradiction].
      rewrite <- (Val p Hp Hc). eapply check_slots_sound; [exact Ec | apply IJ; assumption|].
      unfold covered in Hc. apply andb_true_iff in Hc as [_ Hr]. apply Nat.ltb_lt in Hr. unfold args. rewrite spell_args_length. exact Hr.
    + intros [_ H].
      assert (C : check_slots (ms_slots st) args <> None).
      { apply check_slots_complete; [rewrite IS; unfold args; rewrite spell_args_length; reflexivity|].
        intros i Hi. rewrite IS in Hi. destruct (slot_param ps i) as [p|] eqn:Esp; [|exfalso; apply (Hcov i); [lia | exact Esp]].
        unfold slot_param in Esp. apply find_some in Esp as [Hp Hpp]. apply andb_true_iff in Hpp as [Hv Hr]. apply Nat.eqb_eq in Hr.
        assert (Hc : covered ps k p = true) by (unfold covered; rewrite Hv, Hr; apply Nat.ltb_lt in Hi; rewrite Hi; reflexivity).
        exists p. subst i. split; [apply IJ; assumption|]. rewrite (Val p Hp Hc). apply H; assumption. }
      destruct (check_slots (ms_slots st) args); [discriminate | contradiction].
  - rewrite L. split; [intro H; contradiction | intros [H _]; discriminate].
Qed.

End Spelling.

(* under the guard - the argument or default of every visible positional parameter passes the
   pre-evaluation check - all split points are accepted or rejected together *)
Definition precheck_guard (ps : list param) (s : assignment) : Prop :=
  forall p, In p ps -> is_vispos p = true -> check (pkind p) (argval s p) = true.

Theorem spellings_map_equal_guarded ps s k1 k2 :
  NoDup (bound_names ps) -> rank_inj ps -> slots_covered ps -> (forall n, s n <> Some ANoValue) ->
  k1 <= nvis ps -> k2 <= nvis ps -> precheck_guard ps s ->
  (map_args ps (spell_args ps s k1) (spell_kw ps s k1) <> None <->
   map_args ps (spell_args ps s k2) (spell_kw ps s k2) <> None).
Proof.
  intros N R C Hs K1 K2 G.
  rewrite (map_args_spell_exact ps s k1 N R Hs C K1), (map_args_spell_exact ps s k2 N R Hs C K2).
  assert (X : forall k p, In p ps -> covered ps k p = true -> check (pkind p) (argval s p) = true).
  { intros k p Hp Hc. apply G; [exact Hp|]. unfold covered in Hc. apply andb_true_iff in Hc. tauto. }
  split; intros [H _]; (split; [exact H | apply X]).
Qed.

(* a longer positional prefix can only reject more *)
Theorem spellings_map_monotone ps s k1 k2 :
  NoDup (bound_names ps) -> rank_inj ps -> slots_covered ps -> (forall n, s n <> Some ANoValue) ->
  k1 <= k2 -> k2 <= nvis ps ->
  map_args ps (spell_args ps s k2) (spell_kw ps s k2) <> None ->
  map_args ps (spell_args ps s k1) (spell_kw ps s k1) <> None.
Proof.
  intros N R C Hs K12 K2.
  rewrite (map_args_spell_exact ps s k1 N R Hs C (Nat.le_trans _ _ _ K12 K2)), (map_args_spell_exact ps s k2 N R Hs C K2).
  intros [H1 H2]. split; [exact H1|]. intros p Hp Hc. apply H2; [exact Hp|].
  unfold covered in *. apply andb_true_iff in Hc as [Hv Hr]. rewrite Hv. apply Nat.ltb_lt in Hr.
  apply Nat.ltb_lt. lia.
Qed.

End Sub.
