(* Algebraic laws of the list semantics (Model/Queries.v). *)
From Coq Require Import List ZArith Bool Arith Lia ZifyBool Permutation.
From YV Require Import Model.Queries.
Import ListNotations.

Section Laws.
  Context {A : Type}.
  Implicit Types l : list A.

  Lemma where_where (p q : A -> bool) l :
    where_l p (where_l q l) = where_l (fun x => q x && p x) l.
  Proof.
    unfold where_l. induction l as [|x r IH]; [reflexivity|]. cbn.
    destruct (q x) eqn:Q; cbn; [destruct (p x); rewrite IH; reflexivity | exact IH].
  Qed.

  Lemma select_select {B C} (f : B -> C) (g : A -> B) l :
    select_l f (select_l g l) = select_l (fun x => f (g x)) l.
  Proof. unfold select_l. apply map_map. Qed.

  Lemma take_skip n l : take_l n l ++ skip_l n l = l.
  Proof. apply firstn_skipn. Qed.

  Lemma take_length n l : length (take_l n l) = Nat.min n (length l).
  Proof. apply firstn_length. Qed.

  Lemma list_insert_length l pos (v : A) : length (list_insert_l l pos v) = S (length l).
  Proof.
    unfold list_insert_l. rewrite app_length. cbn. rewrite firstn_length, skipn_length. lia.
  Qed.

  Lemma iter_insert_from_length n pos (v : A) l :
    length (iter_insert_from n pos v l) =
    (length l + if (n <=? pos)%Z then 1 else 0)%nat.
  Proof.
    revert n. induction l as [|t r IH]; intro n; cbn [iter_insert_from length].
    - destruct (pos >? n - 1)%Z eqn:E, (n <=? pos)%Z eqn:F; cbn; lia.
    - destruct (n =? pos)%Z eqn:E; cbn [length]; rewrite IH;
        destruct (n + 1 <=? pos)%Z eqn:F, (n <=? pos)%Z eqn:G; lia.
  Qed.

  (* the generator's rule: one more element exactly for non-negative positions *)
  Lemma iter_insert_length l pos (v : A) :
    length (iter_insert_l l pos v) = (length l + if (0 <=? pos)%Z then 1 else 0)%nat.
  Proof. apply iter_insert_from_length. Qed.

  Lemma delete_from_shift n pos cnt l :
    delete_from (A:=A) (n + 1) (pos + 1) cnt l = delete_from n pos cnt l.
  Proof.
    revert n. induction l as [|t r IH]; intro n; [reflexivity|]. cbn [delete_from].
    rewrite IH. replace (del_keep (pos + 1) cnt (n + 1)) with (del_keep pos cnt n); [reflexivity|].
    unfold del_keep. destruct (cnt >=? 0)%Z; f_equal; lia.
  Qed.

  Lemma delete_from_before n pos l : (forall k, (0 <= k)%Z -> n + k <> pos)%Z ->
    delete_from (A:=A) n pos 1 l = l.
  Proof.
    revert n. induction l as [|t r IH]; intros n H; [reflexivity|]. cbn [delete_from].
    assert (E : del_keep pos 1 n = true). { unfold del_keep. specialize (H 0%Z). cbn. lia. }
    rewrite E, IH; [reflexivity|]. intros k Hk. specialize (H (k + 1)%Z). lia.
  Qed.

  Lemma delete_iter_insert_from n i (v : A) l : (n <= i <= n + Z.of_nat (length l))%Z ->
    delete_from n i 1 (iter_insert_from n i v l) = l.
  Proof.
    revert n. induction l as [|t r IH]; intros n H; cbn [iter_insert_from length] in *.
    - assert (E : (i >? n - 1)%Z = true) by lia. rewrite E. cbn [delete_from].
      assert (F : del_keep i 1 n = false). { unfold del_keep. cbn. lia. } rewrite F. reflexivity.
    - destruct (n =? i)%Z eqn:E.
      + cbn [delete_from]. assert (F : del_keep i 1 n = false). { unfold del_keep. cbn. lia. } rewrite F.
        assert (G : del_keep i 1 (n + 1) = true). { unfold del_keep. cbn. lia. } rewrite G. f_equal.
        (* the rest lies after the window; the tail of iter_insert_from past the position is the identity *)
        assert (T : forall m (l' : list A), (i < m)%Z -> iter_insert_from m i v l' = l').
        { intros m l'. revert m. induction l' as [|t' r' IH']; intros m Hm; cbn [iter_insert_from].
          - assert (Q : (i >? m - 1)%Z = false) by lia. rewrite Q. reflexivity.
          - assert (Q : (m =? i)%Z = false) by lia. rewrite Q, IH'; [reflexivity | lia]. }
        rewrite T by lia. apply delete_from_before. intros k Hk. lia.
      + cbn [delete_from]. assert (F : del_keep i 1 n = true). { unfold del_keep. cbn. lia. } rewrite F.
        f_equal. apply IH. lia.
  Qed.

  Lemma delete_iter_insert l i (v : A) : (0 <= i <= Z.of_nat (length l))%Z ->
    delete_l (iter_insert_l l i v) i 1 = l.
  Proof. intro H. apply delete_iter_insert_from. lia. Qed.

  Lemma delete_from_nth n (i : nat) (v : A) l : (i <= length l)%nat ->
    delete_from n (n + Z.of_nat i) 1 (firstn i l ++ v :: skipn i l) = l.
  Proof.
    revert n l. induction i as [|i IH]; intros n l H.
    - cbn [firstn skipn app delete_from]. assert (F : del_keep (n + Z.of_nat 0) 1 n = false). { unfold del_keep. cbn. lia. }
      rewrite F. apply delete_from_before. intros k Hk. lia.
    - destruct l as [|t r]; [cbn in H; lia|]. cbn [firstn skipn app delete_from].
      assert (F : del_keep (n + Z.of_nat (S i)) 1 n = true). { unfold del_keep. cbn. lia. } rewrite F. f_equal.
      replace (n + Z.of_nat (S i))%Z with ((n + 1) + Z.of_nat i)%Z by lia. apply IH. cbn in H. lia.
  Qed.

  Lemma delete_list_insert l i (v : A) : (0 <= i <= Z.of_nat (length l))%Z ->
    delete_l (list_insert_l l i v) i 1 = l.
  Proof.
    intro H. unfold delete_l, list_insert_l, norm_pos.
    assert (E : (i <? 0)%Z = false) by lia. rewrite E.
    replace (Z.min i (Z.of_nat (length l))) with i by lia.
    pose proof (delete_from_nth 0 (Z.to_nat i) v l) as D.
    replace (0 + Z.of_nat (Z.to_nat i))%Z with i in D by lia. apply D. lia.
  Qed.

  Lemma zip_length {B} (a : list A) (b : list B) : length (zip_l a b) = Nat.min (length a) (length b).
  Proof. revert b. induction a as [|x r IH]; intros [|y r']; cbn; try reflexivity. rewrite IH. reflexivity. Qed.

  Lemma split_at_concat l idx : fst (split_at_l l idx) ++ snd (split_at_l l idx) = l.
  Proof. unfold split_at_l. cbn. apply firstn_skipn. Qed.

  (* slice(n) *)
  Lemma chunks_fuel_concat fuel n l : (0 < n)%nat -> (length l <= fuel)%nat ->
    concat (chunks_fuel fuel n l) = l.
  Proof.
    intro Hn. revert l. induction fuel as [|f IH]; intros l H.
    - destruct l; [reflexivity | cbn in H; lia].
    - destruct l as [|x r]; [reflexivity|]. cbn [chunks_fuel]. destruct n as [|n']; [lia|].
      cbn [concat]. rewrite IH; [apply firstn_skipn|]. rewrite skipn_length. cbn [length] in *. lia.
  Qed.

  Lemma chunks_concat n l : (0 < n)%nat -> concat (chunks_l n l) = l.
  Proof. intro H. apply chunks_fuel_concat; [exact H | lia]. Qed.

  Lemma chunks_fuel_lengths fuel n l : (0 < n)%nat -> (length l <= fuel)%nat ->
    Forall (fun c => (1 <= length c <= n)%nat) (chunks_fuel fuel n l) /\
    Forall (fun c => length c = n) (removelast (chunks_fuel fuel n l)).
  Proof.
    intro Hn. revert l. induction fuel as [|f IH]; intros l H.
    - cbn. split; constructor.
    - destruct l as [|x r]; [cbn; split; constructor|]. cbn [chunks_fuel]. destruct n as [|n']; [lia|].
      specialize (IH (skipn (S n') (x :: r))).
      assert (L : (length (skipn (S n') (x :: r)) <= f)%nat). { rewrite skipn_length. cbn [length] in *. lia. }
      destruct (IH L) as [I1 I2]. split.
      + constructor; [|exact I1]. rewrite firstn_length. cbn [length]. lia.
      + remember (chunks_fuel f (S n') (skipn (S n') (x :: r))) as rest eqn:R.
        destruct rest as [|c cs]; [cbn; constructor|].
        change (removelast (firstn (S n') (x :: r) :: c :: cs)) with (firstn (S n') (x :: r) :: removelast (c :: cs)).
        constructor; [|exact I2].
        (* a following chunk exists, so the list had more than n elements *)
        rewrite firstn_length. apply Nat.min_l.
        destruct (le_lt_dec (S n') (length (x :: r))) as [Q|Q]; [exact Q|].
        exfalso. assert (Z0 : skipn (S n') (x :: r) = []) by (apply skipn_all2; lia).
        rewrite Z0 in R. destruct f; discriminate R.
  Qed.

  Lemma chunks_lengths n l : (0 < n)%nat ->
    Forall (fun c => (1 <= length c <= n)%nat) (chunks_l n l) /\
    Forall (fun c => length c = n) (removelast (chunks_l n l)).
  Proof. intro H. apply chunks_fuel_lengths; [exact H | lia]. Qed.

  (* accumulate / aggregate *)
  Lemma last_cons_indep (a : A) l d d' : last (a :: l) d = last (a :: l) d'.
  Proof. revert a. induction l as [|b r IH]; intro a; [reflexivity|]. cbn [last] in *. apply (IH b). Qed.

  Lemma accumulate_from_last (f : A -> A -> A) tot l :
    last (accumulate_from f tot l) tot = fold_left f l tot.
  Proof.
    revert tot. induction l as [|x r IH]; intro tot; [reflexivity|]. cbn [accumulate_from fold_left].
    specialize (IH (f tot x)). destruct (accumulate_from f (f tot x) r) eqn:E.
    - destruct r; [reflexivity | discriminate E].
    - rewrite (last_cons_indep _ _ tot (f tot x)). exact IH.
  Qed.

  Lemma accumulate_seed_last (f : A -> A -> A) seed l :
    last (accumulate_seed f seed l) seed = aggregate_seed f seed l.
  Proof.
    unfold accumulate_seed, aggregate_seed. destruct (accumulate_from f seed l) eqn:E.
    - destruct l; [reflexivity | discriminate E].
    - rewrite <- accumulate_from_last, E. reflexivity.
  Qed.

  Lemma accumulate_last (f : A -> A -> A) l d :
    option_map (fun a => last a d) (accumulate_l f l) = aggregate_l f l.
  Proof.
    destruct l as [|x r]; [reflexivity|]. cbn [accumulate_l aggregate_l option_map]. f_equal.
    pose proof (accumulate_seed_last f x r) as H. unfold aggregate_seed in H. rewrite <- H.
    unfold accumulate_seed. apply last_cons_indep.
  Qed.

  (* indexOf *)
  Lemma index_from_spec (p : A -> bool) l n :
    (index_from n p l = (-1)%Z /\ (0 <= n -> forallb (fun x => negb (p x)) l = true)%Z) \/
    (exists k x, index_from n p l = (n + Z.of_nat k)%Z /\ nth_error l k = Some x /\ p x = true /\
                 forallb (fun y => negb (p y)) (firstn k l) = true).
  Proof.
    revert n. induction l as [|x r IH]; intro n; cbn [index_from].
    - left. split; [reflexivity | reflexivity].
    - destruct (p x) eqn:P.
      + right. exists 0%nat, x. cbn. repeat split; [lia | exact P].
      + destruct (IH (n + 1)%Z) as [[E F] | (k & y & E & N & Py & F)].
        * left. split; [exact E|]. intro Hn. cbn. rewrite P. cbn. apply F. lia.
        * right. exists (S k), y. cbn [nth_error firstn forallb]. rewrite P. cbn. repeat split; try assumption. lia.
  Qed.

  Lemma index_of_spec (p : A -> bool) l :
    (index_from 0 p l = (-1)%Z /\ forallb (fun x => negb (p x)) l = true) \/
    (exists k x, index_from 0 p l = Z.of_nat k /\ nth_error l k = Some x /\ p x = true /\
                 forallb (fun y => negb (p y)) (firstn k l) = true).
  Proof.
    destruct (index_from_spec p l 0) as [[E F] | (k & x & E & R)].
    - left. split; [exact E | apply F; lia].
    - right. exists k, x. split; [rewrite E; lia | exact R].
  Qed.

  Lemma last_index_from_spec (p : A -> bool) l n best :
    (last_index_from n p best l = best /\ forallb (fun x => negb (p x)) l = true) \/
    (exists k x, last_index_from n p best l = (n + Z.of_nat k)%Z /\ nth_error l k = Some x /\ p x = true /\
                 forallb (fun y => negb (p y)) (skipn (S k) l) = true).
  Proof.
    revert n best. induction l as [|x r IH]; intros n best; cbn [last_index_from].
    - left. split; reflexivity.
    - destruct (IH (n + 1)%Z (if p x then n else best)) as [[E F] | (k & y & E & N & Py & F)].
      + destruct (p x) eqn:P.
        * right. exists 0%nat, x. cbn [nth_error skipn]. repeat split; [lia | exact P | exact F].
        * left. split; [exact E|]. cbn. rewrite P. exact F.
      + right. exists (S k), y. cbn [nth_error skipn]. repeat split; try assumption. lia.
  Qed.
End Laws.
