(* A generic demand theorem for operators that are "transducers": per element pulled
   from their input they emit zero or more outputs (each at a tick cost), possibly
   some more ticks before the next pull, and move to a new state.  The list-level
   functions [touts] / [tneed] / [ttks] say which outputs a prefix of the input
   determines, how many input elements the first k outputs depend on, and how many
   lambda applications they take; [trans_like] says the machine does exactly that. *)
From Coq Require Import List ZArith Bool Arith Lia.
From YV Require Import Common.Corr Model.Queries Model.Streams Lemmas.StreamsMono Lemmas.StreamsSteps Lemmas.StreamsPipeline.
Import ListNotations.

Definition sumt (l : list (val * nat)) : nat := fold_right (fun p acc => snd p + acc) 0 l.

Lemma sumt_app a b : sumt (a ++ b) = sumt a + sumt b.
Proof. unfold sumt. induction a as [|x r IH]; cbn [app fold_right]; [reflexivity | rewrite IH; lia]. Qed.

(* C emits [rest] (output j after [snd] more ticks, no pull) and then, after [trail] more ticks,
   goes on as B *)
Definition Follows (C : it) (rest : list (val * nat)) (trail : nat) (B : it) : Prop :=
  (forall r, r <= length rest -> exists j, StepsD C (map fst (firstn r rest)) 0 (sumt (firstn r rest)) j) /\
  (forall l a b j, l <> [] -> StepsD B l a b j -> StepsD C (map fst rest ++ l) a (sumt rest + trail + b) j) /\
  (forall a b, EndsD B a b -> exists j, StepsD C (map fst rest) 0 (sumt rest) j /\ EndsD j a (trail + b)).

Lemma follows_self B : Follows B [] 0 B.
Proof.
  split; [|split].
  - intros r L. cbn in L. assert (r = 0) by lia. subst. exists B. cbn. repeat split.
  - intros l a b j _ HS. cbn. exact HS.
  - intros a b E. exists B. cbn. split; [repeat split | exact E].
Qed.

Lemma chain_oflist_yield v rest B : YieldsD (Chain (OfList (v :: rest)) B) v (Chain (OfList rest) B) 0 0.
Proof. intro s. exists 2. cbn. rewrite plus_st_0. reflexivity. Qed.

Lemma chain_nil_skip B v j a b : YieldsD B v j a b -> YieldsD (Chain (OfList []) B) v j a b.
Proof.
  intros H s. destruct (chain_second (OfList []) B 0 0 v j a b oflist_ends H s) as [fu E]. exists fu. exact E.
Qed.

Lemma chain_nil_steps B l a b j : l <> [] -> StepsD B l a b j -> StepsD (Chain (OfList []) B) l a b j.
Proof.
  intros N HS. destruct l as [|v r]; [contradiction|].
  destruct HS as (j1 & p1 & t1 & p2 & t2 & Y & HS & -> & ->).
  apply (StepsD_cons _ _ _ _ _ _ _ _ _ (chain_nil_skip _ _ _ _ _ Y) HS).
Qed.

Definition zt (l : list val) : list (val * nat) := map (fun v => (v, 0)) l.
Lemma zt_fst l : map fst (zt l) = l.
Proof. unfold zt. rewrite map_map. cbn. apply map_id. Qed.
Lemma zt_sumt l : sumt (zt l) = 0.
Proof. induction l; cbn; [reflexivity | exact IHl]. Qed.
Lemma zt_firstn r l : firstn r (zt l) = zt (firstn r l).
Proof. unfold zt. apply firstn_map. Qed.
Lemma zt_length l : length (zt l) = length l.
Proof. unfold zt. apply map_length. Qed.

Lemma follows_chain rest B : Follows (Chain (OfList rest) B) (zt rest) 0 B.
Proof.
  split.
  - intros r L. rewrite zt_firstn, zt_fst, zt_sumt. rewrite zt_length in L.
    exists (Chain (OfList (skipn r rest)) B).
    pose proof (oflist_steps (firstn r rest) (skipn r rest)) as O. rewrite firstn_skipn in O.
    apply (chain_steps B _ _ _ _ _ O).
  - split.
    + intros l a b j N HS. rewrite zt_fst, zt_sumt.
      pose proof (oflist_steps rest []) as O. rewrite app_nil_r in O.
      pose proof (chain_steps B _ _ _ _ _ O) as C1.
      eapply StepsD_eq; [apply (StepsD_app _ _ _ _ _ _ _ _ _ C1 (chain_nil_steps B l a b j N HS)) | lia | lia].
    + intros a b E. rewrite zt_fst, zt_sumt. exists (Chain (OfList []) B).
      pose proof (oflist_steps rest []) as O. rewrite app_nil_r in O. split; [apply (chain_steps B _ _ _ _ _ O)|].
      eapply EndsD_eq; [apply (chain_ends _ _ _ _ _ _ oflist_ends E) | lia | lia].
Qed.

(* what one pulled input element (cost dp, dt) makes A do: emit [outs] (the first one carries the pull),
   spend [trail] more ticks, go on as B *)
Definition FollowsP (A : it) (dp dt : nat) (outs : list (val * nat)) (trail : nat) (B : it) : Prop :=
  (forall r, 1 <= r <= length outs -> exists j, StepsD A (map fst (firstn r outs)) dp (dt + sumt (firstn r outs)) j) /\
  (forall l a b j, l <> [] -> StepsD B l a b j ->
     exists j', StepsD A (map fst outs ++ l) (dp + a) (dt + sumt outs + trail + b) j').

(* A pulls (dp, dt), spends e ticks, and then IS X *)
Lemma followsP_of_follows A X dp dt e outs trail B :
  (forall v j a b, YieldsD X v j a b -> YieldsD A v j (dp + a) (dt + e + b)) ->
  Follows X outs trail B ->
  match outs with
  | [] => FollowsP A dp dt [] (e + trail) B
  | (v, t) :: rest => FollowsP A dp dt ((v, e + t) :: rest) trail B
  end.
Proof.
  intros HP [F1 [F2 _]]. destruct outs as [|[v t] rest].
  - split; [intros r L; cbn in L; lia|]. intros l a b j N HS. pose proof (F2 l a b j N HS) as HS'.
    cbn [map app sumt fold_right] in *. destruct l as [|w l']; [contradiction|].
    destruct HS' as (j1 & a1 & b1 & a2 & b2 & Y1 & HS1 & Ea & Eb). exists j.
    eapply StepsD_eq; [apply (StepsD_cons _ _ _ _ _ _ _ _ _ (HP _ _ _ _ Y1) HS1) | lia | lia].
  - split.
    + intros r L. destruct r as [|r]; [lia|]. cbn [length] in L. destruct (F1 (S r) ltac:(cbn; lia)) as [j HS].
      cbn [firstn map fst sumt fold_right snd] in *.
      destruct HS as (j1 & a1 & b1 & a2 & b2 & Y1 & HS1 & Ea & Eb). exists j.
      eapply StepsD_eq; [apply (StepsD_cons _ _ _ _ _ _ _ _ _ (HP _ _ _ _ Y1) HS1) | lia | lia].
    + intros l a b j N HS. pose proof (F2 l a b j N HS) as HS'.
      cbn [map fst app sumt fold_right snd] in *.
      destruct HS' as (j1 & a1 & b1 & a2 & b2 & Y1 & HS1 & Ea & Eb). exists j.
      eapply StepsD_eq; [apply (StepsD_cons _ _ _ _ _ _ _ _ _ (HP _ _ _ _ Y1) HS1) | lia | lia].
Qed.

(* A yields v and continues as C, which follows with the rest *)
Lemma followsP_yield A v C dp dt t rest trail B :
  YieldsD A v C dp (dt + t) -> Follows C rest trail B -> FollowsP A dp dt ((v, t) :: rest) trail B.
Proof.
  intros Y [F1 [F2 _]]. split.
  - intros r L. destruct r as [|r]; [lia|]. cbn [length] in L. destruct (F1 r ltac:(lia)) as [j HS]. exists j.
    cbn [firstn map fst sumt fold_right snd].
    eapply StepsD_eq; [apply (StepsD_cons _ _ _ _ _ _ _ _ _ Y HS) | lia |].
    change (fold_right (fun (p : val * nat) (acc : nat) => snd p + acc) 0 (firstn r rest)) with (sumt (firstn r rest)). lia.
  - intros l a b j N HS. pose proof (F2 l a b j N HS) as HS'. exists j. cbn [map fst app sumt fold_right snd].
    eapply StepsD_eq; [apply (StepsD_cons _ _ _ _ _ _ _ _ _ Y HS') | lia |].
    change (fold_right (fun (p : val * nat) (acc : nat) => snd p + acc) 0 rest) with (sumt rest). lia.
Qed.

(* A drops the input and behaves as B *)
Lemma followsP_skip A dp dt trail B :
  (forall v j a b, YieldsD B v j a b -> YieldsD A v j (dp + a) (dt + trail + b)) -> FollowsP A dp dt [] trail B.
Proof.
  intro HP. split; [intros r L; cbn in L; lia|]. intros l a b j N HS. cbn [map app sumt fold_right].
  destruct l as [|w l']; [contradiction|]. destruct HS as (j1 & a1 & b1 & a2 & b2 & Y1 & HS1 & -> & ->). exists j.
  eapply StepsD_eq; [apply (StepsD_cons _ _ _ _ _ _ _ _ _ (HP _ _ _ _ Y1) HS1) | lia | lia].
Qed.

Section Transducer.
  Variable Q : Type.
  Variable T : Q -> it -> it.
  Variable out : Q -> val -> list (val * nat).
  Variable tr : Q -> val -> nat.
  Variable nq : Q -> val -> Q.
  Variable live : Q -> val -> bool.

  (* what the machine must do with one input element *)
  Hypothesis HF : forall q i x i1 dp dt, live q x = true -> YieldsD i x i1 dp dt ->
    FollowsP (T q i) dp dt (out q x) (tr q x) (T (nq q x) i1).

  Fixpoint touts (q : Q) (xs : list val) : list val :=
    match xs with
    | [] => []
    | x :: r => if live q x then map fst (out q x) ++ touts (nq q x) r else []
    end.

  Fixpoint tneed (q : Q) (xs : list val) (k : nat) {struct xs} : nat :=
    match xs with
    | [] => 0
    | x :: r => match k with
                | O => 0
                | _ => if live q x then (if k <=? length (out q x) then 1 else S (tneed (nq q x) r (k - length (out q x)))) else 0
                end
    end.

  Fixpoint ttks (q : Q) (xs : list val) (k : nat) {struct xs} : nat :=
    match xs with
    | [] => 0
    | x :: r => match k with
                | O => 0
                | _ => if live q x then
                         (if k <=? length (out q x) then sumt (firstn k (out q x))
                          else sumt (out q x) + tr q x + ttks (nq q x) r (k - length (out q x)))
                       else 0
                end
    end.

  Lemma tneed_le q xs k : tneed q xs k <= length xs.
  Proof.
    revert q k. induction xs as [|x r IH]; intros q k; cbn [tneed length]; [lia|].
    destruct k; [lia|]. destruct (live q x); [|lia]. destruct (S k <=? length (out q x)); [lia|].
    specialize (IH (nq q x) (S k - length (out q x))). lia.
  Qed.

  Lemma tneed_pos q xs k : 1 <= k <= length (touts q xs) -> 1 <= tneed q xs k.
  Proof.
    destruct xs as [|x r]; cbn [touts tneed length]; [lia|]. intro L. destruct k; [lia|].
    destruct (live q x); [|cbn in L; lia]. destruct (S k <=? length (out q x)); lia.
  Qed.

  Lemma trans_steps : forall xs q i k, 1 <= k <= length (touts q xs) ->
    forall dp dt i', StepsD i (firstn (tneed q xs k) xs) dp dt i' ->
    exists j, StepsD (T q i) (firstn k (touts q xs)) dp (dt + ttks q xs k) j.
  Proof.
    induction xs as [|x r IH]; intros q i k L dp dt i' HS; [cbn in L; lia|].
    cbn [touts tneed ttks] in *. destruct k as [|k]; [lia|]. destruct (live q x) eqn:Lv; [|cbn in L; lia].
    rewrite app_length, map_length in L.
    destruct (S k <=? length (out q x)) eqn:Q1.
    - apply Nat.leb_le in Q1. cbn [firstn] in HS.
      destruct HS as (i1 & p1 & t1 & p2 & t2 & Y & (-> & -> & ->) & -> & ->).
      destruct (HF q i x i1 p1 t1 Lv Y) as [F1 _]. destruct (F1 (S k) ltac:(lia)) as [j HSj]. exists j.
      rewrite firstn_app. replace (S k - length (map fst (out q x))) with 0 by (rewrite map_length; lia).
      rewrite firstn_O, app_nil_r, firstn_map.
      eapply StepsD_eq; [exact HSj | lia | lia].
    - apply Nat.leb_gt in Q1. cbn [firstn] in HS.
      destruct HS as (i1 & p1 & t1 & p2 & t2 & Y & HS & -> & ->).
      assert (Lk : 1 <= S k - length (out q x) <= length (touts (nq q x) r)) by lia.
      destruct (IH (nq q x) i1 _ Lk _ _ _ HS) as [j HSr].
      destruct (HF q i x i1 p1 t1 Lv Y) as [_ F2].
      assert (NE : firstn (S k - length (out q x)) (touts (nq q x) r) <> []).
      { intro E. apply (f_equal (@length val)) in E. rewrite firstn_length in E. cbn [length] in E. lia. }
      destruct (F2 _ _ _ _ NE HSr) as [j' HS']. exists j'.
      rewrite firstn_app, map_length. rewrite firstn_all2 by (rewrite map_length; lia).
      eapply StepsD_eq; [exact HS' | lia | lia].
  Qed.

  Theorem trans_like q i xs cp ct : Like i xs cp ct ->
    Like (T q i) (touts q xs) (fun k => cp (tneed q xs k)) (fun k => ct (tneed q xs k) + ttks q xs k).
  Proof.
    intros H k L. destruct (Like_0 _ _ _ _ H) as [C0 T0]. destruct k as [|k].
    - exists (T q i). destruct xs; cbn; rewrite C0, T0; repeat split.
    - assert (Lk : 1 <= S k <= length (touts q xs)) by lia.
      destruct (H (tneed q xs (S k)) (tneed_le q xs (S k))) as [i' HS].
      destruct (trans_steps xs q i (S k) Lk _ _ _ HS) as [j HSj]. exists j. exact HSj.
  Qed.

  (* the k-th output never needs more inputs than k + the elements the operator dropped before it *)
  Lemma ttks_0 q xs : ttks q xs 0 = 0.
  Proof. destruct xs; reflexivity. Qed.
  Lemma tneed_0 q xs : tneed q xs 0 = 0.
  Proof. destruct xs; reflexivity. Qed.
End Transducer.

(* outputs produced before the input is touched *)
Lemma like_prepend A v B ys cp ct : YieldsD A v B 0 0 -> Like B ys cp ct ->
  Like A (v :: ys) (fun k => cp (Nat.pred k)) (fun k => ct (Nat.pred k)).
Proof.
  intros Y H k L. destruct (Like_0 _ _ _ _ H) as [C0 T0]. destruct k as [|k].
  - exists A. cbn. rewrite C0, T0. repeat split.
  - cbn [length] in L. destruct (H k ltac:(lia)) as [j HS]. exists j. cbn [firstn Nat.pred].
    eapply StepsD_eq; [apply (StepsD_cons _ _ _ _ _ _ _ _ _ Y HS) | lia | lia].
Qed.

Lemma like_prepend_list vs : forall B ys cp ct, Like B ys cp ct ->
  Like (Chain (OfList vs) B) (vs ++ ys) (fun k => cp (k - length vs)) (fun k => ct (k - length vs)).
Proof.
  intros B ys cp ct H k L. destruct (Like_0 _ _ _ _ H) as [C0 T0]. rewrite app_length in L.
  destruct (le_lt_dec k (length vs)) as [Q|Q].
  - replace (k - length vs) with 0 by lia. rewrite C0, T0. rewrite firstn_app. replace (k - length vs) with 0 by lia.
    cbn [firstn]. rewrite app_nil_r. exists (Chain (OfList (skipn k vs)) B).
    pose proof (oflist_steps (firstn k vs) (skipn k vs)) as O. rewrite firstn_skipn in O.
    apply (chain_steps B _ _ _ _ _ O).
  - destruct (H (k - length vs) ltac:(lia)) as [j HS]. exists j.
    rewrite firstn_app. rewrite firstn_all2 by lia.
    pose proof (oflist_steps vs []) as O. rewrite app_nil_r in O. pose proof (chain_steps B _ _ _ _ _ O) as C1.
    assert (N : firstn (k - length vs) ys <> []).
    { intro E. apply (f_equal (@length val)) in E. rewrite firstn_length in E. cbn [length] in E. lia. }
    eapply StepsD_eq; [apply (StepsD_app _ _ _ _ _ _ _ _ _ C1 (chain_nil_steps B _ _ _ _ N HS)) | lia | lia].
Qed.
