(* C15 - value-level theorems: evaluation of `a OP b` through the REGENERATED table
   (Gen/ScalarOps.v) and the payload model.  Floats stay abstract: F and its operations
   are Section variables; the only facts used about them are the Hypotheses below. *)
From Coq Require Import List ZArith Bool Lia ZifyBool.
From YV Require Import Common.Corr Model.Scalars Gen.ScalarOps Lemmas.Scalars Lemmas.ScalarsTable.
Import ListNotations.

Section Eval.
Variable cf : cfg.   (* any of the three engine/context configurations *)
Variable F : Type.
Variable fo : fops F.

Definition ev (o : op) (args : list (val F)) : res F := eval_op F fo (registry_of cf) o args.
Definition holds (o : op) (x y : val F) : Prop := ev o [x; y] = RVal (VBool true).
Definition fails (o : op) (x y : val F) : Prop := ev o [x; y] = RVal (VBool false).

Definition of_dres (d : dres) (args : list (val F)) : res F :=
  match d with
  | DPayload t => run_payload F fo t args
  | DNoMatch => RErr ENoMatch
  | DAmbiguous => RErr EAmbiguous
  end.

Lemma ev2 : forall o x y, In o binary_ops -> In (kind_of F x) grid_kinds -> In (kind_of F y) grid_kinds ->
  ev o [x; y] = of_dres (expected2 cf o (kind_of F x) (kind_of F y)) [x; y].
Proof.
  intros o x y Ho Hx Hy. unfold ev, eval_op. cbn [map].
  rewrite (dispatch_table2 cf o _ _ Ho Hx Hy). reflexivity.
Qed.

Lemma ev1 : forall o x, In o unary_ops -> In (kind_of F x) grid_kinds ->
  ev o [x] = of_dres (expected1 o (kind_of F x)) [x].
Proof.
  intros o x Ho Hx. unfold ev, eval_op. cbn [map].
  rewrite (dispatch_table1 cf o _ Ho Hx). reflexivity.
Qed.

Ltac inlist := cbn; tauto.

(* ------------------------------------------------------------------ integers are exact *)
Lemma int_exact : forall a b : Z,
  ev OAdd [VInt a; VInt b] = RVal (VInt (a + b)) /\
  ev OSub [VInt a; VInt b] = RVal (VInt (a - b)) /\
  ev OMul [VInt a; VInt b] = RVal (VInt (a * b)) /\
  ev UNeg [VInt a] = RVal (VInt (- a)) /\
  ev UPos [VInt a] = RVal (VInt a).
Proof.
  intros a b. split; [|split; [|split; [|split]]].
  - rewrite ev2 by inlist. reflexivity.
  - rewrite ev2 by inlist. reflexivity.
  - rewrite ev2 by inlist. reflexivity.
  - rewrite ev1 by inlist. reflexivity.
  - rewrite ev1 by inlist. reflexivity.
Qed.

Lemma div_mod : forall a b : Z,
  (b = 0%Z -> ev ODiv [VInt a; VInt b] = RErr EZeroDiv /\ ev OMod [VInt a; VInt b] = RErr EZeroDiv) /\
  (b <> 0%Z -> exists q r,
     ev ODiv [VInt a; VInt b] = RVal (VInt q) /\ ev OMod [VInt a; VInt b] = RVal (VInt r) /\
     (a = q * b + r)%Z /\ ((0 <= r < b)%Z \/ (b < r <= 0)%Z) /\
     (forall q' r', a = (q' * b + r')%Z -> ((0 <= r' < b)%Z \/ (b < r' <= 0)%Z) -> q' = q /\ r' = r)).
Proof.
  intros a b. split.
  - intros ->. split; rewrite ev2 by inlist; reflexivity.
  - intros Hb. exists (a / b)%Z, (a mod b)%Z.
    assert (E : Z.eqb b 0 = false) by lia.
    split; [|split].
    + rewrite ev2 by inlist. cbn. rewrite E. reflexivity.
    + rewrite ev2 by inlist. cbn. rewrite E. reflexivity.
    + exact (floor_div_mod a b Hb).
Qed.

(* ------------------------------------------------------------------ mixed arithmetic is float arithmetic *)
Definition fl2 (k : F -> F -> res F) (x y : option F) : res F :=
  match x, y with Some a, Some b => k a b | _, _ => RErr EResource end.
Definition fdivr (a b : F) : res F :=
  match fo_div F fo a b with Some r => RVal (VFloat r) | None => RErr EZeroDiv end.

Lemma mixed_is_float : forall (a : Z) (f g : F),
  let za := fo_of_Z F fo a in
  ev OAdd [VInt a; VFloat f] = fl2 (fun x y => RVal (VFloat (fo_add F fo x y))) za (Some f) /\
  ev OAdd [VFloat f; VInt a] = fl2 (fun x y => RVal (VFloat (fo_add F fo x y))) (Some f) za /\
  ev OSub [VInt a; VFloat f] = fl2 (fun x y => RVal (VFloat (fo_sub F fo x y))) za (Some f) /\
  ev OSub [VFloat f; VInt a] = fl2 (fun x y => RVal (VFloat (fo_sub F fo x y))) (Some f) za /\
  ev OMul [VInt a; VFloat f] = fl2 (fun x y => RVal (VFloat (fo_mul F fo x y))) za (Some f) /\
  ev OMul [VFloat f; VInt a] = fl2 (fun x y => RVal (VFloat (fo_mul F fo x y))) (Some f) za /\
  ev ODiv [VInt a; VFloat f] = fl2 fdivr za (Some f) /\
  ev ODiv [VFloat f; VInt a] = fl2 fdivr (Some f) za /\
  ev OAdd [VFloat f; VFloat g] = RVal (VFloat (fo_add F fo f g)) /\
  ev OSub [VFloat f; VFloat g] = RVal (VFloat (fo_sub F fo f g)) /\
  ev OMul [VFloat f; VFloat g] = RVal (VFloat (fo_mul F fo f g)) /\
  ev ODiv [VFloat f; VFloat g] = fdivr f g.
Proof.
  intros a f g za. subst za.
  repeat (match goal with |- _ /\ _ => split end); rewrite ev2 by inlist; cbn; unfold lift_f, fl2, fdivr;
    destruct (fo_of_Z F fo a); reflexivity.
Qed.

(* ------------------------------------------------------------------ ordering *)
Definition exactly_one (A B C : Prop) : Prop :=
  (A /\ ~ B /\ ~ C) \/ (~ A /\ B /\ ~ C) \/ (~ A /\ ~ B /\ C).

Definition order_laws (x y : val F) : Prop :=
  (holds OGt x y <-> holds OLt y x) /\
  (holds OGe x y <-> holds OLe y x) /\
  (holds OLe x y <-> holds OLt x y \/ holds OEq x y) /\
  exactly_one (holds OLt x y) (holds OEq x y) (holds OGt x y) /\
  (holds ONeq x y <-> ~ holds OEq x y) /\
  (forall o, In o [OLt; OLe; OGt; OGe; OEq; ONeq] -> exists b, ev o [x; y] = RVal (VBool b)).

Definition op_of (c : cmpop) : op := match c with CLt => OLt | CLe => OLe | CGt => OGt | CGe => OGe end.
Definition is_Eq (r : comparison) : bool := match r with Eq => true | _ => false end.

(* x and y are compared through one three-way result r, y and x through its opposite *)
Definition compared (x y : val F) (r : comparison) : Prop :=
  (forall c, ev (op_of c) [x; y] = RVal (VBool (cmp_holds c r))) /\
  (forall c, ev (op_of c) [y; x] = RVal (VBool (cmp_holds c (CompOpp r)))) /\
  ev OEq [x; y] = RVal (VBool (is_Eq r)) /\
  ev ONeq [x; y] = RVal (VBool (negb (is_Eq r))).

Lemma rv_true : forall b : bool, (@RVal F (VBool b) = RVal (VBool true)) <-> b = true.
Proof. intros b. split; [intros H; injection H as H; exact H | intros ->; reflexivity]. Qed.

Lemma compared_laws : forall x y r, compared x y r -> order_laws x y.
Proof.
  intros x y r (Hxy & Hyx & He & Hn). unfold order_laws, holds, exactly_one.
  pose proof (Hxy CLt) as Hlt. pose proof (Hxy CLe) as Hle. pose proof (Hxy CGt) as Hgt.
  pose proof (Hxy CGe) as Hge. pose proof (Hyx CLt) as Hlt'. pose proof (Hyx CLe) as Hle'.
  cbn [op_of] in *.
  rewrite Hlt, Hle, Hgt, Hge, Hlt', Hle', He, Hn. rewrite !rv_true.
  split; [|split; [|split; [|split; [|split]]]].
  1-5: destruct r; cbn; intuition congruence.
  - intros o Ho. cbn in Ho.
    repeat (destruct Ho as [Ho|Ho]; [subst o; eexists; eassumption|]). contradiction.
Qed.

(* integers *)
Lemma compared_int : forall a b : Z, compared (VInt a) (VInt b) (Z.compare a b).
Proof.
  intros a b. unfold compared. split; [|split; [|split]].
  - intros c. destruct c; cbn [op_of]; rewrite ev2 by inlist; reflexivity.
  - intros c. rewrite <- Z.compare_antisym.
    destruct c; cbn [op_of]; rewrite ev2 by inlist; reflexivity.
  - rewrite ev2 by inlist. cbn. destruct (Z.compare a b); reflexivity.
  - rewrite ev2 by inlist. cbn. destruct (Z.compare a b); reflexivity.
Qed.

Lemma order_int : forall a b : Z,
  order_laws (VInt a) (VInt b) /\
  (holds OLt (VInt a) (VInt b) <-> (a < b)%Z) /\ (holds OLe (VInt a) (VInt b) <-> (a <= b)%Z) /\
  (holds OGt (VInt a) (VInt b) <-> (a > b)%Z) /\ (holds OGe (VInt a) (VInt b) <-> (a >= b)%Z) /\
  (holds OEq (VInt a) (VInt b) <-> a = b).
Proof.
  intros a b. pose proof (compared_int a b) as C. split; [exact (compared_laws _ _ _ C)|].
  destruct C as (Hxy & _ & He & _). unfold holds.
  pose proof (Hxy CLt) as Hlt. pose proof (Hxy CLe) as Hle. pose proof (Hxy CGt) as Hgt.
  pose proof (Hxy CGe) as Hge. cbn [op_of] in Hlt, Hle, Hgt, Hge.
  rewrite Hlt, Hle, Hgt, Hge, He. rewrite !rv_true.
  pose proof (cmp_holds_Z a b) as (H1 & H2 & H3 & H4).
  repeat split; try tauto.
  - unfold is_Eq. destruct (Z.compare a b) eqn:E; try discriminate. intros _. apply Z.compare_eq_iff. exact E.
  - intros ->. rewrite Z.compare_refl. reflexivity.
Qed.

(* strings *)
Lemma compared_str : forall s t : list Z, compared (VStr s) (VStr t) (str_compare s t).
Proof.
  intros s t. unfold compared. split; [|split; [|split]].
  - intros c. destruct c; cbn [op_of]; rewrite ev2 by inlist; reflexivity.
  - intros c. rewrite <- str_compare_antisym.
    destruct c; cbn [op_of]; rewrite ev2 by inlist; reflexivity.
  - rewrite ev2 by inlist. cbn. destruct (str_compare s t); reflexivity.
  - rewrite ev2 by inlist. cbn. destruct (str_compare s t); reflexivity.
Qed.

Lemma order_str : forall s t : list Z,
  order_laws (VStr s) (VStr t) /\
  (holds OLt (VStr s) (VStr t) <-> str_compare s t = Lt) /\
  (holds OEq (VStr s) (VStr t) <-> s = t) /\
  ev OAdd [VStr s; VStr t] = RVal (VStr (s ++ t)).
Proof.
  intros s t. pose proof (compared_str s t) as C. split; [exact (compared_laws _ _ _ C)|].
  destruct C as (Hxy & _ & He & _). unfold holds.
  pose proof (Hxy CLt) as Hlt. cbn [op_of] in Hlt. rewrite Hlt, He. rewrite !rv_true.
  split; [split|split; [split|]].
  - destruct (str_compare s t); cbn; intros; congruence.
  - intros ->. reflexivity.
  - unfold is_Eq. destruct (str_compare s t) eqn:E; try discriminate. intros _. apply str_compare_eq. exact E.
  - intros ->. rewrite str_compare_refl. reflexivity.
  - rewrite ev2 by inlist. reflexivity.
Qed.

Lemma str_lt_trans : forall s t u : list Z,
  holds OLt (VStr s) (VStr t) -> holds OLt (VStr t) (VStr u) -> holds OLt (VStr s) (VStr u).
Proof.
  intros s t u H1 H2.
  apply (proj1 (proj2 (order_str s t))) in H1. apply (proj1 (proj2 (order_str t u))) in H2.
  apply (proj1 (proj2 (order_str s u))). exact (str_compare_lt_trans s t u H1 H2).
Qed.

Lemma int_lt_trans : forall a b c : Z,
  holds OLt (VInt a) (VInt b) -> holds OLt (VInt b) (VInt c) -> holds OLt (VInt a) (VInt c).
Proof.
  intros a b c H1 H2.
  apply (proj1 (proj2 (order_int a b))) in H1. apply (proj1 (proj2 (order_int b c))) in H2.
  apply (proj1 (proj2 (order_int a c))). lia.
Qed.

(* numbers, floats included: laws assumed of the float comparison *)
Variable nan : F -> bool.
Hypothesis fcompare_antisym : forall f g, fo_compare F fo g f = option_map CompOpp (fo_compare F fo f g).
Hypothesis fcompare_nan : forall f g, fo_compare F fo f g = None <-> (nan f = true \/ nan g = true).
Hypothesis fcmpZ_nan : forall z f, fo_cmpZ F fo z f = None <-> nan f = true.

Definition number (v : val F) : Prop :=
  match v with VInt _ => True | VFloat f => nan f = false | _ => False end.

Lemma CompOpp_invol_opt : forall r : option comparison, option_map CompOpp (option_map CompOpp r) = r.
Proof. intros [r|]; [cbn; rewrite CompOpp_involutive|]; reflexivity. Qed.

Lemma num_compare_antisym : forall a b : num F,
  num_compare F fo b a = option_map CompOpp (num_compare F fo a b).
Proof.
  intros [x|f] [y|g]; cbn [num_compare].
  - cbn. rewrite Z.compare_antisym. reflexivity.
  - reflexivity.
  - rewrite CompOpp_invol_opt. reflexivity.
  - apply fcompare_antisym.
Qed.

Lemma number_compared : forall x y, number x -> number y ->
  exists a b r, as_num F x = Some a /\ as_num F y = Some b /\ num_compare F fo a b = Some r.
Proof.
  intros x y Hx Hy.
  destruct x as [| | a | f | | | | | |]; try contradiction; destruct y as [| | b | g | | | | | |]; try contradiction;
    cbn in Hx, Hy; cbn [as_num num_compare].
  - eexists _, _, _. repeat split.
  - destruct (fo_cmpZ F fo a g) as [r|] eqn:E.
    + eexists _, _, r. repeat split. exact E.
    + apply fcmpZ_nan in E. congruence.
  - destruct (fo_cmpZ F fo b f) as [r|] eqn:E.
    + eexists _, _, (CompOpp r). repeat split. cbn. rewrite E. reflexivity.
    + apply fcmpZ_nan in E. congruence.
  - destruct (fo_compare F fo f g) as [r|] eqn:E.
    + eexists _, _, r. repeat split. exact E.
    + apply fcompare_nan in E. destruct E; congruence.
Qed.

Lemma number_kind : forall x, number x -> In (kind_of F x) [KInt; KFloat].
Proof. intros x Hx. destruct x; try contradiction; cbn; tauto. Qed.

Lemma num_eq_as : forall x a, as_num F x = Some a -> eq_as_num F x = Some a.
Proof. intros x a H. destruct x; try discriminate; exact H. Qed.

Lemma compared_num : forall x y, number x -> number y -> exists r, compared x y r.
Proof.
  intros x y Hx Hy. destruct (number_compared x y Hx Hy) as (a & b & r & Ha & Hb & Hr).
  exists r.
  assert (Hr' : num_compare F fo b a = Some (CompOpp r)).
  { rewrite num_compare_antisym, Hr. reflexivity. }
  pose proof (number_kind x Hx) as Kx. pose proof (number_kind y Hy) as Ky.
  assert (Gx : In (kind_of F x) grid_kinds) by (cbn in Kx |- *; tauto).
  assert (Gy : In (kind_of F y) grid_kinds) by (cbn in Ky |- *; tauto).
  assert (Ex : forall o t, In o binary_ops -> (forall k1 k2, In k1 [KInt; KFloat] -> In k2 [KInt; KFloat] -> expected2 cf o k1 k2 = DPayload t) ->
               ev o [x; y] = run_payload F fo t [x; y] /\ ev o [y; x] = run_payload F fo t [y; x]).
  { intros o t Ho Ht. split; rewrite ev2 by assumption; rewrite Ht by assumption; reflexivity. }
  assert (Hc : forall c, ev (op_of c) [x; y] = RVal (VBool (cmp_holds c r)) /\
                         ev (op_of c) [y; x] = RVal (VBool (cmp_holds c (CompOpp r)))).
  { intros c.
    destruct (Ex (op_of c) (PNumCmp c)) as [E1 E2].
    - destruct c; cbn; tauto.
    - intros k1 k2 H1 H2. cbn in H1, H2.
      destruct H1 as [<-|[<-|[]]]; destruct H2 as [<-|[<-|[]]]; destruct c; reflexivity.
    - rewrite E1, E2. cbn [run_payload]. rewrite Ha, Hb, Hr, Hr'. split; reflexivity. }
  unfold compared. split; [intros c; apply Hc|]. split; [intros c; apply Hc|].
  apply num_eq_as in Ha. apply num_eq_as in Hb.
  assert (Hpe : py_eq F fo x y = is_Eq r).
  { unfold py_eq. rewrite Ha, Hb, Hr. destruct r; reflexivity. }
  split.
  - destruct (Ex OEq PEq) as [E1 _]; [cbn; tauto | reflexivity |].
    rewrite E1. cbn [run_payload]. rewrite <- Hpe.
    destruct x; try contradiction; destruct y; try contradiction; reflexivity.
  - destruct (Ex ONeq PNeq) as [E1 _]; [cbn; tauto | reflexivity |].
    rewrite E1. cbn [run_payload]. rewrite <- Hpe.
    destruct x; try contradiction; destruct y; try contradiction; reflexivity.
Qed.

Lemma order_num : forall x y, number x -> number y -> order_laws x y.
Proof.
  intros x y Hx Hy. destruct (compared_num x y Hx Hy) as [r C]. exact (compared_laws _ _ _ C).
Qed.

(* ------------------------------------------------------------------ null is least *)
Lemma null_least : forall v : val F, kind_of F v <> KNull ->
  holds OLt VNull v /\ holds OLe VNull v /\ fails OGt VNull v /\ fails OGe VNull v /\
  fails OLt v VNull /\ fails OLe v VNull /\ holds OGt v VNull /\ holds OGe v VNull.
Proof.
  intros v Hv.
  assert (H : forall o c, cmp_of o = Some c -> In o order_ops ->
            ev o [VNull; v] = RVal (VBool (null_const 1 c)) /\ ev o [v; VNull] = RVal (VBool (null_const 0 c))).
  { intros o c Hc Ho. unfold ev, eval_op. cbn [map kind_of].
    destruct (null_dispatch cf o (kind_of F v) Ho) as [H1 H2]. rewrite H1, H2.
    unfold null_expected. rewrite Hc. destruct (kind_of F v); try contradiction; split; reflexivity. }
  unfold holds, fails.
  destruct (H OLt CLt eq_refl) as [A1 A2]; [cbn; tauto|].
  destruct (H OLe CLe eq_refl) as [B1 B2]; [cbn; tauto|].
  destruct (H OGt CGt eq_refl) as [C1 C2]; [cbn; tauto|].
  destruct (H OGe CGe eq_refl) as [D1 D2]; [cbn; tauto|].
  repeat (match goal with |- _ /\ _ => split end); assumption.
Qed.

Lemma null_not_equal : forall v : val F, kind_of F v <> KNull -> (forall k, v <> VOpaque k) ->
  fails OEq VNull v /\ fails OEq v VNull /\ holds ONeq VNull v /\ holds ONeq v VNull.
Proof.
  intros v Hv Ho. unfold holds, fails.
  assert (G : In (kind_of F v) grid_kinds).
  { destruct v; cbn; try tauto. exfalso. exact (Ho k eq_refl). }
  repeat (match goal with |- _ /\ _ => split end); rewrite ev2 by (try exact G; inlist);
    destruct v; try (exfalso; apply Hv; reflexivity); try reflexivity; exfalso; exact (Ho k eq_refl).
Qed.

Lemma null_null :
  fails OLt VNull VNull /\ holds OLe VNull VNull /\ fails OGt VNull VNull /\ holds OGe VNull VNull /\
  holds OEq VNull (@VNull F).
Proof. unfold holds, fails. repeat split; rewrite ev2 by inlist; reflexivity. Qed.

(* ------------------------------------------------------------------ booleans are not numbers *)
Lemma bool_rejected : forall o (b : bool) (v : val F), In o arith_order_ops ->
  (cmp_of o = None \/ kind_of F v <> KNull) ->
  ev o [VBool b; v] = RErr ENoMatch /\ ev o [v; VBool b] = RErr ENoMatch.
Proof.
  intros o b v Ho Hc. unfold ev, eval_op. cbn [map kind_of].
  destruct (bool_not_number cf o (kind_of F v) Ho) as [H1 H2]. rewrite H1, H2.
  unfold bool_expected. destruct (cmp_of o) as [c|].
  - destruct Hc as [Hc|Hc]; [discriminate|]. destruct (kind_of F v); try contradiction; split; reflexivity.
  - split; reflexivity.
Qed.

Lemma bool_rejected_unary : forall b : bool,
  ev UPos [VBool b] = RErr ENoMatch /\ ev UNeg [VBool b] = RErr ENoMatch.
Proof.
  intros b. unfold ev, eval_op. cbn [map kind_of].
  destruct (bool_not_number_unary cf) as [H1 H2]. rewrite H1, H2. split; reflexivity.
Qed.

(* with null on the other side the null rule applies and the boolean counts as "non-null" *)
Lemma bool_vs_null : forall b : bool,
  fails OLt (VBool b) VNull /\ holds OGt (VBool b) VNull /\ holds OLt VNull (VBool b) /\ fails OGt VNull (VBool b).
Proof.
  intros b. assert (Hk : kind_of F (VBool b) <> KNull) by discriminate.
  pose proof (null_least (VBool b) Hk). tauto.
Qed.

(* ------------------------------------------------------------------ repetition *)
Lemma repetition_laws : forall (s : list Z) (n : Z),
  ev OMul [VStr s; VInt n] = ev OMul [VInt n; VStr s] /\
  ev OMul [VList s; VInt n] = ev OMul [VInt n; VList s] /\
  ((- max_index - 1 <= n <= 0)%Z -> ev OMul [VStr s; VInt n] = RVal (VStr [])) /\
  ((Z.of_nat (length s) < alloc_limit)%Z -> ev OMul [VStr s; VInt 1] = RVal (VStr s)) /\
  (forall r, ev OMul [VStr s; VInt n] = RVal (VStr r) -> (0 < n)%Z -> Z.of_nat (length r) = (Z.of_nat (length s) * n)%Z).
Proof.
  intros s n.
  assert (E : ev OMul [VStr s; VInt n] = rep_result F VStr s (VInt n)).
  { rewrite ev2 by inlist. reflexivity. }
  split; [|split; [|split; [|split]]].
  - rewrite E. rewrite ev2 by inlist. reflexivity.
  - rewrite !ev2 by inlist. reflexivity.
  - intros Hn. rewrite E. cbn [rep_result]. unfold repetition.
    destruct ((n >? max_index)%Z || (n <? - max_index - 1)%Z) eqn:E1; [unfold max_index in *; lia|].
    destruct (n <=? 0)%Z eqn:E2; [reflexivity|lia].
  - intros Hs. rewrite ev2 by inlist. cbn. unfold repetition. cbn.
    destruct s as [|c s]; [reflexivity|].
    destruct (Z.of_nat (length (c :: s)) * 1 >=? alloc_limit)%Z eqn:E3; [lia|].
    change (Pos.to_nat 1) with 1. cbn [repeat_list]. rewrite app_nil_r. reflexivity.
  - intros r Hr Hn. rewrite E in Hr. cbn [rep_result] in Hr. unfold repetition in Hr.
    destruct ((n >? max_index)%Z || (n <? - max_index - 1)%Z); [discriminate|].
    destruct (n <=? 0)%Z eqn:E2; [lia|].
    destruct s as [|c s].
    + injection Hr as <-. cbn. lia.
    + destruct (Z.of_nat (length (c :: s)) * n >=? alloc_limit)%Z; [discriminate|].
      injection Hr as <-.
      assert (L : forall k l, length (repeat_list k l) = k * length l).
      { induction k as [|k IH]; intros l; cbn [repeat_list]; [reflexivity|]. rewrite app_length, IH. cbn. lia. }
      rewrite L. lia.
Qed.

(* ------------------------------------------------------------------ unrelated kinds: no match; never ambiguous *)
Lemma never_ambiguous2 : forall o x y, In o binary_ops -> In (kind_of F x) grid_kinds -> In (kind_of F y) grid_kinds ->
  ev o [x; y] <> RErr EAmbiguous.
Proof.
  intros o x y Ho Hx Hy. rewrite ev2 by assumption.
  assert (D : expected2 cf o (kind_of F x) (kind_of F y) <> DAmbiguous).
  { clear; destruct cf; destruct o; destruct (kind_of F x); destruct (kind_of F y); cbn; discriminate. }
  destruct (expected2 cf o (kind_of F x) (kind_of F y)) as [t| |] eqn:E; cbn [of_dres]; try discriminate; [|congruence].
  (* a payload never reports Ambiguous *)
  clear. intros H.
  destruct t; cbn in H;
    repeat match type of H with
           | context [match ?z with _ => _ end] => destruct z; cbn in H; try discriminate
           end; try discriminate.
  all: unfold num_arith, lift_f, rep_result in H; cbn in H;
    repeat match type of H with
           | context [match ?z with _ => _ end] => destruct z; cbn in H; try discriminate
           | context [if ?z then _ else _] => destruct z; cbn in H; try discriminate
           end; try discriminate.
Qed.

End Eval.
