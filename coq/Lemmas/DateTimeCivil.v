(* The civil-calendar part of Model/DateTime.v: every day number has exactly the
   civil date the model computes for it (closed over one 400-year era by computation,
   extended to all integers by periodicity). *)
From Coq Require Import ZArith Bool List Lia ZifyBool.
From YV Require Import Model.DateTime.
Open Scope Z_scope.

Lemma range_all_spec : forall p f lo, range_all p f lo = true ->
  forall n, lo <= n < lo + Zpos p -> f n = true.
Proof.
  induction p as [p IH | p IH |]; intros f lo H n R; cbn [range_all] in H.
  - apply andb_prop in H as [H H2]. apply andb_prop in H as [H0 H1].
    destruct (Z.eq_dec n lo) as [->|N]; [exact H0|].
    destruct (Z_lt_dec n (lo + 1 + Zpos p)) as [L|L].
    + apply (IH f (lo + 1) H1). lia.
    + apply (IH f (lo + 1 + Zpos p) H2). lia.
  - apply andb_prop in H as [H1 H2].
    destruct (Z_lt_dec n (lo + Zpos p)) as [L|L].
    + apply (IH f lo H1). lia.
    + apply (IH f (lo + Zpos p) H2). lia.
  - assert (n = lo) as -> by lia. exact H.
Qed.

Lemma era_checked : range_all 146097 era_day_ok 0 = true.
Proof. vm_compute. reflexivity. Qed.

Lemma era_day : forall r, 0 <= r < 146097 -> era_day_ok r = true.
Proof. intros r R. apply (range_all_spec _ _ _ era_checked). lia. Qed.

Lemma is_leap_shift : forall y q, is_leap (y + 400 * q) = is_leap y.
Proof.
  intros y q. unfold is_leap.
  replace (y + 400 * q) with (y + (100 * q) * 4) at 1 by lia. rewrite Z.mod_add by lia.
  replace (y + 400 * q) with (y + (4 * q) * 100) at 1 by lia. rewrite Z.mod_add by lia.
  replace (y + 400 * q) with (y + q * 400) by lia. rewrite Z.mod_add by lia.
  reflexivity.
Qed.

Lemma days_in_month_shift : forall y q m, days_in_month (y + 400 * q) m = days_in_month y m.
Proof. intros y q m. unfold days_in_month. rewrite is_leap_shift. reflexivity. Qed.

Lemma days_from_civil_shift : forall y m d q,
  days_from_civil (y + 400 * q) m d = days_from_civil y m d + 146097 * q.
Proof.
  intros y m d q. unfold days_from_civil, days_before_month, days_before_year.
  rewrite is_leap_shift. cbv zeta.
  replace (y + 400 * q - 1) with (y - 1 + (100 * q) * 4) at 2 by lia. rewrite Z.div_add by lia.
  replace (y + 400 * q - 1) with (y - 1 + (4 * q) * 100) at 2 by lia. rewrite Z.div_add by lia.
  replace (y + 400 * q - 1) with (y - 1 + q * 400) at 2 by lia. rewrite Z.div_add by lia.
  lia.
Qed.

(* for EVERY integer day number *)
Lemma civil_roundtrip : forall n y m d, civil_from_days n = (y, m, d) ->
  days_from_civil y m d = n /\ 1 <= m <= 12 /\ 1 <= d <= days_in_month y m.
Proof.
  intros n y m d H. unfold civil_from_days in H.
  assert (R : 0 <= n mod 146097 < 146097) by (apply Z.mod_pos_bound; lia).
  pose proof (era_day _ R) as E. unfold era_day_ok in E.
  destruct (civil_era (n mod 146097)) as [[y0 m0] d0]. cbv beta iota in H.
  assert (Y : y = y0 + 400 * (n / 146097)) by congruence.
  assert (M : m = m0) by congruence. assert (D0 : d = d0) by congruence. subst y m d. clear H.
  rewrite days_from_civil_shift, days_in_month_shift.
  pose proof (Z.div_mod n 146097). lia.
Qed.

(* day numbers of years 1..9999 give valid civil dates *)
Lemma civil_valid : forall n y m d, 0 <= n < DAYS_TOTAL -> civil_from_days n = (y, m, d) ->
  valid_civil y m d = true.
Proof.
  intros n y m d B H. unfold civil_from_days in H.
  assert (R : 0 <= n mod 146097 < 146097) by (apply Z.mod_pos_bound; lia).
  pose proof (era_day _ R) as E. unfold era_day_ok in E.
  destruct (civil_era (n mod 146097)) as [[y0 m0] d0]. cbv beta iota in H.
  assert (Y : y = y0 + 400 * (n / 146097)) by congruence.
  assert (M : m = m0) by congruence. assert (D0 : d = d0) by congruence. subst y m d. clear H.
  unfold valid_civil. rewrite days_in_month_shift.
  pose proof (Z.div_mod n 146097). unfold DAYS_TOTAL in B.
  assert (0 <= n / 146097 < 25) by (split; [apply Z.div_pos; lia | apply Z.div_lt_upper_bound; lia]).
  lia.
Qed.

(* ---- the inverse direction: the civil date of a date's day number is that date ---- *)
Lemma era_dates_checked :
  range_all 400 (fun y => range_all 12 (fun m => range_all 31 (fun d => era_date_ok y m d) 1) 1) 1 = true.
Proof. vm_compute. reflexivity. Qed.

Lemma days_in_month_le : forall y m, days_in_month y m <= 31.
Proof.
  intros y m. unfold days_in_month.
  repeat match goal with |- context [match ?x with _ => _ end] => destruct x end; lia.
Qed.

Lemma range_all_3 : forall f : Z -> Z -> Z -> bool,
  range_all 400 (fun y => range_all 12 (fun m => range_all 31 (fun d => f y m d) 1) 1) 1 = true ->
  forall y m d, 1 <= y <= 400 -> 1 <= m <= 12 -> 1 <= d <= 31 -> f y m d = true.
Proof.
  intros f H y m d Y M D.
  apply (range_all_spec 31 (fun d => f y m d) 1); [|lia].
  apply (range_all_spec 12 (fun m => range_all 31 (fun d => f y m d) 1) 1); [|lia].
  apply (range_all_spec 400 (fun y => range_all 12 (fun m => range_all 31 (fun d => f y m d) 1) 1) 1 H); lia.
Qed.

Lemma era_date : forall y m d, 1 <= y <= 400 -> 1 <= m <= 12 -> 1 <= d <= days_in_month y m ->
  0 <= days_from_civil y m d < 146097 /\ civil_era (days_from_civil y m d) = (y, m, d) /\
  (y <= 399 -> days_from_civil y m d < 145731).
Proof.
  intros y m d Y M D.
  pose proof (days_in_month_le y m) as L.
  assert (H3 : era_date_ok y m d = true) by (apply (range_all_3 era_date_ok era_dates_checked); lia).
  unfold era_date_ok in H3.
  destruct (civil_era (days_from_civil y m d)) as [[y' m'] d'].
  assert (E : y' = y /\ m' = m /\ d' = d /\ 0 <= days_from_civil y m d < 146097 /\
              (y <= 399 -> days_from_civil y m d < 145731)) by lia.
  destruct E as (-> & -> & -> & R & R'). split; [exact R | split; [reflexivity | exact R']].
Qed.

(* for EVERY integer year (month and day real) *)
Lemma civil_inverse : forall y m d, 1 <= m <= 12 -> 1 <= d <= days_in_month y m ->
  civil_from_days (days_from_civil y m d) = (y, m, d).
Proof.
  intros y m d M D.
  set (q := (y - 1) / 400). set (y0 := (y - 1) mod 400 + 1).
  assert (Y0 : 1 <= y0 <= 400) by (unfold y0; pose proof (Z.mod_pos_bound (y - 1) 400); lia).
  assert (EY : y = y0 + 400 * q) by (unfold y0, q; pose proof (Z.div_mod (y - 1) 400); lia).
  rewrite EY in D |- *. rewrite days_in_month_shift in D. rewrite days_from_civil_shift.
  destruct (era_date y0 m d Y0 M D) as (R & E & _).
  unfold civil_from_days.
  replace (days_from_civil y0 m d + 146097 * q) with (days_from_civil y0 m d + q * 146097) by lia.
  rewrite Z.mod_add by lia. rewrite Z.div_add by lia.
  rewrite (Z.mod_small _ _ R), (Z.div_small _ _ R), E. reflexivity.
Qed.

(* day numbers of real dates of years 1..9999 are in range *)
Lemma days_range : forall y m d, valid_civil y m d = true -> 0 <= days_from_civil y m d < DAYS_TOTAL.
Proof.
  intros y m d V. unfold valid_civil in V.
  set (q := (y - 1) / 400). set (y0 := (y - 1) mod 400 + 1).
  assert (Y0 : 1 <= y0 <= 400) by (unfold y0; pose proof (Z.mod_pos_bound (y - 1) 400); lia).
  assert (EY : y = y0 + 400 * q) by (unfold y0, q; pose proof (Z.div_mod (y - 1) 400); lia).
  assert (Q : 0 <= q <= 24) by lia.
  assert (D : 1 <= d <= days_in_month y0 m) by (rewrite EY in V; rewrite days_in_month_shift in V; lia).
  destruct (era_date y0 m d Y0 ltac:(lia) D) as (R & _ & R').
  rewrite EY, days_from_civil_shift. unfold DAYS_TOTAL. lia.
Qed.

(* the wall reading is determined by its fields: rebuilding from them gives it back *)
Lemma wall_of_its_fields : forall w, 
  wall_of_fields (dt_field FYear w) (dt_field FMonth w) (dt_field FDay w) (dt_field FHour w)
                 (dt_field FMinute w) (dt_field FSecond w) (dt_field FMicrosecond w) = w /\
  valid_clock (dt_field FHour w) (dt_field FMinute w) (dt_field FSecond w) (dt_field FMicrosecond w) = true.
Proof.
  intros w. unfold wall_of_fields, valid_clock, dt_field.
  destruct (civil_from_days (w / US_DAY)) as [[y m] d] eqn:C. cbn [fst snd].
  destruct (civil_roundtrip _ _ _ _ C) as (D & _). rewrite D. unfold US_DAY, US_SECOND.
  Z.div_mod_to_equations. lia.
Qed.

Lemma replace_nothing : forall h, valid_hdt h = true ->
  eval (OpReplace h None None None None None None None None) = VDt (conv h).
Proof.
  intros h V. cbn. unfold y_replace, keep, y_build.
  destruct (wall_of_its_fields (wall (conv h))) as [W K].
  assert (R : in_range (wall (conv h)) = true).
  { destruct h as [w|d]; cbn in *; [exact V|]. unfold valid_adt in V. lia. }
  destruct (civil_from_days (wall (conv h) / US_DAY)) as [[y m] d] eqn:C.
  assert (VC : valid_civil y m d = true).
  { apply (civil_valid (wall (conv h) / US_DAY)); [|exact C].
    unfold in_range, MAXWALL in R. unfold US_DAY in *.
    split; [apply Z.div_pos; lia | apply Z.div_lt_upper_bound; lia]. }
  unfold dt_field in *. rewrite C in *. cbn [fst snd] in *.
  rewrite VC, K, W. cbn. destruct (conv h); reflexivity.
Qed.

Lemma date_time_split : forall d,
  wall (dt_date d) + dt_time d = wall d /\ 0 <= dt_time d < US_DAY /\
  wall (dt_date d) mod US_DAY = 0 /\ off (dt_date d) = off d.
Proof.
  intros [w o]. unfold dt_date, dt_time, US_DAY; cbn [wall off].
  repeat split; try (Z.div_mod_to_equations; lia).
Qed.
