(* convert_output_data with an abstract limiter (Model/ConvertLim.v):
   plain results for ANY limiter; a limiter that is all-or-error can only turn a
   success into an error, never change a result; a limiter that lets a value's
   collections through gives exactly Model/Convert.v's convert_output. *)
From Coq Require Import List ZArith Bool Arith Lia.
From YV Require Import Common.Corr Model.Convert Model.ConvertLim Lemmas.ConvertBase Lemmas.ConvertSpec.
Import ListNotations.

(* ---- unfolding equations -------------------------------------------------------------- *)
Section Eqs.
  Variable lim : limiter.
  Definition lco_pair (o : opts) (kv : val * val) : lres (val * val) :=
    match co_lim lim o (snd kv) with
    | LErr e => LErr e
    | LOk cv => match co_lim lim o (fst kv) with
                | LErr e => LErr e
                | LOk ck => if hashable ck then LOk (ck, cv) else LErr LPyType
                end
    end.
  Definition lco_elem (o : opts) (x : val) : lres val :=
    match co_lim lim o x with
    | LErr e => LErr e
    | LOk y => if hashable y then LOk y else LErr LPyType
    end.
  Definition lco_mapping o kvs :=
    match limited lim true (lco_pair o) kvs with LErr e => LErr e | LOk ps => LOk (VDict (dict_of ps)) end.
  Definition lco_setlike o l :=
    if s2l o
    then match limited lim true (co_lim lim o) l with LErr e => LErr e | LOk xs => LOk (VList xs) end
    else match limited lim true (lco_elem o) l with LErr e => LErr e | LOk xs => LOk (VSet (set_of xs)) end.
  Definition lco_listlike o (sized b : bool) l :=
    match limited lim sized (co_lim lim o) l with LErr e => LErr e | LOk xs => LOk (seq_out o b xs) end.
  Definition lco_item (o : opts) (kv : val * val) : lres val := lco_listlike o true true [fst kv; snd kv].
  Definition lco_view {A} (sized : bool) (f : A -> lres val) (l : list A) : lres val :=
    match limited lim sized f l with LErr e => LErr e | LOk xs => LOk (VList xs) end.

  Lemma lco_fdict o kvs : co_lim lim o (VFDict kvs) = lco_mapping o kvs. Proof. reflexivity. Qed.
  Lemma lco_dict o kvs : co_lim lim o (VDict kvs) = lco_mapping o kvs. Proof. reflexivity. Qed.
  Lemma lco_fset o l : co_lim lim o (VFSet l) = lco_setlike o l. Proof. reflexivity. Qed.
  Lemma lco_set o l : co_lim lim o (VSet l) = lco_setlike o l. Proof. reflexivity. Qed.
  Lemma lco_tuple o l : co_lim lim o (VTuple l) = lco_listlike o true true l. Proof. reflexivity. Qed.
  Lemma lco_list o l : co_lim lim o (VList l) = lco_listlike o true false l. Proof. reflexivity. Qed.
  Lemma lco_iter o l : co_lim lim o (VIter l) = lco_listlike o false false l. Proof. reflexivity. Qed.
  Lemma lco_ord o l : co_lim lim o (VOrd l) = lco_listlike o false false l. Proof. reflexivity. Qed.
  Lemma lco_keys o kvs : co_lim lim o (VView KKeys kvs) = lco_view true (fun kv => co_lim lim o (fst kv)) kvs.
  Proof. reflexivity. Qed.
  Lemma lco_values o kvs : co_lim lim o (VView KValues kvs) = lco_view false (fun kv => co_lim lim o (snd kv)) kvs.
  Proof. reflexivity. Qed.
  Lemma lco_items o kvs : co_lim lim o (VView KItems kvs) = lco_view true (lco_item o) kvs.
  Proof. reflexivity. Qed.
End Eqs.

(* ---- mapK ---------------------------------------------------------------------------------- *)
Lemma Forall_firstn {A} (P : A -> Prop) k l : Forall P l -> Forall P (firstn k l).
Proof.
  intro F. revert k. induction F as [|x r Hx _ IH]; intro k; destruct k; simpl; constructor; [exact Hx | apply IH].
Qed.

Lemma mapK_Forall2 {A B} (f : A -> lres B) : forall l k ys,
  mapK f k l = LOk ys -> Forall2 (fun x y => f x = LOk y) (firstn k l) ys.
Proof.
  induction l as [|x r IH]; intros k ys H; simpl in H.
  - injection H as <-. rewrite firstn_nil. constructor.
  - destruct k as [|k]; [injection H as <-; constructor|].
    destruct (f x) as [y|e] eqn:Ex; [|discriminate H].
    destruct (mapK f k r) as [ys'|e] eqn:Er; [|discriminate H].
    injection H as <-. simpl. constructor; [exact Ex | apply IH; exact Er].
Qed.

Lemma limited_Forall2 {A B} lim s (f : A -> lres B) l ys :
  limited lim s f l = LOk ys -> Forall2 (fun x y => f x = LOk y) (firstn (fst (lim s (length l))) l) ys.
Proof.
  unfold limited. intro H. destruct (mapK f _ l) as [zs|e] eqn:E; [|discriminate H].
  destruct (snd (lim s (length l))); [|discriminate H]. injection H as <-. apply mapK_Forall2. exact E.
Qed.

(* ================================================ plain, for ANY limiter ================== *)
Section LimPlain.
  Variable lim : limiter.
  Variable o : opts.
  Let P := fun v => forall r, co_lim lim o v = LOk r -> plainb o r = true.

  Lemma limited_plain {A} s (f : A -> lres val) l ys :
    Forall (fun x => forall y, f x = LOk y -> plainb o y = true) l -> limited lim s f l = LOk ys ->
    forallb (plainb o) ys = true.
  Proof.
    intros F H. apply Forall_forallb. apply limited_Forall2 in H.
    apply (Forall2_Forall_r _ _ _ _ H). apply Forall_firstn. exact F.
  Qed.

  Lemma lpair_plain kv p : P (fst kv) /\ P (snd kv) -> lco_pair lim o kv = LOk p ->
    plainb o (fst p) = true /\ plainb o (snd p) = true.
  Proof.
    intros [Hk Hv] H. unfold lco_pair in H.
    destruct (co_lim lim o (snd kv)) as [cv|e] eqn:Ev; [|discriminate H].
    destruct (co_lim lim o (fst kv)) as [ck|e] eqn:Ek; [|discriminate H].
    destruct (hashable ck); [|discriminate H].
    injection H as <-. simpl. split; [apply Hk; exact Ek | apply Hv; exact Ev].
  Qed.

  Lemma lplain_all : forall v, P v.
  Proof.
    assert (LL : forall s b l r, Forall P l -> lco_listlike lim o s b l = LOk r -> plainb o r = true).
    { intros s b l r F H. unfold lco_listlike in H.
      destruct (limited lim s (co_lim lim o) l) as [xs|e] eqn:E; [|discriminate H]. injection H as <-.
      apply seq_out_plain. apply (limited_plain _ _ _ _ F E). }
    assert (SL : forall l r, Forall P l -> lco_setlike lim o l = LOk r -> plainb o r = true).
    { intros l r F H. unfold lco_setlike in H. destruct (s2l o) eqn:Es.
      - destruct (limited lim true (co_lim lim o) l) as [xs|e] eqn:E; [|discriminate H]. injection H as <-.
        apply (limited_plain _ _ _ _ F E).
      - destruct (limited lim true (lco_elem lim o) l) as [xs|e] eqn:E; [|discriminate H]. injection H as <-.
        assert (Hp : forallb (plainb o) xs = true).
        { refine (limited_plain _ _ _ _ _ E). refine (Forall_impl _ _ F). intros x Hx y Hy. unfold lco_elem in Hy.
          destruct (co_lim lim o x) as [z|e] eqn:Ez; [|discriminate Hy]. destruct (hashable z); [|discriminate Hy].
          injection Hy as <-. apply Hx. exact Ez. }
        simpl. rewrite Es. simpl. apply Forall_forallb. apply set_of_Forall. apply Forall_forallb. exact Hp. }
    assert (ML : forall kvs r, Forall (fun kv => P (fst kv) /\ P (snd kv)) kvs ->
                 lco_mapping lim o kvs = LOk r -> plainb o r = true).
    { intros kvs r F H. unfold lco_mapping in H.
      destruct (limited lim true (lco_pair lim o) kvs) as [ps|e] eqn:E; [|discriminate H]. injection H as <-.
      simpl. apply Forall_forallb.
      assert (G : Forall (fun p => plainb o (fst p) = true /\ plainb o (snd p) = true) (dict_of ps)).
      { apply (dict_of_Forall (fun v => plainb o v = true) (fun v => plainb o v = true)).
        apply limited_Forall2 in E. apply (Forall2_Forall_r _ _ _ _ E). apply Forall_firstn.
        apply (Forall_impl _ (fun kv Hkv p Hp => lpair_plain kv p Hkv Hp) F). }
      apply (Forall_impl _ (fun p Hp => proj2 (andb_true_iff _ _) Hp) G). }
    assert (VW : forall A s (f : A -> lres val) l r,
                 Forall (fun x => forall y, f x = LOk y -> plainb o y = true) l ->
                 lco_view lim s f l = LOk r -> plainb o r = true).
    { intros A s f l r F H. unfold lco_view in H. destruct (limited lim s f l) as [xs|e] eqn:E; [|discriminate H].
      injection H as <-. simpl. apply (limited_plain _ _ _ _ F E). }
    induction v using val_induction; unfold P; intros r Hr.
    - injection Hr as <-; reflexivity.
    - injection Hr as <-; reflexivity.
    - injection Hr as <-; reflexivity.
    - injection Hr as <-; reflexivity.
    - injection Hr as <-; reflexivity.
    - rewrite lco_tuple in Hr. eapply LL; eassumption.
    - rewrite lco_list in Hr. eapply LL; eassumption.
    - rewrite lco_fdict in Hr. eapply ML; eassumption.
    - rewrite lco_dict in Hr. eapply ML; eassumption.
    - rewrite lco_fset in Hr. eapply SL; eassumption.
    - rewrite lco_set in Hr. eapply SL; eassumption.
    - rewrite lco_iter in Hr. eapply LL; eassumption.
    - destruct k.
      + rewrite lco_keys in Hr. refine (VW _ _ _ kvs r _ Hr). apply (Forall_impl _ (fun kv Hkv => proj1 Hkv) H).
      + rewrite lco_values in Hr. refine (VW _ _ _ kvs r _ Hr). apply (Forall_impl _ (fun kv Hkv => proj2 Hkv) H).
      + rewrite lco_items in Hr. refine (VW _ _ _ kvs r _ Hr). refine (Forall_impl _ _ H).
        intros kv [Hk Hv] y Hy. apply (LL true true [fst kv; snd kv] y); [|exact Hy].
        constructor; [exact Hk | constructor; [exact Hv | constructor]].
    - rewrite lco_ord in Hr. eapply LL; eassumption.
  Qed.
End LimPlain.

Theorem co_lim_plain : forall lim o v r, co_lim lim o v = LOk r -> plainb o r = true.
Proof. intros lim o v r. apply lplain_all. Qed.

(* ============================ an all-or-error limiter never changes a result ================= *)
Definition all_or_error (lim : limiter) : Prop := forall s n, snd (lim s n) = true -> n <= fst (lim s n).

Lemma embed_ok {A} (x : res A) r : embed x = LOk r -> x = Ok r.
Proof. destruct x; simpl; intro H; [injection H as <-; reflexivity | discriminate H]. Qed.

Lemma conv_item_listlike o kv : conv_item o kv = co_listlike o true [fst kv; snd kv].
Proof.
  unfold conv_item, conv_pair, co_listlike. simpl.
  destruct (convert_output o (fst kv)); [|reflexivity]. destruct (convert_output o (snd kv)); reflexivity.
Qed.

(* hashing each element as it arrives = converting all, then hashing all (one error class) *)
Definition check {A B} (g : A -> res B) (c : B -> bool) (x : A) : res B :=
  match g x with Err e => Err e | Ok y => if c y then Ok y else Err PyType end.

Lemma mapM_check {A B} (g : A -> res B) (c : B -> bool) l :
  mapM (check g c) l = match mapM g l with Err e => Err e | Ok ys => if forallb c ys then Ok ys else Err PyType end.
Proof.
  induction l as [|x r IH]; simpl; [reflexivity|]. unfold check at 1.
  destruct (g x) as [y|[]]; [|reflexivity].
  rewrite IH. destruct (c y) eqn:Ec; destruct (mapM g r) as [ys|[]]; simpl; rewrite ?Ec; simpl; try reflexivity.
  destruct (forallb c ys); reflexivity.
Qed.

Section LimAgree.
  Variable lim : limiter.
  Hypothesis AOE : all_or_error lim.
  Variable o : opts.
  Let Q := fun v => forall r, co_lim lim o v = LOk r -> convert_output o v = Ok r.

  Lemma limited_agree {A B} s (f : A -> lres B) (g : A -> res B) l ys :
    Forall (fun x => forall y, f x = LOk y -> g x = Ok y) l -> limited lim s f l = LOk ys -> mapM g l = Ok ys.
  Proof.
    intros F H. pose proof (limited_Forall2 _ _ _ _ _ H) as F2. unfold limited in H.
    destruct (mapK f _ l) as [zs|e]; [|discriminate H].
    destruct (snd (lim s (length l))) eqn:Es; [|discriminate H].
    rewrite firstn_all2 in F2 by (apply AOE; exact Es).
    apply Forall2_mapM. clear H Es. induction F2 as [|x y l ys Hxy _ IH]; [constructor|].
    inversion F as [|? ? Hx Hr]; subst. constructor; [apply Hx; exact Hxy | apply IH; exact Hr].
  Qed.

  Lemma lagree_all : forall v, Q v.
  Proof.
    assert (PR : forall kv p, Q (fst kv) /\ Q (snd kv) -> lco_pair lim o kv = LOk p ->
                 check (conv_pair o) (fun p => hashable (fst p)) kv = Ok p).
    { intros kv p [Hk Hv] H. unfold lco_pair in H. unfold check, conv_pair.
      destruct (co_lim lim o (snd kv)) as [cv|e] eqn:Ev; [|discriminate H].
      destruct (co_lim lim o (fst kv)) as [ck|e] eqn:Ek; [|discriminate H].
      rewrite (Hk _ Ek), (Hv _ Ev). simpl. destruct (hashable ck); [|discriminate H]. injection H as <-. reflexivity. }
    assert (LL : forall s b l r, Forall Q l -> lco_listlike lim o s b l = LOk r -> co_listlike o b l = Ok r).
    { intros s b l r F H. unfold lco_listlike in H. unfold co_listlike.
      destruct (limited lim s (co_lim lim o) l) as [xs|e] eqn:E; [|discriminate H].
      rewrite (limited_agree _ _ (convert_output o) _ _ F E). injection H as <-. reflexivity. }
    assert (SL : forall l r, Forall Q l -> lco_setlike lim o l = LOk r -> co_setlike o l = Ok r).
    { intros l r F H. unfold lco_setlike in H. unfold co_setlike. destruct (s2l o).
      - destruct (limited lim true (co_lim lim o) l) as [xs|e] eqn:E; [|discriminate H].
        rewrite (limited_agree _ _ (convert_output o) _ _ F E). injection H as <-. reflexivity.
      - destruct (limited lim true (lco_elem lim o) l) as [xs|e] eqn:E; [|discriminate H]. injection H as <-.
        assert (M : mapM (check (convert_output o) hashable) l = Ok xs).
        { refine (limited_agree _ _ _ _ _ _ E). refine (Forall_impl _ _ F). intros x Hx y Hy.
          unfold lco_elem in Hy. unfold check.
          destruct (co_lim lim o x) as [z|e] eqn:Ez; [|discriminate Hy]. rewrite (Hx _ Ez).
          destruct (hashable z); [injection Hy as <-; reflexivity | discriminate Hy]. }
        rewrite mapM_check in M. destruct (mapM (convert_output o) l) as [ys|e]; [|discriminate M].
        unfold build_set. destruct (forallb hashable ys); [injection M as <-; reflexivity | discriminate M]. }
    assert (ML : forall kvs r, Forall (fun kv => Q (fst kv) /\ Q (snd kv)) kvs ->
                 lco_mapping lim o kvs = LOk r -> co_mapping o kvs = Ok r).
    { intros kvs r F H. unfold lco_mapping in H. unfold co_mapping.
      destruct (limited lim true (lco_pair lim o) kvs) as [ps|e] eqn:E; [|discriminate H]. injection H as <-.
      pose proof (limited_agree _ _ _ _ _ (Forall_impl _ (fun kv Hkv p Hp => PR kv p Hkv Hp) F) E) as M.
      rewrite mapM_check in M. destruct (mapM (conv_pair o) kvs) as [qs|e]; [|discriminate M].
      unfold build_dict. destruct (forallb _ qs); [injection M as <-; reflexivity | discriminate M]. }
    assert (VW : forall A s (f : A -> lres val) (g : A -> res val) l r,
                 Forall (fun x => forall y, f x = LOk y -> g x = Ok y) l -> lco_view lim s f l = LOk r ->
                 match mapM g l with Err e => Err e | Ok xs => Ok (VList xs) end = Ok r).
    { intros A s f g l r F H. unfold lco_view in H. destruct (limited lim s f l) as [xs|e] eqn:E; [|discriminate H].
      rewrite (limited_agree _ _ g _ _ F E). injection H as <-. reflexivity. }
    induction v using val_induction; unfold Q; intros r Hr.
    - injection Hr as <-; reflexivity.
    - injection Hr as <-; reflexivity.
    - injection Hr as <-; reflexivity.
    - injection Hr as <-; reflexivity.
    - injection Hr as <-; reflexivity.
    - rewrite lco_tuple in Hr. rewrite co_tuple. eapply LL; eassumption.
    - rewrite lco_list in Hr. rewrite co_list. eapply LL; eassumption.
    - rewrite lco_fdict in Hr. rewrite co_fdict. eapply ML; eassumption.
    - rewrite lco_dict in Hr. rewrite co_dict. eapply ML; eassumption.
    - rewrite lco_fset in Hr. rewrite co_fset. eapply SL; eassumption.
    - rewrite lco_set in Hr. rewrite co_set. eapply SL; eassumption.
    - rewrite lco_iter in Hr. rewrite co_iter. eapply LL; eassumption.
    - destruct k.
      + rewrite lco_keys in Hr. rewrite co_keys. refine (VW _ _ _ _ kvs r _ Hr).
        apply (Forall_impl _ (fun kv Hkv => proj1 Hkv) H).
      + rewrite lco_values in Hr. rewrite co_values. refine (VW _ _ _ _ kvs r _ Hr).
        apply (Forall_impl _ (fun kv Hkv => proj2 Hkv) H).
      + rewrite lco_items in Hr. rewrite co_items. refine (VW _ _ _ _ kvs r _ Hr). refine (Forall_impl _ _ H).
        intros kv [Hk Hv] y Hy. rewrite conv_item_listlike. apply (LL true true [fst kv; snd kv] y); [|exact Hy].
        constructor; [exact Hk | constructor; [exact Hv | constructor]].
    - rewrite lco_ord in Hr. rewrite co_ord. eapply LL; eassumption.
  Qed.
End LimAgree.

Theorem co_lim_agree : forall lim, all_or_error lim ->
  forall o v r, co_lim lim o v = LOk r -> convert_output o v = Ok r.
Proof. intros lim A o v r. apply lagree_all. exact A. Qed.

Lemma count_lim_all_or_error N : all_or_error (count_lim N).
Proof.
  intros s n. unfold count_lim. destruct N as [m|]; simpl; [|lia].
  destruct (n <=? m); simpl; [lia | discriminate].
Qed.

(* ================== a limiter that lets the value's collections through changes nothing ======= *)
Definition passes (lim : limiter) (w : nat) : Prop := forall s n, n <= w -> lim s n = (n, true).

Lemma fold_max_ge {A} (wf : A -> nat) b l : b <= fold_right (fun x m => Nat.max (wf x) m) b l.
Proof. induction l as [|x r IH]; simpl; lia. Qed.

Lemma fold_max_in {A} (wf : A -> nat) b l x : In x l -> wf x <= fold_right (fun x m => Nat.max (wf x) m) b l.
Proof. induction l as [|y r IH]; simpl; intro H; [contradiction|]. destruct H as [->|H]; [lia | specialize (IH H); lia]. Qed.

Lemma fold_max_mono {A} (f g : A -> nat) b l : (forall x, f x <= g x) ->
  fold_right (fun x m => Nat.max (f x) m) b l <= fold_right (fun x m => Nat.max (g x) m) b l.
Proof. intro H. induction l as [|x r IH]; simpl; [lia|]. specialize (H x). lia. Qed.

Lemma mapK_all {A B} (f : A -> lres B) (g : A -> res B) l :
  Forall (fun x => f x = embed (g x)) l -> mapK f (length l) l = embed (mapM g l).
Proof.
  intro F. induction F as [|x r Hx _ IH]; simpl; [reflexivity|]. rewrite Hx.
  destruct (g x) as [y|e]; simpl; [|reflexivity]. rewrite IH. destruct (mapM g r); reflexivity.
Qed.

Section LimPass.
  Variable lim : limiter.
  Variable o : opts.
  Let R := fun v => passes lim (width v) -> co_lim lim o v = embed (convert_output o v).

  Lemma limited_pass {A B} s (f : A -> lres B) (g : A -> res B) l w :
    passes lim w -> length l <= w -> Forall (fun x => f x = embed (g x)) l ->
    limited lim s f l = embed (mapM g l).
  Proof.
    intros Pw Hl F. unfold limited. rewrite (Pw s (length l) Hl). simpl.
    rewrite (mapK_all f g l F). destruct (mapM g l); reflexivity.
  Qed.

  Lemma passes_le w w' : passes lim w -> w' <= w -> passes lim w'.
  Proof. intros Pw H s n Hn. apply Pw. lia. Qed.

  Lemma lpass_all : forall v, R v.
  Proof.
    (* lists of children *)
    assert (CH : forall l w, passes lim w -> fold_right (fun x m => Nat.max (width x) m) (length l) l <= w ->
                 Forall R l -> length l <= w /\ Forall (fun x => co_lim lim o x = embed (convert_output o x)) l).
    { intros l w Pw Hw F. split; [pose proof (fold_max_ge width (length l) l); lia|].
      rewrite Forall_forall in *. intros x Hin. apply (F x Hin).
      apply (passes_le w _ Pw). pose proof (fold_max_in width (length l) l x Hin). lia. }
    assert (CK : forall kvs w, passes lim w ->
                 fold_right (fun kv m => Nat.max (Nat.max (width (fst kv)) (width (snd kv))) m) (length kvs) kvs <= w ->
                 Forall (fun kv => R (fst kv) /\ R (snd kv)) kvs ->
                 length kvs <= w /\ Forall (fun kv => co_lim lim o (fst kv) = embed (convert_output o (fst kv)) /\
                                                      co_lim lim o (snd kv) = embed (convert_output o (snd kv))) kvs).
    { intros kvs w Pw Hw F.
      split; [pose proof (fold_max_ge (fun kv : val * val => Nat.max (width (fst kv)) (width (snd kv))) (length kvs) kvs); lia|].
      rewrite Forall_forall in *. intros kv Hin. destruct (F kv Hin) as [Rk Rv].
      pose proof (fold_max_in (fun kv : val * val => Nat.max (width (fst kv)) (width (snd kv))) (length kvs) kvs kv Hin) as M. cbv beta in M.
      split; [apply Rk | apply Rv]; apply (passes_le w _ Pw); lia. }
    assert (PR : forall kv, co_lim lim o (fst kv) = embed (convert_output o (fst kv)) /\
                            co_lim lim o (snd kv) = embed (convert_output o (snd kv)) ->
                            lco_pair lim o kv = embed (check (conv_pair o) (fun p => hashable (fst p)) kv)).
    { intros kv [Hk Hv]. unfold lco_pair, check, conv_pair. rewrite Hk, Hv.
      destruct (convert_output o (snd kv)) as [cv|[]], (convert_output o (fst kv)) as [ck|[]]; simpl; try reflexivity.
      destruct (hashable ck); reflexivity. }
    assert (LL : forall s b l, passes lim (fold_right (fun x m => Nat.max (width x) m) (length l) l) -> Forall R l ->
                 lco_listlike lim o s b l = embed (co_listlike o b l)).
    { intros s b l Pw F. destruct (CH l _ Pw (le_n _) F) as [Hl Fe].
      unfold lco_listlike, co_listlike. rewrite (limited_pass s _ (convert_output o) l _ Pw Hl Fe).
      destruct (mapM (convert_output o) l); reflexivity. }
    assert (SL : forall l, passes lim (fold_right (fun x m => Nat.max (width x) m) (length l) l) -> Forall R l ->
                 lco_setlike lim o l = embed (co_setlike o l)).
    { intros l Pw F. destruct (CH l _ Pw (le_n _) F) as [Hl Fe].
      unfold lco_setlike, co_setlike. destruct (s2l o).
      - rewrite (limited_pass true _ (convert_output o) l _ Pw Hl Fe).
        destruct (mapM (convert_output o) l); reflexivity.
      - rewrite (limited_pass true _ (check (convert_output o) hashable) l _ Pw Hl).
        + rewrite mapM_check. unfold build_set.
          destruct (mapM (convert_output o) l) as [ys|[]]; simpl; [|reflexivity]. destruct (forallb hashable ys); reflexivity.
        + refine (Forall_impl _ _ Fe). intros x Hx. unfold lco_elem, check. rewrite Hx.
          destruct (convert_output o x) as [y|[]]; simpl; [|reflexivity]. destruct (hashable y); reflexivity. }
    assert (ML : forall kvs, passes lim (fold_right (fun kv m => Nat.max (Nat.max (width (fst kv)) (width (snd kv))) m) (length kvs) kvs) ->
                 Forall (fun kv => R (fst kv) /\ R (snd kv)) kvs ->
                 lco_mapping lim o kvs = embed (co_mapping o kvs)).
    { intros kvs Pw F. destruct (CK kvs _ Pw (le_n _) F) as [Hl Fe].
      unfold lco_mapping, co_mapping.
      rewrite (limited_pass true _ (check (conv_pair o) (fun p => hashable (fst p))) kvs _ Pw Hl (Forall_impl _ PR Fe)).
      rewrite mapM_check. unfold build_dict.
      destruct (mapM (conv_pair o) kvs) as [ps|[]]; simpl; [|reflexivity]. destruct (forallb _ ps); reflexivity. }
    induction v using val_induction; unfold R; intro Pw; try reflexivity.
    - rewrite lco_tuple, co_tuple. apply LL; assumption.
    - rewrite lco_list, co_list. apply LL; assumption.
    - rewrite lco_fdict, co_fdict. apply ML; assumption.
    - rewrite lco_dict, co_dict. apply ML; assumption.
    - rewrite lco_fset, co_fset. apply SL; assumption.
    - rewrite lco_set, co_set. apply SL; assumption.
    - rewrite lco_iter, co_iter. apply LL; assumption.
    - cbn [width] in Pw.
      assert (Pw' : passes lim (fold_right (fun kv m => Nat.max (Nat.max (width (fst kv)) (width (snd kv))) m) (length kvs) kvs)).
      { apply (passes_le _ _ Pw).
        apply (fold_max_mono (fun kv : val * val => Nat.max (width (fst kv)) (width (snd kv)))
                 (fun kv => Nat.max (item_width k) (Nat.max (width (fst kv)) (width (snd kv))))). intro x. lia. }
      destruct (CK kvs _ Pw' (le_n _) H) as [Hl Fe]. destruct k.
      + rewrite lco_keys, co_keys. unfold lco_view.
        rewrite (limited_pass true _ (fun kv => convert_output o (fst kv)) kvs _ Pw' Hl (Forall_impl _ (fun kv Hkv => proj1 Hkv) Fe)).
        destruct (mapM _ kvs); reflexivity.
      + rewrite lco_values, co_values. unfold lco_view.
        rewrite (limited_pass false _ (fun kv => convert_output o (snd kv)) kvs _ Pw' Hl (Forall_impl _ (fun kv Hkv => proj2 Hkv) Fe)).
        destruct (mapM _ kvs); reflexivity.
      + rewrite lco_items, co_items. unfold lco_view.
        rewrite (limited_pass true _ (conv_item o) kvs _ Pw' Hl).
        * destruct (mapM _ kvs); reflexivity.
        * rewrite Forall_forall in *. intros kv Hin. destruct (H kv Hin) as [Rk Rv].
          rewrite conv_item_listlike. unfold lco_item. apply LL.
          -- apply (passes_le _ _ Pw).
             pose proof (fold_max_in (fun kv : val * val => Nat.max (item_width KItems) (Nat.max (width (fst kv)) (width (snd kv))))
                           (length kvs) kvs kv Hin) as M. cbv beta in M.
             cbn [fold_right length]. unfold item_width in M |- *. lia.
          -- constructor; [exact Rk | constructor; [exact Rv | constructor]].
    - rewrite lco_ord, co_ord. apply LL; assumption.
  Qed.
End LimPass.

Theorem co_lim_passes : forall lim o v, passes lim (width v) -> co_lim lim o v = embed (convert_output o v).
Proof. intros lim o v. apply lpass_all. Qed.

Lemma id_lim_passes w : passes id_lim w.
Proof. intros s n _. reflexivity. Qed.

Lemma count_lim_passes N w : w <= N -> passes (count_lim (Some N)) w.
Proof.
  intros H s n Hn. unfold count_lim. destruct (Nat.leb_spec n N); [reflexivity | lia].
Qed.

Theorem co_lim_id : forall o v, co_lim id_lim o v = embed (convert_output o v).
Proof. intros o v. apply co_lim_passes. apply id_lim_passes. Qed.

(* with yaql.limitIterators = N: round trip and totality for values no wider than N *)
Theorem co_lim_roundtrip : forall N o d, jsonlike d = true -> width (convert_input d) <= N ->
  co_lim (count_lim (Some N)) o (convert_input d) = LOk (canon o d).
Proof.
  intros N o d J W. rewrite co_lim_passes by (apply count_lim_passes; exact W).
  rewrite (convert_roundtrip o d J). reflexivity.
Qed.

Theorem co_lim_total : forall N o v, width v <= N ->
  (guard o v = true <-> exists r, co_lim (count_lim (Some N)) o v = LOk r).
Proof.
  intros N o v W. rewrite co_lim_passes by (apply count_lim_passes; exact W).
  rewrite convert_output_total_iff. split; intros [r H]; exists r.
  - rewrite H. reflexivity.
  - apply embed_ok. exact H.
Qed.
