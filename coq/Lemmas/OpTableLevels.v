(* C02_no_level_dropped: if every group of the operator list holds a role (groups_ok,
   preserved by insert_operator), the levels recorded by _build_operator_table are
   exactly 1..G, so precedence_dict has at least G keys and the loop
   `for i in range(1, len(precedence_dict) + 1)` of parser.py visits every level. *)
From Coq Require Import List ZArith Bool Arith Lia FinFun.
From YV Require Import Common.Corr Model.OpTable.
Import ListNotations.
Local Open Scope Z_scope.

(* ------------------------------------------------------------ rows and their keys *)
Definition has_key (rs : list brow) (k : rank) : Prop := exists r, In r rs /\ In k (row_keys r).

Lemma set_row_in : forall r l x, In x (set_row r l) -> x = r \/ In x l.
Proof.
  intros r l. induction l as [|y l IH]; intros x H; cbn [set_row] in H.
  - destruct H as [H|[]]. left. symmetry. exact H.
  - destruct (str_eqb (b_sym y) (b_sym r)).
    + destruct H as [H|H]; [left; symmetry; exact H|right; right; exact H].
    + destruct H as [H|H]; [right; left; exact H|].
      destruct (IH x H) as [E|E]; [left; exact E|right; right; exact E].
Qed.

Lemma set_row_new : forall r l, In r (set_row r l).
Proof.
  intros r l. induction l as [|y l IH]; cbn [set_row]; [left; reflexivity|].
  destruct (str_eqb (b_sym y) (b_sym r)); [left; reflexivity|right; exact IH].
Qed.

(* a row survives unless it is the one looked up under the new row's symbol *)
Lemma set_row_keeps : forall r l x, In x l -> In x (set_row r l) \/ lookup_row (b_sym r) l = Some x.
Proof.
  intros r l. induction l as [|y l IH]; intros x H; [contradiction|].
  cbn [set_row lookup_row]. destruct (str_eqb (b_sym y) (b_sym r)).
  - destruct H as [H|H]; [right; rewrite H; reflexivity|left; right; exact H].
  - destruct H as [H|H]; [left; left; exact H|].
    destruct (IH x H) as [E|E]; [left; right; exact E|right; exact E].
Qed.

Lemma key_of_grp : forall l k, key_of l = Some k -> grp k = Z.abs l /\ l <> 0.
Proof.
  intros l k H. unfold key_of in H. destruct (l =? 0) eqn:E; [discriminate|].
  inversion H; subst. cbn [grp]. split; [reflexivity|]. apply Z.eqb_neq. exact E.
Qed.

Lemma key_of_zero : key_of 0 = None.
Proof. reflexivity. Qed.

Lemma key_of_some : forall l, l <> 0 -> exists k, key_of l = Some k /\ grp k = Z.abs l.
Proof.
  intros l H. unfold key_of. apply Z.eqb_neq in H. rewrite H. eexists. split; [reflexivity|reflexivity].
Qed.

(* one recorded role: the keys of the old row stay, a key of level prec appears, nothing else *)
Section Step.
Variables (s : str) (k : okind) (prec : Z) (rs : list brow) (up' bp' : Z) (name : str) (al : option str).
Hypothesis Hprec : 1 <= prec.
Hypothesis Hlev : new_levels k prec (old_row s rs) = Some (up', bp').
Let new := {| b_sym := s; b_up := up'; b_bp := bp'; b_name := name; b_alias := al |}.

Lemma new_levels_cases :
  (b_up (old_row s rs) = 0 /\ Z.abs up' = prec /\ bp' = b_bp (old_row s rs)) \/
  (b_bp (old_row s rs) = 0 /\ Z.abs bp' = prec /\ up' = b_up (old_row s rs)).
Proof.
  unfold new_levels in Hlev. destruct k.
  - destruct (b_up (old_row s rs) =? 0) eqn:E; [|discriminate]. apply Z.eqb_eq in E.
    inversion Hlev; subst. left. split; [exact E|]. split; [lia|reflexivity].
  - destruct (b_up (old_row s rs) =? 0) eqn:E; [|discriminate]. apply Z.eqb_eq in E.
    inversion Hlev; subst. left. split; [exact E|]. split; [lia|reflexivity].
  - destruct (b_bp (old_row s rs) =? 0) eqn:E; [|discriminate]. apply Z.eqb_eq in E.
    inversion Hlev; subst. right. split; [exact E|]. split; [lia|reflexivity].
  - destruct (b_bp (old_row s rs) =? 0) eqn:E; [|discriminate]. apply Z.eqb_eq in E.
    inversion Hlev; subst. right. split; [exact E|]. split; [lia|reflexivity].
  - discriminate.
Qed.

Lemma old_keys_in_new : forall q, In q (row_keys (old_row s rs)) -> In q (row_keys new).
Proof.
  intros q H. unfold row_keys in *. cbn [b_up b_bp new] in *.
  destruct new_levels_cases as [[U [_ B]]|[B [_ U]]].
  - rewrite U, key_of_zero in H. cbn [app] in H. rewrite B. apply in_or_app. right. exact H.
  - rewrite B, key_of_zero in H. rewrite app_nil_r in H. rewrite U. apply in_or_app. left. exact H.
Qed.

Lemma new_keys : forall q, In q (row_keys new) -> In q (row_keys (old_row s rs)) \/ grp q = prec.
Proof.
  intros q H. unfold row_keys in *. cbn [b_up b_bp new] in *.
  apply in_app_or in H.
  destruct new_levels_cases as [[U [A B]]|[B [A U]]].
  - destruct H as [H|H].
    + right. destruct (key_of up') as [q0|] eqn:K; [|contradiction]. destruct H as [H|[]]. subst q0.
      apply key_of_grp in K. lia.
    + left. rewrite B in H. apply in_or_app. right. exact H.
  - destruct H as [H|H].
    + left. rewrite U in H. apply in_or_app. left. exact H.
    + right. destruct (key_of bp') as [q0|] eqn:K; [|contradiction]. destruct H as [H|[]]. subst q0.
      apply key_of_grp in K. lia.
Qed.

Lemma new_has_level : exists q, In q (row_keys new) /\ grp q = prec.
Proof.
  unfold row_keys. cbn [b_up b_bp new].
  destruct new_levels_cases as [[U [A B]]|[B [A U]]].
  - destruct (key_of_some up') as [q [K G]]; [lia|]. exists q. rewrite K. split; [left; reflexivity|lia].
  - destruct (key_of_some bp') as [q [K G]]; [lia|]. exists q. rewrite K. split; [apply in_or_app; right; left; reflexivity|lia].
Qed.

Lemma step_persist : forall q, has_key rs q -> has_key (set_row new rs) q.
Proof.
  intros q [r [I K]]. destruct (set_row_keeps new rs r I) as [E|E].
  - exists r. split; assumption.
  - exists new. split; [apply set_row_new|]. apply old_keys_in_new.
    unfold old_row. cbn [b_sym new] in E. rewrite E. exact K.
Qed.

Lemma step_only : forall q, has_key (set_row new rs) q -> has_key rs q \/ grp q = prec.
Proof.
  intros q [r [I K]]. destruct (set_row_in new rs r I) as [E|E].
  - subst r. destruct (new_keys q K) as [O|G]; [|right; exact G].
    unfold old_row in O. destruct (lookup_row s rs) as [x|] eqn:L.
    + left. exists x. split; [|exact O].
      clear - L. induction rs as [|y l IH]; [discriminate|]. cbn [lookup_row] in L.
      destruct (str_eqb (b_sym y) s); [inversion L; left; reflexivity|right; apply IH; exact L].
    + cbn in O. contradiction.
  - left. exists r. split; assumption.
Qed.

Lemma step_new : exists q, has_key (set_row new rs) q /\ grp q = prec.
Proof.
  destruct new_has_level as [q [K G]]. exists q. split; [|exact G].
  exists new. split; [apply set_row_new|exact K].
Qed.
End Step.

(* ------------------------------------------------------------ the whole loop *)
Fixpoint nsep (ops : oplist) : nat :=
  match ops with
  | [] => O
  | Sep :: r => S (nsep r)
  | _ :: r => nsep r
  end.

Lemma groups_length : forall ops, length (groups ops) = S (nsep ops).
Proof.
  induction ops as [|e r IH]; [reflexivity|].
  destruct e; cbn [groups nsep length]; [rewrite IH; reflexivity|].
  destruct (groups r); cbn [consg length] in *; [discriminate|exact IH].
Qed.

Lemma consg_nth0 : forall e gs g, gs <> [] -> nth_error (consg e gs) 0 = Some g ->
  exists g0, nth_error gs 0 = Some g0 /\ g = e :: g0.
Proof.
  intros e gs g NE H. destruct gs as [|g0 t]; [congruence|]. cbn in H. inversion H; subst.
  exists g0. split; reflexivity.
Qed.

Lemma consg_nthS : forall e gs j, gs <> [] -> nth_error (consg e gs) (S j) = nth_error gs (S j).
Proof. intros e gs j NE. destruct gs as [|g0 t]; [congruence|reflexivity]. Qed.

Lemma build_loop_levels : forall ops prec gen rs nv B,
  1 <= prec ->
  build_loop ops prec gen rs nv = Some B ->
  (forall q, has_key rs q -> has_key (rows B) q) /\
  (forall q, has_key (rows B) q -> has_key rs q \/ prec <= grp q <= prec + Z.of_nat (nsep ops)) /\
  (forall j g, nth_error (groups ops) j = Some g -> existsb has_role g = true ->
               exists q, has_key (rows B) q /\ grp q = prec + Z.of_nat j).
Proof.
  induction ops as [|e r IH]; intros prec gen rs nv B HP H.
  - cbn [build_loop] in H. inversion H; subst. cbn [rows]. split; [auto|]. split; [auto|].
    intros j g N R. destruct j; cbn in N; [inversion N; subst; discriminate|destruct j; discriminate].
  - destruct e as [|s k al].
    + (* separator *)
      cbn [build_loop] in H. destruct (IH (prec + 1) gen rs nv B ltac:(lia) H) as [I1 [I2 I3]].
      split; [exact I1|]. split.
      * intros q Q. destruct (I2 q Q) as [O|O]; [left; exact O|right]. cbn [nsep]. lia.
      * intros j g N R. cbn [groups] in N. destruct j as [|j]; [inversion N; subst; discriminate|].
        cbn [nth_error] in N. destruct (I3 j g N R) as [q [Q G]]. exists q. split; [exact Q|lia].
    + assert (GR : groups (Op s k al :: r) = consg (Op s k al) (groups r)) by reflexivity.
      assert (NS : nsep (Op s k al :: r) = nsep r) by reflexivity.
      assert (NE : groups r <> []).
      { intro E. pose proof (groups_length r) as L. rewrite E in L. discriminate. }
      destruct k.
      1-4: (cbn [build_loop] in H;
            destruct (new_levels _ prec (old_row s rs)) as [[up' bp']|] eqn:NL; [|discriminate];
            destruct (name_for s (old_row s rs) gen) as [name gen'];
            destruct (IH prec gen' _ nv B HP H) as [I1 [I2 I3]];
            split; [intros q Q; apply I1; eapply step_persist; eauto|];
            split; [intros q Q; destruct (I2 q Q) as [O|O];
                    [destruct (step_only s _ prec rs up' bp' name al HP NL q O) as [O'|O'];
                     [left; exact O'|right; rewrite NS; lia]
                    |right; rewrite NS; exact O]|];
            intros j g N R; rewrite GR in N;
            destruct j as [|j];
            [destruct (step_new s _ prec rs up' bp' name al HP NL) as [q [Q G]];
             exists q; split; [apply I1; exact Q|cbn; lia]
            |rewrite (consg_nthS _ _ j NE) in N; exact (I3 (S j) g N R)]).
      (* NAME_VALUE_PAIR: no row, no level *)
      cbn [build_loop] in H. destruct nv; [discriminate|].
      destruct (IH prec gen rs (Some s) B HP H) as [I1 [I2 I3]].
      split; [exact I1|]. split; [intros q Q; rewrite NS; exact (I2 q Q)|].
      intros j g N R. rewrite GR in N. destruct j as [|j].
      * destruct (consg_nth0 _ _ g NE N) as [g0 [N0 E]]. subst g. cbn [existsb has_role orb] in R.
        exact (I3 O g0 N0 R).
      * rewrite (consg_nthS _ _ j NE) in N. exact (I3 (S j) g N R).
Qed.

(* ------------------------------------------------------------ precedence_dict *)
Lemma rank_eqb_grp : forall a b, rank_eqb a b = true -> grp a = grp b.
Proof. intros a b H. unfold rank_eqb in H. apply andb_prop in H. destruct H as [H _]. apply Z.eqb_eq. exact H. Qed.

Lemma rank_eqb_refl : forall a, rank_eqb a a = true.
Proof. intros [g l]. unfold rank_eqb. cbn. rewrite Z.eqb_refl. destruct l; reflexivity. Qed.

Lemma add_key_in : forall k l x, In x (add_key k l) -> x = k \/ In x l.
Proof.
  intros k l. induction l as [|y l IH]; intros x H; cbn [add_key] in H.
  - destruct H as [H|[]]. left. symmetry. exact H.
  - destruct (rank_eqb y k); [right; exact H|].
    destruct H as [H|H]; [right; left; exact H|]. destruct (IH x H) as [E|E]; [left; exact E|right; right; exact E].
Qed.

Lemma add_key_keeps : forall k l x, In x l -> In x (add_key k l).
Proof.
  intros k l. induction l as [|y l IH]; intros x H; [contradiction|]. cbn [add_key].
  destruct (rank_eqb y k); [exact H|]. destruct H as [H|H]; [left; exact H|right; apply IH; exact H].
Qed.

Lemma add_key_has : forall k l, exists x, In x (add_key k l) /\ grp x = grp k.
Proof.
  intros k l. induction l as [|y l IH]; cbn [add_key].
  - exists k. split; [left; reflexivity|reflexivity].
  - destruct (rank_eqb y k) eqn:E.
    + exists y. split; [left; reflexivity|apply rank_eqb_grp; exact E].
    + destruct IH as [x [I G]]. exists x. split; [right; exact I|exact G].
Qed.

Definition add_keys (ks : list rank) (acc : list rank) : list rank := fold_left (fun a k => add_key k a) ks acc.

Lemma add_keys_in : forall ks acc x, In x (add_keys ks acc) -> In x acc \/ In x ks.
Proof.
  induction ks as [|k ks IH]; intros acc x H; cbn [add_keys fold_left] in *; [left; exact H|].
  destruct (IH _ x H) as [E|E]; [|right; right; exact E].
  destruct (add_key_in k acc x E) as [F|F]; [right; left; symmetry; exact F|left; exact F].
Qed.

Lemma add_keys_keeps : forall ks acc x, In x acc -> In x (add_keys ks acc).
Proof.
  induction ks as [|k ks IH]; intros acc x H; cbn [add_keys fold_left]; [exact H|].
  apply IH. apply add_key_keeps. exact H.
Qed.

Lemma add_keys_has : forall ks acc k, In k ks -> exists x, In x (add_keys ks acc) /\ grp x = grp k.
Proof.
  induction ks as [|k0 ks IH]; intros acc k H; [contradiction|]. cbn [add_keys fold_left].
  destruct H as [H|H].
  - subst k0. destruct (add_key_has k acc) as [x [I G]]. exists x. split; [apply add_keys_keeps; exact I|exact G].
  - apply IH. exact H.
Qed.

Definition keys_from (rs : list brow) (acc : list rank) : list rank :=
  fold_left (fun acc r => fold_left (fun a k => add_key k a) (row_keys r) acc) rs acc.

Lemma keys_from_in : forall rs acc x, In x (keys_from rs acc) -> In x acc \/ has_key rs x.
Proof.
  induction rs as [|r rs IH]; intros acc x H; cbn [keys_from fold_left] in *; [left; exact H|].
  destruct (IH _ x H) as [E|[r' [I K]]].
  - destruct (add_keys_in (row_keys r) acc x E) as [F|F]; [left; exact F|].
    right. exists r. split; [left; reflexivity|exact F].
  - right. exists r'. split; [right; exact I|exact K].
Qed.

Lemma keys_from_keeps : forall rs acc x, In x acc -> In x (keys_from rs acc).
Proof.
  induction rs as [|r rs IH]; intros acc x H; cbn [keys_from fold_left]; [exact H|].
  apply IH. apply (add_keys_keeps (row_keys r)). exact H.
Qed.

Lemma keys_from_has : forall rs acc k, has_key rs k -> exists x, In x (keys_from rs acc) /\ grp x = grp k.
Proof.
  induction rs as [|r rs IH]; intros acc k [r' [I K]]; [contradiction|]. cbn [keys_from fold_left].
  destruct I as [I|I].
  - subst r'. destruct (add_keys_has (row_keys r) acc k K) as [x [J G]].
    exists x. split; [apply keys_from_keeps; exact J|exact G].
  - apply IH. exists r'. split; assumption.
Qed.

(* ------------------------------------------------------------ the theorem *)
Lemma levels_list_nodup : forall n, NoDup (map (fun j => 1 + Z.of_nat j) (seq 0 n)).
Proof.
  intro n. apply FinFun.Injective_map_NoDup; [|apply seq_NoDup].
  intros a b H. lia.
Qed.

Theorem groups_ok_all_levels_visited : forall ops B,
  groups_ok ops -> build_table ops = Some B -> all_levels_visited B = true.
Proof.
  intros ops B OK H. unfold build_table in H.
  destruct (build_loop_levels ops 1 1 [] None B ltac:(lia) H) as [_ [I2 I3]].
  set (G := length (groups ops)).
  assert (LB : (G <= length (prec_keys B))%nat).
  { assert (E : length (map (fun j => 1 + Z.of_nat j) (seq 0 G)) = G) by (rewrite map_length, seq_length; reflexivity).
    rewrite <- E. rewrite <- (map_length grp (prec_keys B)).
    apply NoDup_incl_length; [apply levels_list_nodup|].
    intros z Z. apply in_map_iff in Z. destruct Z as [j [Zj J]]. apply in_seq in J. subst z.
    destruct (nth_error (groups ops) j) as [g|] eqn:N.
    2:{ apply nth_error_None in N. unfold G in J. lia. }
    assert (R : existsb has_role g = true).
    { unfold groups_ok in OK. rewrite Forall_forall in OK. apply OK. eapply nth_error_In. exact N. }
    destruct (I3 j g N R) as [q [Q Gq]].
    destruct (keys_from_has (rows B) [] q Q) as [x [X Gx]].
    apply in_map_iff. exists x. split; [lia|exact X]. }
  unfold all_levels_visited. apply forallb_forall. intros k K.
  destruct (keys_from_in (rows B) [] k K) as [[]|Q].
  destruct (I2 k Q) as [[r [[] _]]|Bd].
  unfold visited_level. pose proof (groups_length ops) as GL. fold G in GL.
  apply andb_true_intro. split; apply Z.leb_le; lia.
Qed.
