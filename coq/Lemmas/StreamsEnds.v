(* Pipelines that END: over the endless source a pipeline can only end through
   take / takeWhile.  [pend_all] computes, on lists, how many source elements and
   lambda applications it takes to ESTABLISH the end (the failing element of a
   takeWhile is the one extra pull; take needs none); the machine spends exactly that. *)
From Coq Require Import List ZArith Bool Arith Lia.
From YV Require Import Common.Corr Model.Queries Model.Streams Lemmas.StreamsMono Lemmas.StreamsSteps
  Lemmas.StreamsPipeline Lemmas.StreamsPipeline2.
Import ListNotations.

(* ---- determinism of the cost-annotated behaviour --------------------------------- *)
Lemma plus_st_inj a b a' b' : plus_st st0 a b = plus_st st0 a' b' -> a = a' /\ b = b'.
Proof. unfold plus_st, st0. cbn. intro H. injection H as -> ->. split; reflexivity. Qed.

Lemma YieldsD_det i v i1 a b v' i1' a' b' :
  YieldsD i v i1 a b -> YieldsD i v' i1' a' b' -> v = v' /\ i1 = i1' /\ a = a' /\ b = b'.
Proof.
  intros H1 H2. destruct (yields_at _ _ _ _ _ H1 st0) as [f1 F1]. destruct (yields_at _ _ _ _ _ H2 st0) as [f2 F2].
  pose proof (F1 (Nat.max f1 f2) ltac:(lia)) as E1. pose proof (F2 (Nat.max f1 f2) ltac:(lia)) as E2.
  rewrite E1 in E2.
  assert (Es : plus_st st0 a b = plus_st st0 a' b') by congruence.
  assert (Ev : Yield v i1 = Yield v' i1') by congruence.
  injection Ev as -> ->. destruct (plus_st_inj _ _ _ _ Es) as [-> ->]. repeat split.
Qed.

Lemma Yields_Ends_excl i v i1 a b c d : YieldsD i v i1 a b -> EndsD i c d -> False.
Proof.
  intros H1 H2. destruct (yields_at _ _ _ _ _ H1 st0) as [f1 F1]. destruct (ends_at _ _ _ H2 st0) as [f2 F2].
  pose proof (F1 (Nat.max f1 f2) ltac:(lia)) as E1. pose proof (F2 (Nat.max f1 f2) ltac:(lia)) as E2.
  rewrite E1 in E2. discriminate E2.
Qed.

Lemma StepsD_det l : forall i a b i1 a' b' i1', StepsD i l a b i1 -> StepsD i l a' b' i1' -> a = a' /\ b = b' /\ i1 = i1'.
Proof.
  induction l as [|v r IH]; intros i a b i1 a' b' i1' H1 H2.
  - destruct H1 as (-> & -> & ->). destruct H2 as (-> & -> & ->). repeat split.
  - destruct H1 as (j & p1 & t1 & p2 & t2 & Y & HS & -> & ->). destruct H2 as (j' & q1 & u1 & q2 & u2 & Y' & HS' & -> & ->).
    destruct (YieldsD_det _ _ _ _ _ _ _ _ _ Y Y') as (_ & <- & <- & <-).
    destruct (IH _ _ _ _ _ _ _ HS HS') as (<- & <- & <-). repeat split.
Qed.

(* ---- behaviour with a known end ---------------------------------------------------- *)
(* i yields exactly xs (prefix costs cp, ct) and then ends; (ce, te) is the TOTAL cost, from the start,
   of having been told so *)
Definition Ended (i : it) (xs : list val) (cp ct : nat -> nat) (ce te : nat) : Prop :=
  Like i xs cp ct /\
  exists i' de dte, StepsD i xs (cp (length xs)) (ct (length xs)) i' /\ EndsD i' de dte /\
                    ce = cp (length xs) + de /\ te = ct (length xs) + dte.

Definition EndedOpt (i : it) (xs : list val) (cp ct : nat -> nat) (e : option (nat * nat)) : Prop :=
  Like i xs cp ct /\ match e with Some (ce, te) => Ended i xs cp ct ce te | None => True end.

(* the prefix costs of [Like] and any actual derivation agree *)
Lemma like_cost i xs cp ct m a b i1 : Like i xs cp ct -> m <= length xs -> StepsD i (firstn m xs) a b i1 -> a = cp m /\ b = ct m.
Proof.
  intros H L HS. destruct (H m L) as [i2 HS2]. destruct (StepsD_det _ _ _ _ _ _ _ _ HS HS2) as (-> & -> & _). split; reflexivity.
Qed.

(* split the full derivation at m, with the costs of the parts known *)
Lemma ended_split i xs cp ct m i' : Like i xs cp ct -> m <= length xs ->
  StepsD i xs (cp (length xs)) (ct (length xs)) i' ->
  exists i1 c d, StepsD i (firstn m xs) (cp m) (ct m) i1 /\ StepsD i1 (skipn m xs) c d i' /\
                 cp (length xs) = cp m + c /\ ct (length xs) = ct m + d.
Proof.
  intros H L HS. rewrite <- (firstn_skipn m xs) in HS at 1.
  destruct (StepsD_split _ _ _ _ _ _ HS) as (a & b & i1 & c & d & S1 & S2 & Ea & Eb).
  destruct (like_cost _ _ _ _ _ _ _ _ H L S1) as (-> & ->). exists i1, c, d. repeat split; assumption.
Qed.

Definition add_ticks (n : nat) (e : option (nat * nat)) : option (nat * nat) :=
  match e with Some (c, t) => Some (c, t + n) | None => None end.

(* the end of the output, from the end of the input (list level) *)
Definition oend (o : sop) (xs : list val) (cp ct : nat -> nat) (e : option (nat * nat)) : option (nat * nat) :=
  match o with
  | OSelect _ => add_ticks (length xs) e
  | OWhere _ => add_ticks (length xs) e
  | OSkip _ => e
  | OTake n => if n <=? length xs then Some (cp n, ct n) else e
  | OTakeWhile p =>
      let j := length (take_while_l (holds p) xs) in
      if j <? length xs then Some (cp (S j), ct (S j) + S j) else add_ticks (length xs) e
  | OSkipWhile p =>
      let j := length (take_while_l (holds p) xs) in
      add_ticks (if j <? length xs then S j else length xs) e
  | OEnumerate _ => e
  | OMemorize => e
  end.

Lemma filter_firstn_kth p xs : let h := length (filter (holds p) xs) in
  forallb (fun x => negb (holds p x)) (skipn (kth_hit (holds p) xs h) xs) = true.
Proof.
  cbn zeta. induction xs as [|x r IH]; [reflexivity|]. cbn [filter]. destruct (holds p x) eqn:P.
  - cbn [length kth_hit]. rewrite P. cbn [skipn]. exact IH.
  - destruct (length (filter (holds p) r)) as [|h] eqn:Hh.
    + rewrite kth_hit_0. cbn [skipn forallb]. rewrite P. cbn. rewrite kth_hit_0 in IH. exact IH.
    + cbn [kth_hit]. rewrite P. cbn [skipn]. exact IH.
Qed.

Lemma op_ended o i xs cp ct e : EndedOpt i xs cp ct e ->
  EndedOpt (build o i) (outs o xs) (fun k => cp (need o xs k)) (fun k => ct (need o xs k) + tks o xs k) (oend o xs cp ct e).
Proof.
  intros [H He]. split; [apply op_like; exact H|].
  pose proof (op_like o i xs cp ct H) as HL.
  destruct o; cbn [oend].
  - (* select *)
    destruct e as [[ce te]|]; [|exact I]. cbn [add_ticks]. destruct He as (_ & i' & de & dte & HS & E & -> & ->).
    split; [exact HL|]. exists (Map f i'), de, dte. cbn [build outs need tks]. unfold select_l. rewrite map_length.
    repeat split; try lia.
    + eapply StepsD_eq; [apply (map_steps f _ _ _ _ _ HS) | reflexivity | lia].
    + apply map_ends. exact E.
  - (* where *)
    destruct e as [[ce te]|]; [|exact I]. cbn [add_ticks]. destruct He as (_ & i' & de & dte & HS & E & -> & ->).
    split; [exact HL|]. cbn [build outs need tks]. unfold where_l.
    set (h := length (filter (holds p) xs)). destruct (kth_hit_spec (holds p) xs h (le_n _)) as (K1 & K2 & K3 & K4).
    set (m := kth_hit (holds p) xs h) in *.
    destruct (ended_split _ _ _ _ m _ H K1 HS) as (i1 & c & d & S1 & S2 & Ec & Ed).
    exists (Filter p i1), (c + de), (d + length (skipn m xs) + dte). repeat split.
    + assert (F : filter (holds p) xs = filter (holds p) (firstn m xs)).
      { rewrite K2. symmetry. apply firstn_all. }
      rewrite F at 1. eapply StepsD_eq; [apply (filter_steps p _ _ _ _ _ S1) | reflexivity | rewrite firstn_length; lia].
      destruct K3 as [E3|(pre & v & E3 & Pv)]; [left; exact E3 | right; exists pre, v; split; assumption].
    + apply (filter_misses_end p _ _ _ _ _ _ _ S2 E). apply filter_firstn_kth.
    + lia.
    + rewrite skipn_length. lia.
  - (* skip *)
    destruct e as [[ce te]|]; [|exact I]. destruct He as (_ & i' & de & dte & HS & E & -> & ->).
    split; [exact HL|]. cbn [build outs need tks]. unfold skip_l. rewrite skipn_length.
    destruct (le_lt_dec (length xs) n) as [L|L].
    + replace (length xs - n) with 0 by lia. destruct (Like_0 _ _ _ _ H) as [C0 T0].
      exists (ISlice n None i), (cp (length xs) + de), (ct (length xs) + dte). rewrite skipn_all2 by exact L. repeat split; try lia.
      apply (skip_exhaust xs n _ _ _ _ _ _ HS E L).
    + exists (ISlice 0 None i'), de, dte. destruct (length xs - n) as [|q] eqn:Q; [lia|].
      replace (n + S q) with (length xs) by lia. repeat split; try lia.
      * eapply StepsD_eq; [apply (skip_steps n _ _ _ _ _ HS L) | reflexivity | lia].
      * apply skip_ends_none. exact E.
  - (* take *)
    cbn [build outs need tks]. unfold take_l. destruct (n <=? length xs) eqn:Q.
    + apply Nat.leb_le in Q. split; [exact HL|]. destruct (H n Q) as [i1 S1].
      exists (ISlice 0 (Some 0) i1), 0, 0. rewrite firstn_length. replace (Nat.min n (length xs)) with n by lia.
      repeat split; try lia; [|apply take_stops].
      pose proof (take_steps _ n _ _ _ _ S1 ltac:(rewrite firstn_length; lia)) as T.
      rewrite firstn_length in T. replace (n - Nat.min n (length xs)) with 0 in T by lia.
      eapply StepsD_eq; [exact T | reflexivity | lia].
    + apply Nat.leb_gt in Q. destruct e as [[ce te]|]; [|exact I]. destruct He as (_ & i' & de & dte & HS & E & -> & ->).
      split; [exact HL|]. rewrite firstn_all2 by lia.
      pose proof (take_steps _ n _ _ _ _ HS ltac:(lia)) as T.
      destruct (n - length xs) as [|q] eqn:Qn; [lia|].
      exists (ISlice 0 (Some (S q)) i'), de, dte. repeat split; try lia.
      * eapply StepsD_eq; [exact T | reflexivity | lia].
      * apply take_ends_some. exact E.
  - (* takeWhile *)
    cbn [build outs need tks].
    pose proof (take_while_split (holds p) xs) as Sp. pose proof (skip_while_head (holds p) xs) as Hd.
    pose proof (take_while_all (holds p) xs) as Al.
    set (tw := take_while_l (holds p) xs) in *. set (j := length tw).
    destruct (j <? length xs) eqn:Q.
    + apply Nat.ltb_lt in Q. split; [exact HL|].
      (* the element after the kept prefix exists and fails *)
      destruct (skip_while_l (holds p) xs) as [|v rest] eqn:R.
      { exfalso. rewrite app_nil_r in Sp. rewrite Sp in Q. fold j in Q. lia. }
      destruct (H (S j) Q) as [i2 S2].
      assert (F : firstn (S j) xs = tw ++ [v]).
      { rewrite Sp at 1. replace (S j) with (length tw + 1) by (unfold j; lia). rewrite firstn_app_2. reflexivity. }
      rewrite F in S2. destruct (StepsD_split _ _ _ _ _ _ S2) as (a & b & i1 & c & d & S1 & S3 & Ea & Eb).
      assert (Lj : j <= length xs) by lia.
      assert (F1 : firstn j xs = tw). { rewrite Sp at 1. unfold j. rewrite firstn_app, firstn_all, Nat.sub_diag. cbn. apply app_nil_r. }
      rewrite <- F1 in S1. destruct (like_cost _ _ _ _ _ _ _ _ H Lj S1) as (-> & ->). rewrite F1 in S1.
      destruct S3 as (i3 & p1 & t1 & p2 & t2 & Y & (-> & -> & ->) & -> & ->).
      exists (TakeWhile p i1), p1, (t1 + 1). fold j. repeat split; try lia.
      * eapply StepsD_eq; [apply (takewhile_steps p _ _ _ _ _ S1 Al) | reflexivity | fold j; lia].
      * apply (takewhile_stops p _ _ _ _ _ Y Hd).
    + apply Nat.ltb_ge in Q. destruct e as [[ce te]|]; [|exact I]. cbn [add_ticks]. destruct He as (_ & i' & de & dte & HS & E & -> & ->).
      split; [exact HL|].
      assert (All : tw = xs).
      { destruct (skip_while_l (holds p) xs) as [|v rest]; [rewrite app_nil_r in Sp; symmetry; exact Sp|].
        exfalso. rewrite Sp, app_length in Q. fold j in Q. cbn in Q. lia. }
      rewrite All in *. exists (TakeWhile p i'), de, dte. repeat split; try lia.
      * eapply StepsD_eq; [apply (takewhile_steps p _ _ _ _ _ HS Al) | reflexivity | lia].
      * apply takewhile_ends. exact E.
  - (* skipWhile *)
    destruct e as [[ce te]|]; [|exact I]. cbn [add_ticks]. destruct He as (_ & i' & de & dte & HS & E & -> & ->).
    split; [exact HL|]. cbn [build outs need tks].
    pose proof (take_while_split (holds p) xs) as Sp. pose proof (skip_while_head (holds p) xs) as Hd.
    pose proof (take_while_all (holds p) xs) as Al.
    set (tw := take_while_l (holds p) xs) in *. set (j := length tw).
    destruct (skip_while_l (holds p) xs) as [|v rest] eqn:R.
    + (* everything dropped *)
      rewrite app_nil_r in Sp. assert (Q : (j <? length xs) = false) by (apply Nat.ltb_ge; rewrite Sp at 1; fold j; lia).
      rewrite Q. destruct (Like_0 _ _ _ _ H) as [C0 T0]. cbn [length].
      exists (DropWhile p i), (cp (length xs) + de), (ct (length xs) + length xs + dte). repeat split; try lia.
      rewrite <- Sp in Al. apply (dropwhile_all_end p xs _ _ _ _ _ _ HS E Al).
    + assert (Lx : length xs = j + S (length rest)) by (rewrite Sp, app_length; reflexivity).
      assert (Q : (j <? length xs) = true) by (apply Nat.ltb_lt; lia). rewrite Q. cbn [length].
      replace (j + S (length rest)) with (length xs) by lia.
      exists i', de, dte. repeat split; try lia; [|exact E].
      rewrite Sp in HS at 1. eapply StepsD_eq; [apply (dropwhile_steps p tw v rest _ _ _ _ HS Al Hd) | reflexivity | fold j; lia].
  - (* enumerate *)
    destruct e as [[ce te]|]; [|exact I]. destruct He as (_ & i' & de & dte & HS & E & -> & ->).
    split; [exact HL|]. cbn [build outs need tks]. rewrite enum_vals_length.
    exists (Enumerate (n + Z.of_nat (length xs)) i'), de, dte. repeat split; try lia.
    + eapply StepsD_eq; [apply (enumerate_steps _ n _ _ _ _ HS) | reflexivity | lia].
    + apply enumerate_ends. exact E.
  - (* memorize *)
    destruct e as [[ce te]|]; [|exact I]. destruct He as (_ & i' & de & dte & HS & E & -> & ->).
    split; [exact HL|]. cbn [build outs need tks].
    exists (Memo i'), de, dte. repeat split; try lia.
    + eapply StepsD_eq; [apply (memo_steps _ _ _ _ _ HS) | reflexivity | lia].
    + apply memo_ends. exact E.
Qed.

Fixpoint pend_all (ops : list sop) (xs : list val) (cp ct : nat -> nat) (e : option (nat * nat)) : option (nat * nat) :=
  match ops with
  | [] => e
  | o :: r => pend_all r (outs o xs) (fun k => cp (need o xs k)) (fun k => ct (need o xs k) + tks o xs k) (oend o xs cp ct e)
  end.

Lemma pipeline_ended ops : forall i xs cp ct e, EndedOpt i xs cp ct e ->
  exists cp' ct', EndedOpt (build_all ops i) (outs_all ops xs) cp' ct' (pend_all ops xs cp ct e).
Proof.
  induction ops as [|o r IH]; intros i xs cp ct e H.
  - exists cp, ct. exact H.
  - cbn [build_all outs_all pend_all]. apply IH. apply op_ended. exact H.
Qed.

(* over the endless source: when the inspected prefix determines the end of the pipeline,
   consuming the pipeline to its end costs exactly what [pend_all] computes on lists *)
Theorem pipeline_end_cost ops k0 n ce te :
  let xs := src_prefix k0 n in
  pend_all ops xs (fun m => m) (fun _ => 0) None = Some (ce, te) ->
  forall s, exists fuel, drain fuel s (build_all ops (Src k0)) = (plus_st s ce te, Ok (outs_all ops xs)).
Proof.
  intros xs P s.
  destruct (pipeline_ended ops (Src k0) xs (fun m => m) (fun _ => 0) None (conj (src_like k0 n) I)) as (cp' & ct' & _ & He).
  rewrite P in He. destruct He as (_ & i' & de & dte & HS & E & -> & ->).
  apply (drain_cost _ _ _ _ _ _ _ HS E s).
Qed.

(* asked for more results than exist: [run] reports Finished at the cost of establishing the end *)
Lemma run_finished l : forall i dp dt i' ep et k, StepsD i l dp dt i' -> EndsD i' ep et -> length l < k ->
  forall s, exists fuel, run fuel s i k = (plus_st s (dp + ep) (dt + et), l, Finished).
Proof.
  induction l as [|v r IH]; intros i dp dt i' ep et k HS E L s.
  - destruct HS as (-> & -> & ->). destruct k as [|k]; [cbn in L; lia|]. destruct (E s) as [fu F]. exists fu. cbn [run]. rewrite F. reflexivity.
  - destruct HS as (j & a & b & c & d & Y & HS & -> & ->). destruct k as [|k]; [cbn in L; lia|]. cbn [length] in L.
    destruct (yields_at _ _ _ _ _ Y s) as [f1 F1]. destruct (IH _ _ _ _ _ _ k HS E ltac:(lia) (plus_st s a b)) as [f2 F2].
    assert (G : forall k0 i0 s0 f sres l0, run f s0 i0 k0 = (sres, l0, Finished) ->
                forall f', f <= f' -> run f' s0 i0 k0 = (sres, l0, Finished)).
    { induction k0 as [|k0 IHk]; intros i0 s0 f sres l0 R f' Lf; [discriminate R|]. cbn [run] in *.
      destruct (next f s0 i0) as [s1 o] eqn:En. destruct o; try discriminate R.
      - rewrite (next_yield_mono _ f' _ _ _ _ _ En Lf).
        destruct (run f s1 i1 k0) as [[s2 l2] r2] eqn:E2. injection R as -> <- ->.
        rewrite (IHk _ _ _ _ _ E2 f' Lf). reflexivity.
      - rewrite (next_done_mono _ f' _ _ _ En Lf). exact R. }
    exists (Nat.max f1 f2). cbn [run]. rewrite F1 by lia. rewrite (G _ _ _ _ _ _ F2) by lia.
    rewrite plus_st_plus. f_equal. f_equal. apply plus_st_eq; lia.
Qed.

(* The bound, both ways.  For every pipeline of select/where/skip/take/takeWhile/skipWhile/enumerate/
   memorize over the endless source and every k:
   - if k results exist within what the inspected prefix determines, they cost exactly need_all pulls;
   - if the prefix shows that the pipeline ends earlier, asking for k results costs exactly the pulls
     that establish the end (pend_all), and the pipeline is then finished. *)
Theorem pipeline_bound_total ops k0 n k s :
  let xs := src_prefix k0 n in
  (k <= length (outs_all ops xs) ->
     exists fuel s' i', run fuel s (build_all ops (Src k0)) k = (s', firstn k (outs_all ops xs), Running i') /\
                        pulls s' = pulls s + need_all ops xs k /\ ticks s' = ticks s + tks_all ops xs k) /\
  (forall ce te, pend_all ops xs (fun m => m) (fun _ => 0) None = Some (ce, te) -> length (outs_all ops xs) < k ->
     exists fuel, run fuel s (build_all ops (Src k0)) k = (plus_st s ce te, outs_all ops xs, Finished)).
Proof.
  intro xs. split.
  - intro L. destruct (pipeline_demand_run ops k0 n k s L) as (fuel & s' & i' & R & P & _ & T). exists fuel, s', i'. repeat split; assumption.
  - intros ce te P L.
    destruct (pipeline_ended ops (Src k0) xs (fun m => m) (fun _ => 0) None (conj (src_like k0 n) I)) as (cp' & ct' & _ & He).
    fold xs in He. rewrite P in He. destruct He as (_ & i' & de & dte & HS & E & -> & ->).
    apply (run_finished _ _ _ _ _ _ _ k HS E L s).
Qed.

(* how far the end can be from the last result: take adds nothing, takeWhile its failing element *)
Lemma oend_take_cost n xs cp ct e : n <= length xs -> oend (OTake n) xs cp ct e = Some (cp n, ct n).
Proof. intro L. cbn. destruct (n <=? length xs) eqn:Q; [reflexivity | apply Nat.leb_gt in Q; lia]. Qed.

Lemma oend_take_while_cost p xs cp ct e : length (take_while_l (holds p) xs) < length xs ->
  oend (OTakeWhile p) xs cp ct e =
  Some (cp (S (length (take_while_l (holds p) xs))), ct (S (length (take_while_l (holds p) xs))) + S (length (take_while_l (holds p) xs))).
Proof.
  intro L. cbn [oend]. destruct (length (take_while_l (holds p) xs) <? length xs) eqn:Q; [reflexivity | apply Nat.ltb_ge in Q; lia].
Qed.
