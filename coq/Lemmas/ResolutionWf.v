(* decidable well-formedness of a signature: the premises of the binding theorems, as a boolean
   that can be evaluated over the regenerated registry *)
From Coq Require Import List ZArith Bool Arith Lia.
From YV Require Import Common.Corr Model.Resolution Lemmas.ResolutionBind Lemmas.ResolutionRank Lemmas.ResolutionMap.
Import ListNotations.

Fixpoint z_nodupb (l : list Z) : bool :=
  match l with [] => true | x :: r => negb (existsb (Z.eqb x) r) && z_nodupb r end.
Fixpoint nat_nodupb (l : list nat) : bool :=
  match l with [] => true | x :: r => negb (existsb (Nat.eqb x) r) && nat_nodupb r end.

Lemma z_nodupb_spec l : z_nodupb l = true -> NoDup l.
Proof.
  induction l as [|x r IH]; cbn; intro H; [constructor|]. apply andb_true_iff in H as [H1 H2].
  constructor; [|apply IH, H2]. intro Hi. apply negb_true_iff in H1.
  assert (E : existsb (Z.eqb x) r = true) by (apply existsb_exists; exists x; split; [exact Hi | apply Z.eqb_refl]).
  congruence.
Qed.

Lemma nat_nodupb_spec l : nat_nodupb l = true -> NoDup l.
Proof.
  induction l as [|x r IH]; cbn; intro H; [constructor|]. apply andb_true_iff in H as [H1 H2].
  constructor; [|apply IH, H2]. intro Hi. apply negb_true_iff in H1.
  assert (E : existsb (Nat.eqb x) r = true) by (apply existsb_exists; exists x; split; [exact Hi | apply Nat.eqb_refl]).
  congruence.
Qed.

(* distinct yaql-side names of the bound parameters, distinct positions, every argument slot below
   the number of visible positional parameters is read by some parameter *)
Definition wf_params_b (ps : list param) : bool :=
  z_nodupb (bound_names ps) && nat_nodupb (all_pos ps) &&
  forallb (fun i => match slot_param ps i with Some _ => true | None => false end) (seq 0 (nvis ps)).

Lemma wf_params_b_spec ps :
  wf_params_b ps = true -> NoDup (bound_names ps) /\ NoDup (all_pos ps) /\ slots_covered ps.
Proof.
  unfold wf_params_b. intro H. apply andb_true_iff in H as [H H3]. apply andb_true_iff in H as [H1 H2].
  split; [apply z_nodupb_spec, H1|]. split; [apply nat_nodupb_spec, H2|].
  intros i Hi. rewrite forallb_forall in H3. specialize (H3 i). rewrite in_seq in H3.
  destruct (slot_param ps i); [discriminate|]. assert (false = true) by (apply H3; lia). discriminate.
Qed.
