(* Result finalisation of the reference interpreter yields plain data: no lazy sequence and no context object is left
   at any depth of a successfully finalised value (dict keys are passed through unchanged). *)
From Coq Require Import List ZArith Bool Arith Lia.
From YV Require Import Common.Corr Model.Eval.
Import ListNotations.

Fixpoint plainv (v : val) : Prop :=
  match v with
  | VCtx _ | VIter _ _ => False
  | VList l => (fix go (l : list val) : Prop := match l with [] => True | x :: r => plainv x /\ go r end) l
  | VDict kvs => (fix go (l : list (val * val)) : Prop := match l with [] => True | (_, x) :: r => plainv x /\ go r end) kvs
  | _ => True
  end.

Lemma plainv_list l : plainv (VList l) <-> Forall plainv l.
Proof.
  cbn [plainv]. induction l as [|x l IH]; split; intro H; auto.
  - destruct H as [H1 H2]. constructor; [exact H1|exact (proj1 IH H2)].
  - inversion H as [|? ? Ha Hb]; subst. split; [exact Ha|exact (proj2 IH Hb)].
Qed.

Lemma plainv_dict kvs : plainv (VDict kvs) <-> Forall (fun kv => plainv (snd kv)) kvs.
Proof.
  cbn [plainv]. induction kvs as [|[k x] l IH]; split; intro H; auto.
  - destruct H as [H1 H2]. constructor; [exact H1|exact (proj1 IH H2)].
  - inversion H as [|? ? Ha Hb]; subst. split; [exact Ha|exact (proj2 IH Hb)].
Qed.

Definition fin_plain (fin : st -> val -> st * res val) : Prop :=
  forall s v s' r, fin s v = (s', Ok r) -> plainv r.

Section Helpers.
  Variable ev : st -> nat -> expr -> st * res val.
  Variable fin : st -> val -> st * res val.
  Hypothesis Hfin : fin_plain fin.

  Lemma fin_list_plain l : forall s s' r, fin_list fin s l = (s', Ok r) -> Forall plainv r.
  Proof.
    induction l as [|x l IH]; intros s s' r H; cbn [fin_list] in H.
    - inversion H; subst. constructor.
    - destruct (fin s x) as [s1 r1] eqn:E1. destruct r1 as [y| | |]; try discriminate.
      destruct (fin_list fin s1 l) as [s2 r2] eqn:E2. destruct r2 as [ys| | |]; try discriminate.
      inversion H; subst. constructor; [eapply Hfin; eassumption|eapply IH; eassumption].
  Qed.

  Lemma fin_dict_plain l : forall s s' r, fin_dict fin s l = (s', Ok r) -> Forall (fun kv => plainv (snd kv)) r.
  Proof.
    induction l as [|[k x] l IH]; intros s s' r H; cbn [fin_dict] in H.
    - inversion H; subst. constructor.
    - destruct (fin s x) as [s1 r1] eqn:E1. destruct r1 as [y| | |]; try discriminate.
      destruct (fin_dict fin s1 l) as [s2 r2] eqn:E2. destruct r2 as [ys| | |]; try discriminate.
      inversion H; subst. constructor; [cbn; eapply Hfin; eassumption|eapply IH; eassumption].
  Qed.

  Lemma fin_iter_plain l : forall s ops s' r, fin_iter ev fin s l ops = (s', Ok r) -> Forall plainv r.
  Proof.
    induction l as [|x l IH]; intros s ops s' r H; cbn [fin_iter] in H.
    - inversion H; subst. constructor.
    - destruct (through ev s x ops) as [s1 r1] eqn:E1. destruct r1 as [[y|]| | |]; try discriminate.
      + destruct (fin s1 y) as [s2 r2] eqn:E2. destruct r2 as [z| | |]; try discriminate.
        destruct (fin_iter ev fin s2 l ops) as [s3 r3] eqn:E3. destruct r3 as [zs| | |]; try discriminate.
        inversion H; subst. constructor; [eapply Hfin; eassumption|eapply IH; eassumption].
      + eapply IH; eassumption.
  Qed.
End Helpers.

Lemma finalize_plain f : fin_plain (finalize f).
Proof.
  induction f as [|f IH]; intros s v s' r H; [discriminate|].
  cbn [finalize] in H. destruct v; try (inversion H; subst; exact I).
  - destruct (fin_list (finalize f) s l) as [s1 r1] eqn:E. destruct r1; inversion H; subst.
    apply plainv_list. eapply fin_list_plain; eassumption.
  - destruct (fin_dict (finalize f) s kvs) as [s1 r1] eqn:E. destruct r1; inversion H; subst.
    apply plainv_dict. eapply fin_dict_plain; eassumption.
  - destruct (fin_iter (eval f) (finalize f) s src ops) as [s1 r1] eqn:E. destruct r1; inversion H; subst.
    apply plainv_list. eapply fin_iter_plain; eassumption.
Qed.

(* Statement.evaluate as a whole *)
Lemma run_plain fuel data e lg r : run fuel data e = (lg, Ok r) -> plainv r.
Proof.
  unfold run. destruct (eval fuel (root data) 0 e) as [s1 r1]. destruct r1 as [v| | |]; try discriminate.
  destruct (finalize fuel s1 v) as [s2 r2] eqn:E. intro H. inversion H; subst. eapply finalize_plain; eassumption.
Qed.
