(* Fields <-> wall reading (C20): building a reading from fields and reading the
   fields back gives the fields; replace(); date/time. *)
From Coq Require Import ZArith Bool List Lia ZifyBool.
From YV Require Import Model.DateTime Lemmas.DateTimeCivil.
Open Scope Z_scope.

Lemma clock_fields : forall D h mi s us, valid_clock h mi s us = true ->
  let w := D * 86400000000 + h * 3600000000 + mi * 60000000 + s * 1000000 + us in
  w / 86400000000 = D /\ (w mod 86400000000) / 3600000000 = h /\ (w mod 3600000000) / 60000000 = mi /\
  (w mod 60000000) / 1000000 = s /\ w mod 1000000 = us.
Proof.
  intros D h mi s us V w. unfold valid_clock in V. subst w.
  repeat split; Z.div_mod_to_equations; lia.
Qed.

Lemma fields_of_wall_of_fields : forall y m d h mi s us,
  valid_civil y m d = true -> valid_clock h mi s us = true ->
  let w := wall_of_fields y m d h mi s us in
  dt_field FYear w = y /\ dt_field FMonth w = m /\ dt_field FDay w = d /\
  dt_field FHour w = h /\ dt_field FMinute w = mi /\ dt_field FSecond w = s /\ dt_field FMicrosecond w = us /\
  in_range w = true.
Proof.
  intros y m d h mi s us VC VK w.
  pose proof (days_range y m d VC) as B.
  assert (M : 1 <= m <= 12) by (unfold valid_civil in VC; lia).
  assert (D : 1 <= d <= days_in_month y m) by (unfold valid_civil in VC; lia).
  pose proof (civil_inverse y m d M D) as CI.
  destruct (clock_fields (days_from_civil y m d) h mi s us VK) as (Q & H & MI & S & U).
  unfold w, wall_of_fields, dt_field, US_DAY, US_SECOND.
  rewrite Q, CI, H, MI, S, U. cbn [fst snd].
  repeat split.
  unfold in_range, MAXWALL, US_DAY. unfold DAYS_TOTAL in *. unfold valid_clock in VK. lia.
Qed.

(* at the level of yaql calls: datetime(y, m, d, h, mi, s, us, offset) exists exactly for
   real dates and clock readings, and then every field property returns its field, at any offset *)
Lemma build_then_fields : forall y m d h mi s us o,
  valid_civil y m d = true -> valid_clock h mi s us = true ->
  exists x, eval (OpBuild y m d h mi s us o) = VDt x /\ off x = o /\ valid_hdt (Naive (wall x)) = true /\
    eval (OpField FYear (Aware x)) = VInt y /\ eval (OpField FMonth (Aware x)) = VInt m /\
    eval (OpField FDay (Aware x)) = VInt d /\ eval (OpField FHour (Aware x)) = VInt h /\
    eval (OpField FMinute (Aware x)) = VInt mi /\ eval (OpField FSecond (Aware x)) = VInt s /\
    eval (OpField FMicrosecond (Aware x)) = VInt us.
Proof.
  intros y m d h mi s us o VC VK.
  destruct (fields_of_wall_of_fields y m d h mi s us VC VK) as (A & B & C & D & E & F & G & R).
  exists {| wall := wall_of_fields y m d h mi s us; off := o |}.
  cbn. unfold y_build, y_field. rewrite VC, VK. cbn [andb hwall wall off].
  rewrite A, B, C, D, E, F, G. repeat split; try reflexivity. exact R.
Qed.

Lemma build_invalid : forall y m d h mi s us o,
  valid_civil y m d && valid_clock h mi s us = false -> eval (OpBuild y m d h mi s us o) = VErr RangeErr.
Proof. intros. cbn. unfold y_build. rewrite H. reflexivity. Qed.

(* ---- replace() ---------------------------------------------------------------- *)
Lemma valid_hdt_range : forall h, valid_hdt h = true -> in_range (wall (conv h)) = true.
Proof. intros [w|d] V; cbn in *; [exact V|]. unfold valid_adt in V. lia. Qed.

(* replacing only the offset keeps the wall reading: the instant moves by the offset difference *)
Lemma replace_offset : forall h ro, valid_hdt h = true ->
  exists x, eval (OpReplace h None None None None None None None ro) = VDt x /\
    wall x = wall (conv h) /\ off x = keep ro (off (conv h)) /\
    instant x = instant (conv h) - (keep ro (off (conv h)) - off (conv h)).
Proof.
  intros h ro V. pose proof (valid_hdt_range h V) as R.
  exists {| wall := wall (conv h); off := keep ro (off (conv h)) |}.
  split; [|unfold instant; cbn [wall off]; repeat split; lia].
  cbn. unfold y_replace, y_build. cbn [keep].
  destruct (wall_of_its_fields (wall (conv h))) as [W K].
  destruct (civil_from_days (wall (conv h) / US_DAY)) as [[y m] d] eqn:C.
  assert (VC : valid_civil y m d = true).
  { apply (civil_valid (wall (conv h) / US_DAY)); [|exact C].
    unfold in_range, MAXWALL in R. unfold US_DAY in *.
    split; [apply Z.div_pos; lia | apply Z.div_lt_upper_bound; lia]. }
  unfold dt_field in *. rewrite C in *. cbn [fst snd] in *.
  rewrite VC, K, W. reflexivity.
Qed.

(* replacing fields: the result exists exactly when the new fields are a real date and clock
   reading, and then reads back the replaced fields, the kept fields and the (replaced) offset *)
Lemma replace_fields : forall h ry rm rd rh rmi rs rus ro,
  let w := wall (conv h) in
  let y := keep ry (dt_field FYear w) in let m := keep rm (dt_field FMonth w) in
  let d := keep rd (dt_field FDay w) in let hh := keep rh (dt_field FHour w) in
  let mi := keep rmi (dt_field FMinute w) in let s := keep rs (dt_field FSecond w) in
  let us := keep rus (dt_field FMicrosecond w) in
  eval (OpReplace h ry rm rd rh rmi rs rus ro) = eval (OpBuild y m d hh mi s us (keep ro (off (conv h)))).
Proof. reflexivity. Qed.

(* ---- date and time of day ------------------------------------------------------- *)
Lemma date_plus_time : forall h, valid_hdt h = true ->
  eval (OpDate h) = VDt (dt_date (conv h)) /\ eval (OpTime h) = VTs (dt_time (conv h)) /\
  eval (OpAdd (Aware (dt_date (conv h))) (dt_time (conv h))) = VDt (conv h) /\
  eval (OpDiff h (Aware (dt_date (conv h)))) = VTs (dt_time (conv h)) /\
  eval (OpField FHour (Aware (dt_date (conv h)))) = VInt 0 /\
  in_range (wall (dt_date (conv h))) = true.
Proof.
  intros h V. pose proof (valid_hdt_range h V) as R.
  destruct (date_time_split (conv h)) as (S & T & M & O).
  split; [reflexivity|]. split; [reflexivity|].
  assert (RD : in_range (wall (dt_date (conv h))) = true)
    by (clear - R S T M; unfold in_range, US_DAY in *; Z.div_mod_to_equations; lia).
  split; [|split; [|split; [|exact RD]]].
  - cbn. unfold y_add, py_add, mk_dt. cbn [hwall conv]. rewrite S, R.
    destruct (conv h) as [w o]; reflexivity.
  - cbn. unfold y_diff, py_diff. cbn [conv]. f_equal. unfold dt_diff, instant. rewrite O. lia.
  - cbn. unfold y_field, dt_field. cbn [hwall]. rewrite M. reflexivity.
Qed.
