(* Fields <-> wall reading (C20): building a reading from fields and reading the
   fields back gives the fields; replace(); date/time. *)
From Coq Require Import ZArith Bool List Lia ZifyBool.
From YV Require Import Model.DateTime Lemmas.DateTimeCivil.
Open Scope Z_scope.

Lemma clock_fields : forall D h mi s us, valid_clock h mi s us = true ->
  let w := D * 86400000000 + h * 3600000000 + mi * 60000000 + s * 1000000 + us in
  w / 86400000000 = D /\ (w mod 86400000000) / 3600000000 = h /\ (w mod 3600000000) / 60000000 = mi /\
  (w mod 60000000) / 1000000 = s /\ w mod 1000000 = us.
Proof.
  intros D h mi s us V w. unfold valid_clock in V. subst w.
  repeat split; Z.div_mod_to_equations; lia.
Qed.

Lemma fields_of_wall_of_fields : forall y m d h mi s us,
  valid_civil y m d = true -> valid_clock h mi s us = true ->
  let w := wall_of_fields y m d h mi s us in
  dt_field FYear w = y /\ dt_field FMonth w = m /\ dt_field FDay w = d /\
  dt_field FHour w = h /\ dt_field FMinute w = mi /\ dt_field FSecond w = s /\ dt_field FMicrosecond w = us /\
  in_range w = true.
Proof.
  intros y m d h mi s us VC VK w.
  pose proof (days_range y m d VC) as B.
  assert (M : 1 <= m <= 12) by (unfold valid_civil in VC; lia).
  assert (D : 1 <= d <= days_in_month y m) by (unfold valid_civil in VC; lia).
  pose proof (civil_inverse y m d M D) as CI.
  destruct (clock_fields (days_from_civil y m d) h mi s us VK) as (Q & H & MI & S & U).
  unfold w, wall_of_fields, dt_field, US_DAY, US_SECOND.
  rewrite Q, CI, H, MI, S, U. cbn [fst snd].
  repeat split.
  unfold in_range, MAXWALL, US_DAY. unfold DAYS_TOTAL in *. unfold valid_clock in VK. lia.
Qed.

(* at the level of yaql calls: datetime(y, m, d, h, mi, s, us, offset) exists exactly for
   real dates and clock readings, and then every field property returns its field, at any offset *)
Lemma build_then_fields : forall y m d h mi s us o,
  valid_civil y m d = true -> valid_clock h mi s us = true ->
  exists x, eval (OpBuild y m d h mi s us o) = VDt x /\ off x = o /\ valid_hdt (Naive (wall x)) = true /\
    eval (OpField FYear (Aware x)) = VInt y /\ eval (OpField FMonth (Aware x)) = VInt m /\
    eval (OpField FDay (Aware x)) = VInt d /\ eval (OpField FHour (Aware x)) = VInt h /\
    eval (OpField FMinute (Aware x)) = VInt mi /\ eval (OpField FSecond (Aware x)) = VInt s /\
    eval (OpField FMicrosecond (Aware x)) = VInt us.
Proof.
  intros y m d h mi s us o VC VK.
  destruct (fields_of_wall_of_fields y m d h mi s us VC VK) as (A & B & C & D & E & F & G & R).
  exists {| wall := wall_of_fields y m d h mi s us; off := o |}.
  cbn. unfold y_build, y_field. rewrite VC, VK. cbn [andb hwall wall off].
  rewrite A, B, C, D, E, F, G. repeat split; try reflexivity. exact R.
Qed.

Lemma build_invalid : forall y m d h mi s us o,
  valid_civil y m d && valid_clock h mi s us = false -> eval (OpBuild y m d h mi s us o) = VErr RangeErr.
Proof. intros. cbn. unfold y_build. rewrite H. reflexivity. Qed.
