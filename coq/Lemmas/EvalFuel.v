(* The reference interpreter defines a partial function: fuel is only a termination device.  An answer other than
   [Fuel] obtained with some amount of fuel is the answer (state, log and result) for every larger amount. *)
From Coq Require Import List ZArith Bool Arith Lia.
From YV Require Import Common.Corr Model.Eval.
Import ListNotations.

Definition ev_le (ev1 ev2 : st -> nat -> expr -> st * res val) : Prop :=
  forall s c e s' r, ev1 s c e = (s', r) -> r <> Fuel -> ev2 s c e = (s', r).
Definition fin_le (f1 f2 : st -> val -> st * res val) : Prop :=
  forall s v s' r, f1 s v = (s', r) -> r <> Fuel -> f2 s v = (s', r).

Ltac close H := first [ exact H | exfalso; inversion H; subst; congruence ].

Section Mono.
  Variables ev1 ev2 : st -> nat -> expr -> st * res val.
  Hypothesis Hle : ev_le ev1 ev2.

  (* split on the result of the head call [t1] (made with ev1); [lem] turns a non-Fuel result into the ev2 equation *)
  Ltac split_call H t1 lem :=
    let s1 := fresh "s" in let r1 := fresh "r" in let E := fresh "E" in
    destruct t1 as [s1 r1] eqn:E;
    destruct r1;
    [ rewrite (lem _ _ E) by discriminate
    | rewrite (lem _ _ E) by discriminate; close H
    | rewrite (lem _ _ E) by discriminate; close H
    | close H ].

  Lemma ev_le_app s c e s' r : ev1 s c e = (s', r) -> r <> Fuel -> ev2 s c e = (s', r).
  Proof. apply Hle. Qed.

  Lemma invoke_le s body cap pos kw s' r :
    invoke ev1 s body cap pos kw = (s', r) -> r <> Fuel -> invoke ev2 s body cap pos kw = (s', r).
  Proof. unfold invoke. destruct (alloc s _) as [s1 c]. apply Hle. Qed.

  Lemma eval_seq_le es : forall s c s' r,
    eval_seq ev1 s c es = (s', r) -> r <> Fuel -> eval_seq ev2 s c es = (s', r).
  Proof.
    induction es as [|e es IH]; intros s c s' r H Hr; cbn [eval_seq] in *; [exact H|].
    split_call H (ev1 s c e) (ev_le_app s c e).
    split_call H (eval_seq ev1 s0 c es) (IH s0 c). exact H.
  Qed.

  Lemma eval_kw_le kw : forall s c s' r,
    eval_kw ev1 s c kw = (s', r) -> r <> Fuel -> eval_kw ev2 s c kw = (s', r).
  Proof.
    induction kw as [|[k e] kw IH]; intros s c s' r H Hr; cbn [eval_kw] in *; [exact H|].
    split_call H (ev1 s c e) (ev_le_app s c e).
    split_call H (eval_kw ev1 s0 c kw) (IH s0 c). exact H.
  Qed.

  Lemma eval_map_le kvs : forall s c acc s' r,
    eval_map ev1 s c kvs acc = (s', r) -> r <> Fuel -> eval_map ev2 s c kvs acc = (s', r).
  Proof.
    induction kvs as [|[ke ve] kvs IH]; intros s c acc s' r H Hr; cbn [eval_map] in *; [exact H|].
    split_call H (ev1 s c ke) (ev_le_app s c ke).
    split_call H (ev1 s0 c ve) (ev_le_app s0 c ve).
    destruct (is_key a); [|exact H]. apply IH; assumption.
  Qed.

  Lemma eval_switch_le cs : forall s c s' r,
    eval_switch ev1 s c cs = (s', r) -> r <> Fuel -> eval_switch ev2 s c cs = (s', r).
  Proof.
    induction cs as [|[ce ve] cs IH]; intros s c s' r H Hr; cbn [eval_switch] in *; [exact H|].
    split_call H (ev1 s c ce) (ev_le_app s c ce).
    destruct (truthy a) as [[|]| | |]; try close H.
    - apply Hle; assumption.
    - apply IH; assumption.
  Qed.

  Lemma eval_coalesce_le es : forall s c s' r,
    eval_coalesce ev1 s c es = (s', r) -> r <> Fuel -> eval_coalesce ev2 s c es = (s', r).
  Proof.
    induction es as [|e es IH]; intros s c s' r H Hr; cbn [eval_coalesce] in *; [exact H|].
    split_call H (ev1 s c e) (ev_le_app s c e).
    destruct a; try exact H. apply IH; assumption.
  Qed.

  Lemma eval_select_case_le es : forall s c i s' r,
    eval_select_case ev1 s c es i = (s', r) -> r <> Fuel -> eval_select_case ev2 s c es i = (s', r).
  Proof.
    induction es as [|e es IH]; intros s c i s' r H Hr; cbn [eval_select_case] in *; [exact H|].
    split_call H (ev1 s c e) (ev_le_app s c e).
    destruct (truthy a) as [[|]| | |]; try close H. apply IH; assumption.
  Qed.

  Lemma through_le ops : forall s x s' (r : res (option val)),
    through ev1 s x ops = (s', r) -> r <> Fuel -> through ev2 s x ops = (s', r).
  Proof.
    induction ops as [|o ops IH]; intros s x s' r H Hr; cbn [through] in *; [exact H|].
    destruct o as [body cap|body cap|k].
    - split_call H (invoke ev1 s body cap [x] []) (invoke_le s body cap [x] []). apply IH; assumption.
    - split_call H (invoke ev1 s body cap [x] []) (invoke_le s body cap [x] []).
      destruct (truthy a) as [[|]| | |]; try close H. apply IH; assumption.
    - destruct (dot_kw x k); try close H. apply IH; assumption.
  Qed.

  Lemma force_le src : forall s ops s' (r : res (list val)),
    force ev1 s src ops = (s', r) -> r <> Fuel -> force ev2 s src ops = (s', r).
  Proof.
    induction src as [|x src IH]; intros s ops s' r H Hr; cbn [force] in *; [exact H|].
    split_call H (through ev1 s x ops) (through_le ops s x).
    split_call H (force ev1 s0 src ops) (IH s0 ops). exact H.
  Qed.

  Lemma force_first_le src : forall s ops s' (r : res (option val)),
    force_first ev1 s src ops = (s', r) -> r <> Fuel -> force_first ev2 s src ops = (s', r).
  Proof.
    induction src as [|x src IH]; intros s ops s' r H Hr; cbn [force_first] in *; [exact H|].
    split_call H (through ev1 s x ops) (through_le ops s x).
    destruct a; [exact H|]. apply IH; assumption.
  Qed.

  Lemma force_search_le src : forall want s ops pred s' (r : res bool),
    force_search ev1 want s src ops pred = (s', r) -> r <> Fuel -> force_search ev2 want s src ops pred = (s', r).
  Proof.
    induction src as [|x src IH]; intros want s ops pred s' r H Hr; cbn [force_search] in *; [exact H|].
    split_call H (through ev1 s x ops) (through_le ops s x).
    destruct a as [y|]; [|apply IH; assumption].
    destruct pred as [[body cap]|].
    - split_call H (invoke ev1 s0 body cap [y] []) (invoke_le s0 body cap [y] []).
      destruct (truthy a) as [b| | |]; try close H.
      destruct (Bool.eqb b want); [exact H|]. apply IH; assumption.
    - destruct (if want then Ok true else truthy y) as [b| | |]; try close H.
      destruct (Bool.eqb b want); [exact H|]. apply IH; assumption.
  Qed.

  Ltac mstep H :=
    match type of H with
    | context [ev1 ?s ?c ?e] => split_call H (ev1 s c e) (ev_le_app s c e)
    | context [eval_seq ev1 ?s ?c ?es] => split_call H (eval_seq ev1 s c es) (eval_seq_le es s c)
    | context [force ev1 ?s ?src ?ops] => split_call H (force ev1 s src ops) (force_le src s ops)
    | context [force_first ev1 ?s ?src ?ops] => split_call H (force_first ev1 s src ops) (force_first_le src s ops)
    | context [force_search ev1 ?w ?s ?src ?ops ?p] =>
        split_call H (force_search ev1 w s src ops p) (force_search_le src w s ops p)
    | context [alloc ?s ?r] => destruct (alloc s r)
    | context [match ?x with _ => _ end] => destruct x
    | context [if ?b then _ else _] => destruct b
    end.

  Lemma meth_le s c rv name args s' r :
    meth ev1 s c rv name args = (s', r) -> r <> Fuel -> meth ev2 s c rv name args = (s', r).
  Proof.
    unfold meth. intros H Hr.
    repeat match type of H with (if ?b then _ else _) = _ => destruct b end;
      repeat (first [ exact H | apply Hle; assumption | mstep H ]).
  Qed.
End Mono.

Lemma ev_le_refl ev : ev_le ev ev.
Proof. intros s c e s' r H _. exact H. Qed.
Lemma ev_le_trans a b c : ev_le a b -> ev_le b c -> ev_le a c.
Proof. intros H1 H2 s k e s' r H Hr. apply H2; [apply H1|]; assumption. Qed.

Lemma eval_step_le f g : ev_le (eval f) (eval g) -> ev_le (eval (S f)) (eval (S g)).
Proof.
  intros IH s c e s' r H Hr. cbn [eval] in *.
  pose proof (ev_le_app _ _ IH) as A.
  destruct e.
  - exact H.
  - exact H.
  - exact H.
  - destruct (eval_seq (eval f) s c es) as [s1 r1] eqn:E.
    destruct r1; try (rewrite (eval_seq_le _ _ IH _ _ _ _ _ E) by discriminate; exact H).
    exfalso; inversion H; subst; congruence.
  - apply (eval_map_le _ _ IH); assumption.
  - destruct (eval f s c e1) as [s1 r1] eqn:E1.
    destruct r1; try (rewrite (A _ _ _ _ _ E1) by discriminate; try exact H);
      try (exfalso; inversion H; subst; congruence).
    destruct (eval f s1 c e2) as [s2 r2] eqn:E2.
    destruct r2; try (rewrite (A _ _ _ _ _ E2) by discriminate; exact H).
    exfalso; inversion H; subst; congruence.
  - destruct o;
      (destruct (eval f s c e1) as [s1 r1] eqn:E1;
       destruct r1 as [av| | |]; try (rewrite (A _ _ _ _ _ E1) by discriminate; try exact H);
       try (exfalso; inversion H; subst; congruence));
      try (destruct (eval f s1 c e2) as [s2 r2] eqn:E2;
           destruct r2; try (rewrite (A _ _ _ _ _ E2) by discriminate; exact H);
           exfalso; inversion H; subst; congruence).
    + destruct (truthy av) as [[|]| | |]; try exact H. apply IH; assumption.
    + destruct (truthy av) as [[|]| | |]; try exact H. apply IH; assumption.
  - destruct (eval f s c e) as [s1 r1] eqn:E1.
    destruct r1; try (rewrite (A _ _ _ _ _ E1) by discriminate; exact H).
    exfalso; inversion H; subst; congruence.
  - destruct (eval f s c e) as [s1 r1] eqn:E1.
    destruct r1; try (rewrite (A _ _ _ _ _ E1) by discriminate; exact H).
    exfalso; inversion H; subst; congruence.
  - destruct (eval f s c e) as [s1 r1] eqn:E1.
    destruct r1; try (rewrite (A _ _ _ _ _ E1) by discriminate; try exact H);
      try (exfalso; inversion H; subst; congruence).
    apply (meth_le _ _ IH); assumption.
  - destruct (eval f s c e) as [s1 r1] eqn:E1.
    destruct r1 as [av| | |]; try (rewrite (A _ _ _ _ _ E1) by discriminate; try exact H);
      try (exfalso; inversion H; subst; congruence).
    destruct av; try exact H; apply (meth_le _ _ IH); assumption.
  - destruct (eval_seq (eval f) s c pos) as [s1 r1] eqn:E1.
    destruct r1; try (rewrite (eval_seq_le _ _ IH _ _ _ _ _ E1) by discriminate; try exact H);
      try (exfalso; inversion H; subst; congruence).
    destruct (eval_kw (eval f) s1 c kw) as [s2 r2] eqn:E2.
    destruct r2; try (rewrite (eval_kw_le _ _ IH _ _ _ _ _ E2) by discriminate; exact H).
    exfalso; inversion H; subst; congruence.
  - destruct (eval_seq (eval f) s c es) as [s1 r1] eqn:E1.
    destruct r1; try (rewrite (eval_seq_le _ _ IH _ _ _ _ _ E1) by discriminate; exact H).
    exfalso; inversion H; subst; congruence.
  - exact H.
  - destruct (lookup_func (heap s) c name) as [[body cap]|]; [|exact H].
    destruct (eval_seq (eval f) s c args) as [s1 r1] eqn:E1.
    destruct r1; try (rewrite (eval_seq_le _ _ IH _ _ _ _ _ E1) by discriminate; try exact H);
      try (exfalso; inversion H; subst; congruence).
    destruct (eval_kw (eval f) s1 c kw) as [s2 r2] eqn:E2.
    destruct r2; try (rewrite (eval_kw_le _ _ IH _ _ _ _ _ E2) by discriminate; try exact H);
      try (exfalso; inversion H; subst; congruence).
    apply (invoke_le _ _ IH); assumption.
  - destruct (eval f s c e) as [s1 r1] eqn:E1.
    destruct r1; try (rewrite (A _ _ _ _ _ E1) by discriminate; exact H).
    exfalso; inversion H; subst; congruence.
  - apply (eval_switch_le _ _ IH); assumption.
  - apply (eval_coalesce_le _ _ IH); assumption.
  - destruct (eval f s c e1) as [s1 r1] eqn:E1.
    destruct r1 as [av| | |]; try (rewrite (A _ _ _ _ _ E1) by discriminate; try exact H);
      try (exfalso; inversion H; subst; congruence).
    destruct av; try exact H. apply IH; assumption.
  - apply (eval_select_case_le _ _ IH); assumption.
Qed.

Lemma eval_le_S f : ev_le (eval f) (eval (S f)).
Proof.
  induction f as [|f IH].
  - intros s c e s' r H Hr. cbn in H. inversion H; subst. congruence.
  - apply eval_step_le. exact IH.
Qed.

Lemma eval_fuel_mono f f' : f <= f' -> ev_le (eval f) (eval f').
Proof.
  induction 1 as [|f' _ IH]; [apply ev_le_refl|].
  eapply ev_le_trans; [exact IH|apply eval_le_S].
Qed.

(* ---- finalisation ---- *)
Section FinMono.
  Variables ev1 ev2 : st -> nat -> expr -> st * res val.
  Variables fin1 fin2 : st -> val -> st * res val.
  Hypothesis Hev : ev_le ev1 ev2.
  Hypothesis Hfin : fin_le fin1 fin2.

  Lemma fin_list_le l : forall s s' (r : res (list val)),
    fin_list fin1 s l = (s', r) -> r <> Fuel -> fin_list fin2 s l = (s', r).
  Proof.
    induction l as [|x l IH]; intros s s' r H Hr; cbn [fin_list] in *; [exact H|].
    destruct (fin1 s x) as [s1 r1] eqn:E1.
    destruct r1; try (rewrite (Hfin _ _ _ _ E1) by discriminate; try exact H);
      try (exfalso; inversion H; subst; congruence).
    destruct (fin_list fin1 s1 l) as [s2 r2] eqn:E2.
    destruct r2; try (rewrite (IH _ _ _ E2) by discriminate; exact H).
    exfalso; inversion H; subst; congruence.
  Qed.

  Lemma fin_dict_le l : forall s s' (r : res (list (val * val))),
    fin_dict fin1 s l = (s', r) -> r <> Fuel -> fin_dict fin2 s l = (s', r).
  Proof.
    induction l as [|[k x] l IH]; intros s s' r H Hr; cbn [fin_dict] in *; [exact H|].
    destruct (fin1 s x) as [s1 r1] eqn:E1.
    destruct r1; try (rewrite (Hfin _ _ _ _ E1) by discriminate; try exact H);
      try (exfalso; inversion H; subst; congruence).
    destruct (fin_dict fin1 s1 l) as [s2 r2] eqn:E2.
    destruct r2; try (rewrite (IH _ _ _ E2) by discriminate; exact H).
    exfalso; inversion H; subst; congruence.
  Qed.

  Lemma fin_iter_le l : forall s ops s' (r : res (list val)),
    fin_iter ev1 fin1 s l ops = (s', r) -> r <> Fuel -> fin_iter ev2 fin2 s l ops = (s', r).
  Proof.
    induction l as [|x l IH]; intros s ops s' r H Hr; cbn [fin_iter] in *; [exact H|].
    destruct (through ev1 s x ops) as [s1 r1] eqn:E1.
    destruct r1 as [[y|]| | |]; try (rewrite (through_le _ _ Hev _ _ _ _ _ E1) by discriminate; try exact H);
      try (exfalso; inversion H; subst; congruence).
    - destruct (fin1 s1 y) as [s2 r2] eqn:E2.
      destruct r2; try (rewrite (Hfin _ _ _ _ E2) by discriminate; try exact H);
        try (exfalso; inversion H; subst; congruence).
      destruct (fin_iter ev1 fin1 s2 l ops) as [s3 r3] eqn:E3.
      destruct r3; try (rewrite (IH _ _ _ _ E3) by discriminate; exact H).
      exfalso; inversion H; subst; congruence.
    - apply IH; assumption.
  Qed.
End FinMono.

Lemma finalize_step_le f g :
  ev_le (eval f) (eval g) -> fin_le (finalize f) (finalize g) -> fin_le (finalize (S f)) (finalize (S g)).
Proof.
  intros He IH s v s' r H Hr. cbn [finalize] in *.
  destruct v; try exact H.
  - destruct (fin_list (finalize f) s l) as [s1 r1] eqn:E.
    destruct r1; try (rewrite (fin_list_le _ _ IH _ _ _ _ E) by discriminate; exact H).
    exfalso; inversion H; subst; congruence.
  - destruct (fin_dict (finalize f) s kvs) as [s1 r1] eqn:E.
    destruct r1; try (rewrite (fin_dict_le _ _ IH _ _ _ _ E) by discriminate; exact H).
    exfalso; inversion H; subst; congruence.
  - destruct (fin_iter (eval f) (finalize f) s src ops) as [s1 r1] eqn:E.
    destruct r1; try (rewrite (fin_iter_le _ _ _ _ He IH _ _ _ _ _ E) by discriminate; exact H).
    exfalso; inversion H; subst; congruence.
Qed.

Lemma finalize_le_S f : fin_le (finalize f) (finalize (S f)).
Proof.
  induction f as [|f IH].
  - intros s v s' r H Hr. cbn in H. inversion H; subst. congruence.
  - apply finalize_step_le; [apply eval_le_S|exact IH].
Qed.

Lemma finalize_fuel_mono f f' : f <= f' -> fin_le (finalize f) (finalize f').
Proof.
  induction 1 as [|f' _ IH]; [intros s v s' r H _; exact H|].
  intros s v s' r H Hr. apply finalize_le_S; [apply IH|]; assumption.
Qed.

(* whole statements *)
Lemma run_fuel_mono f f' data e lg r :
  f <= f' -> run f data e = (lg, r) -> r <> Fuel -> run f' data e = (lg, r).
Proof.
  intros Hf H Hr. unfold run in *.
  destruct (eval f (root data) 0 e) as [s1 r1] eqn:E1.
  destruct r1 as [v| | |].
  - rewrite (eval_fuel_mono _ _ Hf _ _ _ _ _ E1) by discriminate.
    destruct (finalize f s1 v) as [s2 r2] eqn:E2. inversion H; subst.
    rewrite (finalize_fuel_mono _ _ Hf _ _ _ _ E2) by assumption. reflexivity.
  - rewrite (eval_fuel_mono _ _ Hf _ _ _ _ _ E1) by discriminate. exact H.
  - rewrite (eval_fuel_mono _ _ Hf _ _ _ _ _ E1) by discriminate. exact H.
  - inversion H; subst. congruence.
Qed.

Lemma evaluate_fuel_mono f f' host c data e s' r :
  f <= f' -> evaluate f host c data e = (s', r) -> r <> Fuel -> evaluate f' host c data e = (s', r).
Proof.
  intros Hf H Hr. unfold evaluate in *.
  destruct (eval f _ c e) as [s1 r1] eqn:E1.
  destruct r1 as [v| | |].
  - rewrite (eval_fuel_mono _ _ Hf _ _ _ _ _ E1) by discriminate.
    apply (finalize_fuel_mono _ _ Hf); assumption.
  - rewrite (eval_fuel_mono _ _ Hf _ _ _ _ _ E1) by discriminate. exact H.
  - rewrite (eval_fuel_mono _ _ Hf _ _ _ _ _ E1) by discriminate. exact H.
  - inversion H; subst. congruence.
Qed.

(* two runs that both terminate agree, whatever their fuel *)
Lemma run_deterministic f g data e lg1 r1 lg2 r2 :
  run f data e = (lg1, r1) -> run g data e = (lg2, r2) -> r1 <> Fuel -> r2 <> Fuel -> lg1 = lg2 /\ r1 = r2.
Proof.
  intros H1 H2 N1 N2.
  destruct (Nat.le_ge_cases f g) as [L|L].
  - pose proof (run_fuel_mono _ _ _ _ _ _ L H1 N1) as H. rewrite H in H2. inversion H2; auto.
  - pose proof (run_fuel_mono _ _ _ _ _ _ L H2 N2) as H. rewrite H in H1. inversion H1; auto.
Qed.
