(* Convention-aware lookup refines the flattened-layers specification: each plain context of a layer is asked for the
   name rewritten by ITS OWN convention; composite contexts contribute nothing of their own. *)
From Coq Require Import List ZArith Bool Arith Lia.
From YV Require Import Common.Corr Common.CorrFacts Model.Contexts Model.ContextsConv Lemmas.ContextsSpec.
Import ListNotations.

Definition plain_has_key (s : store) (k : str) (f : fdef) (p : pid) : Prop :=
  In f (pfuncs (sget s p)) /\ fst f = k.

Lemma get_functions_cv_spec cv s n c f :
  In f (fst (get_functions_cv cv s c n))
  <-> exists p, In p (sources c) /\ plain_has_key s (cv p (rstrip_us n)) f p.
Proof.
  induction c as [p par _|ms par IH _|l par IH _] using ctx_ind'.
  - cbn. rewrite filter_In, str_eqb_spec. unfold plain_has_key.
    split; [intro H; exists p; tauto|intros [q [[<-|[]] H]]; exact H].
  - rewrite sources_multi. cbn.
    enough (G : forall acc ex, In f (fst ((fix go (l : list ctx) (acc : list fdef) (ex : bool) {struct l} : list fdef * bool :=
                 match l with [] => (acc, ex)
                 | m :: r => let '(fs, e) := get_functions_cv cv s m n in go r (funion fs acc) (ex || e) end) ms acc ex))
               <-> (exists p, In p (flat_map sources ms) /\ plain_has_key s (cv p (rstrip_us n)) f p) \/ In f acc).
    { rewrite G. cbn. tauto. }
    induction IH as [|m r Hm _ IHr]; intros acc ex; cbn.
    + split; [auto|]. intros [[p [[] _]]|H]; exact H.
    + destruct (get_functions_cv cv s m n) as [fs e] eqn:E. rewrite IHr, funion_In. cbn in Hm. rewrite Hm. split.
      * intros [[p [Hp Hk]]|[[p [Hp Hk]]|H]]; auto; left; exists p; rewrite in_app_iff; auto.
      * intros [[p [Hp Hk]]|H]; auto. rewrite in_app_iff in Hp. destruct Hp as [Hp|Hp]; [right; left|left]; exists p; auto.
  - cbn. exact IH.
Qed.

Lemma get_functions_cv_excl cv s n c :
  snd (get_functions_cv cv s c n) = existsb (fun p => smem (cv p (rstrip_us n)) (pexcl (sget s p))) (sources c).
Proof.
  induction c as [p par _|ms par IH _|l par IH _] using ctx_ind'.
  - cbn. rewrite orb_false_r. reflexivity.
  - rewrite sources_multi. cbn.
    enough (G : forall acc ex, snd ((fix go (l : list ctx) (acc : list fdef) (ex : bool) {struct l} : list fdef * bool :=
                 match l with [] => (acc, ex)
                 | m :: r => let '(fs, e) := get_functions_cv cv s m n in go r (funion fs acc) (ex || e) end) ms acc ex)
               = ex || existsb (fun p => smem (cv p (rstrip_us n)) (pexcl (sget s p))) (flat_map sources ms)).
    { rewrite G. reflexivity. }
    induction IH as [|m r Hm _ IHr]; intros acc ex; cbn.
    + rewrite orb_false_r. reflexivity.
    + destruct (get_functions_cv cv s m n) as [fs e] eqn:E. rewrite IHr, existsb_app. cbn in Hm. rewrite Hm.
      rewrite orb_assoc. reflexivity.
  - cbn. exact IH.
Qed.

Lemma collect_functions_cv_spec cv s n c :
  collect_functions_cv cv s c n = collect_spec (map (fun c' => get_functions_cv cv s c' n) (chain c)).
Proof.
  induction c as [p par IHp|ms par _ IHp|l par _ IHp] using ctx_ind';
    cbn [collect_functions_cv chain map collect_spec];
    match goal with |- context [get_functions_cv cv s ?c n] => destruct (get_functions_cv cv s c n) as [fs ex] end;
    destruct ex; try reflexivity;
    destruct par as [q|]; cbn in IHp; try rewrite IHp; reflexivity.
Qed.

(* with the identity conversion (no convention anywhere, or use_convention=False) this is the plain lookup *)
Lemma get_functions_cv_id s n c : get_functions_cv (fun _ k => k) s c n = get_functions s c n.
Proof.
  induction c as [p par _|ms par IH _|l par IH _] using ctx_ind'.
  - reflexivity.
  - cbn. generalize (@nil fdef) false.
    induction IH as [|m r Hm _ IHr]; intros acc ex; cbn; [reflexivity|].
    rewrite Hm. destruct (get_functions s m n) as [fs e]. apply IHr.
  - cbn. exact IH.
Qed.

Lemma collect_functions_cv_id s n c : collect_functions_cv (fun _ k => k) s c n = collect_functions s c n.
Proof.
  rewrite collect_functions_cv_spec, collect_functions_spec. f_equal.
  apply map_ext. intro c'. apply get_functions_cv_id.
Qed.

(* the lookup depends on the conversion only through the plain contexts of the chain that is searched: the
   conventions attached to anything else (composite contexts included: they have no pid) are irrelevant *)
Lemma get_functions_cv_ext cv cv' s n c :
  (forall p, In p (sources c) -> cv p (rstrip_us n) = cv' p (rstrip_us n)) ->
  get_functions_cv cv s c n = get_functions_cv cv' s c n.
Proof.
  induction c as [p par _|ms par IH _|l par IH _] using ctx_ind'; intro H.
  - cbn. rewrite (H p); [reflexivity|cbn; auto].
  - rewrite sources_multi in H. cbn. generalize (@nil fdef) false.
    induction IH as [|m r Hm _ IHr]; intros acc ex; cbn; [reflexivity|].
    rewrite Hm by (intros p Hp; apply H; cbn; rewrite in_app_iff; auto).
    destruct (get_functions_cv cv' s m n) as [fs e]. apply IHr.
    intros p Hp; apply H; cbn; rewrite in_app_iff; auto.
  - cbn. apply IH. exact H.
Qed.
