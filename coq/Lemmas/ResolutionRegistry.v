(* finite obligations over the regenerated registry of the standard library (Gen/Registry.v) and
   the binding theorems instantiated for every standard-library definition *)
From Coq Require Import List ZArith Bool Arith Lia.
From YV Require Import Common.Corr Model.Resolution Gen.Registry
                       Lemmas.ResolutionBind Lemmas.ResolutionRank Lemmas.ResolutionMap Lemmas.ResolutionWf.
Import ListNotations.

Lemma registry_wf : forall f, In f reg_fdefs -> wf_params_b (fparams f) = true.
Proof. apply forallb_forall. vm_compute. reflexivity. Qed.

Fixpoint fids_from (i : nat) (l : list fdef) : bool :=
  match l with [] => true | f :: r => Z.eqb (fid f) (Z.of_nat i) && fids_from (S i) r end.
Lemma registry_fids : fids_from 0 reg_fdefs = true.
Proof. vm_compute. reflexivity. Qed.

Lemma registry_spellings f : In f reg_fdefs ->
  forall (s : assignment) k1 k2, (forall n, s n <> Some ANoValue) -> k1 <= nvis (fparams f) -> k2 <= nvis (fparams f) ->
  get_delegate reg_sub (fparams f) (spell_args (fparams f) s k1) (spell_kw (fparams f) s k1) =
  get_delegate reg_sub (fparams f) (spell_args (fparams f) s k2) (spell_kw (fparams f) s k2) /\
  (precheck_guard reg_sub (fparams f) s ->
   (map_args reg_sub (fparams f) (spell_args (fparams f) s k1) (spell_kw (fparams f) s k1) <> None <->
    map_args reg_sub (fparams f) (spell_args (fparams f) s k2) (spell_kw (fparams f) s k2) <> None)).
Proof.
  intros Hf s k1 k2 Hs K1 K2. destruct (wf_params_b_spec _ (registry_wf f Hf)) as [N [P C]].
  pose proof (rank_inj_of_positions _ P) as R. split.
  - apply spellings_bind_equal; assumption.
  - intro G. apply spellings_map_equal_guarded; assumption.
Qed.
