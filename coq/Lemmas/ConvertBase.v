(* Induction principle for the nested value type, unfolding equations for
   convert_output, and the list lemmas (mapM, dict_of, set_of) the C10 proofs use. *)
From Coq Require Import List ZArith Bool Lia.
From YV Require Import Common.Corr Model.Convert.
Import ListNotations.

(* ---- induction over values (the generated principle ignores the nesting) ---- *)
Section ValInd.
  Variable P : val -> Prop.
  Hypothesis HNull : P VNull.
  Hypothesis HBool : forall b, P (VBool b).
  Hypothesis HInt : forall z, P (VInt z).
  Hypothesis HFloat : forall t, P (VFloat t).
  Hypothesis HStr : forall s, P (VStr s).
  Hypothesis HTuple : forall l, Forall P l -> P (VTuple l).
  Hypothesis HList : forall l, Forall P l -> P (VList l).
  Hypothesis HFDict : forall kvs, Forall (fun kv => P (fst kv) /\ P (snd kv)) kvs -> P (VFDict kvs).
  Hypothesis HDict : forall kvs, Forall (fun kv => P (fst kv) /\ P (snd kv)) kvs -> P (VDict kvs).
  Hypothesis HFSet : forall l, Forall P l -> P (VFSet l).
  Hypothesis HSet : forall l, Forall P l -> P (VSet l).
  Hypothesis HIter : forall l, Forall P l -> P (VIter l).
  Hypothesis HView : forall k kvs, Forall (fun kv => P (fst kv) /\ P (snd kv)) kvs -> P (VView k kvs).
  Hypothesis HOrd : forall l, Forall P l -> P (VOrd l).

  Fixpoint val_induction (v : val) : P v :=
    let go := fix go (l : list val) : Forall P l :=
      match l with
      | [] => Forall_nil _
      | x :: r => Forall_cons _ (val_induction x) (go r)
      end in
    let gokv := fix gokv (l : list (val * val)) : Forall (fun kv => P (fst kv) /\ P (snd kv)) l :=
      match l with
      | [] => Forall_nil _
      | kv :: r => Forall_cons _ (conj (val_induction (fst kv)) (val_induction (snd kv))) (gokv r)
      end in
    match v with
    | VNull => HNull
    | VBool b => HBool b
    | VInt z => HInt z
    | VFloat t => HFloat t
    | VStr s => HStr s
    | VTuple l => HTuple l (go l)
    | VList l => HList l (go l)
    | VFDict kvs => HFDict kvs (gokv kvs)
    | VDict kvs => HDict kvs (gokv kvs)
    | VFSet l => HFSet l (go l)
    | VSet l => HSet l (go l)
    | VIter l => HIter l (go l)
    | VView k kvs => HView k kvs (gokv kvs)
    | VOrd l => HOrd l (go l)
    end.
End ValInd.

(* ---- unfolding equations ------------------------------------------------------ *)
Definition conv_pair (o : opts) (kv : val * val) : res (val * val) :=
  match convert_output o (fst kv) with
  | Err e => Err e
  | Ok ck => match convert_output o (snd kv) with Err e => Err e | Ok cv => Ok (ck, cv) end
  end.
Definition conv_item (o : opts) (kv : val * val) : res val :=
  match conv_pair o kv with Err e => Err e | Ok p => Ok (seq_out o true [fst p; snd p]) end.

Definition co_mapping o kvs :=
  match mapM (conv_pair o) kvs with Err e => Err e | Ok ps => build_dict ps end.
Definition co_setlike o l :=
  match mapM (convert_output o) l with
  | Err e => Err e
  | Ok xs => if s2l o then Ok (VList xs) else build_set xs
  end.
Definition co_listlike o (tuple_in : bool) l :=
  match mapM (convert_output o) l with Err e => Err e | Ok xs => Ok (seq_out o tuple_in xs) end.

Lemma co_fdict o kvs : convert_output o (VFDict kvs) = co_mapping o kvs. Proof. reflexivity. Qed.
Lemma co_dict o kvs : convert_output o (VDict kvs) = co_mapping o kvs. Proof. reflexivity. Qed.
Lemma co_fset o l : convert_output o (VFSet l) = co_setlike o l. Proof. reflexivity. Qed.
Lemma co_set o l : convert_output o (VSet l) = co_setlike o l. Proof. reflexivity. Qed.
Lemma co_tuple o l : convert_output o (VTuple l) = co_listlike o true l. Proof. reflexivity. Qed.
Lemma co_list o l : convert_output o (VList l) = co_listlike o false l. Proof. reflexivity. Qed.
Lemma co_iter o l : convert_output o (VIter l) = co_listlike o false l. Proof. reflexivity. Qed.
Lemma co_ord o l : convert_output o (VOrd l) = co_listlike o false l. Proof. reflexivity. Qed.
Lemma co_keys o kvs : convert_output o (VView KKeys kvs) =
  match mapM (fun kv => convert_output o (fst kv)) kvs with Err e => Err e | Ok xs => Ok (VList xs) end.
Proof. reflexivity. Qed.
Lemma co_values o kvs : convert_output o (VView KValues kvs) =
  match mapM (fun kv => convert_output o (snd kv)) kvs with Err e => Err e | Ok xs => Ok (VList xs) end.
Proof. reflexivity. Qed.
Lemma co_items o kvs : convert_output o (VView KItems kvs) =
  match mapM (conv_item o) kvs with Err e => Err e | Ok xs => Ok (VList xs) end.
Proof. reflexivity. Qed.

Lemma co_scalar o v : is_scalar v = true -> convert_output o v = Ok v.
Proof. destruct v; simpl; intro H; try discriminate H; reflexivity. Qed.
Lemma ci_scalar v : is_scalar v = true -> convert_input v = v.
Proof. destruct v; simpl; intro H; try discriminate H; reflexivity. Qed.
Lemma scalar_hashable v : is_scalar v = true -> hashable v = true.
Proof. destruct v; simpl; intro H; try discriminate H; reflexivity. Qed.
Lemma scalar_key_ok o v : is_scalar v = true -> key_ok o v = true.
Proof. destruct v; simpl; intro H; try discriminate H; reflexivity. Qed.

(* ---- mapM ----------------------------------------------------------------------- *)
Section MapMFacts.
  Context {A B : Type}.
  Variable f : A -> res B.

  Lemma mapM_Forall2 : forall l ys, mapM f l = Ok ys -> Forall2 (fun x y => f x = Ok y) l ys.
  Proof.
    induction l as [|x r IH]; intros ys H; simpl in H.
    - injection H as <-. constructor.
    - destruct (f x) as [y|e] eqn:Ex; [|discriminate H].
      destruct (mapM f r) as [ys'|e] eqn:Er; [|discriminate H].
      injection H as <-. constructor; [exact Ex | apply IH; reflexivity].
  Qed.

  Lemma Forall2_mapM : forall l ys, Forall2 (fun x y => f x = Ok y) l ys -> mapM f l = Ok ys.
  Proof.
    intros l ys H. induction H as [|x y l ys Hxy _ IH]; simpl; [reflexivity|].
    rewrite Hxy, IH. reflexivity.
  Qed.

  Lemma mapM_ok_iff : forall l, (exists ys, mapM f l = Ok ys) <-> Forall (fun x => exists y, f x = Ok y) l.
  Proof.
    induction l as [|x r IH]; simpl.
    - split; [constructor | intros _; eexists; reflexivity].
    - split.
      + intros [ys H]. destruct (f x) as [y|e] eqn:Ex; [|discriminate H].
        destruct (mapM f r) as [ys'|e] eqn:Er; [|discriminate H].
        constructor; [exists y; exact Ex | apply IH; eexists; reflexivity].
      + intros H. inversion H as [|? ? [y Hy] Hr]; subst.
        apply IH in Hr. destruct Hr as [ys Hys]. rewrite Hy, Hys. eexists; reflexivity.
  Qed.

  Lemma mapM_map_ok : forall (h : A -> B) l, Forall (fun x => f x = Ok (h x)) l -> mapM f l = Ok (map h l).
  Proof.
    intros h l H. induction H as [|x l Hx _ IH]; simpl; [reflexivity|]. rewrite Hx, IH. reflexivity.
  Qed.
End MapMFacts.

Lemma mapM_map {A B C} (f : B -> res C) (g : A -> B) l : mapM f (map g l) = mapM (fun x => f (g x)) l.
Proof. induction l as [|x r IH]; simpl; [reflexivity|]. rewrite IH. reflexivity. Qed.

Lemma mapM_ext {A B} (f g : A -> res B) l : (forall x, f x = g x) -> mapM f l = mapM g l.
Proof. intro H. induction l as [|x r IH]; simpl; [reflexivity|]. rewrite H, IH. reflexivity. Qed.

Lemma Forall2_Forall_r {A B} (R : A -> B -> Prop) (Q : B -> Prop) l ys :
  Forall2 R l ys -> Forall (fun x => forall y, R x y -> Q y) l -> Forall Q ys.
Proof.
  intro H. induction H as [|x y l ys Hxy _ IH]; intro F; [constructor|].
  inversion F as [|? ? Hx Hr]; subst. constructor; [apply Hx; exact Hxy | apply IH; exact Hr].
Qed.

Lemma forallb_Forall2_eq {A B} (p : A -> bool) (q : B -> bool) l ys :
  Forall2 (fun x y => q y = p x) l ys -> forallb q ys = forallb p l.
Proof. intro H. induction H as [|x y l ys Hxy _ IH]; simpl; [reflexivity|]. rewrite Hxy, IH. reflexivity. Qed.

(* ---- dict_of / set_of preserve element-wise facts ---------------------------------- *)
Section Preserve.
  Variables KA VA : val -> Prop.
  Let Q := fun p : val * val => KA (fst p) /\ VA (snd p).

  Lemma dict_set_Forall acc k v : Forall Q acc -> KA k -> VA v -> Forall Q (dict_set acc k v).
  Proof.
    intros H Hk Hv. induction H as [|kv r Hkv Hr IH]; simpl.
    - constructor; [split; assumption | constructor].
    - destruct (py_eqb (fst kv) k).
      + constructor; [split; [apply Hkv | exact Hv] | exact Hr].
      + constructor; [exact Hkv | exact IH].
  Qed.

  Lemma dict_of_Forall ps : Forall Q ps -> Forall Q (dict_of ps).
  Proof.
    unfold dict_of. assert (G : forall acc, Forall Q acc -> Forall Q ps ->
      Forall Q (fold_left (fun acc p => dict_set acc (fst p) (snd p)) ps acc)).
    { induction ps as [|p r IH]; intros acc Ha Hp; simpl; [exact Ha|].
      inversion Hp as [|? ? [Hk Hv] Hr]; subst. apply IH; [|exact Hr].
      apply dict_set_Forall; assumption. }
    intro H. apply G; [constructor | exact H].
  Qed.

  Lemma set_of_Forall xs : Forall KA xs -> Forall KA (set_of xs).
  Proof.
    unfold set_of. assert (G : forall acc, Forall KA acc -> Forall KA xs -> Forall KA (fold_left set_add xs acc)).
    { induction xs as [|x r IH]; intros acc Ha Hx; simpl; [exact Ha|].
      inversion Hx as [|? ? H1 Hr]; subst. apply IH; [|exact Hr].
      unfold set_add. destruct (existsb _ acc); [exact Ha|].
      apply Forall_app; split; [exact Ha | constructor; [exact H1 | constructor]]. }
    intro H. apply G; [constructor | exact H].
  Qed.
End Preserve.

(* ---- without equal keys / elements, dict(...) and set(...) keep the sequence ---------- *)
Lemma dict_set_fresh acc k v :
  forallb (fun kv => negb (py_eqb (fst kv) k)) acc = true -> dict_set acc k v = acc ++ [(k, v)].
Proof.
  induction acc as [|kv r IH]; simpl; intro H; [reflexivity|].
  apply andb_true_iff in H. destruct H as [H1 H2].
  destruct (py_eqb (fst kv) k); [discriminate H1|]. rewrite IH by exact H2. reflexivity.
Qed.

Lemma dict_of_nodup ps : nodupb (map fst ps) = true -> dict_of ps = ps.
Proof.
  unfold dict_of.
  assert (G : forall acc,
    forallb (fun kv => forallb (fun p => negb (py_eqb (fst kv) (fst p))) ps) acc = true ->
    nodupb (map fst ps) = true ->
    fold_left (fun acc p => dict_set acc (fst p) (snd p)) ps acc = acc ++ ps).
  { induction ps as [|p r IH]; intros acc Ha Hn; simpl.
    - rewrite app_nil_r. reflexivity.
    - simpl in Hn. apply andb_true_iff in Hn. destruct Hn as [Hp Hn].
      rewrite dict_set_fresh.
      + rewrite IH; [rewrite <- app_assoc; destruct p; reflexivity | | exact Hn].
        rewrite forallb_app. apply andb_true_iff. split.
        * rewrite forallb_forall in Ha |- *. intros kv Hin. specialize (Ha kv Hin).
          simpl in Ha. apply andb_true_iff in Ha. apply Ha.
        * simpl. rewrite andb_true_r.
          rewrite forallb_forall. intros q Hq.
          apply negb_true_iff in Hp. apply negb_true_iff.
          destruct (py_eqb (fst p) (fst q)) eqn:E; [|reflexivity].
          exfalso. assert (X : existsb (fun y => py_eqb (fst p) y) (map fst r) = true).
          { apply existsb_exists. exists (fst q). split; [apply in_map; exact Hq | exact E]. }
          rewrite X in Hp. discriminate Hp.
      + rewrite forallb_forall in Ha |- *. intros kv Hin. specialize (Ha kv Hin).
        simpl in Ha. apply andb_true_iff in Ha. apply Ha. }
  intro H. apply (G [] eq_refl H).
Qed.

Lemma set_of_nodup xs : nodupb xs = true -> set_of xs = xs.
Proof.
  unfold set_of.
  assert (G : forall acc,
    forallb (fun y => forallb (fun x => negb (py_eqb y x)) xs) acc = true ->
    nodupb xs = true -> fold_left set_add xs acc = acc ++ xs).
  { induction xs as [|x r IH]; intros acc Ha Hn; simpl.
    - rewrite app_nil_r. reflexivity.
    - simpl in Hn. apply andb_true_iff in Hn. destruct Hn as [Hp Hn].
      assert (F : existsb (fun y => py_eqb y x) acc = false).
      { destruct (existsb (fun y => py_eqb y x) acc) eqn:E; [|reflexivity].
        apply existsb_exists in E. destruct E as [y [Hin Hy]].
        rewrite forallb_forall in Ha. specialize (Ha y Hin). simpl in Ha.
        rewrite Hy in Ha. discriminate Ha. }
      unfold set_add at 2. rewrite F.
      rewrite IH; [rewrite <- app_assoc; reflexivity | | exact Hn].
      rewrite forallb_app. apply andb_true_iff. split.
      + rewrite forallb_forall in Ha |- *. intros y Hin. specialize (Ha y Hin).
        simpl in Ha. apply andb_true_iff in Ha. apply Ha.
      + simpl. rewrite andb_true_r. rewrite forallb_forall. intros q Hq.
        apply negb_true_iff in Hp. apply negb_true_iff.
        destruct (py_eqb x q) eqn:E; [|reflexivity].
        exfalso. assert (X : existsb (fun y => py_eqb x y) r = true).
        { apply existsb_exists. exists q. split; assumption. }
        rewrite X in Hp. discriminate Hp. }
  intro H. apply (G [] eq_refl H).
Qed.
