(* Proofs about the paths around the yaqlization gate (Model/YaqlizedPaths.v):
   keyword tokens / is_keyword and the '__' guard, the fallback paths, settings inheritance. *)
From Coq Require Import List ZArith Bool Arith Lia.
From YV Require Import Common.Corr Model.Lexer Lemmas.LexerTotal Model.Yaqlized Lemmas.YaqlizedPolicy Model.YaqlizedPaths.
Import ListNotations.
Open Scope Z_scope.

(* ------------------------------------------------------------------------------------------
   1. keyword tokens never start with '__'; utils.is_keyword agrees with the lexer
   ------------------------------------------------------------------------------------------ *)
Section Keyword.
  Variable cfg : lexcfg.

  Lemma is_keyword_no_dunder : forall w, starts_dunder w = true -> is_keyword cfg w = false.
  Proof. intros w H. unfold is_keyword. rewrite H. reflexivity. Qed.

  Lemma m_keyword_dunder_none : forall prev w, starts_dunder w = true -> m_keyword cfg prev w = MNone.
  Proof. intros prev w H. unfold m_keyword. rewrite H. reflexivity. Qed.

  Lemma is_keyword_dunder_false : forall w, is_keyword cfg w = true -> starts_dunder w = false.
  Proof.
    intros w H. destruct (starts_dunder w) eqn:E; [|reflexivity].
    rewrite (is_keyword_no_dunder w E) in H. discriminate.
  Qed.

  Lemma ident_start_w : forall c, ident_start cfg c = true -> is_w cfg c = true.
  Proof. intros c H. unfold ident_start in H. apply andb_true_iff in H. exact (proj1 H). Qed.

  Lemma kw_action_not_none : forall w n, kw_action cfg w n <> MNone.
  Proof.
    intros w n. unfold kw_action. destruct (Lexer.assoc w (op_table cfg)) as [nm|].
    - destruct (mem_text nm (tok_names cfg)); discriminate.
    - destruct (mem_text _ (tok_names cfg)); discriminate.
  Qed.

  (* the regex of t_KEYWORD_STRING matches at the start of w (this is KEYWORD_REGEX.match) iff is_keyword *)
  Lemma is_keyword_m_keyword : forall w, is_keyword cfg w = true <-> m_keyword cfg None w <> MNone.
  Proof.
    intro w. unfold is_keyword, m_keyword. destruct (starts_dunder w) eqn:Ed; cbn [negb andb].
    - split; [discriminate | intro H; exfalso; apply H; reflexivity].
    - destruct w as [|c r].
      + split; [discriminate | intro H; exfalso; apply H; reflexivity].
      + destruct (ident_start cfg c) eqn:Ei.
        * assert (B : bnd cfg None (Some c) = true).
          { unfold bnd, isw. rewrite (ident_start_w c Ei). reflexivity. }
          rewrite B. cbn [andb]. split; [intros _; apply kw_action_not_none | reflexivity].
        * rewrite andb_false_r. split; [discriminate | intro H; exfalso; apply H; reflexivity].
  Qed.

  Lemma starts_dunder_firstn : forall c r n, starts_dunder (c :: r) = false -> starts_dunder (firstn (S n) (c :: r)) = false.
  Proof.
    intros c r n H. cbn [firstn]. destruct r as [|d r']; [destruct n; reflexivity|].
    destruct n as [|n']; [reflexivity|]. cbn [firstn]. exact H.
  Qed.

  (* K_KEYWORD is not the type of a string rule and has no constant value attached *)
  Definition kw_reserved : bool :=
    negb (mem_text K_KEYWORD (map fst (op_strs cfg))) &&
    match Lexer.assoc K_KEYWORD (kwvals cfg) with None => true | Some _ => false end.

  Definition tokP (k : text) (v : tokval) : Prop :=
    k = K_KEYWORD -> forall w, v = VText w -> is_keyword cfg w = true.

  Definition resP (m : mres) : Prop := forall k n v, m = MTok k n v -> tokP k v.

  Lemma str_eqb_true : forall a b, str_eqb a b = true -> a = b.
  Proof. intros a b H. apply str_eqb_eq. exact H. Qed.

  Lemma mem_text_In : forall t l, In t l -> mem_text t l = true.
  Proof.
    intros t l. induction l as [|x r IH]; intro H; [destruct H|]. cbn [mem_text].
    destruct H as [H|H]; [subst; rewrite str_eqb_refl; reflexivity|]. rewrite (IH H). apply orb_true_r.
  Qed.

  Lemma m_ops_kind : forall l s k n v, m_ops l s = MTok k n v -> In k (map fst l).
  Proof.
    induction l as [|[nm lit] r IH]; intros s k n v H; cbn [m_ops] in H; [discriminate|].
    destruct (prefixb lit s).
    - inversion H; subst. left. reflexivity.
    - right. exact (IH _ _ _ _ H).
  Qed.

  Lemma kw_action_P : forall w n, kw_reserved = true -> is_keyword cfg w = true -> resP (kw_action cfg w n).
  Proof.
    intros w n R K k n' v H Hk w' Hv. unfold kw_reserved in R. apply andb_true_iff in R. destruct R as [_ R].
    unfold kw_action in H. destruct (Lexer.assoc w (op_table cfg)) as [nm|].
    - destruct (mem_text nm (tok_names cfg)); [|discriminate]. assert (E : w = w') by congruence. subst w'. exact K.
    - destruct (mem_text _ (tok_names cfg)); [|discriminate]. assert (Ek : match Lexer.assoc w (keywords cfg) with Some t => t | None => K_KEYWORD end = K_KEYWORD) by congruence.
      assert (Ev : match Lexer.assoc (match Lexer.assoc w (keywords cfg) with Some t => t | None => K_KEYWORD end) (kwvals cfg)
                   with Some v0 => v0 | None => VText w end = VText w') by congruence.
      rewrite Ek in Ev. destruct (Lexer.assoc K_KEYWORD (kwvals cfg)); [discriminate|].
      assert (E : w = w') by congruence. subst w'. exact K.
  Qed.

  Lemma m_keyword_P : forall prev s, kw_reserved = true -> resP (m_keyword cfg prev s).
  Proof.
    intros prev s R. unfold m_keyword. destruct (starts_dunder s) eqn:Ed; [intros k n v H; discriminate|].
    destruct s as [|c r]; [intros k n v H; discriminate|].
    destruct (bnd cfg prev (Some c) && ident_start cfg c) eqn:E; [|intros k n v H; discriminate].
    apply andb_true_iff in E. destruct E as [_ Ei].
    apply kw_action_P; [exact R|]. unfold is_keyword.
    rewrite (starts_dunder_firstn c r _ Ed). cbn [negb andb firstn]. exact Ei.
  Qed.

  Ltac kind_neq := let H := fresh "H" in let Hk := fresh "Hk" in intros ? ? ? H Hk; exfalso; inversion H; subst; discriminate.

  Lemma match_token_P : forall prev s, kw_reserved = true -> resP (match_token cfg prev s).
  Proof.
    intros prev s R. apply match_token_elim.
    - unfold m_dollar. destruct s as [|c r]; [intros ? ? ? H; discriminate|].
      destruct (c =? 36); [kind_neq | intros ? ? ? H; discriminate].
    - intros k n v H Hk. exfalso. unfold m_number in H.
      assert (NA : forall txt len, number_action cfg txt len = MTok k n v -> False).
      { intros txt len HA. unfold number_action in HA. destruct (memz 46 txt); [inversion HA; subst; discriminate|].
        destruct ((0 <? max_digits cfg) && (max_digits cfg <? Z.of_nat len)).
        - destruct (guard_number cfg); discriminate.
        - inversion HA; subst; discriminate. }
      destruct (negb (bnd cfg prev (hd_opt s))); [discriminate|].
      destruct (span (is_d cfg) s) as [|n'] eqn:En; [discriminate|].
      match type of H with (match ?X with Some _ => _ | None => _ end) = _ => destruct X end.
      + exact (NA _ _ H).
      + match type of H with (if ?B then _ else _) = _ => destruct B end; [exact (NA _ _ H) | discriminate].
    - unfold m_func. destruct s as [|c r]; [intros ? ? ? H; discriminate|].
      destruct (bnd cfg prev (Some c) && ident_start cfg c); [|intros ? ? ? H; discriminate].
      destruct (skipn (span (is_w cfg) r) r) as [|d t]; [intros ? ? ? H; discriminate|].
      destruct (d =? 40); [kind_neq | intros ? ? ? H; discriminate].
    - apply m_keyword_P. exact R.
    - unfold m_string. destruct s as [|c r]; [intros ? ? ? H; discriminate|].
      destruct (c =? 39); [|intros ? ? ? H; discriminate].
      destruct (scan_body 39 false r) as [nb|]; [|intros ? ? ? H; discriminate]. cbn [negb].
      destruct (decode_escapes cfg (firstn nb r)); [kind_neq|]. destruct (guard_escape cfg); intros ? ? ? H; discriminate.
    - unfold m_string. destruct s as [|c r]; [intros ? ? ? H; discriminate|].
      destruct (c =? 34); [|intros ? ? ? H; discriminate].
      destruct (scan_body 34 false r) as [nb|]; [|intros ? ? ? H; discriminate]. cbn [negb].
      destruct (decode_escapes cfg (firstn nb r)); [kind_neq|]. destruct (guard_escape cfg); intros ? ? ? H; discriminate.
    - unfold m_string. destruct s as [|c r]; [intros ? ? ? H; discriminate|].
      destruct (c =? 96); [|intros ? ? ? H; discriminate].
      destruct (scan_body 96 false r) as [nb|]; [kind_neq | intros ? ? ? H; discriminate].
    - intros k n v H Hk. exfalso. apply m_ops_kind in H. unfold kw_reserved in R. apply andb_true_iff in R.
      destruct R as [R _]. apply negb_true_iff in R. subst k. rewrite (mem_text_In _ _ H) in R. discriminate.
    - unfold m_literal. destruct s as [|c r]; [intros ? ? ? H; discriminate|].
      destruct (memz c (literals cfg)); [kind_neq | intros ? ? ? H; discriminate].
  Qed.

  Lemma lex_loop_tokens : kw_reserved = true -> forall fuel pos prev s,
    Forall (fun t => tokP (tk_kind t) (tk_val t)) (fst (lex_loop cfg fuel pos prev s)).
  Proof.
    intro R. induction fuel as [|f IH]; intros pos prev s; cbn [lex_loop]; [constructor|].
    destruct s as [|c r]; [constructor|].
    destruct (memz c (ignore cfg)); [apply IH|].
    destruct (match_token cfg prev (c :: r)) as [|k n v| |] eqn:EM; try (cbn [fst]; constructor).
    specialize (IH (pos + n)%nat (prev_after n prev (c :: r)) (skipn n (c :: r))).
    destruct (lex_loop cfg f (pos + n) (prev_after n prev (c :: r)) (skipn n (c :: r))) as [l e].
    cbn [fst] in *. constructor; [|exact IH]. cbn [tk_kind tk_val].
    exact (match_token_P prev (c :: r) R k n v EM).
  Qed.

  (* every KEYWORD_STRING token of every text carries a value that is_keyword accepts, hence not '__...' *)
  Lemma keyword_tokens_are_keywords : kw_reserved = true -> forall s t w,
    In t (fst (lex cfg s)) -> tk_kind t = K_KEYWORD -> tk_val t = VText w ->
    is_keyword cfg w = true /\ starts_dunder w = false.
  Proof.
    intros R s t w Hin Hk Hv. unfold lex in Hin.
    pose proof (proj1 (Forall_forall _ _) (lex_loop_tokens R (S (length s)) 0%nat None s) t Hin) as H.
    specialize (H Hk w Hv). split; [exact H | apply is_keyword_dunder_false; exact H].
  Qed.

  (* the kwargs filter of call(): a name starting with '__' is never passed on *)
  Lemma filter_kwargs_spec : forall keys keys', filter_kwargs cfg keys = Some keys' ->
    keys' = keys /\ forall k, In k keys -> is_keyword cfg k = true /\ starts_dunder k = false.
  Proof.
    intros keys keys' H. unfold filter_kwargs in H. destruct (forallb (is_keyword cfg) keys) eqn:E; [|discriminate].
    inversion H; subst. split; [reflexivity|]. intros k Hin.
    pose proof (proj1 (forallb_forall _ _) E k Hin) as K. split; [exact K | apply is_keyword_dunder_false; exact K].
  Qed.
End Keyword.

Lemma default_cfg_kw_reserved : forall names, kw_reserved (default_cfg names) = true.
Proof. intro names. vm_compute. reflexivity. Qed.

(* ------------------------------------------------------------------------------------------
   2. the fallback paths never reach a member
   ------------------------------------------------------------------------------------------ *)
Section Paths.
  Variable rs ps : nat -> name -> bool.
  Variable cfg : lexcfg.
  Variable reg_fn reg_meth : name -> bool.
  Notation run_path := (run_path rs ps cfg reg_fn reg_meth).

  Definition reaches (r : fres) : Prop := exists m, r = FReach m.

  Lemma dispatch_no_reach : forall b fn, ~ reaches (dispatch b fn).
  Proof. intros b fn [m H]. unfold dispatch in H. destruct b; discriminate. Qed.

  Definition invokes (r : fres) : Prop := r = FInvoke.

  Lemma call_never_reaches : forall st (b : bool) n kw lam (p : path),
    p = (if b then PCallMeth n kw lam else PCallFn n kw lam) -> ~ reaches (run_path st p).
  Proof.
    intros st b n kw lam p Hp [m H]. subst p. destruct b; cbn [YaqlizedPaths.run_path] in H; unfold call_path in H;
      destruct (filter_kwargs cfg kw); try discriminate.
    - destruct (reg_meth n); [destruct lam|]; discriminate.
    - destruct (reg_fn n); [destruct lam|]; discriminate.
  Qed.

  Lemma call_never_invokes : forall st (b : bool) n kw (p : path),
    p = (if b then PCallMeth n kw false else PCallFn n kw false) -> ~ invokes (run_path st p).
  Proof.
    intros st b n kw p Hp H. subst p. unfold invokes in H. destruct b; cbn [YaqlizedPaths.run_path] in H; unfold call_path in H;
      destruct (filter_kwargs cfg kw); try discriminate.
    - destruct (reg_meth n); discriminate.
    - destruct (reg_fn n); discriminate.
  Qed.

  (* an object the form's Yaqlized type check rejects (not yaqlized, or the switch is off), not fed as a
     callable value into a lambda parameter through call() *)
  Lemma fallback_never_reaches_host : forall st p,
    (forall f, path_form p = Some f -> yaqlized_check f st = false) -> path_lam p = false ->
    ~ reaches (run_path st p) /\ ~ invokes (run_path st p) /\
    (run_path st p = FDenied ENoMatch \/ run_path st p = FDenied ERuntime \/
     exists fn, run_path st p = FDispatch fn /\
                (fn = indexer_name \/ reg_fn fn = true \/ reg_meth fn = true)).
  Proof.
    intros st p H HL.
    assert (D : forall b fn, (b = true -> reg_fn fn = true \/ reg_meth fn = true) ->
              ~ reaches (dispatch b fn) /\ ~ invokes (dispatch b fn) /\
              (dispatch b fn = FDenied ENoMatch \/ dispatch b fn = FDenied ERuntime \/
              exists fn', dispatch b fn = FDispatch fn' /\ (fn' = indexer_name \/ reg_fn fn' = true \/ reg_meth fn' = true))).
    { intros b fn Hb. split; [apply dispatch_no_reach|]. unfold dispatch, invokes. destruct b.
      - split; [discriminate|]. right. right. exists fn. split; [reflexivity|]. right. apply Hb. reflexivity.
      - split; [discriminate|]. left. reflexivity. }
    destruct p as [n|n|n|n|n|n kw lam|n kw lam]; cbn [YaqlizedPaths.run_path]; cbn [path_lam] in HL.
    - unfold dot_attr. rewrite (H FAttr eq_refl). apply D. intro E. left. exact E.
    - unfold dot_method. rewrite (H FMethod eq_refl). apply D. intro E. right. exact E.
    - unfold index. rewrite (H FIndex eq_refl). split; [intros [m Hm]; discriminate|]. split; [discriminate|].
      right. right. exists indexer_name. split; [reflexivity | left; reflexivity].
    - unfold dot_attr. rewrite (H FAttr eq_refl). apply D. intro E. left. exact E.
    - unfold dot_method. rewrite (H FMethod eq_refl). apply D. intro E. right. exact E.
    - subst lam. unfold call_path. destruct (filter_kwargs cfg kw).
      + change (if reg_fn n then FDispatch n else FDenied ENoMatch) with (dispatch (reg_fn n) n). apply D. intro E. left. exact E.
      + split; [intros [m Hm]; discriminate|]. split; [discriminate|]. right. left. reflexivity.
    - subst lam. unfold call_path. destruct (filter_kwargs cfg kw).
      + change (if reg_meth n then FDispatch n else FDenied ENoMatch) with (dispatch (reg_meth n) n). apply D. intro E. right. exact E.
      + split; [intros [m Hm]; discriminate|]. split; [discriminate|]. right. left. reflexivity.
  Qed.

  (* the full-strength statement (no path ever touches a non-yaqlized object) fails exactly there *)
  Lemma call_invokes_lambda_value : forall st n,
    reg_fn n = true -> run_path st (PCallFn n [] true) = FInvoke.
  Proof. intros st n H. cbn [YaqlizedPaths.run_path]. unfold call_path. cbn. rewrite H. reflexivity. Qed.

  Lemma invoke_only_via_call : forall st p, run_path st p = FInvoke ->
    path_lam p = true /\ path_form p = None.
  Proof.
    intros st p H. destruct p as [n|n|n|n|n|n kw lam|n kw lam]; cbn [YaqlizedPaths.run_path] in H.
    - unfold dot_attr in H. destruct (yaqlized_check FAttr st); [destruct (access rs ps FAttr st n); discriminate | unfold dispatch in H; destruct (reg_fn _); discriminate].
    - unfold dot_method in H. destruct (yaqlized_check FMethod st); [destruct (access rs ps FMethod st n); discriminate | unfold dispatch in H; destruct (reg_meth _); discriminate].
    - unfold index in H. destruct (yaqlized_check FIndex st); [destruct (access rs ps FIndex st n); discriminate | discriminate].
    - unfold dot_attr in H. destruct (yaqlized_check FAttr st); [destruct (access rs ps FAttr st n); discriminate | unfold dispatch in H; destruct (reg_fn _); discriminate].
    - unfold dot_method in H. destruct (yaqlized_check FMethod st); [destruct (access rs ps FMethod st n); discriminate | unfold dispatch in H; destruct (reg_meth _); discriminate].
    - unfold call_path in H. destruct (filter_kwargs cfg kw); [|discriminate]. destruct (reg_fn n); [|discriminate].
      destruct lam; [split; reflexivity | discriminate].
    - unfold call_path in H. destruct (filter_kwargs cfg kw); [|discriminate]. destruct (reg_meth n); [|discriminate].
      destruct lam; [split; reflexivity | discriminate].
  Qed.

  Lemma not_yaqlized_all_forms : forall f, yaqlized_check f None = false.
  Proof. reflexivity. Qed.

  (* when the type check accepts, '.', '?.' and '[]' are exactly the gate of Model/Yaqlized.v *)
  Lemma path_is_access : forall st p f n,
    path_form p = Some f -> yaqlized_check f st = true ->
    p = match p with PProp _ => PProp n | PMeth _ => PMeth n | PIndex _ => PIndex n
                | PElvisProp _ => PElvisProp n | PElvisMeth _ => PElvisMeth n | q => q end ->
    run_path st p = lift (access rs ps f st n).
  Proof.
    intros st p f n Hf Hc Hp. destruct p; cbn [path_form] in Hf; inversion Hf; subst f; rewrite Hp;
      cbn [YaqlizedPaths.run_path]; unfold dot_attr, dot_method, index; rewrite Hc; reflexivity.
  Qed.

  Lemma any_reach_is_granted : forall st p m, run_path st p = FReach m ->
    exists f n s, path_form p = Some f /\ st = Some s /\ access rs ps f st n = Reach m /\ starts_underscore n = false.
  Proof.
    intros st p m H.
    assert (L : forall f n, lift (access rs ps f st n) = FReach m ->
              exists s, st = Some s /\ access rs ps f st n = Reach m /\ starts_underscore n = false).
    { intros f n HL. destruct (access rs ps f st n) as [e|m'] eqn:Ea; cbn [lift] in HL; [discriminate|].
      inversion HL; subst m'. destruct (policy_sound rs ps f st n m Ea) as [s [Hs _]].
      exists s. split; [exact Hs|]. split; [reflexivity | exact (underscore_never rs ps f st n m Ea)]. }
    destruct p as [n|n|n|n|n|n kw lam|n kw lam]; cbn [YaqlizedPaths.run_path] in H.
    - unfold dot_attr in H. destruct (yaqlized_check FAttr st); [|exfalso; exact (dispatch_no_reach _ _ (ex_intro _ m H))].
      destruct (L _ _ H) as [s [A [B C]]]. exists FAttr, n, s. auto.
    - unfold dot_method in H. destruct (yaqlized_check FMethod st); [|exfalso; exact (dispatch_no_reach _ _ (ex_intro _ m H))].
      destruct (L _ _ H) as [s [A [B C]]]. exists FMethod, n, s. auto.
    - unfold index in H. destruct (yaqlized_check FIndex st); [|discriminate].
      destruct (L _ _ H) as [s [A [B C]]]. exists FIndex, n, s. auto.
    - unfold dot_attr in H. destruct (yaqlized_check FAttr st); [|exfalso; exact (dispatch_no_reach _ _ (ex_intro _ m H))].
      destruct (L _ _ H) as [s [A [B C]]]. exists FAttr, n, s. auto.
    - unfold dot_method in H. destruct (yaqlized_check FMethod st); [|exfalso; exact (dispatch_no_reach _ _ (ex_intro _ m H))].
      destruct (L _ _ H) as [s [A [B C]]]. exists FMethod, n, s. auto.
    - exfalso. exact (call_never_reaches st false n kw lam _ eq_refl (ex_intro _ m H)).
    - exfalso. exact (call_never_reaches st true n kw lam _ eq_refl (ex_intro _ m H)).
  Qed.
End Paths.

(* ------------------------------------------------------------------------------------------
   3. settings inheritance: auto-yaqlization never loosens an existing policy
   ------------------------------------------------------------------------------------------ *)
Lemma yaqlize_obj_keeps : forall o a s, effective o = Some s -> yaqlize_obj o a = o.
Proof. intros o a s H. unfold yaqlize_obj. rewrite H. reflexivity. Qed.

Lemma auto_yaqlize_keeps_policy : forall parent o s,
  effective o = Some s ->
  auto_yaqlize parent o = o /\ effective (auto_yaqlize parent o) = Some s.
Proof.
  intros parent o s H. unfold auto_yaqlize. destruct (s_auto parent && negb (h_fixed o)).
  - rewrite (yaqlize_obj_keeps o auto_args s H). split; [reflexivity | exact H].
  - split; [reflexivity | exact H].
Qed.

Lemma auto_yaqlize_class_untouched : forall parent o, h_class (auto_yaqlize parent o) = h_class o.
Proof.
  intros parent o. unfold auto_yaqlize. destruct (s_auto parent && negb (h_fixed o)); [|reflexivity].
  unfold yaqlize_obj. destruct (effective o); reflexivity.
Qed.

Lemma auto_default_is_auto_args : yaqlize None auto_args = Some auto_default.
Proof. reflexivity. Qed.

(* the executable chain model's [after_auto] is the effective view of this step *)
Lemma auto_yaqlize_view : forall parent o, effective (auto_yaqlize parent o) = after_auto parent (view o).
Proof.
  intros parent o. unfold auto_yaqlize, after_auto, view. cbn [h_settings h_builtin].
  destruct (effective o) as [s|] eqn:E.
  - destruct (s_auto parent && negb (h_fixed o)); [rewrite (yaqlize_obj_keeps o auto_args s E)|]; exact E.
  - destruct (s_auto parent && negb (h_fixed o)) eqn:Ea.
    + unfold yaqlize_obj. rewrite E. unfold effective. cbn [h_inst]. reflexivity.
    + exact E.
Qed.

(* whatever the expression is granted after the step, the host's own policy (if any) grants it *)
Lemma auto_yaqlize_never_loosens : forall rs ps parent o s f n,
  effective o = Some s ->
  access rs ps f (effective (auto_yaqlize parent o)) n = access rs ps f (Some s) n.
Proof. intros rs ps parent o s f n H. rewrite (proj2 (auto_yaqlize_keeps_policy parent o s H)). reflexivity. Qed.

(* settings appear only where there were none, only on the instance, only under an auto parent,
   and then they are exactly the automatic defaults *)
Lemma auto_yaqlize_writes : forall parent o, auto_yaqlize parent o <> o ->
  effective o = None /\ s_auto parent = true /\ h_fixed o = false /\
  h_inst (auto_yaqlize parent o) = Some auto_default /\ h_class (auto_yaqlize parent o) = h_class o.
Proof.
  intros parent o H. unfold auto_yaqlize in *. destruct (s_auto parent && negb (h_fixed o)) eqn:Ea; [|congruence].
  apply andb_true_iff in Ea. destruct Ea as [A B]. apply negb_true_iff in B.
  unfold yaqlize_obj in *. destruct (effective o) eqn:E; [congruence|]. cbn [h_inst h_class]. auto.
Qed.

(* ------------------------------------------------------------------------------------------
   4. the index form consults only the object's indexing protocol
   ------------------------------------------------------------------------------------------ *)
Lemma index_not_subscriptable : forall rs ps st n,
  (forall m, index_on rs ps INoStr st n <> Reach m) /\
  (index_on rs ps INoStr st n = Denied EType <-> exists m, access rs ps FIndex st n = Reach m).
Proof.
  intros rs ps st n. unfold index_on. destruct (access rs ps FIndex st n) as [e|m] eqn:E.
  - split; [intros m H; discriminate|]. split.
    + intro H. inversion H; subst e. exfalso. unfold access in E. destruct st as [s|]; [|discriminate].
      destruct (negb (switch FIndex s)); [discriminate|]. destruct (validate_name rs ps n s); cbn in E; discriminate.
    + intros [m H]. discriminate.
  - split; [intros m' H; discriminate|]. split; [intros _; exists m; reflexivity | reflexivity].
Qed.

Lemma index_subscriptable : forall rs ps st n, index_on rs ps ISubscript st n = access rs ps FIndex st n.
Proof. intros rs ps st n. unfold index_on. destruct (access rs ps FIndex st n); reflexivity. Qed.

(* the index form looks at the indexer switch, the whitelist and the blacklist only: the attribute and
   method switches, the auto flag and the remapping table play no part *)
Lemma index_ignores_attribute_settings : forall rs ps p s s' n,
  s_indexer s = s_indexer s' -> s_white s = s_white s' -> s_black s = s_black s' ->
  index_on rs ps p (Some s) n = index_on rs ps p (Some s') n.
Proof.
  intros rs ps p s s' n Hi Hw Hb. unfold index_on, access. cbn [switch]. rewrite Hi.
  unfold validate_name. rewrite Hw, Hb. reflexivity.
Qed.
