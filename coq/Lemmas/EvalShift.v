(* Evaluation is independent of contexts it cannot reach.

   Insert any block g of context records into the heap at position n (everything allocated at or after n moves up by
   |g|; the first n records - e.g. the host's prepared chain - refer only to each other).  Evaluating the same
   expression in the corresponding context gives the corresponding state and the corresponding result: the same
   value with context ids renamed, the same tick log, the same error.  Plain data contains no context id, so finalised
   results are EQUAL.  Consequences: a statement can be evaluated again and again on a heap that keeps growing with the
   garbage of earlier evaluations (C09 reuse), and evaluations started one after the other from one shared prepared
   chain cannot influence each other through the contexts they leave behind (C18). *)
From Coq Require Import List ZArith Bool Arith Lia.
From YV Require Import Common.Corr Common.CorrFacts Model.Eval Lemmas.EvalFrame Lemmas.EvalWf.
Import ListNotations.

(* finalisation preserves well-scopedness of the heap *)
Definition fin_wf (fin : st -> val -> st * res val) : Prop :=
  forall s v s' r, fin s v = (s', r) -> hok (heap s) -> vok (length (heap s)) v -> hok (heap s').

Section FinWf.
  Variable ev : st -> nat -> expr -> st * res val.
  Variable fin : st -> val -> st * res val.
  Hypothesis Hext : ev_ext ev.
  Hypothesis Hwf : ev_wf ev.
  Hypothesis Hfe : fin_ext fin.
  Hypothesis Hfw : fin_wf fin.

  Lemma fin_list_wf l : forall s s' r, fin_list fin s l = (s', r) -> hok (heap s) -> Forall (vok (length (heap s))) l -> hok (heap s').
  Proof.
    induction l as [|x l IH]; intros s s' r H Hh Hl; cbn [fin_list] in H.
    - inversion H; subst. exact Hh.
    - inversion Hl as [|? ? Hx Hl']; subst.
      destruct (fin s x) as [s1 r1] eqn:E1. pose proof (Hfw _ _ _ _ E1 Hh Hx) as Hh1.
      pose proof (ext_len _ _ (Hfe _ _ _ _ E1)) as L1.
      destruct r1; try (inversion H; subst; exact Hh1).
      destruct (fin_list fin s1 l) as [s2 r2] eqn:E2.
      pose proof (IH _ _ _ E2 Hh1 ltac:(eapply Forall_vok_mono; eassumption)) as Hh2.
      destruct r2; inversion H; subst; exact Hh2.
  Qed.

  Lemma fin_dict_wf l : forall s s' r, fin_dict fin s l = (s', r) -> hok (heap s) ->
    Forall (fun kv => vok (length (heap s)) (snd kv)) l -> hok (heap s').
  Proof.
    induction l as [|[a x] l IH]; intros s s' r H Hh Hl; cbn [fin_dict] in H.
    - inversion H; subst. exact Hh.
    - inversion Hl as [|? ? Hx Hl']; subst. cbn in Hx.
      destruct (fin s x) as [s1 r1] eqn:E1. pose proof (Hfw _ _ _ _ E1 Hh Hx) as Hh1.
      pose proof (ext_len _ _ (Hfe _ _ _ _ E1)) as L1.
      destruct r1; try (inversion H; subst; exact Hh1).
      destruct (fin_dict fin s1 l) as [s2 r2] eqn:E2.
      assert (Hl1 : Forall (fun kv => vok (length (heap s1)) (snd kv)) l)
        by (eapply Forall_impl; [|exact Hl']; intros kv; now apply vok_mono).
      pose proof (IH _ _ _ E2 Hh1 Hl1) as Hh2.
      destruct r2; inversion H; subst; exact Hh2.
  Qed.

  Lemma fin_iter_wf l : forall s ops s' r, fin_iter ev fin s l ops = (s', r) -> hok (heap s) ->
    Forall (vok (length (heap s))) l -> Forall (lop_ok (length (heap s))) ops -> hok (heap s').
  Proof.
    induction l as [|x l IH]; intros s ops s' r H Hh Hl Ho; cbn [fin_iter] in H.
    - inversion H; subst. exact Hh.
    - inversion Hl as [|? ? Hx Hl']; subst.
      destruct (through ev s x ops) as [s1 r1] eqn:E1.
      pose proof (ext_len _ _ (through_ext _ Hext _ _ _ _ _ E1)) as L1.
      destruct (through_wf _ Hext Hwf _ _ _ _ _ E1 Hh Hx Ho) as [Hh1 Hv1].
      destruct r1 as [[y|]| | |]; try (inversion H; subst; exact Hh1).
      + destruct (fin s1 y) as [s2 r2] eqn:E2. pose proof (Hfw _ _ _ _ E2 Hh1 (Hv1 _ eq_refl)) as Hh2.
        pose proof (ext_len _ _ (Hfe _ _ _ _ E2)) as L2.
        destruct r2; try (inversion H; subst; exact Hh2).
        destruct (fin_iter ev fin s2 l ops) as [s3 r3] eqn:E3.
        pose proof (IH _ _ _ _ E3 Hh2 ltac:(eapply Forall_vok_mono; [|exact Hl']; lia) ltac:(eapply Forall_lop_mono; [|exact Ho]; lia)) as Hh3.
        destruct r3; inversion H; subst; exact Hh3.
      + apply (IH _ _ _ _ H Hh1); [eapply Forall_vok_mono; eassumption|eapply Forall_lop_mono; eassumption].
  Qed.
End FinWf.

Lemma finalize_wf f : fin_wf (finalize f).
Proof.
  induction f as [|f IH]; intros s v s' r H Hh Hv.
  - cbn in H. inversion H; subst. exact Hh.
  - cbn [finalize] in H. destruct v as [|b|z|s0|l|kvs|c|src ops]; try (inversion H; subst; exact Hh).
    + destruct (fin_list (finalize f) s l) as [s1 r1] eqn:E.
      pose proof (fin_list_wf _ (finalize_ext f) IH _ _ _ _ E Hh (proj1 (vok_list _ _) Hv)) as Hh1.
      destruct r1; inversion H; subst; exact Hh1.
    + destruct (fin_dict (finalize f) s kvs) as [s1 r1] eqn:E.
      assert (Hk : Forall (fun kv => vok (length (heap s)) (snd kv)) kvs).
      { apply vok_dict in Hv. eapply Forall_impl; [|exact Hv]. intros kv [_ Hb]. exact Hb. }
      pose proof (fin_dict_wf _ (finalize_ext f) IH _ _ _ _ E Hh Hk) as Hh1.
      destruct r1; inversion H; subst; exact Hh1.
    + destruct (fin_iter (eval f) (finalize f) s src ops) as [s1 r1] eqn:E.
      apply vok_iter in Hv as [Hs Ho].
      pose proof (fin_iter_wf _ _ (eval_ext f) (eval_wf f) (finalize_ext f) IH _ _ _ _ _ E Hh Hs Ho) as Hh1.
      destruct r1; inversion H; subst; exact Hh1.
Qed.

Section Shift.
  Variables (base g : list ctxrec).
  Let n := length base.
  Let k := length g.

  Definition shc (i : nat) : nat := if Nat.ltb i n then i else i + k.

  Definition shlop (o : lop) : lop :=
    match o with LMap b c => LMap b (shc c) | LFilter b c => LFilter b (shc c) | LAttr a => LAttr a end.

  Fixpoint shv (v : val) : val :=
    match v with
    | VCtx c => VCtx (shc c)
    | VList l => VList (map shv l)
    | VDict kvs => VDict (map (fun kv => (shv (fst kv), shv (snd kv))) kvs)
    | VIter src ops => VIter (map shv src) (map shlop ops)
    | _ => v
    end.

  Definition shrec (r : ctxrec) : ctxrec :=
    {| cparent := option_map shc (cparent r);
       cdata := map (fun kv => (fst kv, shv (snd kv))) (cdata r);
       cfuncs := map (fun f => (fst f, (fst (snd f), shc (snd (snd f))))) (cfuncs r) |}.

  (* the state with g inserted after the base; meaningful for heaps that start with the base *)
  Definition ins (s : st) : st :=
    {| heap := base ++ g ++ map shrec (skipn n (heap s)); log := log s |}.
  Definition on_base (s : st) : Prop := exists x, heap s = base ++ x.

  Definition shres {A} (f : A -> A) (r : res A) : res A :=
    match r with Ok a => Ok (f a) | Err e => Err e | Unsup => Unsup | Fuel => Fuel end.

  (* the first n records are closed: every context id in them is below n *)
  Definition closed_rec (r : ctxrec) : Prop :=
    (forall p, cparent r = Some p -> p < n)
    /\ Forall (fun kv => vok n (snd kv)) (cdata r)
    /\ Forall (fun f => snd (snd f) < n) (cfuncs r).
  Definition base_ok : Prop := Forall closed_rec base.

  Lemma shc_lt i : i < n -> shc i = i.
  Proof. intro H. unfold shc. apply Nat.ltb_lt in H. now rewrite H. Qed.
  Lemma shc_ge i : n <= i -> shc i = i + k.
  Proof. intro H. unfold shc. apply Nat.ltb_ge in H. now rewrite H. Qed.

  Lemma shv_closed : forall v, vok n v -> shv v = v.
  Proof.
    fix IH 1. intros v H. destruct v as [|b|z|s0|l|kvs|c|src ops]; try reflexivity.
    - cbn [shv]. f_equal. apply vok_list in H. induction l as [|x l IHl]; [reflexivity|].
      inversion H; subst. cbn [map]. f_equal; [now apply IH|now apply IHl].
    - cbn [shv]. f_equal. apply vok_dict in H. induction kvs as [|[a x] l IHl]; [reflexivity|].
      inversion H as [|? ? [Ha Hb] Hc]; subst. cbn [map fst snd]. f_equal; [|now apply IHl].
      cbn in Ha, Hb. f_equal; now apply IH.
    - cbn in H. cbn [shv]. f_equal. now apply shc_lt.
    - cbn [shv]. apply vok_iter in H as [H1 H2]. f_equal.
      + induction src as [|x l IHl]; [reflexivity|]. inversion H1; subst. cbn [map]. f_equal; [now apply IH|now apply IHl].
      + induction ops as [|o l IHl]; [reflexivity|]. inversion H2 as [|? ? Ho Hl]; subst. cbn [map]. f_equal; [|now apply IHl].
        destruct o; cbn in Ho |- *; try reflexivity; f_equal; now apply shc_lt.
  Qed.

  Lemma shrec_closed r : closed_rec r -> shrec r = r.
  Proof.
    intros (Hp & Hd & Hf). destruct r as [par data funcs]. unfold shrec. cbn [cparent cdata cfuncs] in *. f_equal.
    - destruct par as [p|]; [|reflexivity]. cbn. f_equal. apply shc_lt. now apply Hp.
    - induction data as [|[a x] l IHl]; [reflexivity|]. inversion Hd as [|? ? Hx Hl]; subst. cbn [map fst snd]. f_equal; [|now apply IHl].
      f_equal. now apply shv_closed.
    - induction funcs as [|[a [b c]] l IHl]; [reflexivity|]. inversion Hf as [|? ? Hx Hl]; subst. cbn [map fst snd]. f_equal; [|now apply IHl].
      cbn in Hx. do 2 f_equal. now apply shc_lt.
  Qed.

  (* reading the shifted heap at a shifted index = shifting what the original heap holds there *)
  Lemma nth_ins x i : base_ok ->
    nth_error (base ++ g ++ map shrec x) (shc i) = option_map shrec (nth_error (base ++ x) i).
  Proof.
    intros Hc. destruct (Nat.lt_ge_cases i n) as [Hi|Hi].
    - rewrite shc_lt by exact Hi. rewrite !nth_error_app1 by exact Hi.
      destruct (nth_error base i) as [r|] eqn:E; [|reflexivity]. cbn. f_equal. symmetry. apply shrec_closed.
      unfold base_ok in Hc. rewrite Forall_forall in Hc. apply Hc. eapply nth_error_In; eassumption.
    - rewrite shc_ge by exact Hi. rewrite (nth_error_app2 base x) by exact Hi.
      rewrite nth_error_app2 by (fold n; lia). rewrite nth_error_app2 by (fold n k; lia).
      replace (i + k - length base - length g) with (i - length base) by (fold n k; lia).
      apply nth_error_map.
  Qed.

  Lemma ins_heap s x : heap s = base ++ x -> heap (ins s) = base ++ g ++ map shrec x.
  Proof.
    intro H. unfold ins. cbn [heap]. rewrite H. do 2 f_equal.
    rewrite skipn_app. unfold n. rewrite skipn_all, Nat.sub_diag. reflexivity.
  Qed.

  Lemma ins_length s : on_base s -> length (heap (ins s)) = length (heap s) + k.
  Proof.
    intros [x H]. rewrite (ins_heap s x H), H, !app_length, map_length. fold k. lia.
  Qed.

  (* ---------- value-level commutations ---------- *)
  Lemma number_from_sh l : forall i,
    map (fun kv : str * val => (fst kv, shv (snd kv))) (number_from i l) = number_from i (map shv l).
  Proof. induction l as [|v l IH]; intros i; cbn; [reflexivity|]. now rewrite IH. Qed.

  Lemma combine_sh (ns : list str) l :
    map (fun kv : str * val => (fst kv, shv (snd kv))) (combine ns l) = combine ns (map shv l).
  Proof. revert l. induction ns as [|a ns IH]; intros [|v l]; cbn; try reflexivity. now rewrite IH. Qed.

  Lemma truthy_sh v : truthy (shv v) = truthy v.
  Proof. destruct v as [|b|z|s0|l|kvs|c|src ops]; try reflexivity; cbn; [destruct l|destruct kvs]; reflexivity. Qed.

  Lemma is_key_sh v : is_key (shv v) = is_key v.
  Proof. destruct v; reflexivity. Qed.

  Lemma key_eqb_sh a b : key_eqb (shv a) (shv b) = key_eqb a b.
  Proof. destruct a, b; reflexivity. Qed.

  Lemma key_eqb_sh_l a b : is_key a = true -> key_eqb a (shv b) = key_eqb a b.
  Proof. destruct a, b; try reflexivity; discriminate. Qed.

  Definition shkv (kv : val * val) : val * val := (shv (fst kv), shv (snd kv)).

  Lemma dict_get_sh l ky : dict_get (map shkv l) (shv ky) = option_map shv (dict_get l ky).
  Proof.
    induction l as [|[k' v] l IH]; [reflexivity|]. cbn [map shkv fst snd dict_get]. rewrite key_eqb_sh.
    destruct (key_eqb ky k'); [reflexivity|exact IH].
  Qed.

  Lemma dict_get_sh_key l ky : is_key ky = true -> dict_get (map shkv l) ky = option_map shv (dict_get l ky).
  Proof.
    intro Hk. induction l as [|[k' v] l IH]; [reflexivity|]. cbn [map shkv fst snd dict_get].
    rewrite key_eqb_sh_l by exact Hk. destruct (key_eqb ky k'); [reflexivity|exact IH].
  Qed.

  Lemma dict_set_sh l ky v : dict_set (map shkv l) (shv ky) (shv v) = map shkv (dict_set l ky v).
  Proof.
    induction l as [|[k' v'] l IH]; [reflexivity|]. cbn [map shkv fst snd dict_set]. rewrite key_eqb_sh.
    destruct (key_eqb ky k'); cbn [map shkv fst snd]; [reflexivity|]. now rewrite IH.
  Qed.

  Lemma shv_dict kvs : shv (VDict kvs) = VDict (map shkv kvs).
  Proof. reflexivity. Qed.

  Lemma val_eq_sh : forall a b, val_eq (shv a) (shv b) = val_eq a b.
  Proof.
    fix IH 1. intros a b. destruct a as [|x|x|x|l|kvs|c|src ops]; destruct b as [|y|y|y|l'|kvs'|c'|src' ops']; try reflexivity.
    cbn [shv val_eq]. revert l'. induction l as [|u l IHl]; intros [|w l']; try reflexivity.
    cbn [map]. rewrite IH. destruct (val_eq u w) as [[|]|]; try reflexivity. apply IHl.
  Qed.

  Lemma binop_val_sh o a b : binop_val o (shv a) (shv b) = shres shv (binop_val o a b).
  Proof.
    destruct o; try (destruct a, b; reflexivity).
    - destruct a as [|x|x|x|l|kvs|c|src ops]; destruct b as [|y|y|y|l'|kvs'|c'|src' ops']; try reflexivity.
      cbn [shv binop_val shres]. now rewrite map_app.
    - unfold binop_val. rewrite val_eq_sh. destruct (val_eq a b); reflexivity.
    - unfold binop_val. rewrite val_eq_sh. destruct (val_eq a b); reflexivity.
  Qed.

  Lemma list_index_sh l z : list_index (map shv l) z = shres shv (list_index l z).
  Proof.
    unfold list_index. rewrite map_length. destruct (_ || _); [reflexivity|].
    rewrite nth_error_map. destruct (nth_error l _); reflexivity.
  Qed.

  Lemma dot_kw_sh v a : dot_kw (shv v) a = shres shv (dot_kw v a).
  Proof.
    destruct v as [|b|z|s0|l|kvs|c|src ops]; try reflexivity.
    - cbn [shv dot_kw].
      replace (map (fun kv => (shv (fst kv), shv (snd kv))) kvs) with (map shkv kvs) by reflexivity.
      rewrite (dict_get_sh_key kvs (VStr a) eq_refl). destruct (dict_get kvs (VStr a)); reflexivity.
    - cbn [shv dot_kw shres]. now rewrite map_app.
  Qed.

  Lemma as_seq_sh v : as_seq (shv v) = option_map (fun p => (map shv (fst p), map shlop (snd p))) (as_seq v).
  Proof. destruct v; reflexivity. Qed.


  (* ---------- heap-level commutations ---------- *)
  Hypothesis Hbase : base_ok.

  Lemma assoc_sh {A} (f : A -> A) (d : list (str * A)) nm :
    assoc (map (fun kv => (fst kv, f (snd kv))) d) nm = option_map f (assoc d nm).
  Proof. induction d as [|[a v] d IH]; [reflexivity|]. cbn. destruct (str_eqb nm a); [reflexivity|exact IH]. Qed.

  Lemma assoc_last_sh {A} (f : A -> A) (d : list (str * A)) nm :
    assoc_last (map (fun kv => (fst kv, f (snd kv))) d) nm = option_map f (assoc_last d nm).
  Proof. unfold assoc_last. rewrite <- map_rev. apply assoc_sh. Qed.

  Lemma get_data_sh fuel : forall x c nm,
    get_data fuel (base ++ g ++ map shrec x) (shc c) nm = shv (get_data fuel (base ++ x) c nm).
  Proof.
    induction fuel as [|f IH]; intros x c nm; [reflexivity|].
    cbn [get_data]. rewrite nth_ins by exact Hbase.
    destruct (nth_error (base ++ x) c) as [r|]; [|reflexivity]. cbn [option_map shrec cdata cparent].
    rewrite (assoc_last_sh shv). destruct (assoc_last (cdata r) nm); [reflexivity|].
    destruct (cparent r); [apply IH|reflexivity].
  Qed.

  Definition shfn (p : expr * nat) : expr * nat := (fst p, shc (snd p)).

  Lemma get_func_sh fuel : forall x c nm,
    get_func fuel (base ++ g ++ map shrec x) (shc c) nm = option_map shfn (get_func fuel (base ++ x) c nm).
  Proof.
    induction fuel as [|f IH]; intros x c nm; [reflexivity|].
    cbn [get_func]. rewrite nth_ins by exact Hbase.
    destruct (nth_error (base ++ x) c) as [r|]; [|reflexivity]. cbn [option_map shrec cfuncs cparent].
    change (map (fun f0 : str * (expr * nat) => (fst f0, (fst (snd f0), shc (snd (snd f0))))) (cfuncs r))
      with (map (fun kv : str * (expr * nat) => (fst kv, shfn (snd kv))) (cfuncs r)).
    rewrite (assoc_last_sh shfn). destruct (assoc_last (cfuncs r) nm); [reflexivity|].
    destruct (cparent r); [apply IH|reflexivity].
  Qed.

  Lemma get_func_fuel h : hok h -> forall fuel c nm, c < fuel -> get_func fuel h c nm = get_func (S c) h c nm.
  Proof.
    intros Hh fuel. induction fuel as [fuel IH] using lt_wf_ind. intros c nm Hc.
    destruct fuel as [|f]; [lia|].
    cbn [get_func]. destruct (nth_error h c) as [r|] eqn:E; [|reflexivity].
    destruct (assoc_last (cfuncs r) nm); [reflexivity|].
    destruct (cparent r) as [p|] eqn:P; [|reflexivity].
    destruct (Hh c r E) as (Hp & _). specialize (Hp p P).
    rewrite (IH f ltac:(lia) p nm ltac:(lia)).
    destruct (Nat.eq_dec c f) as [->|Hne]; [now rewrite (IH f ltac:(lia) p nm ltac:(lia))|].
    symmetry. apply (IH c ltac:(lia) p nm Hp).
  Qed.

  Lemma lookup_sh s c nm : on_base s -> hok (heap s) -> c < length (heap s) ->
    lookup (heap (ins s)) (shc c) nm = shv (lookup (heap s) c nm).
  Proof.
    intros [x Hx] Hh Hc. unfold lookup. rewrite (ins_heap s x Hx), get_data_sh, <- Hx.
    rewrite (get_data_fuel _ Hh (S (length (base ++ g ++ map shrec x))) c) by (rewrite Hx, !app_length, map_length in *; lia).
    rewrite (get_data_fuel _ Hh (S (length (heap s))) c) by lia. reflexivity.
  Qed.

  Lemma lookup_func_sh s c nm : on_base s -> hok (heap s) -> c < length (heap s) ->
    lookup_func (heap (ins s)) (shc c) nm = option_map shfn (lookup_func (heap s) c nm).
  Proof.
    intros [x Hx] Hh Hc. unfold lookup_func. rewrite (ins_heap s x Hx), get_func_sh, <- Hx.
    rewrite (get_func_fuel _ Hh (S (length (base ++ g ++ map shrec x))) c) by (rewrite Hx, !app_length, map_length in *; lia).
    rewrite (get_func_fuel _ Hh (S (length (heap s))) c) by lia. reflexivity.
  Qed.

  Lemma on_base_ext s s' : on_base s -> ext s s' -> on_base s'.
  Proof. intros [x Hx] (h & l & Hh & _). exists (x ++ h). rewrite Hh, Hx. now rewrite app_assoc. Qed.

  Lemma on_base_len s : on_base s -> n <= length (heap s).
  Proof. intros [x Hx]. rewrite Hx, app_length. unfold n. lia. Qed.

  Lemma alloc_sh s r s1 c1 : on_base s -> alloc s r = (s1, c1) -> alloc (ins s) (shrec r) = (ins s1, shc c1).
  Proof.
    intros Hb H. pose proof (on_base_len s Hb) as Hn. destruct Hb as [x Hx].
    unfold alloc in *. inversion H; subst. f_equal.
    - assert (Hx1 : heap {| heap := heap s ++ [r]; log := log s |} = base ++ (x ++ [r]))
        by (cbn [heap]; rewrite Hx; now rewrite app_assoc).
      unfold ins at 3. cbn [log]. f_equal.
      change (base ++ g ++ map shrec (skipn n (heap {| heap := heap s ++ [r]; log := log s |})))
        with (heap (ins {| heap := heap s ++ [r]; log := log s |})).
      rewrite (ins_heap _ _ Hx1), (ins_heap s x Hx), map_app. cbn [map]. now rewrite <- !app_assoc.
    - symmetry. rewrite shc_ge by exact Hn. symmetry. apply ins_length. now exists x.
  Qed.

  Lemma tick_sh s id : ins (tick s id) = tick (ins s) id.
  Proof. reflexivity. Qed.

  (* ---------- evaluator-level commutations ---------- *)
  Definition ev_sh (ev : st -> nat -> expr -> st * res val) : Prop :=
    forall s c e s' r, ev s c e = (s', r) -> on_base s -> hok (heap s) -> c < length (heap s) ->
      ev (ins s) (shc c) e = (ins s', shres shv r).

  Definition shskv (kv : str * val) : str * val := (fst kv, shv (snd kv)).

  Section Helpers.
    Variable ev : st -> nat -> expr -> st * res val.
    Hypothesis Hext : ev_ext ev.
    Hypothesis Hwf : ev_wf ev.
    Hypothesis Hsh : ev_sh ev.

    Lemma shrec_child c data :
      shrec {| cparent := Some c; cdata := data; cfuncs := [] |}
      = {| cparent := Some (shc c); cdata := map shskv data; cfuncs := [] |}.
    Proof. reflexivity. Qed.

    Lemma invoke_sh s body cap pos kw s' r :
      invoke ev s body cap pos kw = (s', r) -> on_base s -> hok (heap s) -> cap < length (heap s) ->
      Forall (vok (length (heap s))) pos -> Forall (fun kv => vok (length (heap s)) (snd kv)) kw ->
      invoke ev (ins s) body (shc cap) (map shv pos) (map shskv kw) = (ins s', shres shv r).
    Proof.
      intros H Hb Hh Hc Hp Hk. unfold invoke in *.
      destruct (alloc s {| cparent := Some cap; cdata := number_from 1 pos ++ kw; cfuncs := [] |}) as [s1 c1] eqn:A.
      pose proof (alloc_sh _ _ _ _ Hb A) as A'. rewrite shrec_child, map_app in A'.
      change (map shskv (number_from 1 pos)) with (map (fun kv : str * val => (fst kv, shv (snd kv))) (number_from 1 pos)) in A'.
      rewrite number_from_sh in A'. rewrite A'.
      assert (E1 : ext s s1) by (eapply alloc_ext; eassumption).
      unfold alloc in A. inversion A; subst. clear A.
      apply Hsh; [exact H|eapply on_base_ext; eassumption| |cbn [heap]; rewrite app_length; cbn; lia].
      cbn [heap]. apply hok_alloc_child; try assumption; [|constructor].
      apply Forall_app. split; [now apply number_from_ok|exact Hk].
    Qed.

    Lemma eval_seq_sh es : forall s c s' r, eval_seq ev s c es = (s', r) ->
      on_base s -> hok (heap s) -> c < length (heap s) ->
      eval_seq ev (ins s) (shc c) es = (ins s', shres (map shv) r).
    Proof.
      induction es as [|e es IH]; intros s c s' r H Hb Hh Hc; cbn [eval_seq] in *.
      - inversion H; subst. reflexivity.
      - destruct (ev s c e) as [s1 r1] eqn:E1. rewrite (Hsh _ _ _ _ _ E1 Hb Hh Hc).
        pose proof (Hext _ _ _ _ _ E1) as X1. pose proof (ext_len _ _ X1) as L1.
        destruct (Hwf _ _ _ _ _ E1 Hh Hc) as [Hh1 _].
        destruct r1 as [v| | |]; cbn [shres]; try (inversion H; subst; reflexivity).
        destruct (eval_seq ev s1 c es) as [s2 r2] eqn:E2.
        rewrite (IH _ _ _ _ E2 (on_base_ext _ _ Hb X1) Hh1 ltac:(lia)).
        destruct r2; inversion H; subst; reflexivity.
    Qed.

    Lemma eval_kw_sh kw : forall s c s' r, eval_kw ev s c kw = (s', r) ->
      on_base s -> hok (heap s) -> c < length (heap s) ->
      eval_kw ev (ins s) (shc c) kw = (ins s', shres (map shskv) r).
    Proof.
      induction kw as [|[a e] kw IH]; intros s c s' r H Hb Hh Hc; cbn [eval_kw] in *.
      - inversion H; subst. reflexivity.
      - destruct (ev s c e) as [s1 r1] eqn:E1. rewrite (Hsh _ _ _ _ _ E1 Hb Hh Hc).
        pose proof (Hext _ _ _ _ _ E1) as X1. pose proof (ext_len _ _ X1) as L1.
        destruct (Hwf _ _ _ _ _ E1 Hh Hc) as [Hh1 _].
        destruct r1 as [v| | |]; cbn [shres]; try (inversion H; subst; reflexivity).
        destruct (eval_kw ev s1 c kw) as [s2 r2] eqn:E2.
        rewrite (IH _ _ _ _ E2 (on_base_ext _ _ Hb X1) Hh1 ltac:(lia)).
        destruct r2; inversion H; subst; reflexivity.
    Qed.

    Lemma eval_map_sh kvs : forall s c acc s' r, eval_map ev s c kvs acc = (s', r) ->
      on_base s -> hok (heap s) -> c < length (heap s) ->
      eval_map ev (ins s) (shc c) kvs (map shkv acc) = (ins s', shres shv r).
    Proof.
      induction kvs as [|[ke ve] kvs IH]; intros s c acc s' r H Hb Hh Hc; cbn [eval_map] in *.
      - inversion H; subst. reflexivity.
      - destruct (ev s c ke) as [s1 r1] eqn:E1. rewrite (Hsh _ _ _ _ _ E1 Hb Hh Hc).
        pose proof (Hext _ _ _ _ _ E1) as X1. pose proof (ext_len _ _ X1) as L1.
        destruct (Hwf _ _ _ _ _ E1 Hh Hc) as [Hh1 _].
        destruct r1 as [kv| | |]; cbn [shres]; try (inversion H; subst; reflexivity).
        destruct (ev s1 c ve) as [s2 r2] eqn:E2.
        rewrite (Hsh _ _ _ _ _ E2 (on_base_ext _ _ Hb X1) Hh1 ltac:(lia)).
        pose proof (Hext _ _ _ _ _ E2) as X2. pose proof (ext_len _ _ X2) as L2.
        destruct (Hwf _ _ _ _ _ E2 Hh1 ltac:(lia)) as [Hh2 _].
        destruct r2 as [v| | |]; cbn [shres]; try (inversion H; subst; reflexivity).
        rewrite is_key_sh. destruct (is_key kv); [|inversion H; subst; reflexivity].
        rewrite dict_set_sh.
        apply (IH _ _ _ _ _ H (on_base_ext _ _ (on_base_ext _ _ Hb X1) X2) Hh2). lia.
    Qed.

    Lemma eval_switch_sh cs : forall s c s' r, eval_switch ev s c cs = (s', r) ->
      on_base s -> hok (heap s) -> c < length (heap s) ->
      eval_switch ev (ins s) (shc c) cs = (ins s', shres shv r).
    Proof.
      induction cs as [|[ce ve] cs IH]; intros s c s' r H Hb Hh Hc; cbn [eval_switch] in *.
      - inversion H; subst. reflexivity.
      - destruct (ev s c ce) as [s1 r1] eqn:E1. rewrite (Hsh _ _ _ _ _ E1 Hb Hh Hc).
        pose proof (Hext _ _ _ _ _ E1) as X1. pose proof (ext_len _ _ X1) as L1.
        destruct (Hwf _ _ _ _ _ E1 Hh Hc) as [Hh1 _].
        destruct r1 as [cv| | |]; cbn [shres]; try (inversion H; subst; reflexivity).
        rewrite truthy_sh. destruct (truthy cv) as [[|]| | |]; try (inversion H; subst; reflexivity).
        + apply (Hsh _ _ _ _ _ H (on_base_ext _ _ Hb X1) Hh1). lia.
        + apply (IH _ _ _ _ H (on_base_ext _ _ Hb X1) Hh1). lia.
    Qed.

    Lemma eval_coalesce_sh es : forall s c s' r, eval_coalesce ev s c es = (s', r) ->
      on_base s -> hok (heap s) -> c < length (heap s) ->
      eval_coalesce ev (ins s) (shc c) es = (ins s', shres shv r).
    Proof.
      induction es as [|e es IH]; intros s c s' r H Hb Hh Hc; cbn [eval_coalesce] in *.
      - inversion H; subst. reflexivity.
      - destruct (ev s c e) as [s1 r1] eqn:E1. rewrite (Hsh _ _ _ _ _ E1 Hb Hh Hc).
        pose proof (Hext _ _ _ _ _ E1) as X1. pose proof (ext_len _ _ X1) as L1.
        destruct (Hwf _ _ _ _ _ E1 Hh Hc) as [Hh1 _].
        destruct r1 as [v| | |]; cbn [shres]; try (inversion H; subst; reflexivity).
        destruct v; cbn [shv]; try (inversion H; subst; reflexivity).
        apply (IH _ _ _ _ H (on_base_ext _ _ Hb X1) Hh1). lia.
    Qed.

    Lemma eval_select_case_sh es : forall s c i s' r, eval_select_case ev s c es i = (s', r) ->
      on_base s -> hok (heap s) -> c < length (heap s) ->
      eval_select_case ev (ins s) (shc c) es i = (ins s', shres shv r).
    Proof.
      induction es as [|e es IH]; intros s c i s' r H Hb Hh Hc; cbn [eval_select_case] in *.
      - inversion H; subst. reflexivity.
      - destruct (ev s c e) as [s1 r1] eqn:E1. rewrite (Hsh _ _ _ _ _ E1 Hb Hh Hc).
        pose proof (Hext _ _ _ _ _ E1) as X1. pose proof (ext_len _ _ X1) as L1.
        destruct (Hwf _ _ _ _ _ E1 Hh Hc) as [Hh1 _].
        destruct r1 as [v| | |]; cbn [shres]; try (inversion H; subst; reflexivity).
        rewrite truthy_sh. destruct (truthy v) as [[|]| | |]; try (inversion H; subst; reflexivity).
        apply (IH _ _ _ _ _ H (on_base_ext _ _ Hb X1) Hh1). lia.
    Qed.

    Lemma through_sh ops : forall s x s' r, through ev s x ops = (s', r) ->
      on_base s -> hok (heap s) -> vok (length (heap s)) x -> Forall (lop_ok (length (heap s))) ops ->
      through ev (ins s) (shv x) (map shlop ops) = (ins s', shres (option_map shv) r).
    Proof.
      induction ops as [|o ops IH]; intros s x s' r H Hb Hh Hx Ho; cbn [through map] in *.
      - inversion H; subst. reflexivity.
      - inversion Ho as [|? ? Ho1 Ho2]; subst. destruct o as [body cap|body cap|a]; cbn [shlop]; cbn in Ho1.
        + destruct (invoke ev s body cap [x] []) as [s1 r1] eqn:E1.
          pose proof (invoke_sh _ _ _ _ _ _ _ E1 Hb Hh Ho1 ltac:(repeat constructor; assumption) ltac:(constructor)) as S1.
          cbn [map] in S1. rewrite S1.
          pose proof (invoke_ext _ Hext _ _ _ _ _ _ _ E1) as X1. pose proof (ext_len _ _ X1) as L1.
          destruct (invoke_wf _ Hwf _ _ _ _ _ _ _ E1 Hh Ho1 ltac:(repeat constructor; assumption) ltac:(constructor)) as [Hh1 Hv1].
          destruct r1 as [y| | |]; cbn [shres]; try (inversion H; subst; reflexivity).
          apply (IH _ _ _ _ H (on_base_ext _ _ Hb X1) Hh1); [now apply Hv1|eapply Forall_lop_mono; eassumption].
        + destruct (invoke ev s body cap [x] []) as [s1 r1] eqn:E1.
          pose proof (invoke_sh _ _ _ _ _ _ _ E1 Hb Hh Ho1 ltac:(repeat constructor; assumption) ltac:(constructor)) as S1.
          cbn [map] in S1. rewrite S1.
          pose proof (invoke_ext _ Hext _ _ _ _ _ _ _ E1) as X1. pose proof (ext_len _ _ X1) as L1.
          destruct (invoke_wf _ Hwf _ _ _ _ _ _ _ E1 Hh Ho1 ltac:(repeat constructor; assumption) ltac:(constructor)) as [Hh1 Hv1].
          destruct r1 as [y| | |]; cbn [shres]; try (inversion H; subst; reflexivity).
          rewrite truthy_sh. destruct (truthy y) as [[|]| | |]; try (inversion H; subst; reflexivity).
          apply (IH _ _ _ _ H (on_base_ext _ _ Hb X1) Hh1); [eapply vok_mono; eassumption|eapply Forall_lop_mono; eassumption].
        + rewrite dot_kw_sh. destruct (dot_kw x a) as [y| | |] eqn:D; cbn [shres]; try (inversion H; subst; reflexivity).
          apply (IH _ _ _ _ H Hb Hh); [eapply dot_kw_ok; eassumption|exact Ho2].
    Qed.

    Lemma force_sh src : forall s ops s' r, force ev s src ops = (s', r) ->
      on_base s -> hok (heap s) -> Forall (vok (length (heap s))) src -> Forall (lop_ok (length (heap s))) ops ->
      force ev (ins s) (map shv src) (map shlop ops) = (ins s', shres (map shv) r).
    Proof.
      induction src as [|x src IH]; intros s ops s' r H Hb Hh Hs Ho; cbn [force map] in *.
      - inversion H; subst. reflexivity.
      - inversion Hs as [|? ? Hx Hs']; subst.
        destruct (through ev s x ops) as [s1 r1] eqn:E1. rewrite (through_sh _ _ _ _ _ E1 Hb Hh Hx Ho).
        pose proof (through_ext _ Hext _ _ _ _ _ E1) as X1. pose proof (ext_len _ _ X1) as L1.
        destruct (through_wf _ Hext Hwf _ _ _ _ _ E1 Hh Hx Ho) as [Hh1 _].
        destruct r1 as [o| | |]; cbn [shres]; try (inversion H; subst; reflexivity).
        destruct (force ev s1 src ops) as [s2 r2] eqn:E2.
        rewrite (IH _ _ _ _ E2 (on_base_ext _ _ Hb X1) Hh1 ltac:(eapply Forall_vok_mono; eassumption) ltac:(eapply Forall_lop_mono; eassumption)).
        destruct r2 as [ys| | |]; inversion H; subst; cbn [shres]; try reflexivity.
        destruct o; reflexivity.
    Qed.

    Lemma force_first_sh src : forall s ops s' r, force_first ev s src ops = (s', r) ->
      on_base s -> hok (heap s) -> Forall (vok (length (heap s))) src -> Forall (lop_ok (length (heap s))) ops ->
      force_first ev (ins s) (map shv src) (map shlop ops) = (ins s', shres (option_map shv) r).
    Proof.
      induction src as [|x src IH]; intros s ops s' r H Hb Hh Hs Ho; cbn [force_first map] in *.
      - inversion H; subst. reflexivity.
      - inversion Hs as [|? ? Hx Hs']; subst.
        destruct (through ev s x ops) as [s1 r1] eqn:E1. rewrite (through_sh _ _ _ _ _ E1 Hb Hh Hx Ho).
        pose proof (through_ext _ Hext _ _ _ _ _ E1) as X1. pose proof (ext_len _ _ X1) as L1.
        destruct (through_wf _ Hext Hwf _ _ _ _ _ E1 Hh Hx Ho) as [Hh1 _].
        destruct r1 as [[y|]| | |]; cbn [shres option_map]; try (inversion H; subst; reflexivity).
        apply (IH _ _ _ _ H (on_base_ext _ _ Hb X1) Hh1); [eapply Forall_vok_mono; eassumption|eapply Forall_lop_mono; eassumption].
    Qed.

    Lemma force_search_sh src : forall want s ops pred s' r, force_search ev want s src ops pred = (s', r) ->
      on_base s -> hok (heap s) -> Forall (vok (length (heap s))) src -> Forall (lop_ok (length (heap s))) ops ->
      (forall body cap, pred = Some (body, cap) -> cap < length (heap s)) ->
      force_search ev want (ins s) (map shv src) (map shlop ops) (option_map shfn pred) = (ins s', r).
    Proof.
      induction src as [|x src IH]; intros want s ops pred s' r H Hb Hh Hs Ho Hp; cbn [force_search map] in *.
      - inversion H; subst. reflexivity.
      - inversion Hs as [|? ? Hx Hs']; subst.
        destruct (through ev s x ops) as [s1 r1] eqn:E1. rewrite (through_sh _ _ _ _ _ E1 Hb Hh Hx Ho).
        pose proof (through_ext _ Hext _ _ _ _ _ E1) as X1. pose proof (ext_len _ _ X1) as L1.
        destruct (through_wf _ Hext Hwf _ _ _ _ _ E1 Hh Hx Ho) as [Hh1 Hv1].
        pose proof (on_base_ext _ _ Hb X1) as Hb1.
        destruct r1 as [[y|]| | |]; cbn [shres option_map]; try (inversion H; subst; reflexivity).
        + destruct pred as [[body cap]|]; cbn [option_map shfn fst snd].
          * destruct (invoke ev s1 body cap [y] []) as [s2 r2] eqn:E2.
            assert (Hc : cap < length (heap s1)) by (specialize (Hp body cap eq_refl); lia).
            pose proof (invoke_sh _ _ _ _ _ _ _ E2 Hb1 Hh1 Hc ltac:(repeat constructor; now apply Hv1) ltac:(constructor)) as S2.
            cbn [map] in S2. rewrite S2.
            pose proof (invoke_ext _ Hext _ _ _ _ _ _ _ E2) as X2. pose proof (ext_len _ _ X2) as L2.
            destruct (invoke_wf _ Hwf _ _ _ _ _ _ _ E2 Hh1 Hc ltac:(repeat constructor; now apply Hv1) ltac:(constructor)) as [Hh2 _].
            destruct r2 as [p| | |]; cbn [shres]; try (inversion H; subst; reflexivity).
            rewrite truthy_sh. destruct (truthy p) as [b| | |]; try (inversion H; subst; reflexivity).
            destruct (Bool.eqb b want); [inversion H; subst; reflexivity|].
            apply (IH _ _ _ (Some (body, cap)) _ _ H (on_base_ext _ _ Hb1 X2) Hh2).
            -- eapply Forall_vok_mono; [|exact Hs']. lia.
            -- eapply Forall_lop_mono; [|exact Ho]. lia.
            -- intros b0 c0 E. injection E as <- <-. lia.
          * rewrite truthy_sh.
            destruct (if want then Ok true else truthy y) as [b| | |]; try (inversion H; subst; reflexivity).
            destruct (Bool.eqb b want); [inversion H; subst; reflexivity|].
            apply (IH _ _ _ None _ _ H Hb1 Hh1).
            -- eapply Forall_vok_mono; eassumption.
            -- eapply Forall_lop_mono; eassumption.
            -- discriminate.
        + apply (IH _ _ _ _ _ _ H Hb1 Hh1).
          * eapply Forall_vok_mono; eassumption.
          * eapply Forall_lop_mono; eassumption.
          * intros b0 c0 E. specialize (Hp b0 c0 E). lia.
    Qed.

    Lemma alloc_plain_sh s c : on_base s ->
      alloc (ins s) {| cparent := Some (shc c); cdata := []; cfuncs := [] |}
      = (ins {| heap := heap s ++ [{| cparent := Some c; cdata := []; cfuncs := [] |}]; log := log s |}, shc (length (heap s))).
    Proof. intro Hb. exact (alloc_sh s {| cparent := Some c; cdata := []; cfuncs := [] |} _ _ Hb eq_refl). Qed.

    Lemma none_branch_sh rv : as_seq rv = None ->
      match shv rv with VCtx _ => @Unsup val | _ => Err KRes end = shres shv (match rv with VCtx _ => Unsup | _ => Err KRes end).
    Proof. destruct rv; intro H; try reflexivity; discriminate. Qed.

    Lemma meth_sh s c rv name args s' r :
      meth ev s c rv name args = (s', r) -> on_base s -> hok (heap s) -> c < length (heap s) -> vok (length (heap s)) rv ->
      meth ev (ins s) (shc c) (shv rv) name args = (ins s', shres shv r).
    Proof.
      unfold meth. intros H Hb Hh Hc Hrv.
      repeat match type of H with (if ?b then _ else _) = _ => destruct b end.
      - (* select *)
        rewrite as_seq_sh. destruct (as_seq rv) as [[src ops]|] eqn:A; cbn [option_map fst snd].
        + destruct args as [|f [|? ?]]; try (inversion H; subst; reflexivity).
          rewrite (alloc_plain_sh s c Hb). unfold alloc in H. inversion H; subst. cbn [shres shv]. f_equal.
          rewrite map_app. cbn [map shlop]. rewrite (shc_ge (length (heap s))) by (now apply on_base_len). rewrite <- shc_ge by (now apply on_base_len). reflexivity.
        + rewrite (none_branch_sh rv A). inversion H; subst. reflexivity.
      - (* where *)
        rewrite as_seq_sh. destruct (as_seq rv) as [[src ops]|] eqn:A; cbn [option_map fst snd].
        + destruct args as [|f [|? ?]]; try (inversion H; subst; reflexivity).
          rewrite (alloc_plain_sh s c Hb). unfold alloc in H. inversion H; subst. cbn [shres shv]. f_equal.
          rewrite map_app. reflexivity.
        + rewrite (none_branch_sh rv A). inversion H; subst. reflexivity.
      - (* any / all *)
        rewrite as_seq_sh. destruct (as_seq rv) as [[src ops]|] eqn:A; cbn [option_map fst snd].
        + destruct (as_seq_ok _ _ _ _ Hrv A) as [Hs Ho].
          destruct args as [|f [|? ?]]; try (inversion H; subst; reflexivity).
          * destruct (force_search ev _ s src ops None) as [s1 r1] eqn:E1.
            pose proof (force_search_sh _ _ _ _ _ _ _ E1 Hb Hh Hs Ho ltac:(discriminate)) as S1. cbn [option_map] in S1. rewrite S1.
            destruct r1; inversion H; subst; reflexivity.
          * rewrite (alloc_plain_sh s c Hb). unfold alloc in H.
            match type of H with context [force_search ev ?w ?s0 src ops ?p] =>
              destruct (force_search ev w s0 src ops p) as [s1 r1] eqn:E1 end.
            assert (Hb0 : on_base {| heap := heap s ++ [{| cparent := Some c; cdata := []; cfuncs := [] |}]; log := log s |})
              by (eapply on_base_ext; [exact Hb|]; exists [{| cparent := Some c; cdata := []; cfuncs := [] |}], []; cbn; now rewrite app_nil_r).
            assert (Hh0 : hok (heap s ++ [{| cparent := Some c; cdata := []; cfuncs := [] |}])) by (apply hok_alloc_child; try assumption; constructor).
            pose proof (force_search_sh _ _ _ _ (Some (f, length (heap s))) _ _ E1 Hb0 Hh0) as S1.
            cbn [option_map heap] in S1. change (shfn (f, length (heap s))) with (f, shc (length (heap s))) in S1. rewrite S1.
            -- destruct r1; inversion H; subst; reflexivity.
            -- rewrite app_length. eapply Forall_vok_mono; [|exact Hs]. lia.
            -- rewrite app_length. eapply Forall_lop_mono; [|exact Ho]. lia.
            -- intros b0 c0 E. injection E as <- <-. rewrite app_length. cbn. lia.
        + rewrite (none_branch_sh rv A). inversion H; subst. reflexivity.
      - (* first *)
        rewrite as_seq_sh. destruct (as_seq rv) as [[src ops]|] eqn:A; cbn [option_map fst snd].
        + destruct (as_seq_ok _ _ _ _ Hrv A) as [Hs Ho].
          destruct args as [|d [|? ?]]; try (inversion H; subst; reflexivity).
          * destruct (force_first ev s src ops) as [s1 r1] eqn:E1.
            rewrite (force_first_sh _ _ _ _ _ E1 Hb Hh Hs Ho).
            destruct r1 as [[y|]| | |]; inversion H; subst; reflexivity.
          * destruct (ev s c d) as [s0 r0] eqn:E0. rewrite (Hsh _ _ _ _ _ E0 Hb Hh Hc).
            pose proof (Hext _ _ _ _ _ E0) as X0. pose proof (ext_len _ _ X0) as L0.
            destruct (Hwf _ _ _ _ _ E0 Hh Hc) as [Hh0 _].
            destruct r0 as [dv| | |]; cbn [shres]; try (inversion H; subst; reflexivity).
            destruct (force_first ev s0 src ops) as [s1 r1] eqn:E1.
            rewrite (force_first_sh _ _ _ _ _ E1 (on_base_ext _ _ Hb X0) Hh0
                       ltac:(eapply Forall_vok_mono; eassumption) ltac:(eapply Forall_lop_mono; eassumption)).
            destruct r1 as [[y|]| | |]; inversion H; subst; reflexivity.
        + rewrite (none_branch_sh rv A). inversion H; subst. reflexivity.
      - (* toList *)
        rewrite as_seq_sh. destruct (as_seq rv) as [[src ops]|] eqn:A; cbn [option_map fst snd].
        + destruct (as_seq_ok _ _ _ _ Hrv A) as [Hs Ho].
          destruct args as [|? ?]; try (inversion H; subst; reflexivity).
          destruct (force ev s src ops) as [s1 r1] eqn:E1. rewrite (force_sh _ _ _ _ _ E1 Hb Hh Hs Ho).
          destruct r1; inversion H; subst; reflexivity.
        + rewrite (none_branch_sh rv A). inversion H; subst. reflexivity.
      - (* len *)
        destruct rv as [|b|z|s0|l|kvs|c0|src ops]; destruct args as [|? ?]; cbn [shv];
          try (inversion H; subst; cbn [shres shv]; rewrite ?map_length; reflexivity).
        apply vok_iter in Hrv as [Hs Ho].
        destruct (force ev s src ops) as [s1 r1] eqn:E1. rewrite (force_sh _ _ _ _ _ E1 Hb Hh Hs Ho).
        destruct r1; inversion H; subst; cbn [shres shv]; rewrite ?map_length; reflexivity.
      - (* unpack *)
        destruct rv as [|b|z|s0|l|kvs|c0|src ops]; cbn [shv]; try (inversion H; subst; reflexivity).
        apply vok_list in Hrv.
        destruct (eval_seq ev s c args) as [s1 r1] eqn:E1. rewrite (eval_seq_sh _ _ _ _ _ E1 Hb Hh Hc).
        pose proof (eval_seq_ext _ Hext _ _ _ _ _ E1) as X1. pose proof (ext_len _ _ X1) as L1.
        destruct (eval_seq_wf _ Hext Hwf _ _ _ _ _ E1 Hh Hc) as [Hh1 _].
        pose proof (on_base_ext _ _ Hb X1) as Hb1.
        destruct r1 as [names| | |]; cbn [shres]; try (inversion H; subst; reflexivity).
        assert (Hn : fold_right (fun v acc => match v, acc with VStr x, Some a => Some (x :: a) | _, _ => None end) (Some []) (map shv names)
                     = fold_right (fun v acc => match v, acc with VStr x, Some a => Some (x :: a) | _, _ => None end) (Some []) names).
        { clear. induction names as [|v names IH]; [reflexivity|]. cbn [map fold_right]. rewrite IH. destruct v; reflexivity. }
        rewrite Hn.
        match type of H with context [match ?x with _ => _ end] => destruct x as [[|n0 ns]|] end;
          try (inversion H; subst; reflexivity).
        + pose proof (alloc_sh s1 {| cparent := Some c; cdata := number_from 1 l; cfuncs := [] |} _ _ Hb1 eq_refl) as A.
          rewrite shrec_child in A.
          change (map shskv (number_from 1 l)) with (map (fun kv : str * val => (fst kv, shv (snd kv))) (number_from 1 l)) in A.
          rewrite number_from_sh in A. rewrite A. unfold alloc in H. inversion H; subst. reflexivity.
        + rewrite map_length. destruct (Nat.eqb _ _); [|inversion H; subst; reflexivity].
          pose proof (alloc_sh s1 {| cparent := Some c; cdata := combine (n0 :: ns) l; cfuncs := [] |} _ _ Hb1 eq_refl) as A.
          rewrite shrec_child in A.
          change (map shskv (combine (n0 :: ns) l)) with (map (fun kv : str * val => (fst kv, shv (snd kv))) (combine (n0 :: ns) l)) in A.
          rewrite combine_sh in A. rewrite A. unfold alloc in H. inversion H; subst. reflexivity.
      - (* get *)
        destruct rv as [|b|z|s0|l|kvs|c0|src ops]; cbn [shv]; try (inversion H; subst; reflexivity).
        destruct (eval_seq ev s c args) as [s1 r1] eqn:E1. rewrite (eval_seq_sh _ _ _ _ _ E1 Hb Hh Hc).
        change (map (fun kv => (shv (fst kv), shv (snd kv))) kvs) with (map shkv kvs).
        destruct r1 as [[|ky [|d [|? ?]]]| | |]; cbn [shres map]; try (inversion H; subst; reflexivity).
        + rewrite is_key_sh, dict_get_sh. destruct (is_key ky); inversion H; subst; cbn [shres]; [|reflexivity].
          destruct (dict_get kvs ky); reflexivity.
        + rewrite is_key_sh, dict_get_sh. destruct (is_key ky); inversion H; subst; cbn [shres]; [|reflexivity].
          destruct (dict_get kvs ky); reflexivity.
      - (* switchCase *)
        destruct rv as [|b|z|s0|l|kvs|c0|src ops]; cbn [shv]; try (inversion H; subst; reflexivity).
        destruct args as [|a0 rest]; [inversion H; subst; reflexivity|].
        match type of H with context [nth_error ?l ?i] => destruct (nth_error l i) as [a|] end;
          [|inversion H; subst; reflexivity].
        exact (Hsh _ _ _ _ _ H Hb Hh Hc).
      - inversion H; subst. reflexivity.
    Qed.
  End Helpers.

  Lemma eval_sh f : ev_sh (eval f).
  Proof.
    induction f as [|f IH]; intros s c e s' r H Hb Hh Hc.
    - cbn in *. inversion H; subst. reflexivity.
    - pose proof (eval_ext f) as IHe. pose proof (eval_wf f) as IHw.
      cbn [eval] in *. destruct e.
      + destruct c0; inversion H; subst; reflexivity.
      + inversion H; subst. reflexivity.
      + inversion H; subst. cbn [shres]. now rewrite lookup_sh.
      + destruct (eval_seq (eval f) s c es) as [s1 r1] eqn:E1. rewrite (eval_seq_sh _ IHe IHw IH _ _ _ _ _ E1 Hb Hh Hc).
        destruct r1; inversion H; subst; reflexivity.
      + exact (eval_map_sh _ IHe IHw IH _ _ _ [] _ _ H Hb Hh Hc).
      + destruct (eval f s c e1) as [s1 r1] eqn:E1. rewrite (IH _ _ _ _ _ E1 Hb Hh Hc).
        pose proof (IHe _ _ _ _ _ E1) as X1. pose proof (ext_len _ _ X1) as L1. destruct (IHw _ _ _ _ _ E1 Hh Hc) as [Hh1 _].
        destruct r1 as [av| | |]; cbn [shres]; try (inversion H; subst; reflexivity).
        destruct (eval f s1 c e2) as [s2 r2] eqn:E2. rewrite (IH _ _ _ _ _ E2 (on_base_ext _ _ Hb X1) Hh1 ltac:(lia)).
        destruct r2 as [iv| | |]; cbn [shres]; inversion H; subst; try reflexivity. f_equal.
        destruct av as [|b|z|s0|l|kvs|c0|src ops]; try reflexivity.
        * destruct iv; try reflexivity. cbn [shv]. apply list_index_sh.
        * change (shv (VDict kvs)) with (VDict (map shkv kvs)).
          destruct iv; try reflexivity; cbn [shv];
            (rewrite dict_get_sh_key by reflexivity); (destruct (dict_get kvs _); reflexivity).
      + assert (Hgen : forall o', (o' = OAnd \/ o' = OOr -> False) ->
                 (match eval f s c e1 with
                  | (s1, Ok av) => match eval f s1 c e2 with
                                   | (s2, Ok bv) => (s2, binop_val o' av bv)
                                   | (s2, Err x) => (s2, Err x) | (s2, Unsup) => (s2, Unsup) | (s2, Fuel) => (s2, Fuel)
                                   end
                  | (s1, Err x) => (s1, Err x) | (s1, Unsup) => (s1, Unsup) | (s1, Fuel) => (s1, Fuel)
                  end) = (s', r) ->
                 (match eval f (ins s) (shc c) e1 with
                  | (s1, Ok av) => match eval f s1 (shc c) e2 with
                                   | (s2, Ok bv) => (s2, binop_val o' av bv)
                                   | (s2, Err x) => (s2, Err x) | (s2, Unsup) => (s2, Unsup) | (s2, Fuel) => (s2, Fuel)
                                   end
                  | (s1, Err x) => (s1, Err x) | (s1, Unsup) => (s1, Unsup) | (s1, Fuel) => (s1, Fuel)
                  end) = (ins s', shres shv r)).
        { intros o' _ H'.
          destruct (eval f s c e1) as [s1 r1] eqn:E1. rewrite (IH _ _ _ _ _ E1 Hb Hh Hc).
          pose proof (IHe _ _ _ _ _ E1) as X1. pose proof (ext_len _ _ X1) as L1. destruct (IHw _ _ _ _ _ E1 Hh Hc) as [Hh1 _].
          destruct r1 as [av| | |]; cbn [shres]; try (inversion H'; subst; reflexivity).
          destruct (eval f s1 c e2) as [s2 r2] eqn:E2. rewrite (IH _ _ _ _ _ E2 (on_base_ext _ _ Hb X1) Hh1 ltac:(lia)).
          destruct r2 as [bv| | |]; cbn [shres]; inversion H'; subst; try reflexivity.
          now rewrite binop_val_sh. }
        destruct o; try (refine (Hgen _ _ H); intros [?|?]; discriminate).
        * destruct (eval f s c e1) as [s1 r1] eqn:E1. rewrite (IH _ _ _ _ _ E1 Hb Hh Hc).
          pose proof (IHe _ _ _ _ _ E1) as X1. pose proof (ext_len _ _ X1) as L1. destruct (IHw _ _ _ _ _ E1 Hh Hc) as [Hh1 _].
          destruct r1 as [av| | |]; cbn [shres]; try (inversion H; subst; reflexivity).
          rewrite truthy_sh. destruct (truthy av) as [[|]| | |]; try (inversion H; subst; reflexivity).
          apply (IH _ _ _ _ _ H (on_base_ext _ _ Hb X1) Hh1). lia.
        * destruct (eval f s c e1) as [s1 r1] eqn:E1. rewrite (IH _ _ _ _ _ E1 Hb Hh Hc).
          pose proof (IHe _ _ _ _ _ E1) as X1. pose proof (ext_len _ _ X1) as L1. destruct (IHw _ _ _ _ _ E1 Hh Hc) as [Hh1 _].
          destruct r1 as [av| | |]; cbn [shres]; try (inversion H; subst; reflexivity).
          rewrite truthy_sh. destruct (truthy av) as [[|]| | |]; try (inversion H; subst; reflexivity).
          apply (IH _ _ _ _ _ H (on_base_ext _ _ Hb X1) Hh1). lia.
      + destruct (eval f s c e) as [s1 r1] eqn:E1. rewrite (IH _ _ _ _ _ E1 Hb Hh Hc).
        destruct r1 as [av| | |]; cbn [shres]; inversion H; subst; try reflexivity. f_equal.
        destruct o; [destruct av; reflexivity|]. rewrite truthy_sh. destruct (truthy av); reflexivity.
      + destruct (eval f s c e) as [s1 r1] eqn:E1. rewrite (IH _ _ _ _ _ E1 Hb Hh Hc).
        destruct r1 as [av| | |]; cbn [shres]; inversion H; subst; try reflexivity. now rewrite dot_kw_sh.
      + destruct (eval f s c e) as [s1 r1] eqn:E1. rewrite (IH _ _ _ _ _ E1 Hb Hh Hc).
        pose proof (IHe _ _ _ _ _ E1) as X1. pose proof (ext_len _ _ X1) as L1. destruct (IHw _ _ _ _ _ E1 Hh Hc) as [Hh1 Hv1].
        destruct r1 as [av| | |]; cbn [shres]; try (inversion H; subst; reflexivity).
        apply (meth_sh _ IHe IHw IH _ _ _ _ _ _ _ H (on_base_ext _ _ Hb X1) Hh1 ltac:(lia)). now apply Hv1.
      + destruct (eval f s c e) as [s1 r1] eqn:E1. rewrite (IH _ _ _ _ _ E1 Hb Hh Hc).
        pose proof (IHe _ _ _ _ _ E1) as X1. pose proof (ext_len _ _ X1) as L1. destruct (IHw _ _ _ _ _ E1 Hh Hc) as [Hh1 Hv1].
        destruct r1 as [av| | |]; cbn [shres]; try (inversion H; subst; reflexivity).
        specialize (Hv1 _ eq_refl).
        destruct av; cbn [shv]; try (inversion H; subst; reflexivity);
          apply (meth_sh _ IHe IHw IH _ _ _ _ _ _ _ H (on_base_ext _ _ Hb X1) Hh1 ltac:(lia)); exact Hv1.
      + destruct (eval_seq (eval f) s c pos) as [s1 r1] eqn:E1. rewrite (eval_seq_sh _ IHe IHw IH _ _ _ _ _ E1 Hb Hh Hc).
        pose proof (eval_seq_ext _ IHe _ _ _ _ _ E1) as X1. pose proof (ext_len _ _ X1) as L1.
        destruct (eval_seq_wf _ IHe IHw _ _ _ _ _ E1 Hh Hc) as [Hh1 _]. pose proof (on_base_ext _ _ Hb X1) as Hb1.
        destruct r1 as [pv| | |]; cbn [shres]; try (inversion H; subst; reflexivity).
        destruct (eval_kw (eval f) s1 c kw) as [s2 r2] eqn:E2. rewrite (eval_kw_sh _ IHe IHw IH _ _ _ _ _ E2 Hb1 Hh1 ltac:(lia)).
        pose proof (eval_kw_ext _ IHe _ _ _ _ _ E2) as X2. pose proof (on_base_ext _ _ Hb1 X2) as Hb2.
        destruct r2 as [kv| | |]; cbn [shres]; try (inversion H; subst; reflexivity).
        pose proof (alloc_sh s2 {| cparent := Some c; cdata := number_from 1 pv ++ kv; cfuncs := [] |} _ _ Hb2 eq_refl) as A.
        rewrite shrec_child, map_app in A.
        change (map shskv (number_from 1 pv)) with (map (fun kv : str * val => (fst kv, shv (snd kv))) (number_from 1 pv)) in A.
        rewrite number_from_sh in A. rewrite A. unfold alloc in H. inversion H; subst. reflexivity.
      + destruct (eval_seq (eval f) s c es) as [s1 r1] eqn:E1. rewrite (eval_seq_sh _ IHe IHw IH _ _ _ _ _ E1 Hb Hh Hc).
        pose proof (eval_seq_ext _ IHe _ _ _ _ _ E1) as X1. pose proof (on_base_ext _ _ Hb X1) as Hb1.
        destruct r1 as [pv| | |]; cbn [shres]; try (inversion H; subst; reflexivity).
        pose proof (alloc_sh s1 {| cparent := Some c; cdata := number_from 1 pv; cfuncs := [] |} _ _ Hb1 eq_refl) as A.
        rewrite shrec_child in A.
        change (map shskv (number_from 1 pv)) with (map (fun kv : str * val => (fst kv, shv (snd kv))) (number_from 1 pv)) in A.
        rewrite number_from_sh in A. rewrite A. unfold alloc in H. inversion H; subst. reflexivity.
      + match type of H with context [alloc s ?rec] => pose proof (alloc_sh s rec _ _ Hb eq_refl) as A end.
        unfold shrec in A. cbn [cparent cdata cfuncs option_map map fst snd] in A.
        rewrite (shc_ge (length (heap s))) in A by (now apply on_base_len).
        rewrite (ins_length s Hb). cbv zeta. rewrite A.
        unfold alloc in H. cbv zeta in H. inversion H; subst. cbn [shres shv]. rewrite (shc_ge (length (heap s))) by (now apply on_base_len). reflexivity.
      + rewrite lookup_func_sh by assumption.
        destruct (lookup_func (heap s) c name) as [[body cap]|] eqn:LF; cbn [option_map shfn fst snd]; [|inversion H; subst; reflexivity].
        assert (Hcap : cap < length (heap s)) by (eapply get_func_ok; eassumption).
        destruct (eval_seq (eval f) s c args) as [s1 r1] eqn:E1. rewrite (eval_seq_sh _ IHe IHw IH _ _ _ _ _ E1 Hb Hh Hc).
        pose proof (eval_seq_ext _ IHe _ _ _ _ _ E1) as X1. pose proof (ext_len _ _ X1) as L1.
        destruct (eval_seq_wf _ IHe IHw _ _ _ _ _ E1 Hh Hc) as [Hh1 Hv1]. pose proof (on_base_ext _ _ Hb X1) as Hb1.
        destruct r1 as [pv| | |]; cbn [shres]; try (inversion H; subst; reflexivity).
        destruct (eval_kw (eval f) s1 c kw) as [s2 r2] eqn:E2. rewrite (eval_kw_sh _ IHe IHw IH _ _ _ _ _ E2 Hb1 Hh1 ltac:(lia)).
        pose proof (eval_kw_ext _ IHe _ _ _ _ _ E2) as X2. pose proof (ext_len _ _ X2) as L2.
        destruct (eval_kw_wf _ IHe IHw _ _ _ _ _ E2 Hh1 ltac:(lia)) as [Hh2 Hv2]. pose proof (on_base_ext _ _ Hb1 X2) as Hb2.
        destruct r2 as [kv| | |]; cbn [shres]; try (inversion H; subst; reflexivity).
        apply (invoke_sh _ IH _ _ _ _ _ _ _ H Hb2 Hh2 ltac:(lia)); [|now apply Hv2].
        eapply Forall_vok_mono; [exact L2|now apply Hv1].
      + destruct (eval f s c e) as [s1 r1] eqn:E1. rewrite (IH _ _ _ _ _ E1 Hb Hh Hc).
        destruct r1; cbn [shres]; inversion H; subst; reflexivity.
      + exact (eval_switch_sh _ IHe IHw IH _ _ _ _ _ H Hb Hh Hc).
      + exact (eval_coalesce_sh _ IHe IHw IH _ _ _ _ _ H Hb Hh Hc).
      + destruct (eval f s c e1) as [s1 r1] eqn:E1. rewrite (IH _ _ _ _ _ E1 Hb Hh Hc).
        pose proof (IHe _ _ _ _ _ E1) as X1. pose proof (ext_len _ _ X1) as L1. destruct (IHw _ _ _ _ _ E1 Hh Hc) as [Hh1 Hv1].
        destruct r1 as [av| | |]; cbn [shres]; try (inversion H; subst; reflexivity).
        specialize (Hv1 _ eq_refl).
        destruct av; cbn [shv]; try (inversion H; subst; reflexivity).
        apply (IH _ _ _ _ _ H (on_base_ext _ _ Hb X1) Hh1). exact Hv1.
      + exact (eval_select_case_sh _ IHe IHw IH _ _ _ _ _ _ H Hb Hh Hc).
  Qed.

  (* ---------- finalisation ---------- *)
  Definition fin_sh (fin : st -> val -> st * res val) : Prop :=
    forall s v s' r, fin s v = (s', r) -> on_base s -> hok (heap s) -> vok (length (heap s)) v ->
      fin (ins s) (shv v) = (ins s', shres shv r).

  Section FinHelpers.
    Variable ev : st -> nat -> expr -> st * res val.
    Variable fin : st -> val -> st * res val.
    Hypothesis Hext : ev_ext ev.
    Hypothesis Hwf : ev_wf ev.
    Hypothesis Hsh : ev_sh ev.
    Hypothesis Hfe : fin_ext fin.
    Hypothesis Hfw : fin_wf fin.
    Hypothesis Hfs : fin_sh fin.

    Lemma fin_list_sh l : forall s s' r, fin_list fin s l = (s', r) -> on_base s -> hok (heap s) ->
      Forall (vok (length (heap s))) l -> fin_list fin (ins s) (map shv l) = (ins s', shres (map shv) r).
    Proof.
      induction l as [|x l IH]; intros s s' r H Hb Hh Hl; cbn [fin_list map] in *.
      - inversion H; subst. reflexivity.
      - inversion Hl as [|? ? Hx Hl']; subst.
        destruct (fin s x) as [s1 r1] eqn:E1. rewrite (Hfs _ _ _ _ E1 Hb Hh Hx).
        pose proof (Hfe _ _ _ _ E1) as X1. pose proof (ext_len _ _ X1) as L1. pose proof (Hfw _ _ _ _ E1 Hh Hx) as Hh1.
        destruct r1 as [y| | |]; cbn [shres]; try (inversion H; subst; reflexivity).
        destruct (fin_list fin s1 l) as [s2 r2] eqn:E2.
        rewrite (IH _ _ _ E2 (on_base_ext _ _ Hb X1) Hh1 ltac:(eapply Forall_vok_mono; eassumption)).
        destruct r2; inversion H; subst; reflexivity.
    Qed.

    Lemma fin_dict_sh l : forall s s' r, fin_dict fin s l = (s', r) -> on_base s -> hok (heap s) ->
      Forall (fun kv => vok (length (heap s)) (fst kv) /\ vok (length (heap s)) (snd kv)) l ->
      fin_dict fin (ins s) (map shkv l) = (ins s', shres (map shkv) r).
    Proof.
      induction l as [|[a x] l IH]; intros s s' r H Hb Hh Hl; cbn [fin_dict map shkv fst snd] in *.
      - inversion H; subst. reflexivity.
      - inversion Hl as [|? ? [Ha Hx] Hl']; subst. cbn in Ha, Hx.
        destruct (fin s x) as [s1 r1] eqn:E1. rewrite (Hfs _ _ _ _ E1 Hb Hh Hx).
        pose proof (Hfe _ _ _ _ E1) as X1. pose proof (ext_len _ _ X1) as L1. pose proof (Hfw _ _ _ _ E1 Hh Hx) as Hh1.
        destruct r1 as [y| | |]; cbn [shres]; try (inversion H; subst; reflexivity).
        destruct (fin_dict fin s1 l) as [s2 r2] eqn:E2.
        assert (Hl1 : Forall (fun kv => vok (length (heap s1)) (fst kv) /\ vok (length (heap s1)) (snd kv)) l).
        { eapply Forall_impl; [|exact Hl']. intros kv [P Q]. split; eapply vok_mono; eassumption. }
        rewrite (IH _ _ _ E2 (on_base_ext _ _ Hb X1) Hh1 Hl1).
        destruct r2; inversion H; subst; reflexivity.
    Qed.

    Lemma fin_iter_sh l : forall s ops s' r, fin_iter ev fin s l ops = (s', r) -> on_base s -> hok (heap s) ->
      Forall (vok (length (heap s))) l -> Forall (lop_ok (length (heap s))) ops ->
      fin_iter ev fin (ins s) (map shv l) (map shlop ops) = (ins s', shres (map shv) r).
    Proof.
      induction l as [|x l IH]; intros s ops s' r H Hb Hh Hl Ho; cbn [fin_iter map] in *.
      - inversion H; subst. reflexivity.
      - inversion Hl as [|? ? Hx Hl']; subst.
        destruct (through ev s x ops) as [s1 r1] eqn:E1. rewrite (through_sh _ Hext Hwf Hsh _ _ _ _ _ E1 Hb Hh Hx Ho).
        pose proof (through_ext _ Hext _ _ _ _ _ E1) as X1. pose proof (ext_len _ _ X1) as L1.
        destruct (through_wf _ Hext Hwf _ _ _ _ _ E1 Hh Hx Ho) as [Hh1 Hv1]. pose proof (on_base_ext _ _ Hb X1) as Hb1.
        destruct r1 as [[y|]| | |]; cbn [shres option_map]; try (inversion H; subst; reflexivity).
        + destruct (fin s1 y) as [s2 r2] eqn:E2. rewrite (Hfs _ _ _ _ E2 Hb1 Hh1 (Hv1 _ eq_refl)).
          pose proof (Hfe _ _ _ _ E2) as X2. pose proof (ext_len _ _ X2) as L2. pose proof (Hfw _ _ _ _ E2 Hh1 (Hv1 _ eq_refl)) as Hh2.
          destruct r2 as [z| | |]; cbn [shres]; try (inversion H; subst; reflexivity).
          destruct (fin_iter ev fin s2 l ops) as [s3 r3] eqn:E3.
          rewrite (IH _ _ _ _ E3 (on_base_ext _ _ Hb1 X2) Hh2 ltac:(eapply Forall_vok_mono; [|exact Hl']; lia)
                     ltac:(eapply Forall_lop_mono; [|exact Ho]; lia)).
          destruct r3; inversion H; subst; reflexivity.
        + apply (IH _ _ _ _ H Hb1 Hh1); [eapply Forall_vok_mono; eassumption|eapply Forall_lop_mono; eassumption].
    Qed.
  End FinHelpers.

  Lemma finalize_sh f : fin_sh (finalize f).
  Proof.
    induction f as [|f IH]; intros s v s' r H Hb Hh Hv.
    - cbn in *. inversion H; subst. reflexivity.
    - cbn [finalize] in *. destruct v as [|b|z|s0|l|kvs|c|src ops]; cbn [shv]; try (inversion H; subst; reflexivity).
      + destruct (fin_list (finalize f) s l) as [s1 r1] eqn:E.
        rewrite (fin_list_sh _ (finalize_ext f) (finalize_wf f) IH _ _ _ _ E Hb Hh (proj1 (vok_list _ _) Hv)).
        destruct r1; inversion H; subst; reflexivity.
      + destruct (fin_dict (finalize f) s kvs) as [s1 r1] eqn:E.
        change (map (fun kv => (shv (fst kv), shv (snd kv))) kvs) with (map shkv kvs).
        rewrite (fin_dict_sh _ (finalize_ext f) (finalize_wf f) IH _ _ _ _ E Hb Hh (proj1 (vok_dict _ _) Hv)).
        destruct r1; inversion H; subst; reflexivity.
      + destruct (fin_iter (eval f) (finalize f) s src ops) as [s1 r1] eqn:E.
        apply vok_iter in Hv as [Hs Ho].
        rewrite (fin_iter_sh _ _ (eval_ext f) (eval_wf f) (eval_sh f) (finalize_ext f) (finalize_wf f) IH _ _ _ _ _ E Hb Hh Hs Ho).
        destruct r1; inversion H; subst; reflexivity.
  Qed.
End Shift.

(* ---------- the statement for Statement.evaluate in a fresh child of a prepared chain ---------- *)
From YV Require Import Lemmas.EvalThreads.

Lemma hok_base_ok base : hok base -> base_ok base.
Proof.
  intro Hh. unfold base_ok. apply Forall_forall. intros r Hin.
  destruct (In_nth_error _ _ Hin) as [i Hi].
  assert (Hlt : i < length base) by (apply nth_error_Some; congruence).
  destruct (Hh i r Hi) as (Hp & Hd & Hf). split; [|split].
  - intros p E. specialize (Hp p E). lia.
  - exact Hd.
  - eapply Forall_impl; [|exact Hf]. intros fn Hle. cbn in Hle |- *. lia.
Qed.

(* Garbage - any block g of contexts left behind by whatever ran before - does not influence an evaluation started in
   a fresh child of a context of the prepared chain: same tick log, same error, and the same value up to the renaming
   of the ids of contexts allocated by this very evaluation. *)
Theorem garbage_irrelevant fuel base g c data e :
  hok base -> c < length base -> vok (length base) data ->
  let j := {| j_parent := c; j_data := data; j_expr := e |} in
  snd (run_job fuel (base ++ g) j)
  = (fst (snd (run_job fuel base j)), shres (shv base g) (snd (snd (run_job fuel base j)))).
Proof.
  intros Hh Hc Hd j. pose proof (hok_base_ok base Hh) as Hb.
  unfold run_job. cbn [j_parent j_data j_expr j].
  set (child := {| cparent := Some c; cdata := [([49%Z], data)]; cfuncs := [] |}).
  set (s0 := {| heap := base ++ [child]; log := [] |}).
  assert (Hins : {| heap := (base ++ g) ++ [child]; log := [] |} = ins base g s0).
  { unfold ins. cbn [log]. f_equal. rewrite <- app_assoc. do 2 f_equal.
    assert (E : skipn (length base) (heap s0) = [child]).
    { subst s0. cbn [heap]. rewrite skipn_app, skipn_all, Nat.sub_diag. reflexivity. }
    rewrite E. cbn [map]. f_equal. symmetry. apply shrec_closed. split; [|split]; cbn.
    - intros p E'. injection E' as <-. exact Hc.
    - repeat constructor. exact Hd.
    - constructor. }
  rewrite Hins.
  assert (Hob : on_base base s0) by (exists [child]; reflexivity).
  assert (Hh0 : hok (heap s0)).
  { subst s0 child. cbn [heap]. apply (hok_alloc_child {| heap := base; log := [] |}); cbn [heap]; try assumption; [|constructor].
    repeat constructor. exact Hd. }
  assert (Hc0 : length base < length (heap s0)) by (subst s0; cbn [heap]; rewrite app_length; cbn; lia).
  assert (Hlen : length (base ++ g) = shc base g (length base)).
  { rewrite shc_ge by lia. apply app_length. }
  rewrite Hlen.
  destruct (eval fuel s0 (length base) e) as [s1 r1] eqn:E1.
  rewrite (eval_sh base g Hb fuel _ _ _ _ _ E1 Hob Hh0 Hc0).
  pose proof (eval_ext fuel _ _ _ _ _ E1) as X1.
  destruct (eval_wf fuel _ _ _ _ _ E1 Hh0 Hc0) as [Hh1 Hv1].
  destruct r1 as [v| | |]; cbn [shres]; try reflexivity.
  destruct (finalize fuel s1 v) as [s2 r2] eqn:E2.
  rewrite (finalize_sh base g Hb fuel _ _ _ _ E2 (on_base_ext base _ _ Hob X1) Hh1 (Hv1 _ eq_refl)).
  reflexivity.
Qed.

(* values without context ids (any JSON-like result) are not renamed at all *)
Lemma shv_idfree base g v : vok 0 v -> shv base g v = v.
Proof. intro H. apply shv_closed. eapply vok_mono; [|exact H]. lia. Qed.
