(* C15 - sets and dicts of integers: the ordering operators on sets are the subset relations
   (a partial order, not a total one); difference, union and dict merge meet their
   element-wise specifications. *)
From Coq Require Import List ZArith Bool Lia.
From YV Require Import Common.Corr Model.Scalars Gen.ScalarOps Lemmas.Scalars Lemmas.ScalarsTable Lemmas.ScalarsEval.
Import ListNotations.

Lemma zmem_In : forall x l, zmem x l = true <-> In x l.
Proof.
  intros x l. unfold zmem. rewrite existsb_exists. split.
  - intros (y & Hy & E). apply Z.eqb_eq in E. subst. exact Hy.
  - intros H. exists x. split; [exact H | apply Z.eqb_refl].
Qed.

Lemma subsetb_spec : forall a b, subsetb a b = true <-> (forall x, In x a -> In x b).
Proof.
  intros a b. unfold subsetb. rewrite forallb_forall. split.
  - intros H x Hx. apply zmem_In. exact (H x Hx).
  - intros H x Hx. apply zmem_In. exact (H x Hx).
Qed.

Lemma subsetb_false : forall a b, subsetb a b = false <-> ~ (forall x, In x a -> In x b).
Proof.
  intros a b. rewrite <- subsetb_spec. destruct (subsetb a b); split; intros H; congruence.
Qed.

Lemma set_eqb_spec : forall a b, set_eqb a b = true <-> (forall x, In x a <-> In x b).
Proof.
  intros a b. unfold set_eqb. rewrite andb_true_iff, !subsetb_spec. split.
  - intros [H1 H2] x. split; auto.
  - intros H. split; intros x; apply H.
Qed.

Lemma set_diff_spec : forall a b x, In x (set_diff a b) <-> In x a /\ ~ In x b.
Proof.
  intros a b x. unfold set_diff. rewrite filter_In, negb_true_iff. rewrite <- (zmem_In x b).
  destruct (zmem x b); intuition congruence.
Qed.

Lemma set_union_spec : forall a b x, In x (set_union a b) <-> In x a \/ In x b.
Proof.
  induction a as [|y a IH]; intros b x; cbn [set_union].
  - cbn. tauto.
  - destruct (zmem y b) eqn:E.
    + rewrite IH. apply zmem_In in E. cbn. split; [tauto|]. intros [[->|H]|H]; auto.
    + cbn. rewrite IH. tauto.
Qed.

Lemma dlookup_app : forall k a b,
  dlookup k (a ++ b) = match dlookup k a with Some v => Some v | None => dlookup k b end.
Proof.
  induction a as [|[k' v] a IH]; intros b; cbn [dlookup app]; [reflexivity|].
  destruct (Z.eqb k k'); [reflexivity | apply IH].
Qed.

Lemma dlookup_none : forall k d, dlookup k d = None <-> zmem k (dkeys d) = false.
Proof.
  induction d as [|[k' v] d IH]; cbn [dlookup dkeys map fst zmem existsb]; [tauto|].
  destruct (Z.eqb k k'); cbn [orb]; [split; discriminate | exact IH].
Qed.

Lemma dict_add_lookup : forall a b k,
  dlookup k (dict_add a b) = match dlookup k b with Some v => Some v | None => dlookup k a end.
Proof.
  intros a b k. unfold dict_add. rewrite dlookup_app.
  destruct (dlookup k b) as [v|] eqn:Eb.
  - (* k is a key of b: it was filtered out of a *)
    assert (Hm : zmem k (dkeys b) = true).
    { destruct (zmem k (dkeys b)) eqn:E; [reflexivity|]. apply dlookup_none in E. congruence. }
    assert (Hf : dlookup k (filter (fun kv => negb (zmem (fst kv) (dkeys b))) a) = None).
    { induction a as [|[k' v'] a IH]; cbn [filter dlookup fst]; [reflexivity|].
      destruct (zmem k' (dkeys b)) eqn:E; cbn [negb]; [exact IH|].
      cbn [dlookup]. destruct (Z.eqb k k') eqn:K; [|exact IH].
      apply Z.eqb_eq in K. subst. congruence. }
    rewrite Hf. reflexivity.
  - apply dlookup_none in Eb.
    assert (Hf : dlookup k (filter (fun kv => negb (zmem (fst kv) (dkeys b))) a) = dlookup k a).
    { induction a as [|[k' v'] a IH]; cbn [filter dlookup fst]; [reflexivity|].
      destruct (zmem k' (dkeys b)) eqn:E; cbn [negb dlookup].
      - destruct (Z.eqb k k') eqn:K; [|exact IH]. apply Z.eqb_eq in K. subst. congruence.
      - destruct (Z.eqb k k'); [reflexivity | exact IH]. }
    rewrite Hf. destruct (dlookup k a); reflexivity.
Qed.

Section Sets.
Variable cf : cfg.
Variable F : Type.
Variable fo : fops F.
Notation ev := (ev cf F fo).
Notation holds := (holds cf F fo).

Ltac inlist := cbn; tauto.

Lemma ev_set_cmp : forall c (a b : list Z),
  ev (op_of c) [VSet a; VSet b] = RVal (VBool (set_cmp c a b)).
Proof. intros c a b. destruct c; cbn [op_of]; rewrite ev2 by inlist; reflexivity. Qed.

Lemma ev_set_eq : forall a b : list Z, ev OEq [VSet a; VSet b] = RVal (VBool (set_eqb a b)).
Proof. intros a b. rewrite ev2 by inlist. reflexivity. Qed.

Lemma holds_set : forall (a b : list Z),
  (holds OLe (VSet a) (VSet b) <-> (forall x, In x a -> In x b)) /\
  (holds OGe (VSet a) (VSet b) <-> (forall x, In x b -> In x a)) /\
  (holds OLt (VSet a) (VSet b) <-> (forall x, In x a -> In x b) /\ ~ (forall x, In x b -> In x a)) /\
  (holds OGt (VSet a) (VSet b) <-> (forall x, In x b -> In x a) /\ ~ (forall x, In x a -> In x b)) /\
  (holds OEq (VSet a) (VSet b) <-> (forall x, In x a <-> In x b)).
Proof.
  intros a b. unfold ScalarsEval.holds.
  pose proof (ev_set_cmp CLe a b) as H1. pose proof (ev_set_cmp CGe a b) as H2.
  pose proof (ev_set_cmp CLt a b) as H3. pose proof (ev_set_cmp CGt a b) as H4.
  cbn [op_of set_cmp] in H1, H2, H3, H4. rewrite H1, H2, H3, H4, ev_set_eq. rewrite !rv_true.
  rewrite !andb_true_iff, !negb_true_iff, !subsetb_spec, !subsetb_false, set_eqb_spec. tauto.
Qed.

(* the subset order on sets is a partial order, and the four operators and = fit together *)
Lemma set_order_partial : forall a b c : list Z,
  holds OLe (VSet a) (VSet a) /\
  (holds OLe (VSet a) (VSet b) -> holds OLe (VSet b) (VSet a) -> holds OEq (VSet a) (VSet b)) /\
  (holds OLe (VSet a) (VSet b) -> holds OLe (VSet b) (VSet c) -> holds OLe (VSet a) (VSet c)) /\
  (holds OLt (VSet a) (VSet b) -> holds OLt (VSet b) (VSet c) -> holds OLt (VSet a) (VSet c)) /\
  (holds OLt (VSet a) (VSet b) <-> holds OLe (VSet a) (VSet b) /\ ~ holds OEq (VSet a) (VSet b)) /\
  (holds OGt (VSet a) (VSet b) <-> holds OLt (VSet b) (VSet a)) /\
  (holds OGe (VSet a) (VSet b) <-> holds OLe (VSet b) (VSet a)) /\
  ~ (holds OLt (VSet a) (VSet b) /\ holds OGt (VSet a) (VSet b)).
Proof.
  intros a b c.
  destruct (holds_set a a) as (Laa & _).
  destruct (holds_set a b) as (Lab & Gab & LTab & GTab & Eab).
  destruct (holds_set b a) as (Lba & Gba & LTba & GTba & Eba).
  destruct (holds_set b c) as (Lbc & _ & LTbc & _ & _).
  destruct (holds_set a c) as (Lac & _ & LTac & _ & _).
  rewrite Laa, Lab, Gab, LTab, GTab, Eab, Lba, LTba, Lbc, LTbc, Lac, LTac.
  repeat (match goal with |- _ /\ _ => split end).
  - tauto.
  - intros H1 H2 x. split; auto.
  - intros H1 H2 x Hx. auto.
  - intros [H1 N1] [H2 N2]. split; [intros x Hx; auto|]. intros H3. apply N1. intros x Hx. apply H3. auto.
  - split.
    + intros [H1 N1]. split; [exact H1|]. intros E. apply N1. intros x Hx. apply E. exact Hx.
    + intros [H1 N1]. split; [exact H1|]. intros H2. apply N1. intros x. split; auto.
  - tauto.
  - tauto.
  - tauto.
Qed.

End Sets.

(* totality fails: {1} and {2} are neither below, equal nor above each other - in every
   configuration and whatever the floats are *)
Lemma set_trichotomy_refuted : forall cf F fo, exists a b : list Z,
  fails cf F fo OLt (VSet a) (VSet b) /\ fails cf F fo OEq (VSet a) (VSet b) /\ fails cf F fo OGt (VSet a) (VSet b) /\
  fails cf F fo OLe (VSet a) (VSet b) /\ fails cf F fo OGe (VSet a) (VSet b).
Proof.
  intros cf F fo. exists [1%Z], [2%Z]. unfold fails.
  pose proof (ev_set_cmp cf F fo CLt [1%Z] [2%Z]) as H1. pose proof (ev_set_cmp cf F fo CGt [1%Z] [2%Z]) as H2.
  pose proof (ev_set_cmp cf F fo CLe [1%Z] [2%Z]) as H3. pose proof (ev_set_cmp cf F fo CGe [1%Z] [2%Z]) as H4.
  cbn [op_of] in H1, H2, H3, H4. rewrite H1, H2, H3, H4, ev_set_eq. repeat split.
Qed.

Section SetOps.
Variable cf : cfg.
Variable F : Type.
Variable fo : fops F.
Ltac inlist := cbn; tauto.

Lemma set_dict_ops : forall (a b : list Z) (d e : list (Z * Z)),
  (exists r, ev cf F fo OSub [VSet a; VSet b] = RVal (VSet r) /\ forall x, In x r <-> In x a /\ ~ In x b) /\
  (exists r, ev cf F fo OAdd [VSet a; VSet b] = RVal (VSet r) /\ forall x, In x r <-> In x a \/ In x b) /\
  (exists r, ev cf F fo OAdd [VDict d; VDict e] = RVal (VDict r) /\
             forall k, dlookup k r = match dlookup k e with Some v => Some v | None => dlookup k d end) /\
  (forall z : Z, ev cf F fo OIn [VInt z; VSet a] = RVal (VBool true) <-> In z a).
Proof.
  intros a b d e. split; [|split; [|split]].
  - exists (set_diff a b). split; [rewrite ev2 by inlist; reflexivity | apply set_diff_spec].
  - exists (set_union a b). split; [rewrite ev2 by inlist; destruct cf; reflexivity | apply set_union_spec].
  - exists (dict_add d e). split; [rewrite ev2 by inlist; destruct cf; reflexivity | apply dict_add_lookup].
  - intros z. rewrite ev2 by inlist.
    replace (expected2 cf OIn (kind_of F (VInt z)) (kind_of F (VSet a))) with (DPayload PCollIn) by (destruct cf; reflexivity).
    cbn. rewrite rv_true, existsb_exists. split.
    + intros (y & Hy & E). unfold py_eq in E. cbn in E.
      destruct (Z.compare z y) eqn:C; try discriminate. apply Z.compare_eq_iff in C. subst. exact Hy.
    + intros H. exists z. split; [exact H|]. unfold py_eq. cbn. rewrite Z.compare_refl. reflexivity.
Qed.
End SetOps.
