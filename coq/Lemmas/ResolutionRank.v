(* The positional-fix table: when the positions of a signature are pairwise distinct, the slot a
   visible positional parameter reads (position minus the number of hidden parameters to its left)
   is strictly increasing in the position - so no two visible parameters read the same slot. *)
From Coq Require Import List ZArith Bool Arith Lia.
From YV Require Import Common.Corr Model.Resolution Lemmas.ResolutionBind.
Import ListNotations.

Lemma nodup_app_r {A} (a b : list A) : NoDup (a ++ b) -> NoDup b.
Proof. induction a as [|x a IH]; cbn; intro N; [exact N|]. inversion N; auto. Qed.

Definition posof (p : param) : list nat := match ppos p with Some q => [q] | None => [] end.
Definition all_pos (ps : list param) : list nat := flat_map posof ps.
Definition hposs (ps : list param) : list nat :=
  flat_map (fun p => if is_hidden (pkind p) then posof p else []) ps.

Lemma fix_at_hposs ps j : fix_at ps j = length (filter (fun q => Nat.ltb q j) (hposs ps)).
Proof.
  unfold fix_at, hposs. induction ps as [|p r IH]; [reflexivity|]. cbn [filter flat_map].
  rewrite filter_app, app_length, <- IH. unfold posof.
  destruct (is_hidden (pkind p)); cbn [andb]; [|reflexivity].
  destruct (ppos p) as [q|]; cbn [filter]; [|reflexivity].
  destruct (Nat.ltb q j); reflexivity.
Qed.

Lemma hposs_incl ps x : In x (hposs ps) -> In x (all_pos ps).
Proof.
  unfold hposs, all_pos. induction ps as [|p r IH]; cbn; [tauto|].
  intro H. apply in_app_or in H as [H|H]; apply in_or_app.
  - left. destruct (is_hidden (pkind p)); [exact H | contradiction].
  - right. apply IH, H.
Qed.

Lemma hposs_nodup ps : NoDup (all_pos ps) -> NoDup (hposs ps).
Proof.
  unfold hposs, all_pos. induction ps as [|p r IH]; cbn; intro N; [constructor|].
  destruct (is_hidden (pkind p)).
  - unfold posof in *. destruct (ppos p) as [q|]; cbn in *; [|apply IH, N].
    inversion N as [|? ? Hn N']; subst. constructor; [|apply IH, N'].
    intro H. apply Hn. apply (hposs_incl r q H).
  - cbn. apply IH. unfold posof in N. destruct (ppos p); cbn in N; [inversion N; assumption | exact N].
Qed.

Lemma all_pos_In ps p a : In p ps -> ppos p = Some a -> In a (all_pos ps).
Proof.
  intros H E. unfold all_pos. apply in_flat_map. exists p. split; [exact H|]. unfold posof. rewrite E. left. reflexivity.
Qed.

Lemma visible_not_hposs ps p a :
  NoDup (all_pos ps) -> In p ps -> ppos p = Some a -> is_hidden (pkind p) = false -> ~ In a (hposs ps).
Proof.
  induction ps as [|x r IH]; cbn; [tauto|]. intros N [H|H] E Hh.
  - subst x. unfold all_pos in N. cbn in N. unfold posof at 1 in N. rewrite E in N. cbn in N.
    inversion N as [|? ? Hn N']; subst. unfold hposs. cbn. rewrite Hh. cbn.
    intro Hi. apply Hn. apply (hposs_incl r a Hi).
  - unfold all_pos in N. cbn in N. pose proof (nodup_app_r _ _ N) as N'.
    unfold hposs. cbn. intro Hi. apply in_app_or in Hi as [Hi|Hi].
    + destruct (is_hidden (pkind x)); [|contradiction]. unfold posof in Hi, N.
      destruct (ppos x) as [q|]; [|contradiction]. destruct Hi as [->|[]]. cbn in N.
      inversion N as [|? ? Hn _]; subst. apply Hn. apply (all_pos_In r p a H E).
    + exact (IH N' H E Hh Hi).
Qed.

Lemma same_pos_same_param ps p q a :
  NoDup (all_pos ps) -> In p ps -> In q ps -> ppos p = Some a -> ppos q = Some a -> p = q.
Proof.
  induction ps as [|x r IH]; cbn; [tauto|]. intros N Hp Hq Ep Eq.
  unfold all_pos in N. cbn in N.
  assert (Hx : forall y, In y r -> ppos y = Some a -> ppos x = Some a -> False).
  { intros y Hy Ey Ex. unfold posof at 1 in N. rewrite Ex in N. cbn in N. inversion N as [|? ? Hn _]; subst.
    apply Hn. apply (all_pos_In r y a Hy Ey). }
  destruct Hp as [Hp|Hp]; destruct Hq as [Hq|Hq].
  - congruence.
  - subst x. exfalso. exact (Hx q Hq Eq Ep).
  - subst x. exfalso. exact (Hx p Hp Ep Eq).
  - apply nodup_app_r in N. exact (IH N Hp Hq Ep Eq).
Qed.

(* counting distinct naturals in a range *)
Lemma count_range (l : list nat) a b : NoDup l ->
  length (filter (fun x => Nat.leb a x && Nat.ltb x b) l) <= b - a.
Proof.
  intro N. rewrite <- (seq_length (b - a) a). apply NoDup_incl_length; [apply NoDup_filter, N|].
  intros x H. apply filter_In in H as [_ H]. apply andb_true_iff in H as [H1 H2].
  apply Nat.leb_le in H1. apply Nat.ltb_lt in H2. apply in_seq. lia.
Qed.

Lemma count_split (l : list nat) a b : a <= b ->
  length (filter (fun x => Nat.ltb x b) l) =
  length (filter (fun x => Nat.ltb x a) l) + length (filter (fun x => Nat.leb a x && Nat.ltb x b) l).
Proof.
  intro H. induction l as [|x r IH]; [reflexivity|]. cbn [filter].
  destruct (Nat.ltb_spec x b); destruct (Nat.ltb_spec x a); destruct (Nat.leb_spec a x); cbn [andb length]; lia.
Qed.

Lemma count_range_skip (l : list nat) a b : ~ In a l ->
  filter (fun x => Nat.leb a x && Nat.ltb x b) l = filter (fun x => Nat.leb (S a) x && Nat.ltb x b) l.
Proof.
  intro H. induction l as [|x r IH]; [reflexivity|]. cbn [filter].
  assert (x <> a) by (intro; apply H; left; congruence).
  rewrite IH by (intro; apply H; right; assumption).
  replace (Nat.leb (S a) x) with (Nat.leb a x); [reflexivity|].
  destruct (Nat.leb_spec a x); destruct (Nat.leb_spec (S a) x); try reflexivity; lia.
Qed.

(* slots increase strictly with positions *)
Lemma rank_mono ps p q a b :
  NoDup (all_pos ps) -> In p ps -> ppos p = Some a -> is_hidden (pkind p) = false ->
  ppos q = Some b -> a < b -> rank ps p < rank ps q.
Proof.
  intros N Hp Ep Hh Eq Hab. unfold rank. rewrite Ep, Eq, !fix_at_hposs.
  pose proof (hposs_nodup ps N) as Nh.
  pose proof (visible_not_hposs ps p a N Hp Ep Hh) as Ha.
  pose proof (count_split (hposs ps) a b (Nat.lt_le_incl _ _ Hab)) as S1.
  rewrite (count_range_skip _ a b Ha) in S1.
  pose proof (count_range (hposs ps) (S a) b Nh) as R1.
  pose proof (count_range (hposs ps) 0 a Nh) as R0.
  assert (E0 : filter (fun x => Nat.leb 0 x && Nat.ltb x a) (hposs ps) = filter (fun x => Nat.ltb x a) (hposs ps)).
  { apply filter_ext. intro x. reflexivity. }
  rewrite E0 in R0. lia.
Qed.

(* the premise of the spelling theorem follows from distinct positions *)
Theorem rank_inj_of_positions ps : NoDup (all_pos ps) -> rank_inj ps.
Proof.
  intros N p q Hp Hq Vp Vq E.
  unfold is_vispos, binds, is_positional in Vp, Vq.
  destruct (ppos p) as [a|] eqn:Ep; [|rewrite andb_false_r in Vp; discriminate].
  destruct (ppos q) as [b|] eqn:Eq; [|rewrite andb_false_r in Vq; discriminate].
  apply andb_true_iff in Vp as [Vp _]. apply andb_true_iff in Vp as [Hhp _]. apply negb_true_iff in Hhp.
  apply andb_true_iff in Vq as [Vq _]. apply andb_true_iff in Vq as [Hhq _]. apply negb_true_iff in Hhq.
  destruct (Nat.lt_trichotomy a b) as [H|[H|H]].
  - pose proof (rank_mono ps p q a b N Hp Ep Hhp Eq H). lia.
  - subst b. rewrite (same_pos_same_param ps p q a N Hp Hq Ep Eq). reflexivity.
  - pose proof (rank_mono ps q p b a N Hq Eq Hhq Ep H). lia.
Qed.
