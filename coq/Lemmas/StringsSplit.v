(* Proofs about split / rsplit / join / replace (Model/Strings.v). *)
From Coq Require Import List ZArith Bool Lia ZifyBool Arith.
From YV Require Import Common.Corr Model.Strings Lemmas.StringsSlice Lemmas.StringsFind.
Import ListNotations.
Open Scope Z_scope.

(* ---- join ---------------------------------------------------------------------- *)
Lemma join_cons2 sep x y r : join sep (x :: y :: r) = x ++ sep ++ join sep (y :: r).
Proof. reflexivity. Qed.

Lemma join_cons_ne sep x l : l <> [] -> join sep (x :: l) = x ++ sep ++ join sep l.
Proof. destruct l as [|y r]; [congruence|]. intros _. reflexivity. Qed.

Lemma join_cons_hd sep c l : join sep (cons_hd c l) = c :: join sep l.
Proof.
  destruct l as [|h t]; [reflexivity|]. destruct t as [|h' t]; reflexivity.
Qed.

Lemma cons_hd_ne c l : cons_hd c l <> [].
Proof. destruct l; cbn; congruence. Qed.

Lemma join_snoc sep l x : l <> [] -> join sep (l ++ [x]) = join sep l ++ sep ++ x.
Proof.
  induction l as [|a l IH]; [congruence|]. intros _.
  destruct l as [|b l].
  - reflexivity.
  - change ((a :: b :: l) ++ [x]) with (a :: (b :: l) ++ [x]).
    rewrite join_cons_ne by (destruct l; cbn; congruence).
    rewrite IH by congruence. rewrite join_cons2. rewrite <- !app_assoc. reflexivity.
Qed.

Lemma join_rev sep l : join sep (rev (map (@rev Z) l)) = rev (join (rev sep) l).
Proof.
  induction l as [|a l IH]; [reflexivity|].
  cbn [map rev]. destruct l as [|b l].
  - reflexivity.
  - rewrite join_snoc.
    + rewrite IH. rewrite join_cons2. rewrite !rev_app_distr, rev_involutive, <- !app_assoc. reflexivity.
    + cbn [map rev]. destruct (rev (map (@rev Z) l)); cbn; congruence.
Qed.

(* ---- split ---------------------------------------------------------------------- *)
Lemma split_go_ne sep s skip cnt : split_go sep s skip cnt <> [].
Proof.
  revert skip cnt; induction s as [|c r IH]; intros skip cnt; cbn [split_go]; [congruence|].
  destruct skip as [|k]; [|apply IH].
  destruct (negb (cnt =? 0) && prefixb sep (c :: r)); [congruence|apply cons_hd_ne].
Qed.

Lemma split_go_join sep : sep <> [] -> forall s skip cnt,
  join sep (split_go sep s skip cnt) = skipn skip s.
Proof.
  intros Hsep. induction s as [|c r IH]; intros skip cnt; cbn [split_go].
  - rewrite skipn_nil. reflexivity.
  - destruct skip as [|k]; [|apply IH].
    destruct (negb (cnt =? 0) && prefixb sep (c :: r)) eqn:E.
    + apply andb_true_iff in E as [_ Hp]. apply prefixb_true in Hp as [t Ht].
      rewrite join_cons_ne by apply split_go_ne. rewrite IH. cbn [app skipn].
      destruct sep as [|x sep']; [congruence|]. cbn [app] in Ht. injection Ht as -> ->.
      replace (length (x :: sep') - 1)%nat with (length sep') by (cbn [length]; lia).
      rewrite skipn_app, skipn_all, Nat.sub_diag. reflexivity.
    + rewrite join_cons_hd, IH. reflexivity.
Qed.

Lemma split_join sep s cnt : sep <> [] -> join sep (split_sep sep s cnt) = s.
Proof. intro H. unfold split_sep. rewrite split_go_join by exact H. reflexivity. Qed.

Lemma rsplit_join sep s cnt : sep <> [] -> join sep (rsplit_sep sep s cnt) = s.
Proof.
  intro H. unfold rsplit_sep. rewrite join_rev, split_go_join.
  - cbn [skipn]. apply rev_involutive.
  - intro E. apply H. rewrite <- (rev_involutive sep), E. reflexivity.
Qed.

(* at most cnt separators are consumed *)
Lemma cons_hd_length c l : l <> [] -> length (cons_hd c l) = length l.
Proof. destruct l; [congruence|reflexivity]. Qed.

Lemma split_go_length sep : forall s skip cnt, 0 <= cnt ->
  (length (split_go sep s skip cnt) <= Z.to_nat cnt + 1)%nat.
Proof.
  induction s as [|c r IH]; intros skip cnt Hc; cbn [split_go].
  - cbn. lia.
  - destruct skip as [|k]; [|apply IH; exact Hc].
    destruct (negb (cnt =? 0) && prefixb sep (c :: r)) eqn:E.
    + apply andb_true_iff in E as [Hz _]. cbn [length].
      specialize (IH (length sep - 1)%nat (cnt - 1) ltac:(lia)). lia.
    + rewrite cons_hd_length by apply split_go_ne. apply IH. exact Hc.
Qed.

(* the yaql-level statement, including the error case *)
Lemma str_split_join s sep cnt l :
  str_split s (Some sep) cnt = inr l -> sep <> [] /\ join sep l = s.
Proof.
  unfold str_split. destruct sep as [|x sep']; [discriminate|]. intro H. injection H as <-.
  split; [congruence|]. apply split_join. congruence.
Qed.
Lemma str_rsplit_join s sep cnt l :
  str_rsplit s (Some sep) cnt = inr l -> sep <> [] /\ join sep l = s.
Proof.
  unfold str_rsplit. destruct sep as [|x sep']; [discriminate|]. intro H. injection H as <-.
  split; [congruence|]. apply rsplit_join. congruence.
Qed.
Lemma str_split_empty_sep s cnt : str_split s (Some []) cnt = inl EValue /\ str_rsplit s (Some []) cnt = inl EValue.
Proof. split; reflexivity. Qed.

(* ---- join then split: single-character separators ------------------------------------- *)
Lemma split_go_single_nosep c : forall p cnt, ~ In c p -> split_go [c] p O cnt = [p].
Proof.
  induction p as [|x p IH]; intros cnt Hn; [reflexivity|].
  cbn [split_go prefixb]. assert (Hx : (c =? x) = false) by (apply Z.eqb_neq; intro; subst; apply Hn; left; reflexivity).
  rewrite Hx. cbn [andb]. rewrite andb_false_r. rewrite IH by (intro; apply Hn; right; assumption). reflexivity.
Qed.

Lemma split_go_single_app c t : forall p cnt, ~ In c p -> cnt < 0 ->
  split_go [c] (p ++ c :: t) O cnt = p :: split_go [c] t O (cnt - 1).
Proof.
  induction p as [|x p IH]; intros cnt Hn Hc.
  - cbn [app split_go prefixb]. rewrite Z.eqb_refl.
    replace (negb (cnt =? 0)) with true by lia. reflexivity.
  - cbn [app split_go prefixb]. assert (Hx : (c =? x) = false) by (apply Z.eqb_neq; intro; subst; apply Hn; left; reflexivity).
    rewrite Hx. cbn [andb]. rewrite andb_false_r. rewrite IH by (try (intro; apply Hn; right; assumption); lia). reflexivity.
Qed.

Lemma join_split_single c : forall parts cnt, parts <> [] -> cnt < 0 ->
  Forall (fun p => ~ In c p) parts -> split_sep [c] (join [c] parts) cnt = parts.
Proof.
  unfold split_sep. induction parts as [|p parts IH]; intros cnt Hne Hc Hall; [congruence|].
  inversion Hall as [|? ? Hp Hrest]; subst.
  destruct parts as [|q parts].
  - cbn [join]. apply split_go_single_nosep. exact Hp.
  - rewrite join_cons2. cbn [app]. rewrite split_go_single_app by assumption.
    rewrite IH; [reflexivity|congruence|lia|exact Hrest].
Qed.

(* ---- replace -------------------------------------------------------------------------------- *)
Lemma replace_go_split old new : forall s skip cnt,
  replace_go old new s skip cnt = join new (split_go old s skip cnt).
Proof.
  induction s as [|c r IH]; intros skip cnt; cbn [replace_go split_go]; [reflexivity|].
  destruct skip as [|k]; [|apply IH].
  destruct (negb (cnt =? 0) && prefixb old (c :: r)) eqn:E.
  - rewrite join_cons_ne by apply split_go_ne. rewrite IH. reflexivity.
  - rewrite join_cons_hd, IH. reflexivity.
Qed.

Lemma replace_split_join s old new cnt : old <> [] ->
  str_replace s old new cnt = join new (split_sep old s cnt).
Proof.
  intro H. unfold str_replace, split_sep. destruct old as [|x old']; [congruence|]. apply replace_go_split.
Qed.

Lemma replace_zero s old new : str_replace s old new 0 = s.
Proof.
  unfold str_replace. destruct old as [|x old'].
  - destruct s; reflexivity.
  - induction s as [|c r IH]; [reflexivity|]. cbn [replace_go]. cbn [Z.eqb negb andb]. rewrite IH. reflexivity.
Qed.

Lemma replace_same s old cnt : old <> [] -> str_replace s old old cnt = s.
Proof. intro H. rewrite replace_split_join by exact H. apply split_join. exact H. Qed.

Lemma replace_fields_bound s old cnt : 0 <= cnt ->
  (length (split_sep old s cnt) <= Z.to_nat cnt + 1)%nat.
Proof. intro H. apply split_go_length. exact H. Qed.
