(* The composed demand theorem over a larger operator set: the operators of
   StreamsPipeline.v plus append/concat, accumulate (with and without seed) and
   the iterator limiter. *)
From Coq Require Import List ZArith Bool Arith Lia.
From YV Require Import Common.Corr Model.Queries Model.Streams Lemmas.StreamsMono Lemmas.StreamsSteps Lemmas.StreamsPipeline.
Import ListNotations.

Inductive xop :=
| XBase (o : sop)
| XAppend (vs : list val)                     (* append(...), concat(...), + : the part after the source *)
| XAccumulate (f : lam2) (seed : option val)
| XLimit (n : nat).

Definition xbuild (o : xop) (i : it) : it :=
  match o with
  | XBase b => build b i
  | XAppend vs => Chain i (OfList vs)
  | XAccumulate f sd => AccStart f sd i
  | XLimit n => Limit n i
  end.

(* outputs determined by the input prefix xs *)
Definition xouts (o : xop) (xs : list val) : list val :=
  match o with
  | XBase b => outs b xs
  | XAppend _ => xs
  | XAccumulate f (Some sd) => accumulate_seed (apply2 f) sd xs
  | XAccumulate f None => match xs with [] => [] | x :: r => accumulate_seed (apply2 f) x r end
  | XLimit n => firstn n xs
  end.

Definition xneed (o : xop) (xs : list val) (k : nat) : nat :=
  match o with
  | XBase b => need b xs k
  | XAccumulate _ (Some _) => Nat.pred k
  | _ => k
  end.

Definition xtks (o : xop) (xs : list val) (k : nat) : nat :=
  match o with
  | XBase b => tks b xs k
  | XAccumulate _ _ => Nat.pred k
  | _ => 0
  end.

Lemma accumulate_from_firstn (f : val -> val -> val) tot l k :
  firstn k (accumulate_from f tot l) = accumulate_from f tot (firstn k l).
Proof.
  revert tot k. induction l as [|x r IH]; intros tot [|k]; try reflexivity. cbn. f_equal. apply IH.
Qed.

Lemma accumulate_from_length (f : val -> val -> val) tot l : length (accumulate_from f tot l) = length l.
Proof. revert tot. induction l as [|x r IH]; intro tot; cbn; [reflexivity | rewrite IH; reflexivity]. Qed.

Lemma xop_like o i xs cp ct : Like i xs cp ct ->
  Like (xbuild o i) (xouts o xs) (fun k => cp (xneed o xs k)) (fun k => ct (xneed o xs k) + xtks o xs k).
Proof.
  intro H. destruct o as [b | vs | f [sd|] | n]; cbn [xbuild xouts xneed xtks].
  - apply op_like. exact H.
  - intros k L. destruct (H k L) as [i' HS]. exists (Chain i' (OfList vs)).
    eapply StepsD_eq; [apply (chain_steps _ _ _ _ _ _ HS) | reflexivity | lia].
  - (* accumulate with a seed *)
    intros k L. destruct (Like_0 _ _ _ _ H) as [C0 T0]. unfold accumulate_seed in *. destruct k as [|k].
    + exists (AccStart f (Some sd) i). cbn. rewrite C0, T0. repeat split.
    + cbn [length] in L. rewrite accumulate_from_length in L. destruct (H k ltac:(lia)) as [i' HS].
      exists (AccRun f (fold_left (apply2 f) (firstn k xs) sd) i'). cbn [firstn Nat.pred]. rewrite accumulate_from_firstn.
      eapply StepsD_eq; [apply (StepsD_cons _ _ _ _ _ _ _ _ _ (accstart_seed f sd i) (accrun_steps f _ sd _ _ _ _ HS)) | lia |].
      rewrite firstn_length. lia.
  - (* accumulate without a seed: the first element is the first output *)
    intros k L. destruct (Like_0 _ _ _ _ H) as [C0 T0]. destruct k as [|k].
    + exists (AccStart f None i). cbn. rewrite C0, T0. repeat split.
    + destruct xs as [|x r]; [cbn in L; lia|]. unfold accumulate_seed in *. cbn [length] in L. rewrite accumulate_from_length in L.
      destruct (H (S k) ltac:(cbn; lia)) as [i' HS]. cbn [firstn] in HS.
      destruct HS as (j & a & b & c & d & Y & HS & Ea & Eb).
      exists (AccRun f (fold_left (apply2 f) (firstn k r) x) i'). cbn [firstn Nat.pred]. rewrite accumulate_from_firstn.
      eapply StepsD_eq; [apply (StepsD_cons _ _ _ _ _ _ _ _ _ (accstart_noseed f i x j a b Y) (accrun_steps f _ x _ _ _ _ HS)) | lia |].
      rewrite firstn_length. lia.
  - (* the limiter passes the first n elements through one for one *)
    intros k L. rewrite firstn_length in L. destruct (H k ltac:(lia)) as [i' HS].
    exists (Limit (n - length (firstn k xs)) i'). rewrite firstn_firstn. replace (Nat.min k n) with k by lia.
    eapply StepsD_eq; [apply (limit_steps _ n _ _ _ _ HS) | reflexivity | lia]. rewrite firstn_length. lia.
Qed.

Lemma xtks_le_need o xs k : k <= length (xouts o xs) -> xtks o xs k <= xneed o xs k + 1.
Proof.
  intro L. destruct o as [b | vs | f [sd|] | n]; cbn [xtks xneed xouts] in *; try lia.
  pose proof (tks_le_need b xs k L). lia.
Qed.

Fixpoint xbuild_all (ops : list xop) (i : it) : it :=
  match ops with [] => i | o :: r => xbuild_all r (xbuild o i) end.
Fixpoint xouts_all (ops : list xop) (xs : list val) : list val :=
  match ops with [] => xs | o :: r => xouts_all r (xouts o xs) end.
Fixpoint xneed_all (ops : list xop) (xs : list val) (k : nat) : nat :=
  match ops with [] => k | o :: r => xneed o xs (xneed_all r (xouts o xs) k) end.
Fixpoint xtks_all (ops : list xop) (xs : list val) (k : nat) : nat :=
  match ops with
  | [] => 0
  | o :: r => xtks o xs (xneed_all r (xouts o xs) k) + xtks_all r (xouts o xs) k
  end.

Lemma xpipeline_like ops : forall i xs cp ct, Like i xs cp ct ->
  Like (xbuild_all ops i) (xouts_all ops xs) (fun k => cp (xneed_all ops xs k)) (fun k => ct (xneed_all ops xs k) + xtks_all ops xs k).
Proof.
  induction ops as [|o r IH]; intros i xs cp ct H.
  - cbn. intros m L. destruct (H m L) as [i' HS]. exists i'. eapply StepsD_eq; [exact HS | reflexivity | lia].
  - cbn [xbuild_all xouts_all xneed_all xtks_all]. pose proof (IH _ _ _ _ (xop_like o i xs cp ct H)) as R.
    intros m L. destruct (R m L) as [i' HS]. exists i'. eapply StepsD_eq; [exact HS | reflexivity | cbn; lia].
Qed.

Theorem xpipeline_demand_run ops k0 n k s :
  let xs := src_prefix k0 n in
  k <= length (xouts_all ops xs) ->
  exists fuel s' i',
    run fuel s (xbuild_all ops (Src k0)) k = (s', firstn k (xouts_all ops xs), Running i') /\
    pulls s' = pulls s + xneed_all ops xs k /\
    pulls s' <= pulls s + xneed_all ops xs k + 1 /\
    ticks s' = ticks s + xtks_all ops xs k.
Proof.
  intros xs L. destruct (xpipeline_like ops _ _ _ _ (src_like k0 n) k L) as [i' HS].
  destruct (steps_run _ _ _ _ _ HS s) as [fuel R]. fold xs in R.
  rewrite firstn_length in R. replace (Nat.min k (length (xouts_all ops xs))) with k in R by lia.
  exists fuel, (plus_st s (xneed_all ops xs k) (xtks_all ops xs k)), i'. split; [exact R|]. cbn. lia.
Qed.

(* the demand never exceeds what a consumer of k results could account for: each
   operator asks its input for at most (k + its own fixed look-ahead) elements,
   except the data-dependent ones (where / skipWhile), whose demand is the position of the k-th hit *)
Lemma xneed_uniform o xs k :
  match o with
  | XBase (OWhere _) | XBase (OSkipWhile _) => True
  | XBase (OSkip a) => xneed o xs k <= a + k
  | _ => xneed o xs k <= k
  end.
Proof. destruct o as [[]| | ? []|]; cbn; try exact I; try lia; destruct k; lia. Qed.

(* ---- what the harness observes: `pipeline.take(k)` consumed to the end ---------------------- *)
Lemma drain_mono : forall f l0 i0 s0 sres, drain f s0 i0 = (sres, Ok l0) -> forall f', f <= f' -> drain f' s0 i0 = (sres, Ok l0).
Proof.
  induction f as [|f IHf]; intros l0 i0 s0 sres R f' Lf; [discriminate R|]. destruct f' as [|f']; [lia|].
  cbn [drain] in *. destruct (next f s0 i0) as [s1 o] eqn:En. destruct o; try discriminate R.
  - rewrite (next_yield_mono _ f' _ _ _ _ _ En ltac:(lia)).
    destruct (drain f s1 i) as [s3 [l3| | |]] eqn:Ed; try discriminate R.
    rewrite (IHf _ _ _ _ Ed f' ltac:(lia)). exact R.
  - rewrite (next_done_mono _ f' _ _ _ En ltac:(lia)). exact R.
Qed.

Lemma drain_cost l : forall i dp dt i' ep et, StepsD i l dp dt i' -> EndsD i' ep et ->
  forall s, exists fuel, drain fuel s i = (plus_st s (dp + ep) (dt + et), Ok l).
Proof.
  induction l as [|v r IH]; intros i dp dt i' ep et HS E s.
  - destruct HS as (-> & -> & ->). destruct (E s) as [fu F]. exists (S fu). cbn [drain]. rewrite F. reflexivity.
  - destruct HS as (j & a & b & c & d & Y & HS & -> & ->).
    destruct (yields_at _ _ _ _ _ Y s) as [f1 F1]. destruct (IH _ _ _ _ _ _ HS E (plus_st s a b)) as [f2 F2].
    exists (S (Nat.max f1 f2)). cbn [drain]. rewrite F1 by lia. rewrite (drain_mono _ _ _ _ _ F2) by lia.
    rewrite plus_st_plus. f_equal. apply plus_st_eq; lia.
Qed.

(* evaluating `pipeline.take(k)` to the end costs exactly the demand of its k results: the take
   reports the end without touching its input again *)
Theorem take_k_drain ops k0 n k s :
  let xs := src_prefix k0 n in
  k <= length (xouts_all ops xs) ->
  exists fuel s',
    drain fuel s (ISlice 0 (Some k) (xbuild_all ops (Src k0))) = (s', Ok (firstn k (xouts_all ops xs))) /\
    pulls s' = pulls s + xneed_all ops xs k /\ ticks s' = ticks s + xtks_all ops xs k.
Proof.
  intros xs L. destruct (xpipeline_like ops _ _ _ _ (src_like k0 n) k L) as [i' HS]. fold xs in HS.
  assert (Lk : length (firstn k (xouts_all ops xs)) <= k) by (rewrite firstn_length; lia).
  pose proof (take_steps _ k _ _ _ _ HS Lk) as T. rewrite firstn_length in T.
  replace (k - Nat.min k (length (xouts_all ops xs))) with 0 in T by lia.
  destruct (drain_cost _ _ _ _ _ _ _ T (take_stops i') s) as [fuel D].
  exists fuel, (plus_st s (xneed_all ops xs k + 0) (0 + xtks_all ops xs k + 0)). split; [exact D|]. cbn. lia.
Qed.
