(* Proofs about the string ordering, concat and ASCII case mapping (Model/Strings.v). *)
From Coq Require Import List ZArith Bool Lia ZifyBool Arith.
From YV Require Import Common.Corr Model.Strings.
Import ListNotations.
Open Scope Z_scope.

Lemma str_ltb_irrefl a : str_ltb a a = false.
Proof. induction a as [|x a IH]; [reflexivity|]. cbn [str_ltb]. rewrite IH. lia. Qed.

Lemma str_ltb_trichotomy : forall a b, str_ltb a b = true \/ a = b \/ str_ltb b a = true.
Proof.
  induction a as [|x a IH]; intros [|y b]; cbn [str_ltb]; auto.
  destruct (Z.lt_trichotomy x y) as [H|[H|H]].
  - left. lia.
  - subst y. destruct (IH b) as [H1|[H1|H1]].
    + left. rewrite H1. lia.
    + right. left. congruence.
    + right. right. rewrite H1. lia.
  - right. right. lia.
Qed.

Lemma str_ltb_asym : forall a b, str_ltb a b = true -> str_ltb b a = false.
Proof.
  induction a as [|x a IH]; intros [|y b] H; cbn [str_ltb] in *; try reflexivity; try discriminate.
  destruct (str_ltb a b) eqn:E.
  - rewrite (IH b E). lia.
  - destruct (str_ltb b a); lia.
Qed.

Lemma str_ltb_trans : forall a b c, str_ltb a b = true -> str_ltb b c = true -> str_ltb a c = true.
Proof.
  induction a as [|x a IH]; intros [|y b] [|z c] H1 H2; cbn [str_ltb] in *; try reflexivity; try discriminate.
  destruct (str_ltb a b) eqn:E1; destruct (str_ltb b c) eqn:E2.
  - rewrite (IH b c E1 E2). lia.
  - destruct (str_ltb a c); lia.
  - destruct (str_ltb a c); lia.
  - destruct (str_ltb a c); lia.
Qed.

(* a proper prefix is smaller; the first differing code point decides *)
Lemma str_ltb_prefix a t : t <> [] -> str_ltb a (a ++ t) = true.
Proof.
  intro H. induction a as [|x a IH]; cbn [app str_ltb].
  - destruct t; [congruence|reflexivity].
  - rewrite IH. lia.
Qed.

Lemma str_ltb_first_diff p x y a b : x < y -> str_ltb (p ++ x :: a) (p ++ y :: b) = true.
Proof.
  intro H. induction p as [|c p IH]; cbn [app str_ltb]; [lia|]. rewrite IH. lia.
Qed.

Lemma str_cmp_spec a b :
  str_cmp OpGt a b = str_cmp OpLt b a /\ str_cmp OpGe a b = str_cmp OpLe b a /\
  str_cmp OpLe a b = negb (str_cmp OpLt b a) /\
  (str_cmp OpLe a b = true <-> str_cmp OpLt a b = true \/ a = b).
Proof.
  cbn [str_cmp]. unfold str_leb. repeat split; try reflexivity.
  - intro H. destruct (str_ltb_trichotomy a b) as [H1|[H1|H1]]; auto. rewrite H1 in H. discriminate.
  - intros [H|H].
    + rewrite (str_ltb_asym _ _ H). reflexivity.
    + subst. rewrite str_ltb_irrefl. reflexivity.
Qed.

Lemma case_map_spec s :
  length (ascii_upper s) = length s /\ length (ascii_lower s) = length s /\
  ascii_upper (ascii_upper s) = ascii_upper s /\ ascii_lower (ascii_lower s) = ascii_lower s /\
  ascii_upper (ascii_lower s) = ascii_upper s /\ ascii_lower (ascii_upper s) = ascii_lower s.
Proof.
  unfold ascii_upper, ascii_lower. rewrite !map_length, !map_map.
  repeat split; apply map_ext; intro c; unfold upper_c, lower_c;
    repeat match goal with |- context [if ?b then _ else _] => destruct b eqn:? end; lia.
Qed.
