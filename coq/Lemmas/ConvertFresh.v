(* C10_output_fresh: every mutable node of a finalised value is allocated by the
   conversion (fresh, pairwise different objects), whatever the input aliases;
   and the identity-carrying model erases to Model/Convert.v's convert_output. *)
From Coq Require Import List ZArith Bool Arith Lia.
From YV Require Import Common.Corr Model.Convert Model.ConvertId Lemmas.ConvertBase Lemmas.ConvertSpec.
Import ListNotations.

(* ---- induction over identified values --------------------------------------------- *)
Section IvalInd.
  Variable P : ival -> Prop.
  Hypothesis HNull : P INull.
  Hypothesis HBool : forall b, P (IBool b).
  Hypothesis HInt : forall z, P (IInt z).
  Hypothesis HFloat : forall t, P (IFloat t).
  Hypothesis HStr : forall s, P (IStr s).
  Hypothesis HTuple : forall l, Forall P l -> P (ITuple l).
  Hypothesis HList : forall i l, Forall P l -> P (IList i l).
  Hypothesis HFDict : forall kvs, Forall (fun kv => P (fst kv) /\ P (snd kv)) kvs -> P (IFDict kvs).
  Hypothesis HDict : forall i kvs, Forall (fun kv => P (fst kv) /\ P (snd kv)) kvs -> P (IDict i kvs).
  Hypothesis HFSet : forall l, Forall P l -> P (IFSet l).
  Hypothesis HSet : forall i l, Forall P l -> P (ISet i l).
  Hypothesis HIter : forall l, Forall P l -> P (IIter l).
  Hypothesis HView : forall k kvs, Forall (fun kv => P (fst kv) /\ P (snd kv)) kvs -> P (IView k kvs).
  Hypothesis HOrd : forall l, Forall P l -> P (IOrd l).

  Fixpoint ival_induction (v : ival) : P v :=
    let go := fix go (l : list ival) : Forall P l :=
      match l with
      | [] => Forall_nil _
      | x :: r => Forall_cons _ (ival_induction x) (go r)
      end in
    let gokv := fix gokv (l : list (ival * ival)) : Forall (fun kv => P (fst kv) /\ P (snd kv)) l :=
      match l with
      | [] => Forall_nil _
      | kv :: r => Forall_cons _ (conj (ival_induction (fst kv)) (ival_induction (snd kv))) (gokv r)
      end in
    match v with
    | INull => HNull
    | IBool b => HBool b
    | IInt z => HInt z
    | IFloat t => HFloat t
    | IStr s => HStr s
    | ITuple l => HTuple l (go l)
    | IList i l => HList i l (go l)
    | IFDict kvs => HFDict kvs (gokv kvs)
    | IDict i kvs => HDict i kvs (gokv kvs)
    | IFSet l => HFSet l (go l)
    | ISet i l => HSet i l (go l)
    | IIter l => HIter l (go l)
    | IView k kvs => HView k kvs (gokv kvs)
    | IOrd l => HOrd l (go l)
    end.
End IvalInd.

(* ---- unfolding equations ------------------------------------------------------------ *)
Definition ico_pair (o : opts) (kv : ival * ival) (n : nat) : res ((ival * ival) * nat) :=
  match co_id o (fst kv) n with
  | Err e => Err e
  | Ok (ck, n1) => match co_id o (snd kv) n1 with
                   | Err e => Err e
                   | Ok (cv, n2) => Ok ((ck, cv), n2)
                   end
  end.
Definition ico_item (o : opts) (kv : ival * ival) (n : nat) : res (ival * nat) :=
  match ico_pair o kv n with
  | Err e => Err e
  | Ok (p, n1) => Ok (iseq_out o true [fst p; snd p] n1)
  end.
Definition ico_mapping o kvs n :=
  match mapS (ico_pair o) kvs n with Err e => Err e | Ok (ps, n1) => ibuild_dict ps n1 end.
Definition ico_setlike o l n :=
  match mapS (co_id o) l n with
  | Err e => Err e
  | Ok (xs, n1) => if s2l o then Ok (IList n1 xs, S n1) else ibuild_set xs n1
  end.
Definition ico_listlike o (b : bool) l n :=
  match mapS (co_id o) l n with Err e => Err e | Ok (xs, n1) => Ok (iseq_out o b xs n1) end.
Definition ico_view {A} (f : A -> nat -> res (ival * nat)) (l : list A) n : res (ival * nat) :=
  match mapS f l n with Err e => Err e | Ok (xs, n1) => Ok (IList n1 xs, S n1) end.

Lemma ico_fdict o kvs n : co_id o (IFDict kvs) n = ico_mapping o kvs n. Proof. reflexivity. Qed.
Lemma ico_dict o i kvs n : co_id o (IDict i kvs) n = ico_mapping o kvs n. Proof. reflexivity. Qed.
Lemma ico_fset o l n : co_id o (IFSet l) n = ico_setlike o l n. Proof. reflexivity. Qed.
Lemma ico_set o i l n : co_id o (ISet i l) n = ico_setlike o l n. Proof. reflexivity. Qed.
Lemma ico_tuple o l n : co_id o (ITuple l) n = ico_listlike o true l n. Proof. reflexivity. Qed.
Lemma ico_list o i l n : co_id o (IList i l) n = ico_listlike o false l n. Proof. reflexivity. Qed.
Lemma ico_iter o l n : co_id o (IIter l) n = ico_listlike o false l n. Proof. reflexivity. Qed.
Lemma ico_ord o l n : co_id o (IOrd l) n = ico_listlike o false l n. Proof. reflexivity. Qed.
Lemma ico_keys o kvs n : co_id o (IView KKeys kvs) n = ico_view (fun kv n => co_id o (fst kv) n) kvs n.
Proof. reflexivity. Qed.
Lemma ico_values o kvs n : co_id o (IView KValues kvs) n = ico_view (fun kv n => co_id o (snd kv) n) kvs n.
Proof. reflexivity. Qed.
Lemma ico_items o kvs n : co_id o (IView KItems kvs) n = ico_view (ico_item o) kvs n.
Proof. reflexivity. Qed.

(* ---- counting occurrences: one arithmetic invariant for "fresh and pairwise different" ---- *)
Definition cnt (l : list nat) (i : nat) : nat := count_occ Nat.eq_dec l i.
Definition bound (n n' i : nat) : nat := if (n <=? i) && (i <? n') then 1 else 0.
(* every index occurs at most once, and only indices in [n, n') occur *)
Definition Good (n n' : nat) (cs : list nat) : Prop := n <= n' /\ forall i, cnt cs i <= bound n n' i.

Lemma cnt_app a b i : cnt (a ++ b) i = cnt a i + cnt b i.
Proof. unfold cnt. apply count_occ_app. Qed.

Lemma cnt_cons x l i : cnt (x :: l) i = (if Nat.eq_dec x i then 1 else 0) + cnt l i.
Proof. unfold cnt. simpl. destruct (Nat.eq_dec x i); reflexivity. Qed.

Lemma bound_split n n1 n2 i : n <= n1 -> n1 <= n2 -> bound n n1 i + bound n1 n2 i <= bound n n2 i.
Proof.
  intros H1 H2. unfold bound.
  destruct (Nat.leb_spec n i), (Nat.ltb_spec i n1), (Nat.leb_spec n1 i), (Nat.ltb_spec i n2); simpl; lia.
Qed.

Lemma good_nil n : Good n n [].
Proof. split; [lia|]. intro i. unfold cnt. simpl. lia. Qed.

Lemma good_app n n1 n2 a b : Good n n1 a -> Good n1 n2 b -> Good n n2 (a ++ b).
Proof.
  intros [L1 C1] [L2 C2]. split; [lia|]. intro i. rewrite cnt_app.
  specialize (C1 i). specialize (C2 i). pose proof (bound_split n n1 n2 i L1 L2). lia.
Qed.

Lemma good_alloc n n1 cs : Good n n1 cs -> Good n (S n1) (n1 :: cs).
Proof.
  intros [L C]. split; [lia|]. intro i. rewrite cnt_cons. specialize (C i). revert C. unfold bound.
  destruct (Nat.eq_dec n1 i) as [E|E];
    destruct (Nat.leb_spec n i), (Nat.ltb_spec i n1), (Nat.ltb_spec i (S n1)); simpl; lia.
Qed.

Lemma good_le n n' cs cs' : Good n n' cs -> (forall i, cnt cs' i <= cnt cs i) -> Good n n' cs'.
Proof. intros [L C] H. split; [exact L|]. intro i. specialize (C i). specialize (H i). lia. Qed.

Lemma good_spec n n' cs : Good n n' cs -> NoDup cs /\ forall i, In i cs -> n <= i < n'.
Proof.
  intros [L C]. split.
  - apply (NoDup_count_occ Nat.eq_dec). intro i. specialize (C i). unfold cnt, bound in C.
    destruct ((n <=? i) && (i <? n')); lia.
  - intros i Hin. apply (count_occ_In Nat.eq_dec) in Hin. specialize (C i). unfold cnt, bound in C.
    destruct (Nat.leb_spec n i), (Nat.ltb_spec i n'); simpl in C; lia.
Qed.

(* ---- mapS threads the allocator: results occupy consecutive, disjoint ranges ----------- *)
Section MapSGood.
  Context {A B : Type}.
  Variable f : A -> nat -> res (B * nat).
  Variable cb : B -> list nat.

  Lemma mapS_good l :
    Forall (fun x => forall n y n', f x n = Ok (y, n') -> Good n n' (cb y)) l ->
    forall n ys n', mapS f l n = Ok (ys, n') -> Good n n' (flat_map cb ys).
  Proof.
    intro F. induction F as [|x r Hx _ IH]; intros n ys n' H; simpl in H.
    - injection H as <- <-. apply good_nil.
    - destruct (f x n) as [[y n1]|e] eqn:Ex; [|discriminate H].
      destruct (mapS f r n1) as [[ys' n2]|e] eqn:Er; [|discriminate H].
      injection H as <- <-. simpl. eapply good_app; [apply (Hx _ _ _ Ex) | apply (IH _ _ _ Er)].
  Qed.
End MapSGood.

(* ---- dict(...) / set(...) only drop or replace entries ------------------------------------ *)
Lemma cnt_flat_cons {A} (c : A -> list nat) x l i : cnt (flat_map c (x :: l)) i = cnt (c x) i + cnt (flat_map c l) i.
Proof. simpl. apply cnt_app. Qed.

Lemma cnt_nil i : cnt [] i = 0.
Proof. reflexivity. Qed.
Lemma cnt_flat_nil {A} (c : A -> list nat) i : cnt (flat_map c []) i = 0.
Proof. reflexivity. Qed.
Lemma cnt_kv k v i : cnt (cells_kv (k, v)) i = cnt (cells k) i + cnt (cells v) i.
Proof. unfold cells_kv. simpl. apply cnt_app. Qed.
Lemma cnt_kv' p i : cnt (cells_kv p) i = cnt (cells (fst p)) i + cnt (cells (snd p)) i.
Proof. unfold cells_kv. apply cnt_app. Qed.

Lemma idict_set_cnt acc k v i :
  cnt (flat_map cells_kv (idict_set acc k v)) i <= cnt (flat_map cells_kv acc) i + cnt (cells k) i + cnt (cells v) i.
Proof.
  induction acc as [|kv r IH]; simpl idict_set.
  - rewrite cnt_flat_cons, !cnt_flat_nil, cnt_kv. lia.
  - destruct (py_eqb (erase (fst kv)) (erase k)).
    + rewrite !cnt_flat_cons, cnt_kv, (cnt_kv' kv). lia.
    + rewrite !cnt_flat_cons. lia.
Qed.

Lemma idict_of_cnt ps i : cnt (flat_map cells_kv (idict_of ps)) i <= cnt (flat_map cells_kv ps) i.
Proof.
  unfold idict_of.
  assert (G : forall acc, cnt (flat_map cells_kv (fold_left (fun acc p => idict_set acc (fst p) (snd p)) ps acc)) i
                          <= cnt (flat_map cells_kv acc) i + cnt (flat_map cells_kv ps) i).
  { induction ps as [|p r IH]; intro acc; simpl fold_left; [rewrite cnt_flat_nil; lia|].
    specialize (IH (idict_set acc (fst p) (snd p))). pose proof (idict_set_cnt acc (fst p) (snd p) i) as S.
    rewrite cnt_flat_cons, cnt_kv'. lia. }
  specialize (G []). rewrite cnt_flat_nil in G. exact G.
Qed.

Lemma iset_add_cnt acc x i : cnt (flat_map cells (iset_add acc x)) i <= cnt (flat_map cells acc) i + cnt (cells x) i.
Proof.
  unfold iset_add. destruct (existsb _ acc); [lia|].
  rewrite flat_map_app, cnt_app. simpl. rewrite app_nil_r. lia.
Qed.

Lemma iset_of_cnt xs i : cnt (flat_map cells (iset_of xs)) i <= cnt (flat_map cells xs) i.
Proof.
  unfold iset_of.
  assert (G : forall acc, cnt (flat_map cells (fold_left iset_add xs acc)) i
                          <= cnt (flat_map cells acc) i + cnt (flat_map cells xs) i).
  { induction xs as [|x r IH]; intro acc; simpl fold_left; [rewrite cnt_flat_nil; lia|].
    specialize (IH (iset_add acc x)). pose proof (iset_add_cnt acc x i) as S.
    rewrite cnt_flat_cons. lia. }
  specialize (G []). rewrite cnt_flat_nil in G. exact G.
Qed.

(* ---- freshness ------------------------------------------------------------------------------ *)
Section Fresh.
  Variable o : opts.
  Let P := fun v => forall n r n', co_id o v n = Ok (r, n') -> Good n n' (cells r).

  Lemma iseq_out_good b xs n n1 r n' :
    Good n n1 (flat_map cells xs) -> iseq_out o b xs n1 = (r, n') -> Good n n' (cells r).
  Proof.
    intros G H. unfold iseq_out in H. destruct (b && negb (t2l o)); injection H as <- <-; simpl.
    - exact G.
    - apply good_alloc. exact G.
  Qed.

  Lemma listlike_good b l : Forall P l -> forall n r n', ico_listlike o b l n = Ok (r, n') -> Good n n' (cells r).
  Proof.
    intros F n r n' H. unfold ico_listlike in H.
    destruct (mapS (co_id o) l n) as [[xs n1]|e] eqn:E; [|discriminate H].
    destruct (iseq_out o b xs n1) as [r0 n0] eqn:Es. injection H as <- <-.
    eapply iseq_out_good; [|exact Es]. apply (mapS_good (co_id o) cells l F _ _ _ E).
  Qed.

  Lemma setlike_good l : Forall P l -> forall n r n', ico_setlike o l n = Ok (r, n') -> Good n n' (cells r).
  Proof.
    intros F n r n' H. unfold ico_setlike in H.
    destruct (mapS (co_id o) l n) as [[xs n1]|e] eqn:E; [|discriminate H].
    pose proof (mapS_good (co_id o) cells l F _ _ _ E) as G.
    destruct (s2l o).
    - injection H as <- <-. simpl. apply good_alloc. exact G.
    - unfold ibuild_set in H. destruct (forallb _ xs); [|discriminate H]. injection H as <- <-.
      simpl. apply good_alloc. apply (good_le _ _ _ _ G). apply iset_of_cnt.
  Qed.

  Lemma pair_good kv : P (fst kv) /\ P (snd kv) ->
    forall n p n', ico_pair o kv n = Ok (p, n') -> Good n n' (cells_kv p).
  Proof.
    intros [Hk Hv] n p n' H. unfold ico_pair in H.
    destruct (co_id o (fst kv) n) as [[ck n1]|e] eqn:Ek; [|discriminate H].
    destruct (co_id o (snd kv) n1) as [[cv n2]|e] eqn:Ev; [|discriminate H].
    injection H as <- <-. unfold cells_kv. simpl. eapply good_app; [apply (Hk _ _ _ Ek) | apply (Hv _ _ _ Ev)].
  Qed.

  Lemma mapping_good kvs : Forall (fun kv => P (fst kv) /\ P (snd kv)) kvs ->
    forall n r n', ico_mapping o kvs n = Ok (r, n') -> Good n n' (cells r).
  Proof.
    intros F n r n' H. unfold ico_mapping in H.
    destruct (mapS (ico_pair o) kvs n) as [[ps n1]|e] eqn:E; [|discriminate H].
    pose proof (mapS_good (ico_pair o) cells_kv kvs (Forall_impl _ pair_good F) _ _ _ E) as G.
    unfold ibuild_dict in H. destruct (forallb _ ps); [|discriminate H]. injection H as <- <-.
    simpl. apply good_alloc. apply (good_le _ _ _ _ G). apply idict_of_cnt.
  Qed.

  Lemma view_good {A} (f : A -> nat -> res (ival * nat)) l :
    Forall (fun x => forall n y n', f x n = Ok (y, n') -> Good n n' (cells y)) l ->
    forall n r n', ico_view f l n = Ok (r, n') -> Good n n' (cells r).
  Proof.
    intros F n r n' H. unfold ico_view in H. destruct (mapS f l n) as [[xs n1]|e] eqn:E; [|discriminate H].
    injection H as <- <-. simpl. apply good_alloc. apply (mapS_good f cells l F _ _ _ E).
  Qed.

  Lemma fresh_all : forall v, P v.
  Proof.
    induction v using ival_induction; unfold P; intros n r n' Hr.
    - injection Hr as <- <-. apply good_nil.
    - injection Hr as <- <-. apply good_nil.
    - injection Hr as <- <-. apply good_nil.
    - injection Hr as <- <-. apply good_nil.
    - injection Hr as <- <-. apply good_nil.
    - rewrite ico_tuple in Hr. eapply listlike_good; eassumption.
    - rewrite ico_list in Hr. eapply listlike_good; eassumption.
    - rewrite ico_fdict in Hr. eapply mapping_good; eassumption.
    - rewrite ico_dict in Hr. eapply mapping_good; eassumption.
    - rewrite ico_fset in Hr. eapply setlike_good; eassumption.
    - rewrite ico_set in Hr. eapply setlike_good; eassumption.
    - rewrite ico_iter in Hr. eapply listlike_good; eassumption.
    - destruct k.
      + rewrite ico_keys in Hr. refine (view_good _ kvs _ _ _ _ Hr).
        apply (Forall_impl _ (fun kv Hkv => proj1 Hkv) H).
      + rewrite ico_values in Hr. refine (view_good _ kvs _ _ _ _ Hr).
        apply (Forall_impl _ (fun kv Hkv => proj2 Hkv) H).
      + rewrite ico_items in Hr. refine (view_good _ kvs _ _ _ _ Hr).
        refine (Forall_impl _ _ H). intros kv Hkv m y m' Hy. unfold ico_item in Hy.
        destruct (ico_pair o kv m) as [[p m1]|e] eqn:Ep; [|discriminate Hy].
        destruct (iseq_out o true [fst p; snd p] m1) as [r0 m0] eqn:Es. injection Hy as <- <-.
        eapply iseq_out_good; [|exact Es]. simpl. rewrite app_nil_r. apply (pair_good kv Hkv _ _ _ Ep).
    - rewrite ico_ord in Hr. eapply listlike_good; eassumption.
  Qed.
End Fresh.

Theorem co_id_fresh : forall o v n r n', co_id o v n = Ok (r, n') ->
  (forall i, In i (cells v) -> i < n) ->
  NoDup (cells r) /\ (forall i, In i (cells r) -> n <= i < n') /\ (forall i, In i (cells r) -> ~ In i (cells v)).
Proof.
  intros o v n r n' H B. destruct (good_spec _ _ _ (fresh_all o v n r n' H)) as [N R].
  split; [exact N|]. split; [exact R|]. intros i Hi Hv. specialize (R i Hi). specialize (B i Hv). lia.
Qed.

(* the decidable form run on observed results says the same *)
Lemma nat_nodupb_NoDup l : nat_nodupb l = true -> NoDup l.
Proof.
  induction l as [|x r IH]; simpl; intro H; [constructor|].
  apply andb_true_iff in H. destruct H as [H1 H2]. constructor; [|apply IH; exact H2].
  intro Hin. apply negb_true_iff in H1.
  assert (X : existsb (Nat.eqb x) r = true).
  { apply existsb_exists. exists x. split; [exact Hin | apply Nat.eqb_refl]. }
  rewrite X in H1. discriminate H1.
Qed.

Lemma NoDup_nat_nodupb l : NoDup l -> nat_nodupb l = true.
Proof.
  intro N. induction N as [|x r Hx _ IH]; simpl; [reflexivity|]. rewrite IH, andb_true_r.
  apply negb_true_iff. destruct (existsb (Nat.eqb x) r) eqn:E; [|reflexivity].
  apply existsb_exists in E. destruct E as [y [Hin Hy]]. apply Nat.eqb_eq in Hy. subst y. contradiction.
Qed.

Theorem co_id_fresh_okb : forall o v n r n', co_id o v n = Ok (r, n') -> fresh_okb n r = true.
Proof.
  intros o v n r n' H. destruct (good_spec _ _ _ (fresh_all o v n r n' H)) as [N R].
  unfold fresh_okb. rewrite (NoDup_nat_nodupb _ N), andb_true_r.
  apply forallb_forall. intros i Hi. apply Nat.leb_le. apply R. exact Hi.
Qed.

(* ---- the identified model erases to Model/Convert.v ------------------------------------------ *)
Definition erasep (kv : ival * ival) : val * val := (erase (fst kv), erase (snd kv)).

(* "f on identified values and g on erased ones agree" *)
Definition agree {A A' B B'} (ea : A -> A') (eb : B -> B') (f : A -> nat -> res (B * nat)) (g : A' -> res B') (x : A) : Prop :=
  forall n, match f x n with
            | Ok (y, _) => g (ea x) = Ok (eb y)
            | Err e => g (ea x) = Err e
            end.

Lemma mapS_agree {A A' B B'} (ea : A -> A') (eb : B -> B') f g l :
  Forall (agree ea eb f g) l ->
  forall n, match mapS f l n with
            | Ok (ys, _) => mapM g (map ea l) = Ok (map eb ys)
            | Err e => mapM g (map ea l) = Err e
            end.
Proof.
  intro F. induction F as [|x r Hx _ IH]; intro n; simpl; [reflexivity|].
  specialize (Hx n). destruct (f x n) as [[y n1]|e]; rewrite Hx; [|reflexivity].
  specialize (IH n1). destruct (mapS f r n1) as [[ys n2]|e]; rewrite IH; reflexivity.
Qed.

Lemma idict_set_erase acc k v :
  map erasep (idict_set acc k v) = dict_set (map erasep acc) (erase k) (erase v).
Proof.
  induction acc as [|kv r IH]; simpl; [reflexivity|].
  destruct (py_eqb (erase (fst kv)) (erase k)); simpl; [reflexivity | rewrite IH; reflexivity].
Qed.

Lemma idict_of_erase ps : map erasep (idict_of ps) = dict_of (map erasep ps).
Proof.
  unfold idict_of, dict_of.
  assert (G : forall acc, map erasep (fold_left (fun acc p => idict_set acc (fst p) (snd p)) ps acc)
                          = fold_left (fun acc p => dict_set acc (fst p) (snd p)) (map erasep ps) (map erasep acc)).
  { induction ps as [|p r IH]; intro acc; simpl; [reflexivity|]. rewrite IH, idict_set_erase. reflexivity. }
  apply (G []).
Qed.

Lemma existsb_map {A B} (p : B -> bool) (h : A -> B) l : existsb p (map h l) = existsb (fun x => p (h x)) l.
Proof. induction l as [|x r IH]; simpl; [reflexivity|]. rewrite IH. reflexivity. Qed.

Lemma forallb_map {A B} (p : B -> bool) (h : A -> B) l : forallb p (map h l) = forallb (fun x => p (h x)) l.
Proof. induction l as [|x r IH]; simpl; [reflexivity|]. rewrite IH. reflexivity. Qed.

Lemma iset_of_erase xs : map erase (iset_of xs) = set_of (map erase xs).
Proof.
  unfold iset_of, set_of.
  assert (G : forall acc, map erase (fold_left iset_add xs acc) = fold_left set_add (map erase xs) (map erase acc)).
  { induction xs as [|x r IH]; intro acc; simpl; [reflexivity|]. rewrite IH. f_equal.
    unfold iset_add, set_add. rewrite existsb_map. destruct (existsb _ acc); [reflexivity|].
    rewrite map_app. reflexivity. }
  apply (G []).
Qed.

Section Erase.
  Variable o : opts.
  Let E := agree erase erase (co_id o) (convert_output o).

  Lemma iseq_out_erase b xs n : erase (fst (iseq_out o b xs n)) = seq_out o b (map erase xs).
  Proof. unfold iseq_out, seq_out. destruct (b && negb (t2l o)); reflexivity. Qed.

  Lemma listlike_erase b l : Forall E l ->
    forall n, match ico_listlike o b l n with
              | Ok (r, _) => co_listlike o b (map erase l) = Ok (erase r)
              | Err e => co_listlike o b (map erase l) = Err e
              end.
  Proof.
    intros F n. unfold ico_listlike, co_listlike. pose proof (mapS_agree erase erase _ _ l F n) as M.
    destruct (mapS (co_id o) l n) as [[xs n1]|e]; rewrite M; [|reflexivity].
    pose proof (iseq_out_erase b xs n1) as S. destruct (iseq_out o b xs n1) as [r0 n0]. simpl in S. rewrite S. reflexivity.
  Qed.

  Lemma setlike_erase l : Forall E l ->
    forall n, match ico_setlike o l n with
              | Ok (r, _) => co_setlike o (map erase l) = Ok (erase r)
              | Err e => co_setlike o (map erase l) = Err e
              end.
  Proof.
    intros F n. unfold ico_setlike, co_setlike. pose proof (mapS_agree erase erase _ _ l F n) as M.
    destruct (mapS (co_id o) l n) as [[xs n1]|e]; rewrite M; [|reflexivity].
    destruct (s2l o); [reflexivity|]. unfold ibuild_set, build_set. rewrite forallb_map.
    destruct (forallb _ xs); [|reflexivity]. simpl. rewrite iset_of_erase. reflexivity.
  Qed.

  Lemma pair_erase kv : E (fst kv) /\ E (snd kv) -> agree erasep erasep (ico_pair o) (conv_pair o) kv.
  Proof.
    intros [Hk Hv] n. unfold ico_pair, conv_pair, erasep at 1 2. simpl fst. simpl snd.
    specialize (Hk n). destruct (co_id o (fst kv) n) as [[ck n1]|e]; rewrite Hk; [|reflexivity].
    specialize (Hv n1). destruct (co_id o (snd kv) n1) as [[cv n2]|e]; rewrite Hv; reflexivity.
  Qed.

  Lemma mapping_erase kvs : Forall (fun kv => E (fst kv) /\ E (snd kv)) kvs ->
    forall n, match ico_mapping o kvs n with
              | Ok (r, _) => co_mapping o (map erasep kvs) = Ok (erase r)
              | Err e => co_mapping o (map erasep kvs) = Err e
              end.
  Proof.
    intros F n. unfold ico_mapping, co_mapping.
    pose proof (mapS_agree erasep erasep _ _ kvs (Forall_impl _ pair_erase F) n) as M.
    destruct (mapS (ico_pair o) kvs n) as [[ps n1]|e]; rewrite M; [|reflexivity].
    unfold ibuild_dict, build_dict. rewrite forallb_map.
    destruct (forallb _ ps); [|reflexivity]. simpl. rewrite <- idict_of_erase. reflexivity.
  Qed.

  Lemma view_erase {A A'} (ea : A -> A') (f : A -> nat -> res (ival * nat)) (g : A' -> res val) l :
    Forall (agree ea erase f g) l ->
    forall n, match ico_view f l n with
              | Ok (r, _) => match mapM g (map ea l) with Err e => Err e | Ok xs => Ok (VList xs) end = Ok (erase r)
              | Err e => match mapM g (map ea l) with Err e => Err e | Ok xs => Ok (VList xs) end = Err e
              end.
  Proof.
    intros F n. unfold ico_view. pose proof (mapS_agree ea erase _ _ l F n) as M.
    destruct (mapS f l n) as [[xs n1]|e]; rewrite M; reflexivity.
  Qed.

  Lemma erase_all : forall v, E v.
  Proof.
    induction v using ival_induction; unfold E, agree; intro n; try reflexivity.
    - rewrite ico_tuple. cbn [erase]. rewrite co_tuple. apply listlike_erase; assumption.
    - rewrite ico_list. cbn [erase]. rewrite co_list. apply listlike_erase; assumption.
    - rewrite ico_fdict. cbn [erase]. rewrite co_fdict. apply (mapping_erase kvs H n).
    - rewrite ico_dict. cbn [erase]. rewrite co_dict. apply (mapping_erase kvs H n).
    - rewrite ico_fset. cbn [erase]. rewrite co_fset. apply setlike_erase; assumption.
    - rewrite ico_set. cbn [erase]. rewrite co_set. apply setlike_erase; assumption.
    - rewrite ico_iter. cbn [erase]. rewrite co_iter. apply listlike_erase; assumption.
    - cbn [erase]. destruct k.
      + rewrite ico_keys, co_keys, mapM_map.
        pose proof (view_erase (fun kv : ival * ival => erase (fst kv)) (fun kv n => co_id o (fst kv) n)
                      (convert_output o) kvs (Forall_impl _ (fun kv Hkv => proj1 Hkv) H) n) as V.
        rewrite mapM_map in V. exact V.
      + rewrite ico_values, co_values, mapM_map.
        pose proof (view_erase (fun kv : ival * ival => erase (snd kv)) (fun kv n => co_id o (snd kv) n)
                      (convert_output o) kvs (Forall_impl _ (fun kv Hkv => proj2 Hkv) H) n) as V.
        rewrite mapM_map in V. exact V.
      + rewrite ico_items, co_items.
        apply (view_erase erasep (ico_item o) (conv_item o) kvs).
        refine (Forall_impl _ _ H). intros kv Hkv m. unfold ico_item, conv_item.
        pose proof (pair_erase kv Hkv m) as Pm.
        destruct (ico_pair o kv m) as [[p m1]|e]; rewrite Pm; [|reflexivity].
        pose proof (iseq_out_erase true [fst p; snd p] m1) as S.
        destruct (iseq_out o true [fst p; snd p] m1) as [r0 m0]. simpl in S. rewrite S. reflexivity.
    - rewrite ico_ord. cbn [erase]. rewrite co_ord. apply listlike_erase; assumption.
  Qed.
End Erase.

Theorem co_id_erase : forall o v n,
  match co_id o v n with
  | Ok (r, _) => convert_output o (erase v) = Ok (erase r)
  | Err e => convert_output o (erase v) = Err e
  end.
Proof. intros o v n. apply erase_all. Qed.

(* ---- frozen data has no mutable node ------------------------------------------------------------ *)
Lemma flat_map_nil {A} (c : A -> list nat) l : Forall (fun x => c x = []) l -> flat_map c l = [].
Proof. intro F. induction F as [|x r Hx _ IH]; simpl; [reflexivity|]. rewrite Hx, IH. reflexivity. Qed.

Lemma inj_frozen_cells : forall v, frozenb v = true -> cells (inj v) = [].
Proof.
  assert (L : forall l, Forall (fun x => frozenb x = true -> cells (inj x) = []) l ->
                        forallb frozenb l = true -> flat_map cells (map inj l) = []).
  { intros l F Hf. apply flat_map_nil. apply Forall_map. rewrite forallb_forall in Hf.
    rewrite Forall_forall in *. intros x Hin. apply F; [exact Hin | apply Hf; exact Hin]. }
  induction v using val_induction; simpl; intro Hf; try reflexivity; try discriminate Hf.
  - apply L; assumption.
  - apply flat_map_nil. apply Forall_map. rewrite forallb_forall in Hf. rewrite Forall_forall in *.
    intros kv Hin. specialize (Hf kv Hin). apply andb_true_iff in Hf. destruct (H kv Hin) as [H1 H2].
    simpl. rewrite (H1 (proj1 Hf)), (H2 (proj2 Hf)). reflexivity.
  - apply L; assumption.
  - apply L; assumption.
Qed.

Lemma erase_inj : forall v, erase (inj v) = v.
Proof.
  assert (L : forall l, Forall (fun x => erase (inj x) = x) l -> map erase (map inj l) = l).
  { intros l F. induction F as [|x r Hx _ IH]; simpl; [reflexivity|]. rewrite Hx, IH. reflexivity. }
  assert (K : forall kvs, Forall (fun kv : val * val => erase (inj (fst kv)) = fst kv /\ erase (inj (snd kv)) = snd kv) kvs ->
              map (fun kv => (erase (fst kv), erase (snd kv))) (map (fun kv => (inj (fst kv), inj (snd kv))) kvs) = kvs).
  { intros kvs F. induction F as [|kv r [H1 H2] _ IH]; simpl; [reflexivity|].
    rewrite H1, H2, IH. destruct kv; reflexivity. }
  induction v using val_induction; simpl; try reflexivity; f_equal; try (apply L; assumption); apply K; assumption.
Qed.

(* host data -> convert_input -> `$` -> convert_output: the result shares no mutable node
   with the host data (input conversion leaves none, output conversion allocates all) *)
Theorem dollar_fresh : forall o d n r n',
  (forall i, In i (cells d) -> i < n) ->
  co_id o (inj (convert_input (erase d))) n = Ok (r, n') ->
  cells (inj (convert_input (erase d))) = [] /\
  NoDup (cells r) /\ (forall i, In i (cells r) -> ~ In i (cells d)) /\
  convert_output o (convert_input (erase d)) = Ok (erase r).
Proof.
  intros o d n r n' B H.
  assert (Z : cells (inj (convert_input (erase d))) = []) by (apply inj_frozen_cells; apply convert_input_frozen).
  split; [exact Z|].
  destruct (co_id_fresh o _ n r n' H) as [N [R _]]; [rewrite Z; intros i []|].
  split; [exact N|]. split.
  - intros i Hi Hd. specialize (R i Hi). specialize (B i Hd). lia.
  - pose proof (co_id_erase o (inj (convert_input (erase d))) n) as E. rewrite H, erase_inj in E. exact E.
Qed.
