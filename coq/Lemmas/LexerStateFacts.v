From Coq Require Import List ZArith Bool Arith Lia.
From YV Require Import Common.Corr Model.LexerState.
Import ListNotations.

Section Facts.
  Variables (token pst result : Type).
  Variable lexfun : list Z -> nat -> nat -> fetch token.
  Variable pinit : list Z -> pst.
  Variable pstep : pst -> fetch token -> pst + result.

  Notation tstate := (tstate pst result).
  Notation world := (world pst result).
  Notation cursor := (cursor).
  Notation step_thread := (step_thread token pst result lexfun pinit pstep).
  Notation step := (step token pst result lexfun pinit pstep).
  Notation run_schedule := (run_schedule token pst result lexfun pinit pstep).
  Notation alone := (alone token pst result lexfun pinit pstep).
  Notation solo := (solo token pst result lexfun pinit pstep).

  (* The thread-local view of a call: its cell and its parser state. *)
  Definition lstep (x : cursor * tstate) : cursor * tstate :=
    match snd x with
    | NotStarted text => (input text (fst x), Running text (pinit text))
    | Running text p =>
        let '(c', f) := token_step token lexfun (fst x) in
        (c', match pstep p f with inl p' => Running text p' | inr r => Done r end)
    | Done r => (fst x, Done r)
    end.

  Fixpoint iter (n : nat) (x : cursor * tstate) : cursor * tstate :=
    match n with O => x | S k => iter k (lstep x) end.

  Lemma iter_S_last n x : iter (S n) x = lstep (iter n x).
  Proof. revert x; induction n as [|n IH]; intros x; [reflexivity|]. cbn [iter] in *. now rewrite IH. Qed.

  Definition local (priv : bool) (i : nat) (w : world) : cursor * tstate :=
    (fst w (cell_of priv i), snd w i).

  Lemma upd_same {A} (f : nat -> A) i v : upd f i v i = v.
  Proof. unfold upd. now rewrite Nat.eqb_refl. Qed.
  Lemma upd_other {A} (f : nat -> A) i j v : j <> i -> upd f i v j = f j.
  Proof. intro H. unfold upd. apply Nat.eqb_neq in H. now rewrite H. Qed.

  (* a step of call i acts on its local view as [lstep], whatever [priv] *)
  Lemma local_step_self priv i w : local priv i (step priv w i) = lstep (local priv i w).
  Proof.
    unfold local, step, lstep. destruct w as [cs ts]. cbn [fst snd].
    unfold LexerState.step_thread.
    destruct (ts i) as [text|text p|r] eqn:E; cbn [fst snd].
    - rewrite !upd_same. reflexivity.
    - destruct (token_step token lexfun (cs (cell_of priv i))) as [c' f] eqn:T. cbn [fst snd].
      rewrite !upd_same. reflexivity.
    - rewrite upd_same. reflexivity.
  Qed.

  (* no step of another call ever touches the parser state of call i (any priv) *)
  Lemma tstate_step_other priv i j w : j <> i -> snd (step priv w j) i = snd w i.
  Proof.
    intro H. unfold step. destruct (LexerState.step_thread _ _ _ _ _ _ _ _ _ _) as [cs' t'].
    cbn [snd]. apply upd_other. congruence.
  Qed.

  (* with private cells it does not touch its cell either *)
  Lemma local_step_other i j w : j <> i -> local true i (step true w j) = local true i w.
  Proof.
    intro H. unfold local. rewrite tstate_step_other by assumption. f_equal.
    unfold step. destruct w as [cs ts]. cbn [fst snd]. unfold LexerState.step_thread.
    assert (Hc : cell_of true i <> cell_of true j) by (unfold cell_of; cbn; congruence).
    destruct (ts j) as [text|text p|r]; cbn [fst].
    - now rewrite upd_other.
    - destruct (token_step _ _ _) as [c' f]. cbn [fst]. now rewrite upd_other.
    - reflexivity.
  Qed.

  (* and nobody writes the engine's own lexer object *)
  Lemma engine_cell_step j w : fst (step true w j) 0 = fst w 0.
  Proof.
    unfold step. destruct w as [cs ts]. cbn [fst snd]. unfold LexerState.step_thread.
    assert (Hc : 0 <> cell_of true j) by (unfold cell_of; cbn; congruence).
    destruct (ts j) as [text|text p|r]; cbn [fst].
    - now rewrite upd_other.
    - destruct (token_step _ _ _) as [c' f]. cbn [fst]. now rewrite upd_other.
    - reflexivity.
  Qed.

  Lemma run_schedule_app priv w a b :
    run_schedule priv w (a ++ b) = run_schedule priv (run_schedule priv w a) b.
  Proof. unfold LexerState.run_schedule. apply fold_left_app. Qed.

  Lemma local_run_private i sched : forall w,
    local true i (run_schedule true w sched) = iter (count_occ Nat.eq_dec sched i) (local true i w).
  Proof.
    induction sched as [|j sched IH]; intros w; [reflexivity|].
    change (run_schedule true w (j :: sched)) with (run_schedule true (step true w j) sched).
    rewrite IH. cbn [count_occ]. destruct (Nat.eq_dec j i) as [->|N].
    - cbn [iter]. now rewrite local_step_self.
    - now rewrite local_step_other.
  Qed.

  Lemma engine_cell_run sched : forall w, fst (run_schedule true w sched) 0 = fst w 0.
  Proof.
    induction sched as [|j sched IH]; intros w; [reflexivity|].
    change (run_schedule true w (j :: sched)) with (run_schedule true (step true w j) sched).
    now rewrite IH, engine_cell_step.
  Qed.

  (* the thread state after n local steps does not depend on the cell the call started on *)
  Lemma iter_start_indep n text c1 c2 :
    snd (iter n (c1, NotStarted text)) = snd (iter n (c2, NotStarted text)).
  Proof. destruct n as [|n]; [reflexivity|]. cbn [iter]. replace (lstep (c2, NotStarted text)) with (lstep (c1, NotStarted text)) by reflexivity. reflexivity. Qed.

  (* [alone] is the iteration of [lstep] on the view of call 0 *)
  Lemma alone_local priv n : forall cs t,
    (fst (alone priv n cs t) (cell_of priv 0), snd (alone priv n cs t)) = iter n (cs (cell_of priv 0), t).
  Proof.
    induction n as [|n IH]; intros cs t; [reflexivity|].
    cbn [LexerState.alone iter].
    destruct (LexerState.step_thread _ _ _ _ _ _ _ _ _ _) as [cs' t'] eqn:E.
    rewrite IH. f_equal.
    pose proof (local_step_self priv 0 (cs, upd (fun _ => t) 0 t)) as H.
    unfold local, step in H. cbn [fst snd] in H. rewrite upd_same in H.
    rewrite E in H. cbn [fst snd] in H. rewrite upd_same in H. exact H.
  Qed.

  Lemma solo_iter priv text n c :
    solo priv text n = snd (iter n (c, NotStarted text)).
  Proof.
    unfold LexerState.solo.
    pose proof (alone_local priv n (fresh_cells) (NotStarted text)) as H.
    apply (f_equal snd) in H. cbn [snd] in H. rewrite H. apply iter_start_indep.
  Qed.

  Lemma solo_priv_irrelevant text n : solo true text n = solo false text n.
  Proof. rewrite (solo_iter true text n (fresh_cells 0)), (solo_iter false text n (fresh_cells 0)). reflexivity. Qed.

  (* ---------------------------------------------------------------------------------- *)
  (* 1. history independence: a call that is not interleaved with another one returns what it
        returns on a fresh engine, whatever state all lexer cells were left in (any priv). *)
  Lemma history_independent priv cs text n :
    solo_from token pst result lexfun pinit pstep priv cs text n = solo priv text n.
  Proof.
    unfold LexerState.solo_from.
    pose proof (alone_local priv n cs (NotStarted text)) as H.
    apply (f_equal snd) in H. cbn [snd] in H. rewrite H.
    symmetry. apply solo_iter.
  Qed.

  (* the same through [run_schedule]: call i runs n steps with nobody in between *)
  Lemma run_repeat priv i n : forall w,
    local priv i (run_schedule priv w (repeat i n)) = iter n (local priv i w).
  Proof.
    induction n as [|n IH]; intros w; [reflexivity|].
    cbn [repeat]. change (run_schedule priv w (i :: repeat i n)) with (run_schedule priv (step priv w i) (repeat i n)).
    rewrite IH. cbn [iter]. now rewrite local_step_self.
  Qed.

  Lemma tstate_run_others priv i sched : forall w,
    ~ In i sched -> snd (run_schedule priv w sched) i = snd w i.
  Proof.
    induction sched as [|j sched IH]; intros w H; [reflexivity|].
    change (run_schedule priv w (j :: sched)) with (run_schedule priv (step priv w j) sched).
    rewrite IH by (intro; apply H; now right).
    apply tstate_step_other. intro; apply H; now left.
  Qed.

  (* sequential use of one engine, any order, any number of steps per call (complete or
     abandoned parses), any priv: every call behaves as on a fresh engine *)
  Lemma sequential_independent priv (order : list nat) (steps : nat -> nat) :
    NoDup order -> forall w i text,
    In i order -> snd w i = NotStarted text ->
    snd (run_schedule priv w (concat (map (fun j => repeat j (steps j)) order))) i
    = solo priv text (steps i).
  Proof.
    intros ND. induction ND as [|j order Hj ND IH]; intros w i text Hin Hs; [contradiction|].
    cbn [map concat]. rewrite run_schedule_app.
    destruct Hin as [->|Hin].
    - rewrite tstate_run_others.
      + pose proof (run_repeat priv i (steps i) w) as H. apply (f_equal snd) in H.
        unfold local in H at 1. cbn [snd] in H. rewrite H. unfold local. rewrite Hs.
        symmetry. apply solo_iter.
      + intro Hc. apply in_concat in Hc as [l [Hl Hc]]. apply in_map_iff in Hl as [k [<- Hk]].
        apply repeat_spec in Hc. subst. contradiction.
    - apply IH; [assumption|].
      rewrite tstate_run_others; [assumption|].
      intro Hc. apply repeat_spec in Hc. subst. contradiction.
  Qed.

  (* 2. schedule independence with private cells *)
  Lemma schedule_independent sched w i text :
    snd w i = NotStarted text ->
    snd (run_schedule true w sched) i = solo true text (count_occ Nat.eq_dec sched i)
    /\ fst (run_schedule true w sched) 0 = fst w 0.
  Proof.
    intro Hs. split; [|apply engine_cell_run].
    pose proof (local_run_private i sched w) as H. apply (f_equal snd) in H.
    unfold local in H at 1. cbn [snd] in H. rewrite H. unfold local. rewrite Hs.
    symmetry. apply solo_iter.
  Qed.
End Facts.
