(* Flattened-layers specification of context trees, and the proof that the
   class-by-class model of contexts.py (Model/Contexts.v) refines it. *)
From Coq Require Import List ZArith Bool Arith Lia.
From YV Require Import Common.Corr Common.CorrFacts Model.Contexts.
Import ListNotations.

(* ---- induction principle for the nested inductive ------------------------- *)
Section CtxInd.
  Variable P : ctx -> Prop.
  Definition Popt (o : option ctx) : Prop := match o with Some c => P c | None => True end.
  Hypothesis HPlain : forall p par, Popt par -> P (CPlain p par).
  Hypothesis HMulti : forall ms par, Forall P ms -> Popt par -> P (CMulti ms par).
  Hypothesis HLinked : forall l par, P l -> Popt par -> P (CLinked l par).

  Fixpoint ctx_ind' (c : ctx) : P c :=
    let opt (o : option ctx) : Popt o := match o with Some c => ctx_ind' c | None => I end in
    match c with
    | CPlain p par => HPlain p par (opt par)
    | CMulti ms par =>
        HMulti ms par
          ((fix go (l : list ctx) : Forall P l :=
              match l with [] => Forall_nil _ | m :: r => Forall_cons _ (ctx_ind' m) (go r) end) ms)
          (opt par)
    | CLinked l par => HLinked l par (ctx_ind' l) (opt par)
    end.
End CtxInd.

(* ---- the specification ------------------------------------------------------ *)
(* the plain contexts that make up the own layer of a context, in lookup order *)
Fixpoint sources (c : ctx) : list pid :=
  match c with
  | CPlain p _ => [p]
  | CMulti ms _ => (fix go (l : list ctx) : list pid := match l with [] => [] | m :: r => sources m ++ go r end) ms
  | CLinked l _ => sources l
  end.

(* a context followed by its ancestors *)
Fixpoint chain (c : ctx) : list ctx :=
  c :: match c with
       | CPlain _ (Some p) | CMulti _ (Some p) | CLinked _ (Some p) => chain p
       | _ => []
       end.

(* flattened layers: nearest first; each layer is an ordered list of plain contexts *)
Definition flatten (c : ctx) : list (list pid) := map sources (chain c).

Definition plain_get (s : store) (n : str) (p : pid) : option Z := alookup (normalize n) (pdata (sget s p)).
Definition layer_get (s : store) (n : str) (ps : list pid) : option Z := first_some (plain_get s n) ps.
Definition layers_get (s : store) (n : str) (ls : list (list pid)) : option Z := first_some (layer_get s n) ls.

Lemma sources_multi ms par : sources (CMulti ms par) = flat_map sources ms.
Proof. cbn. induction ms as [|m r IH]; [reflexivity|]. cbn. f_equal. Qed.

Lemma first_some_app {A B} (f : A -> option B) l1 l2 :
  first_some f (l1 ++ l2) = match first_some f l1 with Some v => Some v | None => first_some f l2 end.
Proof. induction l1 as [|x r IH]; cbn; [reflexivity|]. destruct (f x); [reflexivity|exact IH]. Qed.

Lemma first_some_flat_map {A B C} (f : B -> option C) (g : A -> list B) l :
  first_some f (flat_map g l) = first_some (fun a => first_some f (g a)) l.
Proof.
  induction l as [|x r IH]; cbn; [reflexivity|].
  rewrite first_some_app, IH. reflexivity.
Qed.

(* own layer *)
Lemma get_own_spec s n c : get_own s c n = layer_get s n (sources c).
Proof.
  induction c as [p par _|ms par IH _|l par IH _] using ctx_ind'.
  - cbn. unfold plain_get. destruct (alookup _ _); reflexivity.
  - rewrite sources_multi. unfold layer_get. rewrite first_some_flat_map.
    cbn. induction IH as [|m r Hm _ IHr]; cbn; [reflexivity|].
    rewrite Hm. unfold layer_get. destruct (first_some (plain_get s n) (sources m)); [reflexivity|exact IHr].
  - cbn. exact IH.
Qed.

Lemma get_data_spec s n c : get_data s c n = layers_get s n (flatten c).
Proof.
  induction c as [p par IHp|ms par _ IHp|l par _ IHp] using ctx_ind'.
  - unfold flatten. cbn [get_data chain map layers_get first_some].
    rewrite get_own_spec. destruct (layer_get s n (sources (CPlain p par))); [reflexivity|].
    destruct par as [q|]; [exact IHp|reflexivity].
  - unfold flatten. cbn [get_data chain map layers_get first_some].
    rewrite get_own_spec. destruct (layer_get s n (sources (CMulti ms par))); [reflexivity|].
    destruct par as [q|]; [exact IHp|reflexivity].
  - unfold flatten. cbn [get_data chain map layers_get first_some].
    rewrite get_own_spec. destruct (layer_get s n (sources (CLinked l par))); [reflexivity|].
    destruct par as [q|]; [exact IHp|reflexivity].
Qed.

(* membership looks at the own layer only *)
Definition is_some {A} (o : option A) : bool := match o with Some _ => true | None => false end.

Lemma contains_spec s n c : contains s c n = existsb (fun p => is_some (plain_get s n p)) (sources c).
Proof.
  induction c as [p par _|ms par IH _|l par IH _] using ctx_ind'.
  - cbn. unfold plain_get. destruct (alookup _ _); reflexivity.
  - rewrite sources_multi. cbn. induction IH as [|m r Hm _ IHr]; cbn; [reflexivity|].
    rewrite existsb_app, Hm, IHr. reflexivity.
  - cbn. exact IH.
Qed.

Lemma contains_own s n c : contains s c n = is_some (get_own s c n).
Proof.
  rewrite contains_spec, get_own_spec. unfold layer_get.
  induction (sources c) as [|p r IH]; cbn; [reflexivity|].
  destruct (plain_get s n p); cbn; [reflexivity|exact IH].
Qed.

(* keys() lists exactly the keys of the own layer *)
Lemma smem_In k l : smem k l = true <-> In k l.
Proof.
  induction l as [|x r IH]; cbn; [split; [discriminate|tauto]|].
  rewrite orb_true_iff, IH, str_eqb_spec. split; intros [H|H]; auto.
Qed.

Lemma add_new_In ks acc k : In k (add_new ks acc) <-> In k ks \/ In k acc.
Proof.
  revert acc; induction ks as [|x r IH]; intro acc; cbn; [tauto|].
  destruct (smem x acc) eqn:E; rewrite IH.
  - apply smem_In in E. split; [tauto|]. intros [[->|H]|H]; auto.
  - rewrite in_app_iff. cbn. tauto.
Qed.

Lemma keys_spec s c k :
  In k (keys s c) <-> exists p, In p (sources c) /\ In k (map fst (pdata (sget s p))).
Proof.
  induction c as [p par _|ms par IH _|l par IH _] using ctx_ind'.
  - cbn. split; [intro H; exists p; auto|intros [q [[<-|[]] H]]; exact H].
  - rewrite sources_multi. cbn.
    enough (G : forall acc, In k ((fix go (l : list ctx) (acc : list str) {struct l} : list str :=
                 match l with [] => acc | m :: r => go r (add_new (keys s m) acc) end) ms acc)
               <-> (exists p, In p (flat_map sources ms) /\ In k (map fst (pdata (sget s p)))) \/ In k acc).
    { rewrite G. cbn. tauto. }
    induction IH as [|m r Hm _ IHr]; intro acc; cbn.
    + split; [auto|]. intros [[p [[] _]]|H]; exact H.
    + rewrite IHr, add_new_In, Hm. split.
      * intros [[p [Hp Hk]]|[[p [Hp Hk]]|H]]; auto; left; exists p; rewrite in_app_iff; auto.
      * intros [[p [Hp Hk]]|H]; auto. rewrite in_app_iff in Hp. destruct Hp as [Hp|Hp]; [right; left|left]; exists p; auto.
  - cbn. exact IH.
Qed.

(* ---- functions -------------------------------------------------------------- *)
Lemma fmem_In f l : fmem f l = true <-> In f l.
Proof.
  induction l as [|x r IH]; cbn; [split; [discriminate|tauto]|].
  rewrite orb_true_iff, IH. unfold fdef_eqb. rewrite andb_true_iff, str_eqb_spec, Z.eqb_eq.
  destruct f as [a b], x as [a' b']; cbn. split; intros [H|H]; auto.
  - destruct H; subst; auto.
  - injection H as -> ->. auto.
Qed.

Lemma funion_In a acc f : In f (funion a acc) <-> In f a \/ In f acc.
Proof.
  revert acc; induction a as [|x r IH]; intro acc; cbn; [tauto|].
  destruct (fmem x acc) eqn:E; rewrite IH.
  - apply fmem_In in E. split; [tauto|]. intros [[->|H]|H]; auto.
  - rewrite in_app_iff. cbn. tauto.
Qed.

Definition plain_has_fn (s : store) (n : str) (f : fdef) (p : pid) : Prop :=
  In f (pfuncs (sget s p)) /\ fst f = rstrip_us n.

Lemma get_functions_spec s n c f :
  In f (fst (get_functions s c n)) <-> exists p, In p (sources c) /\ plain_has_fn s n f p.
Proof.
  induction c as [p par _|ms par IH _|l par IH _] using ctx_ind'.
  - cbn. rewrite filter_In, str_eqb_spec. unfold plain_has_fn.
    split; [intro H; exists p; tauto|intros [q [[<-|[]] H]]; exact H].
  - rewrite sources_multi. cbn.
    enough (G : forall acc ex, In f (fst ((fix go (l : list ctx) (acc : list fdef) (ex : bool) {struct l} : list fdef * bool :=
                 match l with [] => (acc, ex)
                 | m :: r => let '(fs, e) := get_functions s m n in go r (funion fs acc) (ex || e) end) ms acc ex))
               <-> (exists p, In p (flat_map sources ms) /\ plain_has_fn s n f p) \/ In f acc).
    { rewrite G. cbn. tauto. }
    induction IH as [|m r Hm _ IHr]; intros acc ex; cbn.
    + split; [auto|]. intros [[p [[] _]]|H]; exact H.
    + destruct (get_functions s m n) as [fs e] eqn:E. rewrite IHr, funion_In. cbn in Hm. rewrite Hm. split.
      * intros [[p [Hp Hk]]|[[p [Hp Hk]]|H]]; auto; left; exists p; rewrite in_app_iff; auto.
      * intros [[p [Hp Hk]]|H]; auto. rewrite in_app_iff in Hp. destruct Hp as [Hp|Hp]; [right; left|left]; exists p; auto.
  - cbn. exact IH.
Qed.

Lemma get_functions_excl s n c :
  snd (get_functions s c n) = existsb (fun p => smem (rstrip_us n) (pexcl (sget s p))) (sources c).
Proof.
  induction c as [p par _|ms par IH _|l par IH _] using ctx_ind'.
  - cbn. rewrite orb_false_r. reflexivity.
  - rewrite sources_multi. cbn.
    enough (G : forall acc ex, snd ((fix go (l : list ctx) (acc : list fdef) (ex : bool) {struct l} : list fdef * bool :=
                 match l with [] => (acc, ex)
                 | m :: r => let '(fs, e) := get_functions s m n in go r (funion fs acc) (ex || e) end) ms acc ex)
               = ex || existsb (fun p => smem (rstrip_us n) (pexcl (sget s p))) (flat_map sources ms)).
    { rewrite G. reflexivity. }
    induction IH as [|m r Hm _ IHr]; intros acc ex; cbn.
    + rewrite orb_false_r. reflexivity.
    + destruct (get_functions s m n) as [fs e] eqn:E. rewrite IHr, existsb_app. cbn in Hm. rewrite Hm.
      rewrite orb_assoc. reflexivity.
  - cbn. exact IH.
Qed.

(* collect_functions: the layers' overload sets nearest first, cut after the
   first exclusive layer, empty layers dropped *)
Fixpoint collect_spec (layers : list (list fdef * bool)) : list (list fdef) :=
  match layers with
  | [] => []
  | (fs, ex) :: r =>
      let rest := if ex then [] else collect_spec r in
      match fs with [] => rest | _ => fs :: rest end
  end.

Lemma collect_functions_spec s n c :
  collect_functions s c n = collect_spec (map (fun c' => get_functions s c' n) (chain c)).
Proof.
  induction c as [p par IHp|ms par _ IHp|l par _ IHp] using ctx_ind';
    cbn [collect_functions chain map collect_spec];
    match goal with |- context [get_functions s ?c n] => destruct (get_functions s c n) as [fs ex] end;
    destruct ex; try reflexivity;
    destruct par as [q|]; cbn in IHp; try rewrite IHp; reflexivity.
Qed.

Lemma collect_pred_spec pred s n c :
  collect_pred pred s c n
  = collect_spec (map (fun c' => (filter pred (fst (get_functions s c' n)), snd (get_functions s c' n))) (chain c)).
Proof.
  induction c as [p par IHp|ms par _ IHp|l par _ IHp] using ctx_ind';
    cbn [collect_pred chain map collect_spec];
    match goal with |- context [get_functions s ?c n] => destruct (get_functions s c n) as [fs ex] end;
    cbn [fst snd]; destruct ex; destruct (filter pred fs); try reflexivity;
    destruct par as [q|]; cbn in IHp; try rewrite IHp; reflexivity.
Qed.

(* ---- construction ------------------------------------------------------------ *)
Lemma flatten_cons c :
  flatten c = sources c :: match parent_of c with Some p => flatten p | None => [] end.
Proof. destruct c as [p [q|]|ms [q|]|l [q|]]; reflexivity. Qed.

Lemma depth_pos c : 1 <= depth c.
Proof. destruct c as [p [q|]|ms [q|]|l [q|]]; cbn; lia. Qed.

Lemma depth_parent c p : parent_of c = Some p -> depth c = S (depth p).
Proof. destruct c as [x [q|]|ms [q|]|l [q|]]; cbn; intro H; inversion H; reflexivity. Qed.

(* LinkedContext(parent, linked): the linked chain followed by the parent chain *)
Lemma new_linked_flatten_aux k : forall par l, depth l <= k ->
  flatten (new_linked par l) = flatten l ++ match par with Some p => flatten p | None => [] end.
Proof.
  induction k as [|k IH]; intros par l Hd; [pose proof (depth_pos l); lia|].
  destruct l as [x [q|]|ms [q|]|x [q|]]; cbn [new_linked];
    rewrite flatten_cons; cbn [parent_of sources];
    try (rewrite IH by (cbn in Hd; lia)); reflexivity.
Qed.

Lemma new_linked_flatten par l :
  flatten (new_linked par l) = flatten l ++ match par with Some p => flatten p | None => [] end.
Proof. apply (new_linked_flatten_aux (depth l)). lia. Qed.

(* MultiContext(members): layer k is the concatenation of the members' k-th layers *)
Definition heads (ls : list (list (list pid))) : list pid :=
  flat_map (fun l => match l with [] => [] | x :: _ => x end) ls.
Definition tails (ls : list (list (list pid))) : list (list (list pid)) :=
  flat_map (fun l => match l with [] | [_] => [] | _ :: r => [r] end) ls.
Fixpoint zipmerge (fuel : nat) (ls : list (list (list pid))) : list (list pid) :=
  match fuel with
  | O => []
  | S f => match ls with [] => [] | _ => heads ls :: zipmerge f (tails ls) end
  end.

Lemma heads_flatten ms : heads (map flatten ms) = flat_map sources ms.
Proof.
  unfold heads. induction ms as [|m r IH]; cbn; [reflexivity|].
  rewrite flatten_cons. cbn. f_equal. exact IH.
Qed.

Lemma tails_flatten ms : tails (map flatten ms) = map flatten (filter_parents ms).
Proof.
  unfold tails. induction ms as [|m r IH]; cbn; [reflexivity|].
  rewrite flatten_cons. destruct (parent_of m) as [p|] eqn:E; cbn.
  - rewrite (flatten_cons p). cbn. f_equal. exact IH.
  - exact IH.
Qed.

Lemma max_depth_cons m r : max_depth (m :: r) = Nat.max (depth m) (max_depth r).
Proof. reflexivity. Qed.

Lemma max_depth_parents ms k : max_depth ms <= S k -> max_depth (filter_parents ms) <= k.
Proof.
  induction ms as [|m r IH]; [cbn; lia|]. rewrite max_depth_cons. intro H.
  cbn [filter_parents]. destruct (parent_of m) as [p|] eqn:E.
  - rewrite max_depth_cons. apply depth_parent in E. lia.
  - apply IH. lia.
Qed.

Lemma zipmerge_single k c : depth c <= k -> zipmerge k [flatten c] = flatten c.
Proof.
  revert c; induction k as [|k IH]; intros c Hd; [pose proof (depth_pos c); lia|].
  cbn [zipmerge]. rewrite (flatten_cons c) at 1. unfold heads, tails. cbn [flat_map]. rewrite app_nil_r.
  rewrite (flatten_cons c). f_equal.
  destruct (parent_of c) as [p|] eqn:E.
  - apply depth_parent in E. rewrite app_nil_r.
    assert (F : match flatten p with [] => [] | _ :: _ => [flatten p] end = [flatten p])
      by (rewrite (flatten_cons p); reflexivity).
    rewrite F. apply IH. lia.
  - cbn. destruct k; reflexivity.
Qed.

Lemma max_depth_nonempty ms : ms <> [] -> 1 <= max_depth ms.
Proof. destruct ms as [|m r]; [congruence|]. intros _. rewrite max_depth_cons. pose proof (depth_pos m). lia. Qed.

Lemma mk_multi_flatten k : forall ms, ms <> [] -> max_depth ms <= k ->
  flatten (mk_multi k ms) = zipmerge k (map flatten ms).
Proof.
  induction k as [|k IH]; intros ms Hne Hd; [pose proof (max_depth_nonempty ms Hne); lia|].
  cbn [mk_multi zipmerge].
  destruct (map flatten ms) as [|x xs] eqn:Em; [destruct ms; [congruence|discriminate]|].
  rewrite <- Em. rewrite heads_flatten, tails_flatten.
  pose proof (max_depth_parents ms k Hd) as Hp.
  destruct (filter_parents ms) as [|p [|p2 ps]] eqn:Ef.
  - rewrite flatten_cons. cbn [parent_of]. rewrite sources_multi. cbn. destruct k; reflexivity.
  - rewrite flatten_cons. cbn [parent_of]. rewrite sources_multi. f_equal.
    cbn [map]. symmetry. apply zipmerge_single. cbn in Hp. lia.
  - rewrite flatten_cons. cbn [parent_of]. rewrite sources_multi. f_equal.
    apply IH; [discriminate|exact Hp].
Qed.

Lemma new_multi_flatten ms : ms <> [] ->
  flatten (new_multi ms) = zipmerge (max_depth ms) (map flatten ms).
Proof. intro H. apply mk_multi_flatten; [exact H|lia]. Qed.

(* create_child_context: a new empty layer in front *)
Lemma create_child_flatten s c : flatten (snd (create_child s c)) = [length s] :: flatten c.
Proof. reflexivity. Qed.

(* ---- writes ------------------------------------------------------------------ *)
(* own-structure well-formedness: every MultiContext has at least one member
   (MultiContext([]) raises IndexError in its constructor) *)
Fixpoint wfo (c : ctx) : Prop :=
  match c with
  | CPlain _ _ => True
  | CMulti ms _ => ms <> [] /\ (fix go (l : list ctx) : Prop := match l with [] => True | m :: r => wfo m /\ go r end) ms
  | CLinked l _ => wfo l
  end.

Lemma wfo_multi ms par : wfo (CMulti ms par) <-> ms <> [] /\ Forall wfo ms.
Proof.
  cbn. split; intros [H1 H2]; split; auto.
  - induction ms as [|m r IH]; [constructor|]. destruct H2 as [Hm Hr]. constructor; [exact Hm|].
    destruct r; [constructor|]. apply IH; [discriminate|exact Hr].
  - clear H1. induction H2 as [|m r Hm _ IH]; [exact I|]. split; assumption.
Qed.

Lemma target_sources c : wfo c -> exists p, target c = Some p /\ exists r, sources c = p :: r.
Proof.
  induction c as [p par _|ms par IH _|l par IH _] using ctx_ind'; intro W.
  - exists p. split; [reflexivity|exists []; reflexivity].
  - apply wfo_multi in W as [Hne Hall]. rewrite sources_multi.
    destruct ms as [|m r]; [congruence|]. inversion IH as [|? ? Hm _]; subst. inversion Hall as [|? ? Wm _]; subst.
    destruct (Hm Wm) as [p [Ht [r' Hs]]]. exists p. cbn [target flat_map]. split; [exact Ht|].
    rewrite Hs. eexists. reflexivity.
  - cbn. apply IH. exact W.
Qed.

Lemma supd_length s p f : length (supd s p f) = length s.
Proof. revert p; induction s as [|x r IH]; intros [|p]; cbn; auto. Qed.

Lemma sget_supd_same s p f : p < length s -> sget (supd s p f) p = f (sget s p).
Proof.
  unfold sget. revert p; induction s as [|x r IH]; intros [|p] H; cbn in *; try lia; [reflexivity|].
  apply IH. lia.
Qed.

Lemma sget_supd_other s p q f : p <> q -> sget (supd s p f) q = sget s q.
Proof.
  unfold sget. revert p q; induction s as [|x r IH]; intros [|p] [|q] H; cbn; try reflexivity; try congruence.
  apply IH. congruence.
Qed.

Lemma alookup_aset_same k v l : alookup k (aset k v l) = Some v.
Proof.
  induction l as [|[k' v'] r IH]; cbn.
  - rewrite str_eqb_refl. reflexivity.
  - destruct (str_eqb k k') eqn:E; cbn; [rewrite str_eqb_refl; reflexivity|rewrite E; exact IH].
Qed.

Lemma alookup_aset_other k k' v l : k' <> k -> alookup k' (aset k v l) = alookup k' l.
Proof.
  intro H. induction l as [|[k2 v2] r IH]; cbn.
  - apply str_eqb_neq in H. rewrite H. reflexivity.
  - destruct (str_eqb k k2) eqn:E; cbn.
    + apply str_eqb_spec in E. subst k2. apply str_eqb_neq in H. rewrite H. reflexivity.
    + destruct (str_eqb k' k2); [reflexivity|exact IH].
Qed.

(* ctx[n] = v writes into the first plain context of the own layer, and nothing else *)
Lemma set_data_spec s c n v : wfo c ->
  exists p r, sources c = p :: r /\
    set_data s c n v =
      (supd s p (fun st => {| pdata := aset (normalize n) v (pdata st); pfuncs := pfuncs st; pexcl := pexcl st |}), Done).
Proof.
  intro W. destruct (target_sources c W) as [p [Ht [r Hs]]]. exists p, r. split; [exact Hs|].
  unfold set_data. rewrite Ht. reflexivity.
Qed.

Lemma set_then_get s c n v s' : wfo c -> Forall (fun p => p < length s) (sources c) ->
  fst (set_data s c n v) = s' -> get_own s' c n = Some v.
Proof.
  intros W B E. destruct (set_data_spec s c n v W) as [p [r [Hs Hset]]]. rewrite Hset in E. cbn in E. subst s'.
  rewrite get_own_spec, Hs. unfold layer_get. cbn [first_some]. unfold plain_get.
  rewrite Hs in B. inversion B as [|? ? Hp _]; subst.
  rewrite sget_supd_same by exact Hp. cbn [pdata]. rewrite alookup_aset_same. reflexivity.
Qed.

Lemma set_frame s c n v q n' : wfo c ->
  (hd_error (sources c) <> Some q \/ normalize n' <> normalize n) ->
  plain_get (fst (set_data s c n v)) n' q = plain_get s n' q.
Proof.
  intros W H. destruct (set_data_spec s c n v W) as [p [r [Hs Hset]]]. rewrite Hset. cbn [fst].
  unfold plain_get. destruct (Nat.eq_dec p q) as [->|Hpq].
  - destruct H as [H|H]; [rewrite Hs in H; cbn in H; congruence|].
    destruct (Nat.lt_ge_cases q (length s)) as [Hl|Hl].
    + rewrite sget_supd_same by exact Hl. cbn [pdata]. apply alookup_aset_other. exact H.
    + unfold sget. rewrite !nth_overflow; [reflexivity|lia|rewrite supd_length; lia].
  - rewrite sget_supd_other by exact Hpq. reflexivity.
Qed.

Lemma set_keeps_functions s c n v q : wfo c ->
  pfuncs (sget (fst (set_data s c n v)) q) = pfuncs (sget s q) /\
  pexcl (sget (fst (set_data s c n v)) q) = pexcl (sget s q).
Proof.
  intros W. destruct (set_data_spec s c n v W) as [p [r [Hs Hset]]]. rewrite Hset. cbn [fst].
  destruct (Nat.eq_dec p q) as [->|Hpq].
  - destruct (Nat.lt_ge_cases q (length s)) as [Hl|Hl].
    + rewrite sget_supd_same by exact Hl. split; reflexivity.
    + unfold sget. rewrite !nth_overflow; [split; reflexivity|lia|rewrite supd_length; lia].
  - rewrite sget_supd_other by exact Hpq. split; reflexivity.
Qed.

(* ---- del ctx[n] ----------------------------------------------------------------- *)
Lemma alookup_aremove_same k l : alookup k (aremove k l) = None.
Proof.
  induction l as [|[k' v'] r IH]; cbn; [reflexivity|].
  destruct (str_eqb k k') eqn:E; cbn; [exact IH|rewrite E; exact IH].
Qed.

Lemma alookup_aremove_other k k' l : k' <> k -> alookup k' (aremove k l) = alookup k' l.
Proof.
  intro H. induction l as [|[k2 v2] r IH]; cbn; [reflexivity|].
  destruct (str_eqb k k2) eqn:E; cbn.
  - apply str_eqb_spec in E. subst k2. apply str_eqb_neq in H. rewrite H. exact IH.
  - destruct (str_eqb k' k2); [reflexivity|exact IH].
Qed.

Definition del_ok (n : str) (c : ctx) : Prop :=
  forall s, let s' := fst (del_data s c n) in let o := snd (del_data s c n) in
    length s' = length s
    /\ ((o = Done /\ contains s c n = true) \/ (o = KeyErr /\ contains s c n = false /\ s' = s))
    /\ (forall q n', normalize n' <> normalize n -> plain_get s' n' q = plain_get s n' q)
    /\ (forall q, ~ In q (sources c) -> sget s' q = sget s q)
    /\ (forall q, In q (sources c) -> plain_get s' n q = None)
    /\ (forall q, pfuncs (sget s' q) = pfuncs (sget s q) /\ pexcl (sget s' q) = pexcl (sget s q)).

Lemma sget_overflow s q : length s <= q -> sget s q = empty_pstate.
Proof. intro H. unfold sget. apply nth_overflow. exact H. Qed.

Lemma del_plain_ok n p par : del_ok n (CPlain p par).
Proof.
  intro s. cbn [del_data contains sources].
  destruct (alookup (normalize n) (pdata (sget s p))) as [v|] eqn:E; cbn [fst snd].
  - repeat split.
    + apply supd_length.
    + left. split; reflexivity.
    + intros q n' Hn. unfold plain_get. destruct (Nat.eq_dec p q) as [->|Hpq].
      * destruct (Nat.lt_ge_cases q (length s)) as [Hl|Hl].
        -- rewrite sget_supd_same by exact Hl. cbn [pdata]. apply alookup_aremove_other. exact Hn.
        -- rewrite !sget_overflow; [reflexivity|lia|rewrite supd_length; lia].
      * rewrite sget_supd_other by exact Hpq. reflexivity.
    + intros q Hq. apply sget_supd_other. intro. subst. apply Hq. left. reflexivity.
    + intros q [<-|[]]. unfold plain_get. destruct (Nat.lt_ge_cases p (length s)) as [Hl|Hl].
      * rewrite sget_supd_same by exact Hl. cbn [pdata]. apply alookup_aremove_same.
      * rewrite sget_overflow by (rewrite supd_length; lia). reflexivity.
    + destruct (Nat.eq_dec p q) as [->|Hpq].
      * destruct (Nat.lt_ge_cases q (length s)) as [Hl|Hl].
        -- rewrite sget_supd_same by exact Hl. reflexivity.
        -- rewrite !sget_overflow; [reflexivity|lia|rewrite supd_length; lia].
      * rewrite sget_supd_other by exact Hpq. reflexivity.
    + destruct (Nat.eq_dec p q) as [->|Hpq].
      * destruct (Nat.lt_ge_cases q (length s)) as [Hl|Hl].
        -- rewrite sget_supd_same by exact Hl. reflexivity.
        -- rewrite !sget_overflow; [reflexivity|lia|rewrite supd_length; lia].
      * rewrite sget_supd_other by exact Hpq. reflexivity.
  - split; [reflexivity|]. split; [right; repeat split; reflexivity|].
    split; [reflexivity|]. split; [reflexivity|]. split; [|split; reflexivity].
    intros q [<-|[]]. exact E.
Qed.

Lemma plain_get_none_of_contains s n c :
  contains s c n = false -> forall q, In q (sources c) -> plain_get s n q = None.
Proof.
  rewrite contains_spec. intros H q Hq.
  destruct (plain_get s n q) eqn:E; [|reflexivity].
  assert (existsb (fun p => is_some (plain_get s n p)) (sources c) = true).
  { apply existsb_exists. exists q. split; [exact Hq|rewrite E; reflexivity]. }
  congruence.
Qed.

Lemma del_ok_all n c : del_ok n c.
Proof.
  induction c as [p par _|ms par IH _|l par IH _] using ctx_ind'.
  - apply del_plain_ok.
  - intro s. rewrite sources_multi. cbn [del_data contains].
    set (go := fix go (l : list ctx) (s : store) (found : bool) {struct l} : store * outcome :=
           match l with
           | [] => (s, if found then Done else KeyErr)
           | m :: r => if contains s m n then let '(s', _) := del_data s m n in go r s' true else go r s found
           end).
    set (cany := fix go (l : list ctx) : bool := match l with [] => false | m :: r => contains s m n || go r end).
    (* loop invariant, generalised over the current store and flag *)
    assert (L : forall l, Forall (del_ok n) l -> forall s0 found,
               let s' := fst (go l s0 found) in let o := snd (go l s0 found) in
               length s' = length s0
               /\ (found = true -> o = Done)
               /\ (found = false ->
                     (o = Done /\ existsb (fun m => contains s0 m n) l = true)
                     \/ (o = KeyErr /\ existsb (fun m => contains s0 m n) l = false /\ s' = s0))
               /\ (forall q n', normalize n' <> normalize n -> plain_get s' n' q = plain_get s0 n' q)
               /\ (forall q, ~ In q (flat_map sources l) -> sget s' q = sget s0 q)
               /\ (forall q, plain_get s0 n q = None \/ In q (flat_map sources l) -> plain_get s' n q = None)
               /\ (forall q, pfuncs (sget s' q) = pfuncs (sget s0 q) /\ pexcl (sget s' q) = pexcl (sget s0 q))).
    { clear IH. intros l Hl. induction Hl as [|m r Hm _ IHr]; intros s0 found; cbn [go flat_map existsb].
      - cbn [fst snd]. split; [reflexivity|]. split; [intros ->; reflexivity|].
        split; [intros ->; right; repeat split; reflexivity|].
        split; [reflexivity|]. split; [reflexivity|]. split; [|split; reflexivity].
        intros q [H|[]]. exact H.
      - destruct (contains s0 m n) eqn:Ec.
        + specialize (Hm s0). cbn zeta in Hm. destruct (del_data s0 m n) as [s1 o1]. cbn [fst snd] in Hm.
          destruct Hm as [Hlen [_ [Hfr [Hoth [Hclr Hfn]]]]].
          specialize (IHr s1 true). cbn zeta in IHr.
          destruct IHr as [Jlen [Jf [_ [Jfr [Joth [Jclr Jfn]]]]]].
          split; [congruence|]. split; [intros _; apply Jf; reflexivity|].
          split; [intros _; left; split; [apply Jf; reflexivity|reflexivity]|].
          split; [intros q n' Hn; rewrite Jfr by exact Hn; apply Hfr; exact Hn|].
          split; [intros q Hq; rewrite in_app_iff in Hq; rewrite Joth by tauto; apply Hoth; tauto|].
          split.
          * intros q Hq. apply Jclr. rewrite in_app_iff in Hq.
            destruct (in_dec Nat.eq_dec q (sources m)) as [Hin|Hnin].
            -- left. apply Hclr. exact Hin.
            -- destruct Hq as [Hq|[Hq|Hq]]; [left|contradiction|right; exact Hq].
               unfold plain_get. rewrite Hoth by exact Hnin. exact Hq.
          * intro q. destruct (Jfn q) as [A B]. destruct (Hfn q) as [A' B']. split; congruence.
        + specialize (IHr s0 found). cbn zeta in IHr.
          destruct IHr as [Jlen [Jf [Jnf [Jfr [Joth [Jclr Jfn]]]]]].
          split; [exact Jlen|]. split; [exact Jf|]. split; [exact Jnf|]. split; [exact Jfr|].
          split; [intros q Hq; rewrite in_app_iff in Hq; apply Joth; tauto|].
          split; [|exact Jfn].
          intros q Hq. apply Jclr. rewrite in_app_iff in Hq. destruct Hq as [Hq|[Hq|Hq]]; auto.
          left. apply (plain_get_none_of_contains s0 n m Ec). exact Hq. }
    specialize (L ms IH s false). cbn zeta in L.
    destruct L as [Llen [_ [Lnf [Lfr [Loth [Lclr Lfn]]]]]].
    assert (Ecany : cany ms = existsb (fun m => contains s m n) ms).
    { clear. induction ms as [|m r IHm]; cbn; [reflexivity|]. rewrite IHm. reflexivity. }
    fold cany. rewrite Ecany.
    split; [exact Llen|]. split; [destruct (Lnf eq_refl) as [[A B]|[A [B C]]]; [left|right]; auto|].
    split; [exact Lfr|]. split; [exact Loth|]. split; [|exact Lfn].
    intros q Hq. apply Lclr. right. exact Hq.
  - intro s. cbn [del_data contains sources]. apply IH.
Qed.
