(* parse depends on the table only through the ranks it assigns: two tables that give every
   symbol the same prefix, suffix and binary rank (and the same delegate-call rank) parse
   every token list to the same tree.  Semantic proof: wf depends only on the ranks, and the
   parser's tree is the unique wf tree of the text (PrattWf, PrattShape, PrattUniqueFull). *)
From Coq Require Import List ZArith Bool Arith Lia.
From YV Require Import Common.Corr Model.OpTable Model.Pratt.
From YV Require Import Lemmas.PrattYield Lemmas.PrattWf Lemmas.PrattShape Lemmas.PrattUnique Lemmas.PrattUniqueFull.
Import ListNotations.

Definition same_ranks (T T' : table) : Prop :=
  (forall o, pre T o = pre T' o) /\ (forall o, suf T o = suf T' o) /\
  (forall o, bin T o = bin T' o) /\ callr T = callr T'.

Lemma same_ranks_sym : forall T T', same_ranks T T' -> same_ranks T' T.
Proof. intros T T' [A [B [C D]]]. repeat split; intros; symmetry; auto. Qed.

Section Ext.
Variables T T' : table.
Hypothesis SR : same_ranks T T'.

Lemma rs_ok_ext : forall t x, rs_ok T t x -> rs_ok T' t x.
Proof.
  destruct SR as [Hp [Hs [Hb Hc]]].
  intros t x. induction x; cbn [rs_ok]; auto.
  - intros [[q [Q R]] H]. split; [exists q; rewrite <- Hp; auto|auto].
  - intros [[q [Q R]] H]. split; [exists q; rewrite <- Hb; auto|auto].
Qed.

Lemma ls_ok_ext : forall p x, ls_ok T p x -> ls_ok T' p x.
Proof.
  destruct SR as [Hp [Hs [Hb Hc]]].
  intros p x. induction x; cbn [ls_ok]; auto.
  - intros [[q [Q R]] H]. split; [exists q; rewrite <- Hs; auto|auto].
  - intros [[q [Q R]] H]. split; [exists q; rewrite <- Hb; auto|auto].
  - intros [[q [Q R]] H]. split; [exists q; rewrite <- Hb; auto|auto].
  - intros [[q [Q R]] H]. split; [exists q; rewrite <- Hc; auto|auto].
Qed.

Lemma wf_ext : (forall t, wf T t -> wf T' t) /\ (forall a, wf_args T a -> wf_args T' a).
Proof.
  destruct SR as [Hp [Hs [Hb Hc]]].
  apply tree_args_ind.
  - intros a W. exact I.
  - intros o x IH [q [Q [W L]]].
    refine (ex_intro _ q (conj _ (conj (IH W) (ls_ok_ext _ _ L)))). rewrite <- Hp. exact Q.
  - intros o x IH [q [Q [B [W R]]]].
    refine (ex_intro _ q (conj _ (conj _ (conj (IH W) (rs_ok_ext _ _ R))))); [rewrite <- Hs; exact Q|rewrite <- Hb; exact B].
  - intros o l IHl r IHr [q [Q [Wl [Wr [R L]]]]].
    refine (ex_intro _ q (conj _ (conj (IHl Wl) (conj (IHr Wr) (conj (rs_ok_ext _ _ R) (ls_ok_ext _ _ L)))))).
    rewrite <- Hb. exact Q.
  - intros x IH W. exact (IH W).
  - intros x IHx a IHa [q [Q [W [R Wa]]]].
    refine (ex_intro _ q (conj _ (conj (IHx W) (conj (rs_ok_ext _ _ R) (IHa Wa))))). rewrite <- Hb. exact Q.
  - intros a IHa W. exact (IHa W).
  - intros a IHa W. exact (IHa W).
  - intros g a IHa W. exact (IHa W).
  - intros x IHx a IHa [q [Q [W [R Wa]]]].
    refine (ex_intro _ q (conj _ (conj (IHx W) (conj (rs_ok_ext _ _ R) (IHa Wa))))). rewrite <- Hc. exact Q.
  - intros W. exact I.
  - intros r IHr W. exact (IHr W).
  - intros x IHx r IHr [W Wr]. exact (conj (IHx W) (IHr Wr)).
  - intros k IHk v IHv r IHr [Wk [Wv Wr]]. exact (conj (IHk Wk) (conj (IHv Wv) (IHr Wr))).
Qed.
End Ext.

Theorem parse_ext : forall T T', same_ranks T T' -> forall ts, parse T ts = parse T' ts.
Proof.
  assert (Half : forall T T', same_ranks T T' -> forall ts t, parse T ts = Some t -> parse T' ts = Some t).
  { intros T T' SR ts t H.
    pose proof (parse_wf T ts t H) as W. pose proof (parse_shaped T ts t H) as S.
    pose proof (parse_yield T ts t H) as Y.
    rewrite <- Y. apply parse_unique; [|exact S]. exact (proj1 (wf_ext T T' SR) t W). }
  intros T T' SR ts.
  destruct (parse T ts) as [t|] eqn:E1.
  - symmetry. exact (Half T T' SR ts t E1).
  - destruct (parse T' ts) as [t'|] eqn:E2; [|reflexivity].
    rewrite (Half T' T (same_ranks_sym T T' SR) ts t' E2) in E1. discriminate.
Qed.

(* ply token names and aliases play no part *)
Lemma lookup_strip : forall s l, lookup_row s (map strip_row l) = option_map strip_row (lookup_row s l).
Proof.
  intros s l. induction l as [|y l IH]; [reflexivity|]. cbn [map lookup_row strip_row b_sym].
  destruct (str_eqb (b_sym y) s); [reflexivity|exact IH].
Qed.

Lemma strip_names_same_ranks : forall B, same_ranks (table_of B) (table_of (strip_names B)).
Proof.
  intro B. unfold same_ranks, table_of, strip_names, pre_rank, suf_rank, bin_rank. cbn [pre suf bin callr rows].
  repeat split; intros o; rewrite lookup_strip; destruct (lookup_row o (rows B)); reflexivity.
Qed.
